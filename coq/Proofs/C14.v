(** C14 proofs: Parsed-level logic of Model/Parsed.v (setters, resolve_year, which verifier checks
    which field) and the soundness / completeness theorems of field resolution. *)
From Coq Require Import ZArith List Bool Lia ZifyBool.
From V Require Import Base.Int Base.IntLemmas Base.IO Model.TimeDelta.
From V Require Model.Date Model.Time.
From V Require Import Model.DateTime Model.Parsed.
Import ListNotations.
Open Scope Z_scope.
Ltac Zify.zify_post_hook ::= Z.to_euclidean_division_equations.

(** * Field record *)
Lemma pget_pput_same f v p : pget f (pput f v p) = v.
Proof. destruct f; reflexivity. Qed.
Lemma pget_pput_other f g v p : f <> g -> pget g (pput f v p) = pget g p.
Proof. intros H. destruct f, g; try reflexivity; congruence. Qed.

(** * set_if_consistent: accepted exactly when the field is empty or holds the same value *)
Lemma set_if_consistent_ok f p v :
  snd (set_if_consistent f p v) = Ok tt <-> (pget f p = None \/ pget f p = Some v).
Proof.
  unfold set_if_consistent. destruct (pget f p) as [old|] eqn:E.
  - destruct (old =? v) eqn:E2; cbn [negb snd]; split; intros H.
    + right. f_equal. lia.
    + reflexivity.
    + discriminate.
    + destruct H as [H|H]; [discriminate|]. inversion H. lia.
  - cbn [snd]. split; auto.
Qed.
Lemma set_if_consistent_err f p v :
  snd (set_if_consistent f p v) = Ok tt \/
  (snd (set_if_consistent f p v) = Err Impossible /\ fst (set_if_consistent f p v) = p).
Proof.
  unfold set_if_consistent. destruct (pget f p) as [old|]; [|left; reflexivity].
  destruct (old =? v); cbn [negb fst snd]; [left|right]; auto.
Qed.
Lemma set_if_consistent_state f p v :
  snd (set_if_consistent f p v) = Ok tt -> pget f (fst (set_if_consistent f p v)) = Some v.
Proof.
  unfold set_if_consistent. destruct (pget f p) as [old|].
  - destruct (old =? v); cbn [negb fst snd]; [intros _; apply pget_pput_same|discriminate].
  - intros _. apply pget_pput_same.
Qed.

(** Setting a field twice is accepted exactly when the two values are equal. *)
Theorem set_twice_iff_equal f p v w :
  pget f p = None ->
  let p1 := fst (set_if_consistent f p v) in
  snd (set_if_consistent f p v) = Ok tt /\
  (snd (set_if_consistent f p1 w) = Ok tt <-> w = v) /\
  (w <> v -> snd (set_if_consistent f p1 w) = Err Impossible /\ fst (set_if_consistent f p1 w) = p1).
Proof.
  intros Hn p1.
  assert (H1 : snd (set_if_consistent f p v) = Ok tt) by (apply set_if_consistent_ok; auto).
  pose proof (set_if_consistent_state f p v H1) as Hs. fold p1 in Hs.
  split; [exact H1|]. split.
  - rewrite set_if_consistent_ok. rewrite Hs. split.
    + intros [H|H]; [discriminate|]. inversion H. reflexivity.
    + intros ->. right. reflexivity.
  - intros Hne. destruct (set_if_consistent_err f p1 w) as [H|H]; [|exact H].
    apply set_if_consistent_ok in H. rewrite Hs in H. destruct H as [H|H]; [discriminate|].
    inversion H. congruence.
Qed.

(** * Setters with a range check *)
Lemma contains_spec lo hi v : contains lo hi v = true <-> lo <= v <= hi.
Proof. unfold contains. lia. Qed.

Lemma set_checked_out f lo hi cast p v :
  ~ (lo <= v <= hi) -> set_checked f lo hi cast p v = (p, Err OutOfRange).
Proof.
  intros H. unfold set_checked. destruct (contains lo hi v) eqn:E; [apply contains_spec in E; lia|reflexivity].
Qed.
Lemma set_checked_in f lo hi cast p v :
  lo <= v <= hi -> set_checked f lo hi cast p v = set_if_consistent f p (cast v).
Proof.
  intros H. unfold set_checked. destruct (contains lo hi v) eqn:E; [reflexivity|].
  assert (contains lo hi v = true) by (apply contains_spec; exact H). congruence.
Qed.
(** a range-checked setter accepts a value exactly when it is in the documented range and the
    field is empty or already holds it; a refused call leaves the fields unchanged *)
Lemma set_checked_ok f lo hi cast p v :
  snd (set_checked f lo hi cast p v) = Ok tt <->
  (lo <= v <= hi /\ (pget f p = None \/ pget f p = Some (cast v))).
Proof.
  destruct (Z_le_dec lo v) as [H1|H1]; [destruct (Z_le_dec v hi) as [H2|H2]|].
  - rewrite set_checked_in by lia. rewrite set_if_consistent_ok. intuition.
  - rewrite set_checked_out by lia. cbn [snd]. split; [discriminate|lia].
  - rewrite set_checked_out by lia. cbn [snd]. split; [discriminate|lia].
Qed.
Lemma set_checked_result f lo hi cast p v :
  match snd (set_checked f lo hi cast p v) with
  | Ok _ => lo <= v <= hi /\ fst (set_checked f lo hi cast p v) = pput f (Some (cast v)) p
  | Err OutOfRange => ~ (lo <= v <= hi) /\ fst (set_checked f lo hi cast p v) = p
  | Err Impossible => lo <= v <= hi /\ (exists old, pget f p = Some old /\ old <> cast v)
                      /\ fst (set_checked f lo hi cast p v) = p
  | Err _ => False
  end.
Proof.
  unfold set_checked. destruct (contains lo hi v) eqn:E; cbn [negb].
  - apply contains_spec in E. unfold set_if_consistent. destruct (pget f p) as [old|] eqn:Eo.
    + destruct (old =? cast v) eqn:E2; cbn [negb fst snd].
      * split; [exact E|reflexivity].
      * split; [exact E|]. split; [|reflexivity]. exists old. split; [reflexivity|lia].
    + cbn [fst snd]. split; [exact E|reflexivity].
  - cbn [fst snd]. split; [|reflexivity]. intros H. apply contains_spec in H. congruence.
Qed.

(** the casts of the setters are the identity on the accepted ranges *)
Lemma as_i32_small v : 0 <= v <= i32_max -> as_i32 v = v.
Proof. intros H. apply as_i32_id. unfold in_i32, in_range, i32_min, i32_max in *. lia. Qed.
Lemma as_u32_small v : 0 <= v <= u32_max -> as_u32 v = v.
Proof. intros H. apply as_u32_id. unfold in_u32, in_range, u32_max in *. lia. Qed.

(** * set_hour: 24-hour clock *)
Lemma set_hour_no_panic p v : set_hour p v <> Panic /\ set_hour p v <> OutOfFuel.
Proof.
  unfold set_hour. destruct (contains 0 11 v) eqn:E1.
  - cbn [bind]. destruct (set_if_consistent F_hour_div_12 p 0) as [p1 [u|e]]; split; discriminate.
  - destruct (contains 12 23 v) eqn:E2.
    + apply contains_spec in E2. rewrite as_u32_small by (unfold u32_max; lia).
      unfold sub_u32, chk. replace (in_u32 (v - 12)) with true by (unfold in_u32, in_range, u32_max; lia).
      cbn [bind]. destruct (set_if_consistent F_hour_div_12 p 1) as [p1 [u|e]]; split; discriminate.
    + cbn [bind]. split; discriminate.
Qed.
Lemma set_hour_value p v :
  set_hour p v =
  Val (if contains 0 23 v then
         match set_if_consistent F_hour_div_12 p (v / 12) with
         | (p1, Err e) => (p1, Err e)
         | (p1, Ok _) => set_if_consistent F_hour_mod_12 p1 (v mod 12)
         end
       else (p, Err OutOfRange)).
Proof.
  unfold set_hour. destruct (contains 0 11 v) eqn:E1.
  - apply contains_spec in E1. replace (contains 0 23 v) with true by (symmetry; apply contains_spec; lia).
    cbn [bind]. rewrite as_u32_small by (unfold u32_max; lia).
    replace (v / 12) with 0 by lia. replace (v mod 12) with v by lia.
    destruct (set_if_consistent F_hour_div_12 p 0) as [p1 [u|e]]; reflexivity.
  - destruct (contains 12 23 v) eqn:E2.
    + apply contains_spec in E2. replace (contains 0 23 v) with true by (symmetry; apply contains_spec; lia).
      rewrite as_u32_small by (unfold u32_max; lia).
      unfold sub_u32, chk. replace (in_u32 (v - 12)) with true by (unfold in_u32, in_range, u32_max; lia).
      cbn [bind]. replace (v / 12) with 1 by lia. replace (v mod 12) with (v - 12) by lia.
      destruct (set_if_consistent F_hour_div_12 p 1) as [p1 [u|e]]; reflexivity.
    + cbn [bind]. destruct (contains 0 23 v) eqn:E3; [|reflexivity].
      apply contains_spec in E3.
      assert (~ (0 <= v <= 11)) by (intros H; apply contains_spec in H; congruence).
      assert (~ (12 <= v <= 23)) by (intros H'; apply contains_spec in H'; congruence). lia.
Qed.

(** every setter of the case protocol returns by value for every i64 argument *)
Lemma apply_setter_no_panic k p v r : apply_setter k p v = Some r -> r <> Panic /\ r <> OutOfFuel.
Proof.
  unfold apply_setter. destruct (negb (in_i64 v)); [discriminate|].
  repeat match goal with
  | |- (if ?c then _ else _) = Some r -> _ => destruct c
  end; try discriminate; intros H; inversion H; subst; try (split; discriminate).
  apply set_hour_no_panic.
Qed.

(** * resolve_year *)
Definition i32v (o : option Z) : Prop := match o with Some v => in_i32 v = true | None => True end.
Definition pivot (r : Z) : Z := if r <? 70 then 2000 + r else 1900 + r.

Lemma div_i32_100 y : in_i32 y = true -> div_i32 y 100 = Val (Z.quot y 100).
Proof.
  intros H. unfold div_i32. rewrite div_t_nz by lia. apply chk_in.
  unfold in_i32, in_range, i32_min, i32_max in *. 
  lia.
Qed.
Lemma rem_i32_100 y : in_i32 y = true -> rem_i32 y 100 = Val (Z.rem y 100).
Proof.
  intros H. unfold rem_i32. rewrite rem_t_nz by lia.
  pose proof (div_i32_100 y H) as D. unfold div_i32 in D. rewrite div_t_nz in D by lia.
  unfold chk in D. destruct (in_i32 (Z.quot y 100)); [reflexivity|discriminate].
Qed.
Lemma quot_rem_nonneg y : 0 <= y -> Z.quot y 100 = y / 100 /\ Z.rem y 100 = y mod 100.
Proof. intros H. split; [apply Z.quot_div_nonneg; lia|apply Z.rem_mod_nonneg; lia]. Qed.

Ltac ry_start :=
  unfold resolve_year, contains, ok_or, checked_mul, checked_add, chko, add_i32, chk.

(** never traps on fields of the struct's types *)
Lemma resolve_year_no_panic y q r : i32v y -> i32v q -> i32v r ->
  exists res, resolve_year y q r = Val res.
Proof.
  intros Hy Hq Hr. destruct y as [yv|], q as [qv|], r as [rv|]; cbn [i32v] in *; ry_start;
  try rewrite (div_i32_100 _ Hy); try rewrite (rem_i32_100 _ Hy); cbn [bind];
  repeat match goal with
  | |- context [if ?c then _ else _] => destruct c eqn:?
  | |- context [match ?c with Some _ => _ | None => _ end] => destruct c eqn:?
  end; cbn [bind orb]; try (eexists; reflexivity).
  all: unfold in_i32, in_range, i32_min, i32_max in *; try lia.
  all: repeat match goal with H : context [if ?c then _ else _] |- _ => destruct c eqn:? end; lia.
Qed.

(** a resolved year agrees with every supplied part of the group *)
Lemma resolve_year_sound y q r Y : i32v y -> resolve_year y q r = Val (Ok (Some Y)) ->
  (forall v, y = Some v -> Y = v) /\
  (forall v, q = Some v -> 0 <= Y /\ Y / 100 = v) /\
  (forall v, r = Some v -> 0 <= Y /\ Y mod 100 = v) /\
  (y = None -> q = None -> exists v, r = Some v /\ Y = pivot v).
Proof.
  intros Hy. destruct y as [yv|], q as [qv|], r as [rv|]; cbn [i32v] in *; ry_start; unfold pivot;
  try rewrite (div_i32_100 _ Hy); try rewrite (rem_i32_100 _ Hy); cbn [bind];
  repeat match goal with
  | |- context [if ?c then _ else _] => destruct c eqn:?
  end; cbn [bind orb unwrap_or]; intros H; inversion H; subst; clear H.
  all: try (pose proof (quot_rem_nonneg Y ltac:(lia)) as [Hq Hr]).
  all: repeat split; intros; try discriminate;
       repeat match goal with H : Some _ = Some _ |- _ => inversion H; subst; clear H end;
       try congruence; cbn [unwrap_or] in *; try lia.
  all: try (eexists; split; [reflexivity|]; destruct (_ <? 70); lia).
Qed.

Lemma resolve_year_none y q r : resolve_year y q r = Val (Ok None) <-> (y = None /\ q = None /\ r = None).
Proof.
  split.
  - destruct y as [yv|], q as [qv|], r as [rv|]; ry_start; unfold div_i32, rem_i32, div_t, rem_t, chk;
    repeat match goal with
    | |- context [if ?c then _ else _] => destruct c eqn:?
    end; cbn [bind orb]; intros H; try discriminate; auto;
    repeat match goal with
    | H : context [if ?c then _ else _] |- _ => destruct c eqn:?
    end; discriminate.
  - intros (-> & -> & ->). reflexivity.
Qed.

(** the parts are those of an actual year [Y] and the group is determinate: the full year, or
    century plus two-digit year, or the two-digit year alone for 1970..2069 *)
Definition group_of (Y : Z) (y q r : option Z) : Prop :=
  (forall v, y = Some v -> v = Y) /\
  (forall v, q = Some v -> 0 <= Y /\ v = Y / 100) /\
  (forall v, r = Some v -> 0 <= Y /\ v = Y mod 100).
Definition determinate (Y : Z) (y q r : option Z) : Prop :=
  y <> None \/ (q <> None /\ r <> None) \/ (q = None /\ r <> None /\ 1970 <= Y <= 2069).

Lemma resolve_year_complete Y y q r : in_i32 Y = true -> group_of Y y q r -> determinate Y y q r ->
  resolve_year y q r = Val (Ok (Some Y)).
Proof.
  intros HY (Gy & Gq & Gr) D.
  destruct y as [yv|], q as [qv|], r as [rv|];
  try (specialize (Gy _ eq_refl)); try (specialize (Gq _ eq_refl)); try (specialize (Gr _ eq_refl)); subst;
  ry_start; try rewrite (div_i32_100 _ HY); try rewrite (rem_i32_100 _ HY); cbn [bind unwrap_or];
  try (pose proof (quot_rem_nonneg Y ltac:(lia)) as [Hq Hr]; rewrite ?Hq, ?Hr).
  all: unfold determinate in D.
  all: repeat match goal with
  | |- context [if ?c then _ else _] => destruct c eqn:?
  end; cbn [bind orb]; try reflexivity.
  all: unfold in_i32, in_range, i32_min, i32_max in *; try lia.
  all: try (do 2 f_equal; lia).
  all: try (exfalso; destruct D as [D|[[D1 D2]|(D1 & D2 & D3)]]; try congruence; lia).
  all: try (destruct D as [D|[[D1 D2]|(D1 & D2 & D3)]]; try congruence; do 3 f_equal; lia).
  all: exfalso; repeat match goal with H : context [if ?c then _ else _] |- _ => destruct c eqn:? end; lia.
Qed.

(** error classes: 'not enough' exactly for a century without year and two-digit year *)
Lemma resolve_year_error y q r e : resolve_year y q r = Val (Err e) ->
  (e = NotEnough /\ y = None /\ q <> None /\ r = None) \/
  ((e = Impossible \/ e = OutOfRange) /\ ~ (y = None /\ r = None)).
Proof.
  destruct y as [yv|], q as [qv|], r as [rv|]; ry_start; unfold div_i32, rem_i32, div_t, rem_t, chk;
  repeat match goal with
  | |- context [if ?c then _ else _] => destruct c eqn:?
  end; cbn [bind orb]; intros H;
  repeat match goal with
  | H : context [if ?c then _ else _] |- _ => destruct c eqn:?
  end; inversion H; subst;
  try (left; repeat split; congruence);
  right; (split; [auto|intros [? ?]; congruence]).
Qed.

(** * to_naive_time *)
Definition u32v (o : option Z) : Prop := match o with Some v => 0 <= v <= u32_max | None => True end.
Definition time_of_fields (hd hm mi s n : Z) : Time.ntime :=
  Time.mk_time ((hd * 12 + hm) * 3600 + mi * 60 + (if s =? 60 then 59 else s))
               ((if s =? 60 then 1000000000 else 0) + n).
Definition time_fields_ok (p : parsed) (hd hm mi : Z) : Prop :=
  p_hour_div_12 p = Some hd /\ p_hour_mod_12 p = Some hm /\ p_minute p = Some mi /\
  0 <= hd <= 1 /\ 0 <= hm <= 11 /\ 0 <= mi <= 59 /\
  0 <= unwrap_or (p_second p) 0 <= 60 /\ 0 <= unwrap_or (p_nanosecond p) 0 <= 999999999 /\
  (p_nanosecond p <> None -> p_second p <> None).
Definition time_missing (p : parsed) : Prop :=
  p_hour_div_12 p = None \/ p_hour_mod_12 p = None \/ p_minute p = None \/
  (p_nanosecond p <> None /\ p_second p = None).
Definition out_of (o : option Z) (hi : Z) : Prop := exists v, o = Some v /\ ~ (0 <= v <= hi).
Definition time_out_of_range (p : parsed) : Prop :=
  out_of (p_hour_div_12 p) 1 \/ out_of (p_hour_mod_12 p) 11 \/ out_of (p_minute p) 59 \/
  out_of (p_second p) 60 \/ out_of (p_nanosecond p) 999999999.

Lemma from_hms_nano_ok h m s n : 0 <= h <= 23 -> 0 <= m <= 59 -> 0 <= s <= 59 ->
  (0 <= n <= 999999999 \/ (s = 59 /\ 1000000000 <= n <= 1999999999)) ->
  Time.from_hms_nano_opt h m s n = Val (Some (Time.mk_time (h * 3600 + m * 60 + s) n)).
Proof.
  intros Hh Hm Hs Hn. unfold Time.from_hms_nano_opt.
  match goal with |- (if ?c then _ else _) = _ => replace c with false by lia end.
  unfold mul_u32, add_u32, chk, in_u32, in_range, u32_max.
  replace ((0 <=? h * 3600) && (h * 3600 <=? 4294967295)) with true by lia. cbn [bind].
  replace ((0 <=? m * 60) && (m * 60 <=? 4294967295)) with true by lia. cbn [bind].
  replace ((0 <=? h * 3600 + m * 60) && (h * 3600 + m * 60 <=? 4294967295)) with true by lia. cbn [bind].
  replace ((0 <=? h * 3600 + m * 60 + s) && (h * 3600 + m * 60 + s <=? 4294967295)) with true by lia.
  reflexivity.
Qed.

Ltac case_field o lo hi :=
  destruct o as [?v|]; cbn [ebind bind contains];
  [ destruct (contains lo hi v) eqn:?E; cbn [ebind bind] | ].

(** complete description of [to_naive_time]: value, error classes, no trap *)
Lemma to_naive_time_spec p :
  u32v (p_hour_div_12 p) -> u32v (p_hour_mod_12 p) -> u32v (p_minute p) -> u32v (p_second p) ->
  u32v (p_nanosecond p) ->
  exists r, to_naive_time p = Val r /\
  match r with
  | Ok t => exists hd hm mi, time_fields_ok p hd hm mi /\
            t = time_of_fields hd hm mi (unwrap_or (p_second p) 0) (unwrap_or (p_nanosecond p) 0)
  | Err NotEnough => time_missing p
  | Err OutOfRange => time_out_of_range p
  | Err _ => False
  end.
Proof.
  unfold to_naive_time, time_fields_ok, time_missing, time_out_of_range, out_of, u32v.
  destruct (p_hour_div_12 p) as [hd|]; [|intros; eexists; split; [reflexivity|]; cbn; auto].
  destruct (contains 0 1 hd) eqn:Ehd;
    [apply contains_spec in Ehd|intros; eexists; split; [reflexivity|]; cbn; left; exists hd; split; [reflexivity|];
       intros X; apply contains_spec in X; congruence].
  destruct (p_hour_mod_12 p) as [hm|]; [|intros; eexists; split; [reflexivity|]; cbn; auto].
  destruct (contains 0 11 hm) eqn:Ehm;
    [apply contains_spec in Ehm|intros; eexists; split; [reflexivity|]; cbn; right; left; exists hm; split; [reflexivity|];
       intros X; apply contains_spec in X; congruence].
  cbn [ebind bind]. unfold mul_u32, add_u32, chk, in_u32, in_range, u32_max.
  replace ((0 <=? hd * 12) && (hd * 12 <=? 4294967295)) with true by lia. cbn [bind].
  replace ((0 <=? hd * 12 + hm) && (hd * 12 + hm <=? 4294967295)) with true by lia. cbn [bind].
  destruct (p_minute p) as [mi|]; [|intros; eexists; split; [reflexivity|]; cbn; auto].
  destruct (contains 0 59 mi) eqn:Emi;
    [apply contains_spec in Emi|intros; eexists; split; [reflexivity|]; cbn; right; right; left; exists mi; split; [reflexivity|];
       intros X; apply contains_spec in X; congruence].
  cbn [ebind bind].
  intros _ _ _ Hs Hn.
  set (s := unwrap_or (p_second p) 0).
  destruct (contains 0 59 s) eqn:Es1; [apply contains_spec in Es1|].
  - cbn [ebind bind].
    destruct (p_nanosecond p) as [n|] eqn:En.
    + destruct (contains 0 999999999 n) eqn:En1.
      * apply contains_spec in En1. destruct (p_second p) as [sv|] eqn:Esv.
        -- cbn [ebind bind]. replace ((0 <=? 0 + n) && (0 + n <=? 4294967295)) with true by lia. cbn [bind].
           unfold ok_or_r. rewrite from_hms_nano_ok by lia. cbn [bind ok_or].
           eexists; split; [reflexivity|]. exists hd, hm, mi. cbn [unwrap_or] in *. fold s.
           split; [repeat split; try lia; congruence|].
           unfold time_of_fields. replace (s =? 60) with false by lia. reflexivity.
        -- cbn [ebind bind]. eexists; split; [reflexivity|]. cbn. right; right; right. split; congruence.
      * cbn [ebind bind]. eexists; split; [reflexivity|]. cbn. right; right; right; right.
        exists n. split; [reflexivity|]. intros X; apply contains_spec in X; congruence.
    + cbn [ebind bind]. replace ((0 <=? 0 + 0) && (0 + 0 <=? 4294967295)) with true by lia. cbn [bind].
      unfold ok_or_r. rewrite from_hms_nano_ok by lia. cbn [bind ok_or].
      eexists; split; [reflexivity|]. exists hd, hm, mi. cbn [unwrap_or] in *. fold s.
      split; [repeat split; try lia; congruence|].
      unfold time_of_fields. replace (s =? 60) with false by lia. reflexivity.
  - destruct (s =? 60) eqn:Es2.
    + cbn [ebind bind].
      assert (Hsv : exists sv, p_second p = Some sv) by (unfold s in *; destruct (p_second p); [eauto|cbn in Es2; lia]).
      destruct Hsv as [sv Hsv]. 
      destruct (p_nanosecond p) as [n|] eqn:En.
      * destruct (contains 0 999999999 n) eqn:En1.
        -- apply contains_spec in En1. rewrite Hsv. cbn [ebind bind].
           replace ((0 <=? 1000000000 + n) && (1000000000 + n <=? 4294967295)) with true by lia. cbn [bind].
           unfold ok_or_r. rewrite from_hms_nano_ok by lia. cbn [bind ok_or].
           eexists; split; [reflexivity|]. exists hd, hm, mi. cbn [unwrap_or] in *. 
           split; [repeat split; try lia; try congruence; unfold s in *; rewrite Hsv in *; cbn [unwrap_or] in *; lia|].
           unfold time_of_fields. rewrite Es2. reflexivity.
        -- cbn [ebind bind]. eexists; split; [reflexivity|]. cbn. right; right; right; right.
           exists n. split; [reflexivity|]. intros X; apply contains_spec in X; congruence.
      * cbn [ebind bind]. replace ((0 <=? 1000000000 + 0) && (1000000000 + 0 <=? 4294967295)) with true by lia. cbn [bind].
        unfold ok_or_r. rewrite from_hms_nano_ok by lia. cbn [bind ok_or].
        eexists; split; [reflexivity|]. exists hd, hm, mi. cbn [unwrap_or] in *.
        split; [repeat split; try lia; try congruence; unfold s in *; rewrite Hsv in *; cbn [unwrap_or] in *; lia|].
        unfold time_of_fields. rewrite Es2. reflexivity.
    + cbn [ebind bind]. eexists; split; [reflexivity|]. cbn. right; right; right; left.
      unfold s in *. destruct (p_second p) as [sv|]; cbn [unwrap_or] in *.
      * exists sv. split; [reflexivity|]. intros X. 
        assert (~ (0 <= sv <= 59)) by (intros Y; apply contains_spec in Y; congruence). lia.
      * exfalso. cbn in Es1. discriminate.
Qed.

Lemma time_of_fields_hms hd hm mi s n :
  0 <= hd <= 1 -> 0 <= hm <= 11 -> 0 <= mi <= 59 -> 0 <= s <= 60 ->
  let t := time_of_fields hd hm mi s n in
  Time.hour t = hd * 12 + hm /\ Time.minute t = mi /\ Time.second t = (if s =? 60 then 59 else s).
Proof.
  intros H1 H2 H3 H4 t. unfold t, time_of_fields, Time.hour, Time.minute, Time.second, Time.hms, Time.udiv, Time.urem.
  cbn [Time.tsecs]. destruct (s =? 60) eqn:E; repeat split; lia.
Qed.

(** SOUNDNESS for the time of day: a successful result agrees with every supplied time field *)
Lemma to_naive_time_sound p t :
  u32v (p_hour_div_12 p) -> u32v (p_hour_mod_12 p) -> u32v (p_minute p) -> u32v (p_second p) ->
  u32v (p_nanosecond p) ->
  to_naive_time p = Val (Ok t) ->
  (forall v, p_hour_div_12 p = Some v -> v = Time.hour t / 12) /\
  (forall v, p_hour_mod_12 p = Some v -> v = Time.hour t mod 12) /\
  (forall v, p_minute p = Some v -> v = Time.minute t) /\
  (forall v, p_second p = Some v -> v = Time.second t + (if Time.nanosecond t >=? 1000000000 then 1 else 0)) /\
  (forall v, p_nanosecond p = Some v -> v = Time.nanosecond t mod 1000000000) /\
  (p_second p = None -> Time.second t = 0 /\ Time.nanosecond t = 0) /\
  (p_nanosecond p = None -> Time.nanosecond t mod 1000000000 = 0).
Proof.
  intros U1 U2 U3 U4 U5 H. destruct (to_naive_time_spec p U1 U2 U3 U4 U5) as (r & Hr & Hspec).
  rewrite H in Hr. inversion Hr; subst r. destruct Hspec as (hd & hm & mi & F & ->).
  destruct F as (F1 & F2 & F3 & R1 & R2 & R3 & R4 & R5 & R6).
  destruct (time_of_fields_hms hd hm mi (unwrap_or (p_second p) 0) (unwrap_or (p_nanosecond p) 0) R1 R2 R3 R4)
    as (Hh & Hm & Hs). cbv zeta in Hh, Hm, Hs. rewrite Hh, Hm, Hs.
  unfold Time.nanosecond, time_of_fields. cbn [Time.tfrac].
  repeat split; intros.
  - rewrite F1 in H0. inversion H0. lia.
  - rewrite F2 in H0. inversion H0. lia.
  - congruence.
  - rewrite H0 in *. cbn [unwrap_or] in *. destruct (v =? 60) eqn:E.
    + replace (1000000000 + unwrap_or (p_nanosecond p) 0 >=? 1000000000) with true by lia. lia.
    + replace (0 + unwrap_or (p_nanosecond p) 0 >=? 1000000000) with false by lia. lia.
  - rewrite H0 in *. cbn [unwrap_or] in *. destruct (unwrap_or (p_second p) 0 =? 60); lia.
  - rewrite H0 in *. cbn [unwrap_or]. cbn. reflexivity.
  - rewrite H0 in *. cbn [unwrap_or] in *. cbn [Z.eqb].
    destruct (p_nanosecond p) as [n|]; [exfalso; apply R6; congruence|]. reflexivity.
  - rewrite H0. cbn [unwrap_or]. destruct (unwrap_or (p_second p) 0 =? 60); reflexivity.
Qed.

(** COMPLETENESS for the time of day: hour, minute [, second [, nanosecond]] in range resolve to
    exactly that time; second 60 is the leap second *)
Lemma to_naive_time_complete p hd hm mi :
  time_fields_ok p hd hm mi ->
  to_naive_time p = Val (Ok (time_of_fields hd hm mi (unwrap_or (p_second p) 0) (unwrap_or (p_nanosecond p) 0))).
Proof.
  intros F. pose proof F as (F1 & F2 & F3 & R1 & R2 & R3 & R4 & R5 & R6).
  assert (U : forall o, (forall v, o = Some v -> 0 <= v <= 999999999) -> u32v o).
  { intros [v|] Hv; cbn; [specialize (Hv v eq_refl); unfold u32_max; lia|exact I]. }
  destruct (to_naive_time_spec p) as (r & Hr & Hspec).
  - rewrite F1. cbn. unfold u32_max. lia.
  - rewrite F2. cbn. unfold u32_max. lia.
  - rewrite F3. cbn. unfold u32_max. lia.
  - apply U. intros v Hv. rewrite Hv in R4. cbn in R4. lia.
  - apply U. intros v Hv. rewrite Hv in R5. cbn in R5. lia.
  - rewrite Hr. destruct r as [t|e].
    + destruct Hspec as (hd' & hm' & mi' & F' & ->). destruct F' as (F1' & F2' & F3' & _).
      rewrite F1 in F1'. rewrite F2 in F2'. rewrite F3 in F3'. inversion F1'. inversion F2'. inversion F3'. reflexivity.
    + exfalso. destruct e; try exact Hspec.
      * destruct Hspec as [(v & Hv & Hn)|[(v & Hv & Hn)|[(v & Hv & Hn)|[(v & Hv & Hn)|(v & Hv & Hn)]]]].
        -- rewrite F1 in Hv. inversion Hv. lia.
        -- rewrite F2 in Hv. inversion Hv. lia.
        -- rewrite F3 in Hv. inversion Hv. lia.
        -- rewrite Hv in R4. cbn in R4. lia.
        -- rewrite Hv in R5. cbn in R5. lia.
      * destruct Hspec as [X|[X|[X|[X1 X2]]]]; try congruence. apply R6 in X1. congruence.
Qed.

(** * Inversion of the monads *)
Lemma bind_val {X Y} (x : R X) (f : X -> R Y) r : bind x f = Val r -> exists a, x = Val a /\ f a = Val r.
Proof. destruct x; cbn; intros H; try discriminate. eauto. Qed.
Lemma ebind_ok {X Y} (x : R (res X)) (f : X -> R (res Y)) r :
  ebind x f = Val (Ok r) -> exists a, x = Val (Ok a) /\ f a = Val (Ok r).
Proof.
  unfold ebind. intros H. apply bind_val in H. destruct H as ([a|e] & Hx & Hf); [eauto|discriminate].
Qed.
Lemma andr_true a b : andr a b = Val true -> a = Val true /\ b = Val true.
Proof.
  unfold andr. intros H. apply bind_val in H. destruct H as (x & Hx & Hf). destruct x; [auto|discriminate].
Qed.
Lemma ok_or_r_ok {X} (x : R (option X)) e a : ok_or_r x e = Val (Ok a) -> x = Val (Some a).
Proof.
  unfold ok_or_r, ok_or. intros H. apply bind_val in H. destruct H as ([v|] & Hx & Hf); inversion Hf. subst. reflexivity.
Qed.
Lemma div_i32_val y a : div_i32 y 100 = Val a -> a = Z.quot y 100.
Proof.
  unfold div_i32, div_t, chk. cbn [Z.eqb]. destruct (in_i32 (Z.quot y 100)); intros H; inversion H. reflexivity.
Qed.
Lemma rem_i32_val y a : rem_i32 y 100 = Val a -> a = Z.rem y 100.
Proof.
  unfold rem_i32, rem_t. cbn [Z.eqb]. destruct (in_i32 (Z.quot y 100)); intros H; inversion H. reflexivity.
Qed.

Ltac inv_step :=
  match goal with
  | H : ebind _ _ = Val (Ok _) |- _ => apply ebind_ok in H; destruct H as (? & ? & ?)
  | H : bind _ _ = Val _ |- _ => apply bind_val in H; destruct H as (? & ? & ?)
  | H : andr _ _ = Val true |- _ => apply andr_true in H; destruct H as (? & ?)
  | H : ok_or_r _ _ = Val (Ok _) |- _ => apply ok_or_r_ok in H
  | H : Val _ = Val _ |- _ => inversion H; subst; clear H
  end.

(** * The three verifiers: which supplied field each of them compares *)
Definition year_parts_sound (y q r : option Z) (Y : Z) : Prop :=
  (forall v, y = Some v -> Y = v) /\
  (forall v, q = Some v -> 0 <= Y /\ Y / 100 = v) /\
  (forall v, r = Some v -> 0 <= Y /\ Y mod 100 = v).

Lemma parts_check_sound y q r Y a b :
  (if Y >=? 0 then let* a := div_i32 Y 100 in let* b := rem_i32 Y 100 in Val (Some a, Some b)
   else Val (None, None)) = Val (a, b) ->
  (unwrap_or y Y =? Y) && opt_eqb (opt_or q a) a && opt_eqb (opt_or r b) b = true ->
  year_parts_sound y q r Y.
Proof.
  intros Hab Hc. apply andb_prop in Hc. destruct Hc as [Hc H3]. apply andb_prop in Hc. destruct Hc as [H1 H2].
  destruct (Y >=? 0) eqn:E.
  - repeat inv_step. apply div_i32_val in H. apply rem_i32_val in H0. subst.
    destruct (quot_rem_nonneg Y ltac:(lia)) as [Hq Hr]. rewrite Hq, Hr in *.
    repeat split; intros; subst; cbn [unwrap_or opt_or opt_eqb] in *; lia.
  - inversion Hab; subst. repeat split; intros; subst; cbn [unwrap_or opt_or opt_eqb] in *; try lia; discriminate.
Qed.

Lemma verify_ymd_true p d : verify_ymd p d = Val true ->
  year_parts_sound (p_year p) (p_year_div_100 p) (p_year_mod_100 p) (Date.d_year d) /\
  (forall v, p_month p = Some v -> Date.d_month d = Val v) /\
  (forall v, p_day p = Some v -> Date.d_day d = Val v).
Proof.
  unfold verify_ymd. intros H. repeat inv_step. destruct x as [a b].
  repeat inv_step.
  apply andb_prop in H4. destruct H4 as [H4 Hd]. apply andb_prop in H4. destruct H4 as [H4 Hm].
  split; [eapply parts_check_sound; eauto|].
  split; intros v Hv; rewrite Hv in *; cbn [unwrap_or] in *.
  - rewrite H0. f_equal. lia.
  - rewrite H1. f_equal. lia.
Qed.

Definition iso_sound (p : parsed) (d : Z) : Prop :=
  exists iw, Date.d_iso_week d = Val iw /\
  year_parts_sound (p_isoyear p) (p_isoyear_div_100 p) (p_isoyear_mod_100 p) (Date.iw_year iw) /\
  (forall v, p_isoweek p = Some v -> Date.iw_week iw = v).

Lemma verify_isoweekdate_true p d : verify_isoweekdate p d = Val true ->
  iso_sound p d /\ (forall v, p_weekday p = Some v -> Date.d_weekday d = Val v).
Proof.
  unfold verify_isoweekdate. intros H. repeat inv_step. destruct x1 as [a b].
  repeat inv_step.
  apply andb_prop in H4. destruct H4 as [H4 Hd]. apply andb_prop in H4. destruct H4 as [H4 Hm].
  split.
  - exists x. split; [assumption|]. split; [eapply parts_check_sound; eauto|].
    intros v Hv. rewrite Hv in *. cbn [unwrap_or] in *. lia.
  - intros v Hv. rewrite Hv in *. cbn [unwrap_or] in *. rewrite H0. f_equal. lia.
Qed.

Lemma verify_ordinal_true p d : verify_ordinal p d = Val true ->
  (forall v, p_ordinal p = Some v -> Date.d_ordinal d = v) /\
  (forall v, p_week_from_sun p = Some v -> Date.weeks_from d WD_SUN = Val (as_i32 v)) /\
  (forall v, p_week_from_mon p = Some v -> Date.weeks_from d WD_MON = Val (as_i32 v)).
Proof.
  unfold verify_ordinal. intros H. repeat inv_step.
  apply andb_prop in H3. destruct H3 as [H3 Hm]. apply andb_prop in H3. destruct H3 as [Ho Hs].
  repeat split; intros v Hv; rewrite Hv in *; cbn [unwrap_or] in *.
  - lia.
  - rewrite H. f_equal. lia.
  - rewrite H0. f_equal. lia.
Qed.

(** * to_naive_date: soundness *)
(** fields of the struct hold values of their Rust types *)
Definition date_fields_typed (p : parsed) : Prop :=
  i32v (p_year p) /\ i32v (p_year_div_100 p) /\ i32v (p_year_mod_100 p) /\
  i32v (p_isoyear p) /\ i32v (p_isoyear_div_100 p) /\ i32v (p_isoyear_mod_100 p) /\
  u32v (p_month p) /\ u32v (p_day p) /\ u32v (p_isoweek p) /\
  (forall v, p_weekday p = Some v -> 0 <= v <= 6).

(** every supplied date field equals the corresponding field of the date [d] *)
Definition date_sound (p : parsed) (d : Z) : Prop :=
  year_parts_sound (p_year p) (p_year_div_100 p) (p_year_mod_100 p) (Date.d_year d) /\
  iso_sound p d /\
  (forall v, p_quarter p = Some v -> Date.d_quarter d = Val v) /\
  (forall v, p_month p = Some v -> Date.d_month d = Val v) /\
  (forall v, p_week_from_sun p = Some v -> Date.weeks_from d WD_SUN = Val (as_i32 v)) /\
  (forall v, p_week_from_mon p = Some v -> Date.weeks_from d WD_MON = Val (as_i32 v)) /\
  (forall v, p_weekday p = Some v -> Date.d_weekday d = Val v) /\
  (forall v, p_ordinal p = Some v -> Date.d_ordinal d = v) /\
  (forall v, p_day p = Some v -> Date.d_day d = Val v).

Lemma year_parts_of_resolve y q r Y : i32v y -> resolve_year y q r = Val (Ok (Some Y)) -> year_parts_sound y q r Y.
Proof.
  intros Hy H. destruct (resolve_year_sound y q r Y Hy H) as (A1 & A2 & A3 & _). repeat split; intros; subst.
  - apply A1; reflexivity.
  - apply (A2 _ eq_refl).
  - apply (A2 _ eq_refl).
  - apply (A3 _ eq_refl).
  - apply (A3 _ eq_refl).
Qed.

Section DateFacts.
  (** Facts about the NaiveDate constructors of Model/Date.v (proved with the calendar in
      Proofs/Date.v by the C01 development); everything below that depends on them is named
      [*_modulo_date]. *)
  Hypothesis Hyp_from_ymd : forall y m d dt,
    in_i32 y = true -> 0 <= m <= u32_max -> 0 <= d <= u32_max ->
    Date.from_ymd_opt y m d = Val (Some dt) ->
    Date.d_year dt = y /\ Date.d_month dt = Val m /\ Date.d_day dt = Val d.
  Hypothesis Hyp_from_isoywd : forall y w wd dt,
    in_i32 y = true -> 0 <= w <= u32_max -> 0 <= wd <= 6 ->
    Date.from_isoywd_opt y w wd = Val (Some dt) ->
    exists iw, Date.d_iso_week dt = Val iw /\ Date.iw_year iw = y /\ Date.iw_week iw = w /\
               Date.d_weekday dt = Val wd.

  Lemma resolve_year_i32 y q r Y : i32v y -> i32v q -> i32v r ->
    resolve_year y q r = Val (Ok (Some Y)) -> in_i32 Y = true.
  Proof.
    intros Hy Hq Hr. destruct y as [yv|], q as [qv|], r as [rv|]; cbn [i32v] in *; ry_start;
    try rewrite (div_i32_100 _ Hy); try rewrite (rem_i32_100 _ Hy); cbn [bind];
    repeat match goal with
    | |- context [if ?c then _ else _] => destruct c eqn:?
    end; cbn [bind orb]; intros H; inversion H; subst; auto.
  Qed.

  Lemma arm_inv (X : R (res Z)) (V : Z -> R bool) d :
    (let! date := X in let* v := V date in Val (Ok (v, date))) = Val (Ok (true, d)) ->
    X = Val (Ok d) /\ V d = Val true.
  Proof.
    intros H. apply ebind_ok in H. destruct H as (a & Ha & H). apply bind_val in H.
    destruct H as (v & Hv & H). inversion H; subst. auto.
  Qed.

  (** SOUNDNESS: a date returned by [to_naive_date] agrees with every supplied date field *)
  Theorem to_naive_date_sound_modulo_date p d :
    date_fields_typed p -> to_naive_date p = Val (Ok d) -> date_sound p d.
  Proof.
    intros (T1 & T2 & T3 & T4 & T5 & T6 & T7 & T8 & T9 & T10) H.
    unfold to_naive_date in H. cbv zeta in H.
    apply ebind_ok in H. destruct H as (gy & Hgy & H).
    apply ebind_ok in H. destruct H as (gi & Hgi & H).
    apply ebind_ok in H. destruct H as ([verified date] & Harm & H).
    destruct verified; cbn [negb] in H; [|discriminate].
    (* the quarter check *)
    assert (Hq : date = d /\ forall v, p_quarter p = Some v -> Date.d_quarter d = Val v).
    { destruct (p_quarter p) as [q|].
      - apply bind_val in H. destruct H as (dq & Hdq & H). destruct (q =? dq) eqn:E; cbn [negb] in H; [|discriminate].
        inversion H; subst. split; [reflexivity|]. intros v Hv. inversion Hv; subst. rewrite Hdq. f_equal. lia.
      - inversion H; subst. split; [reflexivity|]. intros; discriminate. }
    destruct Hq as [-> Hquarter]. clear H.
    (* the arms that call all three verifiers *)
    assert (All3 : forall X,
              (let! date := X in
               let* v := andr (verify_ymd p date) (andr (verify_isoweekdate p date) (verify_ordinal p date)) in
               Val (Ok (v, date))) = Val (Ok (true, d)) -> date_sound p d).
    { intros X HX. apply arm_inv in HX. destruct HX as [_ HV].
      apply andr_true in HV. destruct HV as [V1 HV]. apply andr_true in HV. destruct HV as [V2 V3].
      apply verify_ymd_true in V1. apply verify_isoweekdate_true in V2. apply verify_ordinal_true in V3.
      destruct V1 as (A1 & A2 & A3), V2 as (B1 & B2'), V3 as (C1 & C2 & C3). unfold date_sound. tauto. }
    (* the ISO arm *)
    assert (Iso : forall isoyear isoweek weekday,
              gi = Some isoyear -> p_isoweek p = Some isoweek -> p_weekday p = Some weekday ->
              (let! date := ok_or_r (Date.from_isoywd_opt isoyear isoweek weekday) OutOfRange in
               let* v := andr (verify_ymd p date) (verify_ordinal p date) in Val (Ok (v, date))) = Val (Ok (true, d)) ->
              date_sound p d).
    { intros iy iw wd Egi Ew Ewd HX. clear Harm. subst gi.
      apply arm_inv in HX. destruct HX as [HX HV]. apply ok_or_r_ok in HX.
      apply andr_true in HV. destruct HV as [V1 V3].
      pose proof (resolve_year_i32 _ _ _ _ T4 T5 T6 Hgi) as Hiy.
      rewrite Ew in T9. cbn in T9. specialize (T10 _ Ewd).
      destruct (Hyp_from_isoywd _ _ _ _ Hiy T9 T10 HX) as (w & Hw & Hwy & Hww & Hwwd).
      apply verify_ymd_true in V1. apply verify_ordinal_true in V3.
      destruct V1 as (A1 & A2 & A3), V3 as (C1 & C2 & C3).
      unfold date_sound. split; [exact A1|]. split.
      { exists w. split; [exact Hw|]. split.
        + rewrite Hwy. apply year_parts_of_resolve; assumption.
        + intros v Hv. congruence. }
      split; [exact Hquarter|]. split; [exact A2|]. split; [exact C2|]. split; [exact C3|].
      split; [intros v Hv; congruence|]. split; [exact C1|exact A3]. }
    (* everything after the year-month-day arm *)
    assert (Rest : forall year, gy = Some year ->
      match p_ordinal p with
      | Some ordinal =>
          let! date := ok_or_r (Date.from_yo_opt year ordinal) OutOfRange in
          let* v := andr (verify_ymd p date) (andr (verify_isoweekdate p date) (verify_ordinal p date)) in
          Val (Ok (v, date))
      | None =>
          match p_week_from_sun p, p_weekday p with
          | Some week, Some weekday =>
              let! date := resolve_week_date year week weekday WD_SUN in
              let* v := andr (verify_ymd p date) (andr (verify_isoweekdate p date) (verify_ordinal p date)) in
              Val (Ok (v, date))
          | _, _ =>
              match p_week_from_mon p, p_weekday p with
              | Some week, Some weekday =>
                  let! date := resolve_week_date year week weekday WD_MON in
                  let* v := andr (verify_ymd p date) (andr (verify_isoweekdate p date) (verify_ordinal p date)) in
                  Val (Ok (v, date))
              | _, _ =>
                  match gi, p_isoweek p, p_weekday p with
                  | Some isoyear, Some isoweek, Some weekday =>
                      let! date := ok_or_r (Date.from_isoywd_opt isoyear isoweek weekday) OutOfRange in
                      let* v := andr (verify_ymd p date) (verify_ordinal p date) in Val (Ok (v, date))
                  | _, _, _ => Val (Err NotEnough)
                  end
              end
          end
      end = Val (Ok (true, d)) -> date_sound p d).
    { intros year _ HR.
      destruct (p_ordinal p) as [ordinal|]; [eapply All3; exact HR|].
      destruct (p_week_from_sun p) as [ws|], (p_weekday p) as [wd|] eqn:Ewd; try (eapply All3; exact HR).
      all: destruct (p_week_from_mon p) as [wm|]; try (eapply All3; exact HR).
      all: destruct gi as [iy|]; try discriminate; destruct (p_isoweek p) as [iw|] eqn:Eiw; try discriminate.
      all: eapply Iso; eauto. }
    destruct gy as [year|].
    - destruct (p_month p) as [month|] eqn:Em; [destruct (p_day p) as [day|] eqn:Ed|].
      + (* year, month, day *)
        apply arm_inv in Harm. destruct Harm as [HX HV]. apply ok_or_r_ok in HX.
        apply andr_true in HV. destruct HV as [V2 V3].
        pose proof (resolve_year_i32 _ _ _ _ T1 T2 T3 Hgy) as Hy.
        cbn in T7, T8.
        destruct (Hyp_from_ymd _ _ _ _ Hy T7 T8 HX) as (Y1 & Y2 & Y3).
        apply verify_isoweekdate_true in V2. apply verify_ordinal_true in V3.
        destruct V2 as (B1 & B2'), V3 as (C1 & C2 & C3).
        unfold date_sound. split; [rewrite Y1; apply year_parts_of_resolve; assumption|].
        split; [exact B1|]. split; [exact Hquarter|]. split; [intros v Hv; congruence|].
        split; [exact C2|]. split; [exact C3|]. split; [exact B2'|]. split; [exact C1|].
        intros v Hv; congruence.
      + eapply Rest; [reflexivity|exact Harm].
      + eapply Rest; [reflexivity|exact Harm].
    - destruct gi as [iy|]; [|discriminate].
      destruct (p_isoweek p) as [iw|] eqn:Eiw; [|discriminate].
      destruct (p_weekday p) as [wd|] eqn:Ewd; [|discriminate].
      eapply Iso; eauto.
  Qed.
End DateFacts.

(** * Typed field states and extension of a state by setters *)
Definition ftype (f : field) (v : Z) : Prop :=
  match f with
  | F_year | F_year_div_100 | F_year_mod_100 | F_isoyear | F_isoyear_div_100 | F_isoyear_mod_100
  | F_offset => in_i32 v = true
  | F_weekday => 0 <= v <= 6
  | F_timestamp => in_i64 v = true
  | _ => 0 <= v <= u32_max
  end.
(** every field holds a value of its Rust type *)
Definition typed (p : parsed) : Prop := forall f v, pget f p = Some v -> ftype f v.
Definition extends (p q : parsed) : Prop := forall f v, pget f p = Some v -> pget f q = Some v.

Lemma field_eq_dec (f g : field) : {f = g} + {f <> g}.
Proof. decide equality. Defined.
Lemma extends_refl p : extends p p.
Proof. intros f v H. exact H. Qed.
Lemma extends_trans p q r : extends p q -> extends q r -> extends p r.
Proof. intros H1 H2 f v H. auto. Qed.
Lemma typed_new : typed parsed_new.
Proof. intros f v H. destruct f; discriminate. Qed.
Lemma typed_pput f v p : typed p -> ftype f v -> typed (pput f (Some v) p).
Proof.
  intros Hp Hv g w H. destruct (field_eq_dec f g) as [->|Hne].
  - rewrite pget_pput_same in H. inversion H; subst. exact Hv.
  - rewrite pget_pput_other in H by exact Hne. apply Hp. exact H.
Qed.
Lemma typed_date p : typed p -> date_fields_typed p.
Proof.
  intros H. unfold date_fields_typed, i32v, u32v.
  repeat match goal with |- _ /\ _ => split end;
  try (match goal with |- match ?o with _ => _ end => destruct o as [v|] eqn:E; [|exact I] end).
  - apply (H F_year _ E).
  - apply (H F_year_div_100 _ E).
  - apply (H F_year_mod_100 _ E).
  - apply (H F_isoyear _ E).
  - apply (H F_isoyear_div_100 _ E).
  - apply (H F_isoyear_mod_100 _ E).
  - apply (H F_month _ E).
  - apply (H F_day _ E).
  - apply (H F_isoweek _ E).
  - intros v Hv. apply (H F_weekday _ Hv).
Qed.

Lemma set_if_consistent_inv f p v q : set_if_consistent f p v = (q, Ok tt) ->
  q = pput f (Some v) p /\ extends p q.
Proof.
  unfold set_if_consistent. destruct (pget f p) as [old|] eqn:E.
  - destruct (old =? v) eqn:E2; cbn [negb]; intros H; inversion H; subst. split; [reflexivity|].
    intros g w Hg. destruct (field_eq_dec f g) as [->|Hne].
    + rewrite pget_pput_same. rewrite E in Hg. inversion Hg; subst. f_equal. lia.
    + rewrite pget_pput_other by exact Hne. exact Hg.
  - intros H; inversion H; subst. split; [reflexivity|].
    intros g w Hg. destruct (field_eq_dec f g) as [->|Hne].
    + congruence.
    + rewrite pget_pput_other by exact Hne. exact Hg.
Qed.
Lemma set_checked_inv f lo hi cast p v q : set_checked f lo hi cast p v = (q, Ok tt) ->
  lo <= v <= hi /\ q = pput f (Some (cast v)) p /\ extends p q.
Proof.
  unfold set_checked. destruct (contains lo hi v) eqn:E; cbn [negb]; [|discriminate].
  apply contains_spec in E. intros H. apply set_if_consistent_inv in H. tauto.
Qed.
Lemma tryset_ok r q : tryset r = Val (Ok q) -> exists u, r = (q, Ok u).
Proof. unfold tryset. destruct r as [p [u|e]]; intros H; inversion H; subst. eauto. Qed.
Lemma unit_tt (u : unit) : u = tt.
Proof. destruct u; reflexivity. Qed.

(** soundness is inherited by a state with fewer fields *)
Lemma year_parts_mono y q r y' q' r' Y :
  (forall v, y = Some v -> y' = Some v) -> (forall v, q = Some v -> q' = Some v) ->
  (forall v, r = Some v -> r' = Some v) -> year_parts_sound y' q' r' Y -> year_parts_sound y q r Y.
Proof.
  intros H1 H2 H3 (A1 & A2 & A3). unfold year_parts_sound.
  split; [intros v Hv; apply A1; auto|]. split; [intros v Hv; apply A2; auto|intros v Hv; apply A3; auto].
Qed.
Lemma date_sound_mono p q d : extends p q -> date_sound q d -> date_sound p d.
Proof.
  intros E (S1 & (iw & Hiw & S2 & S2') & S3 & S4 & S5 & S6 & S7 & S8 & S9).
  pose proof (fun f => E f) as Ef.
  unfold date_sound. split.
  { eapply year_parts_mono; [apply (Ef F_year)|apply (Ef F_year_div_100)|apply (Ef F_year_mod_100)|exact S1]. }
  split.
  { exists iw. split; [exact Hiw|]. split.
    - eapply year_parts_mono; [apply (Ef F_isoyear)|apply (Ef F_isoyear_div_100)|apply (Ef F_isoyear_mod_100)|exact S2].
    - intros v Hv. apply S2'. apply (Ef F_isoweek). exact Hv. }
  split; [intros v Hv; apply S3; apply (Ef F_quarter); exact Hv|].
  split; [intros v Hv; apply S4; apply (Ef F_month); exact Hv|].
  split; [intros v Hv; apply S5; apply (Ef F_week_from_sun); exact Hv|].
  split; [intros v Hv; apply S6; apply (Ef F_week_from_mon); exact Hv|].
  split; [intros v Hv; apply S7; apply (Ef F_weekday); exact Hv|].
  split; [intros v Hv; apply S8; apply (Ef F_ordinal); exact Hv|].
  intros v Hv; apply S9; apply (Ef F_day); exact Hv.
Qed.

(** every supplied time field equals the corresponding field of the time [t] *)
Definition time_sound (p : parsed) (t : Time.ntime) : Prop :=
  (forall v, p_hour_div_12 p = Some v -> v = Time.hour t / 12) /\
  (forall v, p_hour_mod_12 p = Some v -> v = Time.hour t mod 12) /\
  (forall v, p_minute p = Some v -> v = Time.minute t) /\
  (forall v, p_second p = Some v -> v = Time.second t + (if Time.nanosecond t >=? 1000000000 then 1 else 0)) /\
  (forall v, p_nanosecond p = Some v -> v = Time.nanosecond t mod 1000000000).
Lemma time_sound_mono p q t : extends p q -> time_sound q t -> time_sound p t.
Proof.
  intros E (S1 & S2 & S3 & S4 & S5). pose proof (fun f => E f) as Ef. unfold time_sound.
  split; [intros v Hv; apply S1; apply (Ef F_hour_div_12); exact Hv|].
  split; [intros v Hv; apply S2; apply (Ef F_hour_mod_12); exact Hv|].
  split; [intros v Hv; apply S3; apply (Ef F_minute); exact Hv|].
  split; [intros v Hv; apply S4; apply (Ef F_second); exact Hv|].
  intros v Hv; apply S5; apply (Ef F_nanosecond); exact Hv.
Qed.
Lemma typed_time p : typed p ->
  u32v (p_hour_div_12 p) /\ u32v (p_hour_mod_12 p) /\ u32v (p_minute p) /\ u32v (p_second p) /\ u32v (p_nanosecond p).
Proof.
  intros H. unfold u32v.
  repeat match goal with |- _ /\ _ => split end;
  match goal with |- match ?o with _ => _ end => destruct o as [v|] eqn:E; [|exact I] end.
  - apply (H F_hour_div_12 _ E).
  - apply (H F_hour_mod_12 _ E).
  - apply (H F_minute _ E).
  - apply (H F_second _ E).
  - apply (H F_nanosecond _ E).
Qed.
Lemma to_naive_time_sound' p t : typed p -> to_naive_time p = Val (Ok t) -> time_sound p t.
Proof.
  intros T H. destruct (typed_time p T) as (U1 & U2 & U3 & U4 & U5).
  destruct (to_naive_time_sound p t U1 U2 U3 U4 U5 H) as (S1 & S2 & S3 & S4 & S5 & _).
  unfold time_sound. tauto.
Qed.

(** one accepted setter call: the state is extended by exactly that field *)
Lemma set_checked_step f lo hi cast p v q u :
  typed p -> set_checked f lo hi cast p v = (q, Ok u) -> (lo <= v <= hi -> ftype f (cast v)) ->
  typed q /\ extends p q /\ pget f q = Some (cast v) /\ lo <= v <= hi.
Proof.
  intros T H Ht. rewrite (unit_tt u) in H. apply set_checked_inv in H. destruct H as (R & -> & E).
  split; [apply typed_pput; auto|]. split; [exact E|]. split; [apply pget_pput_same|exact R].
Qed.
Lemma set_hour_step p h q u : typed p -> set_hour p h = Val (q, Ok u) ->
  typed q /\ extends p q /\ pget F_hour_div_12 q = Some (h / 12) /\ pget F_hour_mod_12 q = Some (h mod 12) /\
  0 <= h <= 23.
Proof.
  intros T H. rewrite set_hour_value in H. inversion H as [H']. clear H.
  destruct (contains 0 23 h) eqn:E; [|discriminate]. apply contains_spec in E.
  destruct (set_if_consistent F_hour_div_12 p (h / 12)) as [p1 [u1|e1]] eqn:E1; [|discriminate].
  rewrite (unit_tt u1) in E1. rewrite (unit_tt u) in H'.
  apply set_if_consistent_inv in E1. destruct E1 as (-> & X1).
  apply set_if_consistent_inv in H'. destruct H' as (-> & X2).
  split.
  { apply typed_pput; [apply typed_pput; [exact T|]|]; cbn; unfold u32_max; lia. }
  split; [eapply extends_trans; eauto|].
  split; [|split; [apply pget_pput_same|exact E]].
  rewrite pget_pput_other by discriminate. apply pget_pput_same.
Qed.

Section DateTimeFacts.
  Hypothesis Hyp_from_ymd : forall y m d dt,
    in_i32 y = true -> 0 <= m <= u32_max -> 0 <= d <= u32_max ->
    Date.from_ymd_opt y m d = Val (Some dt) ->
    Date.d_year dt = y /\ Date.d_month dt = Val m /\ Date.d_day dt = Val d.
  Hypothesis Hyp_from_isoywd : forall y w wd dt,
    in_i32 y = true -> 0 <= w <= u32_max -> 0 <= wd <= 6 ->
    Date.from_isoywd_opt y w wd = Val (Some dt) ->
    exists iw, Date.d_iso_week dt = Val iw /\ Date.iw_year iw = y /\ Date.iw_week iw = w /\
               Date.d_weekday dt = Val wd.

  Lemma date_sound_typed p d : typed p -> to_naive_date p = Val (Ok d) -> date_sound p d.
  Proof.
    intros T H. eapply to_naive_date_sound_modulo_date; eauto. apply typed_date; exact T.
  Qed.

  (** the supplied timestamp is the value's own count of non-leap seconds (one more is accepted for
      a leap-second value), or -- when date and time are rebuilt from the timestamp -- the value
      carries the calendar fields of that instant (stepped back one second for second = 60) *)
  Definition ts_sound (p : parsed) (v : ndt) (off : Z) : Prop :=
    forall g, p_timestamp p = Some g ->
    (exists t0, dt_timestamp v = Val t0 /\
       (g = t0 - off \/ (Time.nanosecond (nd_time v) >= 1000000000 /\ g = t0 - off + 1)))
    \/
    (exists dtm0 dtm, dt_from_timestamp (g + off) 0 = Val (Some dtm0) /\
       (dtm = dtm0 \/
        (p_second p = Some 60 /\ Time.second (nd_time dtm0) = 0 /\
         exists one, try_seconds 1 = Some one /\ ndt_checked_sub_signed dtm0 one = Val (Some dtm))) /\
       Date.d_year (nd_date v) = Date.d_year (nd_date dtm) /\
       Date.d_ordinal (nd_date v) = Date.d_ordinal (nd_date dtm) /\
       Time.hour (nd_time v) = Time.hour (nd_time dtm) /\
       Time.minute (nd_time v) = Time.minute (nd_time dtm) /\
       (p_second p = Some 60 \/
        Time.second (nd_time dtm) =
          Time.second (nd_time v) + (if Time.nanosecond (nd_time v) >=? 1000000000 then 1 else 0))).

  Theorem to_naive_datetime_sound_modulo_date p off v :
    typed p -> in_i32 off = true ->
    to_naive_datetime_with_offset p off = Val (Ok v) ->
    date_sound p (nd_date v) /\ time_sound p (nd_time v) /\ ts_sound p v off.
  Proof.
    intros T Hoff H. unfold to_naive_datetime_with_offset in H.
    apply bind_val in H. destruct H as (date & Hdate & H).
    apply bind_val in H. destruct H as (time & Htime & H).
    assert (PathB : forall timestamp, p_timestamp p = Some timestamp ->
      (if is_err_kind date OutOfRange || is_err_kind time OutOfRange then Val (Err OutOfRange)
       else if is_err_kind date Impossible || is_err_kind time Impossible then Val (Err Impossible)
       else
        let! ts := ok_or (checked_add in_i64 timestamp off) OutOfRange in
        let! datetime := ok_or_r (dt_from_timestamp ts 0) OutOfRange in
        let! '(datetime, parsed) :=
          (if opt_eqb (p_second p) (Some 60) then
             let sec := Time.second (nd_time datetime) in
             if sec =? 59 then Val (Ok (datetime, p))
             else if sec =? 0 then
               let* one := unwrap (try_seconds 1) in
               let! d := ok_or_r (ndt_checked_sub_signed datetime one) OutOfRange in
               Val (Ok (d, p))
             else Val (Err Impossible)
           else
             let! p1 := tryset (set_second p (Time.second (nd_time datetime))) in
             Val (Ok (datetime, p1))) in
        let! parsed := tryset (set_year parsed (Date.d_year (nd_date datetime))) in
        let! parsed := tryset (set_ordinal parsed (Date.d_ordinal (nd_date datetime))) in
        let* sh := set_hour parsed (Time.hour (nd_time datetime)) in
        let! parsed := tryset sh in
        let! parsed := tryset (set_minute parsed (Time.minute (nd_time datetime))) in
        let! date := to_naive_date parsed in
        let! time := to_naive_time parsed in
        Val (Ok (mk_ndt date time))) = Val (Ok v) ->
      date_sound p (nd_date v) /\ time_sound p (nd_time v) /\ ts_sound p v off).
    { intros g Hg HB.
      destruct (is_err_kind date OutOfRange || is_err_kind time OutOfRange); [discriminate|].
      destruct (is_err_kind date Impossible || is_err_kind time Impossible); [discriminate|].
      apply ebind_ok in HB. destruct HB as (ts & Hts & HB).
      apply ebind_ok in HB. destruct HB as (dtm0 & Hdtm0 & HB). apply ok_or_r_ok in Hdtm0.
      apply ebind_ok in HB. destruct HB as ([dtm p1] & Hstep & HB).
      apply ebind_ok in HB. destruct HB as (p2 & Hp2 & HB).
      apply ebind_ok in HB. destruct HB as (p3 & Hp3 & HB).
      apply bind_val in HB. destruct HB as (sh & Hsh & HB).
      apply ebind_ok in HB. destruct HB as (p4 & Hp4 & HB).
      apply ebind_ok in HB. destruct HB as (p5 & Hp5 & HB).
      apply ebind_ok in HB. destruct HB as (d' & Hd' & HB).
      apply ebind_ok in HB. destruct HB as (t' & Ht' & HB). inversion HB; subst v. clear HB.
      cbn [nd_date nd_time].
      assert (Ets : ts = g + off).
      { unfold ok_or, checked_add, chko in Hts. destruct (in_i64 (g + off)); inversion Hts. reflexivity. }
      subst ts.
      (* the second field / the leap-second step *)
      assert (S1 : typed p1 /\ extends p p1 /\
                   (dtm = dtm0 \/
                    (p_second p = Some 60 /\ Time.second (nd_time dtm0) = 0 /\
                     exists one, try_seconds 1 = Some one /\ ndt_checked_sub_signed dtm0 one = Val (Some dtm))) /\
                   (p_second p = Some 60 \/ pget F_second p1 = Some (Time.second (nd_time dtm)))).
      { destruct (opt_eqb (p_second p) (Some 60)) eqn:E60.
        - assert (p_second p = Some 60).
          { destruct (p_second p) as [s|]; cbn in E60; [f_equal; lia|discriminate]. }
          cbv zeta in Hstep. destruct (Time.second (nd_time dtm0) =? 59) eqn:E59.
          + inversion Hstep; subst. split; [exact T|]. split; [apply extends_refl|]. auto.
          + destruct (Time.second (nd_time dtm0) =? 0) eqn:E0; [|discriminate].
            apply bind_val in Hstep. destruct Hstep as (one & Hone & Hstep).
            apply ebind_ok in Hstep. destruct Hstep as (dd & Hdd & Hstep). apply ok_or_r_ok in Hdd.
            inversion Hstep; subst. split; [exact T|]. split; [apply extends_refl|]. split; [|auto].
            right. split; [assumption|]. split; [lia|]. exists one. split; [|exact Hdd].
            unfold unwrap in Hone. destruct (try_seconds 1); inversion Hone. reflexivity.
        - apply ebind_ok in Hstep. destruct Hstep as (q & Hq & Hstep). inversion Hstep; subst. clear Hstep.
          apply tryset_ok in Hq. destruct Hq as (u & Hq). unfold set_second in Hq.
          apply set_checked_step in Hq; [|exact T|intros R; rewrite as_u32_small by (unfold u32_max; lia); unfold ftype, u32_max; lia].
          destruct Hq as (Tq & Eq & Gq & Rq). rewrite as_u32_small in Gq by (unfold u32_max; lia).
          split; [exact Tq|]. split; [exact Eq|]. split; [left; reflexivity|right; exact Gq]. }
      destruct S1 as (T1 & E1 & Hdtm & Hsec).
      apply tryset_ok in Hp2. destruct Hp2 as (u2 & Hp2). unfold set_year in Hp2.
      apply set_checked_step in Hp2; [|exact T1|intros R; unfold ftype, in_i32, in_range; lia].
      destruct Hp2 as (T2 & E2 & G2 & R2).
      apply tryset_ok in Hp3. destruct Hp3 as (u3 & Hp3). unfold set_ordinal in Hp3.
      apply set_checked_step in Hp3; [|exact T2|intros R; rewrite as_u32_small by (unfold u32_max; lia); unfold ftype, u32_max; lia].
      destruct Hp3 as (T3 & E3 & G3 & R3). rewrite as_u32_small in G3 by (unfold u32_max; lia).
      apply tryset_ok in Hp4. destruct Hp4 as (u4 & Hp4). subst sh.
      apply set_hour_step in Hsh; [|exact T3]. destruct Hsh as (T4 & E4 & G4a & G4b & R4).
      apply tryset_ok in Hp5. destruct Hp5 as (u5 & Hp5). unfold set_minute in Hp5.
      apply set_checked_step in Hp5; [|exact T4|intros R; rewrite as_u32_small by (unfold u32_max; lia); unfold ftype, u32_max; lia].
      destruct Hp5 as (T5 & E5 & G5 & R5). rewrite as_u32_small in G5 by (unfold u32_max; lia).
      assert (E15 : extends p p5) by (repeat (eapply extends_trans; [eassumption|]); apply extends_refl).
      pose proof (date_sound_typed p5 d' T5 Hd') as DS.
      pose proof (to_naive_time_sound' p5 t' T5 Ht') as TS.
      split; [eapply date_sound_mono; eauto|]. split; [eapply time_sound_mono; eauto|].
      intros g' Hg'. rewrite Hg in Hg'. inversion Hg'; subst g'. right.
      exists dtm0, dtm. split; [exact Hdtm0|]. split; [exact Hdtm|].
      destruct DS as ((Y1 & _ & _) & _ & _ & _ & _ & _ & _ & O1 & _).
      destruct TS as (H1 & H2 & H3 & H4 & _).
      assert (G2' : pget F_year p5 = Some (Date.d_year (nd_date dtm))) by (apply E5, E4, E3; exact G2).
      assert (G3' : pget F_ordinal p5 = Some (Date.d_ordinal (nd_date dtm))) by (apply E5, E4; exact G3).
      assert (G4a' : pget F_hour_div_12 p5 = Some (Time.hour (nd_time dtm) / 12)) by (apply E5; exact G4a).
      assert (G4b' : pget F_hour_mod_12 p5 = Some (Time.hour (nd_time dtm) mod 12)) by (apply E5; exact G4b).
      split; [apply (Y1 _ G2')|]. split; [apply (O1 _ G3')|].
      specialize (H1 _ G4a'). specialize (H2 _ G4b'). specialize (H3 _ G5). cbn [nd_date nd_time].
      split; [lia|]. split; [lia|].
      destruct Hsec as [Hs|Hs]; [left; exact Hs|right].
      assert (Hs' : pget F_second p5 = Some (Time.second (nd_time dtm))) by (apply E5, E4, E3, E2; exact Hs).
      apply (H4 _ Hs'). }
    destruct date as [d|ed], time as [t|et].
    - (* from date and time fields *)
      apply bind_val in H. destruct H as (ts0 & Hts0 & H).
      apply bind_val in H. destruct H as (timestamp & Htimestamp & H).
      pose proof (date_sound_typed p d T Hdate) as DS.
      pose proof (to_naive_time_sound' p t T Htime) as TS.
      unfold sub_i64, chk in Htimestamp. destruct (in_i64 (ts0 - off)); inversion Htimestamp; subst timestamp.
      destruct (p_timestamp p) as [g|] eqn:Eg.
      + apply bind_val in H. destruct H as (bad & Hbad & H). destruct bad; [discriminate|].
        inversion H; subst v. cbn [nd_date nd_time]. split; [exact DS|]. split; [exact TS|].
        intros g' Hg'. rewrite Eg in Hg'. inversion Hg'; subst g'. left. exists ts0. split; [exact Hts0|].
        destruct (g =? ts0 - off) eqn:E1; cbn [negb] in Hbad; [left; lia|].
        cbn [nd_time] in Hbad.
        destruct (Time.nanosecond t >=? 1000000000) eqn:E2; [|discriminate].
        apply bind_val in Hbad. destruct Hbad as (t1 & Ht1 & Hbad).
        unfold add_i64, chk in Ht1. destruct (in_i64 (ts0 - off + 1)); inversion Ht1; subst t1.
        inversion Hbad. right. cbn [nd_time]. split; [lia|].
        destruct (g =? ts0 - off + 1) eqn:E3; cbn [negb] in *; [lia|discriminate].
      + inversion H; subst v. cbn [nd_date nd_time]. split; [exact DS|]. split; [exact TS|].
        intros g' Hg'. rewrite Eg in Hg'. discriminate.
    - destruct (p_timestamp p) as [g|] eqn:Eg; [eapply PathB; eauto|discriminate].
    - destruct (p_timestamp p) as [g|] eqn:Eg; [eapply PathB; eauto|discriminate].
    - destruct (p_timestamp p) as [g|] eqn:Eg; [eapply PathB; eauto|discriminate].
  Qed.
End DateTimeFacts.

(** * to_fixed_offset, to_datetime, to_datetime_with_timezone *)
Lemma east_opt_spec o : east_opt o = (if (-86400 <? o) && (o <? 86400) then Some o else None).
Proof. reflexivity. Qed.

(** complete description of [to_fixed_offset] *)
Theorem to_fixed_offset_spec p :
  to_fixed_offset p =
  Val (match p_offset p with
       | None => Err NotEnough
       | Some o => if (-86400 <? o) && (o <? 86400) then Ok o else Err OutOfRange
       end).
Proof.
  unfold to_fixed_offset, ok_or. destruct (p_offset p) as [o|]; cbn [ebind bind]; [|reflexivity].
  rewrite east_opt_spec. destruct ((-86400 <? o) && (o <? 86400)); reflexivity.
Qed.

Lemma from_local_single off local z : from_local_datetime off local = Val (MSingle z) ->
  dz_off z = off /\ ndt_checked_sub_offset local off = Val (Some (dz_utc z)).
Proof.
  unfold from_local_datetime. intros H. apply bind_val in H. destruct H as ([u|] & Hu & H); inversion H; subst.
  cbn [dz_off dz_utc]. auto.
Qed.
Lemma from_local_not_ambiguous off local a b : from_local_datetime off local <> Val (MAmbiguous a b).
Proof.
  unfold from_local_datetime. intros H. apply bind_val in H. destruct H as ([u|] & Hu & H); inversion H.
Qed.

Section ZonedFacts.
  Hypothesis Hyp_from_ymd : forall y m d dt,
    in_i32 y = true -> 0 <= m <= u32_max -> 0 <= d <= u32_max ->
    Date.from_ymd_opt y m d = Val (Some dt) ->
    Date.d_year dt = y /\ Date.d_month dt = Val m /\ Date.d_day dt = Val d.
  Hypothesis Hyp_from_isoywd : forall y w wd dt,
    in_i32 y = true -> 0 <= w <= u32_max -> 0 <= wd <= 6 ->
    Date.from_isoywd_opt y w wd = Val (Some dt) ->
    exists iw, Date.d_iso_week dt = Val iw /\ Date.iw_year iw = y /\ Date.iw_week iw = w /\
               Date.d_weekday dt = Val wd.

  (** a zoned result [z]: its local reading agrees with every supplied date / time field and with
      the timestamp; its offset is the supplied one *)
  Definition zoned_sound (p : parsed) (z : dtz) : Prop :=
    exists local,
      ndt_checked_sub_offset local (dz_off z) = Val (Some (dz_utc z)) /\
      -86400 < dz_off z < 86400 /\
      date_sound p (nd_date local) /\ time_sound p (nd_time local) /\ ts_sound p local (dz_off z) /\
      (forall o, p_offset p = Some o -> dz_off z = o).

  Theorem to_datetime_sound_modulo_date p z :
    typed p -> to_datetime p = Val (Ok z) ->
    zoned_sound p z /\ (p_offset p = None -> dz_off z = 0 /\ p_timestamp p <> None).
  Proof.
    intros T H. unfold to_datetime in H.
    apply ebind_ok in H. destruct H as (offset & Hoff & H).
    apply ebind_ok in H. destruct H as (local & Hlocal & H).
    apply ebind_ok in H. destruct H as (off' & Hoff' & H).
    apply bind_val in H. destruct H as (m & Hm & H).
    unfold ok_or in Hoff'. rewrite east_opt_spec in Hoff'.
    destruct ((-86400 <? offset) && (offset <? 86400)) eqn:Er; inversion Hoff'; subst off'. clear Hoff'.
    destruct m as [|t|a b]; inversion H; subst t. clear H.
    apply from_local_single in Hm. destruct Hm as [Hz Hu].
    assert (Hi : in_i32 offset = true) by (unfold in_i32, in_range, i32_min, i32_max; lia).
    destruct (to_naive_datetime_sound_modulo_date Hyp_from_ymd Hyp_from_isoywd p offset local T Hi Hlocal) as (DS & TS & SS).
    split.
    - exists local. rewrite Hz. split; [exact Hu|]. split; [lia|]. split; [exact DS|]. split; [exact TS|].
      split; [exact SS|]. intros o Ho. rewrite Ho in Hoff. inversion Hoff. reflexivity.
    - intros Hn. rewrite Hn in Hoff. destruct (p_timestamp p); inversion Hoff as [Ho]. split; [rewrite Hz; symmetry; exact Ho|discriminate].
  Qed.

  Theorem to_datetime_with_timezone_sound_modulo_date p tz z :
    typed p -> -86400 < tz < 86400 -> to_datetime_with_timezone p tz = Val (Ok z) ->
    zoned_sound p z /\ dz_off z = tz.
  Proof.
    intros T Htz H. unfold to_datetime_with_timezone in H.
    apply ebind_ok in H. destruct H as (guessed & Hg & H).
    apply ebind_ok in H. destruct H as (local & Hlocal & H).
    apply bind_val in H. destruct H as (m & Hm & H).
    destruct m as [|t|a b]; [discriminate| |exfalso; eapply from_local_not_ambiguous; eauto].
    apply from_local_single in Hm. destruct Hm as [Hz Hu].
    assert (Hcheck : (match p_offset p with Some offset => dz_off t =? offset | None => true end) = true /\ t = z).
    { destruct (match p_offset p with Some offset => dz_off t =? offset | None => true end); inversion H; auto. }
    destruct Hcheck as [Hc ->]. clear H.
    assert (Hgv : guessed = tz \/ (guessed = 0 /\ p_timestamp p = None)).
    { destruct (p_timestamp p) as [g|].
      - apply ebind_ok in Hg. destruct Hg as (dt & _ & Hg). inversion Hg. auto.
      - inversion Hg. auto. }
    assert (Hi : in_i32 guessed = true) by (unfold in_i32, in_range, i32_min, i32_max; lia).
    destruct (to_naive_datetime_sound_modulo_date Hyp_from_ymd Hyp_from_isoywd p guessed local T Hi Hlocal) as (DS & TS & SS).
    split; [|exact Hz].
    exists local. rewrite Hz. split; [exact Hu|]. split; [exact Htz|]. split; [exact DS|]. split; [exact TS|]. split.
    - destruct Hgv as [->|[-> Hn]]; [exact SS|]. intros g Hg'. congruence.
    - intros o Ho. rewrite Ho in Hc. rewrite Hz in Hc. lia.
  Qed.
End ZonedFacts.

(** * The two constructor facts as named propositions (statements of Proofs/Date.v) *)
Definition Fact_from_ymd : Prop := forall y m d dt,
  in_i32 y = true -> 0 <= m <= u32_max -> 0 <= d <= u32_max ->
  Date.from_ymd_opt y m d = Val (Some dt) ->
  Date.d_year dt = y /\ Date.d_month dt = Val m /\ Date.d_day dt = Val d.
Definition Fact_from_isoywd : Prop := forall y w wd dt,
  in_i32 y = true -> 0 <= w <= u32_max -> 0 <= wd <= 6 ->
  Date.from_isoywd_opt y w wd = Val (Some dt) ->
  exists iw, Date.d_iso_week dt = Val iw /\ Date.iw_year iw = y /\ Date.iw_week iw = w /\
             Date.d_weekday dt = Val wd.

(** * Worked examples (the documentation example of Parsed; the repaired defect) *)
Definition ex_fields (weekday : Z) : parsed :=
  pput F_offset (Some 0) (pput F_second (Some 40) (pput F_minute (Some 26)
  (pput F_hour_mod_12 (Some 4) (pput F_hour_div_12 (Some 0)
  (pput F_year (Some 2014) (pput F_month (Some 12) (pput F_day (Some 31)
  (pput F_weekday (Some weekday) parsed_new)))))))).
Lemma ex_doc_ok : to_datetime (ex_fields 2) =
  Val (Ok (mk_dtz (mk_ndt (match Date.from_ymd_opt 2014 12 31 with Val (Some d) => d | _ => 0 end)
                          (Time.mk_time 16000 0)) 0)).
Proof. vm_compute. reflexivity. Qed.
Lemma ex_doc_wrong_weekday : to_datetime (ex_fields 3) = Val (Err Impossible).
Proof. vm_compute. reflexivity. Qed.
Lemma ex_typed : typed (ex_fields 2).
Proof.
  unfold ex_fields. repeat (apply typed_pput; [|cbn; unfold in_i32, in_range, i32_min, i32_max, u32_max; lia]).
  apply typed_new.
Qed.
(** the repaired defect: the leap-second step before the earliest representable second *)
Definition ex_min_leap : parsed := pput F_second (Some 60) (pput F_timestamp (Some (-8334601228800)) parsed_new).
Lemma ex_min_leap_out_of_range : to_naive_datetime_with_offset ex_min_leap 0 = Val (Err OutOfRange).
Proof. vm_compute. reflexivity. Qed.
Lemma ex_leap_second : exists v,
  to_naive_datetime_with_offset (pput F_second (Some 60) (pput F_timestamp (Some 1341100800) parsed_new)) 0 = Val (Ok v)
  /\ Time.tsecs (nd_time v) = 86399 /\ Time.tfrac (nd_time v) = 1000000000.
Proof. eexists. split; [vm_compute; reflexivity|]. split; reflexivity. Qed.
Lemma ex_year_groups :
  resolve_year None None (Some 69) = Val (Ok (Some 2069)) /\ resolve_year None None (Some 70) = Val (Ok (Some 1970)) /\
  resolve_year None (Some 19) (Some 84) = Val (Ok (Some 1984)) /\ resolve_year (Some (-5)) (Some 0) None = Val (Err Impossible) /\
  resolve_year None (Some 20) None = Val (Err NotEnough) /\
  resolve_year None (Some 21474836) (Some 48) = Val (Err OutOfRange).
Proof. repeat split; vm_compute; reflexivity. Qed.
