(** C14 proofs: Parsed-level logic of Model/Parsed.v (setters, resolve_year, which verifier checks
    which field) and the soundness / completeness theorems of field resolution. *)
From Coq Require Import ZArith List Bool Lia ZifyBool.
From V Require Import Base.Int Base.IntLemmas Base.IO Model.TimeDelta.
From V Require Model.Date Model.Time.
From V Require Import Model.DateTime Model.Parsed.
Import ListNotations.
Open Scope Z_scope.
Ltac Zify.zify_post_hook ::= Z.to_euclidean_division_equations.

(** * Field record *)
Lemma pget_pput_same f v p : pget f (pput f v p) = v.
Proof. destruct f; reflexivity. Qed.
Lemma pget_pput_other f g v p : f <> g -> pget g (pput f v p) = pget g p.
Proof. intros H. destruct f, g; try reflexivity; congruence. Qed.

(** * set_if_consistent: accepted exactly when the field is empty or holds the same value *)
Lemma set_if_consistent_ok f p v :
  snd (set_if_consistent f p v) = Ok tt <-> (pget f p = None \/ pget f p = Some v).
Proof.
  unfold set_if_consistent. destruct (pget f p) as [old|] eqn:E.
  - destruct (old =? v) eqn:E2; cbn [negb snd]; split; intros H.
    + right. f_equal. lia.
    + reflexivity.
    + discriminate.
    + destruct H as [H|H]; [discriminate|]. inversion H. lia.
  - cbn [snd]. split; auto.
Qed.
Lemma set_if_consistent_err f p v :
  snd (set_if_consistent f p v) = Ok tt \/
  (snd (set_if_consistent f p v) = Err Impossible /\ fst (set_if_consistent f p v) = p).
Proof.
  unfold set_if_consistent. destruct (pget f p) as [old|]; [|left; reflexivity].
  destruct (old =? v); cbn [negb fst snd]; [left|right]; auto.
Qed.
Lemma set_if_consistent_state f p v :
  snd (set_if_consistent f p v) = Ok tt -> pget f (fst (set_if_consistent f p v)) = Some v.
Proof.
  unfold set_if_consistent. destruct (pget f p) as [old|].
  - destruct (old =? v); cbn [negb fst snd]; [intros _; apply pget_pput_same|discriminate].
  - intros _. apply pget_pput_same.
Qed.

(** Setting a field twice is accepted exactly when the two values are equal. *)
Theorem set_twice_iff_equal f p v w :
  pget f p = None ->
  let p1 := fst (set_if_consistent f p v) in
  snd (set_if_consistent f p v) = Ok tt /\
  (snd (set_if_consistent f p1 w) = Ok tt <-> w = v) /\
  (w <> v -> snd (set_if_consistent f p1 w) = Err Impossible /\ fst (set_if_consistent f p1 w) = p1).
Proof.
  intros Hn p1.
  assert (H1 : snd (set_if_consistent f p v) = Ok tt) by (apply set_if_consistent_ok; auto).
  pose proof (set_if_consistent_state f p v H1) as Hs. fold p1 in Hs.
  split; [exact H1|]. split.
  - rewrite set_if_consistent_ok. rewrite Hs. split.
    + intros [H|H]; [discriminate|]. inversion H. reflexivity.
    + intros ->. right. reflexivity.
  - intros Hne. destruct (set_if_consistent_err f p1 w) as [H|H]; [|exact H].
    apply set_if_consistent_ok in H. rewrite Hs in H. destruct H as [H|H]; [discriminate|].
    inversion H. congruence.
Qed.

(** * Setters with a range check *)
Lemma contains_spec lo hi v : contains lo hi v = true <-> lo <= v <= hi.
Proof. unfold contains. lia. Qed.

Lemma set_checked_out f lo hi cast p v :
  ~ (lo <= v <= hi) -> set_checked f lo hi cast p v = (p, Err OutOfRange).
Proof.
  intros H. unfold set_checked. destruct (contains lo hi v) eqn:E; [apply contains_spec in E; lia|reflexivity].
Qed.
Lemma set_checked_in f lo hi cast p v :
  lo <= v <= hi -> set_checked f lo hi cast p v = set_if_consistent f p (cast v).
Proof.
  intros H. unfold set_checked. destruct (contains lo hi v) eqn:E; [reflexivity|].
  assert (contains lo hi v = true) by (apply contains_spec; exact H). congruence.
Qed.
(** a range-checked setter accepts a value exactly when it is in the documented range and the
    field is empty or already holds it; a refused call leaves the fields unchanged *)
Lemma set_checked_ok f lo hi cast p v :
  snd (set_checked f lo hi cast p v) = Ok tt <->
  (lo <= v <= hi /\ (pget f p = None \/ pget f p = Some (cast v))).
Proof.
  destruct (Z_le_dec lo v) as [H1|H1]; [destruct (Z_le_dec v hi) as [H2|H2]|].
  - rewrite set_checked_in by lia. rewrite set_if_consistent_ok. intuition.
  - rewrite set_checked_out by lia. cbn [snd]. split; [discriminate|lia].
  - rewrite set_checked_out by lia. cbn [snd]. split; [discriminate|lia].
Qed.
Lemma set_checked_result f lo hi cast p v :
  match snd (set_checked f lo hi cast p v) with
  | Ok _ => lo <= v <= hi /\ fst (set_checked f lo hi cast p v) = pput f (Some (cast v)) p
  | Err OutOfRange => ~ (lo <= v <= hi) /\ fst (set_checked f lo hi cast p v) = p
  | Err Impossible => lo <= v <= hi /\ (exists old, pget f p = Some old /\ old <> cast v)
                      /\ fst (set_checked f lo hi cast p v) = p
  | Err _ => False
  end.
Proof.
  unfold set_checked. destruct (contains lo hi v) eqn:E; cbn [negb].
  - apply contains_spec in E. unfold set_if_consistent. destruct (pget f p) as [old|] eqn:Eo.
    + destruct (old =? cast v) eqn:E2; cbn [negb fst snd].
      * split; [exact E|reflexivity].
      * split; [exact E|]. split; [|reflexivity]. exists old. split; [reflexivity|lia].
    + cbn [fst snd]. split; [exact E|reflexivity].
  - cbn [fst snd]. split; [|reflexivity]. intros H. apply contains_spec in H. congruence.
Qed.

(** the casts of the setters are the identity on the accepted ranges *)
Lemma as_i32_small v : 0 <= v <= i32_max -> as_i32 v = v.
Proof. intros H. apply as_i32_id. unfold in_i32, in_range, i32_min, i32_max in *. lia. Qed.
Lemma as_u32_small v : 0 <= v <= u32_max -> as_u32 v = v.
Proof. intros H. apply as_u32_id. unfold in_u32, in_range, u32_max in *. lia. Qed.

(** * set_hour: 24-hour clock *)
Lemma set_hour_no_panic p v : set_hour p v <> Panic /\ set_hour p v <> OutOfFuel.
Proof.
  unfold set_hour. destruct (contains 0 11 v) eqn:E1.
  - cbn [bind]. destruct (set_if_consistent F_hour_div_12 p 0) as [p1 [u|e]]; split; discriminate.
  - destruct (contains 12 23 v) eqn:E2.
    + apply contains_spec in E2. rewrite as_u32_small by (unfold u32_max; lia).
      unfold sub_u32, chk. replace (in_u32 (v - 12)) with true by (unfold in_u32, in_range, u32_max; lia).
      cbn [bind]. destruct (set_if_consistent F_hour_div_12 p 1) as [p1 [u|e]]; split; discriminate.
    + cbn [bind]. split; discriminate.
Qed.
Lemma set_hour_value p v :
  set_hour p v =
  Val (if contains 0 23 v then
         match set_if_consistent F_hour_div_12 p (v / 12) with
         | (p1, Err e) => (p1, Err e)
         | (p1, Ok _) => set_if_consistent F_hour_mod_12 p1 (v mod 12)
         end
       else (p, Err OutOfRange)).
Proof.
  unfold set_hour. destruct (contains 0 11 v) eqn:E1.
  - apply contains_spec in E1. replace (contains 0 23 v) with true by (symmetry; apply contains_spec; lia).
    cbn [bind]. rewrite as_u32_small by (unfold u32_max; lia).
    replace (v / 12) with 0 by lia. replace (v mod 12) with v by lia.
    destruct (set_if_consistent F_hour_div_12 p 0) as [p1 [u|e]]; reflexivity.
  - destruct (contains 12 23 v) eqn:E2.
    + apply contains_spec in E2. replace (contains 0 23 v) with true by (symmetry; apply contains_spec; lia).
      rewrite as_u32_small by (unfold u32_max; lia).
      unfold sub_u32, chk. replace (in_u32 (v - 12)) with true by (unfold in_u32, in_range, u32_max; lia).
      cbn [bind]. replace (v / 12) with 1 by lia. replace (v mod 12) with (v - 12) by lia.
      destruct (set_if_consistent F_hour_div_12 p 1) as [p1 [u|e]]; reflexivity.
    + cbn [bind]. destruct (contains 0 23 v) eqn:E3; [|reflexivity].
      apply contains_spec in E3.
      assert (~ (0 <= v <= 11)) by (intros H; apply contains_spec in H; congruence).
      assert (~ (12 <= v <= 23)) by (intros H'; apply contains_spec in H'; congruence). lia.
Qed.

(** every setter of the case protocol returns by value for every i64 argument *)
Lemma apply_setter_no_panic k p v r : apply_setter k p v = Some r -> r <> Panic /\ r <> OutOfFuel.
Proof.
  unfold apply_setter. destruct (negb (in_i64 v)); [discriminate|].
  repeat match goal with
  | |- (if ?c then _ else _) = Some r -> _ => destruct c
  end; try discriminate; intros H; inversion H; subst; try (split; discriminate).
  apply set_hour_no_panic.
Qed.

(** * resolve_year *)
Definition i32v (o : option Z) : Prop := match o with Some v => in_i32 v = true | None => True end.
Definition pivot (r : Z) : Z := if r <? 70 then 2000 + r else 1900 + r.

Lemma div_i32_100 y : in_i32 y = true -> div_i32 y 100 = Val (Z.quot y 100).
Proof.
  intros H. unfold div_i32. rewrite div_t_nz by lia. apply chk_in.
  unfold in_i32, in_range, i32_min, i32_max in *. 
  lia.
Qed.
Lemma rem_i32_100 y : in_i32 y = true -> rem_i32 y 100 = Val (Z.rem y 100).
Proof.
  intros H. unfold rem_i32. rewrite rem_t_nz by lia.
  pose proof (div_i32_100 y H) as D. unfold div_i32 in D. rewrite div_t_nz in D by lia.
  unfold chk in D. destruct (in_i32 (Z.quot y 100)); [reflexivity|discriminate].
Qed.
Lemma quot_rem_nonneg y : 0 <= y -> Z.quot y 100 = y / 100 /\ Z.rem y 100 = y mod 100.
Proof. intros H. split; [apply Z.quot_div_nonneg; lia|apply Z.rem_mod_nonneg; lia]. Qed.

Ltac ry_start :=
  unfold resolve_year, contains, ok_or, checked_mul, checked_add, chko, add_i32, chk.

(** never traps on fields of the struct's types *)
Lemma resolve_year_no_panic y q r : i32v y -> i32v q -> i32v r ->
  exists res, resolve_year y q r = Val res.
Proof.
  intros Hy Hq Hr. destruct y as [yv|], q as [qv|], r as [rv|]; cbn [i32v] in *; ry_start;
  try rewrite (div_i32_100 _ Hy); try rewrite (rem_i32_100 _ Hy); cbn [bind];
  repeat match goal with
  | |- context [if ?c then _ else _] => destruct c eqn:?
  | |- context [match ?c with Some _ => _ | None => _ end] => destruct c eqn:?
  end; cbn [bind orb]; try (eexists; reflexivity).
  all: unfold in_i32, in_range, i32_min, i32_max in *; try lia.
  all: repeat match goal with H : context [if ?c then _ else _] |- _ => destruct c eqn:? end; lia.
Qed.

(** a resolved year agrees with every supplied part of the group *)
Lemma resolve_year_sound y q r Y : i32v y -> resolve_year y q r = Val (Ok (Some Y)) ->
  (forall v, y = Some v -> Y = v) /\
  (forall v, q = Some v -> 0 <= Y /\ Y / 100 = v) /\
  (forall v, r = Some v -> 0 <= Y /\ Y mod 100 = v) /\
  (y = None -> q = None -> exists v, r = Some v /\ Y = pivot v).
Proof.
  intros Hy. destruct y as [yv|], q as [qv|], r as [rv|]; cbn [i32v] in *; ry_start; unfold pivot;
  try rewrite (div_i32_100 _ Hy); try rewrite (rem_i32_100 _ Hy); cbn [bind];
  repeat match goal with
  | |- context [if ?c then _ else _] => destruct c eqn:?
  end; cbn [bind orb unwrap_or]; intros H; inversion H; subst; clear H.
  all: try (pose proof (quot_rem_nonneg Y ltac:(lia)) as [Hq Hr]).
  all: repeat split; intros; try discriminate;
       repeat match goal with H : Some _ = Some _ |- _ => inversion H; subst; clear H end;
       try congruence; cbn [unwrap_or] in *; try lia.
  all: try (eexists; split; [reflexivity|]; destruct (_ <? 70); lia).
Qed.

Lemma resolve_year_none y q r : resolve_year y q r = Val (Ok None) <-> (y = None /\ q = None /\ r = None).
Proof.
  split.
  - destruct y as [yv|], q as [qv|], r as [rv|]; ry_start; unfold div_i32, rem_i32, div_t, rem_t, chk;
    repeat match goal with
    | |- context [if ?c then _ else _] => destruct c eqn:?
    end; cbn [bind orb]; intros H; try discriminate; auto;
    repeat match goal with
    | H : context [if ?c then _ else _] |- _ => destruct c eqn:?
    end; discriminate.
  - intros (-> & -> & ->). reflexivity.
Qed.

(** the parts are those of an actual year [Y] and the group is determinate: the full year, or
    century plus two-digit year, or the two-digit year alone for 1970..2069 *)
Definition group_of (Y : Z) (y q r : option Z) : Prop :=
  (forall v, y = Some v -> v = Y) /\
  (forall v, q = Some v -> 0 <= Y /\ v = Y / 100) /\
  (forall v, r = Some v -> 0 <= Y /\ v = Y mod 100).
Definition determinate (Y : Z) (y q r : option Z) : Prop :=
  y <> None \/ (q <> None /\ r <> None) \/ (q = None /\ r <> None /\ 1970 <= Y <= 2069).

Lemma resolve_year_complete Y y q r : in_i32 Y = true -> group_of Y y q r -> determinate Y y q r ->
  resolve_year y q r = Val (Ok (Some Y)).
Proof.
  intros HY (Gy & Gq & Gr) D.
  destruct y as [yv|], q as [qv|], r as [rv|];
  try (specialize (Gy _ eq_refl)); try (specialize (Gq _ eq_refl)); try (specialize (Gr _ eq_refl)); subst;
  ry_start; try rewrite (div_i32_100 _ HY); try rewrite (rem_i32_100 _ HY); cbn [bind unwrap_or];
  try (pose proof (quot_rem_nonneg Y ltac:(lia)) as [Hq Hr]; rewrite ?Hq, ?Hr).
  all: unfold determinate in D.
  all: repeat match goal with
  | |- context [if ?c then _ else _] => destruct c eqn:?
  end; cbn [bind orb]; try reflexivity.
  all: unfold in_i32, in_range, i32_min, i32_max in *; try lia.
  all: try (do 2 f_equal; lia).
  all: try (exfalso; destruct D as [D|[[D1 D2]|(D1 & D2 & D3)]]; try congruence; lia).
  all: try (destruct D as [D|[[D1 D2]|(D1 & D2 & D3)]]; try congruence; do 3 f_equal; lia).
  all: exfalso; repeat match goal with H : context [if ?c then _ else _] |- _ => destruct c eqn:? end; lia.
Qed.

(** error classes: 'not enough' exactly for a century without year and two-digit year *)
Lemma resolve_year_error y q r e : resolve_year y q r = Val (Err e) ->
  (e = NotEnough /\ y = None /\ q <> None /\ r = None) \/
  ((e = Impossible \/ e = OutOfRange) /\ ~ (y = None /\ r = None)).
Proof.
  destruct y as [yv|], q as [qv|], r as [rv|]; ry_start; unfold div_i32, rem_i32, div_t, rem_t, chk;
  repeat match goal with
  | |- context [if ?c then _ else _] => destruct c eqn:?
  end; cbn [bind orb]; intros H;
  repeat match goal with
  | H : context [if ?c then _ else _] |- _ => destruct c eqn:?
  end; inversion H; subst;
  try (left; repeat split; congruence);
  right; (split; [auto|intros [? ?]; congruence]).
Qed.
