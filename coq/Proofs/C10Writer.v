(** C10 proofs, writer side: OffsetFormat::format and write_rfc3339 produce the string the grammar
    generator [render] gives for the wall-clock fields of the value. *)
From Coq Require Import ZArith List Bool Lia ZifyBool String.
From V Require Import Base.Int Base.IntLemmas Base.IO Base.Utf8 Gen.ScanTables Model.Scan Model.DateTime Model.C10
  Spec.Gregorian Spec.Rfc3339 Proofs.Utf8 Proofs.Scan Proofs.C10.
From V Require Model.Date Model.Time.
Import ListNotations.
Open Scope Z_scope.

Definition zone_of (off : Z) (use_z : bool) : zone :=
  if use_z && (off =? 0) then Zulu 90
  else Numeric (if off <? 0 then 1 else 0) (Z.abs off / 3600) (Z.abs off / 60 mod 60).

Lemma as_u8_small z : 0 <= z <= 255 -> as_u8 z = z.
Proof. intros H. apply as_u8_id. unfold in_u8, in_range, u8_max. lia. Qed.

(** OffsetFormat { Minutes, Colon, allow_zulu, Pad::Zero }.format on a whole-minute offset *)
Lemma offset_format_rfc3339 w off use_z : -86400 < off < 86400 -> off mod 60 = 0 ->
  offset_format_format (mk_of 1 1 use_z 1) w off = Val (Some (w ++ render_zone (zone_of off use_z))).
Proof.
  intros Hr Hm. unfold offset_format_format, zone_of. cbn [of_precision of_colons of_allow_zulu of_padding].
  destruct (use_z && (off =? 0)) eqn:Ez; [reflexivity|].
  change OF_ROUND_ADD with 30. change OF_SECS_PER_MINUTE with 60. change OF_SECS_PER_HOUR with 3600.
  set (a := Z.abs off).
  assert (Ha : 0 <= a < 86400 /\ a mod 60 = 0) by (subst a; lia).
  assert (Hsign : (if off <? 0 then let* n := neg_i32 off in Val (45, n) else Val (43, off))
                  = Val ((if off <? 0 then 45 else 43), a)).
  { subst a. destruct (off <? 0) eqn:E.
    - unfold neg_i32. rewrite chk_in by (unfold in_i32, in_range, i32_min, i32_max; lia). cbn [bind].
      f_equal. f_equal. lia.
    - f_equal. f_equal. lia. }
  rewrite Hsign. cbn [bind]. clear Hsign.
  change (1 =? 0) with false. change ((1 =? 1) || (1 =? 3)) with true. cbv iota.
  unfold add_i32, div_i32, rem_i32. rewrite chk_in by (unfold in_i32, in_range, i32_min, i32_max; lia). cbn [bind].
  rewrite div_t_nz by lia. rewrite Z.quot_div_nonneg by lia.
  rewrite chk_in by (unfold in_i32, in_range, i32_min, i32_max; lia). cbn [bind].
  set (minutes := (a + 30) / 60). assert (Hmin : minutes = a / 60 /\ 0 <= minutes < 1440) by (subst minutes; lia).
  rewrite rem_t_nz by lia. rewrite Z.quot_div_nonneg, Z.rem_mod_nonneg by lia.
  replace (in_i32 (minutes / 60)) with true by (unfold in_i32, in_range, i32_min, i32_max; lia). cbn [bind].
  rewrite div_t_nz by lia. rewrite Z.quot_div_nonneg by lia.
  rewrite chk_in by (unfold in_i32, in_range, i32_min, i32_max; lia). cbn [bind].
  rewrite !as_u8_small by lia.
  change ((1 =? 3) && (minutes mod 60 =? 0)) with false. cbv iota.
  change (1 =? 2) with false. change (1 =? 1) with true. cbn [orb].
  set (sg := if off <? 0 then 45 else 43).
  assert (Hh : 0 <= minutes / 60 <= 23) by lia. assert (Hmm : 0 <= minutes mod 60 <= 59) by lia.
  assert (Hhours : (if minutes / 60 <? 10
                    then match write_char w sg with
                         | Some w0 => match write_char w0 48 with Some w1 => write_char w1 (48 + minutes / 60) | None => None end
                         | None => None end
                    else match write_char w sg with Some w0 => write_hundreds w0 (minutes / 60) | None => None end)
                   = Some (w ++ [sg] ++ two (minutes / 60))).
  { destruct (minutes / 60 <? 10) eqn:E10.
    - unfold write_char, two, dig. rewrite <- !app_assoc. cbn [app].
      replace (minutes / 60 / 10) with 0 by lia. replace (minutes / 60 mod 10) with (minutes / 60) by lia. reflexivity.
    - unfold write_char. rewrite write_hundreds_spec by lia. rewrite <- app_assoc. reflexivity. }
  cbn [obind_]. rewrite Hhours. cbn [obind_].
  unfold write_char at 1. rewrite write_hundreds_spec by lia. cbn [obind_].
  f_equal. f_equal. cbn [render_zone]. rewrite <- !app_assoc. f_equal.
  unfold render_sign. subst sg. destruct Hmin as [-> _]. fold a.
  replace (a / 60 / 60) with (a / 3600) by lia.
  destruct (off <? 0); reflexivity.
Qed.
