(** C10 proofs, writer side: OffsetFormat::format and write_rfc3339 produce the string the grammar
    generator [render] gives for the wall-clock fields of the value. *)
From Coq Require Import ZArith List Bool Lia ZifyBool String.
From V Require Import Base.Int Base.IntLemmas Base.Lift Base.IO Base.Utf8 Gen.ScanTables Model.Scan Model.DateTime Model.C10
  Spec.Gregorian Spec.Rfc3339 Proofs.Utf8 Proofs.Scan Proofs.C10.
From V Require Model.Date Model.Time.
Import ListNotations.
Open Scope Z_scope.

Definition zone_of (off : Z) (use_z : bool) : zone :=
  if use_z && (off =? 0) then Zulu 90
  else Numeric (if off <? 0 then 1 else 0) (Z.abs off / 3600) (Z.abs off / 60 mod 60).

Lemma as_u8_small z : 0 <= z <= 255 -> as_u8 z = z.
Proof. intros H. apply as_u8_id. unfold in_u8, in_range, u8_max. lia. Qed.

(** OffsetFormat { Minutes, Colon, allow_zulu, Pad::Zero }.format on a whole-minute offset *)
Lemma offset_format_rfc3339 w off use_z : -86400 < off < 86400 -> off mod 60 = 0 ->
  offset_format_format (mk_of 1 1 use_z 1) w off = Val (Some (w ++ render_zone (zone_of off use_z))).
Proof.
  intros Hr Hm. unfold offset_format_format, zone_of. cbn [of_precision of_colons of_allow_zulu of_padding].
  destruct (use_z && (off =? 0)) eqn:Ez; [reflexivity|].
  change OF_ROUND_ADD with 30. change OF_SECS_PER_MINUTE with 60. change OF_SECS_PER_HOUR with 3600.
  set (a := Z.abs off).
  assert (Ha : 0 <= a < 86400 /\ a mod 60 = 0) by (subst a; lia).
  assert (Hsign : (if off <? 0 then let* n := neg_i32 off in Val (45, n) else Val (43, off))
                  = Val ((if off <? 0 then 45 else 43), a)).
  { subst a. destruct (off <? 0) eqn:E.
    - unfold neg_i32. rewrite chk_in by (unfold in_i32, in_range, i32_min, i32_max; lia). cbn [bind].
      f_equal. f_equal. lia.
    - f_equal. f_equal. lia. }
  rewrite Hsign. cbn [bind]. clear Hsign.
  change (1 =? 0) with false. change ((1 =? 1) || (1 =? 3)) with true. cbv iota.
  unfold add_i32, div_i32, rem_i32. rewrite chk_in by (unfold in_i32, in_range, i32_min, i32_max; lia). cbn [bind].
  rewrite div_t_nz by lia. rewrite Z.quot_div_nonneg by lia.
  rewrite chk_in by (unfold in_i32, in_range, i32_min, i32_max; lia). cbn [bind].
  set (minutes := (a + 30) / 60). assert (Hmin : minutes = a / 60 /\ 0 <= minutes < 1440) by (subst minutes; lia).
  rewrite rem_t_nz by lia. rewrite Z.quot_div_nonneg, Z.rem_mod_nonneg by lia.
  replace (in_i32 (minutes / 60)) with true by (unfold in_i32, in_range, i32_min, i32_max; lia). cbn [bind].
  rewrite div_t_nz by lia. rewrite Z.quot_div_nonneg by lia.
  rewrite chk_in by (unfold in_i32, in_range, i32_min, i32_max; lia). cbn [bind].
  rewrite !as_u8_small by lia.
  change ((1 =? 3) && (minutes mod 60 =? 0)) with false. cbv iota.
  change (1 =? 2) with false. change (1 =? 1) with true. cbn [orb].
  set (sg := if off <? 0 then 45 else 43).
  assert (Hh : 0 <= minutes / 60 <= 23) by lia. assert (Hmm : 0 <= minutes mod 60 <= 59) by lia.
  assert (Hhours : (if minutes / 60 <? 10
                    then match write_char w sg with
                         | Some w0 => match write_char w0 48 with Some w1 => write_char w1 (48 + minutes / 60) | None => None end
                         | None => None end
                    else match write_char w sg with Some w0 => write_hundreds w0 (minutes / 60) | None => None end)
                   = Some (w ++ [sg] ++ two (minutes / 60))).
  { destruct (minutes / 60 <? 10) eqn:E10.
    - unfold write_char, two, dig. rewrite <- !app_assoc. cbn [app].
      replace (minutes / 60 / 10) with 0 by lia. replace (minutes / 60 mod 10) with (minutes / 60) by lia. reflexivity.
    - unfold write_char. rewrite write_hundreds_spec by lia. rewrite <- app_assoc. reflexivity. }
  cbn [obind_]. rewrite Hhours. cbn [obind_].
  unfold write_char at 1. rewrite write_hundreds_spec by lia. cbn [obind_].
  f_equal. f_equal. cbn [render_zone]. rewrite <- !app_assoc. f_equal.
  unfold render_sign. subst sg. destruct Hmin as [-> _]. fold a.
  replace (a / 60 / 60) with (a / 3600) by lia.
  destruct (off <? 0); reflexivity.
Qed.

(** fraction digits: core::fmt "{:0w$}" against the spec's digit list *)
Lemma low_digits_spec k v : low_digits k v = map dig (digits_of k v).
Proof.
  revert v. induction k as [|k IH]; intros v; [reflexivity|].
  cbn [low_digits digits_of]. rewrite map_app, IH. reflexivity.
Qed.
Lemma fmt_zero_pad_small w v : 0 <= w -> v < 10 ^ w -> fmt_zero_pad w v = map dig (digits_of (Z.to_nat w) v).
Proof. intros Hw Hv. unfold fmt_zero_pad. replace (v <? 10 ^ w) with true by lia. apply low_digits_spec. Qed.
Lemma digits_of_nonempty k v : (0 < k)%nat -> digits_of k v <> [].
Proof. destruct k; [lia|]. intros _. cbn [digits_of]. destruct (digits_of k (v / 10)); discriminate. Qed.
Lemma render_frac_digits k v : (0 < k)%nat -> render_frac (digits_of k v) = 46 :: map dig (digits_of k v).
Proof. intros Hk. unfold render_frac. pose proof (digits_of_nonempty k v Hk). destruct (digits_of k v); [contradiction|reflexivity]. Qed.

(** month and day of an ordinal stay in their two-digit ranges (complete enumeration) *)
Definition md_ok (i : Z) : bool :=
  let leap := i <? 400 in let o := i mod 400 in
  if (1 <=? o) && (o <=? (if leap then 366 else 365)) then
    let '(m, d) := md_of_ordinal leap o in (1 <=? m) && (m <=? 12) && (1 <=? d) && (d <=? 31)
    && (d <=? days_in_month leap m) && (ordinal_of_md leap m d =? o)
  else true.
Lemma md_sweep : forall_range md_ok 0 800 = true.
Proof. vm_compute. reflexivity. Qed.
Lemma md_range (leap : bool) o : 1 <= o <= (if leap then 366 else 365) ->
  1 <= fst (md_of_ordinal leap o) <= 12 /\ 1 <= snd (md_of_ordinal leap o) <= 31 /\
  snd (md_of_ordinal leap o) <= days_in_month leap (fst (md_of_ordinal leap o)) /\
  ordinal_of_md leap (fst (md_of_ordinal leap o)) (snd (md_of_ordinal leap o)) = o.
Proof.
  intros Ho. pose proof (forall_range_spec _ _ _ md_sweep (if leap then o else o + 400) ltac:(destruct leap; lia)) as S.
  unfold md_ok in S.
  assert (E1 : ((if leap then o else o + 400) <? 400) = leap) by (destruct leap; lia).
  assert (E2 : (if leap then o else o + 400) mod 400 = o) by (destruct leap; lia).
  rewrite E1, E2 in S. replace ((1 <=? o) && (o <=? (if leap then 366 else 365))) with true in S by (destruct leap; lia).
  destruct (md_of_ordinal leap o) as [m d]. cbn [fst snd].
  repeat (apply andb_prop in S; destruct S as [S ?]). lia.
Qed.
Lemma four_split n : 0 <= n <= 9999 -> two (n / 100) ++ two (n mod 100) = four n.
Proof.
  intros H. unfold two, four, dig. cbn [app].
  replace (n / 100 / 10) with (n / 1000) by lia. replace (n / 100 mod 10) with (n / 100 mod 10) by lia.
  replace (n mod 100 / 10) with (n / 10 mod 10) by lia. replace (n mod 100 mod 10) with (n mod 10) by lia. reflexivity.
Qed.

From V Require Import Proofs.C08Days.

Lemma year_day_range n : 0 <= year_of_dn n <= 9999 -> -365 <= n <= 3652059.
Proof.
  intros Hy. destruct (yo_of_dn_valid n) as [Hv Hd]. fold (year_of_dn n) in *. fold (ordinal_of_dn n) in *.
  set (y := year_of_dn n) in *. set (o := ordinal_of_dn n) in *.
  unfold valid_yo in Hv. unfold dn_of_yo in Hd.
  pose proof (dby_succ y). pose proof (dby_mono 0 y ltac:(lia)). pose proof (dby_mono (y + 1) 10000 ltac:(lia)).
  change (days_before_year 0) with (-366) in *. change (days_before_year 10000) with 3652059 in *. lia.
Qed.

(* the SecondsFormat match of write_rfc3339 *)
Definition ws_expr (w3 : bytes) (sf nano : Z) : R (option bytes) :=
  if sf =? 0 then Val (Some w3)
  else if sf =? 1 then Val (write_frac w3 W3_MILLIS_WIDTH (Z.quot nano W3_MILLIS_DIV))
  else if sf =? 2 then Val (write_frac w3 W3_MICROS_WIDTH (Z.quot nano W3_MICROS_DIV))
  else if sf =? 3 then Val (write_frac w3 W3_NANOS_WIDTH nano)
  else if sf =? 4 then
    if nano =? 0 then Val (Some w3)
    else if Z.rem nano W3_AUTO_MILLIS_MOD =? 0 then Val (write_frac w3 W3_AUTO_MILLIS_WIDTH (Z.quot nano W3_AUTO_MILLIS_DIV))
    else if Z.rem nano W3_AUTO_MICROS_MOD =? 0 then Val (write_frac w3 W3_AUTO_MICROS_WIDTH (Z.quot nano W3_AUTO_MICROS_DIV))
    else Val (write_frac w3 W3_NANOS_WIDTH nano)
  else Panic.
Lemma write_frac_ok w k v : (0 < k)%nat -> 0 <= v < 10 ^ Z.of_nat k ->
  write_frac w (Z.of_nat k) v = Some (w ++ render_frac (digits_of k v)).
Proof.
  intros Hk Hv. unfold write_frac. rewrite fmt_zero_pad_small by lia. rewrite Nat2Z.id.
  rewrite render_frac_digits by exact Hk. reflexivity.
Qed.
Lemma ws_expr_ok w sf sub : 0 <= sub < 1000000000 -> 0 <= sf <= 4 ->
  ws_expr w sf sub = Val (Some (w ++ render_frac (frac_shown (frac_digits sf sub) sub))).
Proof.
  intros Hs Hsf. unfold ws_expr, frac_digits, frac_shown.
  change W3_MILLIS_WIDTH with (Z.of_nat 3). change W3_MICROS_WIDTH with (Z.of_nat 6). change W3_NANOS_WIDTH with (Z.of_nat 9).
  change W3_AUTO_MILLIS_WIDTH with (Z.of_nat 3). change W3_AUTO_MICROS_WIDTH with (Z.of_nat 6).
  change W3_MILLIS_DIV with 1000000. change W3_MICROS_DIV with 1000. change W3_AUTO_MILLIS_DIV with 1000000.
  change W3_AUTO_MICROS_DIV with 1000. change W3_AUTO_MILLIS_MOD with 1000000. change W3_AUTO_MICROS_MOD with 1000.
  rewrite !Z.quot_div_nonneg, !Z.rem_mod_nonneg by lia.
  destruct (sf =? 0) eqn:E0. { cbn [Z.to_nat digits_of render_frac]. rewrite app_nil_r. reflexivity. }
  destruct (sf =? 1) eqn:E1.
  { rewrite write_frac_ok by (change (10 ^ Z.of_nat 3) with 1000; lia). change (10 ^ (9 - 3)) with 1000000. reflexivity. }
  destruct (sf =? 2) eqn:E2.
  { rewrite write_frac_ok by (change (10 ^ Z.of_nat 6) with 1000000; lia). change (10 ^ (9 - 6)) with 1000. reflexivity. }
  destruct (sf =? 3) eqn:E3.
  { rewrite write_frac_ok by (change (10 ^ Z.of_nat 9) with 1000000000; lia). change (10 ^ (9 - 9)) with 1. rewrite Z.div_1_r. reflexivity. }
  replace (sf =? 4) with true by lia.
  destruct (sub =? 0) eqn:Es. { cbn [Z.to_nat digits_of render_frac]. rewrite app_nil_r. reflexivity. }
  destruct (sub mod 1000000 =? 0) eqn:Em.
  { rewrite write_frac_ok by (change (10 ^ Z.of_nat 3) with 1000; lia). change (10 ^ (9 - 3)) with 1000000. reflexivity. }
  destruct (sub mod 1000 =? 0) eqn:Eu.
  { rewrite write_frac_ok by (change (10 ^ Z.of_nat 6) with 1000000; lia). change (10 ^ (9 - 6)) with 1000. reflexivity. }
  rewrite write_frac_ok by (change (10 ^ Z.of_nat 9) with 1000000000; lia). change (10 ^ (9 - 9)) with 1. rewrite Z.div_1_r. reflexivity.
Qed.

Section Writer.
  Variable good : Z -> Z -> Prop.
  Hypothesis DF : date_facts good.

  (** the local (wall-clock) NaiveDateTime of a value *)
  Lemma naive_local_ok y o dt secs frac off :
    valid_yo y o = true -> good dt (dn_of_yo y o) ->
    0 <= secs < 86400 -> -86400 < off < 86400 ->
    0 <= year_of_dn (wall_dn y o secs off) <= 9999 ->
    exists dl, naive_local (mk_dtz (mk_ndt dt (Time.mk_time secs frac)) off)
               = Val (mk_ndt dl (Time.mk_time (wall_secs secs off) frac))
               /\ good dl (wall_dn y o secs off).
  Proof.
    intros Hv Hg Hs Ho Hy. pose proof (year_day_range _ Hy) as Hr.
    unfold wall_dn, wall_secs in *. set (n := dn_of_yo y o) in *.
    unfold naive_local, ndt_checked_add_offset, Time.overflowing_add_offset.
    cbn [dz_utc dz_off nd_date nd_time Time.tsecs Time.tfrac].
    rewrite as_i32_id by (unfold in_i32, in_range, i32_min, i32_max; lia).
    unfold add_i32. rewrite chk_in by (unfold in_i32, in_range, i32_min, i32_max; lia). cbn [bind].
    rewrite div_euclid_pos, rem_euclid_pos by lia.
    assert (Hq : -1 <= (secs + off) / 86400 <= 1) by lia.
    rewrite chk_in by (unfold in_i32, in_range, i32_min, i32_max; lia). cbn [bind].
    replace (in_i32 ((secs + off) / 86400)) with true by (unfold in_i32, in_range, i32_min, i32_max; lia). cbn [bind].
    rewrite as_u32_id by (unfold in_u32, in_range, u32_max; lia).
    unfold shift_date_checked.
    destruct ((secs + off) / 86400 =? -1) eqn:Em1.
    - destruct (df_pred good DF dt n Hg) as (dl & Hp & Hgl); [unfold DAY_LO, DAY_HI; lia|].
      rewrite Hp. cbn [obind bind unwrap_r unwrap]. exists dl. split; [reflexivity|].
      replace (n + (secs + off) / 86400) with (n - 1) by lia. exact Hgl.
    - destruct ((secs + off) / 86400 =? 1) eqn:E1.
      + destruct (df_succ good DF dt n Hg) as (dl & Hp & Hgl); [unfold DAY_LO, DAY_HI; lia|].
        rewrite Hp. cbn [obind bind unwrap_r unwrap]. exists dl. split; [reflexivity|].
        replace (n + (secs + off) / 86400) with (n + 1) by lia. exact Hgl.
      + cbn [obind bind unwrap_r unwrap]. exists dt. split; [reflexivity|].
        replace (n + (secs + off) / 86400) with n by lia. exact Hg.
  Qed.

  (** the fields a conforming writer shows, from the wall-clock day number and second of day *)
  Definition fields_wall (wn ls frac off secform : Z) (use_z : bool) : fields :=
    let '(ly, lo) := yo_of_dn wn in
    let '(lm, ld) := md_of_ordinal (is_leap ly) lo in
    let leap := 1000000000 <=? frac in
    let sub := if leap then frac - 1000000000 else frac in
    let nd := frac_digits secform sub in
    mk_fields ly lm ld 84 (ls / 3600) (ls / 60 mod 60) (ls mod 60 + (if leap then 1 else 0))
      (frac_shown nd sub)
      (if use_z && (off =? 0) then Zulu 90
       else Numeric (if off <? 0 then 1 else 0) (Z.abs off / 3600) (Z.abs off / 60 mod 60)).
  Lemma fields_of_wall y o secs frac off sf uz :
    fields_of y o secs frac off sf uz = fields_wall (wall_dn y o secs off) (wall_secs secs off) frac off sf uz.
  Proof. reflexivity. Qed.

  Lemma write_rfc3339_ok dl wn ls frac off sf uz :
    good dl wn -> 0 <= year_of_dn wn <= 9999 ->
    0 <= ls < 86400 -> 0 <= frac < 2000000000 -> (1000000000 <= frac -> ls mod 60 = 59) ->
    -86400 < off < 86400 -> off mod 60 = 0 -> 0 <= sf <= 4 ->
    write_rfc3339 [] (mk_ndt dl (Time.mk_time ls frac)) off sf uz
    = Val (Some (render (fields_wall wn ls frac off sf uz))).
  Proof.
    intros Hg Hy Hls Hfr Hleap Hoff Hom Hsf. pose proof (year_day_range _ Hy) as Hr.
    destruct (yo_of_dn_valid wn) as [Hvyo _]. fold (year_of_dn wn) in Hvyo. fold (ordinal_of_dn wn) in Hvyo.
    unfold write_rfc3339, fields_wall. cbn [nd_date nd_time].
    rewrite (df_year good DF dl wn Hg).
    rewrite (df_month good DF dl wn Hg) by (unfold DAY_LO, DAY_HI; lia).
    rewrite (df_day good DF dl wn Hg) by (unfold DAY_LO, DAY_HI; lia).
    unfold year_of_dn, ordinal_of_dn in *. destruct (yo_of_dn wn) as [ly lo]. cbn [fst snd] in *.
    assert (Hlo : 1 <= lo <= (if is_leap ly then 366 else 365)) by (unfold valid_yo, days_in_year in Hvyo; destruct (is_leap ly); lia).
    pose proof (md_range (is_leap ly) lo Hlo) as (Hm & Hd & _).
    destruct (md_of_ordinal (is_leap ly) lo) as [lm ld]. cbn [fst snd] in *.
    change W3_YEAR_LO with 0. change W3_YEAR_HI with 9999.
    replace ((0 <=? ly) && (ly <=? 9999)) with true by lia.
    unfold div_i32, rem_i32. rewrite div_t_nz, rem_t_nz by lia.
    rewrite Z.quot_div_nonneg, Z.rem_mod_nonneg by lia.
    rewrite chk_in by (unfold in_i32, in_range, i32_min, i32_max; lia). cbn [bind].
    replace (in_i32 (ly / 100)) with true by (unfold in_i32, in_range, i32_min, i32_max; lia). cbn [bind].
    rewrite !as_u8_small by lia.
    rewrite !write_hundreds_spec by lia. cbn [obind_ bind]. unfold write_char at 1. cbn [obind_ bind].
    rewrite !write_hundreds_spec by lia. cbn [obind_ bind]. unfold write_char at 1. cbn [obind_ bind].
    rewrite !write_hundreds_spec by lia. cbn [obind_ bind]. unfold write_char at 1. cbn [obind_ bind].
    unfold Time.hms, Time.nanosecond, Time.urem, Time.udiv. cbn [Time.tsecs Time.tfrac].
    rewrite !Z.quot_div_nonneg, !Z.rem_mod_nonneg by lia.
    change W3_LEAP_NANO with 1000000000.
    set (leap := 1000000000 <=? frac). set (sub := if leap then frac - 1000000000 else frac).
    assert (Hsn : (if frac >=? 1000000000
                   then let* s := add_u32 (ls mod 60) 1 in let* n := sub_u32 frac 1000000000 in Val (s, n)
                   else Val (ls mod 60, frac)) = Val (ls mod 60 + (if leap then 1 else 0), sub)).
    { subst sub leap. destruct (frac >=? 1000000000) eqn:E.
      - replace (1000000000 <=? frac) with true by lia. unfold add_u32, sub_u32.
        rewrite chk_in by (unfold in_u32, in_range, u32_max; lia). cbn [bind].
        rewrite chk_in by (unfold in_u32, in_range, u32_max; lia). reflexivity.
      - replace (1000000000 <=? frac) with false by lia. f_equal. f_equal. lia. }
    rewrite Hsn. cbn [bind]. clear Hsn.
    assert (Hsub : 0 <= sub < 1000000000) by (subst sub leap; destruct (1000000000 <=? frac) eqn:E; lia).
    assert (Hsec : 0 <= ls mod 60 + (if leap then 1 else 0) <= 60) by (subst leap; destruct (1000000000 <=? frac) eqn:E; lia).
    rewrite !as_u8_small by lia.
    rewrite !write_hundreds_spec by lia. cbn [obind_ bind]. unfold write_char at 1. cbn [obind_ bind].
    rewrite !write_hundreds_spec by lia. cbn [obind_ bind]. unfold write_char at 1. cbn [obind_ bind].
    rewrite !write_hundreds_spec by lia. cbn [obind_ bind].
    match goal with |- context [write_frac ?w W3_NANOS_WIDTH sub] =>
      pose proof (ws_expr_ok w sf sub Hsub Hsf) as Hws end.
    unfold ws_expr in Hws. rewrite Hws. clear Hws. cbn [bind obind_].
    rewrite offset_format_rfc3339 by assumption.
    unfold render. cbn [f_year f_month f_day f_sep f_hour f_minute f_second f_frac f_zone].
    f_equal. f_equal. fold (zone_of off uz).
    rewrite <- (four_split ly) by lia.
    replace (ls / 60 / 60) with (ls / 3600) by lia.
    rewrite <- !app_assoc. reflexivity.
  Qed.


(** * The recogniser accepts what the generator produces (grammar as relation = recogniser) *)
Lemma take2_render n r : 0 <= n <= 99 -> take2 (two n ++ r) = Some (n, r).
Proof.
  intros H. unfold two, dig, take2, digv, is_digit. cbn [app].
  replace ((48 <=? 48 + n / 10) && (48 + n / 10 <=? 57)) with true by lia.
  replace ((48 <=? 48 + n mod 10) && (48 + n mod 10 <=? 57)) with true by lia.
  f_equal. f_equal. lia.
Qed.
Lemma take4_render n r : 0 <= n <= 9999 -> take4 (four n ++ r) = Some (n, r).
Proof.
  intros H. unfold take4. rewrite <- (four_split n H), <- app_assoc.
  rewrite take2_render by lia. rewrite take2_render by lia. f_equal. f_equal. lia.
Qed.
Lemma take_digits_render ds r : forallb is_dig ds = true ->
  match r with [] => True | c :: _ => is_digit c = false end ->
  take_digits (map dig ds ++ r) = (ds, r).
Proof.
  intros Hd Hr. induction ds as [|d ds IH].
  - cbn [map app]. destruct r as [|c r']; [reflexivity|]. cbn [take_digits]. rewrite Hr. reflexivity.
  - cbn [forallb] in Hd. apply andb_prop in Hd. destruct Hd as [Hd Hds]. unfold is_dig in Hd.
    cbn [map app take_digits]. change (dig d) with (48 + d). unfold is_digit.
    replace ((48 <=? 48 + d) && (48 + d <=? 57)) with true by lia. rewrite (IH Hds). f_equal. f_equal. lia.
Qed.
Lemma zone_head_not_digit z r : wf_zone z = true ->
  match render_zone z ++ r with [] => True | c :: _ => is_digit c = false /\ (c =? 46) = false end.
Proof.
  destruct z as [c|sg hh mm]; cbn [render_zone wf_zone app].
  - intros H. unfold is_digit. lia.
  - intros H. unfold render_sign. destruct (sg =? 0); [cbn; auto|]. destruct (sg =? 1); cbn; auto.
Qed.
Lemma rec_zone_render z : wf_zone z = true -> rec_zone (render_zone z) = Some (z, []).
Proof.
  destruct z as [c|sg hh mm]; cbn [render_zone wf_zone]; intros H.
  - unfold rec_zone. rewrite H. reflexivity.
  - unfold is2 in H. assert (Hsg : sg = 0 \/ sg = 1 \/ sg = 2) by lia.
    assert (Hn : rec_numeric sg (two hh ++ [58] ++ two mm) = Some (Numeric sg hh mm, [])).
    { unfold rec_numeric. rewrite take2_render by lia. cbn [obind app expect]. rewrite Z.eqb_refl. cbn [obind].
      rewrite <- (app_nil_r (two mm)). rewrite take2_render by lia. reflexivity. }
    destruct Hsg as [->|[->| ->]]; unfold rec_zone, render_sign; cbn [Z.eqb app orb andb Pos.eqb]; exact Hn.
Qed.
Theorem recognise_render f : wf f = true -> recognise (render f) = Some f.
Proof.
  intros Hw. unfold wf, is2 in Hw. repeat (apply andb_prop in Hw; destruct Hw as [Hw ?]).
  unfold recognise, recognise_prefix, render.
  rewrite take4_render by lia. cbn [obind app expect]. rewrite Z.eqb_refl. cbn [obind].
  rewrite take2_render by lia. cbn [obind app expect]. rewrite Z.eqb_refl. cbn [obind].
  rewrite take2_render by lia. cbn [obind app].
  replace (is_sep (f_sep f)) with true by (unfold is_sep; lia). cbn [negb].
  rewrite take2_render by lia. cbn [obind app expect]. rewrite Z.eqb_refl. cbn [obind].
  rewrite take2_render by lia. cbn [obind app expect]. rewrite Z.eqb_refl. cbn [obind].
  rewrite take2_render by lia. cbn [obind].
  assert (Hz : wf_zone (f_zone f) = true) by assumption.
  assert (Hfr : rec_frac (render_frac (f_frac f) ++ render_zone (f_zone f)) = Some (f_frac f, render_zone (f_zone f))).
  { pose proof (zone_head_not_digit (f_zone f) [] Hz) as Hh. rewrite app_nil_r in Hh.
    unfold rec_frac, render_frac. destruct (f_frac f) as [|d ds] eqn:Ef.
    - cbn [app]. destruct (render_zone (f_zone f)) as [|c r]; [reflexivity|]. destruct Hh as [_ ->]. reflexivity.
    - cbn [app]. rewrite Z.eqb_refl.
      rewrite <- Ef in *. rewrite take_digits_render.
      + rewrite Ef. reflexivity.
      + assumption.
      + destruct (render_zone (f_zone f)); [exact I|]. exact (proj1 Hh). }
  rewrite Hfr. cbn [obind]. rewrite rec_zone_render by exact Hz. cbn [obind].
  destruct f; reflexivity.
Qed.

  (** the non-panicking wall-clock reading agrees with the panicking one wherever that returns *)
  Lemma overflowing_naive_local_of_naive_local dt secs frac off r :
    naive_local (mk_dtz (mk_ndt dt (Time.mk_time secs frac)) off) = Val r ->
    overflowing_naive_local (mk_dtz (mk_ndt dt (Time.mk_time secs frac)) off) = Val r.
  Proof.
    unfold naive_local, overflowing_naive_local, ndt_checked_add_offset, ndt_overflowing_add_offset.
    cbn [dz_utc dz_off nd_date nd_time].
    destruct (Time.overflowing_add_offset (Time.mk_time secs frac) off) as [[t days]| |]; cbn [bind]; try discriminate.
    unfold shift_date_checked, shift_date_overflowing.
    destruct (days =? -1).
    - destruct (Date.pred_opt dt) as [[p|]| |]; cbn [bind obind unwrap_r unwrap]; try discriminate. intros H; exact H.
    - destruct (days =? 1).
      + destruct (Date.succ_opt dt) as [[p|]| |]; cbn [bind obind unwrap_r unwrap]; try discriminate. intros H; exact H.
      + cbn [bind obind unwrap_r unwrap]. intros H; exact H.
  Qed.

  (** ** the writer entry point: to_rfc3339_opts shows exactly the fields of the value *)
  Theorem to_rfc3339_opts_ok y o dt secs frac off sf uz :
    valid_yo y o = true -> good dt (dn_of_yo y o) ->
    0 <= secs < 86400 -> 0 <= frac < 2000000000 -> (1000000000 <= frac -> secs mod 60 = 59) ->
    -86400 < off < 86400 -> off mod 60 = 0 -> 0 <= sf <= 4 ->
    0 <= year_of_dn (wall_dn y o secs off) <= 9999 ->
    to_rfc3339_opts (mk_dtz (mk_ndt dt (Time.mk_time secs frac)) off) sf uz
    = Val (render (fields_of y o secs frac off sf uz)).
  Proof.
    intros Hv Hg Hs Hf Hl Ho Hm Hsf Hy. unfold to_rfc3339_opts.
    destruct (naive_local_ok y o dt secs frac off Hv Hg Hs Ho Hy) as (dl & Hn & Hgl).
    rewrite (overflowing_naive_local_of_naive_local _ _ _ _ _ Hn). cbn [bind dz_off].
    rewrite (write_rfc3339_ok dl (wall_dn y o secs off) (wall_secs secs off) frac off sf uz); try assumption.
    - reflexivity.
    - unfold wall_secs. lia.
    - unfold wall_secs. intros H. specialize (Hl H). lia.
  Qed.

  (** DateTime::to_rfc3339 (AutoSi, never 'Z') *)
  Theorem to_rfc3339_ok y o dt secs frac off :
    valid_yo y o = true -> good dt (dn_of_yo y o) ->
    0 <= secs < 86400 -> 0 <= frac < 2000000000 -> (1000000000 <= frac -> secs mod 60 = 59) ->
    -86400 < off < 86400 -> off mod 60 = 0 ->
    0 <= year_of_dn (wall_dn y o secs off) <= 9999 ->
    to_rfc3339 (mk_dtz (mk_ndt dt (Time.mk_time secs frac)) off)
    = Val (render (fields_of y o secs frac off 4 false)).
  Proof.
    intros Hv Hg Hs Hf Hl Ho Hm Hy. unfold to_rfc3339.
    destruct (naive_local_ok y o dt secs frac off Hv Hg Hs Ho Hy) as (dl & Hn & Hgl).
    assert (Hov : overflowing_naive_local (mk_dtz (mk_ndt dt (Time.mk_time secs frac)) off)
                  = Val (mk_ndt dl (Time.mk_time (wall_secs secs off) frac))).
    { revert Hn. unfold naive_local, overflowing_naive_local, ndt_checked_add_offset, ndt_overflowing_add_offset.
      cbn [dz_utc dz_off nd_date nd_time].
      destruct (Time.overflowing_add_offset (Time.mk_time secs frac) off) as [[t days]| |]; cbn [bind]; try discriminate.
      unfold shift_date_checked, shift_date_overflowing.
      destruct (days =? -1).
      - destruct (Date.pred_opt dt) as [[p|]| |]; cbn [bind obind unwrap_r unwrap]; try discriminate. intros H; exact H.
      - destruct (days =? 1).
        + destruct (Date.succ_opt dt) as [[p|]| |]; cbn [bind obind unwrap_r unwrap]; try discriminate. intros H; exact H.
        + cbn [bind obind unwrap_r unwrap]. intros H; exact H. }
    rewrite Hov. cbn [bind dz_off].
    rewrite (write_rfc3339_ok dl (wall_dn y o secs off) (wall_secs secs off) frac off 4 false); try assumption; try lia.
    - reflexivity.
    - unfold wall_secs. lia.
    - unfold wall_secs. intros H. specialize (Hl H). lia.
  Qed.
End Writer.

(** * The fields of a value: well-formed, valid, strict; and they denote the truncated value *)
Lemma digits_value_app l c acc : digits_value (l ++ [c]) acc = digits_value l acc * 10 + (c - 48).
Proof. revert acc. induction l as [|x l IH]; intros acc; cbn [app digits_value]; [reflexivity|apply IH]. Qed.
(** printing [k] digits of [v] and reading them back gives [v mod 10^k] *)
Lemma digits_value_print k v acc : 0 <= v ->
  digits_value (map dig (digits_of k v)) acc = acc * 10 ^ Z.of_nat k + v mod 10 ^ Z.of_nat k.
Proof.
  revert v. induction k as [|k IH]; intros v Hv.
  - cbn [digits_of map digits_value]. change (10 ^ Z.of_nat 0) with 1. rewrite Z.mod_1_r. lia.
  - cbn [digits_of]. rewrite map_app. cbn [map]. rewrite digits_value_app, IH by (apply Z.div_pos; lia).
    unfold dig. replace (Z.of_nat (S k)) with (Z.succ (Z.of_nat k)) by lia. rewrite Z.pow_succ_r by lia.
    assert (0 < 10 ^ Z.of_nat k) by (apply Z.pow_pos_nonneg; lia).
    rewrite (Z.rem_mul_r v 10 (10 ^ Z.of_nat k)) by lia. ring.
Qed.
Lemma digits_of_length k v : List.length (digits_of k v) = k.
Proof. revert v. induction k as [|k IH]; intros v; [reflexivity|]. cbn [digits_of]. rewrite app_length, IH. cbn. lia. Qed.
Lemma digits_of_dig k v : forallb is_dig (digits_of k v) = true.
Proof.
  revert v. induction k as [|k IH]; intros v; [reflexivity|]. cbn [digits_of]. rewrite forallb_app, IH.
  cbn [forallb andb]. unfold is_dig. lia.
Qed.
Lemma frac_nanos_print k v : (k <= 9)%nat -> 0 <= v < 10 ^ Z.of_nat k ->
  frac_nanos (digits_of k v) = v * 10 ^ (9 - Z.of_nat k).
Proof.
  intros Hk Hv. pose proof (frac_value_digits 9 (map dig (digits_of k v)) 0) as H.
  rewrite firstn_all2 in H by (rewrite map_length, digits_of_length; lia).
  rewrite digits_value_print in H by lia. unfold blen in H. rewrite map_length, digits_of_length in H.
  rewrite map_map in H. rewrite (map_ext _ (fun x => x)) in H by (intros a; unfold dig; lia). rewrite map_id in H.
  unfold frac_nanos. rewrite Z.mod_small in H by lia. change (Z.of_nat 9) with 9 in H. lia.
Qed.
Lemma frac_nanos_shown sf sub : 0 <= sub < 1000000000 -> 0 <= sf <= 4 ->
  frac_nanos (frac_shown (frac_digits sf sub) sub)
  = sub / 10 ^ (9 - frac_digits sf sub) * 10 ^ (9 - frac_digits sf sub)
  /\ forallb is_dig (frac_shown (frac_digits sf sub) sub) = true.
Proof.
  intros Hs Hsf. split; [|apply digits_of_dig]. unfold frac_shown.
  assert (Hnd : frac_digits sf sub = 0 \/ frac_digits sf sub = 3 \/ frac_digits sf sub = 6 \/ frac_digits sf sub = 9).
  { unfold frac_digits. repeat match goal with |- context [if ?c then _ else _] => destruct c end; lia. }
  destruct Hnd as [->|[->|[->| ->]]].
  - change (Z.to_nat 0) with 0%nat. change (10 ^ (9 - 0)) with 1000000000. cbn [digits_of]. change (frac_nanos []) with 0. lia.
  - change (Z.to_nat 3) with 3%nat. change (10 ^ (9 - 3)) with 1000000.
    rewrite frac_nanos_print by (change (10 ^ Z.of_nat 3) with 1000; lia). change (10 ^ (9 - Z.of_nat 3)) with 1000000. reflexivity.
  - change (Z.to_nat 6) with 6%nat. change (10 ^ (9 - 6)) with 1000.
    rewrite frac_nanos_print by (change (10 ^ Z.of_nat 6) with 1000000; lia). change (10 ^ (9 - Z.of_nat 6)) with 1000. reflexivity.
  - change (Z.to_nat 9) with 9%nat. change (10 ^ (9 - 9)) with 1.
    rewrite frac_nanos_print by (change (10 ^ Z.of_nat 9) with 1000000000; lia). change (10 ^ (9 - Z.of_nat 9)) with 1. reflexivity.
Qed.

Theorem fields_of_props y o secs frac off sf uz :
  valid_yo y o = true ->
  0 <= secs < 86400 -> 0 <= frac < 2000000000 -> (1000000000 <= frac -> secs mod 60 = 59) ->
  -86400 < off < 86400 -> off mod 60 = 0 -> 0 <= sf <= 4 ->
  0 <= year_of_dn (wall_dn y o secs off) <= 9999 ->
  let f := fields_of y o secs frac off sf uz in
  wf f = true /\ valid f = true /\ strict f = true /\
  denote f = (y, o, secs, truncated_frac sf frac, off).
Proof.
  intros Hv Hs Hf Hl Ho Hm Hsf Hy. rewrite fields_of_wall. unfold fields_wall.
  set (wn := wall_dn y o secs off) in *. set (ls := wall_secs secs off).
  destruct (yo_of_dn_valid wn) as [Hvw Hdw]. unfold year_of_dn in Hy.
  destruct (yo_of_dn wn) as [ly lo] eqn:Eyo. cbn [fst snd] in *.
  assert (Hlo : 1 <= lo <= (if is_leap ly then 366 else 365)) by (unfold valid_yo, days_in_year in Hvw; destruct (is_leap ly); lia).
  pose proof (md_range (is_leap ly) lo Hlo) as (Hmr & Hdr & Hdim & Hord).
  destruct (md_of_ordinal (is_leap ly) lo) as [lm ld]. cbn [fst snd] in *.
  set (leap := 1000000000 <=? frac). set (sub := if leap then frac - 1000000000 else frac).
  assert (Hsub : 0 <= sub < 1000000000) by (subst sub leap; destruct (1000000000 <=? frac) eqn:E; lia).
  destruct (frac_nanos_shown sf sub Hsub Hsf) as [Hfn Hfd].
  assert (Hls : 0 <= ls < 86400) by (subst ls; unfold wall_secs; lia).
  assert (Hl60 : leap = true -> ls mod 60 = 59).
  { subst leap ls. unfold wall_secs. intros E. assert (1000000000 <= frac) by lia. specialize (Hl H). lia. }
  set (sec := ls mod 60 + (if leap then 1 else 0)).
  assert (Hsec : 0 <= sec <= 60) by (subst sec; destruct leap; lia).
  set (z := if uz && (off =? 0) then Zulu 90 else Numeric (if off <? 0 then 1 else 0) (Z.abs off / 3600) (Z.abs off / 60 mod 60)).
  assert (Hz : wf_zone z = true /\ valid_zone z = true /\ zone_offset z = off /\
               match z with Zulu _ => true | Numeric sg _ _ => (sg =? 0) || (sg =? 1) end = true).
  { subst z. destruct (uz && (off =? 0)) eqn:Ez.
    - cbn. repeat split; lia.
    - cbn [wf_zone valid_zone zone_offset]. unfold is2. destruct (off <? 0) eqn:En; cbn [Z.eqb]; repeat split; lia. }
  destruct Hz as (Hz1 & Hz2 & Hz3 & Hz4).
  cbv zeta. repeat split.
  - unfold wf, is2. cbn [f_year f_month f_day f_sep f_hour f_minute f_second f_frac f_zone].
    fold sub. rewrite Hfd, Hz1. subst sec. lia.
  - unfold valid, valid_ymd. cbn [f_year f_month f_day f_sep f_hour f_minute f_second f_frac f_zone].
    rewrite Hz2. lia.
  - unfold strict. cbn [f_sep f_zone]. rewrite Hz4. reflexivity.
  - unfold denote. cbn [f_year f_month f_day f_sep f_hour f_minute f_second f_frac f_zone].
    fold sub leap z sec. rewrite Hz3, Hfn.
    assert (Hdn : dn_of_ymd ly lm ld = wn) by (unfold dn_of_ymd; rewrite Hord; exact Hdw).
    rewrite Hdn.
    set (lsecs := ls / 3600 * 3600 + ls / 60 mod 60 * 60 + (if sec =? 60 then 59 else sec)).
    assert (Hlsecs : lsecs = ls).
    { subst lsecs sec. destruct leap eqn:El.
      - specialize (Hl60 eq_refl). replace (ls mod 60 + 1 =? 60) with true by lia. lia.
      - replace (ls mod 60 + 0 =? 60) with false by lia. lia. }
    rewrite Hlsecs.
    assert (Hback : wn + (ls - off) / 86400 = dn_of_yo y o /\ (ls - off) mod 86400 = secs).
    { subst wn ls. unfold wall_dn, wall_secs. lia. }
    destruct Hback as [-> ->]. rewrite yo_of_dn_of_yo by exact Hv.
    unfold truncated_frac. fold leap sub.
    replace (sec =? 60) with leap.
    2:{ subst sec. destruct leap eqn:El; [specialize (Hl60 eq_refl)|]; lia. }
    reflexivity.
Qed.

(** * The recogniser accepts only what the generator produces: [recognise s = Some f <-> G3339 f s] *)
Lemma take2_inv s v r : take2 s = Some (v, r) -> s = two v ++ r /\ 0 <= v <= 99.
Proof.
  unfold take2, digv, is_digit. destruct s as [|a [|b t]]; try discriminate.
  destruct ((48 <=? a) && (a <=? 57)) eqn:Ea; [|discriminate].
  destruct ((48 <=? b) && (b <=? 57)) eqn:Eb; [|discriminate].
  set (w := 10 * (a - 48) + (b - 48)). intros H. injection H as <- <-. subst w.
  split; [|lia]. unfold two, dig. cbn [app]. f_equal; [lia|]. f_equal. lia.
Qed.
Lemma take4_inv s v r : take4 s = Some (v, r) -> s = four v ++ r /\ 0 <= v <= 9999.
Proof.
  unfold take4. destruct (take2 s) as [[hi r1]|] eqn:E1; [|discriminate].
  destruct (take2 r1) as [[lo r2]|] eqn:E2; [|discriminate].
  set (w := 100 * hi + lo). intros H. injection H as <- <-. subst w.
  destruct (take2_inv _ _ _ E1) as [-> Hhi]. destruct (take2_inv _ _ _ E2) as [-> Hlo].
  split; [|lia]. rewrite <- (four_split (100 * hi + lo)) by lia. rewrite <- app_assoc.
  replace ((100 * hi + lo) / 100) with hi by lia. replace ((100 * hi + lo) mod 100) with lo by lia. reflexivity.
Qed.
Lemma expect_inv c s r : expect c s = Some r -> s = c :: r.
Proof.
  unfold expect. destruct s as [|x t]; [discriminate|]. destruct (x =? c) eqn:E; [|discriminate].
  intros H. injection H as <-. f_equal. lia.
Qed.
Lemma take_digits_inv s : s = map dig (fst (take_digits s)) ++ snd (take_digits s)
  /\ forallb is_dig (fst (take_digits s)) = true.
Proof.
  induction s as [|c t IH]; [split; reflexivity|]. cbn [take_digits]. unfold is_digit.
  destruct ((48 <=? c) && (c <=? 57)) eqn:E.
  - destruct (take_digits t) as [ds r]. cbn [fst snd] in *. destruct IH as [IH1 IH2].
    cbn [map app forallb]. rewrite IH2. split; [|unfold is_dig; lia].
    unfold dig at 1. f_equal; [lia|exact IH1].
  - split; reflexivity.
Qed.
Lemma rec_frac_inv s ds r : rec_frac s = Some (ds, r) -> s = render_frac ds ++ r /\ forallb is_dig ds = true.
Proof.
  unfold rec_frac. destruct s as [|c t]; [intros H; injection H as <- <-; split; reflexivity|].
  destruct (c =? 46) eqn:E; [|intros H; injection H as <- <-; split; reflexivity].
  destruct (take_digits_inv t) as [H1 H2]. destruct (take_digits t) as [[|d ds'] r']; [discriminate|].
  cbn [fst snd] in *. intros H. injection H as <- <-. split; [|exact H2].
  unfold render_frac. cbn [app]. f_equal; [lia|exact H1].
Qed.
Lemma rec_numeric_inv sg s z r : rec_numeric sg s = Some (z, r) ->
  exists hh mm, z = Numeric sg hh mm /\ s = two hh ++ [58] ++ two mm ++ r /\ 0 <= hh <= 99 /\ 0 <= mm <= 99.
Proof.
  unfold rec_numeric. destruct (take2 s) as [[hh s1]|] eqn:E1; [|discriminate]. cbn [obind].
  destruct (expect 58 s1) as [s2|] eqn:E2; [|discriminate]. cbn [obind].
  destruct (take2 s2) as [[mm s3]|] eqn:E3; [|discriminate]. cbn [obind].
  intros H. injection H as <- <-.
  destruct (take2_inv _ _ _ E1) as [-> Hh]. rewrite (expect_inv _ _ _ E2). destruct (take2_inv _ _ _ E3) as [-> Hm].
  exists hh, mm. repeat split; try lia.
Qed.
Lemma rec_zone_inv s z r : rec_zone s = Some (z, r) -> s = render_zone z ++ r /\ wf_zone z = true.
Proof.
  unfold rec_zone. destruct s as [|c t]; [discriminate|].
  destruct ((c =? 90) || (c =? 122)) eqn:Ez. { intros H. injection H as <- <-. split; [reflexivity|exact Ez]. }
  destruct (c =? 43) eqn:E43.
  { intros H. destruct (rec_numeric_inv _ _ _ _ H) as (hh & mm & -> & -> & Hh & Hm).
    assert (c = 43) by lia. subst c. split; [reflexivity|]. cbn [wf_zone]. unfold is2. lia. }
  destruct (c =? 45) eqn:E45.
  { intros H. destruct (rec_numeric_inv _ _ _ _ H) as (hh & mm & -> & -> & Hh & Hm).
    assert (c = 45) by lia. subst c. split; [reflexivity|]. cbn [wf_zone]. unfold is2. lia. }
  destruct t as [|c2 [|c3 t']]; try discriminate.
  destruct ((c =? 226) && (c2 =? 136) && (c3 =? 146)) eqn:E; [|discriminate].
  intros H. destruct (rec_numeric_inv _ _ _ _ H) as (hh & mm & -> & -> & Hh & Hm).
  assert (c = 226 /\ c2 = 136 /\ c3 = 146) as (-> & -> & ->) by lia.
  split; [reflexivity|]. cbn [wf_zone]. unfold is2. lia.
Qed.
Theorem recognise_sound s f : recognise s = Some f -> G3339 f s.
Proof.
  unfold recognise. destruct (recognise_prefix s) as [[f' rest]|] eqn:E; [|discriminate].
  destruct rest; [|discriminate]. intros H. injection H as <-. revert E. unfold recognise_prefix.
  destruct (take4 s) as [[y s1]|] eqn:E1; [|discriminate]. cbn [obind].
  destruct (expect 45 s1) as [s2|] eqn:E2; [|discriminate]. cbn [obind].
  destruct (take2 s2) as [[mo s3]|] eqn:E3; [|discriminate]. cbn [obind].
  destruct (expect 45 s3) as [s4|] eqn:E4; [|discriminate]. cbn [obind].
  destruct (take2 s4) as [[d s5]|] eqn:E5; [|discriminate]. cbn [obind].
  destruct s5 as [|sepc s6]; [discriminate|]. destruct (is_sep sepc) eqn:Es; [|discriminate]. cbn [negb].
  destruct (take2 s6) as [[h s7]|] eqn:E7; [|discriminate]. cbn [obind].
  destruct (expect 58 s7) as [s8|] eqn:E8; [|discriminate]. cbn [obind].
  destruct (take2 s8) as [[mi s9]|] eqn:E9; [|discriminate]. cbn [obind].
  destruct (expect 58 s9) as [s10|] eqn:E10; [|discriminate]. cbn [obind].
  destruct (take2 s10) as [[sec s11]|] eqn:E11; [|discriminate]. cbn [obind].
  destruct (rec_frac s11) as [[fr s12]|] eqn:E12; [|discriminate]. cbn [obind].
  destruct (rec_zone s12) as [[z s13]|] eqn:E13; [|discriminate]. cbn [obind].
  intros H. injection H as <- ->.
  destruct (take4_inv _ _ _ E1) as [-> Hy]. rewrite (expect_inv _ _ _ E2).
  destruct (take2_inv _ _ _ E3) as [-> Hmo]. rewrite (expect_inv _ _ _ E4).
  destruct (take2_inv _ _ _ E5) as [-> Hd].
  destruct (take2_inv _ _ _ E7) as [-> Hh]. rewrite (expect_inv _ _ _ E8).
  destruct (take2_inv _ _ _ E9) as [-> Hmi]. rewrite (expect_inv _ _ _ E10).
  destruct (take2_inv _ _ _ E11) as [-> Hsec].
  destruct (rec_frac_inv _ _ _ E12) as [-> Hfr]. destruct (rec_zone_inv _ _ _ E13) as [-> Hz].
  split.
  - unfold wf, is2. cbn [f_year f_month f_day f_sep f_hour f_minute f_second f_frac f_zone].
    rewrite Hfr, Hz. unfold is_sep in Es. lia.
  - unfold render. cbn [f_year f_month f_day f_sep f_hour f_minute f_second f_frac f_zone].
    rewrite app_nil_r. reflexivity.
Qed.
Theorem recognise_iff s f : recognise s = Some f <-> G3339 f s.
Proof.
  split; [apply recognise_sound|]. intros [Hw ->]. apply recognise_render. exact Hw.
Qed.
