(** Proofs for C05 (local time follows the zone data). *)
From Coq Require Import ZArith List Bool Lia ZifyBool String.
From V Require Import Base.Int Base.IO.
From V Require Import Spec.Zone.
From V Require Import Model.TzParser Model.TzRule Model.TzLookup Model.C05.
From V Require Model.DateTime.
From V Require Export Proofs.C05Table Proofs.C05Spec Proofs.C05Rule.
Import ListNotations.
Open Scope Z_scope.

(** * The result contract: MappedLocalTime::{single, earliest, latest} *)
Lemma mlt_single_spec {A} (m : mlt A) (x : A) :
  mlt_single m = Some x <-> m = MSingle x.
Proof. destruct m; cbn; split; intros H; try discriminate; inversion H; reflexivity. Qed.

Lemma mlt_projections {A} (m : mlt A) :
  match m with
  | MNone => mlt_earliest m = None /\ mlt_latest m = None /\ mlt_single m = None
  | MSingle x => mlt_earliest m = Some x /\ mlt_latest m = Some x /\ mlt_single m = Some x
  | MAmbiguous a b => mlt_earliest m = Some a /\ mlt_latest m = Some b /\ mlt_single m = None
  end.
Proof. destruct m; cbn; repeat split. Qed.

(** * Order of an ambiguous answer of the transition table: (earliest, latest).
    The instant of a reading with offset o is local - o, so the earlier instant is the one with the
    LARGER offset; the loop returns the pair only in its backward branch, where the offset before
    the transition exceeds the offset after it. *)
Lemma clamp_mono lo hi a b : lo <= hi -> clamp lo hi a > clamp lo hi b -> a > b.
Proof. unfold clamp. intros H. destruct (a <? lo) eqn:E1, (hi <? a) eqn:E2, (b <? lo) eqn:E3, (hi <? b) eqn:E4; lia. Qed.
Lemma sat_gt t p q : saturating_add_i64 t p > saturating_add_i64 t q -> p > q.
Proof. unfold saturating_add_i64. intros H. apply clamp_mono in H; [lia|unfold i64_min, i64_max; lia]. Qed.

Lemma local_loop_order : forall trs types prev l a b,
  local_loop types trs prev l = Val (inl (MAmbiguous a b)) -> ut_offset a > ut_offset b.
Proof.
  induction trs as [|tr rest IH]; intros types prev l a b H; cbn [local_loop] in H; [discriminate|].
  destruct (index types (tr_idx tr)) as [after| |] eqn:Ei; cbn [bind] in H; try discriminate.
  destruct (saturating_add_i64 (tr_time tr) (ut_offset prev) ?= saturating_add_i64 (tr_time tr) (ut_offset after)) eqn:Ec.
  - destruct (l <? _) in H; [discriminate|]. destruct (l =? _) in H; [discriminate|]. eapply IH; eassumption.
  - destruct (l <=? _) in H; [discriminate|]. destruct (l <? _) in H; [discriminate|].
    destruct (l =? _) in H; [discriminate|]. eapply IH; eassumption.
  - destruct (l <? _) in H; [discriminate|].
    destruct ((l >=? _) && (l <=? _)) in H.
    + injection H as -> ->. apply Z.compare_gt_iff in Ec. apply Z.lt_gt in Ec. exact (sat_gt _ _ _ Ec).
    + eapply IH; eassumption.
Qed.

(** the same for the rule: the pair is (larger offset, smaller offset) in all four branches *)
Lemma alt_local_order a y l x z :
  alt_find_local_time_type_from_local a y l = Val (Ok (MAmbiguous x z)) -> ut_offset x > ut_offset z.
Proof.
  unfold alt_find_local_time_type_from_local. intros H.
  repeat match type of H with
  | bind ?e _ = _ => destruct e as [?v| |]; cbn [bind] in H; try discriminate
  end.
  destruct (ut_offset (a_std a) ?= ut_offset (a_dst a)) eqn:Ec.
  - discriminate.
  - change (ut_offset (a_std a) < ut_offset (a_dst a)) in Ec.
    repeat match type of H with
    | bind ?e _ = _ => destruct e as [[? ?]| |]; cbn [bind] in H; try discriminate
    end.
    unfold ok in H.
    repeat match type of H with
    | (if ?c then _ else _) = _ => destruct c; try discriminate
    end; injection H as Hx Hz; rewrite <- Hx, <- Hz; lia.
  - change (ut_offset (a_std a) > ut_offset (a_dst a)) in Ec.
    repeat match type of H with
    | bind ?e _ = _ => destruct e as [[? ?]| |]; cbn [bind] in H; try discriminate
    end.
    unfold ok in H.
    repeat match type of H with
    | (if ?c then _ else _) = _ => destruct c; try discriminate
    end; injection H as Hx Hz; rewrite <- Hx, <- Hz; lia.
Qed.


(** * Transition table, stated against the oracle Spec/Zone.v *)
Definition szone_of (ps : list (Z * ltt)) (first : ltt) : szone := mk_szone (ut_offset first) (offs ps) None.

Theorem offset_at_table z ps first t :
  table_zone z ps first -> leap_seconds z = [] -> extra_rule z = None ->
  increasing (offs ps) = true -> zlen (transitions z) < 4611686018427387904 ->
  exists l, find_local_time_type z t = Val (Ok l) /\ zone_off (szone_of ps first) t = Some (ut_offset l).
Proof.
  intros Hz Hl Hn Hi Hlen.
  destruct (find_local_time_type_table z ps first t Hz Hl Hi Hlen (or_introl Hn)) as (l & H1 & H2).
  exists l. split; [exact H1|]. unfold szone_of. rewrite zone_off_table, H2. reflexivity.
Qed.

Theorem roundtrip_table z ps first y t :
  table_zone z ps first -> extra_rule z = None ->
  spacing_table (offs ps) (ut_offset first) = true ->
  forall o, zone_off (szone_of ps first) t = Some o ->
  exists m, find_local_time_type_from_local z y (t + o) = Val (Ok m) /\ contains m o.
Proof.
  intros Hz Hn Hs o Ho. unfold szone_of in Ho. rewrite zone_off_table in Ho. injection Ho as <-.
  exists (table_answer ps first (t + table_off (offs ps) (ut_offset first) t)). split.
  - apply from_local_table; assumption.
  - apply table_roundtrip. exact Hs.
Qed.

Theorem classification_table z ps first y l :
  table_zone z ps first -> extra_rule z = None ->
  increasing (offs ps) = true -> spacing_table (offs ps) (ut_offset first) = true ->
  excepted_wall (szone_of ps first) l = false ->
  exists m, find_local_time_type_from_local z y l = Val (Ok m) /\
  let S := instants_of_wall (szone_of ps first) l in
  match m with
  | MNone => S = []
  | MSingle a => forall t, In t S <-> t = l - ut_offset a
  | MAmbiguous a b => l - ut_offset a < l - ut_offset b /\
                      forall t, In t S <-> t = l - ut_offset a \/ t = l - ut_offset b
  end.
Proof.
  intros Hz Hn Hi Hs Hex. exists (table_answer ps first l). split; [apply from_local_table; assumption|].
  unfold excepted_wall, szone_of in Hex. cbn [z_trans z_first z_rule] in Hex. rewrite orb_false_r in Hex.
  pose proof (table_classification ps first l Hi Hs Hex) as H. cbv zeta in *. unfold szone_of.
  destruct (table_answer ps first l) as [|a|a b].
  - destruct (instants_of_wall _ l) as [|t r] eqn:E; [reflexivity|].
    exfalso. apply (H t). apply instants_of_wall_table. rewrite E. left. reflexivity.
  - destruct H as [Ha Hu]. intros t. rewrite instants_of_wall_table. split; [apply Hu|intros ->; exact Ha].
  - destruct H as (Ha & Hb & Hlt & Hu). split; [exact Hlt|]. intros t. rewrite instants_of_wall_table.
    split; [apply Hu|intros [->| ->]; assumption].
Qed.

(** * The glue: Cache::offset after the refresh, impl TimeZone for Local, provided methods *)
Definition off_ok (o : Z) : Prop := -86400 < o < 86400.
Lemma east_opt_ok o : off_ok o -> DateTime.east_opt o = Some o.
Proof.
  unfold off_ok, DateTime.east_opt, Gen.DateTimeConsts.FO_EAST_LO, Gen.DateTimeConsts.FO_EAST_HI. intros H.
  destruct ((-86400 <? o) && (o <? 86400)) eqn:E; [reflexivity|lia].
Qed.
Lemma east_opt_none o : ~ off_ok o -> DateTime.east_opt o = None.
Proof.
  unfold off_ok, DateTime.east_opt, Gen.DateTimeConsts.FO_EAST_LO, Gen.DateTimeConsts.FO_EAST_HI. intros H.
  destruct ((-86400 <? o) && (o <? 86400)) eqn:E; [lia|reflexivity].
Qed.

(* instant -> date-time: the offset of the type the lookup selects, attached to the same UTC
   reading; a panic exactly when the lookup fails or the offset is not a FixedOffset *)
Lemma glue_utc zone utc ts :
  DateTime.dt_timestamp utc = Val ts ->
  from_utc_datetime zone utc =
  match find_local_time_type zone ts with
  | Val (Ok l) => if (-86400 <? ut_offset l) && (ut_offset l <? 86400)
                  then Val (DateTime.mk_dtz utc (ut_offset l)) else Panic
  | Val (Err _) => Panic
  | Panic => Panic
  | OutOfFuel => OutOfFuel
  end.
Proof.
  intros Hts. unfold from_utc_datetime, offset_from_utc_datetime, cache_offset. cbn [negb]. rewrite Hts. cbn [bind].
  destruct (find_local_time_type zone ts) as [[l|e]| |]; cbn [bind]; try reflexivity.
  unfold DateTime.east_opt, Gen.DateTimeConsts.FO_EAST_LO, Gen.DateTimeConsts.FO_EAST_HI.
  destruct ((-86400 <? ut_offset l) && (ut_offset l <? 86400)); reflexivity.
Qed.

(* wall clock -> offsets: the lookup's candidates, mapped to their offsets, all or nothing *)
Lemma glue_local zone local ts :
  DateTime.dt_timestamp local = Val ts ->
  offset_from_local_datetime zone local =
  match find_local_time_type_from_local zone (Date.d_year (DateTime.nd_date local)) ts with
  | Val (Ok m) => Val (mlt_and_then m (fun o => DateTime.east_opt (ut_offset o)))
  | Val (Err _) => Panic
  | Panic => Panic
  | OutOfFuel => OutOfFuel
  end.
Proof.
  intros Hts. unfold offset_from_local_datetime, cache_offset. cbn [negb]. rewrite Hts. cbn [bind].
  destruct (find_local_time_type_from_local zone _ ts) as [[m|e]| |]; reflexivity.
Qed.
Lemma and_then_all_ok (m : mlt ltt) :
  (forall o, contains m o -> off_ok o) ->
  mlt_and_then m (fun o => DateTime.east_opt (ut_offset o)) = mlt_map m ut_offset.
Proof.
  destruct m as [|a|a b]; cbn; intros H; [reflexivity| |].
  - rewrite east_opt_ok by (apply H; reflexivity). reflexivity.
  - rewrite !east_opt_ok by (apply H; tauto). reflexivity.
Qed.
Lemma and_then_some_bad (m : mlt ltt) o :
  contains m o -> ~ off_ok o -> mlt_and_then m (fun o => DateTime.east_opt (ut_offset o)) = MNone.
Proof.
  destruct m as [|a|a b]; cbn; intros Hc Hb; [contradiction| |].
  - subst o. rewrite east_opt_none by exact Hb. reflexivity.
  - destruct Hc as [<-|<-].
    + rewrite (east_opt_none (ut_offset a)) by exact Hb. reflexivity.
    + rewrite (east_opt_none (ut_offset b)) by exact Hb. destruct (DateTime.east_opt (ut_offset a)); reflexivity.
Qed.
Lemma projections_map {A C} (m : mlt A) (f : A -> C) :
  mlt_earliest (mlt_map m f) = option_map f (mlt_earliest m) /\
  mlt_latest (mlt_map m f) = option_map f (mlt_latest m) /\
  mlt_single (mlt_map m f) = option_map f (mlt_single m).
Proof. destruct m; cbn; repeat split. Qed.
Lemma glue_filter (m : mlt ltt) :
  ((forall o, contains m o -> off_ok o) ->
   mlt_and_then m (fun o => DateTime.east_opt (ut_offset o)) = mlt_map m ut_offset) /\
  (forall o, contains m o -> ~ off_ok o ->
   mlt_and_then m (fun o => DateTime.east_opt (ut_offset o)) = MNone).
Proof. split; [exact (and_then_all_ok m)|exact (and_then_some_bad m)]. Qed.

(** * The hypotheses are inhabited: Europe/Berlin's two transitions of 2023 *)
Definition ex_cet := mk_ltt 3600 false (Some (B"CET")).
Definition ex_cest := mk_ltt 7200 true (Some (B"CEST")).
Definition ex_zone : timezone :=
  mk_tz [mk_tr 1679792400 1; mk_tr 1698541200 0] [ex_cet; ex_cest] [] None.
Definition ex_ps : list (Z * ltt) := [(1679792400, ex_cest); (1698541200, ex_cet)].
Lemma ex_table_zone : table_zone ex_zone ex_ps ex_cet.
Proof.
  constructor.
  - reflexivity.
  - repeat constructor.
  - repeat constructor; cbn; unfold t_ok, o_ok; cbn; lia.
  - unfold o_ok. cbn. lia.
Qed.
Lemma ex_facts :
  table_zone ex_zone ex_ps ex_cet /\ leap_seconds ex_zone = [] /\ extra_rule ex_zone = None /\
  increasing (offs ex_ps) = true /\ spacing_table (offs ex_ps) (ut_offset ex_cet) = true /\
  zlen (transitions ex_zone) < 4611686018427387904 /\
  (* 2023-10-29T02:30:00 occurs twice, 2023-03-26T02:30:00 never, 2023-07-01T00:00:00 once *)
  excepted_wall (szone_of ex_ps ex_cet) 1698546600 = false /\
  find_local_time_type_from_local ex_zone 2023 1698546600 = Val (Ok (MAmbiguous ex_cest ex_cet)) /\
  instants_of_wall (szone_of ex_ps ex_cet) 1698546600 = [1698539400; 1698543000] /\
  find_local_time_type_from_local ex_zone 2023 1679797800 = Val (Ok MNone) /\
  instants_of_wall (szone_of ex_ps ex_cet) 1679797800 = [] /\
  find_local_time_type_from_local ex_zone 2023 1688169600 = Val (Ok (MSingle ex_cest)) /\
  instants_of_wall (szone_of ex_ps ex_cet) 1688169600 = [1688162400].
Proof. split; [exact ex_table_zone|]. repeat split; vm_compute; reflexivity. Qed.

(** The spacing hypothesis cannot be dropped: a valid zone whose second transition comes 600 s
    after a one-hour fold.  The wall reading T1 + 1800 occurs once (at T1 - 1800, offset +1 h) but
    the scan answers Ambiguous. *)
Definition un_a := mk_ltt 3600 false (Some (B"AAA")).
Definition un_b := mk_ltt 0 false (Some (B"BBB")).
Definition un_c := mk_ltt 7200 true (Some (B"CCC")).
Definition un_zone : timezone := mk_tz [mk_tr 1000000 1; mk_tr 1000600 2] [un_a; un_b; un_c] [] None.
Definition un_ps : list (Z * ltt) := [(1000000, un_b); (1000600, un_c)].
Lemma unspaced_refuted :
  table_zone un_zone un_ps un_a /\ extra_rule un_zone = None /\ increasing (offs un_ps) = true /\
  spacing_table (offs un_ps) (ut_offset un_a) = false /\
  excepted_wall (szone_of un_ps un_a) 1001800 = false /\
  find_local_time_type_from_local un_zone 1970 1001800 = Val (Ok (MAmbiguous un_a un_b)) /\
  instants_of_wall (szone_of un_ps un_a) 1001800 = [998200].
Proof.
  split.
  - constructor; [reflexivity|repeat constructor| |unfold o_ok; cbn; lia].
    repeat constructor; cbn; unfold t_ok, o_ok; cbn; lia.
  - repeat split; vm_compute; reflexivity.
Qed.
