(** Proofs for C05 (local time follows the zone data). *)
From Coq Require Import ZArith List Bool Lia ZifyBool.
From V Require Import Base.Int Base.IO.
From V Require Import Model.TzParser Model.TzRule Model.TzLookup Model.C05.
From V Require Model.DateTime.
Import ListNotations.
Open Scope Z_scope.

(** * The result contract: MappedLocalTime::{single, earliest, latest} *)
Lemma mlt_single_spec {A} (m : mlt A) (x : A) :
  mlt_single m = Some x <-> m = MSingle x.
Proof. destruct m; cbn; split; intros H; try discriminate; inversion H; reflexivity. Qed.

Lemma mlt_projections {A} (m : mlt A) :
  match m with
  | MNone => mlt_earliest m = None /\ mlt_latest m = None /\ mlt_single m = None
  | MSingle x => mlt_earliest m = Some x /\ mlt_latest m = Some x /\ mlt_single m = Some x
  | MAmbiguous a b => mlt_earliest m = Some a /\ mlt_latest m = Some b /\ mlt_single m = None
  end.
Proof. destruct m; cbn; repeat split. Qed.

(** * Order of an ambiguous answer of the transition table: (earliest, latest).
    The instant of a reading with offset o is local - o, so the earlier instant is the one with the
    LARGER offset; the loop returns the pair only in its backward branch, where the offset before
    the transition exceeds the offset after it. *)
Lemma clamp_mono lo hi a b : lo <= hi -> clamp lo hi a > clamp lo hi b -> a > b.
Proof. unfold clamp. intros H. destruct (a <? lo) eqn:E1, (hi <? a) eqn:E2, (b <? lo) eqn:E3, (hi <? b) eqn:E4; lia. Qed.
Lemma sat_gt t p q : saturating_add_i64 t p > saturating_add_i64 t q -> p > q.
Proof. unfold saturating_add_i64. intros H. apply clamp_mono in H; [lia|unfold i64_min, i64_max; lia]. Qed.

Lemma local_loop_order : forall trs types prev l a b,
  local_loop types trs prev l = Val (inl (MAmbiguous a b)) -> ut_offset a > ut_offset b.
Proof.
  induction trs as [|tr rest IH]; intros types prev l a b H; cbn [local_loop] in H; [discriminate|].
  destruct (index types (tr_idx tr)) as [after| |] eqn:Ei; cbn [bind] in H; try discriminate.
  destruct (saturating_add_i64 (tr_time tr) (ut_offset prev) ?= saturating_add_i64 (tr_time tr) (ut_offset after)) eqn:Ec.
  - destruct (l <? _) in H; [discriminate|]. destruct (l =? _) in H; [discriminate|]. eapply IH; eassumption.
  - destruct (l <=? _) in H; [discriminate|]. destruct (l <? _) in H; [discriminate|].
    destruct (l =? _) in H; [discriminate|]. eapply IH; eassumption.
  - destruct (l <? _) in H; [discriminate|].
    destruct ((l >=? _) && (l <=? _)) in H.
    + injection H as -> ->. apply Z.compare_gt_iff in Ec. apply Z.lt_gt in Ec. exact (sat_gt _ _ _ Ec).
    + eapply IH; eassumption.
Qed.

(** the same for the rule: the pair is (larger offset, smaller offset) in all four branches *)
Lemma alt_local_order a y l x z :
  alt_find_local_time_type_from_local a y l = Val (Ok (MAmbiguous x z)) -> ut_offset x > ut_offset z.
Proof.
  unfold alt_find_local_time_type_from_local. intros H.
  repeat match type of H with
  | bind ?e _ = _ => destruct e as [?v| |]; cbn [bind] in H; try discriminate
  end.
  destruct (ut_offset (a_std a) ?= ut_offset (a_dst a)) eqn:Ec.
  - discriminate.
  - change (ut_offset (a_std a) < ut_offset (a_dst a)) in Ec.
    repeat match type of H with
    | bind ?e _ = _ => destruct e as [[? ?]| |]; cbn [bind] in H; try discriminate
    end.
    unfold ok in H.
    repeat match type of H with
    | (if ?c then _ else _) = _ => destruct c; try discriminate
    end; injection H as Hx Hz; rewrite <- Hx, <- Hz; lia.
  - change (ut_offset (a_std a) > ut_offset (a_dst a)) in Ec.
    repeat match type of H with
    | bind ?e _ = _ => destruct e as [[? ?]| |]; cbn [bind] in H; try discriminate
    end.
    unfold ok in H.
    repeat match type of H with
    | (if ?c then _ else _) = _ => destruct c; try discriminate
    end; injection H as Hx Hz; rewrite <- Hx, <- Hz; lia.
Qed.
