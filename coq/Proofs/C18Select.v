(** C18, zone selection in explicit form, for arbitrary oracles (file table, rule parser, system
    zone name): the candidate paths a name stands for and "the first one that opens wins" with a
    least index, the shape of a TZ value (unset / empty / "localtime" / colon + name / plain) and the
    route each shape takes, and the whole fallback chain as "the first of [TZ route; system zone
    route] that succeeds, else UTC" with the exact condition under which each stage fails. *)
From Coq Require Import ZArith List Bool Lia String.
From V Require Import Base.Int Base.IO Gen.LocalCache Model.C18 Proofs.C18.
Import ListNotations.
Open Scope Z_scope.

(** the first element that is not [None] *)
Fixpoint first_some {A} (l : list (option A)) : option A :=
  match l with
  | [] => None
  | x :: r => match x with Some a => Some a | None => first_some r end
  end.

Lemma first_some_map_least : forall X Y (g : X -> option Y) (l : list X) b,
  first_some (map g l) = Some b <->
  exists i a, nth_error l i = Some a /\ g a = Some b /\
              forall j a', (j < i)%nat -> nth_error l j = Some a' -> g a' = None.
Proof.
  induction l as [|x r IH]; intros b; cbn [map first_some].
  - split; [discriminate|]. intros [i [a [H _]]]. destruct i; discriminate.
  - destruct (g x) eqn:E.
    + split.
      * intros H. injection H as <-. exists 0%nat, x. split; [reflexivity|]. split; [exact E|].
        intros j a' Hj. lia.
      * intros [i [a [Hn [Hg Hl]]]]. destruct i as [|i].
        -- cbn in Hn. injection Hn as <-. congruence.
        -- specialize (Hl 0%nat x (Nat.lt_0_succ i) eq_refl). congruence.
    + rewrite IH. split.
      * intros [i [a [Hn [Hg Hl]]]]. exists (S i), a. split; [exact Hn|]. split; [exact Hg|].
        intros [|j] a' Hj Hn'.
        -- cbn in Hn'. injection Hn' as <-. exact E.
        -- apply (Hl j a'); [lia | exact Hn'].
      * intros [i [a [Hn [Hg Hl]]]]. destruct i as [|i].
        -- cbn in Hn. injection Hn as <-. congruence.
        -- exists i, a. split; [exact Hn|]. split; [exact Hg|].
           intros j a' Hj Hn'. apply (Hl (S j) a'); [lia | exact Hn'].
Qed.

Lemma first_some_map_none : forall X Y (g : X -> option Y) (l : list X),
  first_some (map g l) = None <-> forall a, In a l -> g a = None.
Proof.
  induction l as [|x r IH]; cbn [map first_some].
  - split; [intros _ a [] | reflexivity].
  - destruct (g x) eqn:E.
    + split; [discriminate|]. intros H. rewrite (H x (or_introl eq_refl)) in E. discriminate.
    + rewrite IH. split.
      * intros H a [<-|Ha]; [exact E | apply H; exact Ha].
      * intros H a Ha. apply H. right. exact Ha.
Qed.

Lemma c18_bytes_eqb_eq : forall a b, bytes_eqb a b = true <-> a = b.
Proof.
  induction a as [|x a IH]; intros [|y b]; cbn [bytes_eqb]; split; intro H; try discriminate; try reflexivity.
  - apply andb_prop in H. destruct H as [H1 H2]. apply Z.eqb_eq in H1. apply IH in H2. subst. reflexivity.
  - injection H as -> ->. rewrite Z.eqb_refl. apply IH. reflexivity.
Qed.
Lemma c18_bytes_eqb_neq : forall a b, bytes_eqb a b = false <-> a <> b.
Proof.
  intros a b. split.
  - intros H E. apply c18_bytes_eqb_eq in E. congruence.
  - intros H. destruct (bytes_eqb a b) eqn:E; [|reflexivity]. apply c18_bytes_eqb_eq in E. contradiction.
Qed.

(** the literals of the tree under test (Gen/LocalCache.v is regenerated from the source at every
    run; the general theorems below are over whatever list the source has) *)
Lemma constants_this_tree :
  LC_ZONE_INFO_DIRECTORIES =
    [B"/usr/share/zoneinfo"; B"/share/zoneinfo"; B"/etc/zoneinfo"; B"/usr/share/lib/zoneinfo"] /\
  LC_TZDB_LOCATION = B"/usr/share/zoneinfo" /\
  LC_LOCALTIME_NAME = B"localtime" /\ LC_UNSET_NAME = B"localtime" /\
  LC_LOCALTIME_FILE = B"/etc/localtime" /\ LC_MTIME_FILE = B"/etc/localtime" /\
  [LC_FILE_PREFIX] = B":" /\ LC_ENV_NAME = B"TZ".
Proof. repeat split; reflexivity. Qed.

Section Select.
  Context {zone HASH ARG ANS : Type}.
  Variable O : oracle zone HASH ARG ANS.
  Notation world := (world zone).

  (** *** Which paths a name stands for, in the order they are tried *)
  Definition candidates (name : bytes) : list bytes :=
    if is_absolute name then [name] else map (fun d => d ++ 47 :: name) LC_ZONE_INFO_DIRECTORIES.
  (** what opening the name gives: the first candidate that opens *)
  Definition opened (w : world) (name : bytes) : option (option zone) :=
    first_some (map (w_files w) (candidates name)).

  Lemma find_in_dirs_first_some : forall (w : world) dirs name,
    find_in_dirs w dirs name = first_some (map (w_files w) (map (fun d => d ++ 47 :: name) dirs)).
  Proof.
    intros w dirs name. induction dirs as [|d r IH]; cbn [find_in_dirs map first_some]; [reflexivity|].
    unfold path_join. destruct (w_files w (d ++ 47 :: name)); [reflexivity | exact IH].
  Qed.

  Lemma find_tz_file_opened : forall (w : world) name, find_tz_file w name = opened w name.
  Proof.
    intros w name. unfold find_tz_file, opened, candidates. destruct (is_absolute name).
    - cbn [map first_some]. destruct (w_files w name); reflexivity.
    - apply find_in_dirs_first_some.
  Qed.

  Lemma candidates_absolute : forall p, candidates (47 :: p) = [47 :: p].
  Proof. reflexivity. Qed.
  Lemma candidates_relative : forall name, is_absolute name = false ->
    candidates name = [B"/usr/share/zoneinfo" ++ 47 :: name; B"/share/zoneinfo" ++ 47 :: name;
                       B"/etc/zoneinfo" ++ 47 :: name; B"/usr/share/lib/zoneinfo" ++ 47 :: name].
  Proof. intros name H. unfold candidates. rewrite H. reflexivity. Qed.
  Lemma is_absolute_spec : forall name, is_absolute name = true <-> exists p, name = 47 :: p.
  Proof.
    intros [|c r]; cbn [is_absolute].
    - split; [discriminate | intros [p H]; discriminate].
    - split.
      + intros H. destruct c as [|q|q]; try discriminate.
        do 6 (destruct q as [q|q|]; try discriminate). exists r. reflexivity.
      + intros [p H]. injection H as -> _. reflexivity.
  Qed.

  (** the file that is used is the candidate of LEAST index that opens (whether or not it then
      parses); nothing is found exactly when no candidate opens *)
  Theorem find_tz_file_least : forall (w : world) name f,
    find_tz_file w name = Some f <->
    exists i p, nth_error (candidates name) i = Some p /\ w_files w p = Some f /\
                forall j q, (j < i)%nat -> nth_error (candidates name) j = Some q -> w_files w q = None.
  Proof. intros. rewrite find_tz_file_opened. apply first_some_map_least. Qed.
  Theorem find_tz_file_none : forall (w : world) name,
    find_tz_file w name = None <-> forall p, In p (candidates name) -> w_files w p = None.
  Proof. intros. rewrite find_tz_file_opened. apply first_some_map_none. Qed.

  (** an absolute path is opened directly (no directory is searched) *)
  Theorem find_tz_file_absolute : forall (w : world) p, find_tz_file w (47 :: p) = w_files w (47 :: p).
  Proof. reflexivity. Qed.
  (** a relative name: the four directories in the order of the source *)
  Theorem find_tz_file_relative : forall (w : world) name, is_absolute name = false ->
    find_tz_file w name =
      first_some [w_files w (B"/usr/share/zoneinfo" ++ 47 :: name); w_files w (B"/share/zoneinfo" ++ 47 :: name);
                  w_files w (B"/etc/zoneinfo" ++ 47 :: name); w_files w (B"/usr/share/lib/zoneinfo" ++ 47 :: name)].
  Proof. intros w name H. rewrite find_tz_file_opened. unfold opened. rewrite (candidates_relative name H). reflexivity. Qed.

  (** *** The shape of a value of TZ (as env::var reports it) and the route of each shape *)
  Inductive shape :=
  | ShUnset                       (* not set (or not valid UTF-8) *)
  | ShEmpty                       (* TZ="" *)
  | ShLocaltime                   (* TZ="localtime" *)
  | ShColon (rest : bytes)        (* TZ=":rest" *)
  | ShPlain (s : bytes).          (* anything else *)

  Definition shape_of (var : option bytes) : shape :=
    match var with
    | None => ShUnset
    | Some [] => ShEmpty
    | Some (c :: rest) =>
        if bytes_eqb (c :: rest) LC_LOCALTIME_NAME then ShLocaltime
        else if c =? LC_FILE_PREFIX then ShColon rest else ShPlain (c :: rest)
    end.

  (** the shapes partition the values: each shape is taken exactly by the values it names *)
  Theorem shape_of_spec : forall var,
    match shape_of var with
    | ShUnset => var = None
    | ShEmpty => var = Some []
    | ShLocaltime => var = Some LC_LOCALTIME_NAME
    | ShColon rest => var = Some (LC_FILE_PREFIX :: rest)
    | ShPlain s => var = Some s /\ s <> [] /\ s <> LC_LOCALTIME_NAME /\ forall rest, s <> LC_FILE_PREFIX :: rest
    end.
  Proof.
    intros [[|c rest]|]; cbn [shape_of]; try reflexivity.
    destruct (bytes_eqb (c :: rest) LC_LOCALTIME_NAME) eqn:E.
    - apply c18_bytes_eqb_eq in E. rewrite E. reflexivity.
    - destruct (c =? LC_FILE_PREFIX) eqn:Ec.
      + apply Z.eqb_eq in Ec. subst c. reflexivity.
      + split; [reflexivity|]. split; [discriminate|]. split; [apply c18_bytes_eqb_neq; exact E|].
        intros r H. injection H as H _. apply Z.eqb_neq in Ec. contradiction.
  Qed.
  Theorem shape_of_unset : shape_of None = ShUnset.
  Proof. reflexivity. Qed.
  Theorem shape_of_empty : shape_of (Some []) = ShEmpty.
  Proof. reflexivity. Qed.
  Theorem shape_of_localtime : shape_of (Some LC_LOCALTIME_NAME) = ShLocaltime.
  Proof. reflexivity. Qed.
  Theorem shape_of_colon : forall rest, shape_of (Some (LC_FILE_PREFIX :: rest)) = ShColon rest.
  Proof. reflexivity. Qed.
  Theorem shape_of_plain : forall s, s <> [] -> s <> LC_LOCALTIME_NAME ->
    (forall rest, s <> LC_FILE_PREFIX :: rest) -> shape_of (Some s) = ShPlain s.
  Proof.
    intros [|c rest] H0 H1 H2; [contradiction|]. cbn [shape_of].
    apply c18_bytes_eqb_neq in H1. rewrite H1.
    destruct (c =? LC_FILE_PREFIX) eqn:Ec; [|reflexivity].
    apply Z.eqb_eq in Ec. subst c. exfalso. exact (H2 rest eq_refl).
  Qed.

  Definition parsed (f : option (option zone)) : option zone :=
    match f with Some (Some z) => Some z | _ => None end.

  (** the route of each shape: [None] = TimeZone::local answers Err *)
  Definition route (w : world) (sh : shape) : option zone :=
    match sh with
    | ShUnset => parsed (w_files w LC_LOCALTIME_FILE)
    | ShLocaltime => parsed (w_files w LC_LOCALTIME_FILE)
    | ShEmpty => Some (o_utc O)
    | ShColon rest => parsed (opened w rest)
    | ShPlain s =>
        match opened w s with
        | Some f => parsed (Some f)                (* a file of that name: used, readable or not *)
        | None => o_rule O (trim_ws s)             (* no such file: the trimmed text as a POSIX rule *)
        end
    end.

  Lemma read_zone_parsed : forall (w : world) p, read_zone w p = parsed (w_files w p).
  Proof. intros. unfold read_zone, parsed. destruct (w_files w p) as [[z|]|]; reflexivity. Qed.

  Theorem tz_local_route : forall (w : world) var, tz_local O w var = route w (shape_of var).
  Proof.
    intros w [[|c rest]|].
    - reflexivity.
    - unfold tz_local, from_posix_tz, shape_of.
      destruct (bytes_eqb (c :: rest) LC_LOCALTIME_NAME); [apply read_zone_parsed|].
      destruct (c =? LC_FILE_PREFIX); cbn [route]; rewrite find_tz_file_opened.
      + destruct (opened w rest) as [[z|]|]; reflexivity.
      + destruct (opened w (c :: rest)) as [[z|]|]; reflexivity.
    - cbn [shape_of route]. rewrite <- read_zone_parsed. reflexivity.
  Qed.

  (** each route written out *)
  Theorem route_empty : forall (w : world), tz_local O w (Some []) = Some (o_utc O).
  Proof. reflexivity. Qed.
  Theorem route_unset : forall (w : world), tz_local O w None = parsed (w_files w LC_LOCALTIME_FILE).
  Proof. intros. apply (tz_local_route w None). Qed.
  Theorem route_localtime : forall (w : world),
    tz_local O w (Some LC_LOCALTIME_NAME) = parsed (w_files w LC_LOCALTIME_FILE).
  Proof. intros. apply (tz_local_route w (Some LC_LOCALTIME_NAME)). Qed.
  (* colon, absolute path: that file, opened directly *)
  Theorem route_colon_absolute : forall (w : world) p,
    tz_local O w (Some (LC_FILE_PREFIX :: 47 :: p)) = parsed (w_files w (47 :: p)).
  Proof.
    intros. rewrite tz_local_route, shape_of_colon. cbn [route]. unfold opened.
    rewrite candidates_absolute. cbn [map first_some]. destruct (w_files w (47 :: p)) as [[z|]|]; reflexivity.
  Qed.
  (* colon, relative name: the first directory that has it; never a rule *)
  Theorem route_colon_relative : forall (w : world) rest, is_absolute rest = false ->
    tz_local O w (Some (LC_FILE_PREFIX :: rest)) =
      parsed (first_some (map (fun d => w_files w (d ++ 47 :: rest)) LC_ZONE_INFO_DIRECTORIES)).
  Proof.
    intros w rest H. rewrite tz_local_route, shape_of_colon. cbn [route]. unfold opened, candidates.
    rewrite H, map_map. reflexivity.
  Qed.
  (* plain absolute path: that file if it opens (readable or not), else the text as a rule *)
  Theorem route_plain_absolute : forall (w : world) p,
    tz_local O w (Some (47 :: p)) =
      match w_files w (47 :: p) with Some f => parsed (Some f) | None => o_rule O (trim_ws (47 :: p)) end.
  Proof.
    intros. rewrite tz_local_route. unfold shape_of.
    replace (bytes_eqb (47 :: p) LC_LOCALTIME_NAME) with false by reflexivity.
    replace (47 =? LC_FILE_PREFIX) with false by reflexivity.
    cbn [route]. unfold opened. rewrite candidates_absolute. cbn [map first_some].
    destruct (w_files w (47 :: p)) as [[z|]|]; reflexivity.
  Qed.
  (* plain relative name: the first directory that has it (readable or not), else a rule *)
  Theorem route_plain_relative : forall (w : world) s, shape_of (Some s) = ShPlain s -> is_absolute s = false ->
    tz_local O w (Some s) =
      match first_some (map (fun d => w_files w (d ++ 47 :: s)) LC_ZONE_INFO_DIRECTORIES) with
      | Some f => parsed (Some f)
      | None => o_rule O (trim_ws s)
      end.
  Proof.
    intros w s Hs Ha. rewrite tz_local_route, Hs. cbn [route]. unfold opened, candidates.
    rewrite Ha, map_map. reflexivity.
  Qed.

  (** exactly when the TZ route fails *)
  Theorem route_fails_iff : forall (w : world) sh,
    route w sh = None <->
    match sh with
    | ShUnset | ShLocaltime => forall z, w_files w LC_LOCALTIME_FILE <> Some (Some z)
    | ShEmpty => False
    | ShColon rest => forall z, opened w rest <> Some (Some z)
    | ShPlain s => opened w s = Some None \/ (opened w s = None /\ o_rule O (trim_ws s) = None)
    end.
  Proof.
    intros w sh. destruct sh as [| | |rest|s]; cbn [route].
    - unfold parsed. destruct (w_files w LC_LOCALTIME_FILE) as [[z|]|]; split; try discriminate; try reflexivity;
        intros H; try (exfalso; exact (H z eq_refl)); intros z' H'; discriminate.
    - split; [discriminate | intros []].
    - unfold parsed. destruct (w_files w LC_LOCALTIME_FILE) as [[z|]|]; split; try discriminate; try reflexivity;
        intros H; try (exfalso; exact (H z eq_refl)); intros z' H'; discriminate.
    - unfold parsed. destruct (opened w rest) as [[z|]|]; split; try discriminate; try reflexivity;
        intros H; try (exfalso; exact (H z eq_refl)); intros z' H'; discriminate.
    - unfold parsed. destruct (opened w s) as [[z|]|].
      + split; [discriminate|]. intros [H|[H _]]; discriminate.
      + split; [intros _; left; reflexivity | reflexivity].
      + split; [intros H; right; split; [reflexivity | exact H]|]. intros [H|[_ H]]; [discriminate | exact H].
  Qed.

  (** *** The fallback chain *)
  (** second stage: the zoneinfo file of the system's zone name (iana_time_zone), looked up under
      TZDB_LOCATION only (not under the other directories, and not /etc/localtime) *)
  Definition system_route (w : world) : option zone :=
    match o_iana O with
    | Some n => parsed (w_files w (LC_TZDB_LOCATION ++ 47 :: n))
    | None => None
    end.
  Lemma fallback_system_route : forall (w : world), fallback_timezone O w = system_route w.
  Proof. intros. unfold fallback_timezone, system_route. destruct (o_iana O); [apply read_zone_parsed | reflexivity]. Qed.

  Theorem system_route_fails_iff : forall (w : world),
    system_route w = None <->
    (o_iana O = None \/ exists n, o_iana O = Some n /\ forall z, w_files w (LC_TZDB_LOCATION ++ 47 :: n) <> Some (Some z)).
  Proof.
    intros w. unfold system_route. destruct (o_iana O) as [n|].
    - unfold parsed. destruct (w_files w (LC_TZDB_LOCATION ++ 47 :: n)) as [[z|]|] eqn:E; split; try discriminate; try reflexivity.
      + intros [H|[n' [Hn H]]]; [discriminate|]. injection Hn as <-. exfalso. exact (H z E).
      + intros _. right. exists n. split; [reflexivity|]. rewrite E. discriminate.
      + intros _. right. exists n. split; [reflexivity|]. rewrite E. discriminate.
    - split; [intros _; left; reflexivity | reflexivity].
  Qed.

  (** the zone chosen = the first of [TZ route; system zone route] that succeeds, else UTC *)
  Theorem chain_first : forall (w : world) var,
    current_zone O w var =
      match first_some [route w (shape_of var); system_route w] with Some z => z | None => o_utc O end.
  Proof.
    intros w var. unfold current_zone. rewrite tz_local_route, fallback_system_route. cbn [first_some].
    destruct (route w (shape_of var)); [reflexivity|]. destruct (system_route w); reflexivity.
  Qed.

  (** ... with exactly when each stage is taken *)
  Theorem chain_stages : forall (w : world) var,
    (exists z, route w (shape_of var) = Some z /\ current_zone O w var = z) \/
    (route w (shape_of var) = None /\ exists z, system_route w = Some z /\ current_zone O w var = z) \/
    (route w (shape_of var) = None /\ system_route w = None /\ current_zone O w var = o_utc O).
  Proof.
    intros w var. rewrite chain_first. cbn [first_some].
    destruct (route w (shape_of var)) as [z|]; [left; exists z; auto|].
    destruct (system_route w) as [z|]; [right; left; split; [reflexivity|]; exists z; auto|].
    right; right; auto.
  Qed.

  (** consequences that are easy to get wrong *)
  (* a file of that name that opens but does not parse: the text is NOT tried as a rule *)
  Theorem unparsable_file_not_rule : forall (w : world) s, shape_of (Some s) = ShPlain s ->
    opened w s = Some None ->
    current_zone O w (Some s) = match system_route w with Some z => z | None => o_utc O end.
  Proof.
    intros w s Hs Ho. rewrite chain_first, Hs. cbn [route first_some]. rewrite Ho. cbn [parsed].
    destruct (system_route w); reflexivity.
  Qed.
  (* a colon value never reaches the rule parser: missing or unparsable file -> system zone *)
  Theorem colon_failure_system : forall (w : world) rest, (forall z, opened w rest <> Some (Some z)) ->
    current_zone O w (Some (LC_FILE_PREFIX :: rest)) = match system_route w with Some z => z | None => o_utc O end.
  Proof.
    intros w rest H. rewrite chain_first, shape_of_colon.
    assert (E : route w (ShColon rest) = None) by (apply route_fails_iff; exact H).
    rewrite E. cbn [first_some]. destruct (system_route w); reflexivity.
  Qed.
  (* neither a file nor a rule: system zone *)
  Theorem garbage_system : forall (w : world) s, shape_of (Some s) = ShPlain s ->
    opened w s = None -> o_rule O (trim_ws s) = None ->
    current_zone O w (Some s) = match system_route w with Some z => z | None => o_utc O end.
  Proof.
    intros w s Hs Ho Hr. rewrite chain_first, Hs. cbn [route first_some]. rewrite Ho, Hr.
    destruct (system_route w); reflexivity.
  Qed.
  (* the empty value is UTC whatever the files and the system zone are *)
  Theorem empty_is_utc : forall (w : world), current_zone O w (Some []) = o_utc O.
  Proof. reflexivity. Qed.

  (** *** At the level of the world: the raw bytes of the variable *)
  Theorem zone_at_chain : forall (w : world),
    zone_at O w = match first_some [route w (shape_of (env_of (w_tz w))); system_route w] with
                  | Some z => z | None => o_utc O end.
  Proof. intros. unfold zone_at. rewrite env_var_tz. apply chain_first. Qed.
  Theorem zone_at_empty : forall (w : world), w_tz w = Some [] -> zone_at O w = o_utc O.
  Proof. intros w H. unfold zone_at. rewrite env_var_tz, H. reflexivity. Qed.
  (* a value that is not valid UTF-8 is treated exactly as an unset variable *)
  Theorem zone_at_not_unicode : forall (w : world) b, w_tz w = Some b -> utf8_valid b = false ->
    zone_at O w = current_zone O w None /\ shape_of (env_of (w_tz w)) = ShUnset.
  Proof. intros w b H Hu. unfold zone_at. rewrite env_var_tz, H. cbn [env_of]. rewrite Hu. split; reflexivity. Qed.
  Theorem zone_at_unset : forall (w : world), w_tz w = None ->
    zone_at O w = match first_some [parsed (w_files w LC_LOCALTIME_FILE); system_route w] with
                  | Some z => z | None => o_utc O end.
  Proof. intros w H. rewrite zone_at_chain, H. reflexivity. Qed.
End Select.

(** *** The hypotheses are inhabited: one machine on which every route and every stage is taken *)
Definition sel_world : xworld :=
  {| x_files := [(B"/etc/localtime", Some (zfixed 32400));
                 (B"/share/zoneinfo/Foo", Some (zfixed 3600)); (B"/etc/zoneinfo/Foo", Some (zfixed 7200));
                 (B"/usr/share/lib/zoneinfo/Bar", Some (zfixed (-3600)));
                 (B"/etc/zoneinfo/Junk", None); (B"/usr/share/lib/zoneinfo/Junk", Some (zfixed 60));
                 (B"/usr/share/zoneinfo/Sys", Some (zfixed 18000)); (B"/tmp/bad", None)];
     x_rules := [(B"AAA-3", 10800); (B"Junk", 120); (B"/tmp/bad", 180)];
     x_iana := Some B"Sys" |}.
(* the same machine without a usable system zone name, and without /etc/localtime *)
Definition sel_world_bare : xworld :=
  {| x_files := [(B"/share/zoneinfo/Foo", Some (zfixed 3600))]; x_rules := [(B"AAA-3", 10800)]; x_iana := Some B"Nowhere" |}.

Definition sel_zone (x : xworld) (v : option bytes) : Z := z_off (current_zone (xoracle x) (xinit x) v).

Lemma selection_inhabited :
  (* first directory that has the name wins: /share/zoneinfo before /etc/zoneinfo; colon the same *)
  sel_zone sel_world (Some B"Foo") = 3600 /\ sel_zone sel_world (Some B":Foo") = 3600 /\
  (* least index: the last directory is reached when the first three have nothing *)
  sel_zone sel_world (Some B"Bar") = -3600 /\
  (* absolute paths are opened directly, with and without the colon *)
  sel_zone sel_world (Some B"/etc/zoneinfo/Foo") = 7200 /\ sel_zone sel_world (Some B":/etc/zoneinfo/Foo") = 7200 /\
  (* empty: UTC; "localtime" and unset: /etc/localtime; not UTF-8: as unset *)
  sel_zone sel_world (Some []) = 0 /\ sel_zone sel_world (Some B"localtime") = 32400 /\ sel_zone sel_world None = 32400 /\
  z_off (zone_at (xoracle sel_world) (set_tz (xinit sel_world) (Some [255; 254]))) = 32400 /\
  (* a rule, with blanks around it *)
  sel_zone sel_world (Some B"AAA-3") = 10800 /\ sel_zone sel_world (Some B" AAA-3 ") = 10800 /\
  (* the first directory that OPENS wins even if the file is unparsable; then neither the later
     directory nor the rule of the same text is used: system zone *)
  sel_zone sel_world (Some B"Junk") = 18000 /\ sel_zone sel_world (Some B"/tmp/bad") = 18000 /\
  (* colon + something that is a rule but not a file; garbage: system zone *)
  sel_zone sel_world (Some B":AAA-3") = 18000 /\ sel_zone sel_world (Some B"!!") = 18000 /\
  (* last stage: no /etc/localtime and the system name has no file: UTC *)
  sel_zone sel_world_bare None = 0 /\ sel_zone sel_world_bare (Some B"!!") = 0 /\ sel_zone sel_world_bare (Some B"Foo") = 3600.
Proof. vm_compute. repeat split; reflexivity. Qed.

Lemma shapes_inhabited :
  shape_of (Some B"Foo") = ShPlain B"Foo" /\ shape_of (Some B":Foo") = ShColon B"Foo" /\
  shape_of (Some B"localtime") = ShLocaltime /\ shape_of (Some B"") = ShEmpty /\
  shape_of (env_of (Some [255; 254])) = ShUnset /\
  opened (xinit sel_world) B"Junk" = Some None /\ opened (xinit sel_world) B"!!" = None /\
  system_route (xoracle sel_world) (xinit sel_world) = Some (zfixed 18000) /\
  system_route (xoracle sel_world_bare) (xinit sel_world_bare) = None.
Proof. vm_compute. repeat split; reflexivity. Qed.

(** *** End to end: the answer of a conversion in terms of the explicit chain *)
(* after TZ has been quiet for one second (any history before, any conversions / thread switches /
   clock steps / touches meanwhile) the conversion answers from the first of [TZ route; system
   zone route] that succeeds for the CURRENT value of the variable, else from UTC *)
Lemma freshness_chain : forall zone HASH ARG ANS (O : oracle zone HASH ARG ANS) mono,
  hash_injective O -> forall w0 pre quiet_ops local d,
  Forall (time_ok mono) (pre ++ quiet_ops) -> Forall keeps_tz quiet_ops ->
  NANOS_PER_SEC <= elapsed quiet_ops ->
  let s := exec O mono (init_state w0) (pre ++ quiet_ops) in
  snd (step O mono s (Convert local d)) =
    Some (o_answer O (match first_some [route O (st_world s) (shape_of (env_of (w_tz (st_world s))));
                                        system_route O (st_world s)] with
                      | Some z => z | None => o_utc O end) local d).
Proof.
  intros zone HASH ARG ANS O mono Hinj w0 pre qo local d Ht Hk He s. subst s.
  rewrite (freshness O mono Hinj w0 pre qo local d Ht Hk He), zone_at_chain. reflexivity.
Qed.
(* the first conversion of a thread: the same, at once *)
Lemma new_thread_chain : forall zone HASH ARG ANS (O : oracle zone HASH ARG ANS) mono (s : @state zone HASH) local d,
  st_cur s = None ->
  snd (step O mono s (Convert local d)) =
    Some (o_answer O (match first_some [route O (st_world s) (shape_of (env_of (w_tz (st_world s))));
                                        system_route O (st_world s)] with
                      | Some z => z | None => o_utc O end) local d).
Proof. intros. rewrite (new_thread_fresh O mono s local d H), zone_at_chain. reflexivity. Qed.
