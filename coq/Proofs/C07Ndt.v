(** C07, date-times: NaiveDateTime + TimeDelta with a leap-second operand follows the timeline rules of
    the time of day, with the carry applied to the date.  The date half is C03's
    [date_add_signed_trunc] / [date_sub_signed_trunc], i.e. modulo the stated specification
    [add_days_ok] of the shared Date model's [add_days] (discharged by the calendar proofs of the
    date properties), exactly like C03's own date-time theorems. *)
From Coq Require Import ZArith List Bool Lia ZifyBool.
From V Require Import Base.Int Base.IO Base.IntLemmas Spec.Gregorian Spec.TimeOfDay Model.TimeDelta Model.DateTime Proofs.C06.
From V Require Model.Date Model.Time Proofs.Time Proofs.C03.
Import ListNotations.
Open Scope Z_scope.
Ltac Zify.zify_post_hook ::= Z.to_euclidean_division_equations.

Import Proofs.C03.   (* vdate, dn, add_days_ok, date_res, date_add_signed_trunc *)

Lemma carry_bound s f d : 0 <= s < 86400 -> 0 <= f < 2000000000 ->
  -9223372036854775807000000 <= d <= 9223372036854775807000000 ->
  let c := snd (Proofs.Time.add_result s f d) in
  c mod 86400 = 0 /\ Z.abs c <= 9223372037000000 /\
  (Z.abs (c * 1000000000) > 9223372036854775807000000 -> Z.abs (c / 86400) > 100000000000).
Proof.
  intros Hs Hf Hd. unfold Proofs.Time.add_result, tl_add, readback, leap_of, tl_pos, shift_before.
  destruct (f <? 1000000000) eqn:Ef; cbv beta iota zeta; cbn [fst snd].
  - lia.
  - repeat match goal with |- context [if ?c then _ else _] => destruct c eqn:? end;
      cbv beta iota zeta; cbn [fst snd]; lia.
Qed.

Definition ndt_leap_res (a : ndt) (t' : Time.ntime) (c : Z) (r : option ndt) : Prop :=
  match r with
  | Some b => nd_time b = t' /\ vdate (nd_date b) /\ dn (nd_date b) = dn (nd_date a) + c / 86400
  | None => dn_in_range (dn (nd_date a) + c / 86400) = false
  end.

Theorem ndt_leap_add : add_days_ok -> forall a d,
  vdate (nd_date a) -> Proofs.Time.tvalid (nd_time a) -> valid d ->
  exists r, ndt_checked_add_signed a d = Val r /\
    ndt_leap_res a (fst (Proofs.Time.add_result (Time.tsecs (nd_time a)) (Time.tfrac (nd_time a)) (ns d)))
                   (snd (Proofs.Time.add_result (Time.tsecs (nd_time a)) (Time.tfrac (nd_time a)) (ns d))) r.
Proof.
  intros Hadd a d Hd Ht Hv. unfold ndt_checked_add_signed.
  rewrite (Proofs.Time.add_spec _ d Ht Hv).
  pose proof (carry_bound _ _ (ns d) (proj1 Ht) (proj2 Ht)
                ltac:(destruct Hv as [_ Hv]; unfold in_rng, RMIN, RMAX in Hv; exact Hv)) as Hc.
  destruct (Proofs.Time.add_result (Time.tsecs (nd_time a)) (Time.tfrac (nd_time a)) (ns d)) as [t' c].
  cbv zeta in Hc. cbn [fst snd] in Hc |- *. destruct Hc as (Hm & Hb & Hbig). cbn [bind].
  pose proof (vdate_range _ Hd) as Rg.
  pose proof (try_seconds_spec c ltac:(revert Hb; unfold in_i64, in_range, i64_min, i64_max; lia)) as TS.
  destruct (try_seconds c) as [rem|].
  - destruct TS as [N V]. destruct (date_add_signed_trunc Hadd _ rem Hd V) as [r [E R]].
    unfold obind. rewrite E. cbn [bind]. rewrite N in R.
    replace (Z.quot (c * Proofs.C06.G) DAYNS) with (c / 86400) in R by (unfold Proofs.C06.G, DAYNS; lia).
    destruct r as [date|]; cbn in R |- *.
    + eexists. split; [reflexivity|]. unfold ndt_leap_res. cbn [nd_time nd_date]. split; [reflexivity|exact R].
    + eexists. split; [reflexivity|]. exact R.
  - eexists. split; [reflexivity|]. cbn.
    unfold in_rng, RMIN, RMAX, Proofs.C06.G in TS.
    assert (Z.abs (c / 86400) > 100000000000) by (apply Hbig; lia).
    unfold dn_in_range, DN_MIN, DN_MAX in *. lia.
Qed.

Theorem ndt_leap_sub : add_days_ok -> forall a d,
  vdate (nd_date a) -> Proofs.Time.tvalid (nd_time a) -> valid d ->
  exists r, ndt_checked_sub_signed a d = Val r /\
    ndt_leap_res a (fst (Proofs.Time.add_result (Time.tsecs (nd_time a)) (Time.tfrac (nd_time a)) (- ns d)))
                   (snd (Proofs.Time.add_result (Time.tsecs (nd_time a)) (Time.tfrac (nd_time a)) (- ns d))) r.
Proof.
  intros Hadd a d Hd Ht Hv. unfold ndt_checked_sub_signed.
  rewrite (Proofs.Time.sub_spec _ d Ht Hv).
  pose proof (carry_bound _ _ (- ns d) (proj1 Ht) (proj2 Ht)
                ltac:(destruct Hv as [_ Hv]; unfold in_rng, RMIN, RMAX in Hv; lia)) as Hc.
  destruct (Proofs.Time.add_result (Time.tsecs (nd_time a)) (Time.tfrac (nd_time a)) (- ns d)) as [t' c].
  unfold Proofs.Time.neg_carry. cbv zeta in Hc. cbn [fst snd] in Hc |- *. destruct Hc as (Hm & Hb & Hbig). cbn [bind].
  pose proof (vdate_range _ Hd) as Rg.
  pose proof (try_seconds_spec (- c) ltac:(revert Hb; unfold in_i64, in_range, i64_min, i64_max; lia)) as TS.
  destruct (try_seconds (- c)) as [rem|].
  - destruct TS as [N V]. destruct (date_sub_signed_trunc Hadd _ rem Hd V) as [r [E R]].
    unfold obind. rewrite E. cbn [bind]. rewrite N in R.
    replace (dn (nd_date a) - Z.quot (- c * Proofs.C06.G) DAYNS) with (dn (nd_date a) + c / 86400) in R
      by (unfold Proofs.C06.G, DAYNS; lia).
    destruct r as [date|]; cbn in R |- *.
    + eexists. split; [reflexivity|]. unfold ndt_leap_res. cbn [nd_time nd_date]. split; [reflexivity|exact R].
    + eexists. split; [reflexivity|]. exact R.
  - eexists. split; [reflexivity|]. cbn.
    unfold in_rng, RMIN, RMAX, Proofs.C06.G in TS.
    assert (Z.abs (c / 86400) > 100000000000) by (apply Hbig; lia).
    unfold dn_in_range, DN_MIN, DN_MAX in *. lia.
Qed.

(** The premise [add_days_ok] is a theorem of C03 now ([add_days_holds], from the shared calendar
    library's [C08AddDays.add_days_spec]): the unconditional forms. *)
Definition ndt_leap_add_u := ndt_leap_add add_days_holds.
Definition ndt_leap_sub_u := ndt_leap_sub add_days_holds.
(* the premises are inhabited: 2016-12-31T23:59:60.5 (leap fraction) + 1 s = 2017-01-01T00:00:00.5 *)
Definition leap_date : Z := match Date.from_yo_opt 2016 366 with Val (Some d) => d | _ => 0 end.
Lemma ndt_leap_example :
  vdate leap_date /\ Proofs.Time.tvalid (Time.mk_time 86399 1500000000) /\ valid (mk_td 1 0) /\
  exists b, ndt_checked_add_signed (mk_ndt leap_date (Time.mk_time 86399 1500000000)) (mk_td 1 0) = Val (Some b) /\
    nd_time b = Time.mk_time 0 500000000 /\ dn (nd_date b) = dn leap_date + 1.
Proof.
  split; [vm_compute; repeat split|]. split; [vm_compute; repeat split; discriminate|].
  split; [vm_compute; repeat split; discriminate|].
  eexists. split; [vm_compute; reflexivity|]. vm_compute. split; reflexivity.
Qed.
