(** C11 -- writer_shape: DateTime::to_rfc2822 (Model/Rfc2822.v write_rfc2822 over Model/Rfc3339.v
    OffsetFormat::format) produces exactly the standard form of the specification. *)
From Coq Require Import ZArith List Bool Lia ZifyBool String.
From V Require Model.Date Model.Time Model.Rfc3339.
From V Require Import Base.Int Base.IntLemmas Base.IO Base.Utf8 Gen.Rfc2822Consts Gen.Locales Model.DateTime Model.Rfc2822
  Spec.Gregorian Spec.Rfc2822.
From V Require Import Proofs.C08Sweeps Proofs.C08Date Proofs.C08Days Proofs.C08 Proofs.Date Proofs.C14Date Proofs.C04 Proofs.C11.
Import ListNotations.
Open Scope Z_scope.
Ltac Zify.zify_post_hook ::= Z.to_euclidean_division_equations.

Lemma wh w n : 0 <= n < 100 -> Rfc3339.write_hundreds w n = Some (w ++ two n).
Proof.
  intros H. unfold Rfc3339.write_hundreds, two, dig. replace (n >=? 100) with false by lia.
  rewrite Z.quot_div_nonneg, Z.rem_mod_nonneg by lia. reflexivity.
Qed.
Lemma as_u8_small v : 0 <= v <= 255 -> as_u8 v = v.
Proof. intros H. apply as_u8_id. unfold in_u8, in_range, u8_max. lia. Qed.

(** OffsetFormat { Minutes, Colons::None, no Z, Pad::Zero } on a whole-minute offset: "+hhmm" *)
Lemma offset_2822 w off : -86400 < off < 86400 -> off mod 60 = 0 ->
  Rfc3339.offset_format_format (Rfc3339.mk_of 1 0 false 1) w off =
  Val (Some (w ++ [if off <? 0 then 45 else 43] ++ two (Z.abs off / 3600) ++ two (Z.abs off / 60 mod 60))).
Proof.
  intros Ho Hm. unfold Rfc3339.offset_format_format.
  cbn [Rfc3339.of_allow_zulu Rfc3339.of_precision Rfc3339.of_colons Rfc3339.of_padding andb].
  set (a := Z.abs off).
  assert (Ha : 0 <= a < 86400 /\ a mod 60 = 0) by (unfold a; lia).
  assert (Hsign : (if off <? 0 then let* n := neg_i32 off in Val (45, n) else Val (43, off)) =
                  Val ((if off <? 0 then 45 else 43), a)).
  { destruct (off <? 0) eqn:E.
    - unfold neg_i32. rewrite chk_in by (unfold in_i32, in_range, i32_min, i32_max; lia). cbv [bind]. f_equal. f_equal. unfold a. lia.
    - f_equal. f_equal. unfold a. lia. }
  rewrite Hsign. cbv [bind]. clear Hsign.
  change (1 =? 0) with false. change ((1 =? 1) || (1 =? 3)) with true. cbv iota.
  unfold Gen.ScanTables.OF_ROUND_ADD, Gen.ScanTables.OF_SECS_PER_MINUTE.
  unfold add_i32. rewrite chk_in by (unfold in_i32, in_range, i32_min, i32_max; lia). cbv [bind].
  unfold div_i32, rem_i32. rewrite div_t_nz by lia.
  rewrite Z.quot_div_nonneg by lia.
  rewrite chk_in by (unfold in_i32, in_range, i32_min, i32_max; lia). cbv [bind].
  rewrite rem_t_nz by lia. rewrite Z.quot_div_nonneg by lia.
  replace (in_i32 ((a + 30) / 60 / 60)) with true by (unfold in_i32, in_range, i32_min, i32_max; lia). cbv [bind].
  rewrite div_t_nz by lia. rewrite Z.quot_div_nonneg by lia.
  rewrite chk_in by (unfold in_i32, in_range, i32_min, i32_max; lia). cbv [bind].
  rewrite Z.rem_mod_nonneg by lia.
  replace ((a + 30) / 60) with (a / 60) by lia.
  rewrite (as_u8_small (a / 60 mod 60)) by lia. rewrite (as_u8_small (a / 60 / 60)) by lia.
  change (1 =? 3) with false. cbn [andb]. change (0 =? 1) with false.
  change (1 =? 2) with false. change (1 =? 1) with true. cbv iota.
  replace (a / 60 / 60) with (a / 3600) by lia.
  unfold Rfc3339.obind_, Rfc3339.write_char.
  destruct (a / 3600 <? 10) eqn:E10.
  - cbn [orb]. rewrite wh by lia. f_equal. f_equal. rewrite <- !app_assoc. cbn [app]. f_equal. f_equal.
    unfold two, dig. replace (a / 3600 / 10) with 0 by lia. replace (a / 3600 mod 10) with (a / 3600) by lia. reflexivity.
  - rewrite wh by lia. cbn [orb]. rewrite wh by lia. f_equal. f_equal. rewrite <- !app_assoc. reflexivity.
Qed.

(** * Names *)
Lemma weekday_name wd : 0 <= wd <= 6 ->
  (let* nfs := Date.wd_days_since wd WD_SUN in index LOC_SHORT_WEEKDAYS (as_usize nfs)) = Val (nth_name DAY_NAMES wd).
Proof.
  intros H. assert (Hc : wd = 0 \/ wd = 1 \/ wd = 2 \/ wd = 3 \/ wd = 4 \/ wd = 5 \/ wd = 6) by lia.
  repeat (destruct Hc as [->|Hc]; [vm_compute; reflexivity|]). subst. vm_compute. reflexivity.
Qed.
Lemma month_name_idx m : 1 <= m <= 12 ->
  (let* m0 := sub_u32 m 1 in index LOC_SHORT_MONTHS (as_usize m0)) = Val (nth_name MONTH_NAMES (m - 1)).
Proof.
  intros H. assert (Hc : m = 1 \/ m = 2 \/ m = 3 \/ m = 4 \/ m = 5 \/ m = 6 \/ m = 7 \/ m = 8 \/ m = 9 \/ m = 10 \/ m = 11 \/ m = 12) by lia.
  repeat (destruct Hc as [->|Hc]; [vm_compute; reflexivity|]). subst. vm_compute. reflexivity.
Qed.

(** the standard form from the wall-clock fields *)
Definition local_text (ly lo ls frac off : Z) : bytes :=
  let '(lm, ld) := md_of_ordinal (is_leap ly) lo in
  let leap := 1000000000 <=? frac in
  let a := Z.abs off in
  nth_name DAY_NAMES (weekday_of_dn (dn_of_yo ly lo)) ++ [44; 32]
  ++ (if 10 <=? ld then two ld else [dig ld]) ++ [32]
  ++ nth_name MONTH_NAMES (lm - 1) ++ [32] ++ four ly ++ [32]
  ++ two (ls / 3600) ++ [58] ++ two (ls / 60 mod 60) ++ [58] ++ two (ls mod 60 + (if leap then 1 else 0)) ++ [32]
  ++ [if off <? 0 then 45 else 43] ++ two (a / 3600) ++ two (a / 60 mod 60).

Lemma write_local ly lo d t off : repr ly lo d -> 0 <= ly <= 9999 -> time_ok t ->
  -86400 < off < 86400 -> off mod 60 = 0 ->
  write_rfc2822 [] (mk_ndt d t) off = Val (Some (local_text ly lo (Time.tsecs t) (Time.tfrac t) off)).
Proof.
  intros H Hy [Hs Hf] Ho Hm.
  destruct (repr_md _ _ _ H) as (Ey & Eo & Emo & Ed & Ew & _ & Hmb & Hdb & _).
  pose proof (days_in_month_bounds (is_leap ly) (month_of ly lo)) as Hdim.
  pose proof (weekday_bounds (dn_of_yo ly lo)) as Hwb.
  unfold write_rfc2822. cbn [nd_date nd_time]. rewrite Ey. unfold W2_YEAR_LO, W2_YEAR_HI.
  replace ((0 <=? ly) && (ly <=? 9999)) with true by lia. cbn [negb].
  rewrite Ew. cbv [bind].
  pose proof (weekday_name _ Hwb) as Hwn. cbv [bind] in Hwn.
  destruct (Date.wd_days_since (weekday_of_dn (dn_of_yo ly lo)) WD_SUN) as [nfs| |] eqn:Ends; try discriminate.
  rewrite Hwn. cbv [Rfc3339.obind_ write_str]. cbn [app].
  rewrite Ed. cbv [bind].
  set (ld := day_of ly lo) in *. set (lm := month_of ly lo) in *.
  unfold W2_DAY_PAD_BELOW.
  assert (Hday : (if ld <? 10 then let* c := add_u8 48 (as_u8 ld) in Val (Rfc3339.write_char (nth_name DAY_NAMES (weekday_of_dn (dn_of_yo ly lo)) ++ W2_AFTER_WEEKDAY) c)
                  else Val (Rfc3339.write_hundreds (nth_name DAY_NAMES (weekday_of_dn (dn_of_yo ly lo)) ++ W2_AFTER_WEEKDAY) (as_u8 ld)))
                 = Val (Some ((nth_name DAY_NAMES (weekday_of_dn (dn_of_yo ly lo)) ++ W2_AFTER_WEEKDAY) ++ (if 10 <=? ld then two ld else [dig ld])))).
  { rewrite as_u8_small by lia. destruct (ld <? 10) eqn:E.
    - unfold add_u8. rewrite chk_in by (unfold in_u8, in_range, u8_max; lia). cbv [bind Rfc3339.write_char].
      replace (10 <=? ld) with false by lia. reflexivity.
    - rewrite wh by lia. replace (10 <=? ld) with true by lia. reflexivity. }
  cbv [bind] in Hday. rewrite Hday. clear Hday. cbv [bind Rfc3339.obind_ Rfc3339.write_char].
  rewrite Emo. cbv [bind].
  pose proof (month_name_idx lm Hmb) as Hmn. cbv [bind] in Hmn.
  destruct (sub_u32 lm 1) as [m0| |] eqn:Em0; try discriminate.
  rewrite Hmn. cbv [Rfc3339.obind_ write_str Rfc3339.write_char].
  unfold W2_YEAR_DIV, W2_YEAR_MOD, div_i32, rem_i32. rewrite div_t_nz by lia. rewrite Z.quot_div_nonneg by lia.
  rewrite chk_in by (unfold in_i32, in_range, i32_min, i32_max; lia). cbv [bind].
  rewrite (as_u8_small (ly / 100)) by lia. rewrite wh by lia. cbv [Rfc3339.obind_].
  rewrite rem_t_nz by lia. rewrite Z.quot_div_nonneg by lia.
  replace (in_i32 (ly / 100)) with true by (unfold in_i32, in_range, i32_min, i32_max; lia). cbv [bind].
  rewrite Z.rem_mod_nonneg by lia. rewrite (as_u8_small (ly mod 100)) by lia. rewrite wh by lia. cbv [Rfc3339.obind_].
  unfold Time.hms, Time.urem, Time.udiv. cbv zeta.
  rewrite !Z.quot_div_nonneg by lia. rewrite !Z.rem_mod_nonneg by lia.
  set (ls := Time.tsecs t) in *. set (fr := Time.tfrac t) in *.
  rewrite (as_u8_small (ls / 60 / 60)) by lia. rewrite wh by lia. cbv [Rfc3339.obind_].
  rewrite (as_u8_small (ls / 60 mod 60)) by lia. rewrite wh by lia. cbv [Rfc3339.obind_].
  unfold Time.nanosecond. fold fr. unfold W2_LEAP_DIV, div_u32. rewrite div_t_nz by lia. rewrite Z.quot_div_nonneg by lia.
  rewrite chk_in by (unfold in_u32, in_range, u32_max; lia). cbv [bind].
  unfold add_u32. rewrite chk_in by (unfold in_u32, in_range, u32_max; lia). cbv [bind].
  rewrite (as_u8_small (ls mod 60 + fr / 1000000000)) by lia. rewrite wh by lia. cbv [Rfc3339.obind_].
  unfold W2_OF_PRECISION, W2_OF_COLONS, W2_OF_ALLOW_ZULU, W2_OF_PADDING. change (0 =? 1) with false.
  rewrite offset_2822 by assumption. f_equal. f_equal.
  unfold local_text. fold lm ld.
  assert (Emd : md_of_ordinal (is_leap ly) lo = (lm, ld)).
  { unfold lm, ld, month_of, day_of. destruct (md_of_ordinal (is_leap ly) lo); reflexivity. }
  rewrite Emd. cbv zeta.
  replace (ls mod 60 + fr / 1000000000) with (ls mod 60 + (if 1000000000 <=? fr then 1 else 0)) by (destruct (1000000000 <=? fr) eqn:E; lia).
  replace (ls / 60 / 60) with (ls / 3600) by lia.
  assert (Hfour : two (ly / 100) ++ two (ly mod 100) = four ly).
  { unfold two, four, dig. cbn [app].
    assert (E1 : ly / 100 / 10 = ly / 1000) by lia. assert (E2 : ly mod 100 / 10 = ly / 10 mod 10) by lia.
    assert (E3 : ly mod 100 mod 10 = ly mod 10) by lia. rewrite E1, E2, E3. reflexivity. }
  unfold W2_AFTER_WEEKDAY. rewrite <- !app_assoc. cbn [app]. rewrite <- Hfour. rewrite <- !app_assoc. reflexivity.
Qed.

(** * writer_shape *)
Lemma year_range_dn n : 0 <= fst (yo_of_dn n) <= 9999 -> dn_in_range n = true.
Proof.
  intros H. destruct (yo_of_dn_valid n) as [Hv Hd]. rewrite <- Hd. rewrite dn_in_range_iff by exact Hv.
  unfold year_in_range, MIN_YEAR, MAX_YEAR. lia.
Qed.

Theorem writer_shape y o d t off : repr y o d -> time_ok t -> -86400 < off < 86400 -> off mod 60 = 0 ->
  0 <= fst (yo_of_dn (wall_dn y o (Time.tsecs t) off)) <= 9999 ->
  to_rfc2822 (mk_dtz (mk_ndt d t) off) = Val (standard_text false y o (Time.tsecs t) (Time.tfrac t) off).
Proof.
  intros H Ht Ho Hm Hy. set (n := wall_dn y o (Time.tsecs t) off) in *.
  pose proof (year_range_dn n Hy) as Hn.
  unfold to_rfc2822, overflowing_naive_local, ndt_overflowing_add_offset. cbn [dz_utc dz_off nd_time nd_date].
  rewrite overflowing_add_offset_spec by (assumption || exact Ho). cbv [bind].
  set (days := (Time.tsecs t + off) / 86400) in *.
  assert (Hd : -1 <= days <= 1) by (unfold days; destruct Ht as [Hs _]; lia).
  assert (Hn' : n = dn_of_yo y o + days) by reflexivity.
  assert (Hshift : shift_date_overflowing d days = Val (date_of_dn n)).
  { unfold shift_date_overflowing. destruct (days =? -1) eqn:E1.
    - rewrite (pred_opt_spec y o d H). replace (dn_of_yo y o - 1) with n by lia. rewrite Hn. reflexivity.
    - destruct (days =? 1) eqn:E2.
      + rewrite (succ_opt_spec y o d H). replace (dn_of_yo y o + 1) with n by lia. rewrite Hn. reflexivity.
      + replace n with (dn_of_yo y o) by lia. rewrite (date_of_dn_of_repr y o d H). reflexivity. }
  rewrite Hshift. cbv [bind].
  pose proof (date_of_dn_repr n Hn) as Hr.
  assert (Htok : time_ok (Time.mk_time ((Time.tsecs t + off) mod 86400) (Time.tfrac t))).
  { destruct Ht as [Hs Hf]. split; cbn [Time.tsecs Time.tfrac]; lia. }
  rewrite (write_local _ _ _ _ off Hr Hy Htok Ho Hm). cbv [unwrap_r bind unwrap]. f_equal.
  cbn [Time.tsecs Time.tfrac]. unfold standard_text, local_text, wall_secs. fold n.
  destruct (yo_of_dn_valid n) as [Hv Hdn].
  destruct (yo_of_dn n) as [ly lo] eqn:Eyo. cbn [fst snd] in *. rewrite Hdn.
  destruct (md_of_ordinal (is_leap ly) lo) as [lm ld]. cbn [orb]. reflexivity.
Qed.

(** the dispatcher output: r2.write / r2.fmt print the standard text *)
Corollary writer_shape_run y o d t off : repr y o d -> time_ok t -> -86400 < off < 86400 -> off mod 60 = 0 ->
  0 <= fst (yo_of_dn (wall_dn y o (Time.tsecs t) off)) <= 9999 ->
  val_of_R VStr (to_rfc2822 (mk_dtz (mk_ndt d t) off)) = VStr (standard_text false y o (Time.tsecs t) (Time.tfrac t) off).
Proof. intros. rewrite (writer_shape y o) by assumption. reflexivity. Qed.

(** outside 0..9999 (but inside the range of dates) the documented panic *)
Theorem writer_panics y o d t off : repr y o d -> time_ok t -> -86400 < off < 86400 ->
  dn_in_range (wall_dn y o (Time.tsecs t) off) = true ->
  ~ (0 <= fst (yo_of_dn (wall_dn y o (Time.tsecs t) off)) <= 9999) ->
  to_rfc2822 (mk_dtz (mk_ndt d t) off) = Panic.
Proof.
  intros H Ht Ho Hn Hy. set (n := wall_dn y o (Time.tsecs t) off) in *.
  unfold to_rfc2822, overflowing_naive_local, ndt_overflowing_add_offset. cbn [dz_utc dz_off nd_time nd_date].
  rewrite overflowing_add_offset_spec by (assumption || exact Ho). cbv [bind].
  set (days := (Time.tsecs t + off) / 86400) in *.
  assert (Hd : -1 <= days <= 1) by (unfold days; destruct Ht as [Hs _]; lia).
  assert (Hn' : n = dn_of_yo y o + days) by reflexivity.
  assert (Hshift : shift_date_overflowing d days = Val (date_of_dn n)).
  { unfold shift_date_overflowing. destruct (days =? -1) eqn:E1.
    - rewrite (pred_opt_spec y o d H). replace (dn_of_yo y o - 1) with n by lia. rewrite Hn. reflexivity.
    - destruct (days =? 1) eqn:E2.
      + rewrite (succ_opt_spec y o d H). replace (dn_of_yo y o + 1) with n by lia. rewrite Hn. reflexivity.
      + replace n with (dn_of_yo y o) by lia. rewrite (date_of_dn_of_repr y o d H). reflexivity. }
  rewrite Hshift. cbv [bind].
  rewrite write_year_guard; [reflexivity|]. cbn [nd_date].
  pose proof (date_of_dn_repr n Hn) as Hr. destruct (repr_md _ _ _ Hr) as (A & _). rewrite A. exact Hy.
Qed.
