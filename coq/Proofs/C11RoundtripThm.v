(** C11 -- roundtrip: DateTime::parse_from_rfc2822(&dt.to_rfc2822()) is dt to whole seconds (leap
    second and offset kept), from writer_shape (Proofs/C11Write.v), reader_complete
    (Proofs/C11Reader.v) and the specification's own round trip (Proofs/C11Roundtrip.v). *)
From Coq Require Import ZArith List Bool Lia ZifyBool String.
From V Require Model.Date Model.Time Model.Parsed.
From V Require Import Base.Int Base.IntLemmas Base.IO Base.Utf8 Model.Scan Model.DateTime Model.C11
  Spec.Gregorian Spec.Rfc2822 Judge.C11 Proofs.Utf8 Proofs.C08Sweeps Proofs.C04 Proofs.C11Reader Proofs.C11Write Proofs.C11Roundtrip.
Import ListNotations.
Open Scope Z_scope.
Ltac Zify.zify_post_hook ::= Z.to_euclidean_division_equations.

Theorem roundtrip y o d t off : repr y o d -> time_ok t ->
  (Time.tfrac t < 1000000000 \/ Time.tsecs t mod 60 = 59) ->
  -86400 < off < 86400 -> off mod 60 = 0 ->
  0 <= fst (yo_of_dn (wall_dn y o (Time.tsecs t) off)) <= 9999 ->
  r2_rt (mk_dtz (mk_ndt d t) off) = enc5 (y, o, Time.tsecs t, whole (Time.tfrac t), off).
Proof.
  intros H Ht Hleap Ho Hm Hy. destruct H as (Hyr & Hyo & Hd). destruct Ht as [Hs Hf].
  unfold r2_rt. rewrite (writer_shape y o d t off) by (repeat split; assumption || lia). cbv [bind val_of_R].
  set (secs := Time.tsecs t) in *. set (frac := Time.tfrac t) in *.
  pose proof (recognise_standard y o secs frac off Hs Hf Hleap Ho Hm Hy) as Hrec.
  destruct (standard_valid y o secs frac off Hyo Hyr Hs Hf Hleap Ho Hm Hy) as (Hval & Hwd & Hrep).
  pose proof (standard_denotes y o secs frac off Hyo Hs Hf Hleap Ho Hm Hy) as Hden.
  rewrite <- Hden. apply reader_complete; try assumption.
  - (* ASCII *)
    rewrite (std_text y o secs frac off Hy).
    destruct (local_facts y o secs frac off Hs Hf Hleap Ho Hy) as (_ & _ & Hmm & Hdd & _ & Hls).
    pose proof (Proofs.C08Date.days_in_month_bounds (is_leap (fst (yo_of_dn (wall_dn y o secs off))))
                 (fst (md_of_ordinal (is_leap (fst (yo_of_dn (wall_dn y o secs off)))) (snd (yo_of_dn (wall_dn y o secs off)))))).
    match goal with |- utf8_valid ?s = true => rewrite <- (app_nil_r s) end.
    rewrite utf8_valid_app_ascii; [reflexivity|].
    apply std_ascii; [unfold weekday_of_dn; lia|lia|lia|lia|lia|lia|destruct (1000000000 <=? frac); lia|lia|lia].
  - rewrite (std_text y o secs frac off Hy).
    destruct (local_facts y o secs frac off Hs Hf Hleap Ho Hy) as (_ & _ & Hmm & Hdd & _ & Hls).
    pose proof (Proofs.C08Date.days_in_month_bounds (is_leap (fst (yo_of_dn (wall_dn y o secs off))))
                 (fst (md_of_ordinal (is_leap (fst (yo_of_dn (wall_dn y o secs off)))) (snd (yo_of_dn (wall_dn y o secs off)))))).
    match goal with |- blen ?s <= _ =>
      assert (Hlen : (List.length s <= 40)%nat); [|unfold blen, u64_max; lia] end.
    apply std_ascii; [unfold weekday_of_dn; lia|lia|lia|lia|lia|lia|destruct (1000000000 <=? frac); lia|lia|lia].
Qed.
