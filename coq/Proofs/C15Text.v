(** C15 -- the text writers never trap, for EVERY well-formed value: the RFC 3339 renderers
    (to_rfc3339, to_rfc3339_opts: any year incl. the one-day headroom, any offset incl. seconds, any
    leap-second fraction, every SecondsFormat) and the hand-written Debug / Display impls of
    NaiveDate, NaiveTime, NaiveDateTime, FixedOffset, Utc and DateTime<Tz>.
    Built on the writer lemmas of C09 (Proofs/C09Show.v ...), C10 (Proofs/C10Writer.v) and C20
    (Proofs/C20Text.v: [date_fields], [local_any], [offset_format_any]). *)
From Coq Require Import ZArith List Bool Lia ZifyBool String.
From V Require Import Base.Int Base.IntLemmas Base.IO Base.Utf8 Gen.TextForms Gen.ScanTables
  Model.Scan Model.Rfc3339 Model.Show Model.DateTime Spec.Gregorian
  Proofs.Decimal Proofs.C09Show Proofs.C09Time Proofs.C09Date Proofs.C09DateTime Proofs.C09Zoned Proofs.C09.
From V Require Model.Date Model.Time Proofs.Date Proofs.C08 Proofs.C14 Proofs.C10 Proofs.C10Writer Proofs.C20Text
  Proofs.C04 Proofs.C04Date Proofs.C15.
Import ListNotations.
Open Scope Z_scope.
Ltac Zify.zify_post_hook ::= Z.to_euclidean_division_equations.
Import Proofs.Date.
Import Proofs.C20Text.
Import Proofs.C15.

(** * the wall clock of every well-formed date-time: a date word with known fields (a represented
      date or one of the two headroom words) and a valid time of day *)
Lemma local_of_dtz_ok a : Proofs.C04.dtz_ok a ->
  exists d' y' m' dd' t', overflowing_naive_local a = Val (mk_ndt d' t') /\ date_fields d' y' m' dd' /\ tvalid t'.
Proof.
  intros [[Hd Ht] Ho]. destruct (Proofs.C04Date.repr_of_nominal _ Hd) as (y & o & H).
  destruct a as [[d t] off]. cbn [dz_utc dz_off nd_date nd_time] in *.
  destruct (local_any y o d t off H Ht Ho) as (d' & y' & m' & dd' & Hl & Hf).
  eexists d', y', m', dd', _. split; [exact Hl|]. split; [exact Hf|].
  destruct Ht as [Hs Hfr]. unfold Proofs.C04.off_ok in Ho. split; cbn [Time.tsecs Time.tfrac]; [lia|exact Hfr].
Qed.

(** * write_rfc3339 is total: every SecondsFormat (0 Secs, 1 Millis, 2 Micros, 3 Nanos, 4 AutoSi) *)
Lemma write_rfc3339_any w y m dd d t off sf uz : date_fields d y m dd -> tvalid t ->
  -86400 < off < 86400 -> 0 <= sf <= 4 ->
  exists s, write_rfc3339 w (mk_ndt d t) off sf uz = Val (Some s).
Proof.
  intros (E1 & E3 & E4 & Hyb & Hm & Hdd) [Hs Hf] Ho Hsf.
  unfold write_rfc3339. cbn [nd_date nd_time]. rewrite E1, E3, E4.
  unfold Time.nanosecond, Time.hms, Time.udiv, Time.urem.
  set (s := Time.tsecs t) in *. set (f := Time.tfrac t) in *.
  change W3_YEAR_LO with 0. change W3_YEAR_HI with 9999. change W3_LEAP_NANO with 1000000000.
  rewrite !Z.quot_div_nonneg, !Z.rem_mod_nonneg by lia.
  replace (s / 60 / 60) with (s / 3600) by lia.
  assert (Hh : 0 <= s / 3600 < 24) by lia.
  assert (Hmi : 0 <= s / 60 mod 60 < 60) by lia.
  assert (Hsec : 0 <= s mod 60 < 60) by lia.
  assert (Edate : forall k : bytes -> W,
    (let* wy := (if (0 <=? y) && (y <=? 9999) then
         let* q := div_i32 y 100 in let* r := rem_i32 y 100 in
         Val (match write_hundreds w (as_u8 q) with None => None | Some w0 => write_hundreds w0 (as_u8 r) end)
       else Val (Some (w ++ fmt_plus_05 y))) in
     let! w0 := wy in k w0) = k (w ++ year_txt y)).
  { intros k. unfold year_txt. destruct ((0 <=? y) && (y <=? 9999)) eqn:E.
    - rewrite C14.div_i32_100, C14.rem_i32_100 by (unfold in_i32, in_range, i32_min, i32_max; lia). cbn [bind].
      rewrite Z.quot_div_nonneg, Z.rem_mod_nonneg by lia.
      rewrite !as_u8_small by lia.
      rewrite write_hundreds_two by lia. rewrite write_hundreds_two by lia. cbn [bind obind_].
      rewrite <- low_digits_4_split by lia. rewrite <- !app_assoc. reflexivity.
    - cbn [bind obind_]. unfold fmt_plus_05. reflexivity. }
  rewrite Edate. unfold write_char. cbn [obind_ bind].
  rewrite !as_u8_small by lia.
  rewrite write_hundreds_two by lia. cbn [obind_ bind].
  rewrite write_hundreds_two by lia. cbn [obind_ bind].
  set (leap := 1000000000 <=? f). set (sub := if leap then f - 1000000000 else f).
  assert (Hsn : (if f >=? 1000000000
                 then let* s0 := add_u32 (s mod 60) 1 in let* n := sub_u32 f 1000000000 in Val (s0, n)
                 else Val (s mod 60, f)) = Val (s mod 60 + (if leap then 1 else 0), sub)).
  { subst sub leap. destruct (f >=? 1000000000) eqn:E.
    - replace (1000000000 <=? f) with true by lia. unfold add_u32, sub_u32.
      rewrite chk_in by (unfold in_u32, in_range, u32_max; lia). cbn [bind].
      rewrite chk_in by (unfold in_u32, in_range, u32_max; lia). reflexivity.
    - replace (1000000000 <=? f) with false by lia. f_equal. f_equal. lia. }
  rewrite Hsn. cbn [bind]. clear Hsn.
  assert (Hsub : 0 <= sub < 1000000000) by (subst sub leap; destruct (1000000000 <=? f) eqn:E; lia).
  assert (Hsec' : 0 <= s mod 60 + (if leap then 1 else 0) <= 60) by (subst leap; destruct (1000000000 <=? f) eqn:E; lia).
  rewrite !as_u8_small by lia.
  rewrite write_hundreds_two by lia. cbn [obind_ bind].
  rewrite write_hundreds_two by lia. cbn [obind_ bind].
  rewrite write_hundreds_two by lia. cbn [obind_ bind].
  match goal with |- context [write_frac ?w0 W3_NANOS_WIDTH sub] =>
    pose proof (Proofs.C10Writer.ws_expr_ok w0 sf sub Hsub Hsf) as Hws end.
  unfold Proofs.C10Writer.ws_expr in Hws. rewrite Hws. clear Hws. cbn [bind obind_].
  rewrite offset_format_any by exact Ho. eexists. reflexivity.
Qed.

(** * DateTime::to_rfc3339 / to_rfc3339_opts return for EVERY well-formed date-time *)
Lemma to_rfc3339_total a : Proofs.C04.dtz_ok a -> returns (Model.Rfc3339.to_rfc3339 a).
Proof.
  intros Ha. destruct (local_of_dtz_ok a Ha) as (d' & y' & m' & dd' & t' & El & Hf & Ht).
  unfold Model.Rfc3339.to_rfc3339. rewrite El. cbn [bind].
  destruct (write_rfc3339_any [] y' m' dd' d' t' (dz_off a) 4 false Hf Ht (proj2 Ha) ltac:(lia)) as (s & E).
  rewrite E. split; discriminate.
Qed.
Lemma to_rfc3339_opts_total a sf uz : Proofs.C04.dtz_ok a -> 0 <= sf <= 4 ->
  returns (Model.Rfc3339.to_rfc3339_opts a sf uz).
Proof.
  intros Ha Hsf. destruct (local_of_dtz_ok a Ha) as (d' & y' & m' & dd' & t' & El & Hf & Ht).
  unfold Model.Rfc3339.to_rfc3339_opts. rewrite El. cbn [bind].
  destruct (write_rfc3339_any [] y' m' dd' d' t' (dz_off a) sf uz Hf Ht (proj2 Ha) Hsf) as (s & E).
  rewrite E. split; discriminate.
Qed.

(** * Debug / Display *)
(* NaiveDate: any date word with known fields -- the represented dates and the two headroom words *)
Lemma date_debug_any w d y m dd : date_fields d y m dd -> date_debug w d = wok (w ++ date_txt y m dd).
Proof.
  intros (E1 & E3 & E4 & Hyb & Hm & Hdd).
  unfold date_debug. rewrite E1.
  unfold Date.d_month in E3. unfold Date.d_day in E4.
  destruct (Date.d_mdf d) as [mdf| |]; try discriminate. cbn [bind] in *.
  injection E3 as E3. injection E4 as E4. rewrite E3, E4.
  change SH_YEAR_LO with 0. change SH_YEAR_HI with 9999. change SH_DATE_SEP1 with 45. change SH_DATE_SEP2 with 45.
  unfold date_txt, year_txt, wseq, wok, write_char.
  destruct ((0 <=? y) && (y <=? 9999)) eqn:E.
  - rewrite C14.div_i32_100, C14.rem_i32_100 by (unfold in_i32, in_range, i32_min, i32_max; lia). cbn [bind].
    rewrite Z.quot_div_nonneg, Z.rem_mod_nonneg by lia.
    rewrite !as_u8_small by lia.
    rewrite write_hundreds_two by lia. rewrite write_hundreds_two by lia. cbn [bind].
    rewrite write_hundreds_two by lia. cbn [bind]. rewrite write_hundreds_two by lia.
    rewrite <- low_digits_4_split by lia. rewrite <- !app_assoc. reflexivity.
  - cbn [bind]. rewrite !as_u8_small by lia.
    rewrite write_hundreds_two by lia. cbn [bind]. rewrite write_hundreds_two by lia.
    unfold fmt_plus_05. rewrite <- !app_assoc. reflexivity.
Qed.
(* FixedOffset: every offset strictly inside +-24 h, seconds included *)
Lemma fixed_debug_any w off : -86400 < off < 86400 -> exists txt, fixed_debug w off = wok (w ++ txt).
Proof.
  intros Hr. unfold fixed_debug.
  assert (Hgen : forall sign a, 0 <= a < 86400 -> exists txt,
    (let* sec := rem_euclid in_i32 a 60 in
     let* mins := div_euclid in_i32 a 60 in
     let* min := rem_euclid in_i32 mins 60 in
     let* hour := div_euclid in_i32 mins 60 in
     if sec =? 0 then wok (w ++ [sign] ++ fmt_i32_02 hour ++ [58] ++ fmt_i32_02 min)
     else wok (w ++ [sign] ++ fmt_i32_02 hour ++ [58] ++ fmt_i32_02 min ++ [58] ++ fmt_i32_02 sec)) = wok (w ++ txt)).
  { intros sign a Ha.
    rewrite !rem_euclid_pos, !div_euclid_pos by lia.
    replace (in_i32 (a / 60)) with true by (symmetry; apply in_i32_iff; lia). cbn [bind].
    rewrite chk_in by (apply in_i32_iff; lia). cbn [bind].
    rewrite rem_euclid_pos, div_euclid_pos by lia.
    replace (in_i32 (a / 60 / 60)) with true by (symmetry; apply in_i32_iff; lia). cbn [bind].
    rewrite chk_in by (apply in_i32_iff; lia). cbn [bind].
    destruct (a mod 60 =? 0); eexists; reflexivity. }
  destruct (off <? 0) eqn:E.
  - unfold neg_i32. rewrite chk_in by (apply in_i32_iff; lia). cbn [bind]. apply Hgen; lia.
  - cbn [bind]. apply Hgen; lia.
Qed.
Lemma returns_wok w : returns (to_text (wok w)).
Proof. split; discriminate. Qed.

Lemma show_date_total d : date_valid d -> returns (Model.Show.to_text (Model.Show.date_debug [] d)) /\ returns (Model.Show.to_text (Model.Show.date_display [] d)).
Proof.
  intros (y & o & H). unfold date_display. rewrite (date_debug_text [] y o d H). split; apply returns_wok.
Qed.
Lemma show_time_total t : time_valid t -> returns (Model.Show.to_text (Model.Show.time_debug [] t)) /\ returns (Model.Show.to_text (Model.Show.time_display [] t)).
Proof. intros H. unfold time_display. rewrite (time_debug_text [] t H). split; apply returns_wok. Qed.
Lemma show_ndt_total a : Proofs.C04.ndt_ok a -> returns (Model.Show.to_text (Model.Show.ndt_debug [] a)) /\ returns (Model.Show.to_text (Model.Show.ndt_display [] a)).
Proof.
  intros [Hd Ht]. destruct (Proofs.C04Date.repr_of_nominal _ Hd) as (y & o & H). destruct a as [d t]. cbn [nd_date nd_time] in *.
  rewrite (ndt_debug_text [] y o d t H Ht), (ndt_display_text [] y o d t H Ht). split; apply returns_wok.
Qed.
Lemma show_fixed_offset_total off : Proofs.C04.off_ok off ->
  returns (Model.Show.to_text (Model.Show.fixed_debug [] off)) /\ returns (Model.Show.to_text (Model.Show.fixed_display [] off)).
Proof. intros H. unfold fixed_display. destruct (fixed_debug_any [] off H) as (txt & ->). split; apply returns_wok. Qed.
Lemma show_utc_total : returns (Model.Show.to_text (Model.Show.utc_debug [])) /\ returns (Model.Show.to_text (Model.Show.utc_display [])).
Proof. split; apply returns_wok. Qed.
Lemma ndt_debug_any w d y m dd t : date_fields d y m dd -> tvalid t ->
  ndt_debug w (mk_ndt d t) = wok (w ++ ndt_txt 84 y m dd (Time.tsecs t) (Time.tfrac t)).
Proof.
  intros H Ht. unfold ndt_debug, ndt_txt. cbn [nd_date nd_time].
  rewrite (date_debug_any w d y m dd H). unfold wseq, wok. cbn [bind]. unfold write_char. cbn [bind].
  rewrite time_debug_text by exact Ht. unfold wok. change SH_NDT_DEBUG_SEP with 84.
  rewrite <- !app_assoc. reflexivity.
Qed.
Lemma ndt_display_any w d y m dd t : date_fields d y m dd -> tvalid t ->
  ndt_display w (mk_ndt d t) = wok (w ++ ndt_txt 32 y m dd (Time.tsecs t) (Time.tfrac t)).
Proof.
  intros H Ht. unfold ndt_display, ndt_txt, date_display, time_display. cbn [nd_date nd_time].
  rewrite (date_debug_any w d y m dd H). unfold wseq, wok. cbn [bind]. unfold write_char. cbn [bind].
  rewrite time_debug_text by exact Ht. unfold wok. change SH_NDT_DISPLAY_SEP with 32.
  rewrite <- !app_assoc. reflexivity.
Qed.
(* DateTime<Tz> ([utc]: Tz = Utc): any wall clock (also one day outside the date range), any offset *)
Lemma show_dtz_total utc a : Proofs.C04.dtz_ok a ->
  returns (Model.Show.to_text (Model.Show.dtz_debug utc [] a)) /\ returns (Model.Show.to_text (Model.Show.dtz_display utc [] a)).
Proof.
  intros Ha. destruct (local_of_dtz_ok a Ha) as (d' & y' & m' & dd' & t' & El & Hf & Ht).
  unfold dtz_debug, dtz_display. rewrite El. cbn [bind].
  rewrite (ndt_debug_any [] d' y' m' dd' t' Hf Ht), (ndt_display_any [] d' y' m' dd' t' Hf Ht).
  unfold wseq, wok. cbn [bind]. unfold write_char. cbn [bind].
  destruct utc.
  - unfold utc_debug, utc_display. split; apply returns_wok.
  - unfold fixed_display. split.
    + match goal with |- returns (to_text (fixed_debug ?w1 _)) => destruct (fixed_debug_any w1 (dz_off a) (proj2 Ha)) as (x1 & E1) end.
      rewrite E1. apply returns_wok.
    + match goal with |- returns (to_text (fixed_debug ?w1 _)) => destruct (fixed_debug_any w1 (dz_off a) (proj2 Ha)) as (x1 & E1) end.
      rewrite E1. apply returns_wok.
Qed.

(** * the wide hypotheses are inhabited: MAX_UTC's last second with a leap-second fraction seen from
      +02:00 (the wall clock is one day outside the date range), and 2016-12-31T23:59:60.5 *)
From V Require Model.Round Model.TimeDelta Proofs.C17 Proofs.C07Ndt.
Definition z_wide : dtz := mk_dtz (mk_ndt Model.Date.D_MAX (Time.mk_time 86399 1999999999)) 7200.
Definition l_wide : ndt := mk_ndt Proofs.C07Ndt.leap_date (Time.mk_time 86399 1500000000).
Lemma wide_hypotheses_inhabited :
  Proofs.C04.dtz_ok z_wide /\ Proofs.C04.in_rng (Proofs.C04.wall z_wide) = false /\
  Model.Rfc3339.to_rfc3339 z_wide = Val (B"+262143-01-01T01:59:60.999999999+02:00") /\
  Model.Rfc3339.to_rfc3339_opts z_wide 1 true = Val (B"+262143-01-01T01:59:60.999+02:00") /\
  Model.Show.to_text (Model.Show.dtz_display false [] z_wide) = Val (B"+262143-01-01 01:59:60.999999999 +02:00") /\
  Proofs.C17.dz_op Proofs.C17.MRound z_wide (Model.TimeDelta.mk_td 3600 0) = Val (inr Model.Round.TimestampExceedsLimit) /\
  Proofs.C04.ndt_ok l_wide /\
  Model.DateTime.dt_timestamp_nanos_opt l_wide = Val (Some 1483228800500000000) /\
  Proofs.C17.ndt_op Proofs.C17.MTrunc l_wide (Model.TimeDelta.mk_td 3600 0)
    = Val (inl (Model.DateTime.mk_ndt Proofs.C07Ndt.leap_date (Model.Time.mk_time 86399 1000000000))).
Proof.
  assert (N1 : Proofs.C04.nominal Model.Date.D_MAX) by (exists 262142, 365; vm_compute; repeat split; reflexivity).
  assert (N2 : Proofs.C04.nominal Proofs.C07Ndt.leap_date) by (exists 2016, 366; vm_compute; repeat split; reflexivity).
  split; [split; [split; [exact N1|vm_compute; repeat split; discriminate]|vm_compute; split; reflexivity]|].
  split; [vm_compute; reflexivity|]. split; [vm_compute; reflexivity|]. split; [vm_compute; reflexivity|].
  split; [vm_compute; reflexivity|]. split; [vm_compute; reflexivity|].
  split; [split; [exact N2|vm_compute; repeat split; discriminate]|].
  split; vm_compute; reflexivity.
Qed.
