(** Lemmas about the NaiveTime model (Model/Time.v): it computes the time-of-day mathematics of
    Spec/TimeOfDay.v, never traps, and keeps the representation invariant. *)
From Coq Require Import ZArith List Bool Lia ZifyBool String.
From V Require Import Base.Int Base.IntLemmas Base.IO Gen.TimeDelta Model.TimeDelta Model.Time Spec.TimeOfDay Proofs.C06.
Import ListNotations.
Open Scope Z_scope.
Ltac Zify.zify_post_hook ::= Z.to_euclidean_division_equations.

(** representation invariant of NaiveTime, leap representation allowed on any second *)
Definition tvalid (t : ntime) : Prop := 0 <= tsecs t < 86400 /\ 0 <= tfrac t < 2000000000.

Create HintDb tm.
#[export] Hint Unfold from_hms_nano_opt from_hms_opt from_hms_milli_opt from_hms_micro_opt
  from_num_seconds_from_midnight_opt hms hour minute second nanosecond num_seconds_from_midnight hour12
  with_hour with_minute with_second with_nanosecond udiv urem
  accept_hms_nano accept_secs_nano hms_ok nano_ok secs_of_hms hour_of minute_of second_of
  bind obind rmap chk chko checked_mul mul_u32 add_u32 add_i64 sub_i64 neg_i64 add_i32 sub_i32
  in_u32 in_i32 in_i64 in_u64 in_range u32_max i32_min i32_max i64_min i64_max u64_max tvalid : tm.

Ltac tdif := match goal with |- context [if ?c then _ else _] => destruct c eqn:? end.
Ltac tunf := repeat autounfold with tm in *.
Ltac tgo := tunf; cbn [tsecs tfrac]; repeat (tdif; tunf; cbn [tsecs tfrac]; try lia).

(** ** Constructors: accepted exactly as the property states, for all u32 arguments *)
Theorem from_hms_nano_opt_spec h m s n :
  in_u32 h = true -> in_u32 m = true -> in_u32 s = true -> in_u32 n = true ->
  from_hms_nano_opt h m s n =
    Val (if accept_hms_nano h m s n then Some (mk_time (secs_of_hms h m s) n) else None).
Proof. intros Hh Hm Hs Hn. tgo; try reflexivity; repeat f_equal; lia. Qed.
Theorem from_hms_opt_spec h m s :
  in_u32 h = true -> in_u32 m = true -> in_u32 s = true ->
  from_hms_opt h m s = Val (if hms_ok h m s then Some (mk_time (secs_of_hms h m s) 0) else None).
Proof. intros Hh Hm Hs. tgo; try reflexivity; repeat f_equal; lia. Qed.
Theorem from_hms_milli_opt_spec h m s x :
  in_u32 h = true -> in_u32 m = true -> in_u32 s = true -> in_u32 x = true ->
  from_hms_milli_opt h m s x =
    Val (if accept_hms_nano h m s (x * 1000000) then Some (mk_time (secs_of_hms h m s) (x * 1000000)) else None).
Proof. intros Hh Hm Hs Hx. tgo; try reflexivity; repeat f_equal; lia. Qed.
Theorem from_hms_micro_opt_spec h m s x :
  in_u32 h = true -> in_u32 m = true -> in_u32 s = true -> in_u32 x = true ->
  from_hms_micro_opt h m s x =
    Val (if accept_hms_nano h m s (x * 1000) then Some (mk_time (secs_of_hms h m s) (x * 1000)) else None).
Proof. intros Hh Hm Hs Hx. tgo; try reflexivity; repeat f_equal; lia. Qed.
Theorem from_nsfm_opt_spec secs n :
  in_u32 secs = true -> in_u32 n = true ->
  from_num_seconds_from_midnight_opt secs n =
    if accept_secs_nano secs n then Some (mk_time secs n) else None.
Proof. intros Hs Hn. tgo; try reflexivity; repeat f_equal; lia. Qed.
(* every accepted form is a valid state, with the leap mark only on second 59 of a minute *)
Theorem ctor_valid h m s n : accept_hms_nano h m s n = true -> 0 <= h -> 0 <= m -> 0 <= s -> 0 <= n ->
  tvalid (mk_time (secs_of_hms h m s) n) /\ (n >= 1000000000 -> secs_of_hms h m s mod 60 = 59).
Proof.
  intros H Hh Hm Hs Hn. unfold accept_hms_nano, hms_ok, nano_ok in H.
  assert (h < 24 /\ m < 60 /\ s < 60 /\ n < 2000000000 /\ (n >= 1000000000 -> s = 59)) as (A & B & C & D & E) by lia.
  clear H. unfold tvalid, secs_of_hms. cbn [tsecs tfrac]. split; [lia|]. intros F. specialize (E F). subst s.
  replace (h * 3600 + m * 60 + 59) with (59 + (h * 60 + m) * 60) by ring. rewrite Z.mod_add by lia. reflexivity.
Qed.

(** ** Accessors: the fields of the reading; they recompose to the reading *)
Theorem hms_spec t : 0 <= tsecs t ->
  hms t = (hour_of (tsecs t), minute_of (tsecs t), second_of (tsecs t)).
Proof.
  intros H. unfold hms, udiv, urem, hour_of, minute_of, second_of.
  assert (E1 : Z.quot (tsecs t) 60 = tsecs t / 60) by lia.
  assert (E2 : Z.rem (tsecs t) 60 = tsecs t mod 60) by lia.
  rewrite E1, E2. assert (0 <= tsecs t / 60) by lia.
  assert (E3 : Z.quot (tsecs t / 60) 60 = tsecs t / 3600) by (rewrite Z.quot_div_nonneg by lia; rewrite Z.div_div by lia; reflexivity).
  assert (E4 : Z.rem (tsecs t / 60) 60 = (tsecs t / 60) mod 60) by lia.
  rewrite E3, E4. reflexivity.
Qed.
Theorem accessors_spec t : 0 <= tsecs t ->
  hour t = hour_of (tsecs t) /\ minute t = minute_of (tsecs t) /\ second t = second_of (tsecs t) /\
  nanosecond t = tfrac t /\ num_seconds_from_midnight t = tsecs t.
Proof.
  intros H. unfold hour, minute, second. rewrite (hms_spec t H). unfold nanosecond, num_seconds_from_midnight.
  repeat split; reflexivity.
Qed.
Theorem fields_range s : 0 <= s < 86400 ->
  0 <= hour_of s < 24 /\ 0 <= minute_of s < 60 /\ 0 <= second_of s < 60 /\
  secs_of_hms (hour_of s) (minute_of s) (second_of s) = s.
Proof. intros H. unfold hour_of, minute_of, second_of, secs_of_hms. lia. Qed.
Theorem fields_of_hms h m s : 0 <= h -> 0 <= m < 60 -> 0 <= s < 60 ->
  hour_of (secs_of_hms h m s) = h /\ minute_of (secs_of_hms h m s) = m /\ second_of (secs_of_hms h m s) = s.
Proof. intros Hh Hm Hs. unfold hour_of, minute_of, second_of, secs_of_hms. lia. Qed.
Theorem hour12_spec t : 0 <= tsecs t < 86400 ->
  hour12 t = (12 <=? hour_of (tsecs t),
              if hour_of (tsecs t) mod 12 =? 0 then 12 else hour_of (tsecs t) mod 12) /\
  1 <= snd (hour12 t) <= 12.
Proof.
  intros H. unfold hour12. destruct (accessors_spec t ltac:(lia)) as (-> & _).
  pose proof (fields_range _ H) as (Hh & _). set (h := hour_of (tsecs t)) in *. clearbody h.
  unfold urem. replace (Z.rem h 12) with (h mod 12) by lia.
  split.
  - f_equal. lia.
  - cbn [snd]. destruct (h mod 12 =? 0) eqn:E; lia.
Qed.

(** ** Single-field replacement: None exactly when the argument is outside the field's own range,
    otherwise exactly the named field changes (with [fields_of_hms]); never a trap *)
Theorem with_hour_spec t v : tvalid t -> in_u32 v = true ->
  with_hour t v = Val (if v <? 24
    then Some (mk_time (secs_of_hms v (minute_of (tsecs t)) (second_of (tsecs t))) (tfrac t)) else None).
Proof. intros [H1 H2] Hv. tgo; try reflexivity; repeat (f_equal; try lia). Qed.
Theorem with_minute_spec t v : tvalid t -> in_u32 v = true ->
  with_minute t v = Val (if v <? 60
    then Some (mk_time (secs_of_hms (hour_of (tsecs t)) v (second_of (tsecs t))) (tfrac t)) else None).
Proof. intros [H1 H2] Hv. tgo; try reflexivity; repeat (f_equal; try lia). Qed.
Theorem with_second_spec t v : tvalid t -> in_u32 v = true ->
  with_second t v = Val (if v <? 60
    then Some (mk_time (secs_of_hms (hour_of (tsecs t)) (minute_of (tsecs t)) v) (tfrac t)) else None).
Proof. intros [H1 H2] Hv. tgo; try reflexivity; repeat (f_equal; try lia). Qed.
Theorem with_nanosecond_spec t v : in_u32 v = true ->
  with_nanosecond t v = if v <? 2000000000 then Some (mk_time (tsecs t) v) else None.
Proof. intros Hv. tgo; reflexivity. Qed.
(* the replaced value is again a valid state *)
Theorem with_valid t h m s : tvalid t -> 0 <= h < 24 -> 0 <= m < 60 -> 0 <= s < 60 ->
  tvalid (mk_time (secs_of_hms h m s) (tfrac t)).
Proof. intros [H1 H2] Hh Hm Hs. unfold tvalid, secs_of_hms. cbn [tsecs tfrac]. lia. Qed.

(** ** Addition of a duration: the one-leap-second timeline, for every state and every duration *)
Definition add_result (s f d : Z) : ntime * Z :=
  let r := tl_add s f d in (mk_time (fst (fst r)) (snd (fst r)), snd r).

#[export] Hint Unfold rem_i64 div_i64 rem_u64 add_u64 rem_t div_t : tm.
Ltac solve_in := unfold in_i32, in_u32, in_i64, in_u64, in_range, i32_min, i32_max, u32_max,
  i64_min, i64_max, u64_max; lia.
Ltac twr := repeat first
  [ rewrite as_i32_id by solve_in | rewrite as_u32_id by solve_in
  | rewrite as_i64_id by solve_in | rewrite as_u64_id by solve_in ].

(* the body of overflowing_add_signed after  let secs_to_add = rhs.num_seconds();
   let frac_to_add = rhs.subsec_nanos();  (proof-side copy, tied to the model by [oas_unfold]) *)
Definition oas_body (t : ntime) (secs_to_add frac_to_add : Z) : R (ntime * Z) :=
  let secs := as_i64 (tsecs t) in
  let frac := as_i32 (tfrac t) in
  (* the [if frac >= 1_000_000_000] block: inl = early return, inr = updated (secs, frac) *)
  let* st :=
    (if frac >=? 1000000000 then
       (* secs_to_add > 0 || (frac_to_add > 0 && frac >= 2_000_000_000 - frac_to_add), lazily *)
       let* escapes :=
         (if secs_to_add >? 0 then Val true
          else if frac_to_add >? 0 then
            let* lim := sub_i32 2000000000 frac_to_add in Val (frac >=? lim)
          else Val false) in
       if escapes then
         let* f := sub_i32 frac 1000000000 in Val (inr (secs, f))
       else if secs_to_add <? 0 then
         let* f := sub_i32 frac 1000000000 in
         let* s := add_i64 secs 1 in Val (inr (s, f))
       else
         let* f := add_i32 frac frac_to_add in
         Val (inl (mk_time (tsecs t) (as_u32 f), 0))
     else Val (inr (secs, frac))) in
  match st with
  | inl r => Val r
  | inr (secs, frac) =>
    let* secs := add_i64 secs secs_to_add in
    let* frac := add_i32 frac frac_to_add in
    let* '(secs, frac) :=
      (if frac <? 0 then
         let* f := add_i32 frac 1000000000 in let* s := sub_i64 secs 1 in Val (s, f)
       else if frac >=? 1000000000 then
         let* f := sub_i32 frac 1000000000 in let* s := add_i64 secs 1 in Val (s, f)
       else Val (secs, frac)) in
    let* secs_in_day := rem_euclid in_i64 secs 86400 in
    let* remaining := sub_i64 secs secs_in_day in
    Val (mk_time (as_u32 secs_in_day) (as_u32 frac), remaining)
  end.
Lemma oas_unfold t rhs : overflowing_add_signed t rhs =
  (let* secs_to_add := num_seconds rhs in let* frac_to_add := subsec_nanos rhs in oas_body t secs_to_add frac_to_add).
Proof. reflexivity. Qed.

Lemma oas_body_spec t q r :
  tvalid t -> -9223372036854776 <= q <= 9223372036854776 -> -1000000000 < r < 1000000000 ->
  (0 < q -> 0 <= r) -> (q < 0 -> r <= 0) ->
  oas_body t q r = Val (add_result (tsecs t) (tfrac t) (q * 1000000000 + r)).
Proof.
  destruct t as [s f]. unfold tvalid. cbn [tsecs tfrac]. intros [Hs Hf] Hq Hr Hqr1 Hqr2.
  unfold oas_body, add_result, tl_add, readback, leap_of, tl_pos, shift_before. cbn [tsecs tfrac].
  twr.
  destruct (f <? 1000000000) eqn:Ef.
  - (* no leap second on the line *)
    replace (f >=? 1000000000) with false by lia. cbv beta iota. cbn [fst snd].
    tunf.
    repeat (rewrite ?rem_euclid_pos, ?div_euclid_pos by lia; tdif; tunf; try lia); twr; repeat (f_equal; try lia).
  - replace (f >=? 1000000000) with true by lia.
    repeat (rewrite ?rem_euclid_pos, ?div_euclid_pos by lia; tdif; tunf; cbv beta iota; cbn [fst snd]; try lia); twr; repeat (f_equal; try lia).
Time Qed.

Theorem add_spec t d : tvalid t -> valid d ->
  overflowing_add_signed t d = Val (add_result (tsecs t) (tfrac t) (ns d)).
Proof.
  intros Ht Hd. rewrite oas_unfold.
  rewrite (num_seconds_spec d Hd), (subsec_nanos_spec d Hd). unfold bind.
  destruct Hd as [Hd1 Hd2]. unfold in_rng, Proofs.C06.G, RMIN, RMAX in *.
  pose proof (Z.quot_rem' (ns d) 1000000000) as E.
  set (q := Z.quot (ns d) 1000000000) in *. set (r := Z.rem (ns d) 1000000000) in *.
  rewrite (oas_body_spec t q r Ht) by (subst q r; lia).
  do 2 f_equal. lia.
Qed.

(* shape of the result: a valid state; the carry is a whole number of days; a leap reading can
   only come out of a leap operand that was not left *)
Theorem add_result_range s f d : 0 <= s < 86400 -> 0 <= f < 2000000000 ->
  let '(t', c) := add_result s f d in
  tvalid t' /\ c mod 86400 = 0 /\
  (tfrac t' >= 1000000000 -> f >= 1000000000 /\ tsecs t' = s /\ c = 0 /\ tfrac t' = f + d).
Proof.
  intros Hs Hf. unfold add_result, tl_add, readback, leap_of, tl_pos, shift_before, tvalid.
  destruct (f <? 1000000000) eqn:Ef; cbv beta iota; cbn [fst snd tsecs tfrac].
  - lia.
  - tdif; cbv beta iota; cbn [fst snd tsecs tfrac]; [lia|].
    tdif; cbv beta iota; cbn [fst snd tsecs tfrac]; lia.
Qed.

(* the non-leap case, for the properties that exclude leap operands: exact arithmetic modulo one
   day on the nanosecond count, with the carry in whole days *)
Theorem add_nonleap t d : tvalid t -> tfrac t < 1000000000 -> valid d ->
  let n := tsecs t * 1000000000 + tfrac t + ns d in
  overflowing_add_signed t d =
    Val (mk_time ((n / 1000000000) mod 86400) (n mod 1000000000),
         n / 1000000000 - (n / 1000000000) mod 86400).
Proof.
  intros Ht Hf Hd. rewrite (add_spec t d Ht Hd).
  unfold add_result, tl_add, readback, leap_of, tl_pos, shift_before.
  replace (tfrac t <? 1000000000) with true by lia. cbv beta iota zeta. cbn [fst snd].
  repeat (f_equal; try lia).
Qed.
Theorem add_nonleap_exact t d : tvalid t -> tfrac t < 1000000000 -> valid d ->
  exists t' c, overflowing_add_signed t d = Val (t', c) /\
    tvalid t' /\ tfrac t' < 1000000000 /\ c mod 86400 = 0 /\
    (tsecs t' + c) * 1000000000 + tfrac t' = tsecs t * 1000000000 + tfrac t + ns d.
Proof.
  intros Ht Hf Hd. pose proof (add_nonleap t d Ht Hf Hd) as E. cbv zeta in E.
  eexists. eexists. split; [exact E|]. unfold tvalid. cbn [tsecs tfrac]. lia.
Qed.

(** ** Offset shifts: whole seconds move modulo one day, the fraction (leap mark) is kept *)
Theorem add_offset_spec t off : tvalid t -> -86400 < off < 86400 ->
  overflowing_add_offset t off =
    Val (mk_time ((tsecs t + off) mod 86400) (tfrac t), (tsecs t + off) / 86400).
Proof.
  intros [Hs Hf] Ho. unfold overflowing_add_offset. twr. tunf.
  repeat (rewrite ?rem_euclid_pos, ?div_euclid_pos by lia; tdif; tunf; try lia); twr; reflexivity.
Qed.
Theorem sub_offset_spec t off : tvalid t -> -86400 < off < 86400 ->
  overflowing_sub_offset t off =
    Val (mk_time ((tsecs t - off) mod 86400) (tfrac t), (tsecs t - off) / 86400).
Proof.
  intros [Hs Hf] Ho. unfold overflowing_sub_offset. twr. tunf.
  repeat (rewrite ?rem_euclid_pos, ?div_euclid_pos by lia; tdif; tunf; try lia); twr; reflexivity.
Qed.
Theorem offset_shift_spec t off : tvalid t -> -86400 < off < 86400 ->
  overflowing_add_offset t off =
    Val (let '((s, f), days) := tl_shift (tsecs t) (tfrac t) off in (mk_time s f, days)) /\
  overflowing_sub_offset t off =
    Val (let '((s, f), days) := tl_shift (tsecs t) (tfrac t) (- off) in (mk_time s f, days)).
Proof.
  intros Ht Ho. rewrite add_offset_spec, sub_offset_spec by assumption. unfold tl_shift.
  split; [reflexivity|]. replace (tsecs t + - off) with (tsecs t - off) by lia. reflexivity.
Qed.
Theorem offset_shift_range s off : 0 <= s < 86400 -> -86400 < off < 86400 ->
  0 <= (s + off) mod 86400 < 86400 /\ -1 <= (s + off) / 86400 <= 1 /\
  ((s + off) / 86400) * 86400 + (s + off) mod 86400 = s + off.
Proof. intros Hs Ho. lia. Qed.

(** ** Subtraction is addition of the negated duration (carry reported with the opposite sign) *)
Definition neg_carry (r : ntime * Z) : ntime * Z := (fst r, - snd r).
Theorem sub_spec t d : tvalid t -> valid d ->
  overflowing_sub_signed t d = Val (neg_carry (add_result (tsecs t) (tfrac t) (- ns d))).
Proof.
  intros Ht Hd. unfold overflowing_sub_signed.
  destruct (neg_spec d Hd) as (d' & E & Hn & Hv). rewrite E. unfold bind at 1.
  rewrite (add_spec t d' Ht Hv), Hn. unfold bind at 1.
  pose proof (add_result_range (tsecs t) (tfrac t) (- ns d) (proj1 Ht) (proj2 Ht)) as Hr.
  destruct (add_result (tsecs t) (tfrac t) (- ns d)) as [t' c] eqn:Er.
  assert (Hc : - 9223372036854775807 <= c <= 9223372036854775807).
  { clear Hr. unfold add_result, tl_add, readback, leap_of, tl_pos, shift_before in Er.
    destruct Hv as [_ Hv]. rewrite Hn in Hv. unfold in_rng, RMIN, RMAX in Hv.
    destruct Ht as [Hs Hf].
    destruct (tfrac t <? 1000000000) eqn:Ef; cbv beta iota in Er; cbn [fst snd] in Er.
    - injection Er as _ <-. lia.
    - repeat match type of Er with context [if ?c then _ else _] => destruct c eqn:? end;
        cbv beta iota in Er; cbn [fst snd] in Er; injection Er as _ <-; lia. }
  unfold neg_i64, chk, in_i64, in_range, i64_min, i64_max.
  replace ((-9223372036854775808 <=? - c) && (- c <=? 9223372036854775807)) with true by lia.
  unfold bind, neg_carry. reflexivity.
Qed.
Theorem sub_is_add_neg t d d' : tvalid t -> valid d -> valid d' -> ns d' = - ns d ->
  overflowing_sub_signed t d = rmap neg_carry (overflowing_add_signed t d').
Proof.
  intros Ht Hd Hd' E. rewrite (sub_spec t d Ht Hd), (add_spec t d' Ht Hd'), E. reflexivity.
Qed.

(** ** Difference of two times: each leap operand inserts its own second *)
Definition diff_adj (s1 f1 s2 f2 : Z) : Z :=
  if (s1 >? s2) && (f2 >=? 1000000000) then 1
  else if (s1 <? s2) && (f1 >=? 1000000000) then -1 else 0.
Lemma sds_unfold a b : tvalid a -> tvalid b ->
  signed_duration_since a b =
    unwrap (td_new (tsecs a - tsecs b + diff_adj (tsecs a) (tfrac a) (tsecs b) (tfrac b)
                    + (tfrac a - tfrac b) / 1000000000)
                   ((tfrac a - tfrac b) mod 1000000000)).
Proof.
  destruct a as [s1 f1], b as [s2 f2]. unfold tvalid. cbn [tsecs tfrac]. intros [Hs1 Hf1] [Hs2 Hf2].
  unfold signed_duration_since, diff_adj. cbn [tsecs tfrac]. twr. tunf.
  repeat (rewrite ?rem_euclid_pos, ?div_euclid_pos by lia; tdif; tunf; try lia); twr;
    do 2 f_equal; lia.
Qed.
Lemma tl_diff_arith s1 f1 s2 f2 : 0 <= f1 < 2000000000 -> 0 <= f2 < 2000000000 ->
  tl_diff s1 f1 s2 f2 = (s1 - s2 + diff_adj s1 f1 s2 f2) * 1000000000 + (f1 - f2).
Proof.
  intros Hf1 Hf2. unfold tl_diff, diff_leaps, leaps_of, diff_adj, tl_pos.
  destruct (f1 <? 1000000000) eqn:E1; destruct (f2 <? 1000000000) eqn:E2;
  replace (f1 >=? 1000000000) with (negb (f1 <? 1000000000)) by lia;
  replace (f2 >=? 1000000000) with (negb (f2 <? 1000000000)) by lia;
  rewrite ?E1, ?E2; cbn [negb app]; try destruct (s1 =? s2) eqn:E3; cbn [shift_before];
  rewrite ?andb_false_r, ?andb_true_r;
  repeat (tdif; try lia); lia.
Qed.
Theorem diff_spec a b : tvalid a -> tvalid b ->
  exists d, signed_duration_since a b = Val d /\ valid d /\
            ns d = tl_diff (tsecs a) (tfrac a) (tsecs b) (tfrac b).
Proof.
  intros Ha Hb. rewrite (sds_unfold a b Ha Hb).
  rewrite (tl_diff_arith (tsecs a) (tfrac a) (tsecs b) (tfrac b) (proj2 Ha) (proj2 Hb)).
  destruct Ha as [Hs1 Hf1], Hb as [Hs2 Hf2].
  set (adj := diff_adj (tsecs a) (tfrac a) (tsecs b) (tfrac b)).
  assert (Hadj : -1 <= adj <= 1) by (unfold adj, diff_adj; repeat tdif; lia).
  clearbody adj.
  set (S := tsecs a - tsecs b + adj + (tfrac a - tfrac b) / 1000000000).
  set (N := (tfrac a - tfrac b) mod 1000000000).
  assert (HS : -86402 <= S <= 86402) by (unfold S; lia).
  assert (HN : 0 <= N < 1000000000) by (unfold N; lia).
  assert (HE : S * 1000000000 + N = (tsecs a - tsecs b + adj) * 1000000000 + (tfrac a - tfrac b)) by (unfold S, N; lia).
  pose proof (td_new_spec S N ltac:(solve_in) ltac:(solve_in)) as Hn.
  destruct (td_new S N) as [d|].
  - destruct Hn as (E1 & E2 & Hv). exists d. split; [reflexivity|]. split; [exact Hv|].
    unfold ns, Proofs.C06.G. rewrite E1, E2. exact HE.
  - exfalso. apply Hn. unfold in_rng, Proofs.C06.G, RMIN, RMAX. lia.
Qed.
(* within +/- one day (and the inserted seconds), as documented *)
Theorem diff_bound s1 f1 s2 f2 : 0 <= s1 < 86400 -> 0 <= s2 < 86400 ->
  0 <= f1 < 2000000000 -> 0 <= f2 < 2000000000 ->
  Z.abs (tl_diff s1 f1 s2 f2) < 86401 * 1000000000.
Proof.
  intros Hs1 Hs2 Hf1 Hf2. rewrite tl_diff_arith by assumption. unfold diff_adj. repeat tdif; lia.
Qed.
Theorem tl_diff_antisym s1 f1 s2 f2 : 0 <= f1 < 2000000000 -> 0 <= f2 < 2000000000 ->
  tl_diff s1 f1 s2 f2 = - tl_diff s2 f2 s1 f1.
Proof.
  intros Hf1 Hf2. rewrite !tl_diff_arith by assumption. unfold diff_adj. repeat tdif; lia.
Qed.
Theorem diff_antisym a b : tvalid a -> tvalid b ->
  exists d1 d2, signed_duration_since a b = Val d1 /\ signed_duration_since b a = Val d2 /\
                valid d1 /\ valid d2 /\ ns d1 = - ns d2.
Proof.
  intros Ha Hb. destruct (diff_spec a b Ha Hb) as (d1 & E1 & V1 & N1).
  destruct (diff_spec b a Hb Ha) as (d2 & E2 & V2 & N2).
  exists d1, d2. split; [exact E1|]. split; [exact E2|]. split; [exact V1|]. split; [exact V2|].
  rewrite N1, N2. apply tl_diff_antisym; [exact (proj2 Ha)|exact (proj2 Hb)].
Qed.

(** ** core::time::Duration operands: the time of day agrees with the timeline for every u64 seconds *)
Definition wrapped (ds : Z) : Z := if ds <? 86400 then ds else 86400 + ds mod 86400.
Theorem std_reduce_spec ds dn : in_u64 ds = true -> 0 <= dn < 1000000000 ->
  exists d, std_reduce ds dn = Val d /\ valid d /\ ns d = wrapped ds * 1000000000 + dn.
Proof.
  intros Hs Hn. unfold std_reduce, wrapping_secs, wrapped, STD_DAY.
  assert (Hw : exists w, (if ds <? 86400 then Val (as_i64 ds)
                          else let* r := rem_u64 ds 86400 in let* x := add_u64 86400 r in Val (as_i64 x))
                         = Val w /\ w = (if ds <? 86400 then ds else 86400 + ds mod 86400) /\ 0 <= w < 172800).
  { revert Hs. tunf. intros Hs. destruct (ds <? 86400) eqn:E.
    - eexists. split; [reflexivity|]. twr. lia.
    - repeat (tdif; tunf; try lia). eexists. split; [reflexivity|]. twr. lia. }
  destruct Hw as (w & -> & Ew & Hw). unfold bind. rewrite <- Ew. clear Ew.
  pose proof (td_new_spec w dn ltac:(solve_in) ltac:(solve_in)) as H.
  destruct (td_new w dn) as [d|].
  - destruct H as (E1 & E2 & Hv). exists d. split; [reflexivity|]. split; [exact Hv|].
    unfold ns, Proofs.C06.G. rewrite E1, E2. reflexivity.
  - exfalso. apply H. unfold in_rng, Proofs.C06.G, RMIN, RMAX. lia.
Qed.

(* whole days beyond the first do not change the time of day (the leap second has been left) *)
Lemma tl_add_period_pos s f D k : 0 <= s < 86400 -> 0 <= f < 2000000000 ->
  86400 * 1000000000 <= D -> 0 <= k ->
  fst (tl_add s f (D + k * 86400000000000)) = fst (tl_add s f D).
Proof.
  intros Hs Hf HD Hk. unfold tl_add, readback, leap_of, tl_pos, shift_before.
  destruct (f <? 1000000000) eqn:Ef; cbv beta iota; cbn [fst snd].
  - f_equal; lia.
  - repeat (tdif; cbv beta iota; cbn [fst snd]; try lia). f_equal; lia.
Qed.
Lemma tl_add_period_neg s f D k : 0 <= s < 86400 -> 0 <= f < 2000000000 ->
  D <= - (86400 * 1000000000) -> 0 <= k ->
  fst (tl_add s f (D - k * 86400000000000)) = fst (tl_add s f D).
Proof.
  intros Hs Hf HD Hk. unfold tl_add, readback, leap_of, tl_pos, shift_before.
  destruct (f <? 1000000000) eqn:Ef; cbv beta iota; cbn [fst snd].
  - f_equal; lia.
  - repeat (tdif; cbv beta iota; cbn [fst snd]; try lia). f_equal; lia.
Qed.
Definition time_of (r : (Z * Z) * Z) : ntime := mk_time (fst (fst r)) (snd (fst r)).
Lemma wrapped_split ds : 0 <= ds -> exists k, 0 <= k /\ ds = wrapped ds + k * 86400 /\
  (k > 0 -> 86400 <= wrapped ds).
Proof.
  intros H. unfold wrapped. destruct (ds <? 86400) eqn:E.
  - exists 0. lia.
  - exists (ds / 86400 - 1). lia.
Qed.
Theorem op_add_std_spec t ds dn : tvalid t -> in_u64 ds = true -> 0 <= dn < 1000000000 ->
  op_add_std t ds dn = Val (time_of (tl_add (tsecs t) (tfrac t) (ds * 1000000000 + dn))).
Proof.
  intros Ht Hs Hn. unfold op_add_std.
  destruct (std_reduce_spec ds dn Hs Hn) as (d & -> & Hv & En). unfold bind at 1.
  rewrite (add_spec t d Ht Hv). unfold rmap, bind, add_result, time_of. cbn [fst]. rewrite En.
  destruct (wrapped_split ds ltac:(revert Hs; solve_in)) as (k & Hk & Ek & Hw).
  destruct (Z.eq_dec k 0) as [->|Hk0].
  - replace (wrapped ds) with ds by lia. reflexivity.
  - replace (ds * 1000000000 + dn) with ((wrapped ds * 1000000000 + dn) + k * 86400000000000) by lia.
    rewrite (tl_add_period_pos (tsecs t) (tfrac t) _ k (proj1 Ht) (proj2 Ht)) by lia. reflexivity.
Qed.
Theorem op_sub_std_spec t ds dn : tvalid t -> in_u64 ds = true -> 0 <= dn < 1000000000 ->
  op_sub_std t ds dn = Val (time_of (tl_add (tsecs t) (tfrac t) (- (ds * 1000000000 + dn)))).
Proof.
  intros Ht Hs Hn. unfold op_sub_std.
  destruct (std_reduce_spec ds dn Hs Hn) as (d & -> & Hv & En). unfold bind at 1.
  rewrite (sub_spec t d Ht Hv). unfold rmap, bind, neg_carry, add_result, time_of. cbn [fst]. rewrite En.
  destruct (wrapped_split ds ltac:(revert Hs; solve_in)) as (k & Hk & Ek & Hw).
  destruct (Z.eq_dec k 0) as [->|Hk0].
  - replace (wrapped ds) with ds by lia. reflexivity.
  - replace (- (ds * 1000000000 + dn)) with (- (wrapped ds * 1000000000 + dn) - k * 86400000000000) by lia.
    rewrite (tl_add_period_neg (tsecs t) (tfrac t) _ k (proj1 Ht) (proj2 Ht)) by lia. reflexivity.
Qed.
(* the same duration given as a TimeDelta (when it fits) gives the same time of day *)
Theorem std_agrees_with_td t ds dn d : tvalid t -> in_u64 ds = true -> 0 <= dn < 1000000000 ->
  valid d -> ns d = ds * 1000000000 + dn ->
  op_add_std t ds dn = op_add_td t d /\ op_sub_std t ds dn = op_sub_td t d.
Proof.
  intros Ht Hs Hn Hv En. rewrite op_add_std_spec, op_sub_std_spec by assumption.
  unfold op_add_td, op_sub_td. rewrite (add_spec t d Ht Hv), (sub_spec t d Ht Hv), En.
  unfold rmap, bind, neg_carry, add_result, time_of. cbn [fst]. split; reflexivity.
Qed.

(* the reduction before the repair (as_secs % 172800) loses the time line: recorded finding
   C07-std-duration-leap, repaired in /repo by fixes/C07-std-duration-leap.diff *)
Theorem std_add_unrepaired_refuted : exists t ds dn,
  tvalid t /\ in_u64 ds = true /\ 0 <= dn < 1000000000 /\
  (let* d := std_reduce_unrepaired ds dn in rmap fst (overflowing_add_signed t d))
    <> Val (time_of (tl_add (tsecs t) (tfrac t) (ds * 1000000000 + dn))).
Proof.
  exists (mk_time 0 1000000000), 172800, 0. unfold tvalid. cbn [tsecs tfrac].
  split; [lia|]. split; [reflexivity|]. split; [lia|]. vm_compute. discriminate.
Qed.
