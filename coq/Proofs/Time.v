(** Lemmas about the NaiveTime model (Model/Time.v): it computes the time-of-day mathematics of
    Spec/TimeOfDay.v, never traps, and keeps the representation invariant. *)
From Coq Require Import ZArith List Bool Lia ZifyBool String.
From V Require Import Base.Int Base.IntLemmas Base.IO Gen.TimeDelta Model.TimeDelta Model.Time Spec.TimeOfDay Proofs.C06.
Import ListNotations.
Open Scope Z_scope.
Ltac Zify.zify_post_hook ::= Z.to_euclidean_division_equations.
Set Default Timeout 60.

(** representation invariant of NaiveTime, leap representation allowed on any second *)
Definition tvalid (t : ntime) : Prop := 0 <= tsecs t < 86400 /\ 0 <= tfrac t < 2000000000.

Create HintDb tm.
#[export] Hint Unfold from_hms_nano_opt from_hms_opt from_hms_milli_opt from_hms_micro_opt
  from_num_seconds_from_midnight_opt hms hour minute second nanosecond num_seconds_from_midnight hour12
  with_hour with_minute with_second with_nanosecond udiv urem
  accept_hms_nano accept_secs_nano hms_ok nano_ok secs_of_hms hour_of minute_of second_of
  bind obind rmap chk chko checked_mul mul_u32 add_u32 add_i64 sub_i64 neg_i64 add_i32 sub_i32
  in_u32 in_i32 in_i64 in_u64 in_range u32_max i32_min i32_max i64_min i64_max u64_max tvalid : tm.

Ltac tdif := match goal with |- context [if ?c then _ else _] => destruct c eqn:? end.
Ltac tunf := repeat autounfold with tm in *.
Ltac tgo := tunf; cbn [tsecs tfrac]; repeat (tdif; tunf; cbn [tsecs tfrac]; try lia).

(** ** Constructors: accepted exactly as the property states, for all u32 arguments *)
Theorem from_hms_nano_opt_spec h m s n :
  in_u32 h = true -> in_u32 m = true -> in_u32 s = true -> in_u32 n = true ->
  from_hms_nano_opt h m s n =
    Val (if accept_hms_nano h m s n then Some (mk_time (secs_of_hms h m s) n) else None).
Proof. intros Hh Hm Hs Hn. tgo; try reflexivity; repeat f_equal; lia. Qed.
Theorem from_hms_opt_spec h m s :
  in_u32 h = true -> in_u32 m = true -> in_u32 s = true ->
  from_hms_opt h m s = Val (if hms_ok h m s then Some (mk_time (secs_of_hms h m s) 0) else None).
Proof. intros Hh Hm Hs. tgo; try reflexivity; repeat f_equal; lia. Qed.
Theorem from_hms_milli_opt_spec h m s x :
  in_u32 h = true -> in_u32 m = true -> in_u32 s = true -> in_u32 x = true ->
  from_hms_milli_opt h m s x =
    Val (if accept_hms_nano h m s (x * 1000000) then Some (mk_time (secs_of_hms h m s) (x * 1000000)) else None).
Proof. intros Hh Hm Hs Hx. tgo; try reflexivity; repeat f_equal; lia. Qed.
Theorem from_hms_micro_opt_spec h m s x :
  in_u32 h = true -> in_u32 m = true -> in_u32 s = true -> in_u32 x = true ->
  from_hms_micro_opt h m s x =
    Val (if accept_hms_nano h m s (x * 1000) then Some (mk_time (secs_of_hms h m s) (x * 1000)) else None).
Proof. intros Hh Hm Hs Hx. tgo; try reflexivity; repeat f_equal; lia. Qed.
Theorem from_nsfm_opt_spec secs n :
  in_u32 secs = true -> in_u32 n = true ->
  from_num_seconds_from_midnight_opt secs n =
    if accept_secs_nano secs n then Some (mk_time secs n) else None.
Proof. intros Hs Hn. tgo; try reflexivity; repeat f_equal; lia. Qed.
(* every accepted form is a valid state, with the leap mark only on second 59 of a minute *)
Theorem ctor_valid h m s n : accept_hms_nano h m s n = true -> 0 <= h -> 0 <= m -> 0 <= s -> 0 <= n ->
  tvalid (mk_time (secs_of_hms h m s) n) /\ (n >= 1000000000 -> secs_of_hms h m s mod 60 = 59).
Proof.
  intros H Hh Hm Hs Hn. unfold accept_hms_nano, hms_ok, nano_ok in H.
  assert (h < 24 /\ m < 60 /\ s < 60 /\ n < 2000000000 /\ (n >= 1000000000 -> s = 59)) as (A & B & C & D & E) by lia.
  clear H. unfold tvalid, secs_of_hms. cbn [tsecs tfrac]. split; [lia|]. intros F. specialize (E F). subst s.
  replace (h * 3600 + m * 60 + 59) with (59 + (h * 60 + m) * 60) by ring. rewrite Z.mod_add by lia. reflexivity.
Qed.
