(** Proofs for C12, part 13: SOURCE-SPAN COVERAGE of the exact item list and the TIGHT density bound.

    [pieces l s : list (bytes * list Item)] cuts a format string into pieces, each piece = (the
    source bytes consumed by one call of parse_next_item, the items that call produced):
    - a run of text: (the run, [Space run] / [Literal run]);
    - a valid specifier "%" ++ modifier ++ name: (its source text, the items of its row) - a
      composite is ONE piece carrying its expanded items;
    - an invalid specifier: ("%" ++ the [bad_len] accepted bytes, Literal of exactly these bytes
      (lenient) / Error (strict), followed by the leaked tail of a composite after `%-D`).
    [pieces_items]   : List.concat (map snd (pieces l s)) = exact_items l s          (every byte string)
    [pieces_cover]   : lenient: List.concat (map fst (pieces true s)) = s            (valid UTF-8)
                       strict : s = List.concat (map fst (pieces false s)) ++ tail, where only the LAST
                       piece can be a stopping piece ([stop_piece]: an Error piece whose source
                       text is not "%:"), and tail = [] when there is no stopping piece; an Error
                       piece with source "%:" resumes.
    [pieces_dense]   : every piece has 2 * |items| <= 13 * |source bytes|
    [items_density]  : 2 * |exact_items l s| <= 13 * |s|  (reached by "%c"). *)
From Coq Require Import ZArith List Bool Lia ZifyBool String.
From V Require Import Base.Int Base.IO Base.IntLemmas Base.Lift Spec.Gregorian Spec.StrftimeDoc
  Model.Items Gen.Strftime Gen.Locales Model.Strftime Model.Format
  Proofs.C12 Proofs.C12Str Proofs.C12Tok Proofs.C12Fam Proofs.C12All Proofs.C12Judge Proofs.C12Lenient
  Proofs.C12Exact Proofs.C12Exact2 Proofs.C12Exact3 Proofs.C12Exact4.
Import ListNotations.
Open Scope Z_scope.
Ltac Zify.zify_post_hook ::= Z.to_euclidean_division_equations.

Local Arguments exact_simple : simpl never.
Arguments single_row : simpl never.

Definition piece := (bytes * list Item)%type.

Fixpoint pieces_gen (comp : bytes -> list Item) (l : bool) (fuel : nat) (s : bytes) : list piece :=
  match fuel with
  | O => []
  | S f =>
    match s with
    | [] => []
    | b :: r =>
      if b =? 37 then
        match classify comp r with
        | POk rest its =>
            (firstn (List.length s - List.length rest) s, its) :: pieces_gen comp l f rest
        | PBad n leak resume =>
            if l then (37 :: firstn n r, Literal (37 :: firstn n r) :: leak) :: pieces_gen comp l f (skipn n r)
            else (37 :: firstn n r, IError :: leak) :: (if resume then pieces_gen comp l f (skipn n r) else [])
        end
      else
        match next_char s with
        | Some c =>
            if is_whitespace c
            then let k := run is_whitespace s in
                 (firstn k s, [Space (firstn k s)]) :: pieces_gen comp l f (skipn k s)
            else let k := run lit_char s in
                 (firstn k s, [Literal (firstn k s)]) :: pieces_gen comp l f (skipn k s)
        | None => []
        end
    end
  end.
Definition pieces (l : bool) (s : bytes) : list piece := pieces_gen exact_simple l (S (List.length s)) s.

(** a piece after which strict mode drops the rest of the input: its items start with [Error]
    and its source text is not "%:" *)
Definition stop_piece (p : piece) : bool :=
  match snd p with
  | IError :: _ => negb (match fst p with _ :: 58 :: _ => true | _ => false end)
  | _ => false
  end.
Definition dense (p : piece) : Prop := (2 * List.length (snd p) <= 13 * List.length (fst p))%nat.

(** * the items of the pieces are the exact items (no hypothesis at all) *)
Lemma pieces_items_gen comp l : forall f s,
  List.concat (map snd (pieces_gen comp l f s)) = items_gen comp l f s.
Proof.
  induction f as [|f IH]; intros s; [reflexivity|].
  destruct s as [|b r]; [reflexivity|]. cbn [pieces_gen items_gen].
  destruct (b =? 37).
  - destruct (classify comp r) as [rest its|n leak resume].
    + cbn [map snd List.concat]. rewrite IH. reflexivity.
    + destruct l.
      * cbn [map snd List.concat app]. rewrite IH. reflexivity.
      * destruct resume; cbn [map snd List.concat app]; [rewrite IH|]; reflexivity.
  - destruct (next_char (b :: r)) as [c|]; [|reflexivity].
    destruct (is_whitespace c); cbv zeta; cbn [map snd List.concat app]; rewrite IH; reflexivity.
Qed.
Theorem pieces_items : forall l s, List.concat (map snd (pieces l s)) = exact_items l s.
Proof. intros l s. apply pieces_items_gen. Qed.

(** * facts about the table, by computation *)
Definition starts_err (its : list Item) : bool := match its with IError :: _ => true | _ => false end.
Definition row_check (ne : bytes * entry) : bool :=
  forallb (fun pad =>
    let its := row_items exact_simple (snd ne) pad in
    (2 * List.length its <=? 13 * (1 + List.length (fst ne)))%nat && negb (starts_err its))
    [None; Some DNone; Some DZero; Some DSpace]
  && match snd ne with EComposite x => (List.length (tl (exact_simple x)) <=? 12)%nat | _ => true end.
Lemma rows_checked : forallb row_check doc_table = true.
Proof. vm_compute. reflexivity. Qed.
Lemma row_facts name e : In (name, e) doc_table -> forall pad,
  (2 * List.length (row_items exact_simple e pad) <= 13 * (1 + List.length name))%nat /\
  starts_err (row_items exact_simple e pad) = false /\
  match e with EComposite x => (List.length (tl (exact_simple x)) <= 12)%nat | _ => True end.
Proof.
  intros Hin pad. pose proof (proj1 (forallb_forall _ _) rows_checked _ Hin) as H.
  unfold row_check in H. cbn [fst snd] in H. apply andb_prop in H. destruct H as [H1 H2].
  assert (Hp : In pad [None; Some DNone; Some DZero; Some DSpace]).
  { destruct pad as [[]|]; cbn; auto. }
  pose proof (proj1 (forallb_forall _ _) H1 _ Hp) as H3. cbv zeta in H3.
  apply andb_prop in H3. destruct H3 as [H3 H4].
  split; [apply Nat.leb_le; exact H3|]. split; [destruct (starts_err _); [discriminate|reflexivity]|].
  destruct e; auto. apply Nat.leb_le. exact H2.
Qed.

(** * the accepted bytes of an invalid specifier are ASCII, so the input after them is valid *)
Lemma skip_ascii_valid : forall n r, utf8_valid r = true -> Forall (fun c => c < 128) (firstn n r) ->
  utf8_valid (skipn n r) = true.
Proof.
  induction n as [|n IH]; intros r Hv Hf; [exact Hv|].
  destruct r as [|c r]; [exact Hv|]. cbn [firstn] in Hf. inversion Hf; subst.
  cbn [skipn]. apply IH; [|assumption]. exact (valid_ascii_tail c r ltac:(assumption) Hv).
Qed.
Lemma single_row_ascii c : single_row c = true -> c < 128.
Proof.
  unfold single_row. intros E. apply existsb_exists in E. destruct E as ([name e] & Hin & Hx).
  cbn [fst] in Hx. destruct name as [|x [|y name]]; try discriminate. apply Z.eqb_eq in Hx. subst x.
  pose proof (proj1 (Forall_forall _ _) ascii_names _ Hin) as Hn. cbn [fst] in Hn.
  inversion Hn; subst. lia.
Qed.
Ltac fa_done := cbn [firstn]; repeat (apply Forall_cons; [lia|]); apply Forall_nil.
Lemma scan_ascii r1 : Forall (fun c => c < 128) (firstn (scan_len r1) r1).
Proof.
  destruct r1 as [|c r2]; [apply Forall_nil|]. unfold scan_len.
  destruct (c =? 58) eqn:E1; [fa_done|].
  destruct (c =? 46) eqn:E2.
  { destruct r2 as [|d r3]; [fa_done|].
    destruct (d =? 102) eqn:E3; [fa_done|].
    destruct (is369 d) eqn:E4; [|fa_done]. unfold is369 in E4.
    destruct r3 as [|f r4]; [fa_done|]. destruct (f =? 102) eqn:E5; fa_done. }
  destruct (is369 c) eqn:E3.
  { unfold is369 in E3. destruct r2 as [|f r3]; [fa_done|]. destruct (f =? 102) eqn:E5; fa_done. }
  destruct (single_row c) eqn:E4; [|apply Forall_nil].
  apply single_row_ascii in E4. fa_done.
Qed.
Lemma bad_ascii r : Forall (fun c => c < 128) (firstn (bad_len r) r).
Proof.
  destruct r as [|c r']; [apply Forall_nil|]. unfold bad_len.
  destruct (c =? 35) eqn:E1; [fa_done|].
  destruct (modifier c) as [p|] eqn:Em; [|exact (scan_ascii (c :: r'))].
  cbn [firstn]. apply Forall_cons; [|exact (scan_ascii r')].
  destruct (modifier_cases _ _ Em) as [->|[->| ->]]; lia.
Qed.
Lemma bad_valid r : utf8_valid r = true -> utf8_valid (skipn (bad_len r) r) = true.
Proof. intros Hv. exact (skip_ascii_valid _ r Hv (bad_ascii r)). Qed.

(** * the shape of an invalid specifier *)
Lemma classify_bad r n leak resume : classify exact_simple r = PBad n leak resume ->
  n = bad_len r /\
  (2 * (1 + List.length leak) <= 13 * (1 + List.length (firstn n r)))%nat /\
  resume = negb (stop_piece (37 :: firstn n r, IError :: leak)).
Proof.
  unfold classify. destruct (split_mod r) as [pad r1] eqn:Ep.
  destruct (lookup doc_table r1) as [[e rest]|] eqn:El.
  - destruct (row_bad e pad) eqn:Eb; [|discriminate]. intros H. injection H as <- <- <-.
    split; [reflexivity|].
    assert (Hpad : exists p, pad = Some p).
    { destruct e, pad; try discriminate; eauto. }
    destruct Hpad as (p & ->).
    destruct (percent_row _ _ _ Ep) as (m & _ & Hr & _ & Hm). destruct (Hm p eq_refl) as (c & -> & Hc).
    cbn [app] in Hr. subst r.
    assert (Hn : bad_len (c :: r1) = S (scan_len r1)).
    { unfold bad_len. rewrite Hc. destruct (modifier_cases _ _ Hc) as [->|[->| ->]]; reflexivity. }
    rewrite Hn. cbn [firstn List.length].
    split.
    + destruct (lookup_sound _ _ _ _ El) as (name & Hin & _).
      destruct (row_facts name e Hin None) as (_ & _ & Hc12).
      destruct e; cbn [List.length]; try lia.
    + unfold stop_piece. cbn [fst snd]. destruct (modifier_cases _ _ Hc) as [->|[->| ->]]; reflexivity.
  - intros H. injection H as <- <- <-. split; [reflexivity|]. split; [cbn [List.length]; lia|].
    unfold stop_piece. cbn [fst snd]. rewrite negb_involutive.
    destruct r as [|c r']; [reflexivity|].
    destruct (c =? 58) eqn:E.
    + apply Z.eqb_eq in E. subst c. reflexivity.
    + destruct (bad_len (c :: r')); cbn [firstn]; [reflexivity|].
      destruct c as [|c|c]; try reflexivity. do 6 (destruct c as [c|c|]; try reflexivity); discriminate E.
Qed.

Lemma firstn_app_sub {A} (a b : list A) : firstn (List.length (a ++ b) - List.length b) (a ++ b) = a.
Proof.
  rewrite app_length. replace (List.length a + List.length b - List.length b)%nat with (List.length a) by lia.
  rewrite firstn_app, firstn_all, Nat.sub_diag. cbn [firstn]. apply app_nil_r.
Qed.

(** * one piece = one step *)
Lemma pieces_step l f s : utf8_valid s = true -> s <> [] ->
  exists src its rm,
    pieces_gen exact_simple l (S f) s =
      (src, its) :: (if stop_piece (src, its) then [] else pieces_gen exact_simple l f rm) /\
    s = src ++ rm /\ src <> [] /\ utf8_valid rm = true /\ dense (src, its) /\
    (l = true -> stop_piece (src, its) = false).
Proof.
  intros Hv Hne. destruct s as [|b r]; [congruence|]. cbn [pieces_gen].
  destruct (b =? 37) eqn:E37.
  - apply Z.eqb_eq in E37. subst b.
    assert (Hvr : utf8_valid r = true) by (apply valid_ascii_tail in Hv; [exact Hv|lia]).
    destruct (classify exact_simple r) as [rest its|n leak resume] eqn:Ec.
    + unfold classify in Ec. destruct (split_mod r) as [pad r1] eqn:Ep.
      destruct (lookup doc_table r1) as [[e rest']|] eqn:El; [|discriminate].
      destruct (row_bad e pad); [discriminate|]. injection Ec as <- <-.
      destruct (percent_row _ _ _ Ep) as (m & Hm & Hr & _ & _).
      destruct (lookup_sound _ _ _ _ El) as (name & Hin & Hs). subst r1 r.
      assert (Hvrest : utf8_valid rest' = true).
      { apply (valid_ascii_prefix m (modifiers_ascii m Hm)) in Hvr.
        pose proof (proj1 (Forall_forall _ _) ascii_names _ Hin) as Hn. cbn [fst] in Hn.
        apply (valid_ascii_prefix name Hn) in Hvr. exact Hvr. }
      destruct (row_facts name e Hin pad) as (Hd & Hse & _).
      assert (Hsrc : 37 :: m ++ name ++ rest' = (37 :: m ++ name) ++ rest').
      { cbn [app]. rewrite <- app_assoc. reflexivity. }
      rewrite Hsrc, firstn_app_sub.
      assert (Hstop : stop_piece (37 :: m ++ name, row_items exact_simple e pad) = false).
      { unfold stop_piece. cbn [fst snd]. unfold starts_err in Hse.
        destruct (row_items exact_simple e pad) as [|[] ?]; try reflexivity. discriminate Hse. }
      exists (37 :: m ++ name), (row_items exact_simple e pad), rest'.
      match goal with |- context [if stop_piece ?p then _ else _] =>
        replace (stop_piece p) with false by (symmetry; exact Hstop) end.
      split; [reflexivity|]. split; [reflexivity|]. split; [discriminate|]. split; [exact Hvrest|].
      split; [|reflexivity]. unfold dense. cbn [fst snd List.length]. rewrite app_length. lia.
    + destruct (classify_bad r n leak resume Ec) as (Hn & Hd & Hres).
      assert (Hvs : utf8_valid (skipn n r) = true) by (rewrite Hn; exact (bad_valid r Hvr)).
      destruct l.
      * exists (37 :: firstn n r), (Literal (37 :: firstn n r) :: leak), (skipn n r).
        split; [reflexivity|]. split; [cbn [app]; rewrite firstn_skipn; reflexivity|].
        split; [discriminate|]. split; [exact Hvs|]. split; [|reflexivity].
        unfold dense. cbn [fst snd List.length] in *. lia.
      * exists (37 :: firstn n r), (IError :: leak), (skipn n r).
        split.
        { rewrite Hres. destruct (stop_piece _); reflexivity. }
        split; [cbn [app]; rewrite firstn_skipn; reflexivity|].
        split; [discriminate|]. split; [exact Hvs|]. split; [|discriminate].
        unfold dense. cbn [fst snd List.length] in *. lia.
  - destruct (first_char_not_percent b r Hv ltac:(lia)) as (c0 & Hnc & Ec0).
    destruct (text_step_exact false [] (b :: r) c0 Hv Hnc Ec0) as (Hk & Hvk & _).
    rewrite Hnc. destruct (is_whitespace c0); cbv zeta in *.
    + exists (firstn (run is_whitespace (b :: r)) (b :: r)), [Space (firstn (run is_whitespace (b :: r)) (b :: r))],
        (skipn (run is_whitespace (b :: r)) (b :: r)).
      split; [reflexivity|]. split; [rewrite firstn_skipn; reflexivity|].
      split; [intros H; apply (f_equal (@List.length Z)) in H; rewrite firstn_length in H; cbn [List.length] in *; lia|].
      split; [exact Hvk|]. split; [|reflexivity].
      unfold dense. cbn [fst snd]. rewrite firstn_length. cbn [List.length] in *. lia.
    + exists (firstn (run lit_char (b :: r)) (b :: r)), [Literal (firstn (run lit_char (b :: r)) (b :: r))],
        (skipn (run lit_char (b :: r)) (b :: r)).
      split; [reflexivity|]. split; [rewrite firstn_skipn; reflexivity|].
      split; [intros H; apply (f_equal (@List.length Z)) in H; rewrite firstn_length in H; cbn [List.length] in *; lia|].
      split; [exact Hvk|]. split; [|reflexivity].
      unfold dense. cbn [fst snd]. rewrite firstn_length. cbn [List.length] in *. lia.
Qed.

(** * coverage, stopping structure and density, by induction over the steps *)
Lemma pieces_gen_nil comp l f : pieces_gen comp l f [] = [].
Proof. destruct f; reflexivity. Qed.

Lemma pieces_main l : forall f s, (List.length s < f)%nat -> utf8_valid s = true ->
  let P := pieces_gen exact_simple l f s in
  exists tail, s = List.concat (map fst P) ++ tail /\
    existsb stop_piece (removelast P) = false /\
    (existsb stop_piece P = false -> tail = []) /\
    (l = true -> existsb stop_piece P = false) /\
    Forall dense P /\ Forall (fun p => fst p <> []) P.
Proof.
  induction f as [|f IH]; intros s Hf Hv; [lia|]. cbv zeta.
  destruct s as [|b r] eqn:Es.
  { exists []. cbn. repeat split; auto. }
  rewrite <- Es in *. assert (Hne : s <> []) by (rewrite Es; discriminate).
  destruct (pieces_step l f s Hv Hne) as (src & its & rm & Hp & Hs & Hsrc & Hvrm & Hd & Hl).
  rewrite Hp. destruct (stop_piece (src, its)) eqn:Est.
  - exists rm. cbn [map fst List.concat removelast existsb]. rewrite Est, app_nil_r.
    split; [exact Hs|]. split; [reflexivity|]. split; [discriminate|].
    split; [intros El; specialize (Hl El); discriminate|].
    split; repeat constructor; assumption.
  - assert (Hlen : (List.length rm < f)%nat).
    { rewrite Hs, app_length in Hf. destruct src; [congruence|]. cbn [List.length] in Hf. lia. }
    destruct (IH rm Hlen Hvrm) as (tail & Hc & Hrl & Ht & Hll & HD & HN). cbv zeta in *.
    exists tail. cbn [map fst List.concat existsb]. rewrite Est. cbn [orb].
    split; [rewrite <- app_assoc, <- Hc; exact Hs|].
    split.
    { destruct (pieces_gen exact_simple l f rm) as [|p P'] eqn:EP; [reflexivity|].
      change (removelast ((src, its) :: p :: P')) with ((src, its) :: removelast (p :: P')).
      cbn [existsb]. rewrite Est, Hrl. reflexivity. }
    split; [exact Ht|]. split; [exact Hll|].
    split; constructor; assumption.
Qed.

Theorem pieces_cover_lenient : forall s, utf8_valid s = true ->
  List.concat (map fst (pieces true s)) = s.
Proof.
  intros s Hv. destruct (pieces_main true (S (List.length s)) s ltac:(lia) Hv) as (tail & Hc & _ & Ht & Hl & _).
  cbv zeta in *. rewrite (Ht (Hl eq_refl)), app_nil_r in Hc. symmetry. exact Hc.
Qed.
Theorem pieces_cover_strict : forall s, utf8_valid s = true ->
  exists tail, s = List.concat (map fst (pieces false s)) ++ tail /\
    existsb stop_piece (removelast (pieces false s)) = false /\
    (existsb stop_piece (pieces false s) = false -> tail = []).
Proof.
  intros s Hv. destruct (pieces_main false (S (List.length s)) s ltac:(lia) Hv) as (tail & Hc & Hr & Ht & _).
  exists tail. auto.
Qed.
Theorem pieces_lenient_no_stop : forall s, utf8_valid s = true -> existsb stop_piece (pieces true s) = false.
Proof.
  intros s Hv. destruct (pieces_main true (S (List.length s)) s ltac:(lia) Hv) as (tail & _ & _ & _ & Hl & _).
  exact (Hl eq_refl).
Qed.
Theorem pieces_dense : forall l s, utf8_valid s = true ->
  Forall (fun p => (2 * List.length (snd p) <= 13 * List.length (fst p))%nat /\ fst p <> []) (pieces l s).
Proof.
  intros l s Hv. destruct (pieces_main l (S (List.length s)) s ltac:(lia) Hv) as (tail & _ & _ & _ & _ & HD & HN).
  cbv zeta in *. unfold pieces. induction HD; inversion HN; subst; constructor; auto.
Qed.

Lemma dense_sum (P : list piece) : Forall dense P ->
  (2 * List.length (List.concat (map snd P)) <= 13 * List.length (List.concat (map fst P)))%nat.
Proof.
  induction 1 as [|p P Hp _ IH]; [cbn; lia|].
  cbn [map List.concat]. rewrite !app_length. unfold dense in Hp. lia.
Qed.

(** the tight density bound: 13 items per 2 bytes, both modes *)
Theorem items_density : forall l s, utf8_valid s = true ->
  2 * Z.of_nat (List.length (exact_items l s)) <= 13 * blen s.
Proof.
  intros l s Hv. destruct (pieces_main l (S (List.length s)) s ltac:(lia) Hv) as (tail & Hc & _ & _ & _ & HD & _).
  cbv zeta in *. pose proof (dense_sum _ HD) as H. fold (pieces l s) in *.
  rewrite pieces_items in H. apply (f_equal (@List.length Z)) in Hc. rewrite app_length in Hc.
  unfold blen. lia.
Qed.
(** ... for the drained iterator itself *)
Theorem take_density : forall l s, utf8_valid s = true -> blen s <= u64_max ->
  exists L, sf_take (S (sf_bound s)) (mk_sfi s [] l) [] = Val (Some L) /\
            2 * Z.of_nat (List.length L) <= 13 * blen s.
Proof.
  intros l s Hv Hl. exists (exact_items l s). split; [exact (items_exact l s Hv Hl)|exact (items_density l s Hv)].
Qed.

(** examples: a composite is one piece; "%Q" is the piece "%" (the Q is text of the next piece);
    strict mode stops after an Error piece unless its source is "%:" *)
Local Open Scope string_scope.
Lemma pieces_examples :
  pieces true (Bs "a %c%-Dz%Qx") =
    [(Bs "a", [Literal (Bs "a")]); (Bs " ", [Space (Bs " ")]); (Bs "%c", exact_simple (Bs "%a %b %e %H:%M:%S %Y"));
     (Bs "%-D", Literal (Bs "%-D") :: tl (exact_simple (Bs "%m/%d/%y"))); (Bs "z", [Literal (Bs "z")]);
     (Bs "%", [Literal (Bs "%")]); (Bs "Qx", [Literal (Bs "Qx")])] /\
  pieces false (Bs "%:x%Y%Qx%Y") =
    [(Bs "%:", [IError]); (Bs "x", [Literal (Bs "x")]); (Bs "%Y", [num0 N_Year]); (Bs "%", [IError])] /\
  pieces false (Bs "%-Dx") = [(Bs "%-D", IError :: tl (exact_simple (Bs "%m/%d/%y")))] /\
  List.length (snd (hd ([], []) (pieces false (Bs "%c")))) = 13%nat.
Proof. vm_compute. repeat split; reflexivity. Qed.
Lemma pieces_inhabited : utf8_valid (Bs "a %c%-Dz%Qx") = true /\ utf8_valid (Bs "%:x%Y%Qx%Y") = true.
Proof. vm_compute. split; reflexivity. Qed.
