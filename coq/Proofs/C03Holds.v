(** C03 — the executable statement of the property (Judge/C03.v, the oracle applied to the
    implementation's outputs) accepts the model's output on the in-domain cases of the iterator ops:
    it.days / it.weeks / it.drev / it.wrev (both directions), it.dhint / it.whint and it.dlen / it.wlen
    (forward; backward is the known finding C03-iter-rev-size-hint), it.dcount / it.wcount /
    it.dlast / it.wlast (within ten years of the end they run to), it.dstep / it.wstep.
    Together with the correspondence run (implementation = model on the generated cases) this closes
    the loop  implementation ~ model |= judge  for these ops. *)
From Coq Require Import String ZArith List Bool Lia ZifyBool.
From V Require Import Base.Int Base.IO Base.IntLemmas Spec.Gregorian Model.TimeDelta Model.DateTime Model.C03 Proofs.C06 Proofs.C03 Proofs.C03Adapt.
From V Require Model.Date Model.Time Judge.C03 Proofs.C01Holds Proofs.C08Date Proofs.C08Days.
Import ListNotations.
Open Scope Z_scope.
Ltac Zify.zify_post_hook ::= Z.to_euclidean_division_equations.

Module J := Judge.C03.

(** * bridge between the model's and the judge's reading of a date argument / result *)
Definition vd (y o : Z) : val := VTup [VInt y; VInt o].
Lemma dec_date_ok y o : year_in_range y = true -> valid_yo y o = true ->
  exists x, dec_date (vd y o) = Some x /\ vdate x /\ dn x = dn_of_yo y o /\ Date.d_year x = y.
Proof.
  intros Hy Ho. unfold vd, dec_date. rewrite (year_in_range_i32 y Hy), (valid_yo_u32 y o Ho). cbn [andb].
  rewrite C08Date.from_yo_opt_spec by (eauto using year_in_range_i32, valid_yo_u32).
  rewrite Hy, Ho. cbn [andb C08Date.date_if]. eexists. split; [reflexivity|].
  pose proof (C08Date.repr_mk y o Hy Ho) as Rp. destruct (repr_vdate _ _ _ Rp) as [V D].
  split; [exact V|]. split; [exact D|].
  pose proof (C08Date.repr_acc y o _ Rp) as A. destruct (md_of_ordinal (is_leap y) o). apply A.
Qed.
Lemma dn_of_date_ok y o : year_in_range y = true -> valid_yo y o = true ->
  J.dn_of_date (vd y o) = Some (dn_of_yo y o).
Proof. intros Hy Ho. unfold vd, J.dn_of_date. rewrite Hy, Ho. reflexivity. Qed.
Lemma enc_date_dn x : vdate x -> enc_date x = J.enc_dn (dn x).
Proof.
  intros [_ [Ho _]]. unfold J.enc_dn, dn. rewrite C08Days.yo_of_dn_of_yo by exact Ho. reflexivity.
Qed.
Lemma small_ok k : 0 <= k <= 5000 -> arg_small (VInt k) = Some k /\ J.small_of (VInt k) = Some k.
Proof. intros H. unfold arg_small, J.small_of. replace ((0 <=? k) && (k <=? 5000)) with true by lia. split; reflexivity. Qed.
Definition dirv (fwd : bool) : Z := if fwd then 0 else 1.
Lemma dir_ok fwd : arg_dir (VInt (dirv fwd)) = Some fwd /\ J.dir_of (VInt (dirv fwd)) = Some fwd.
Proof. destruct fwd; split; reflexivity. Qed.
Lemma avail_bridge stride fwd x : J.it_avail stride (dn x) fwd = seq_avail stride fwd x.
Proof. reflexivity. Qed.

Lemma date_iter_pick (f b : Z -> R (option Z * Z)) stride (fwd : bool) :
  date_iter f stride true -> date_iter b stride false -> date_iter (if fwd then f else b) stride fwd.
Proof. intros Hf Hb. destruct fwd; assumption. Qed.

(** the judge's expected item [i] is the encoding of the model's date with that day number *)
Lemma enc_bridge stride fwd x i v : vdate v -> dn v = seq_dn stride fwd x i ->
  J.enc_dn (if fwd then dn x + i * stride else dn x - i * stride) = enc_date v.
Proof.
  intros V D. rewrite (enc_date_dn v V), D. unfold seq_dn. rewrite (Z.mul_comm stride i). reflexivity.
Qed.
Lemma item_bridge stride fwd x i v : vdate v -> dn v = seq_dn stride fwd x i ->
  VSome (J.enc_dn (if fwd then dn x + i * stride else dn x - i * stride)) = VSome (enc_date v).
Proof.
  intros V D. rewrite (enc_date_dn v V), D. unfold seq_dn. rewrite (Z.mul_comm stride i). reflexivity.
Qed.

(** * it.days / it.weeks / it.drev / it.wrev *)
Lemma observe_accept step stride fwd x k cap : date_iter step stride fwd -> vdate x -> 0 <= k -> 0 <= cap ->
  val_of_R enc_obs (it_observe step x k cap) =
    VTup [J.it_item stride (dn x) k fwd;
          if J.it_remaining stride (dn x) k fwd <=? cap then VSome (VInt (J.it_remaining stride (dn x) k fwd)) else VNone].
Proof.
  intros H Hx Hk Hc. destruct (adapt_observe step stride fwd H x k cap Hx Hk Hc) as [v [V [D O]]].
  cbv zeta in O, D. rewrite O. cbn [val_of_R]. unfold enc_obs, J.it_item, J.it_remaining. cbn [fst snd].
  rewrite !avail_bridge. f_equal. f_equal.
  - destruct (k <? seq_avail stride fwd x) eqn:E; [|reflexivity]. cbn [vo_date val_of_option].
    symmetry. apply (item_bridge stride fwd x k v V). apply D. lia.
  - f_equal. destruct (Z.max 0 (seq_avail stride fwd x - k) <=? cap); reflexivity.
Qed.

Lemma run_it_accept (f b : Z -> R (option Z * Z)) stride y o k fwd cap :
  date_iter f stride true -> date_iter b stride false ->
  year_in_range y = true -> valid_yo y o = true -> 0 <= k <= 5000 -> 0 <= cap <= 5000 ->
  J.j_it stride [vd y o; VInt k; VInt (dirv fwd); VInt cap]
    (run_it f b [vd y o; VInt k; VInt (dirv fwd); VInt cap]) = JOk.
Proof.
  intros Hf Hb Hy Ho Hk Hc. destruct (dec_date_ok y o Hy Ho) as [x [Ex [Vx [Dx _]]]].
  destruct (small_ok k Hk) as [K1 K2]. destruct (small_ok cap Hc) as [C1 C2]. destruct (dir_ok fwd) as [D1 D2].
  unfold run_it, J.j_it. rewrite Ex, K1, K2, C1, C2, D1, D2, (dn_of_date_ok y o Hy Ho), <- Dx.
  rewrite (observe_accept _ stride fwd x k cap (date_iter_pick f b stride fwd Hf Hb) Vx) by lia.
  apply Proofs.C01Holds.judge_eq_refl.
Qed.

Lemma holds_observe y o k fwd cap :
  year_in_range y = true -> valid_yo y o = true -> 0 <= k <= 5000 -> 0 <= cap <= 5000 ->
  let args := [vd y o; VInt k; VInt (dirv fwd); VInt cap] in
  J.judge B"it.days" args (run B"it.days" args) = JOk /\
  J.judge B"it.weeks" args (run B"it.weeks" args) = JOk /\
  J.judge B"it.drev" args (run B"it.drev" args) = JOk /\
  J.judge B"it.wrev" args (run B"it.wrev" args) = JOk.
Proof.
  intros Hy Ho Hk Hc args. split; [|split; [|split]].
  - exact (run_it_accept days_next days_next_back 1 y o k fwd cap DI_days_forward DI_days_backward Hy Ho Hk Hc).
  - exact (run_it_accept weeks_next weeks_next_back 7 y o k fwd cap DI_weeks_forward DI_weeks_backward Hy Ho Hk Hc).
  - change (J.judge B"it.drev" args (run B"it.drev" args)) with
      (J.j_it 1 [vd y o; VInt k; VInt (1 - dirv fwd); VInt cap] (run_it days_next_back days_next args)).
    replace (1 - dirv fwd) with (dirv (negb fwd)) by (destruct fwd; reflexivity).
    replace (run_it days_next_back days_next args)
      with (run_it days_next days_next_back [vd y o; VInt k; VInt (dirv (negb fwd)); VInt cap])
      by (destruct fwd; apply run_it_swap).
    exact (run_it_accept days_next days_next_back 1 y o k (negb fwd) cap DI_days_forward DI_days_backward Hy Ho Hk Hc).
  - change (J.judge B"it.wrev" args (run B"it.wrev" args)) with
      (J.j_it 7 [vd y o; VInt k; VInt (1 - dirv fwd); VInt cap] (run_it weeks_next_back weeks_next args)).
    replace (1 - dirv fwd) with (dirv (negb fwd)) by (destruct fwd; reflexivity).
    replace (run_it weeks_next_back weeks_next args)
      with (run_it weeks_next weeks_next_back [vd y o; VInt k; VInt (dirv (negb fwd)); VInt cap])
      by (destruct fwd; apply run_it_swap).
    exact (run_it_accept weeks_next weeks_next_back 7 y o k (negb fwd) cap DI_weeks_forward DI_weeks_backward Hy Ho Hk Hc).
Qed.

(** * it.dhint / it.whint and it.dlen / it.wlen, forward *)
Lemma holds_hint_len y o k :
  year_in_range y = true -> valid_yo y o = true -> 0 <= k <= 5000 ->
  let args := [vd y o; VInt k; VInt 0] in
  let args2 := [vd y o; VInt k] in
  J.judge B"it.dhint" args (run B"it.dhint" args) = JOk /\
  J.judge B"it.whint" args (run B"it.whint" args) = JOk /\
  J.judge B"it.dlen" args2 (run B"it.dlen" args2) = JOk /\
  J.judge B"it.wlen" args2 (run B"it.wlen" args2) = JOk.
Proof.
  intros Hy Ho Hk args args2. destruct (dec_date_ok y o Hy Ho) as [x [Ex [Vx [Dx _]]]].
  destruct (small_ok k Hk) as [K1 K2]. pose proof (dn_of_date_ok y o Hy Ho) as Ej.
  split; [|split; [|split]].
  - change (J.judge B"it.dhint" args (run B"it.dhint" args)) with
      (J.j_hint 1 args (run_hint days_next days_next_back days_size_hint args)).
    unfold args, run_hint, a3, J.j_hint. rewrite Ex, K1, K2, Ej, <- Dx. cbn [arg_dir J.dir_of].
    destruct (iter_days_forward_u x (Z.to_nat k) Vx) as [v [E [_ [_ [_ [Hh _]]]]]].
    rewrite Z2Nat.id in Hh by lia. unfold it_hint. rewrite E. cbn [bind]. rewrite Hh. cbn [val_of_R].
    unfold enc_hint, J.it_remaining, J.it_avail. cbn [fst snd val_of_option].
    rewrite Proofs.C01Holds.val_eqb_refl. reflexivity.
  - change (J.judge B"it.whint" args (run B"it.whint" args)) with
      (J.j_hint 7 args (run_hint weeks_next weeks_next_back weeks_size_hint args)).
    unfold args, run_hint, a3, J.j_hint. rewrite Ex, K1, K2, Ej, <- Dx. cbn [arg_dir J.dir_of].
    destruct (iter_weeks_forward_u x (Z.to_nat k) Vx) as [v [E [_ [_ [_ [Hh _]]]]]].
    rewrite Z2Nat.id in Hh by lia. unfold it_hint. rewrite E. cbn [bind]. rewrite Hh. cbn [val_of_R].
    unfold enc_hint, J.it_remaining, J.it_avail. cbn [fst snd val_of_option].
    rewrite Proofs.C01Holds.val_eqb_refl. reflexivity.
  - change (J.judge B"it.dlen" args2 (run B"it.dlen" args2)) with
      (J.j_len 1 args2 (a2 dec_date arg_small args2 (fun d k => val_of_R VInt (it_len days_next days_size_hint d k)))).
    unfold args2, a2, J.j_len. rewrite Ex, K1, K2, Ej, <- Dx.
    rewrite adapt_len_days by (try exact Vx; lia). cbn [val_of_R]. apply Proofs.C01Holds.judge_eq_refl.
  - change (J.judge B"it.wlen" args2 (run B"it.wlen" args2)) with
      (J.j_len 7 args2 (a2 dec_date arg_small args2 (fun d k => val_of_R VInt (it_len weeks_next weeks_size_hint d k)))).
    unfold args2, a2, J.j_len. rewrite Ex, K1, K2, Ej, <- Dx.
    rewrite adapt_len_weeks by (try exact Vx; lia). cbn [val_of_R]. apply Proofs.C01Holds.judge_eq_refl.
Qed.

(** * it.dcount / it.wcount / it.dlast / it.wlast: asked within ten years of the end they run to *)
Definition near_end_y (y : Z) (fwd : bool) : bool := if fwd then 262133 <=? y else y <=? -262134.

Lemma dby_lo : days_before_year 262133 = 95741747. Proof. vm_compute. reflexivity. Qed.
Lemma dby_hi : days_before_year (-262133) = -95742478. Proof. vm_compute. reflexivity. Qed.
Lemma near_end_avail stride fwd x : vdate x -> 1 <= stride -> near_end_y (Date.d_year x) fwd = true ->
  seq_avail stride fwd x < 4000.
Proof.
  intros [Hy [Ho _]] Hs Hn. unfold seq_avail, dn, dn_of_yo, near_end_y in *.
  unfold valid_yo in Ho. set (y := Date.d_year x) in *. set (o := Date.d_ordinal x) in *.
  assert (Hd : days_in_year y <= 366) by (unfold days_in_year; destruct (is_leap y); lia).
  destruct fwd.
  - pose proof (dby_mono 262133 y ltac:(lia)) as M. rewrite dby_lo in M.
    assert (DN_MAX - (days_before_year y + o) < 4000) by (unfold DN_MAX; lia).
    assert (0 <= DN_MAX - (days_before_year y + o)).
    { unfold year_in_range, MAX_YEAR in Hy. pose proof (dby_mono (y + 1) 262143 ltac:(lia)) as M2.
      rewrite dby_step in M2. replace (days_before_year 262143) with DN_MAX in M2 by (vm_compute; reflexivity). lia. }
    apply Z.div_lt_upper_bound; nia.
  - pose proof (dby_mono (y + 1) (-262133) ltac:(lia)) as M. rewrite dby_hi, dby_step in M.
    assert (days_before_year y + o - DN_MIN < 4000) by (unfold DN_MIN; lia).
    assert (0 <= days_before_year y + o - DN_MIN).
    { unfold year_in_range, MIN_YEAR in Hy. pose proof (dby_mono (-262143) y ltac:(lia)) as M2.
      replace (days_before_year (-262143)) with (DN_MIN - 1) in M2 by (vm_compute; reflexivity). lia. }
    apply Z.div_lt_upper_bound; nia.
Qed.

Lemma end_accept (f b : Z -> R (option Z * Z)) stride y o fwd :
  date_iter f stride true -> date_iter b stride false -> 1 <= stride ->
  year_in_range y = true -> valid_yo y o = true -> near_end_y y fwd = true ->
  J.j_end J.exp_count stride [vd y o; VInt (dirv fwd)]
    (run_end VInt it_count_all f b [vd y o; VInt (dirv fwd)]) = JOk /\
  J.j_end J.exp_last stride [vd y o; VInt (dirv fwd)]
    (run_end vo_date (fun st v => it_last st 4000 v None) f b [vd y o; VInt (dirv fwd)]) = JOk.
Proof.
  intros Hf Hb Hs Hy Ho Hn. destruct (dec_date_ok y o Hy Ho) as [x [Ex [Vx [Dx Yx]]]].
  destruct (dir_ok fwd) as [D1 D2]. pose proof (dn_of_date_ok y o Hy Ho) as Ej.
  pose proof (date_iter_pick f b stride fwd Hf Hb) as Hi.
  assert (Hlt : seq_avail stride fwd x < 4000) by (apply near_end_avail; [exact Vx|exact Hs|rewrite Yx; exact Hn]).
  assert (Hne : near_end x fwd = true) by (unfold near_end; rewrite Yx; unfold near_end_y in Hn; destruct fwd; lia).
  assert (Hnj : J.near_end_j (vd y o) fwd = true) by exact Hn.
  pose proof (date_iter_ok _ _ _ Hi) as [Hd [Hok [Hav _]]].
  pose proof (avail_nonneg _ Hd x Vx) as AN. rewrite Hav in AN.
  unfold run_end, a2, J.j_end. rewrite Ex, D1, D2, Ej, Hnj, Hne, <- Dx. split.
  - rewrite (adapt_count _ stride fwd Hi x Vx). replace (seq_avail stride fwd x <? 4000) with true by lia.
    cbn [val_of_R]. unfold J.exp_count, J.it_remaining. rewrite avail_bridge.
    rewrite Z.sub_0_r, Z.max_r by lia. apply Proofs.C01Holds.judge_eq_refl.
  - pose proof (adapt_last _ stride fwd Hi x Vx) as L. cbv zeta in L.
    replace (seq_avail stride fwd x <? 4000) with true in L by lia.
    destruct L as [r [E [R0 R1]]]. rewrite E. cbn [val_of_R]. unfold J.exp_last, J.it_item. rewrite !avail_bridge.
    destruct (seq_avail stride fwd x <=? 0) eqn:E0.
    + rewrite R0 by lia. apply Proofs.C01Holds.judge_eq_refl.
    + destruct (R1 ltac:(lia)) as [v [Er [Vv Dv]]]. subst r.
      replace (seq_avail stride fwd x - 1 <? seq_avail stride fwd x) with true by lia.
      rewrite (item_bridge stride fwd x _ v Vv Dv). apply Proofs.C01Holds.judge_eq_refl.
Qed.

Lemma holds_end y o fwd :
  year_in_range y = true -> valid_yo y o = true -> near_end_y y fwd = true ->
  let args := [vd y o; VInt (dirv fwd)] in
  J.judge B"it.dcount" args (run B"it.dcount" args) = JOk /\
  J.judge B"it.wcount" args (run B"it.wcount" args) = JOk /\
  J.judge B"it.dlast" args (run B"it.dlast" args) = JOk /\
  J.judge B"it.wlast" args (run B"it.wlast" args) = JOk.
Proof.
  intros Hy Ho Hn args.
  destruct (end_accept days_next days_next_back 1 y o fwd DI_days_forward DI_days_backward ltac:(lia) Hy Ho Hn) as [A1 A2].
  destruct (end_accept weeks_next weeks_next_back 7 y o fwd DI_weeks_forward DI_weeks_backward ltac:(lia) Hy Ho Hn) as [A3 A4].
  split; [exact A1|]. split; [exact A3|]. split; [exact A2|exact A4].
Qed.

(** * it.dstep / it.wstep *)
Lemma exp_steps_spec stride fwd x st : 1 <= st -> 0 <= seq_avail stride fwd x ->
  forall (n : nat) i l, 0 <= i ->
  Z.of_nat (length l) = Z.min (Z.of_nat n) (Z.max 0 ((seq_avail stride fwd x + st - 1) / st - i)) ->
  (forall j z, nth_error l j = Some z -> vdate z /\ dn z = seq_dn stride fwd x (st * (i + Z.of_nat j))) ->
  map enc_date l = J.exp_steps stride (dn x) st fwd i n.
Proof.
  intros Hst Ha. set (a := seq_avail stride fwd x) in *. set (q := (a + st - 1) / st).
  pose proof (Z.mul_div_le (a + st - 1) st ltac:(lia)) as Q1.
  pose proof (Z.mul_succ_div_gt (a + st - 1) st ltac:(lia)) as Q2. fold q in Q1, Q2.
  induction n as [|n IH]; intros i l Hi Hlen Hent.
  - destruct l as [|z l]; [reflexivity|]. cbn [length] in Hlen. lia.
  - cbn [J.exp_steps]. unfold J.it_item. rewrite avail_bridge. fold a.
    destruct (i * st <? a) eqn:E.
    + assert (Hq : i < q) by nia.
      destruct l as [|z l]; [cbn [length] in Hlen; lia|].
      destruct (Hent 0%nat z eq_refl) as [Vz Dz].
      replace (st * (i + Z.of_nat 0)) with (i * st) in Dz by lia.
      rewrite (enc_bridge stride fwd x (i * st) z Vz Dz).
      cbn [map]. f_equal. apply IH; [lia| |].
      * cbn [length] in Hlen. lia.
      * intros j w Hw. destruct (Hent (S j) w Hw) as [Vw Dw]. split; [exact Vw|].
        rewrite Dw. f_equal. lia.
    + assert (Hq : q <= i) by nia.
      destruct l as [|z l]; [reflexivity|]. cbn [length] in Hlen. lia.
Qed.

Lemma step_accept (f b : Z -> R (option Z * Z)) stride y o fwd s cap :
  date_iter f stride true -> date_iter b stride false ->
  year_in_range y = true -> valid_yo y o = true -> 1 <= s <= 5000 -> 0 <= cap <= 60 ->
  J.j_step stride [vd y o; VInt (dirv fwd); VInt s; VInt cap]
    (run_step f b [vd y o; VInt (dirv fwd); VInt s; VInt cap]) = JOk.
Proof.
  intros Hf Hb Hy Ho Hs Hc. destruct (dec_date_ok y o Hy Ho) as [x [Ex [Vx [Dx _]]]].
  destruct (small_ok s ltac:(lia)) as [S1 S2]. destruct (small_ok cap ltac:(lia)) as [C1 C2]. destruct (dir_ok fwd) as [D1 D2].
  pose proof (date_iter_pick f b stride fwd Hf Hb) as Hi.
  pose proof (date_iter_ok _ _ _ Hi) as [Hd [Hok [Hav _]]].
  pose proof (avail_nonneg _ Hd x Vx) as AN. rewrite Hav in AN.
  unfold run_step, J.j_step. rewrite Ex, S1, S2, C1, C2, D1, D2, (dn_of_date_ok y o Hy Ho), <- Dx.
  replace ((s =? 0) || (60 <? cap)) with false by lia. replace ((1 <=? s) && (cap <=? 60)) with true by lia.
  destruct (adapt_step_by _ stride fwd Hi s (Z.to_nat cap) x Vx ltac:(lia)) as [l [E [Len Ent]]].
  rewrite E. cbn [val_of_R].
  rewrite (exp_steps_spec stride fwd x s ltac:(lia) AN (Z.to_nat cap) 0 l ltac:(lia)).
  - apply Proofs.C01Holds.judge_eq_refl.
  - rewrite Len. assert (0 <= (seq_avail stride fwd x + s - 1) / s) by (apply Z.div_pos; lia). lia.
  - intros j z Hz. destruct (Ent j z Hz) as [Vz Dz]. split; [exact Vz|]. rewrite Dz. f_equal.
Qed.

Lemma holds_step y o fwd s cap :
  year_in_range y = true -> valid_yo y o = true -> 1 <= s <= 5000 -> 0 <= cap <= 60 ->
  let args := [vd y o; VInt (dirv fwd); VInt s; VInt cap] in
  J.judge B"it.dstep" args (run B"it.dstep" args) = JOk /\
  J.judge B"it.wstep" args (run B"it.wstep" args) = JOk.
Proof.
  intros Hy Ho Hs Hc args. split.
  - exact (step_accept days_next days_next_back 1 y o fwd s cap DI_days_forward DI_days_backward Hy Ho Hs Hc).
  - exact (step_accept weeks_next weeks_next_back 7 y o fwd s cap DI_weeks_forward DI_weeks_backward Hy Ho Hs Hc).
Qed.

(** the hypotheses are inhabited (and the ops answer) *)
Lemma holds_examples :
  year_in_range 262142 = true /\ valid_yo 262142 100 = true /\ near_end_y 262142 true = true /\
  year_in_range (-262143) = true /\ valid_yo (-262143) 100 = true /\ near_end_y (-262143) false = true /\
  run B"it.dcount" [vd 262142 100; VInt 0] = VInt 265 /\
  run B"it.wlast" [vd (-262143) 100; VInt 1] = VSome (vd (-262143) 9).
Proof. vm_compute. repeat split.
Qed.
