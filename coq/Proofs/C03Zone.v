(** C03 — DateTime<Tz> +- Days, for EVERY value: [zone_days_exact_partial] (Proofs/C03.v) covers the
    values whose local reading is representable; here the remaining ones — the local reading lies in
    the one-day headroom, so [overflowing_naive_local] returns one of the two sentinel date words
    BEFORE_MIN / AFTER_MAX — are done by computation on the two literal words (Proofs/C03Headroom.v). *)
From Coq Require Import ZArith List Bool Lia ZifyBool.
From V Require Import Base.Int Base.IO Base.IntLemmas Base.Lift Spec.Gregorian Model.TimeDelta Model.DateTime Model.C03 Proofs.C06 Proofs.C03.
From V Require Model.Date Model.Time.
From V Require Proofs.Date Proofs.C03Headroom.
Import ListNotations.
Open Scope Z_scope.
Ltac Zify.zify_post_hook ::= Z.to_euclidean_division_equations.

Module H := V.Proofs.C03Headroom.
Ltac zres := unfold zdays_res; cbv iota; cbn [dz_off dz_utc].
Ltac consts := unfold dn_in_range in *; unfold NS_MIN, NS_MAX, DN_MIN, DN_MAX, EPOCH_DN, DAYNS, G in *.

(** the local reading of a value in the headroom: the UTC date is the first / last date of the
    range, the reading is the sentinel word with the time of day shifted by the offset *)
Lemma local_headroom u off : nvalid u -> -86400 < off < 86400 -> ~ (NS_MIN <= inst u + off * G <= NS_MAX) ->
  exists t', tvalid t' /\ Time.tfrac t' = Time.tfrac (nd_time u) /\
   ((inst u + off * G < NS_MIN /\ nd_date u = Date.D_MIN /\
     ndt_overflowing_add_offset u off = Val (mk_ndt Date.D_BEFORE_MIN t') /\
     Time.tsecs t' = Time.tsecs (nd_time u) + off + 86400) \/
    (NS_MAX < inst u + off * G /\ nd_date u = Date.D_MAX /\
     ndt_overflowing_add_offset u off = Val (mk_ndt Date.D_AFTER_MAX t') /\
     Time.tsecs t' = Time.tsecs (nd_time u) + off - 86400)).
Proof.
  intros [Hd Ht] Ho Hr. unfold ndt_overflowing_add_offset.
  destruct (oao_spec _ off Ht Ho) as (t' & k & E & Vt & Ef & Es & Hk). rewrite E. cbn [bind].
  pose proof (vdate_range _ Hd) as Rg. rewrite inst_split in Hr. unfold tns in Hr.
  destruct Ht as [Hs Hf]. pose proof Vt as [Vs Vf].
  exists t'. split; [exact Vt|]. split; [exact Ef|].
  rewrite inst_split. unfold tns.
  destruct (Z_lt_dec ((dn (nd_date u) - EPOCH_DN) * DAYNS + (Time.tsecs (nd_time u) * G + Time.tfrac (nd_time u)) + off * G) NS_MIN) as [Lo|Lo].
  - left. assert (Hk1 : k = -1) by (consts; lia). subst k.
    unfold shift_date_overflowing. change (-1 =? -1) with true. cbv iota.
    destruct (pred_holds _ Hd) as (r & Er & R). rewrite Er. cbn [bind].
    destruct r as [d'|].
    + exfalso. destruct R as [R1 R2]. pose proof (vdate_range _ R1). consts. lia.
    + split; [exact Lo|]. split; [|split; [reflexivity|lia]].
      apply vdate_inj; [exact Hd|apply vdate_min|]. rewrite (proj2 vdate_min). exact R.
  - right. assert (Hk1 : k = 1) by (consts; lia). subst k.
    unfold shift_date_overflowing. change (1 =? -1) with false. change (1 =? 1) with true. cbv iota.
    destruct (succ_holds _ Hd) as (r & Er & R). rewrite Er. cbn [bind].
    destruct r as [d'|].
    + exfalso. destruct R as [R1 R2]. pose proof (vdate_range _ R1). consts. lia.
    + split; [consts; lia|]. split; [|split; [reflexivity|lia]].
      apply vdate_inj; [exact Hd|apply vdate_max|]. rewrite (proj2 vdate_max). exact R.
Qed.

(** the tails of checked_add_days / checked_sub_days after the new local reading [l'] is known *)
Definition add_tail (off : Z) (l' : ndt) : R (option dtz) :=
  let* r := from_local_datetime off l' in
  Val (match mlt_single r with Some x => if ndt_le (dz_utc x) NDT_MAX then Some x else None | None => None end).
Definition sub_tail (off : Z) (l' : ndt) : R (option dtz) :=
  let* r := from_local_datetime off l' in
  Val (match mlt_single r with Some x => if ndt_le NDT_MIN (dz_utc x) then Some x else None | None => None end).

(* [l'] a valid reading: as in the representable case *)
Lemma tails_valid u l' off target : nvalid l' -> -86400 < off < 86400 -> inst l' = target + off * G ->
  (exists r, add_tail off l' = Val r /\ zdays_res u off target r) /\
  (exists r, sub_tail off l' = Val r /\ zdays_res u off target r).
Proof.
  intros Vl' Ho Il'. pose proof (nvalid_inst_range l' Vl') as Rl.
  unfold add_tail, sub_tail, from_local_datetime.
  destruct (ndt_sub_offset_spec l' off Vl' Ho) as [r2 [E2 R2]]. rewrite E2. cbn [bind].
  destruct r2 as [x|]; cbn in R2 |- *.
  - destruct R2 as [Vx Ix]. destruct (ndt_le_max x Vx) as [Le1 Le2]. rewrite Le1, Le2.
    split; (eexists; split; [reflexivity|]; cbn; split; [reflexivity|]; split; [exact Vx|lia]).
  - split; (eexists; split; [reflexivity|]; cbn; lia).
Qed.

(* taking the offset off a headroom-side reading: the carry is known *)
Lemma sub_offset_carry t t' off c : tvalid t -> tvalid t' -> -86400 < off < 86400 ->
  Time.tsecs t' = Time.tsecs t + off + 86400 * c -> Time.tfrac t' = Time.tfrac t -> (c = 1 \/ c = -1) ->
  Time.overflowing_sub_offset t' off = Val (t, c).
Proof.
  intros [Hs Hf] Vt' Ho Es Ef Hc.
  destruct (oso_spec t' off Vt' Ho) as (t'' & k & E & [Vs Vf] & Ef2 & Es2 & Hk). rewrite E.
  assert (k = c) by lia. subst k. f_equal. f_equal.
  destruct t as [ts tf], t'' as [ts'' tf'']. cbn [Time.tsecs Time.tfrac] in *. f_equal; lia.
Qed.

Lemma cmp_first_gt a b r1 r2 : b < a -> cmp_lex (a :: r1) (b :: r2) = 1.
Proof.
  intros H. cbn [cmp_lex]. unfold cmpZ. replace (a ?= b) with Gt by (symmetry; apply Z.compare_gt_iff; lia). reflexivity.
Qed.

Lemma u64_i32 n : in_u64 n = true -> n <=? i32_max = true -> as_i32 n = n /\ in_i32 n = true /\ in_i32 (- n) = true.
Proof.
  intros H1 H2. assert (Hi : in_i32 n = true) by (revert H1 H2; solve_in).
  split; [apply as_i32_id; exact Hi|]. split; [exact Hi|]. revert H1 H2. solve_in.
Qed.

Theorem zone_days_exact u off n : nvalid u -> -86400 < off < 86400 -> in_u64 n = true ->
  (exists r, dz_checked_add_days (mk_dtz u off) n = Val r /\ zdays_res u off (inst u + n * DAYNS) r) /\
  (exists r, dz_checked_sub_days (mk_dtz u off) n = Val r /\ zdays_res u off (inst u - n * DAYNS) r).
Proof.
  intros Hu Ho Hn.
  destruct (Z_le_dec NS_MIN (inst u + off * G)) as [H1|H1];
    [destruct (Z_le_dec (inst u + off * G) NS_MAX) as [H2|H2];
      [exact (zone_days_exact_partial u off n Hu Ho Hn (conj H1 H2))|]|].
  all: pose proof (nvalid_inst_range u Hu) as Ru;
       assert (Hn0 : 0 <= n) by (revert Hn; solve_in);
       destruct (local_headroom u off Hu Ho ltac:(lia)) as (t' & Vt' & Ef & [(Hlt & Hdu & El & Es)|(Hgt & Hdu & El & Es)]);
       try lia.
  - (* above: the local reading is AFTER_MAX *)
    destruct u as [du t]. cbn [nd_date nd_time] in *. subst du. pose proof Hu as [Hd Ht]. cbn [nd_date nd_time] in Hd, Ht.
    pose proof Ht as [Hts Htf]. pose proof Vt' as [Vts Vtf].
    assert (Iu : inst (mk_ndt Date.D_MAX t) = (DN_MAX - EPOCH_DN) * DAYNS + tns t)
      by (rewrite inst_split; cbn [nd_date nd_time]; rewrite (proj2 vdate_max); reflexivity).
    pose proof (sub_offset_carry t t' off (-1) Ht Vt' Ho ltac:(lia) Ef ltac:(right; reflexivity)) as Eso.
    destruct H.headroom_zero as (_ & Z0 & _ & P0).
    split.
    + (* add *)
      unfold dz_checked_add_days. destruct (n =? 0) eqn:E0.
      * exists (Some (mk_dtz (mk_ndt Date.D_MAX t) off)). split; [reflexivity|]. zres. apply Z.eqb_eq in E0. subst n. split; [reflexivity|]. split; [exact Hu|lia].
      * unfold overflowing_naive_local. cbn [dz_utc dz_off]. rewrite El. cbn [bind].
        unfold ndt_checked_add_days, ndt_map_date, Date.checked_add_days. cbn [nd_date nd_time].
        destruct (n <=? i32_max) eqn:En.
        2:{ unfold obind. cbn [bind]. eexists. split; [reflexivity|]. zres. unfold i32_max in En. rewrite Iu. unfold tns in *. consts. lia. }
        destruct (u64_i32 n Hn En) as (Eas & Hi & _). rewrite Eas.
        destruct (Z_le_dec n 364) as [Hs|Hs].
        -- (* same-year fast path: a word of the year MAX_YEAR+1, refused by the range filter *)
           pose proof (forall_range_spec _ _ _ H.after_max_fwd_sweep n ltac:(lia)) as Sw.
           unfold H.after_max_fwd_ok in Sw.
           destruct (Date.add_days Date.D_AFTER_MAX n) as [[w|]| |]; try discriminate.
           unfold obind. cbn [bind]. unfold from_local_datetime, ndt_checked_sub_offset. cbn [nd_date nd_time].
           rewrite Eso. cbn [bind]. unfold shift_date_checked. change (-1 =? -1) with true. cbv iota.
           destruct (Date.pred_opt w) as [[w1|]| |]; try discriminate; unfold obind; cbn [bind].
           ++ cbn [mlt_single dz_utc]. unfold ndt_le, ndt_cmp, NDT_MAX. cbn [nd_date nd_time].
              rewrite cmp_first_gt by lia. cbn. eexists. split; [reflexivity|]. zres. rewrite Iu. unfold tns in *. consts. lia.
           ++ cbn [mlt_single]. eexists. split; [reflexivity|]. zres. rewrite Iu. unfold tns in *. consts. lia.
        -- rewrite H.add_days_AFTER_MAX_slow by (try exact Hi; lia).
           replace (dn_in_range (DN_MAX + 1 + n)) with false by (unfold dn_in_range; lia).
           cbn [C08Date.date_if]. unfold obind. cbn [bind]. eexists. split; [reflexivity|]. zres.
           rewrite Iu. unfold tns in *. consts. lia.
    + (* sub *)
      unfold dz_checked_sub_days. unfold overflowing_naive_local. cbn [dz_utc dz_off]. rewrite El. cbn [bind].
      unfold ndt_checked_sub_days, ndt_map_date, Date.checked_sub_days. cbn [nd_date nd_time].
      destruct (n <=? i32_max) eqn:En.
      2:{ unfold obind. cbn [bind]. eexists. split; [reflexivity|]. zres. revert En. unfold i32_max. rewrite Iu. unfold tns in *. consts. lia. }
      destruct (u64_i32 n Hn En) as (Eas & Hi & Hi'). rewrite Eas. unfold neg_i32, chk. rewrite Hi'. cbn [bind].
      destruct (Z.eq_dec n 0) as [-> |Hnz].
      * (* zero days: the value itself *)
        change (- 0) with 0. rewrite Z0. unfold obind. cbn [bind].
        unfold from_local_datetime, ndt_checked_sub_offset. cbn [nd_date nd_time].
        rewrite Eso. cbn [bind]. unfold shift_date_checked. change (-1 =? -1) with true. cbv iota.
        rewrite P0. unfold obind. cbn [bind]. cbn [mlt_single dz_utc].
        destruct (ndt_le_max _ Hu) as [_ Le]. rewrite Le.
        eexists. split; [reflexivity|]. zres. split; [reflexivity|]. split; [exact Hu|lia].
      * rewrite H.add_days_AFTER_MAX_slow by (try exact Hi'; lia).
        replace (DN_MAX + 1 + - n) with (DN_MAX + 1 - n) by lia.
        destruct (dn_in_range (DN_MAX + 1 - n)) eqn:Er; cbn [C08Date.date_if]; unfold obind; cbn [bind].
        -- destruct (date_of_dn_vdate _ Er) as [Vd' Dd'].
           set (l' := mk_ndt (C08AddDays.date_of_dn (DN_MAX + 1 - n)) t').
           assert (Vl' : nvalid l') by (split; assumption).
           assert (Il' : inst l' = inst (mk_ndt Date.D_MAX t) - n * DAYNS + off * G).
           { rewrite Iu, inst_split. unfold l'. cbn [nd_date nd_time]. rewrite Dd'. unfold tns in *. rewrite Es, Ef. consts. lia. }
           destruct (tails_valid (mk_ndt Date.D_MAX t) l' off _ Vl' Ho Il') as [_ [r [Er2 Rr]]].
           exists r. split; [exact Er2|exact Rr].
        -- eexists. split; [reflexivity|]. zres. rewrite Iu. unfold tns in *. consts. lia.
  - (* below: the local reading is BEFORE_MIN *)
    destruct u as [du t]. cbn [nd_date nd_time] in *. subst du. pose proof Hu as [Hd Ht]. cbn [nd_date nd_time] in Hd, Ht.
    pose proof Ht as [Hts Htf]. pose proof Vt' as [Vts Vtf].
    assert (Iu : inst (mk_ndt Date.D_MIN t) = (DN_MIN - EPOCH_DN) * DAYNS + tns t)
      by (rewrite inst_split; cbn [nd_date nd_time]; rewrite (proj2 vdate_min); reflexivity).
    pose proof (sub_offset_carry t t' off 1 Ht Vt' Ho ltac:(lia) Ef ltac:(left; reflexivity)) as Eso.
    destruct H.headroom_zero as (Z0 & _ & S0 & _).
    split.
    + (* add *)
      unfold dz_checked_add_days. destruct (n =? 0) eqn:E0.
      * exists (Some (mk_dtz (mk_ndt Date.D_MIN t) off)). split; [reflexivity|]. zres. apply Z.eqb_eq in E0. subst n. split; [reflexivity|]. split; [exact Hu|lia].
      * unfold overflowing_naive_local. cbn [dz_utc dz_off]. rewrite El. cbn [bind].
        unfold ndt_checked_add_days, ndt_map_date, Date.checked_add_days. cbn [nd_date nd_time].
        destruct (n <=? i32_max) eqn:En.
        2:{ unfold obind. cbn [bind]. eexists. split; [reflexivity|]. zres. revert En. unfold i32_max. rewrite Iu. unfold tns in *. consts. lia. }
        destruct (u64_i32 n Hn En) as (Eas & Hi & _). rewrite Eas.
        rewrite H.add_days_BEFORE_MIN_slow by (try exact Hi; lia).
        destruct (dn_in_range (DN_MIN - 1 + n)) eqn:Er; cbn [C08Date.date_if]; unfold obind; cbn [bind].
        -- destruct (date_of_dn_vdate _ Er) as [Vd' Dd'].
           set (l' := mk_ndt (C08AddDays.date_of_dn (DN_MIN - 1 + n)) t').
           assert (Vl' : nvalid l') by (split; assumption).
           assert (Il' : inst l' = inst (mk_ndt Date.D_MIN t) + n * DAYNS + off * G).
           { rewrite Iu, inst_split. unfold l'. cbn [nd_date nd_time]. rewrite Dd'. unfold tns in *. rewrite Es, Ef. consts. lia. }
           destruct (tails_valid (mk_ndt Date.D_MIN t) l' off _ Vl' Ho Il') as [[r [Er2 Rr]] _].
           exists r. split; [exact Er2|exact Rr].
        -- eexists. split; [reflexivity|]. zres. rewrite Iu. unfold tns in *. consts. lia.
    + (* sub *)
      unfold dz_checked_sub_days. unfold overflowing_naive_local. cbn [dz_utc dz_off]. rewrite El. cbn [bind].
      unfold ndt_checked_sub_days, ndt_map_date, Date.checked_sub_days. cbn [nd_date nd_time].
      destruct (n <=? i32_max) eqn:En.
      2:{ unfold obind. cbn [bind]. eexists. split; [reflexivity|]. zres. revert En. unfold i32_max. rewrite Iu. unfold tns in *. consts. lia. }
      destruct (u64_i32 n Hn En) as (Eas & Hi & Hi'). rewrite Eas. unfold neg_i32, chk. rewrite Hi'. cbn [bind].
      destruct (Z.eq_dec n 0) as [-> |Hnz].
      * change (- 0) with 0. rewrite Z0. unfold obind. cbn [bind].
        unfold from_local_datetime, ndt_checked_sub_offset. cbn [nd_date nd_time].
        rewrite Eso. cbn [bind]. unfold shift_date_checked. change (1 =? -1) with false. change (1 =? 1) with true. cbv iota.
        rewrite S0. unfold obind. cbn [bind]. cbn [mlt_single dz_utc].
        destruct (ndt_le_max _ Hu) as [_ Le]. rewrite Le.
        eexists. split; [reflexivity|]. zres. split; [reflexivity|]. split; [exact Hu|lia].
      * destruct (Z_le_dec n 365) as [Hs|Hs].
        -- pose proof (forall_range_spec _ _ _ H.before_min_back_sweep n ltac:(lia)) as Sw.
           unfold H.before_min_back_ok in Sw.
           destruct (Date.add_days Date.D_BEFORE_MIN (- n)) as [[w|]| |]; try discriminate.
           unfold obind. cbn [bind]. unfold from_local_datetime, ndt_checked_sub_offset. cbn [nd_date nd_time].
           rewrite Eso. cbn [bind]. unfold shift_date_checked. change (1 =? -1) with false. change (1 =? 1) with true. cbv iota.
           destruct (Date.succ_opt w) as [[w1|]| |]; try discriminate; unfold obind; cbn [bind].
           ++ cbn [mlt_single dz_utc]. unfold ndt_le, ndt_cmp, NDT_MIN. cbn [nd_date nd_time].
              rewrite cmp_first_gt by lia. cbn. eexists. split; [reflexivity|]. zres. rewrite Iu. unfold tns in *. consts. lia.
           ++ cbn [mlt_single]. eexists. split; [reflexivity|]. zres. rewrite Iu. unfold tns in *. consts. lia.
        -- rewrite H.add_days_BEFORE_MIN_slow by (try exact Hi'; lia).
           replace (dn_in_range (DN_MIN - 1 + - n)) with false by (unfold dn_in_range; lia).
           cbn [C08Date.date_if]. unfold obind. cbn [bind]. eexists. split; [reflexivity|]. zres.
           rewrite Iu. unfold tns in *. consts. lia.
Qed.

(** inhabited: MAX_UTC seen from +02:00 minus one day; MIN_UTC seen from -02:00 plus one day *)
Definition inst_of (r : R (option dtz)) : option Z :=
  match r with Val (Some z) => Some (inst (dz_utc z)) | _ => None end.
Lemma zone_days_headroom_examples :
  (inst NDT_MAX + 7200 * G >? NS_MAX) = true /\ (inst NDT_MIN + (-7200) * G <? NS_MIN) = true /\
  inst_of (dz_checked_sub_days (mk_dtz NDT_MAX 7200) 1) = Some (NS_MAX - DAYNS) /\
  inst_of (dz_checked_add_days (mk_dtz NDT_MIN (-7200)) 1) = Some (NS_MIN + DAYNS) /\
  dz_checked_add_days (mk_dtz NDT_MAX 7200) 1 = Val None /\ dz_checked_sub_days (mk_dtz NDT_MIN (-7200)) 1 = Val None.
Proof. vm_compute. repeat split. Qed.
