(** C07, top level: for every op of the dispatcher (Model/C07.v [run], 45 ops) and every argument
    list, whenever the independent judge (Judge/C07.v) has an opinion it accepts the model's output.
    Assembled from the functional theorems of Proofs/Time.v, C07Ops.v, C07Ndt.v; plus the function
    theorems of the four NaiveDateTime +- core::time::Duration ops. *)
From Coq Require Import ZArith List Bool Lia ZifyBool String.
From V Require Import Base.Int Base.IntLemmas Base.IO Model.TimeDelta Model.C07 Spec.TimeOfDay Spec.Gregorian
  Proofs.C06 Proofs.Time Proofs.C07Ops Proofs.HoldsLib.
From V Require Model.DateTime Model.Date Proofs.C03 Proofs.C07Ndt Proofs.C08Sweeps Proofs.C08Date Proofs.C08
  Proofs.C08Days Judge.C07.
Import ListNotations.
Open Scope Z_scope.
Ltac Zify.zify_post_hook ::= Z.to_euclidean_division_equations.
Module J := V.Judge.C07.

(** * NaiveDateTime +- core::time::Duration (the four ndt.*std ops): function theorems.
      The Duration (every u64 number of seconds, nanos below 10^9) is first converted with
      TimeDelta::from_std(..).expect(..): Panic exactly when it exceeds TimeDelta::MAX; then the
      checked form of date-time +- TimeDelta is unwrapped: the time of day follows the timeline
      rule, the carry goes to the date, Panic exactly when the date leaves the range. *)
Definition DMAXNS := 9223372036854775807000000.
Definition ndt_std_res (sign : Z) (a : DateTime.ndt) (D : Z) (r : R DateTime.ndt) : Prop :=
  if D <=? DMAXNS then
    let ar := add_result (tsecs (DateTime.nd_time a)) (tfrac (DateTime.nd_time a)) (sign * D) in
    let n := Proofs.C03.dn (DateTime.nd_date a) + snd ar / 86400 in
    if dn_in_range n
    then exists b, r = Val b /\ DateTime.nd_time b = fst ar /\
                   Proofs.C03.vdate (DateTime.nd_date b) /\ Proofs.C03.dn (DateTime.nd_date b) = n
    else r = Panic
  else r = Panic.

Lemma from_std_cases ds dn : in_u64 ds = true -> 0 <= dn < 1000000000 ->
  if ds * 1000000000 + dn <=? DMAXNS
  then exists d, from_std ds dn = Some d /\ valid d /\ ns d = ds * 1000000000 + dn
  else from_std ds dn = None.
Proof.
  intros Hs Hn. pose proof (from_std_spec ds dn Hs ltac:(unfold G; lia)) as S. unfold DMAXNS.
  assert (Hs' : 0 <= ds) by (revert Hs; unfold in_u64, in_range; lia).
  destruct (from_std ds dn) as [d|].
  - destruct S as [S1 S2]. pose proof S2 as [_ S3]. rewrite S1 in S3. unfold in_rng, RMIN, RMAX, G in *.
    replace (ds * 1000000000 + dn <=? 9223372036854775807000000) with true by lia.
    exists d. split; [reflexivity|]. split; [exact S2|exact S1].
  - unfold in_rng, RMIN, RMAX, G in S.
    replace (ds * 1000000000 + dn <=? 9223372036854775807000000) with false by lia. reflexivity.
Qed.

Theorem ndt_add_std_spec a ds dn :
  Proofs.C03.vdate (DateTime.nd_date a) -> tvalid (DateTime.nd_time a) -> in_u64 ds = true -> 0 <= dn < 1000000000 ->
  ndt_std_res 1 a (ds * 1000000000 + dn) (ndt_add_std a ds dn).
Proof.
  intros Hd Ht Hs Hn. unfold ndt_std_res, ndt_add_std. pose proof (from_std_cases ds dn Hs Hn) as F.
  destruct (ds * 1000000000 + dn <=? DMAXNS).
  - destruct F as (d & -> & Hv & Hns). cbn [unwrap bind]. rewrite Z.mul_1_l. rewrite <- Hns.
    destruct (Proofs.C07Ndt.ndt_leap_add_u a d Hd Ht Hv) as (r & E & Hr). unfold unwrap_r. rewrite E.
    cbv zeta. unfold Proofs.C07Ndt.ndt_leap_res in Hr. destruct r as [b|].
    + destruct Hr as (R1 & R2 & R3). rewrite <- R3.
      pose proof (Proofs.C03.vdate_range _ R2) as Rg.
      replace (dn_in_range (Proofs.C03.dn (DateTime.nd_date b))) with true
        by (unfold dn_in_range, DN_MIN, DN_MAX in *; lia).
      exists b. split; [reflexivity|]. split; [exact R1|]. split; [exact R2|reflexivity].
    + rewrite Hr. reflexivity.
  - rewrite F. reflexivity.
Qed.
Theorem ndt_sub_std_spec a ds dn :
  Proofs.C03.vdate (DateTime.nd_date a) -> tvalid (DateTime.nd_time a) -> in_u64 ds = true -> 0 <= dn < 1000000000 ->
  ndt_std_res (-1) a (ds * 1000000000 + dn) (ndt_sub_std a ds dn).
Proof.
  intros Hd Ht Hs Hn. unfold ndt_std_res, ndt_sub_std. pose proof (from_std_cases ds dn Hs Hn) as F.
  destruct (ds * 1000000000 + dn <=? DMAXNS).
  - destruct F as (d & -> & Hv & Hns). cbn [unwrap bind].
    replace (-1 * (ds * 1000000000 + dn)) with (- ns d) by lia.
    destruct (Proofs.C07Ndt.ndt_leap_sub_u a d Hd Ht Hv) as (r & E & Hr). unfold unwrap_r. rewrite E.
    cbv zeta. unfold Proofs.C07Ndt.ndt_leap_res in Hr. destruct r as [b|].
    + destruct Hr as (R1 & R2 & R3). rewrite <- R3.
      pose proof (Proofs.C03.vdate_range _ R2) as Rg.
      replace (dn_in_range (Proofs.C03.dn (DateTime.nd_date b))) with true
        by (unfold dn_in_range, DN_MIN, DN_MAX in *; lia).
      exists b. split; [reflexivity|]. split; [exact R1|]. split; [exact R2|reflexivity].
    + rewrite Hr. reflexivity.
  - rewrite F. reflexivity.
Qed.
(* the three outcomes are inhabited: a leap-second operand crossing midnight; a Duration beyond
   TimeDelta::MAX; a date pushed out of range *)
Lemma ndt_std_examples :
  ndt_add_std (DateTime.mk_ndt Proofs.C07Ndt.leap_date (mk_time 86399 1500000000)) 1 0 =
    Val (DateTime.mk_ndt (C08Sweeps.mkdate 2017 1) (mk_time 0 500000000)) /\
  ndt_add_std (DateTime.mk_ndt Proofs.C07Ndt.leap_date (mk_time 0 0)) 9223372036854775 808000000 = Panic /\
  (9223372036854775 * 1000000000 + 807000000 <=? DMAXNS) = true /\
  ndt_sub_std (DateTime.mk_ndt Proofs.C07Ndt.leap_date (mk_time 0 0)) 9223372036854775 807000000 = Panic.
Proof. vm_compute. repeat split. Qed.

(** * which model function answers the four new ops (the other 37: C07Ops.dispatch) *)
Definition sh_ns (f : DateTime.ndt -> Z -> Z -> val) (args : list val) : val :=
  match args with
  | [a; b; c] => match DateTime.dec_ndt a, arg_u64 b, arg_u32 c with
                 | Some x, Some s, Some n => if n <? 1000000000 then f x s n else VBad
                 | _, _, _ => VBad end
  | _ => VBad end.
Theorem dispatch_std args :
  run (B"ndt.addstd") args = sh_ns (fun a s n => val_of_R DateTime.enc_ndt (ndt_add_std a s n)) args /\
  run (B"ndt.substd") args = sh_ns (fun a s n => val_of_R DateTime.enc_ndt (ndt_sub_std a s n)) args /\
  run (B"ndt.addstd_assign") args = sh_ns (fun a s n => val_of_R DateTime.enc_ndt (ndt_add_std a s n)) args /\
  run (B"ndt.substd_assign") args = sh_ns (fun a s n => val_of_R DateTime.enc_ndt (ndt_sub_std a s n)) args.
Proof. repeat match goal with |- _ /\ _ => split end; reflexivity. Qed.

(** * codecs: the judge's decoders against the model's *)
Lemma time_dec v s f : J.time_of_arg v = Some (s, f) ->
  dec_time v = Some (mk_time s f) /\ tvalid (mk_time s f) /\ v = VTup [VInt s; VInt f].
Proof.
  unfold J.time_of_arg. destruct v as [| | | |l| | | |]; try discriminate.
  destruct l as [|[s0| | | | | | | |] l]; try discriminate.
  destruct l as [|[f0| | | | | | | |] l]; try discriminate.
  destruct l; try discriminate.
  destruct (state_ok s0 f0) eqn:E; [|discriminate]. intros [= <- <-]. unfold state_ok in E.
  unfold dec_time. replace ((0 <=? s0) && (s0 <? 86400) && (0 <=? f0) && (f0 <? 2000000000)) with true by lia.
  split; [reflexivity|]. split; [unfold tvalid; cbn [tsecs tfrac]; lia|reflexivity].
Qed.
Lemma ns_dec v x : J.ns_of_arg v = Some x -> exists d, dec_td v = Some d /\ valid d /\ ns d = x.
Proof.
  unfold J.ns_of_arg. destruct v as [| | | |l| | | |]; try discriminate.
  destruct l as [|[s| | | | | | | |] l]; try discriminate.
  destruct l as [|[n| | | | | | | |] l]; try discriminate.
  destruct l; try discriminate. cbv zeta. unfold J.DMAX.
  match goal with |- (if ?c then _ else _) = _ -> _ => destruct c eqn:E; [|discriminate] end. intros [= <-].
  assert (E1 : in_i64 s = true) by solve_in. assert (E2 : in_u32 n = true) by solve_in.
  pose proof (td_new_spec s n E1 E2) as S. unfold dec_td. rewrite E1, E2. cbn [andb].
  destruct (td_new s n) as [d|].
  - destruct S as (Hs & Hn & Hv). exists d. split; [reflexivity|]. split; [exact Hv|]. unfold ns, G. rewrite Hs, Hn. reflexivity.
  - exfalso. apply S. unfold in_rng, G, RMIN, RMAX. lia.
Qed.
Lemma enc_ns_valid d : valid d -> enc_td d = J.enc_ns (ns d).
Proof.
  intros [H _]. unfold enc_td, J.enc_ns, ns, G in *.
  replace ((secs d * 1000000000 + nanos d) / 1000000000) with (secs d) by lia.
  replace ((secs d * 1000000000 + nanos d) mod 1000000000) with (nanos d) by lia. reflexivity.
Qed.
Lemma u32_dec v z : J.u32 v = Some z -> arg_u32 v = Some z /\ in_u32 z = true /\ v = VInt z.
Proof.
  unfold J.u32, arg_u32. destruct v; try discriminate. destruct (in_u32 z0) eqn:E; [|discriminate].
  intros [= <-]. repeat split. exact E.
Qed.
Lemma enc_time_t s f : enc_time (mk_time s f) = J.enc_t s f.
Proof. reflexivity. Qed.

(** date-times: the judge's pattern (y, o, s, f) with a valid date and state *)
Lemma ndt_dec y o s f : year_in_range y = true -> valid_yo y o = true -> state_ok s f = true ->
  let a := DateTime.mk_ndt (C08Sweeps.mkdate y o) (mk_time s f) in
  DateTime.dec_ndt (VTup [VInt y; VInt o; VInt s; VInt f]) = Some a /\
  Proofs.C03.vdate (DateTime.nd_date a) /\ tvalid (DateTime.nd_time a) /\
  Proofs.C03.dn (DateTime.nd_date a) = dn_of_yo y o.
Proof.
  intros Hy Ho Hs. cbv zeta. cbn [DateTime.nd_date DateTime.nd_time].
  pose proof (C08Date.repr_mk y o Hy Ho) as R. destruct (C08.repr_md y o _ R) as (E1 & E2 & _).
  assert (Hy32 : in_i32 y = true) by (revert Hy; unfold year_in_range, MIN_YEAR, MAX_YEAR; solve_in).
  assert (Ho32 : in_u32 o = true) by (revert Ho; unfold valid_yo, days_in_year; destruct (is_leap y); solve_in).
  pose proof (C08Date.from_yo_opt_spec y o Hy32 Ho32) as F. rewrite Hy, Ho in F. cbn [andb C08Date.date_if] in F.
  unfold state_ok in Hs.
  split.
  - unfold DateTime.dec_ndt, DateTime.dec_date. rewrite Hy32, Ho32, F. cbn [andb]. unfold dec_time.
    replace ((0 <=? s) && (s <? 86400) && (0 <=? f) && (f <? 2000000000)) with true by lia. reflexivity.
  - split; [|split].
    + unfold Proofs.C03.vdate. rewrite E1, E2. split; [exact Hy|]. split; [exact Ho|exact F].
    + unfold tvalid. cbn [tsecs tfrac]. lia.
    + unfold Proofs.C03.dn. rewrite E1, E2. reflexivity.
Qed.
(** a valid date with day number n is rendered as the judge renders n *)
Lemma enc_ndt_dn b n : Proofs.C03.vdate (DateTime.nd_date b) -> Proofs.C03.dn (DateTime.nd_date b) = n ->
  DateTime.enc_ndt b =
  (let '(y', o') := yo_of_dn n in
   VTup [VInt y'; VInt o'; VInt (tsecs (DateTime.nd_time b)); VInt (tfrac (DateTime.nd_time b))]).
Proof.
  intros (_ & Hv & _) <-. unfold Proofs.C03.dn. rewrite (C08Days.yo_of_dn_of_yo _ _ Hv). reflexivity.
Qed.

Definition HOLDS (s : string) (args : list val) : Prop :=
  J.judge (bytes_of_string s) args (run (bytes_of_string s) args) <> JSkip ->
  J.judge (bytes_of_string s) args (run (bytes_of_string s) args) = JOk.

(** * generic acceptance lemmas, one per argument shape of the judge *)
Definition j_u3 (e : Z -> Z -> Z -> val) (args : list val) (out : val) : verdict :=
  match args with
  | [a; b; c] => match J.u32 a, J.u32 b, J.u32 c with
                 | Some h, Some m, Some s => judge_eq (e h m s) out
                 | _, _, _ => JSkip end
  | _ => JSkip end.
Definition j_u4 (e : Z -> Z -> Z -> Z -> val) (args : list val) (out : val) : verdict :=
  match args with
  | [a; b; c; d] =>
      match J.u32 a, J.u32 b, J.u32 c, J.u32 d with
      | Some h, Some m, Some s, Some x => judge_eq (e h m s x) out
      | _, _, _, _ => JSkip end
  | _ => JSkip end.
Definition j_u2 (e : Z -> Z -> val) (args : list val) (out : val) : verdict :=
  match args with
  | [a; b] => match J.u32 a, J.u32 b with Some s, Some n => judge_eq (e s n) out | _, _ => JSkip end
  | _ => JSkip end.
Definition j_t1 (e : Z -> Z -> val) (args : list val) (out : val) : verdict :=
  match args with
  | [a] => match J.time_of_arg a with Some (s, f) => judge_eq (e s f) out | None => JSkip end
  | _ => JSkip end.

Lemma u3_holds e g args :
  (forall h m s, in_u32 h = true -> in_u32 m = true -> in_u32 s = true -> e h m s = g h m s) ->
  j_u3 e args (sh_u3 g args) <> JSkip -> j_u3 e args (sh_u3 g args) = JOk.
Proof.
  intros H. unfold j_u3. destruct args as [|a [|b [|c [|? ?]]]]; try congruence.
  destruct (J.u32 a) as [h|] eqn:Ea; [|congruence]. destruct (J.u32 b) as [m|] eqn:Eb; [|congruence].
  destruct (J.u32 c) as [s|] eqn:Ec; [|congruence]. intros _.
  destruct (u32_dec _ _ Ea) as (Ma & Ia & _). destruct (u32_dec _ _ Eb) as (Mb & Ib & _).
  destruct (u32_dec _ _ Ec) as (Mc & Ic & _).
  unfold sh_u3. rewrite Ma, Mb, Mc. apply hl_judge_eq_of. apply H; assumption.
Qed.
Lemma u4_holds e g args :
  (forall h m s x, in_u32 h = true -> in_u32 m = true -> in_u32 s = true -> in_u32 x = true -> e h m s x = g h m s x) ->
  j_u4 e args (sh_u4 g args) <> JSkip -> j_u4 e args (sh_u4 g args) = JOk.
Proof.
  intros H. unfold j_u4. destruct args as [|a [|b [|c [|d [|? ?]]]]]; try congruence.
  destruct (J.u32 a) as [h|] eqn:Ea; [|congruence]. destruct (J.u32 b) as [m|] eqn:Eb; [|congruence].
  destruct (J.u32 c) as [s|] eqn:Ec; [|congruence]. destruct (J.u32 d) as [x|] eqn:Ed; [|congruence]. intros _.
  destruct (u32_dec _ _ Ea) as (Ma & Ia & _). destruct (u32_dec _ _ Eb) as (Mb & Ib & _).
  destruct (u32_dec _ _ Ec) as (Mc & Ic & _). destruct (u32_dec _ _ Ed) as (Md & Id & _).
  unfold sh_u4. rewrite Ma, Mb, Mc, Md. apply hl_judge_eq_of. apply H; assumption.
Qed.
Lemma u2_holds e g args :
  (forall s n, in_u32 s = true -> in_u32 n = true -> e s n = g s n) ->
  j_u2 e args (sh_u2 g args) <> JSkip -> j_u2 e args (sh_u2 g args) = JOk.
Proof.
  intros H. unfold j_u2. destruct args as [|a [|b [|? ?]]]; try congruence.
  destruct (J.u32 a) as [h|] eqn:Ea; [|congruence]. destruct (J.u32 b) as [m|] eqn:Eb; [|congruence]. intros _.
  destruct (u32_dec _ _ Ea) as (Ma & Ia & _). destruct (u32_dec _ _ Eb) as (Mb & Ib & _).
  unfold sh_u2. rewrite Ma, Mb. apply hl_judge_eq_of. apply H; assumption.
Qed.
Lemma t1_holds e g args :
  (forall s f, tvalid (mk_time s f) -> e s f = g (mk_time s f)) ->
  j_t1 e args (sh_t1 g args) <> JSkip -> j_t1 e args (sh_t1 g args) = JOk.
Proof.
  intros H. unfold j_t1. destruct args as [|a [|? ?]]; try congruence.
  destruct (J.time_of_arg a) as [[s f]|] eqn:Ea; [|congruence]. intros _.
  destruct (time_dec _ _ _ Ea) as (Ma & Va & _). unfold sh_t1. rewrite Ma. apply hl_judge_eq_of. apply H. exact Va.
Qed.
Lemma with_holds which g args :
  (forall s f v, tvalid (mk_time s f) -> in_u32 v = true -> J.exp_with which s f v = g (mk_time s f) v) ->
  J.judge_with which args (sh_tu g args) <> JSkip -> J.judge_with which args (sh_tu g args) = JOk.
Proof.
  intros H. unfold J.judge_with. destruct args as [|a [|b [|? ?]]]; try congruence.
  destruct (J.time_of_arg a) as [[s f]|] eqn:Ea; [|congruence].
  destruct (J.u32 b) as [v|] eqn:Eb; [|congruence]. intros _.
  destruct (time_dec _ _ _ Ea) as (Ma & Va & _). destruct (u32_dec _ _ Eb) as (Mb & Ib & _).
  unfold sh_tu. rewrite Ma, Mb. apply hl_judge_eq_of. apply H; assumption.
Qed.
Lemma td_holds e g args :
  (forall s f d, tvalid (mk_time s f) -> valid d -> e s f (ns d) = g (mk_time s f) d) ->
  J.judge_td e args (sh_td g args) <> JSkip -> J.judge_td e args (sh_td g args) = JOk.
Proof.
  intros H. unfold J.judge_td. destruct args as [|a [|b [|? ?]]]; try congruence.
  destruct (J.time_of_arg a) as [[s f]|] eqn:Ea; [|congruence].
  destruct (J.ns_of_arg b) as [x|] eqn:Eb; [|congruence]. intros _.
  destruct (time_dec _ _ _ Ea) as (Ma & Va & _). destruct (ns_dec _ _ Eb) as (d & Mb & Vd & <-).
  unfold sh_td. rewrite Ma, Mb. apply hl_judge_eq_of. apply H; assumption.
Qed.
Lemma diff_holds g args :
  (forall s1 f1 s2 f2, tvalid (mk_time s1 f1) -> tvalid (mk_time s2 f2) ->
     J.enc_ns (tl_diff s1 f1 s2 f2) = g (mk_time s1 f1) (mk_time s2 f2)) ->
  J.judge_diff args (sh_tt g args) <> JSkip -> J.judge_diff args (sh_tt g args) = JOk.
Proof.
  intros H. unfold J.judge_diff. destruct args as [|a [|b [|? ?]]]; try congruence.
  destruct (J.time_of_arg a) as [[s1 f1]|] eqn:Ea; [|congruence].
  destruct (J.time_of_arg b) as [[s2 f2]|] eqn:Eb; [|congruence]. intros _.
  destruct (time_dec _ _ _ Ea) as (Ma & Va & _). destruct (time_dec _ _ _ Eb) as (Mb & Vb & _).
  unfold sh_tt. rewrite Ma, Mb. apply hl_judge_eq_of. apply H; assumption.
Qed.
Lemma std_holds sign g args :
  (forall s f ds dn, tvalid (mk_time s f) -> in_u64 ds = true -> 0 <= dn < 1000000000 ->
     J.exp_add_time sign s f (ds * 1000000000 + dn) = g (mk_time s f) ds dn) ->
  J.judge_std sign args (sh_ts g args) <> JSkip -> J.judge_std sign args (sh_ts g args) = JOk.
Proof.
  intros H. unfold J.judge_std. destruct args as [|a [|[ds| | | | | | | |] [|[dn| | | | | | | |] [|? ?]]]]; try congruence.
  destruct (J.time_of_arg a) as [[s f]|] eqn:Ea; [|congruence].
  destruct (in_u64 ds && (0 <=? dn) && (dn <? 1000000000)) eqn:E; [|congruence]. intros _.
  destruct (time_dec _ _ _ Ea) as (Ma & Va & _).
  apply andb_prop in E. destruct E as [E E3]. apply andb_prop in E. destruct E as [E1 E2].
  unfold sh_ts, arg_u64, arg_u32. rewrite Ma, E1. replace (in_u32 dn) with true by (symmetry; solve_in). rewrite E3.
  apply hl_judge_eq_of. apply H; [exact Va|exact E1|lia].
Qed.
Lemma off_holds (sign : Z) (wd : bool) g args :
  (forall s f off, tvalid (mk_time s f) -> -86400 < off < 86400 ->
     (let '((s', f'), days) := tl_shift s f (sign * off) in
      if wd then VTup [J.enc_t s' f'; VInt days] else J.enc_t s' f') = g (mk_time s f) off) ->
  J.judge_off sign wd args (sh_to g args) <> JSkip -> J.judge_off sign wd args (sh_to g args) = JOk.
Proof.
  intros H. unfold J.judge_off. destruct args as [|a [|[off| | | | | | | |] [|? ?]]]; try congruence.
  destruct (J.time_of_arg a) as [[s f]|] eqn:Ea; [|congruence].
  destruct ((-86400 <? off) && (off <? 86400)) eqn:E; [|congruence]. intros _.
  destruct (time_dec _ _ _ Ea) as (Ma & Va & _).
  unfold sh_to, arg_off, offset_ok. rewrite Ma, E. replace (in_i32 off) with true by (symmetry; solve_in). cbn [andb].
  specialize (H s f off Va ltac:(lia)). unfold tl_shift in *. cbv beta iota zeta in *.
  apply hl_judge_eq_of. exact H.
Qed.

(** date-times: the judge's expected value against the result relation of C07Ndt *)
Lemma exp_ndt_res sign y o s f D r :
  year_in_range y = true -> valid_yo y o = true -> state_ok s f = true ->
  let a := DateTime.mk_ndt (C08Sweeps.mkdate y o) (mk_time s f) in
  Proofs.C07Ndt.ndt_leap_res a (fst (add_result s f (sign * D))) (snd (add_result s f (sign * D))) r ->
  J.exp_ndt sign y o s f D = option_map DateTime.enc_ndt r.
Proof.
  intros Hy Ho Hs. cbv zeta. destruct (ndt_dec y o s f Hy Ho Hs) as (_ & _ & _ & Hdn). cbv zeta in Hdn.
  unfold Proofs.C07Ndt.ndt_leap_res, J.exp_ndt, add_result. rewrite Hdn.
  destruct (tl_add s f (sign * D)) as [[s' f'] c]. cbn [fst snd]. cbv zeta.
  destruct r as [b|].
  - intros (R1 & R2 & R3). pose proof (Proofs.C03.vdate_range _ R2) as Rg. rewrite R3 in Rg.
    replace (dn_in_range (dn_of_yo y o + c / 86400)) with true by (unfold dn_in_range, DN_MIN, DN_MAX in *; lia).
    cbn [option_map]. rewrite (enc_ndt_dn b _ R2 R3), R1. destruct (yo_of_dn (dn_of_yo y o + c / 86400)). reflexivity.
  - intros ->. reflexivity.
Qed.
Lemma ndt_holds (sign : Z) (op_form : bool) g args :
  (forall y o s f d, year_in_range y = true -> valid_yo y o = true -> state_ok s f = true -> valid d ->
     (match J.exp_ndt sign y o s f (ns d) with
      | Some v => if op_form then v else VSome v
      | None => if op_form then VPanic else VNone end) =
     g (DateTime.mk_ndt (C08Sweeps.mkdate y o) (mk_time s f)) d) ->
  J.judge_ndt sign op_form args (sh_nd g args) <> JSkip -> J.judge_ndt sign op_form args (sh_nd g args) = JOk.
Proof.
  intros H. unfold J.judge_ndt. destruct args as [|a [|b [|zz zl]]]; try congruence;
  destruct a as [| | | |al| | | |]; try congruence;
  (destruct al as [|[y| | | | | | | |] al]; try congruence); (destruct al as [|[o| | | | | | | |] al]; try congruence);
  (destruct al as [|[s| | | | | | | |] al]; try congruence); (destruct al as [|[f| | | | | | | |] al]; try congruence);
  destruct al; try congruence.
  destruct (J.ns_of_arg b) as [x|] eqn:Eb; [|congruence].
  destruct (year_in_range y && valid_yo y o && state_ok s f) eqn:E; [|congruence]. intros _.
  apply andb_prop in E. destruct E as [E Hs]. apply andb_prop in E. destruct E as [Hy Ho].
  destruct (ns_dec _ _ Eb) as (d & Mb & Vd & <-). destruct (ndt_dec y o s f Hy Ho Hs) as (Ma & _).
  unfold sh_nd. rewrite Ma, Mb. apply hl_judge_eq_of. apply H; assumption.
Qed.
Lemma ndt_std_holds (sign : Z) g args :
  (forall y o s f ds dn, year_in_range y = true -> valid_yo y o = true -> state_ok s f = true ->
     in_u64 ds = true -> 0 <= dn < 1000000000 ->
     (if ds * 1000000000 + dn <=? J.DMAX
      then match J.exp_ndt sign y o s f (ds * 1000000000 + dn) with Some v => v | None => VPanic end
      else VPanic) = g (DateTime.mk_ndt (C08Sweeps.mkdate y o) (mk_time s f)) ds dn) ->
  J.judge_ndt_std sign args (sh_ns g args) <> JSkip -> J.judge_ndt_std sign args (sh_ns g args) = JOk.
Proof.
  intros H. unfold J.judge_ndt_std.
  destruct args as [|a [|[ds|?x|  |?x|?x|?x| | |] [|[dn|?x| |?x|?x|?x| | |] [|zz zl]]]]; try congruence;
  destruct a as [| | | |al| | | |]; try congruence;
  (destruct al as [|[y| | | | | | | |] al]; try congruence); (destruct al as [|[o| | | | | | | |] al]; try congruence);
  (destruct al as [|[s| | | | | | | |] al]; try congruence); (destruct al as [|[f| | | | | | | |] al]; try congruence);
  destruct al; try congruence.
  destruct (in_u64 ds && (0 <=? dn) && (dn <? 1000000000)) eqn:E; [|congruence].
  destruct (year_in_range y && valid_yo y o && state_ok s f) eqn:E'; [|congruence]. intros _.
  apply andb_prop in E. destruct E as [E E3]. apply andb_prop in E. destruct E as [E1 E2].
  apply andb_prop in E'. destruct E' as [E' Hs]. apply andb_prop in E'. destruct E' as [Hy Ho].
  destruct (ndt_dec y o s f Hy Ho Hs) as (Ma & _).
  unfold sh_ns, arg_u64, arg_u32. rewrite Ma, E1. replace (in_u32 dn) with true by (symmetry; solve_in). rewrite E3.
  specialize (H y o s f ds dn Hy Ho Hs E1 ltac:(lia)). cbv zeta.
  destruct (ds * 1000000000 + dn <=? J.DMAX); apply hl_judge_eq_of; exact H.
Qed.

(** * values: the model's answers in the judge's terms *)
Lemma ctor_val (c : bool) s n :
  val_of_R vo_time (Val (if c then Some (mk_time s n) else None)) = (if c then VSome (J.enc_t s n) else VNone).
Proof. destruct c; reflexivity. Qed.
Lemma pctor_val (c : bool) s n :
  val_of_R enc_time (if c then Val (mk_time s n) else Panic) = J.or_panic (if c then VSome (J.enc_t s n) else VNone).
Proof. destruct c; reflexivity. Qed.
Lemma accept_nano0 h m s : accept_hms_nano h m s 0 = hms_ok h m s.
Proof. unfold accept_hms_nano, nano_ok. change (0 <? 1000000000) with true. cbn [orb]. apply andb_true_r. Qed.

(** * constructors *)
Lemma holds_hms args : HOLDS "t.hms" args.
Proof.
  unfold HOLDS. refine (u3_holds (fun h m s => J.exp_ctor h m s 0) (fun h m s => val_of_R vo_time (from_hms_opt h m s)) args _).
  intros h m s Hh Hm Hs. rewrite from_hms_opt_spec by assumption. rewrite ctor_val. unfold J.exp_ctor.
  rewrite accept_nano0. reflexivity.
Qed.
Lemma holds_hms_milli args : HOLDS "t.hms_milli" args.
Proof.
  unfold HOLDS. refine (u4_holds (fun h m s x => J.exp_ctor h m s (x * 1000000)) (fun h m s x => val_of_R vo_time (from_hms_milli_opt h m s x)) args _).
  intros h m s x Hh Hm Hs Hx. rewrite from_hms_milli_opt_spec by assumption. rewrite ctor_val. reflexivity.
Qed.
Lemma holds_hms_micro args : HOLDS "t.hms_micro" args.
Proof.
  unfold HOLDS. refine (u4_holds (fun h m s x => J.exp_ctor h m s (x * 1000)) (fun h m s x => val_of_R vo_time (from_hms_micro_opt h m s x)) args _).
  intros h m s x Hh Hm Hs Hx. rewrite from_hms_micro_opt_spec by assumption. rewrite ctor_val. reflexivity.
Qed.
Lemma holds_hms_nano args : HOLDS "t.hms_nano" args.
Proof.
  unfold HOLDS. refine (u4_holds (fun h m s x => J.exp_ctor h m s (x * 1)) (fun h m s x => val_of_R vo_time (from_hms_nano_opt h m s x)) args _).
  intros h m s x Hh Hm Hs Hx. rewrite from_hms_nano_opt_spec by assumption. rewrite ctor_val, Z.mul_1_r. reflexivity.
Qed.
Lemma holds_nsfm args : HOLDS "t.nsfm" args.
Proof.
  unfold HOLDS.
  refine (u2_holds (fun s n => if accept_secs_nano s n then VSome (J.enc_t s n) else VNone)
            (fun s n => vo_time (from_num_seconds_from_midnight_opt s n)) args _).
  intros s n Hs Hn. rewrite from_nsfm_opt_spec by assumption. destruct (accept_secs_nano s n); reflexivity.
Qed.
Lemma holds_phms args : HOLDS "t.phms" args.
Proof.
  unfold HOLDS. refine (u3_holds (fun h m s => J.or_panic (J.exp_ctor h m s 0)) (fun h m s => val_of_R enc_time (unwrap_r (from_hms_opt h m s))) args _).
  intros h m s Hh Hm Hs. rewrite phms_spec by assumption. rewrite pctor_val. unfold J.exp_ctor.
  rewrite accept_nano0. reflexivity.
Qed.
Lemma holds_phms_milli args : HOLDS "t.phms_milli" args.
Proof.
  unfold HOLDS. refine (u4_holds (fun h m s x => J.or_panic (J.exp_ctor h m s (x * 1000000))) (fun h m s x => val_of_R enc_time (unwrap_r (from_hms_milli_opt h m s x))) args _).
  intros h m s x Hh Hm Hs Hx. rewrite phms_milli_spec by assumption. rewrite pctor_val. reflexivity.
Qed.
Lemma holds_phms_micro args : HOLDS "t.phms_micro" args.
Proof.
  unfold HOLDS. refine (u4_holds (fun h m s x => J.or_panic (J.exp_ctor h m s (x * 1000))) (fun h m s x => val_of_R enc_time (unwrap_r (from_hms_micro_opt h m s x))) args _).
  intros h m s x Hh Hm Hs Hx. rewrite phms_micro_spec by assumption. rewrite pctor_val. reflexivity.
Qed.
Lemma holds_phms_nano args : HOLDS "t.phms_nano" args.
Proof.
  unfold HOLDS. refine (u4_holds (fun h m s x => J.or_panic (J.exp_ctor h m s (x * 1))) (fun h m s x => val_of_R enc_time (unwrap_r (from_hms_nano_opt h m s x))) args _).
  intros h m s x Hh Hm Hs Hx. rewrite phms_nano_spec by assumption. rewrite pctor_val, Z.mul_1_r. reflexivity.
Qed.
Lemma holds_pnsfm args : HOLDS "t.pnsfm" args.
Proof.
  unfold HOLDS.
  refine (u2_holds (fun s n => if accept_secs_nano s n then J.enc_t s n else VPanic)
            (fun s n => val_of_R enc_time (unwrap (from_num_seconds_from_midnight_opt s n))) args _).
  intros s n Hs Hn. rewrite pnsfm_spec by assumption. destruct (accept_secs_nano s n); reflexivity.
Qed.

(** * accessors and replacement *)
Lemma acc_val s f : tvalid (mk_time s f) -> J.exp_acc s f = t_acc (mk_time s f).
Proof.
  intros [Hs Hf]. cbn [tsecs tfrac] in Hs, Hf. unfold t_acc, J.exp_acc.
  destruct (accessors_spec (mk_time s f) ltac:(cbn [tsecs]; lia)) as (Eh & Em & Es & En & Ensfm).
  destruct (hour12_spec (mk_time s f) ltac:(cbn [tsecs]; lia)) as [E12 _]. rewrite E12, Eh, Em, Es, En, Ensfm.
  reflexivity.
Qed.
Lemma holds_acc args : HOLDS "t.acc" args.
Proof. unfold HOLDS. refine (t1_holds J.exp_acc t_acc args _). exact acc_val. Qed.

Lemma holds_with_hour args : HOLDS "t.with_hour" args.
Proof.
  unfold HOLDS. refine (with_holds 0 (fun t k => val_of_R vo_time (with_hour t k)) args _).
  intros s f v Ht Hv. rewrite with_hour_spec by assumption. rewrite ctor_val. reflexivity.
Qed.
Lemma holds_with_minute args : HOLDS "t.with_minute" args.
Proof.
  unfold HOLDS. refine (with_holds 1 (fun t k => val_of_R vo_time (with_minute t k)) args _).
  intros s f v Ht Hv. rewrite with_minute_spec by assumption. rewrite ctor_val. reflexivity.
Qed.
Lemma holds_with_second args : HOLDS "t.with_second" args.
Proof.
  unfold HOLDS. refine (with_holds 2 (fun t k => val_of_R vo_time (with_second t k)) args _).
  intros s f v Ht Hv. rewrite with_second_spec by assumption. rewrite ctor_val. reflexivity.
Qed.
Lemma holds_with_nano args : HOLDS "t.with_nano" args.
Proof.
  unfold HOLDS. refine (with_holds 3 (fun t k => vo_time (with_nanosecond t k)) args _).
  intros s f v Ht Hv. rewrite with_nanosecond_spec by assumption.
  change (J.exp_with 3 s f v) with (if v <? 2000000000 then VSome (J.enc_t s v) else VNone).
  destruct (v <? 2000000000); reflexivity.
Qed.

(** * arithmetic on times of day *)
Lemma add_pair_val s f d : J.exp_add_pair 1 s f d = enc_pair (add_result s f d).
Proof.
  unfold J.exp_add_pair, add_result, enc_pair. rewrite Z.mul_1_l.
  destruct (tl_add s f d) as [[s' f'] c]. cbn [fst snd]. rewrite Z.mul_1_l. reflexivity.
Qed.
Lemma sub_pair_val s f d : J.exp_add_pair (-1) s f d = enc_pair (neg_carry (add_result s f (- d))).
Proof.
  unfold J.exp_add_pair, add_result, enc_pair, neg_carry. replace (-1 * d) with (- d) by lia.
  destruct (tl_add s f (- d)) as [[s' f'] c]. cbn [fst snd]. replace (-1 * c) with (- c) by lia. reflexivity.
Qed.
Lemma add_time_val sign s f d : J.exp_add_time sign s f d = enc_time (fst (add_result s f (sign * d))).
Proof.
  unfold J.exp_add_time, add_result. destruct (tl_add s f (sign * d)) as [[s' f'] c]. reflexivity.
Qed.
Lemma holds_add args : HOLDS "t.add" args.
Proof.
  unfold HOLDS. refine (td_holds (J.exp_add_pair 1) (fun t d => val_of_R enc_pair (overflowing_add_signed t d)) args _).
  intros s f d Ht Hd. rewrite add_spec by assumption. rewrite add_pair_val. reflexivity.
Qed.
Lemma holds_sub args : HOLDS "t.sub" args.
Proof.
  unfold HOLDS. refine (td_holds (J.exp_add_pair (-1)) (fun t d => val_of_R enc_pair (overflowing_sub_signed t d)) args _).
  intros s f d Ht Hd. rewrite sub_spec by assumption. rewrite sub_pair_val. reflexivity.
Qed.
Lemma opadd_val s f d : tvalid (mk_time s f) -> valid d ->
  J.exp_add_time 1 s f (ns d) = val_of_R enc_time (op_add_td (mk_time s f) d).
Proof.
  intros Ht Hd. rewrite (proj1 (op_add_td_spec _ d Ht Hd)). rewrite add_time_val, Z.mul_1_l. reflexivity.
Qed.
Lemma opsub_val s f d : tvalid (mk_time s f) -> valid d ->
  J.exp_add_time (-1) s f (ns d) = val_of_R enc_time (op_sub_td (mk_time s f) d).
Proof.
  intros Ht Hd. rewrite (proj1 (op_sub_td_spec _ d Ht Hd)). rewrite add_time_val.
  replace (-1 * ns d) with (- ns d) by lia. reflexivity.
Qed.
Lemma holds_opadd args : HOLDS "t.opadd" args.
Proof. unfold HOLDS. refine (td_holds (J.exp_add_time 1) (fun t d => val_of_R enc_time (op_add_td t d)) args _). exact opadd_val. Qed.
Lemma holds_opadd_assign args : HOLDS "t.opadd_assign" args.
Proof. unfold HOLDS. refine (td_holds (J.exp_add_time 1) (fun t d => val_of_R enc_time (op_add_td t d)) args _). exact opadd_val. Qed.
Lemma holds_opsub args : HOLDS "t.opsub" args.
Proof. unfold HOLDS. refine (td_holds (J.exp_add_time (-1)) (fun t d => val_of_R enc_time (op_sub_td t d)) args _). exact opsub_val. Qed.
Lemma holds_opsub_assign args : HOLDS "t.opsub_assign" args.
Proof. unfold HOLDS. refine (td_holds (J.exp_add_time (-1)) (fun t d => val_of_R enc_time (op_sub_td t d)) args _). exact opsub_val. Qed.

Lemma diff_val s1 f1 s2 f2 : tvalid (mk_time s1 f1) -> tvalid (mk_time s2 f2) ->
  J.enc_ns (tl_diff s1 f1 s2 f2) = val_of_R enc_td (signed_duration_since (mk_time s1 f1) (mk_time s2 f2)).
Proof.
  intros Ha Hb. destruct (diff_spec _ _ Ha Hb) as (d & -> & Hv & Hn). cbn [val_of_R tsecs tfrac] in *.
  rewrite <- Hn. symmetry. apply enc_ns_valid. exact Hv.
Qed.
Lemma holds_diff args : HOLDS "t.diff" args.
Proof. unfold HOLDS. refine (diff_holds (fun t u => val_of_R enc_td (signed_duration_since t u)) args _). exact diff_val. Qed.
Lemma holds_opdiff args : HOLDS "t.opdiff" args.
Proof. unfold HOLDS. refine (diff_holds (fun t u => val_of_R enc_td (op_sub_time t u)) args _). exact diff_val. Qed.

Lemma addstd_val s f ds dn : tvalid (mk_time s f) -> in_u64 ds = true -> 0 <= dn < 1000000000 ->
  J.exp_add_time 1 s f (ds * 1000000000 + dn) = val_of_R enc_time (op_add_std (mk_time s f) ds dn).
Proof.
  intros Ht Hs Hn. rewrite op_add_std_spec by assumption. rewrite add_time_val, Z.mul_1_l. reflexivity.
Qed.
Lemma substd_val s f ds dn : tvalid (mk_time s f) -> in_u64 ds = true -> 0 <= dn < 1000000000 ->
  J.exp_add_time (-1) s f (ds * 1000000000 + dn) = val_of_R enc_time (op_sub_std (mk_time s f) ds dn).
Proof.
  intros Ht Hs Hn. rewrite op_sub_std_spec by assumption. rewrite add_time_val.
  replace (-1 * (ds * 1000000000 + dn)) with (- (ds * 1000000000 + dn)) by lia. reflexivity.
Qed.
Lemma holds_addstd args : HOLDS "t.addstd" args.
Proof. unfold HOLDS. refine (std_holds 1 (fun t s n => val_of_R enc_time (op_add_std t s n)) args _). exact addstd_val. Qed.
Lemma holds_addstd_assign args : HOLDS "t.addstd_assign" args.
Proof. unfold HOLDS. refine (std_holds 1 (fun t s n => val_of_R enc_time (op_add_std t s n)) args _). exact addstd_val. Qed.
Lemma holds_substd args : HOLDS "t.substd" args.
Proof. unfold HOLDS. refine (std_holds (-1) (fun t s n => val_of_R enc_time (op_sub_std t s n)) args _). exact substd_val. Qed.
Lemma holds_substd_assign args : HOLDS "t.substd_assign" args.
Proof. unfold HOLDS. refine (std_holds (-1) (fun t s n => val_of_R enc_time (op_sub_std t s n)) args _). exact substd_val. Qed.

Lemma holds_addoff args : HOLDS "t.addoff" args.
Proof.
  unfold HOLDS. refine (off_holds 1 false (fun t k => val_of_R enc_time (op_add_offset t k)) args _).
  intros s f off Ht Ho. rewrite (proj1 (op_offset_spec _ off Ht Ho)). rewrite Z.mul_1_l. reflexivity.
Qed.
Lemma holds_suboff args : HOLDS "t.suboff" args.
Proof.
  unfold HOLDS. refine (off_holds (-1) false (fun t k => val_of_R enc_time (op_sub_offset t k)) args _).
  intros s f off Ht Ho. rewrite (proj2 (op_offset_spec _ off Ht Ho)). replace (-1 * off) with (- off) by lia. reflexivity.
Qed.
Lemma holds_addoffd args : HOLDS "t.addoffd" args.
Proof.
  unfold HOLDS. refine (off_holds 1 true (fun t k => val_of_R enc_pair (overflowing_add_offset t k)) args _).
  intros s f off Ht Ho. rewrite (proj1 (offset_shift_spec _ off Ht Ho)). rewrite Z.mul_1_l. reflexivity.
Qed.
Lemma holds_suboffd args : HOLDS "t.suboffd" args.
Proof.
  unfold HOLDS. refine (off_holds (-1) true (fun t k => val_of_R enc_pair (overflowing_sub_offset t k)) args _).
  intros s f off Ht Ho. rewrite (proj2 (offset_shift_spec _ off Ht Ho)). replace (-1 * off) with (- off) by lia. reflexivity.
Qed.

(** * date-times *)
Lemma ndt_add_val (op_form : bool) y o s f d :
  year_in_range y = true -> valid_yo y o = true -> state_ok s f = true -> valid d ->
  exists r, DateTime.ndt_checked_add_signed (DateTime.mk_ndt (C08Sweeps.mkdate y o) (mk_time s f)) d = Val r /\
            J.exp_ndt 1 y o s f (ns d) = option_map DateTime.enc_ndt r.
Proof.
  intros Hy Ho Hs Hd. destruct (ndt_dec y o s f Hy Ho Hs) as (_ & Vd & Vt & _). cbv zeta in Vd, Vt.
  destruct (Proofs.C07Ndt.ndt_leap_add_u _ d Vd Vt Hd) as (r & E & Hr). exists r. split; [exact E|].
  apply (exp_ndt_res 1 y o s f (ns d) r Hy Ho Hs). rewrite Z.mul_1_l. exact Hr.
Qed.
Lemma ndt_sub_val (op_form : bool) y o s f d :
  year_in_range y = true -> valid_yo y o = true -> state_ok s f = true -> valid d ->
  exists r, DateTime.ndt_checked_sub_signed (DateTime.mk_ndt (C08Sweeps.mkdate y o) (mk_time s f)) d = Val r /\
            J.exp_ndt (-1) y o s f (ns d) = option_map DateTime.enc_ndt r.
Proof.
  intros Hy Ho Hs Hd. destruct (ndt_dec y o s f Hy Ho Hs) as (_ & Vd & Vt & _). cbv zeta in Vd, Vt.
  destruct (Proofs.C07Ndt.ndt_leap_sub_u _ d Vd Vt Hd) as (r & E & Hr). exists r. split; [exact E|].
  apply (exp_ndt_res (-1) y o s f (ns d) r Hy Ho Hs). replace (-1 * ns d) with (- ns d) by lia. exact Hr.
Qed.
Lemma holds_ndt_add args : HOLDS "ndt.add" args.
Proof.
  unfold HOLDS. refine (ndt_holds 1 false (fun a d => val_of_R (val_of_option DateTime.enc_ndt) (DateTime.ndt_checked_add_signed a d)) args _).
  intros y o s f d Hy Ho Hs Hd. destruct (ndt_add_val false y o s f d Hy Ho Hs Hd) as (r & -> & ->). destruct r; reflexivity.
Qed.
Lemma holds_ndt_sub args : HOLDS "ndt.sub" args.
Proof.
  unfold HOLDS. refine (ndt_holds (-1) false (fun a d => val_of_R (val_of_option DateTime.enc_ndt) (DateTime.ndt_checked_sub_signed a d)) args _).
  intros y o s f d Hy Ho Hs Hd. destruct (ndt_sub_val false y o s f d Hy Ho Hs Hd) as (r & -> & ->). destruct r; reflexivity.
Qed.
Lemma holds_ndt_opadd args : HOLDS "ndt.opadd" args.
Proof.
  unfold HOLDS. refine (ndt_holds 1 true (fun a d => val_of_R DateTime.enc_ndt (unwrap_r (DateTime.ndt_checked_add_signed a d))) args _).
  intros y o s f d Hy Ho Hs Hd. destruct (ndt_add_val true y o s f d Hy Ho Hs Hd) as (r & -> & ->). destruct r; reflexivity.
Qed.
Lemma holds_ndt_opsub args : HOLDS "ndt.opsub" args.
Proof.
  unfold HOLDS. refine (ndt_holds (-1) true (fun a d => val_of_R DateTime.enc_ndt (unwrap_r (DateTime.ndt_checked_sub_signed a d))) args _).
  intros y o s f d Hy Ho Hs Hd. destruct (ndt_sub_val true y o s f d Hy Ho Hs Hd) as (r & -> & ->). destruct r; reflexivity.
Qed.

(** date-time +- core Duration: the result relation [ndt_std_res] in the judge's terms *)
Lemma ndt_std_val sign y o s f D r :
  year_in_range y = true -> valid_yo y o = true -> state_ok s f = true ->
  ndt_std_res sign (DateTime.mk_ndt (C08Sweeps.mkdate y o) (mk_time s f)) D r ->
  (if D <=? J.DMAX then match J.exp_ndt sign y o s f D with Some v => v | None => VPanic end else VPanic)
  = val_of_R DateTime.enc_ndt r.
Proof.
  intros Hy Ho Hs. unfold ndt_std_res. change J.DMAX with DMAXNS. destruct (D <=? DMAXNS); [|intros ->; reflexivity].
  cbv zeta. cbn [DateTime.nd_date DateTime.nd_time tsecs tfrac].
  destruct (ndt_dec y o s f Hy Ho Hs) as (_ & _ & _ & Hdn). cbv zeta in Hdn. cbn [DateTime.nd_date] in Hdn.
  intros Hr.
  assert (Hres : Proofs.C07Ndt.ndt_leap_res (DateTime.mk_ndt (C08Sweeps.mkdate y o) (mk_time s f))
            (fst (add_result s f (sign * D))) (snd (add_result s f (sign * D)))
            (match r with Val b => Some b | _ => None end) /\ (r = Panic \/ exists b, r = Val b)).
  { unfold Proofs.C07Ndt.ndt_leap_res. cbn [DateTime.nd_date].
    destruct (dn_in_range (Proofs.C03.dn (C08Sweeps.mkdate y o) + snd (add_result s f (sign * D)) / 86400)) eqn:Er.
    - destruct Hr as (b & -> & R1 & R2 & R3). split; [|right; exists b; reflexivity]. split; [exact R1|]. split; [exact R2|exact R3].
    - subst r. split; [reflexivity|left; reflexivity]. }
  destruct Hres as [Hres Hform]. rewrite (exp_ndt_res sign y o s f D _ Hy Ho Hs Hres).
  destruct Hform as [-> | [b ->]]; reflexivity.
Qed.
Lemma addstd_ndt_val y o s f ds dn : year_in_range y = true -> valid_yo y o = true -> state_ok s f = true ->
  in_u64 ds = true -> 0 <= dn < 1000000000 ->
  (if ds * 1000000000 + dn <=? J.DMAX
   then match J.exp_ndt 1 y o s f (ds * 1000000000 + dn) with Some v => v | None => VPanic end else VPanic)
  = val_of_R DateTime.enc_ndt (ndt_add_std (DateTime.mk_ndt (C08Sweeps.mkdate y o) (mk_time s f)) ds dn).
Proof.
  intros Hy Ho Hs Hds Hdn. apply ndt_std_val; try assumption.
  destruct (ndt_dec y o s f Hy Ho Hs) as (_ & Vd & Vt & _). apply ndt_add_std_spec; assumption.
Qed.
Lemma substd_ndt_val y o s f ds dn : year_in_range y = true -> valid_yo y o = true -> state_ok s f = true ->
  in_u64 ds = true -> 0 <= dn < 1000000000 ->
  (if ds * 1000000000 + dn <=? J.DMAX
   then match J.exp_ndt (-1) y o s f (ds * 1000000000 + dn) with Some v => v | None => VPanic end else VPanic)
  = val_of_R DateTime.enc_ndt (ndt_sub_std (DateTime.mk_ndt (C08Sweeps.mkdate y o) (mk_time s f)) ds dn).
Proof.
  intros Hy Ho Hs Hds Hdn. apply ndt_std_val; try assumption.
  destruct (ndt_dec y o s f Hy Ho Hs) as (_ & Vd & Vt & _). apply ndt_sub_std_spec; assumption.
Qed.
Lemma holds_ndt_addstd args : HOLDS "ndt.addstd" args.
Proof. unfold HOLDS. refine (ndt_std_holds 1 (fun a s n => val_of_R DateTime.enc_ndt (ndt_add_std a s n)) args _). exact addstd_ndt_val. Qed.
Lemma holds_ndt_addstd_assign args : HOLDS "ndt.addstd_assign" args.
Proof. unfold HOLDS. refine (ndt_std_holds 1 (fun a s n => val_of_R DateTime.enc_ndt (ndt_add_std a s n)) args _). exact addstd_ndt_val. Qed.
Lemma holds_ndt_substd args : HOLDS "ndt.substd" args.
Proof. unfold HOLDS. refine (ndt_std_holds (-1) (fun a s n => val_of_R DateTime.enc_ndt (ndt_sub_std a s n)) args _). exact substd_ndt_val. Qed.
Lemma holds_ndt_substd_assign args : HOLDS "ndt.substd_assign" args.
Proof. unfold HOLDS. refine (ndt_std_holds (-1) (fun a s n => val_of_R DateTime.enc_ndt (ndt_sub_std a s n)) args _). exact substd_ndt_val. Qed.

(** * Timelike on a NaiveDateTime.  The judge looks at the time part only ("the date itself is not
      examined here") while the dispatcher decodes the whole value first: on an argument whose date
      does not exist both sides answer BADARGS and the case is ignored; hence the premise
      [run op args <> VBad] for these two ops. *)
Lemma dec_date_inv y o d : DateTime.dec_date (VTup [VInt y; VInt o]) = Some d ->
  Date.d_year d = y /\ Date.d_ordinal d = o.
Proof.
  unfold DateTime.dec_date. destruct (in_i32 y && in_u32 o) eqn:E; [|discriminate].
  apply andb_prop in E. destruct E as [Ey Eo]. rewrite (C08Date.from_yo_opt_spec y o Ey Eo).
  destruct (year_in_range y && valid_yo y o) eqn:E2; cbn [C08Date.date_if]; [|discriminate]. intros [= <-].
  apply andb_prop in E2. destruct E2 as [Hy Ho].
  destruct (C08.repr_md y o _ (C08Date.repr_mk y o Hy Ho)) as (E1 & E3 & _). split; assumption.
Qed.
Lemma dec_ndt_time y o sv fv s f x : J.time_of_arg (VTup [sv; fv]) = Some (s, f) ->
  DateTime.dec_ndt (VTup [VInt y; VInt o; sv; fv]) = Some x ->
  DateTime.nd_time x = mk_time s f /\ tvalid (mk_time s f) /\
  Date.d_year (DateTime.nd_date x) = y /\ Date.d_ordinal (DateTime.nd_date x) = o.
Proof.
  intros Et. destruct (time_dec _ _ _ Et) as (Mt & Vt & _). unfold DateTime.dec_ndt. rewrite Mt.
  destruct (DateTime.dec_date (VTup [VInt y; VInt o])) as [d|] eqn:Ed; [|discriminate]. intros [= <-].
  cbn [DateTime.nd_time DateTime.nd_date]. destruct (dec_date_inv y o d Ed) as [E1 E2].
  split; [reflexivity|]. split; [exact Vt|]. split; assumption.
Qed.
Lemma holds_ndt_tacc args : run (B"ndt.tacc") args <> VBad -> HOLDS "ndt.tacc" args.
Proof.
  intros Hb. unfold HOLDS. change (run (B"ndt.tacc") args) with (sh_tacc args) in *.
  change (J.judge (B"ndt.tacc") args (sh_tacc args)) with
    (match args with
     | [VTup [VInt y; VInt o; s; f]] =>
         match J.time_of_arg (VTup [s; f]) with Some (s, f) => judge_eq (J.exp_acc s f) (sh_tacc args) | None => JSkip end
     | _ => JSkip end).
  destruct args as [|a [|zz zl]]; try congruence;
  destruct a as [| | | |al| | | |]; try congruence;
  (destruct al as [|[y| | | | | | | |] al]; try congruence); (destruct al as [|[o| | | | | | | |] al]; try congruence);
  (destruct al as [|sv al]; try congruence); (destruct al as [|fv al]; try congruence);
  destruct al; try congruence.
  destruct (J.time_of_arg (VTup [sv; fv])) as [[s f]|] eqn:Et; [|congruence]. intros _.
  unfold sh_tacc in *. destruct (DateTime.dec_ndt (VTup [VInt y; VInt o; sv; fv])) as [x|] eqn:Ex; [|exfalso; apply Hb; reflexivity].
  destruct (dec_ndt_time y o sv fv s f x Et Ex) as (E1 & Vt & _).
  rewrite ndt_tacc_spec by (rewrite E1; exact Vt). rewrite E1. cbn [val_of_R].
  apply hl_judge_eq_of. apply acc_val. exact Vt.
Qed.
Lemma with_date_val y o (c : bool) d s f : Date.d_year d = y -> Date.d_ordinal d = o ->
  J.with_date y o (if c then VSome (J.enc_t s f) else VNone) =
  val_of_R (val_of_option DateTime.enc_ndt) (Val (if c then Some (DateTime.mk_ndt d (mk_time s f)) else None)).
Proof. intros <- <-. destruct c; reflexivity. Qed.
Lemma holds_ndt_twith args : run (B"ndt.twith") args <> VBad -> HOLDS "ndt.twith" args.
Proof.
  intros Hb. unfold HOLDS. change (run (B"ndt.twith") args) with (sh_twith args) in *.
  change (J.judge (B"ndt.twith") args (sh_twith args)) with
    (match args with
     | [VInt which; VTup [VInt y; VInt o; s; f]; b] =>
         match J.time_of_arg (VTup [s; f]), J.u32 b with
         | Some (s, f), Some v =>
             if (0 <=? which) && (which <=? 3)
             then judge_eq (J.with_date y o (J.exp_with which s f v)) (sh_twith args) else JSkip
         | _, _ => JSkip end
     | _ => JSkip end).
  destruct args as [|[which|?x| |?x|?x|?x| | |] [|a [|b [|zz zl]]]]; try congruence;
  destruct a as [| | | |al| | | |]; try congruence;
  (destruct al as [|[y| | | | | | | |] al]; try congruence); (destruct al as [|[o| | | | | | | |] al]; try congruence);
  (destruct al as [|sv al]; try congruence); (destruct al as [|fv al]; try congruence);
  destruct al; try congruence.
  destruct (J.time_of_arg (VTup [sv; fv])) as [[s f]|] eqn:Et; [|congruence].
  destruct (J.u32 b) as [v|] eqn:Eb; [|congruence].
  destruct ((0 <=? which) && (which <=? 3)) eqn:Ew; [|congruence]. intros _.
  destruct (u32_dec _ _ Eb) as (Mb & Ib & _).
  unfold sh_twith in *. destruct (DateTime.dec_ndt (VTup [VInt y; VInt o; sv; fv])) as [x|] eqn:Ex; [|exfalso; apply Hb; reflexivity].
  rewrite Mb, Ew. destruct (dec_ndt_time y o sv fv s f x Et Ex) as (E1 & Vt & E2 & E3).
  pose proof (ndt_twith_values x v ltac:(rewrite E1; exact Vt) Ib) as V. cbv zeta in V. rewrite E1 in V. cbn [tsecs tfrac] in V.
  destruct V as (V7 & V8 & V9 & V10).
  apply hl_judge_eq_of.
  assert (which = 0 \/ which = 1 \/ which = 2 \/ which = 3) as C by lia.
  destruct C as [-> | [-> | [-> | ->]]].
  - change (7 + 0) with 7. rewrite V7. apply (with_date_val y o (v <? 24)); assumption.
  - change (7 + 1) with 8. rewrite V8. apply (with_date_val y o (v <? 60)); assumption.
  - change (7 + 2) with 9. rewrite V9. apply (with_date_val y o (v <? 60)); assumption.
  - change (7 + 3) with 10. rewrite V10. change (J.exp_with 3 s f v) with (if v <? 2000000000 then VSome (J.enc_t s v) else VNone).
    apply (with_date_val y o (v <? 2000000000)); assumption.
Qed.

(** * the deprecated panicking NaiveDate::and_hms* *)
Lemma date_dec y o : year_in_range y = true -> valid_yo y o = true ->
  DateTime.dec_date (VTup [VInt y; VInt o]) = Some (C08Sweeps.mkdate y o) /\
  Date.d_year (C08Sweeps.mkdate y o) = y /\ Date.d_ordinal (C08Sweeps.mkdate y o) = o.
Proof.
  intros Hy Ho.
  pose proof (C08Date.repr_mk y o Hy Ho) as R. destruct (C08.repr_md y o _ R) as (E1 & E2 & _).
  assert (Hy32 : in_i32 y = true) by (revert Hy; unfold year_in_range, MIN_YEAR, MAX_YEAR; solve_in).
  assert (Ho32 : in_u32 o = true) by (revert Ho; unfold valid_yo, days_in_year; destruct (is_leap y); solve_in).
  pose proof (C08Date.from_yo_opt_spec y o Hy32 Ho32) as F. rewrite Hy, Ho in F. cbn [andb C08Date.date_if] in F.
  split; [|split; assumption].
  unfold DateTime.dec_date. rewrite Hy32, Ho32, F. reflexivity.
Qed.
Lemma and_res_val y o (c : bool) s n :
  val_of_R DateTime.enc_ndt (and_res (C08Sweeps.mkdate y o) c s n) =
  J.on_date (Date.d_year (C08Sweeps.mkdate y o)) (Date.d_ordinal (C08Sweeps.mkdate y o))
    (if c then VSome (J.enc_t s n) else VNone).
Proof. destruct c; reflexivity. Qed.
Lemma d4_holds scale g args :
  (forall d h m s x, in_u32 h = true -> in_u32 m = true -> in_u32 s = true -> in_u32 x = true ->
     g d h m s x = val_of_R DateTime.enc_ndt (and_res d (accept_hms_nano h m s (x * scale)) (secs_of_hms h m s) (x * scale))) ->
  J.judge_dphms scale args (sh_d4 g args) <> JSkip -> J.judge_dphms scale args (sh_d4 g args) = JOk.
Proof.
  intros H. unfold J.judge_dphms.
  destruct args as [|dv [|a [|b [|c [|e [|? ?]]]]]]; try congruence;
  destruct dv as [| | | |al| | | |]; try congruence;
  (destruct al as [|[y| | | | | | | |] al]; try congruence); (destruct al as [|[o| | | | | | | |] al]; try congruence);
  destruct al; try congruence.
  destruct (J.u32 a) as [h|] eqn:Ea; [|congruence]. destruct (J.u32 b) as [m|] eqn:Eb; [|congruence].
  destruct (J.u32 c) as [s|] eqn:Ec; [|congruence]. destruct (J.u32 e) as [x|] eqn:Ee; [|congruence].
  destruct (year_in_range y && valid_yo y o) eqn:E; [|congruence]. intros _.
  apply andb_prop in E. destruct E as [Hy Ho]. destruct (date_dec y o Hy Ho) as (Md & E1 & E2).
  destruct (u32_dec _ _ Ea) as (Ma & Ia & _). destruct (u32_dec _ _ Eb) as (Mb & Ib & _).
  destruct (u32_dec _ _ Ec) as (Mc & Ic & _). destruct (u32_dec _ _ Ee) as (Me & Ie & _).
  unfold sh_d4. rewrite Md, Ma, Mb, Mc, Me. apply hl_judge_eq_of. rewrite H by assumption.
  rewrite and_res_val, E1, E2. reflexivity.
Qed.
Lemma holds_ndt_phms args : HOLDS "ndt.phms" args.
Proof.
  unfold HOLDS. rewrite (proj1 (dispatch_and_hms args)).
  change (J.judge (B"ndt.phms") args) with
    (fun out => match args with
     | [VTup [VInt y; VInt o]; a; b; c] =>
         match J.u32 a, J.u32 b, J.u32 c with
         | Some h, Some m, Some s =>
             if year_in_range y && valid_yo y o then judge_eq (J.on_date y o (J.exp_ctor h m s 0)) out else JSkip
         | _, _, _ => JSkip end
     | _ => JSkip end).
  cbv beta.
  destruct args as [|dv [|a [|b [|c [|? ?]]]]]; try congruence;
  destruct dv as [| | | |al| | | |]; try congruence;
  (destruct al as [|[y| | | | | | | |] al]; try congruence); (destruct al as [|[o| | | | | | | |] al]; try congruence);
  destruct al; try congruence.
  destruct (J.u32 a) as [h|] eqn:Ea; [|congruence]. destruct (J.u32 b) as [m|] eqn:Eb; [|congruence].
  destruct (J.u32 c) as [s|] eqn:Ec; [|congruence].
  destruct (year_in_range y && valid_yo y o) eqn:E; [|congruence]. intros _.
  apply andb_prop in E. destruct E as [Hy Ho]. destruct (date_dec y o Hy Ho) as (Md & E1 & E2).
  destruct (u32_dec _ _ Ea) as (Ma & Ia & _). destruct (u32_dec _ _ Eb) as (Mb & Ib & _).
  destruct (u32_dec _ _ Ec) as (Mc & Ic & _).
  unfold sh_d3. rewrite Md, Ma, Mb, Mc. apply hl_judge_eq_of.
  rewrite (proj2 (nd_and_hms_spec _ h m s Ia Ib Ic)). rewrite and_res_val, E1, E2.
  unfold J.exp_ctor. rewrite accept_nano0. reflexivity.
Qed.
Lemma holds_ndt_phms_milli args : HOLDS "ndt.phms_milli" args.
Proof.
  unfold HOLDS. rewrite (proj1 (proj2 (dispatch_and_hms args))). apply (d4_holds 1000000).
  intros d h m s x Hh Hm Hs Hx. rewrite (proj2 (nd_and_hms_milli_spec d h m s x Hh Hm Hs Hx)). reflexivity.
Qed.
Lemma holds_ndt_phms_micro args : HOLDS "ndt.phms_micro" args.
Proof.
  unfold HOLDS. rewrite (proj1 (proj2 (proj2 (dispatch_and_hms args)))). apply (d4_holds 1000).
  intros d h m s x Hh Hm Hs Hx. rewrite (proj2 (nd_and_hms_micro_spec d h m s x Hh Hm Hs Hx)). reflexivity.
Qed.
Lemma holds_ndt_phms_nano args : HOLDS "ndt.phms_nano" args.
Proof.
  unfold HOLDS. rewrite (proj2 (proj2 (proj2 (dispatch_and_hms args)))). apply (d4_holds 1).
  intros d h m s x Hh Hm Hs Hx. rewrite (proj2 (nd_and_hms_nano_spec d h m s x Hh Hm Hs Hx)). rewrite Z.mul_1_r. reflexivity.
Qed.

(** * top level *)
Ltac op_case_at o s lem :=
  destruct (op_is o s) eqn:?;
  [match goal with H : op_is o s = true |- _ => apply hl_op_is_eq in H; subst; apply lem end|].
Tactic Notation "op_case" constr(s) constr(lem) :=
  match goal with o : bytes |- _ => op_case_at o s lem end.

Theorem C07_holds_strict op args : op_is op "ndt.tacc" = false -> op_is op "ndt.twith" = false ->
  J.judge op args (run op args) <> JSkip -> J.judge op args (run op args) = JOk.
Proof.
  intros S1 S2.
  op_case "ndt.add"%string holds_ndt_add. op_case "ndt.sub"%string holds_ndt_sub.
  op_case "ndt.opadd"%string holds_ndt_opadd. op_case "ndt.opsub"%string holds_ndt_opsub.
  op_case "ndt.addstd"%string holds_ndt_addstd. op_case "ndt.substd"%string holds_ndt_substd.
  op_case "ndt.addstd_assign"%string holds_ndt_addstd_assign. op_case "ndt.substd_assign"%string holds_ndt_substd_assign.
  op_case "t.hms"%string holds_hms. op_case "t.hms_milli"%string holds_hms_milli.
  op_case "t.hms_micro"%string holds_hms_micro. op_case "t.hms_nano"%string holds_hms_nano.
  op_case "t.nsfm"%string holds_nsfm. op_case "t.acc"%string holds_acc.
  op_case "t.with_hour"%string holds_with_hour. op_case "t.with_minute"%string holds_with_minute.
  op_case "t.with_second"%string holds_with_second. op_case "t.with_nano"%string holds_with_nano.
  op_case "t.add"%string holds_add. op_case "t.sub"%string holds_sub.
  op_case "t.opadd"%string holds_opadd. op_case "t.opsub"%string holds_opsub.
  op_case "t.opadd_assign"%string holds_opadd_assign. op_case "t.opsub_assign"%string holds_opsub_assign.
  op_case "t.diff"%string holds_diff. op_case "t.opdiff"%string holds_opdiff.
  op_case "t.addstd"%string holds_addstd. op_case "t.substd"%string holds_substd.
  op_case "t.addstd_assign"%string holds_addstd_assign. op_case "t.substd_assign"%string holds_substd_assign.
  op_case "t.addoff"%string holds_addoff. op_case "t.suboff"%string holds_suboff.
  op_case "t.addoffd"%string holds_addoffd. op_case "t.suboffd"%string holds_suboffd.
  op_case "t.phms"%string holds_phms. op_case "t.phms_milli"%string holds_phms_milli.
  op_case "t.phms_micro"%string holds_phms_micro. op_case "t.phms_nano"%string holds_phms_nano.
  op_case "t.pnsfm"%string holds_pnsfm.
  op_case "ndt.phms"%string holds_ndt_phms. op_case "ndt.phms_milli"%string holds_ndt_phms_milli.
  op_case "ndt.phms_micro"%string holds_ndt_phms_micro. op_case "ndt.phms_nano"%string holds_ndt_phms_nano.
  intros H. exfalso. apply H. unfold J.judge.
  repeat match goal with E : op_is _ _ = false |- _ => rewrite E; clear E end. reflexivity.
Qed.

Theorem C07_holds op args : run op args <> VBad ->
  J.judge op args (run op args) <> JSkip -> J.judge op args (run op args) = JOk.
Proof.
  intros Hb.
  destruct (op_is op "ndt.tacc") eqn:S1; [apply hl_op_is_eq in S1; subst; apply holds_ndt_tacc; exact Hb|].
  destruct (op_is op "ndt.twith") eqn:S2; [apply hl_op_is_eq in S2; subst; apply holds_ndt_twith; exact Hb|].
  apply C07_holds_strict; assumption.
Qed.
Corollary C07_never_bad op args : run op args <> VBad -> not_bad (J.judge op args (run op args)).
Proof. intros Hb. apply hl_never_bad. apply C07_holds. exact Hb. Qed.

(* why the two Timelike-on-NaiveDateTime ops need the premise: the judge reads the time part only,
   the dispatcher decodes the date as well (30 February: year 2001, ordinal 400) *)
Lemma tacc_lazy_judge_example :
  run (B"ndt.tacc") [VTup [VInt 2001; VInt 400; VInt 0; VInt 0]] = VBad /\
  J.judge (B"ndt.tacc") [VTup [VInt 2001; VInt 400; VInt 0; VInt 0]] VBad <> JSkip.
Proof. split; [vm_compute; reflexivity|vm_compute; discriminate]. Qed.
(* the premise is inhabited on every op family *)
Lemma holds_inhabited :
  run (B"ndt.addstd") [VTup [VInt 2016; VInt 366; VInt 86399; VInt 1500000000]; VInt 1; VInt 0]
    = VTup [VInt 2017; VInt 1; VInt 0; VInt 500000000] /\
  J.judge (B"ndt.addstd") [VTup [VInt 2016; VInt 366; VInt 86399; VInt 1500000000]; VInt 1; VInt 0]
    (VTup [VInt 2017; VInt 1; VInt 0; VInt 500000000]) = JOk /\
  run (B"ndt.tacc") [VTup [VInt 2016; VInt 366; VInt 86399; VInt 1500000000]] <> VBad.
Proof. split; [vm_compute; reflexivity|]. split; [vm_compute; reflexivity|vm_compute; discriminate]. Qed.
