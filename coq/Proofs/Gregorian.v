(** Spec-internal lemmas about Spec/Gregorian.v: the ISO 8601 week date in closed form (year,
    ordinal -> ISO year, week), its inverse, the number of ISO weeks of a year.  The round trip
    between day numbers and (year, ordinal) and the 400-year periodicity are in Proofs/C08Days.v /
    Proofs/C08Sweeps.v and re-exported here. *)
From Coq Require Import ZArith List Bool Lia ZifyBool.
From V Require Import Spec.Gregorian.
From V Require Export Proofs.C08Sweeps Proofs.C08Days.
Import ListNotations.
Open Scope Z_scope.
Ltac Zify.zify_post_hook ::= Z.to_euclidean_division_equations.

(** offset between ordinals and ISO week numbering of year [y]: a day with ordinal [o] lies in
    "raw" week [(o + iso_delta y) / 7]; derived from the weekday [p] of 31 December of [y-1] *)
Definition iso_delta (y : Z) : Z :=
  let p := (days_before_year y - 1) mod 7 in if p <? 3 then p + 7 else p.
Lemma iso_delta_range y : 3 <= iso_delta y <= 9.
Proof. unfold iso_delta. cbv zeta. destruct (_ <? 3) eqn:E; lia. Qed.

Lemma jan4 y : dn_of_ymd y 1 4 = days_before_year y + 4.
Proof. unfold dn_of_ymd, dn_of_yo, ordinal_of_md. destruct (is_leap y); reflexivity. Qed.

Lemma week1_monday_delta y : iso_week1_monday y = days_before_year y + 7 - iso_delta y.
Proof.
  unfold iso_week1_monday. rewrite jan4. unfold weekday_of_dn, iso_delta. cbv zeta.
  set (b := days_before_year y). destruct (_ <? 3) eqn:E; lia.
Qed.

Lemma dn_of_isoywd_yo y w wd : dn_of_isoywd y w wd = days_before_year y + (7 * w + wd) - iso_delta y.
Proof. unfold dn_of_isoywd. rewrite week1_monday_delta. lia. Qed.

Lemma iso_weeks_in_year_spec y :
  iso_weeks_in_year y = 52 + (if (iso_delta y =? 9) || (is_leap y && (iso_delta y =? 8)) then 1 else 0).
Proof.
  unfold iso_weeks_in_year. rewrite !week1_monday_delta. rewrite dby_succ.
  unfold iso_delta at 1. cbv zeta. rewrite dby_succ. unfold days_in_year.
  unfold iso_delta. cbv zeta. set (b := days_before_year y).
  destruct (is_leap y); cbn [andb];
  destruct ((b - 1) mod 7 <? 3) eqn:E1.
  all: match goal with |- context [(?x mod 7 <? 3)] => destruct (x mod 7 <? 3) eqn:E2 end.
  all: match goal with |- context [if ?c then 1 else 0] => destruct c eqn:E3 end.
  all: lia.
Qed.
Lemma iso_weeks_52_53 y : 52 <= iso_weeks_in_year y <= 53.
Proof. rewrite iso_weeks_in_year_spec. destruct (_ || _); lia. Qed.

Lemma dby_pred y : days_before_year (y - 1) = days_before_year y - days_in_year (y - 1).
Proof. pose proof (dby_succ (y - 1)) as E. replace (y - 1 + 1) with y in E by lia. lia. Qed.
Lemma days_in_year_cases y : days_in_year y = 365 \/ days_in_year y = 366.
Proof. unfold days_in_year. destruct (is_leap y); lia. Qed.

(** ISO year and week of the day with ordinal [o] of year [y], in closed form *)
Theorem iso_of_dn_yo y o : valid_yo y o = true ->
  iso_of_dn (dn_of_yo y o) =
    let raw := (o + iso_delta y) / 7 in
    if raw <? 1 then (y - 1, iso_weeks_in_year (y - 1))
    else if iso_weeks_in_year y <? raw then (y + 1, 1) else (y, raw).
Proof.
  intros Ho. cbv zeta. unfold iso_of_dn. cbv zeta.
  set (n := dn_of_yo y o). set (th := n - weekday_of_dn n + 3).
  pose proof (iso_weeks_in_year_spec y) as W. pose proof (iso_weeks_in_year_spec (y - 1)) as Wp.
  pose proof (days_in_year_cases y) as Ly. pose proof (days_in_year_cases (y - 1)) as Lp.
  pose proof (days_in_year_cases (y + 1)) as Ln.
  pose proof (dby_succ y) as Bn. pose proof (dby_pred y) as Bp.
  assert (Hleap : is_leap y = (days_in_year y =? 366)) by (unfold days_in_year; destruct (is_leap y); reflexivity).
  assert (Hleapp : is_leap (y - 1) = (days_in_year (y - 1) =? 366)) by (unfold days_in_year; destruct (is_leap (y - 1)); reflexivity).
  rewrite Hleap in W. rewrite Hleapp in Wp.
  unfold iso_delta in W, Wp |- *. cbv zeta in W, Wp |- *. rewrite Bp in Wp.
  unfold valid_yo in Ho.
  assert (Hn : n = days_before_year y + o) by reflexivity.
  assert (Hth : th = n - (n - 1) mod 7 + 3) by reflexivity.
  set (b := days_before_year y) in *. set (L := days_in_year y) in *. set (Lq := days_in_year (y - 1)) in *.
  set (Ln' := days_in_year (y + 1)) in *.
  clearbody n th.
  destruct ((o + (if (b - 1) mod 7 <? 3 then (b - 1) mod 7 + 7 else (b - 1) mod 7)) / 7 <? 1) eqn:E1.
  - (* Thursday falls in the previous year *)
    assert (Hv : valid_yo (y - 1) (th - (b - Lq)) = true).
    { unfold valid_yo. fold Lq. destruct ((b - 1) mod 7 <? 3) eqn:E; lia. }
    replace th with (dn_of_yo (y - 1) (th - (b - Lq))) by (unfold dn_of_yo; fold b; rewrite Bp; lia).
    rewrite yo_of_dn_of_yo by assumption. f_equal.
    destruct ((b - 1) mod 7 <? 3) eqn:E; destruct ((b - Lq - 1) mod 7 <? 3) eqn:E';
    match goal with H : iso_weeks_in_year (y - 1) = 52 + (if ?c then 1 else 0) |- _ => destruct c eqn:E3 end; lia.
  - destruct (iso_weeks_in_year y <? (o + (if (b - 1) mod 7 <? 3 then (b - 1) mod 7 + 7 else (b - 1) mod 7)) / 7) eqn:E2.
    + (* Thursday falls in the next year *)
      assert (Hv : valid_yo (y + 1) (th - (b + L)) = true).
      { unfold valid_yo. fold Ln'. destruct ((b - 1) mod 7 <? 3) eqn:E;
        match goal with H : iso_weeks_in_year y = 52 + (if ?c then 1 else 0) |- _ => destruct c eqn:E3 end; lia. }
      replace th with (dn_of_yo (y + 1) (th - (b + L))) by (unfold dn_of_yo; fold b; rewrite Bn; lia).
      rewrite yo_of_dn_of_yo by assumption. f_equal.
      destruct ((b - 1) mod 7 <? 3) eqn:E;
      match goal with H : iso_weeks_in_year y = 52 + (if ?c then 1 else 0) |- _ => destruct c eqn:E3 end; lia.
    + assert (Hv : valid_yo y (th - b) = true).
      { unfold valid_yo. fold L. destruct ((b - 1) mod 7 <? 3) eqn:E;
        match goal with H : iso_weeks_in_year y = 52 + (if ?c then 1 else 0) |- _ => destruct c eqn:E3 end; lia. }
      replace th with (dn_of_yo y (th - b)) by (unfold dn_of_yo; fold b; lia).
      rewrite yo_of_dn_of_yo by assumption. f_equal.
      destruct ((b - 1) mod 7 <? 3) eqn:E; lia.
Qed.

(** the ISO week date form is a bijection with day numbers *)
Theorem iso_of_isoywd y w wd : valid_isoywd y w wd = true ->
  iso_of_dn (dn_of_isoywd y w wd) = (y, w) /\ weekday_of_dn (dn_of_isoywd y w wd) = wd.
Proof.
  intros Hv. unfold valid_isoywd in Hv. pose proof (iso_weeks_in_year_spec y) as W.
  pose proof (days_in_year_cases y) as Ly.
  assert (Hleap : is_leap y = (days_in_year y =? 366)) by (unfold days_in_year; destruct (is_leap y); reflexivity).
  rewrite Hleap in W. pose proof (iso_delta_range y) as Dr.
  assert (Hwd : weekday_of_dn (dn_of_isoywd y w wd) = wd).
  { rewrite dn_of_isoywd_yo. unfold weekday_of_dn, iso_delta. cbv zeta.
    set (b := days_before_year y). destruct ((b - 1) mod 7 <? 3) eqn:E; lia. }
  split; [|exact Hwd]. unfold iso_of_dn. cbv zeta. rewrite Hwd. rewrite dn_of_isoywd_yo.
  set (b := days_before_year y) in *. set (dl := iso_delta y) in *. set (L := days_in_year y) in *.
  assert (Hvy : valid_yo y (7 * w - dl + 3) = true).
  { unfold valid_yo. fold L. destruct ((dl =? 9) || (L =? 366) && (dl =? 8)) eqn:E3; lia. }
  replace (b + (7 * w + wd) - dl - wd + 3) with (dn_of_yo y (7 * w - dl + 3)) by (unfold dn_of_yo; fold b; lia).
  rewrite yo_of_dn_of_yo by assumption. f_equal. lia.
Qed.

Theorem isoywd_of_dn n :
  valid_isoywd (fst (iso_of_dn n)) (snd (iso_of_dn n)) (weekday_of_dn n) = true /\
  dn_of_isoywd (fst (iso_of_dn n)) (snd (iso_of_dn n)) (weekday_of_dn n) = n.
Proof.
  destruct (yo_of_dn_valid n) as [Hv Hd]. set (y := fst (yo_of_dn n)) in *. set (o := snd (yo_of_dn n)) in *.
  rewrite <- Hd. rewrite iso_of_dn_yo by assumption. cbv zeta.
  pose proof (iso_weeks_in_year_spec y) as W. pose proof (iso_weeks_in_year_spec (y - 1)) as Wp.
  pose proof (iso_weeks_52_53 (y + 1)) as Wn.
  pose proof (days_in_year_cases y) as Ly. pose proof (days_in_year_cases (y - 1)) as Lp.
  pose proof (dby_succ y) as Bn. pose proof (dby_pred y) as Bp.
  assert (Hleap : is_leap y = (days_in_year y =? 366)) by (unfold days_in_year; destruct (is_leap y); reflexivity).
  assert (Hleapp : is_leap (y - 1) = (days_in_year (y - 1) =? 366)) by (unfold days_in_year; destruct (is_leap (y - 1)); reflexivity).
  rewrite Hleap in W. rewrite Hleapp in Wp.
  unfold valid_yo in Hv.
  destruct ((o + iso_delta y) / 7 <? 1) eqn:E1; [|destruct (iso_weeks_in_year y <? (o + iso_delta y) / 7) eqn:E2];
  cbn [fst snd]; unfold valid_isoywd; rewrite !dn_of_isoywd_yo; unfold weekday_of_dn, dn_of_yo;
  unfold iso_delta in W, Wp, E1 |- *; cbv zeta in W, Wp, E1 |- *; rewrite ?Bp in *; rewrite ?Bn in *;
  set (b := days_before_year y) in *; set (L := days_in_year y) in *; set (Lq := days_in_year (y - 1)) in *.
  - destruct ((b - 1) mod 7 <? 3) eqn:E; destruct ((b - Lq - 1) mod 7 <? 3) eqn:E';
    match goal with H : iso_weeks_in_year (y - 1) = 52 + (if ?c then 1 else 0) |- _ => destruct c eqn:E3 end; lia.
  - unfold iso_delta in E2; cbv zeta in E2; fold b in E2.
    destruct ((b - 1) mod 7 <? 3) eqn:E; destruct ((b + L - 1) mod 7 <? 3) eqn:E';
    match goal with H : iso_weeks_in_year y = 52 + (if ?c then 1 else 0) |- _ => destruct c eqn:E3 end; lia.
  - unfold iso_delta in E2; cbv zeta in E2; fold b in E2.
    destruct ((b - 1) mod 7 <? 3) eqn:E; lia.
Qed.

(** ISO (year, week) pairs are monotone in the day number *)
Lemma yo_of_dn_mono n1 n2 : n1 <= n2 ->
  fst (yo_of_dn n1) < fst (yo_of_dn n2) \/
  (fst (yo_of_dn n1) = fst (yo_of_dn n2) /\ snd (yo_of_dn n1) <= snd (yo_of_dn n2)).
Proof.
  intros Hle. destruct (yo_of_dn_valid n1) as [V1 D1]. destruct (yo_of_dn_valid n2) as [V2 D2].
  set (y1 := fst (yo_of_dn n1)) in *. set (o1 := snd (yo_of_dn n1)) in *.
  set (y2 := fst (yo_of_dn n2)) in *. set (o2 := snd (yo_of_dn n2)) in *. clearbody y1 o1 y2 o2.
  destruct (Z_lt_dec y1 y2) as [L|L]; [left; exact L|right].
  destruct (Z_lt_dec y2 y1) as [L2|L2].
  { pose proof (dn_le_iff _ _ _ _ V2 V1 L2). lia. }
  assert (y1 = y2) by lia. split; [assumption|]. subst y2. unfold dn_of_yo in *. lia.
Qed.
Theorem iso_of_dn_mono n1 n2 : n1 <= n2 ->
  fst (iso_of_dn n1) < fst (iso_of_dn n2) \/
  (fst (iso_of_dn n1) = fst (iso_of_dn n2) /\ snd (iso_of_dn n1) <= snd (iso_of_dn n2)).
Proof.
  intros Hle. unfold iso_of_dn. cbv zeta.
  assert (Hth : n1 - weekday_of_dn n1 + 3 <= n2 - weekday_of_dn n2 + 3) by (unfold weekday_of_dn; lia).
  pose proof (yo_of_dn_mono _ _ Hth) as M.
  destruct (yo_of_dn (n1 - weekday_of_dn n1 + 3)) as [y1 o1]. destruct (yo_of_dn (n2 - weekday_of_dn n2 + 3)) as [y2 o2].
  cbn [fst snd] in *. lia.
Qed.
