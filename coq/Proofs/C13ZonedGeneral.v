(** C13 — the general composition and the item-list class for DateTime<FixedOffset>: item lists with
    the offset items %z / %:z, for every value whose offset is a whole number of minutes and whose
    wall-clock date is a NaiveDate ([valid_dtz]).  The formatter works on the wall clock
    (overflowing_naive_local), the reader's fields are those of the wall clock plus the offset, and
    Parsed::to_datetime goes back to the instant (from_local_datetime): C09's [local_of] / [back]. *)
From Coq Require Import ZArith List Bool Lia ZifyBool.
From V Require Import Base.Int Base.IntLemmas Base.IO Base.Utf8 Model.Scan Model.Items Gen.ParseTable Gen.Strftime
  Proofs.Utf8 Proofs.Scan Model.Parse Proofs.C13 Proofs.C13Reads Proofs.C13Fmt Proofs.C13Digits Proofs.C13Time
  Proofs.C13Date Proofs.C13View Proofs.C13DateTime Proofs.C13TimeForms Proofs.C13Zoned Proofs.C13General Proofs.C13Static
  Spec.StrftimeDoc Spec.Gregorian.
From V Require Model.Parsed Model.Format Model.Date Model.Time Model.DateTime Model.Strftime Proofs.C12 Proofs.C12View
  Proofs.C14 Proofs.C14Date Proofs.C14Iso Proofs.C08Sweeps Proofs.C08 Proofs.C08Days Proofs.C08AddDays Proofs.DateIso
  Proofs.C04 Proofs.C09Time Proofs.C09Zoned.
Import ListNotations.
Open Scope Z_scope.
Ltac Zify.zify_post_hook ::= Z.to_euclidean_division_equations.
Import Model.Parsed.

(* the specification-level value of a zoned date-time: its wall clock and offset *)
Definition sv_of_dtz (dnl : Z) (tl : Model.Time.ntime) (off : Z) : sval :=
  mk_sval (Some dnl) (Some (Model.Time.tsecs tl)) (Model.Time.tfrac tl mod 1000000000) (1000000000 <=? Model.Time.tfrac tl)
          (Some off) false (Some (unix_secs dnl (Model.Time.tsecs tl) - off)).

(* a wall-clock time taken back to UTC *)
Definition back_time (off : Z) (t : Model.Time.ntime) : Model.Time.ntime :=
  Model.Time.mk_time ((Model.Time.tsecs t - off) mod 86400) (Model.Time.tfrac t).

Lemma back_secs su off sl' : 0 <= su < 86400 -> off mod 60 = 0 ->
  (su + off) mod 86400 - ((su + off) mod 86400) mod 60 <= sl' <= (su + off) mod 86400 ->
  let su' := (sl' - off) mod 86400 in
  (su' + off) mod 86400 = sl' /\ (su' + off) / 86400 = (su + off) / 86400 /\ 0 <= su' < 86400 /\ su' mod 60 = sl' mod 60 /\
  su - su mod 60 <= su' <= su.
Proof.
  intros Hs Hm Hl. cbv zeta.
  set (q := (su + off) / 86400) in *. set (sl := (su + off) mod 86400) in *.
  assert (E : su + off = 86400 * q + sl) by (unfold q, sl; lia).
  assert (Hsl : 0 <= sl < 86400) by (unfold sl; lia).
  assert (Hmod : sl mod 60 = su mod 60) by lia.
  assert (E2 : (sl' - off) mod 86400 = su - (sl - sl')).
  { replace (sl' - off) with (su - (sl - sl') + (- q) * 86400) by lia. rewrite Z.mod_add by lia.
    apply Z.mod_small. lia. }
  rewrite E2.
  assert (E3 : su - (sl - sl') + off = 86400 * q + sl') by lia.
  split; [rewrite E3; rewrite Z.mul_comm, Z.add_comm, Z.mod_add by lia; apply Z.mod_small; lia|].
  split; [rewrite E3; rewrite Z.mul_comm, Z.add_comm, Z.div_add by lia; rewrite Z.div_small by lia; lia|].
  split; [lia|]. split; [|lia].
  replace (su - (sl - sl')) with (sl' + (q * 1440 - off / 60) * 60) by lia. rewrite Z.mod_add by lia. reflexivity.
Qed.

Section Zoned.
  Variables (yu ou du su fu off : Z).
  Let z := Model.DateTime.mk_dtz (Model.DateTime.mk_ndt du (Model.Time.mk_time su fu)) off.
  Let n := dn_of_yo yu ou + (su + off) / 86400.
  Let yl := fst (yo_of_dn n).
  Let ol := snd (yo_of_dn n).
  Let dl := Proofs.C08AddDays.date_of_dn n.
  Let sl := (su + off) mod 86400.
  Let tl := Model.Time.mk_time sl fu.
  Let sv := sv_of_dtz (dn_of_yo yl ol) tl off.

  Theorem general_dtz_roundtrip on items texts ws :
    valid_dtz yu ou z -> (forall k, on = Some k -> 0 <= k <= 999999999) ->
    Forall2 (doc_item sv on) items texts ->
    reader_takes (combine items texts) ws ->
    date_comb_b yl (fst (iso_of_dn (dn_of_yo yl ol))) (apply_ws ws parsed_new) = true ->
    time_comb_b (apply_ws ws parsed_new) = true -> some_b (p_offset (apply_ws ws parsed_new)) = true ->
    exists a,
      Model.Format.fa_of_dtz z = Val a /\
      Model.Format.write_items a items [] = Model.Format.fok (concat texts) /\
      (let+ q := parse parsed_new (concat texts) items in pr_of (to_datetime q)) =
        pok (Model.DateTime.mk_dtz (Model.DateTime.mk_ndt du (back_time off (time_kept (apply_ws ws parsed_new) tl))) off) /\
      (forall v, p_second (apply_ws ws parsed_new) = Some v -> v = ss tl) /\
      (forall k, p_nanosecond (apply_ws ws parsed_new) = Some k -> on = Some k).
  Proof.
    intros (Hr & Hvt & Ho & Hm & Hw) Hon HF HU HCd HCt HCo.
    cbn [Model.DateTime.dz_utc Model.DateTime.dz_off Model.DateTime.nd_date Model.DateTime.nd_time Model.Time.tsecs z] in *.
    fold n in Hw.
    pose proof (Proofs.C09Zoned.local_repr yu ou su off Hw) as Hlr. fold n yl ol dl in Hlr.
    pose proof (valid_time_dom su fu Hvt) as Htd.
    pose proof (Proofs.C09Zoned.local_of yu ou du su fu off Hr Htd Ho Hm Hw) as Hlocal. fold n dl sl in Hlocal.
    assert (Hvl : valid_time tl).
    { destruct Hvt as [Hs Hf]. cbn [Model.Time.tsecs Model.Time.tfrac] in *. split; cbn [tl Model.Time.tsecs Model.Time.tfrac].
      - unfold sl. lia.
      - destruct Hf as [Hf|[H59 Hf]]; [left; exact Hf|right]. split; [unfold sl; lia|exact Hf]. }
    set (name := offset_text off true 0).
    set (a := Model.Format.mk_fa (Some dl) (Some tl) (Some (name, off))).
    exists a. split.
    { unfold Model.Format.fa_of_dtz, z. rewrite Hlocal. cbn [bind Model.DateTime.dz_off].
      rewrite Proofs.C12.fixed_offset_display_minutes by assumption. reflexivity. }
    assert (V : Proofs.C12.args_view a sv).
    { constructor; cbn [a sv sv_of_dtz Model.Format.fa_date Model.Format.fa_time Model.Format.fa_off
        sv_dn sv_sod sv_nano sv_leap sv_off sv_utc sv_unix].
      - apply Proofs.C12View.date_view_of_repr. exact Hlr.
      - apply time_view_valid. exact Hvl.
      - split; [reflexivity|]. split; [exact Ho|]. apply Proofs.C12.fixed_offset_display_minutes; assumption.
      - eexists; eexists. split; [reflexivity|]. split; [reflexivity|]. reflexivity. }
    assert (Hmin : forall o, sv_off sv = Some o -> o mod 60 = 0).
    { intros o E. cbn in E. apply Some_inj in E. subst o. exact Hm. }
    destruct (general_core a sv on items texts ws V ltac:(cbn; lia) Hmin Hon HF HU) as (Hwi & Hp & Hrun & E & T).
    split; [exact Hwi|].
    set (p := apply_ws ws parsed_new) in *.
    destruct (time_resolution sv on tl p eq_refl eq_refl Hvl Hon E HCt) as (Ht & V4 & V5 & Hsec).
    split; [|split; assumption].
    rewrite Hp, Hrun. cbn [pbind bind pok]. unfold pr_of.
    (* the date *)
    destruct (Proofs.DateIso.d_iso_week_spec yl ol dl Hlr) as (Hiw & Eiy & _). cbv zeta in Hiw, Eiy.
    set (iw := Proofs.DateIso.mkweek (fst (iso_of_dn (dn_of_yo yl ol))) (snd (iso_of_dn (dn_of_yo yl ol)))) in *.
    rewrite <- Eiy in HCd.
    destruct (date_comb_sound yl (Model.Date.iw_year iw) _ HCd) as (G1 & G2 & C).
    pose proof (resolve_date_view yl ol dl iw p (gview sv on) Hlr Hiw T
               (gview_date_sound sv on dl (dn_of_yo yl ol) eq_refl (Proofs.C12View.date_view_of_repr yl ol dl Hlr)) E G1 G2 C) as Ed.
    assert (Ets : p_timestamp p = None).
    { destruct (p_timestamp p) as [v|] eqn:Ev; [|reflexivity]. pose proof (E F_timestamp v Ev) as Hc. discriminate Hc. }
    assert (Eoff : p_offset p = Some off).
    { destruct (p_offset p) as [v|] eqn:Ev; [|discriminate HCo]. pose proof (E F_offset v Ev) as Hc.
      cbn in Hc. replace (off mod 60 =? 0) with true in Hc by lia. rewrite <- Hc. reflexivity. }
    unfold to_datetime. rewrite Eoff. cbn [ebind bind].
    rewrite (resolve_ndt yl ol dl (time_kept p tl) p off Hlr Hsec Ho Ed Ht Ets). cbn [ebind bind].
    assert (Ee : Model.DateTime.east_opt off = Some off) by (apply Proofs.C04.east_opt_some_iff; split; [reflexivity|exact Ho]).
    rewrite Ee. cbn [ok_or ebind bind].
    (* back from the wall clock: the kept time lies in the same minute of the same day *)
    set (t' := time_kept p tl) in *.
    destruct (time_parts tl Hvl) as (_ & _ & _ & Rh & Rm & Rs).
    assert (Hsv : unwrap_or (p_second p) 0 = 0 \/ unwrap_or (p_second p) 0 = ss tl).
    { destruct (p_second p) as [v|]; cbn [unwrap_or]; [right; exact (V4 v eq_refl)|left; reflexivity]. }
    assert (Hnb : 0 <= unwrap_or (p_nanosecond p) 0 <= 999999999).
    { destruct (p_nanosecond p) as [k|]; cbn [unwrap_or]; [exact (Hon k (V5 k eq_refl))|lia]. }
    pose proof Hvl as [Hsl Hfl]. cbn [tl Model.Time.tsecs Model.Time.tfrac] in Hsl, Hfl.
    assert (Hsl' : sl - sl mod 60 <= Model.Time.tsecs t' <= sl /\
                   (1000000000 <= Model.Time.tfrac t' -> Model.Time.tsecs t' mod 60 = 59) /\
                   0 <= Model.Time.tfrac t' < 2000000000).
    { unfold t', time_kept, Proofs.C14.time_of_fields. cbn [Model.Time.tsecs Model.Time.tfrac].
      unfold hh, mm, ss in *. cbn [tl Model.Time.tsecs Model.Time.tfrac] in *.
      destruct Hsv as [-> | ->].
      - cbn [Z.eqb]. split; [lia|]. split; lia.
      - destruct (sl mod 60 + fu / 1000000000 =? 60) eqn:E60; split; try lia; split; lia. }
    destruct Hsl' as (Hb1 & Hb2 & Hb3).
    destruct Hvt as [Hsu Hfu]. cbn [Model.Time.tsecs Model.Time.tfrac] in Hsu, Hfu.
    destruct (back_secs su off (Model.Time.tsecs t') Hsu Hm Hb1) as (B1 & B2 & B3 & B4 & B5).
    set (su' := (Model.Time.tsecs t' - off) mod 86400) in *.
    assert (Htd' : Proofs.C09Time.time_dom (Model.Time.mk_time su' (Model.Time.tfrac t'))).
    { unfold Proofs.C09Time.time_dom, Proofs.C09Show.tvalid. cbn [Model.Time.tsecs Model.Time.tfrac].
      split; [split; [exact B3|exact Hb3]|].
      destruct (Z_lt_ge_dec (Model.Time.tfrac t') 1000000000) as [Hlt|Hge]; [left; exact Hlt|right].
      rewrite B4. apply Hb2. lia. }
    assert (Hw' : dn_in_range (dn_of_yo yu ou + (su' + off) / 86400) = true) by (rewrite B2; exact Hw).
    pose proof (Proofs.C09Zoned.back yu ou du su' (Model.Time.tfrac t') off Hr Htd' Ho Hm Hw') as Hback.
    rewrite B1, B2 in Hback. fold n dl in Hback.
    assert (Et' : t' = Model.Time.mk_time (Model.Time.tsecs t') (Model.Time.tfrac t')) by (destruct t'; reflexivity).
    rewrite Et' at 1. rewrite Hback. reflexivity.
  Qed.
End Zoned.

(** * the item-list class for DateTime<FixedOffset> *)
Lemma back_static items k su fu off : 0 <= su < 86400 -> off mod 60 = 0 ->
  back_time off (static_time_value items k (Model.Time.mk_time ((su + off) mod 86400) fu)) =
  static_time_value items k (Model.Time.mk_time su fu).
Proof.
  intros Hs Hm. unfold static_time_value, back_time, leap_part, nano9. cbn [Model.Time.tsecs Model.Time.tfrac].
  destruct (fmem F_second (sfields items)); cbn [Model.Time.tsecs Model.Time.tfrac].
  - f_equal.
    destruct (back_secs su off ((su + off) mod 86400) Hs Hm ltac:(lia)) as (_ & _ & B3 & B4 & B5). lia.
  - f_equal. set (sl := (su + off) mod 86400).
    assert (Hsl : 0 <= sl < 86400) by (unfold sl; lia).
    destruct (back_secs su off (sl / 60 * 60) Hs Hm ltac:(fold sl; lia)) as (_ & _ & B3 & B4 & B5). lia.
Qed.

Definition dtz_static (k : Z) (items : list Item) : bool :=
  static_ok items && forallb (it_kind_ok true true true) items && static_date_ok items && static_time_ok items
  && fmem F_offset (sfields items) && frac_class_ok k items.

Theorem static_dtz_roundtrip items k :
  dtz_static k items = true -> k = 3 \/ k = 6 \/ k = 9 ->
  forall yu ou z, valid_dtz yu ou z ->
  exists a text,
    Model.Format.fa_of_dtz z = Val a /\
    Model.Format.write_items a items [] = Model.Format.fok text /\
    (let+ q := parse parsed_new text items in pr_of (to_datetime q)) =
      pok (Model.DateTime.mk_dtz
             (Model.DateTime.mk_ndt (Model.DateTime.nd_date (Model.DateTime.dz_utc z))
                (static_time_value items k (Model.DateTime.nd_time (Model.DateTime.dz_utc z))))
             (Model.DateTime.dz_off z)).
Proof.
  intros Hst Hk3 yu ou z Hv. unfold dtz_static in Hst.
  apply andb_prop in Hst. destruct Hst as [Hst Hfc]. apply andb_prop in Hst. destruct Hst as [Hst Hoff].
  apply andb_prop in Hst. destruct Hst as [Hst Hct]. apply andb_prop in Hst. destruct Hst as [Hst Hcd].
  apply andb_prop in Hst. destruct Hst as [Hsk Hk]. destruct (static_ok_split items Hsk) as (Hs & N1 & N2).
  destruct z as [[du [su fu]] off]. pose proof Hv as (Hr & Hvt & Ho & Hm & Hw).
  cbn [Model.DateTime.dz_utc Model.DateTime.dz_off Model.DateTime.nd_date Model.DateTime.nd_time Model.Time.tsecs] in *.
  set (n := dn_of_yo yu ou + (su + off) / 86400) in *.
  set (yl := fst (yo_of_dn n)). set (ol := snd (yo_of_dn n)). set (sl := (su + off) mod 86400).
  set (tl := Model.Time.mk_time sl fu).
  set (sv := sv_of_dtz (dn_of_yo yl ol) tl off). set (on := on_of sv k).
  pose proof (Proofs.C09Zoned.local_repr yu ou su off Hw) as Hlr. fold n yl ol in Hlr.
  assert (Hvl : valid_time tl).
  { destruct Hvt as [Hs0 Hf]. cbn [Model.Time.tsecs Model.Time.tfrac] in *. split; cbn [tl Model.Time.tsecs Model.Time.tfrac].
    - unfold sl. lia.
    - destruct Hf as [Hf|[H59 Hf]]; [left; exact Hf|right]. split; [unfold sl; lia|exact Hf]. }
  assert (Hnano : 0 <= sv_nano sv < 1000000000) by (cbn; lia).
  assert (Bsv : sv_bounds sv).
  { constructor.
    - intros dn E. pose proof (Some_inj (dn_of_yo yl ol) dn E) as E'. subst dn.
      pose proof (Proofs.C12View.date_view_of_repr yl ol _ Hlr) as [_ [_ Hyr] (yy & m & dd & Hymd & _ & _ & Hmr & Hddr) [_ Hor] _ (w & _ & _ & _ & Hwr & Hwyr) _].
      unfold dn_month, dn_day. rewrite Hymd. cbn [fst snd]. repeat split; try assumption; lia.
    - intros s E. pose proof (Some_inj sl s E) as E'. subst s. destruct Hvl as [H0 _]. exact H0.
    - exact Hnano.
    - intros o E. pose proof (Some_inj off o E) as E'. subst o. exact Ho. }
  assert (Hmin : forall o, sv_off sv = Some o -> o mod 60 = 0).
  { intros o E. pose proof (Some_inj off o E) as E'. subst o. exact Hm. }
  assert (Hon : forall j, on = Some j -> 0 <= j <= 999999999) by (apply on_of_range; [exact Hnano|exact Hk3]).
  destruct (static_render sv on true true true ltac:(intros _; discriminate) ltac:(intros _; discriminate)
              ltac:(intros _; discriminate) items Hs Hk) as (texts & HF).
  { rewrite Forall_forall. intros it Hin. unfold frac_class_ok in Hfc. rewrite forallb_forall in Hfc.
    exact (frac_class_item sv k it (Hfc it Hin)). }
  { intros dn _. split; intros Hc; congruence. }
  destruct (static_accept sv on Bsv Hmin items texts Hs HF) as (ws & HU & HE).
  pose proof (eq_trans (map_fst_absorb (combine items texts)) (map_fst_combine items texts (F2_length _ _ _ HF))) as Hl.
  destruct (real_presence items _ ws Hl HU) as [HP HN].
  assert (HCd : date_comb_b yl (fst (iso_of_dn (dn_of_yo yl ol))) (apply_ws ws parsed_new) = true).
  { rewrite (date_comb_ext _ _ _ _ HP). apply date_comb_mono. exact Hcd. }
  assert (HCo : some_b (p_offset (apply_ws ws parsed_new)) = true).
  { pose proof (HP F_offset ltac:(discriminate)) as E. rewrite shape_present in E. cbn [pget] in E. rewrite E. exact Hoff. }
  destruct (general_dtz_roundtrip yu ou du su fu off on items texts ws Hv Hon HF (or_intror HU) HCd
              (time_comb_transfer _ _ Hct HP HN) HCo) as (a & Ha & Hwi & Hp & V4 & V5).
  exists a, (concat texts). split; [exact Ha|]. split; [exact Hwi|]. rewrite Hp.
  fold n yl ol sl tl in V4, V5 |- *.
  rewrite (time_value_static sv k items _ ws tl eq_refl Hvl Hct Hl HE HU V4 V5).
  unfold tl, sl. destruct Hvt as [Hsu _]. cbn [Model.Time.tsecs] in Hsu. rewrite (back_static items k su fu off Hsu Hm). reflexivity.
Qed.

(* "%Y-%m-%dT%H:%M:%S%z", "%Y-%m-%d %H:%M:%S%.3f %:z", "%a, %d %b %Y %H:%M:%S %z" (the RFC 2822 shape) are
   members; without an offset item the list is not sufficient for a DateTime *)
Example dtz_static_members :
  dtz_static 9 (DTZ_FMT false) = true /\ dtz_static 9 (DTZ_FMT true) = true /\
  dtz_static 3 (YMD_FMT ++ Space [32] :: SF_T_FMT ++ [IFixed F_Nanosecond3; Space [32]; IFixed F_TimezoneOffsetColon]) = true /\
  dtz_static 9 [IFixed F_ShortWeekdayName; Literal [44]; Space [32]; num0 N_Day; Space [32]; IFixed F_ShortMonthName; Space [32];
                num0 N_Year; Space [32]; num0 N_Hour; Literal [58]; num0 N_Minute; Literal [58]; num0 N_Second; Space [32];
                IFixed F_TimezoneOffset] = true /\
  dtz_static 9 NDT_T_FMT = false.
Proof. vm_compute. repeat split. Qed.

Theorem class_dtz_parse_from_str fmt items k :
  items_of fmt = Val (Some items) -> dtz_static k items = true -> k = 3 \/ k = 6 \/ k = 9 ->
  forall yu ou z, valid_dtz yu ou z ->
  exists a text,
    Model.Format.fa_of_dtz z = Val a /\
    Model.Format.delayed_display a (Model.Strftime.sf_new fmt) = Model.Format.fok text /\
    dt_parse_from_str text fmt =
      pok (Model.DateTime.mk_dtz
             (Model.DateTime.mk_ndt (Model.DateTime.nd_date (Model.DateTime.dz_utc z))
                (static_time_value items k (Model.DateTime.nd_time (Model.DateTime.dz_utc z))))
             (Model.DateTime.dz_off z)).
Proof.
  intros Hi Hst Hk3 yu ou z Hv. destruct (static_dtz_roundtrip items k Hst Hk3 yu ou z Hv) as (a & text & Ha & Hw & Hp).
  pose proof (sf_take_length _ _ _ _ Hi) as Hl. cbn [List.length] in Hl. rewrite Nat.add_0_r in Hl.
  destruct (sf_lift fmt items a text Hi Hl Hw) as [Hd Hps].
  exists a, text. split; [exact Ha|]. split; [exact Hd|]. unfold dt_parse_from_str. rewrite Hps. exact Hp.
Qed.
