(** C09 -- the second recorded finding, for EVERY value it covers: the printed form of a
    DateTime<FixedOffset> whose wall-clock date is the day after NaiveDate::MAX / before NaiveDate::MIN
    is refused by DateTime::from_str with OutOfRange, in both forms. *)
From Coq Require Import ZArith List Bool Lia ZifyBool String.
From V Require Import Base.Int Base.IntLemmas Base.IO Base.Utf8 Base.Lift Gen.DateTables Gen.TextForms Gen.ParseTable
  Model.Scan Model.Items Model.Rfc3339 Model.Parse Model.FromStr Model.Show Model.DateTime Spec.Gregorian
  Proofs.Utf8 Proofs.Scan Proofs.Decimal Proofs.C09Parse Proofs.C09Show Proofs.C09Time Proofs.C09Date Proofs.C09DateTime
  Proofs.C09Zoned Proofs.C09Shape Proofs.C09Edge.
From V Require Model.Parsed Model.Date Model.Time Judge.C09 Proofs.C14 Proofs.Date Proofs.C08 Proofs.C04.
Import ListNotations.
Open Scope Z_scope.
Ltac Zify.zify_post_hook ::= Z.to_euclidean_division_equations.

Import Model.Parsed.
Import Proofs.Date.

(** the scanning half of DateTime::from_str on "<date><sep><time><zone>", for ANY year of up to six
    digits: the fields reach [to_datetime] unchanged *)
Lemma read_scan yl ml ddl sl fu off sep zone zone' :
  -999999 <= yl <= 999999 -> 1 <= ml <= 12 -> 1 <= ddl <= 31 -> time_dom (Time.mk_time sl fu) ->
  -86400 < off < 86400 ->
  (sep = 84 \/ sep = 32) -> frac_stop zone ->
  (forall rel p x, parse_item rel p zone (Space x) = pok (p, zone')) ->
  tail_scan zone' = Val (POk ([], off)) ->
  datetime_from_str (ndt_txt sep yl ml ddl sl fu ++ zone) =
    pr_of (to_datetime (pput F_offset (Some off) (with_time (with_ymd parsed_new yl ml ddl) sl fu))).
Proof.
  intros Hy Hm Hd Hlt Hoff Hsep Hstop Hsp Htail.
  unfold datetime_from_str. rewrite parse_rfc3339_relaxed_unfold.
  unfold ndt_txt, inner_items, P_RELAXED_DATE_ITEMS, P_RELAXED_TIME_ITEMS.
  destruct fresh_new as [Fd Ft].
  repeat (rewrite <- app_assoc; cbn [app]).
  rewrite run_date; try lia; [|exact Fd|].
  2:{ destruct Hstop as (Ha & _). ascii_tac; unfold time_txt; ascii_tac; exact Ha. }
  rewrite parse_items_nil. cbn [pbind bind pok].
  replace (existsb (Z.eqb sep) P_RELAXED_SEPARATORS) with true by (destruct Hsep as [-> | ->]; reflexivity).
  rewrite str_from_1.
  2:{ apply utf8_valid_starts_ok, utf8_ascii. destruct Hstop as (Ha & _). unfold time_txt. ascii_tac. exact Ha. }
  cbn [plift pbind bind pok].
  rewrite run_time; [|apply time_fresh_ymd; exact Ft|exact Hlt|exact Hstop].
  cbn [parse_items]. rewrite Hsp. cbn [pbind bind pok].
  rewrite Htail. cbn [pbind bind pok].
  set (p1 := with_time (with_ymd parsed_new yl ml ddl) sl fu).
  destruct (with_time_date (with_ymd parsed_new yl ml ddl) sl fu)
    as (_ & _ & _ & _ & _ & _ & _ & _ & _ & _ & _ & _ & _ & _ & E15 & E16). fold p1 in E15, E16.
  unfold set_offset. rewrite set_checked_fresh; [|exact E16|unfold i32_min, i32_max; lia].
  cbn [setq pbind bind pok]. change (trim_start []) with (@nil Z). cbn [is_empty negb].
  reflexivity.
Qed.

(** resolution refuses a year outside the range of NaiveDate *)
Lemma to_naive_date_ymd_out p y m dd :
  p_year p = Some y -> p_month p = Some m -> p_day p = Some dd -> date_only_ymd p ->
  -999999 <= y <= 999999 -> 1 <= m <= 12 -> 1 <= dd <= 31 -> year_in_range y = false ->
  to_naive_date p = Val (Err OutOfRange).
Proof.
  intros Py Pm Pd (N1 & N2 & N3 & N4 & N5 & N6 & N7 & N8 & N9 & N10 & N11) Hyb Hm Hd Hy.
  unfold to_naive_date. rewrite Py, Pm, Pd, N1, N2, N3, N4, N5, N6.
  cbn [resolve_year ebind bind].
  rewrite from_ymd_opt_spec by (try apply in_i32_iff; unfold in_u32, in_range, u32_max; lia).
  rewrite Hy. cbn [andb date_if ok_or_r ok_or bind ebind]. reflexivity.
Qed.

Lemma to_naive_date_out y m dd s f : -999999 <= y <= 999999 -> 1 <= m <= 12 -> 1 <= dd <= 31 -> year_in_range y = false ->
  to_naive_date (with_time (with_ymd parsed_new y m dd) s f) = Val (Err OutOfRange).
Proof.
  intros Hy Hm Hd Hr.
  set (p0 := with_ymd parsed_new y m dd).
  destruct (with_time_date p0 s f) as (E1 & E2 & E3 & E4 & E5 & E6 & E7 & E8 & E9 & E10 & E11 & E12 & E13 & E14 & _).
  apply (to_naive_date_ymd_out _ y m dd); try assumption.
  unfold date_only_ymd. rewrite E4, E5, E6, E7, E8, E9, E10, E11, E12, E13, E14. repeat split.
Qed.

(** so the whole resolution answers OutOfRange *)
Lemma to_datetime_out y m dd s f off : -999999 <= y <= 999999 -> 1 <= m <= 12 -> 1 <= dd <= 31 -> year_in_range y = false ->
  time_dom (Time.mk_time s f) ->
  pr_of (to_datetime (pput F_offset (Some off) (with_time (with_ymd parsed_new y m dd) s f))) = Val (PErr Scan.OutOfRange).
Proof.
  intros Hy Hm Hd Hr Hlt.
  set (p1 := with_time (with_ymd parsed_new y m dd) s f).
  destruct (with_time_date (with_ymd parsed_new y m dd) s f)
    as (_ & _ & _ & _ & _ & _ & _ & _ & _ & _ & _ & _ & _ & _ & E15 & E16). fold p1 in E15, E16.
  unfold to_datetime. set (p2 := pput F_offset (Some off) p1).
  assert (Eoff : p_offset p2 = Some off) by reflexivity. rewrite Eoff. cbn [ebind bind].
  unfold to_naive_datetime_with_offset.
  assert (Edate : to_naive_date p2 = Val (Err OutOfRange)).
  { pose proof (to_naive_date_out y m dd s f Hy Hm Hd Hr) as Hd0. fold p1 in Hd0. exact Hd0. }
  rewrite Edate. cbn [bind].
  assert (Etime : to_naive_time p2 = Val (Ok (Time.mk_time s f))).
  { pose proof (to_naive_time_with_time (with_ymd parsed_new y m dd) s f Hlt eq_refl) as Ht0.
    fold p1 in Ht0. exact Ht0. }
  rewrite Etime. cbn [bind].
  assert (Ets2 : p_timestamp p2 = None) by (exact E15). rewrite Ets2. reflexivity.
Qed.

Lemma date_txt_after_max : date_txt 262143 1 1 = B"+262143-01-01".
Proof. vm_compute. reflexivity. Qed.
Lemma date_txt_before_min : date_txt (-262144) 12 31 = B"-262144-12-31".
Proof. vm_compute. reflexivity. Qed.

(** both printed forms of a date-time with sentinel local date text [date_txt y m dd], y outside the range *)
Section Refused.
  Variables (du su fu off dl y m dd : Z).
  Hypothesis Htime : time_dom (Time.mk_time su fu).
  Hypothesis Hoff : -86400 < off < 86400.
  Hypothesis Hmin : off mod 60 = 0.
  Let sl := (su + off) mod 86400.
  Let a := mk_dtz (mk_ndt du (Time.mk_time su fu)) off.
  Hypothesis Hlocal : overflowing_naive_local a = Val (mk_ndt dl (Time.mk_time sl fu)).
  Hypothesis Hdate : date_debug [] dl = wok (date_txt y m dd).
  Hypothesis Hy : -999999 <= y <= 999999.
  Hypothesis Hm : 1 <= m <= 12.
  Hypothesis Hd : 1 <= dd <= 31.
  Hypothesis Hout : year_in_range y = false.

  Lemma sl_time_dom : time_dom (Time.mk_time sl fu).
  Proof.
    destruct Htime as [[Hs Hf] Hl]. cbn [Time.tsecs Time.tfrac] in *.
    split; [split; cbn [Time.tsecs Time.tfrac]; unfold sl; lia|]. cbn [Time.tsecs Time.tfrac].
    destruct Hl as [Hl|Hl]; [left; exact Hl|right]. unfold sl. lia.
  Qed.

  Lemma refused_debug : exists s, to_text (dtz_debug false [] a) = Val s /\ datetime_fixed_from_str s = Val (PErr Scan.OutOfRange).
  Proof.
    pose proof sl_time_dom as Hlt. pose proof (edge_tvalid su fu off Htime) as Htv. fold sl in Htv.
    eexists. split; [exact (edge_debug du su fu off dl _ Htime Hoff Hmin Hlocal Hdate false)|]. fold sl.
    rewrite <- time_shape by apply Htv. rewrite <- off_shape by exact Hoff.
    unfold datetime_fixed_from_str.
    replace (date_txt y m dd ++ B"T" ++ time_txt sl fu ++ off_txt off) with (ndt_txt 84 y m dd sl fu ++ off_txt off)
      by (unfold ndt_txt; repeat (rewrite <- app_assoc; cbn [app]); reflexivity).
    rewrite (read_scan y m dd sl fu off 84 (off_txt off) (off_txt off)); try assumption.
    - apply to_datetime_out; assumption.
    - left; reflexivity.
    - apply off_txt_stop.
    - intros. apply parse_item_space. apply off_txt_nows.
    - apply tail_scan_off; assumption.
  Qed.
  Lemma refused_display : exists s, to_text (dtz_display false [] a) = Val s /\ datetime_fixed_from_str s = Val (PErr Scan.OutOfRange).
  Proof.
    pose proof sl_time_dom as Hlt. pose proof (edge_tvalid su fu off Htime) as Htv. fold sl in Htv.
    eexists. split; [exact (edge_display du su fu off dl _ Htime Hoff Hmin Hlocal Hdate false)|]. fold sl.
    rewrite <- time_shape by apply Htv. rewrite <- off_shape by exact Hoff.
    unfold datetime_fixed_from_str.
    replace (date_txt y m dd ++ B" " ++ time_txt sl fu ++ B" " ++ off_txt off) with (ndt_txt 32 y m dd sl fu ++ 32 :: off_txt off)
      by (unfold ndt_txt; repeat (rewrite <- app_assoc; cbn [app]); reflexivity).
    rewrite (read_scan y m dd sl fu off 32 (32 :: off_txt off) (off_txt off)); try assumption.
    - apply to_datetime_out; assumption.
    - right; reflexivity.
    - apply sp_stop, off_txt_stop.
    - intros. apply parse_item_space_sp. apply off_txt_nows.
    - apply tail_scan_off; assumption.
  Qed.
End Refused.

(** * the finding, universally: every DateTime<FixedOffset> of the domain whose wall-clock date is outside
    the range prints a text (both forms) that DateTime::from_str refuses with OutOfRange *)
Theorem wall_clock_refused yu ou du su fu off : repr yu ou du -> time_dom (Time.mk_time su fu) ->
  -86400 < off < 86400 -> off mod 60 = 0 ->
  dn_in_range (dn_of_yo yu ou + (su + off) / 86400) = false ->
  let a := mk_dtz (mk_ndt du (Time.mk_time su fu)) off in
  (exists s, to_text (dtz_debug false [] a) = Val s /\ datetime_fixed_from_str s = Val (PErr Scan.OutOfRange)) /\
  (exists s, to_text (dtz_display false [] a) = Val s /\ datetime_fixed_from_str s = Val (PErr Scan.OutOfRange)).
Proof.
  intros Hr Ht Ho Hm Hw a. pose proof Ht as [[Hs Hf] _]. cbn [Time.tsecs Time.tfrac] in Hs, Hf.
  destruct (wall_out_cases yu ou du su off Hr Hs Ho Hw) as [(_ & _ & _ & Hk & Hdn)|(_ & _ & _ & Hk & Hdn)].
  - assert (Hl := local_after_max yu ou du su fu off Hr (conj Hs Hf) Ho Hk ltac:(rewrite Hdn; reflexivity)).
    pose proof date_debug_after_max as Hdd. rewrite <- date_txt_after_max in Hdd.
    split; [apply (refused_debug du su fu off _ 262143 1 1 Ht Ho Hm Hl Hdd)
           |apply (refused_display du su fu off _ 262143 1 1 Ht Ho Hm Hl Hdd)]; try lia; reflexivity.
  - assert (Hl := local_before_min yu ou du su fu off Hr (conj Hs Hf) Ho Hk ltac:(rewrite Hdn; reflexivity)).
    pose proof date_debug_before_min as Hdd. rewrite <- date_txt_before_min in Hdd.
    split; [apply (refused_debug du su fu off _ (-262144) 12 31 Ht Ho Hm Hl Hdd)
           |apply (refused_display du su fu off _ (-262144) 12 31 Ht Ho Hm Hl Hdd)]; try lia; reflexivity.
Qed.
