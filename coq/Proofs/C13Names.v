(** C13 — names in any letter case: every case variant of a month name, weekday name or AM/PM
    marker that the formatter prints (default locale tables of Gen/Locales.v) is accepted by the
    recogniser [reads_b], hence (C13Reads.reads_b_sound) read back exactly by the reader. *)
From Coq Require Import ZArith List Bool Lia ZifyBool.
From V Require Import Base.Int Base.IntLemmas Base.IO Base.Utf8 Base.Lift Gen.ScanTables Gen.Locales Model.Scan Model.Items
  Gen.ParseTable Proofs.Utf8 Proofs.Scan Model.Parse Proofs.C13 Proofs.C13Reads.
Import ListNotations.
Open Scope Z_scope.

(** [t] is [name] with the case of any of its letters changed *)
Definition variant (c x : Z) : Prop := c = x \/ c = Z.lxor x 32.
Definition case_variant (t name : bytes) : Prop := Forall2 variant t name.
Definition letters (name : bytes) : Prop := Forall (fun x => is_ascii_alphabetic x = true) name.

Definition letter_check (x : Z) : bool :=
  negb (is_ascii_alphabetic x)
  || ((Z.lor (Z.lxor x 32) 32 =? Z.lor x 32)
      && (to_ascii_lowercase (Z.lxor x 32) =? to_ascii_lowercase x)
      && (0 <=? Z.lxor x 32) && (Z.lxor x 32 <=? 127)).
Lemma letter_sweep : forall_range letter_check 0 128 = true.
Proof. vm_compute. reflexivity. Qed.

Lemma variant_letter c x : is_ascii_alphabetic x = true -> variant c x ->
  Z.lor c 32 = Z.lor x 32 /\ to_ascii_lowercase c = to_ascii_lowercase x /\ 0 <= c <= 127.
Proof.
  intros Hx Hv.
  assert (Hr : 0 <= x < 0 + 128).
  { unfold is_ascii_alphabetic, is_ascii_uppercase, is_ascii_lowercase in Hx. lia. }
  pose proof (forall_range_spec letter_check 128 0 letter_sweep x Hr) as Hc.
  unfold letter_check in Hc. rewrite Hx in Hc. cbn [negb orb] in Hc.
  destruct Hv as [-> | ->].
  - repeat split; lia.
  - apply andb_prop in Hc. destruct Hc as [Hc H4]. apply andb_prop in Hc. destruct Hc as [Hc H3].
    apply andb_prop in Hc. destruct Hc as [H1 H2]. repeat split; lia.
Qed.

Lemma F2_len {X Y} (R : X -> Y -> Prop) l1 l2 : Forall2 R l1 l2 -> List.length l1 = List.length l2.
Proof. induction 1; cbn; congruence. Qed.

Lemma key_of_variant bit t name : bit = 32 -> case_variant t name -> letters name -> key_of t bit = key_of name bit.
Proof.
  intros -> Hv Hl. induction Hv as [|c x t' name' Hcx Hv IH]; [reflexivity|].
  inversion Hl as [|? ? Hx Hl']; subst. cbn [key_of map].
  destruct (variant_letter c x Hx Hcx) as [H1 _]. rewrite H1. f_equal. exact (IH Hl').
Qed.

Lemma eq_ignore_variant t name u : case_variant t name -> letters name ->
  map to_ascii_lowercase name = map to_ascii_lowercase u -> eq_ignore_ascii_case t u = true.
Proof.
  intros Hv Hl Hu. unfold eq_ignore_ascii_case.
  assert (Hlen : blen t = blen u).
  { unfold blen. f_equal. rewrite (F2_len _ _ _ Hv). rewrite <- (map_length to_ascii_lowercase name), Hu, map_length. reflexivity. }
  rewrite Hlen, Z.eqb_refl. cbn [andb].
  revert u Hu Hlen. induction Hv as [|c x t' name' Hcx Hv IH]; intros u Hu Hlen.
  - destruct u; reflexivity.
  - destruct u as [|y u']; [discriminate|]. inversion Hl as [|? ? Hx Hl']; subst.
    cbn [map] in Hu. injection Hu as Hy Hu'. cbn [all2].
    destruct (variant_letter c x Hx Hcx) as [_ [H2 _]].
    unfold u8_eq_ignore_ascii_case. rewrite H2, Hy, Z.eqb_refl. cbn [andb].
    apply IH; try assumption. rewrite !blen_cons in Hlen. lia.
Qed.

Lemma variant_length t name : case_variant t name -> blen t = blen name.
Proof. intros H. unfold blen. rewrite (F2_len _ _ _ H). reflexivity. Qed.

Lemma starts_ok_variant t name rest : case_variant t name -> letters name -> starts_ok rest = true ->
  starts_ok (t ++ rest) = true.
Proof.
  intros Hv Hl Hr. destruct Hv as [|c x t' name' Hcx Hv]; [exact Hr|].
  inversion Hl as [|? ? Hx _]; subst. cbn [app starts_ok].
  destruct (variant_letter c x Hx Hcx) as [_ [_ Hc]]. apply boundary_byte. lia.
Qed.

(** the generic step: a name = three letters + a suffix, looked up in the scanner's tables *)
Lemma reads_name_variant arms bit (suffixes : list bytes) mk t name3 sfx_name rest v (suffix : bytes) :
  bit = 32 ->
  case_variant t (name3 ++ sfx_name) -> letters (name3 ++ sfx_name) -> List.length name3 = 3%nat ->
  assoc_bytes (key_of name3 bit) arms = Some v ->
  index suffixes (as_usize v) = Val suffix ->
  map to_ascii_lowercase sfx_name = map to_ascii_lowercase suffix ->
  starts_ok rest = true ->
  reads_name arms bit (Some suffixes) mk t rest = Some (mk v).
Proof.
  intros Hbit Hv Hl H3 Ha Hi Hs Hr.
  destruct name3 as [|x [|y [|z [|? ?]]]]; try discriminate. cbn [app] in Hv, Hl.
  inversion Hv as [|a ? t1 ? Hax Hv1]; subst. inversion Hv1 as [|b0 ? t2 ? Hby Hv2]; subst.
  inversion Hv2 as [|c ? sfx ? Hcz Hv3]; subst.
  inversion Hl as [|? ? Hx Hl1]; subst. inversion Hl1 as [|? ? Hy Hl2]; subst. inversion Hl2 as [|? ? Hz Hl3]; subst.
  unfold reads_name.
  assert (Hk : key_of [a; b0; c] 32 = key_of [x; y; z] 32).
  { apply key_of_variant; [reflexivity| |].
    - constructor; [exact Hax|constructor; [exact Hby|constructor; [exact Hcz|constructor]]].
    - constructor; [exact Hx|constructor; [exact Hy|constructor; [exact Hz|constructor]]]. }
  rewrite Hk, Ha. cbv beta iota. rewrite Hr. cbv beta iota. rewrite Hi. cbv beta iota.
  assert (Hlen : blen sfx = blen suffix).
  { rewrite (variant_length sfx sfx_name Hv3). unfold blen. f_equal.
    rewrite <- (map_length to_ascii_lowercase sfx_name), Hs, map_length. reflexivity. }
  rewrite Hlen, Z.eqb_refl. rewrite (eq_ignore_variant sfx sfx_name suffix Hv3 Hl3 Hs).
  rewrite (starts_ok_variant sfx sfx_name rest Hv3 Hl3 Hr). reflexivity.
Qed.
Lemma reads_name_variant_short arms bit mk t name3 rest v :
  bit = 32 ->
  case_variant t name3 -> letters name3 -> List.length name3 = 3%nat ->
  assoc_bytes (key_of name3 bit) arms = Some v ->
  starts_ok rest = true ->
  reads_name arms bit None mk t rest = Some (mk v).
Proof.
  intros Hbit Hv Hl H3 Ha Hr.
  destruct name3 as [|x [|y [|z [|? ?]]]]; try discriminate.
  inversion Hv as [|a ? t1 ? Hax Hv1]; subst. inversion Hv1 as [|b0 ? t2 ? Hby Hv2]; subst.
  inversion Hv2 as [|c ? sfx ? Hcz Hv3]; subst. inversion Hv3; subst.
  unfold reads_name.
  assert (Hk : key_of [a; b0; c] 32 = key_of [x; y; z] 32) by (apply key_of_variant; [reflexivity|exact Hv|exact Hl]).
  rewrite Hk, Ha. cbv beta iota. rewrite Hr. reflexivity.
Qed.

(** * The printed names *)
Definition month_name (long : bool) (m0 : Z) : bytes :=
  nth (Z.to_nat m0) (if long then LOC_LONG_MONTHS else LOC_SHORT_MONTHS) [].
(* the locale tables are indexed from Sunday; the reader's weekday is counted from Monday *)
Definition weekday_name (long : bool) (wd : Z) : bytes :=
  nth (Z.to_nat ((wd + 1) mod 7)) (if long then LOC_LONG_WEEKDAYS else LOC_SHORT_WEEKDAYS) [].
Definition ampm_name (pm : bool) : bytes := nth (if pm then 1 else 0)%nat LOC_AM_PM [].

Ltac all_letters := repeat constructor.

Theorem long_month_any_case m0 t rest : 0 <= m0 < 12 ->
  case_variant t (month_name true m0) -> starts_ok rest = true ->
  reads_b (IFixed F_LongMonthName) t rest = Some (W_code 7 (m0 + 1)).
Proof.
  intros Hm Hv Hr. cbn [reads_b reads_fixed].
  assert (m0 = 0 \/ m0 = 1 \/ m0 = 2 \/ m0 = 3 \/ m0 = 4 \/ m0 = 5 \/ m0 = 6 \/ m0 = 7 \/ m0 = 8 \/ m0 = 9 \/ m0 = 10 \/ m0 = 11) as Hc by lia.
  destruct Hc as [->|[->|[->|[->|[->|[->|[->|[->|[->|[->|[->| ->]]]]]]]]]]];
    (match type of Hv with case_variant _ ?nm =>
       eapply (reads_name_variant SHORT_MONTH_ARMS SHORT_MONTH_BIT LONG_MONTH_SUFFIXES (fun m0 => W_code 7 (m0 + 1)) t
                 (firstn 3 nm) (skipn 3 nm));
       [reflexivity|exact Hv|all_letters|reflexivity|reflexivity|reflexivity|reflexivity|exact Hr] end).
Qed.

Theorem short_month_any_case m0 t rest : 0 <= m0 < 12 ->
  case_variant t (month_name false m0) -> starts_ok rest = true ->
  reads_b (IFixed F_ShortMonthName) t rest = Some (W_code 7 (m0 + 1)).
Proof.
  intros Hm Hv Hr. cbn [reads_b reads_fixed].
  assert (m0 = 0 \/ m0 = 1 \/ m0 = 2 \/ m0 = 3 \/ m0 = 4 \/ m0 = 5 \/ m0 = 6 \/ m0 = 7 \/ m0 = 8 \/ m0 = 9 \/ m0 = 10 \/ m0 = 11) as Hc by lia.
  destruct Hc as [->|[->|[->|[->|[->|[->|[->|[->|[->|[->|[->| ->]]]]]]]]]]];
    (match type of Hv with case_variant _ ?nm =>
       eapply (reads_name_variant_short SHORT_MONTH_ARMS SHORT_MONTH_BIT (fun m0 => W_code 7 (m0 + 1)) t nm);
       [reflexivity|exact Hv|all_letters|reflexivity|reflexivity|exact Hr] end).
Qed.

Theorem long_weekday_any_case wd t rest : 0 <= wd < 7 ->
  case_variant t (weekday_name true wd) -> starts_ok rest = true ->
  reads_b (IFixed F_LongWeekdayName) t rest = Some (W_weekday wd).
Proof.
  intros Hm Hv Hr. cbn [reads_b reads_fixed].
  assert (wd = 0 \/ wd = 1 \/ wd = 2 \/ wd = 3 \/ wd = 4 \/ wd = 5 \/ wd = 6) as Hc by lia.
  destruct Hc as [->|[->|[->|[->|[->|[->| ->]]]]]];
    (match type of Hv with case_variant _ ?nm =>
       eapply (reads_name_variant SHORT_WEEKDAY_ARMS SHORT_WEEKDAY_BIT LONG_WEEKDAY_SUFFIXES W_weekday t
                 (firstn 3 nm) (skipn 3 nm));
       [reflexivity|exact Hv|all_letters|reflexivity|reflexivity|reflexivity|reflexivity|exact Hr] end).
Qed.

Theorem short_weekday_any_case wd t rest : 0 <= wd < 7 ->
  case_variant t (weekday_name false wd) -> starts_ok rest = true ->
  reads_b (IFixed F_ShortWeekdayName) t rest = Some (W_weekday wd).
Proof.
  intros Hm Hv Hr. cbn [reads_b reads_fixed].
  assert (wd = 0 \/ wd = 1 \/ wd = 2 \/ wd = 3 \/ wd = 4 \/ wd = 5 \/ wd = 6) as Hc by lia.
  destruct Hc as [->|[->|[->|[->|[->|[->| ->]]]]]];
    (match type of Hv with case_variant _ ?nm =>
       eapply (reads_name_variant_short SHORT_WEEKDAY_ARMS SHORT_WEEKDAY_BIT W_weekday t nm);
       [reflexivity|exact Hv|all_letters|reflexivity|reflexivity|exact Hr] end).
Qed.

(* %p prints AM / PM, %P am / pm: both are case variants of the upper-case marker *)
Theorem ampm_any_case (pm : bool) (lower : bool) t rest :
  case_variant t (ampm_name pm) -> starts_ok rest = true ->
  reads_b (IFixed (if lower then F_LowerAmPm else F_UpperAmPm)) t rest = Some (W_ampm (if pm then 1 else 0)).
Proof.
  intros Hv Hr.
  assert (Hgo : match t with
                | [a; b] =>
                    match assoc_bytes (key_of [a; b] P_AMPM_BIT) P_AMPM_ARMS with
                    | Some v => if starts_ok rest then Some (W_ampm v) else None
                    | None => None
                    end
                | _ => None
                end = Some (W_ampm (if pm then 1 else 0))).
  { destruct pm; cbn in Hv;
      (inversion Hv as [|a ? t1 ? Ha Hv1]; subst; inversion Hv1 as [|b0 ? t2 ? Hb Hv2]; subst; inversion Hv2; subst;
       rewrite (key_of_variant P_AMPM_BIT [a; b0] _ eq_refl Hv ltac:(all_letters)); rewrite Hr; reflexivity). }
  destruct lower; exact Hgo.
Qed.

Example case_variant_example :
  case_variant [115; 69; 80; 116; 69; 109; 66; 101; 82] (month_name true 8) /\   (* "sEPtEmBeR" *)
  case_variant [112; 109] (ampm_name true).                                       (* "pm" *)
Proof. split; repeat constructor; (left; reflexivity) || (right; reflexivity). Qed.
