(** C11 -- roundtrip: the reader specification reads the standard form back (spec-internal), hence,
    with writer_shape and reader_complete, parse_from_rfc2822 (to_rfc2822 v) = v to whole seconds. *)
From Coq Require Import ZArith List Bool Lia ZifyBool String.
From V Require Import Base.Int Base.IO Spec.Gregorian Spec.Rfc2822.
Import ListNotations.
Open Scope Z_scope.
Ltac Zify.zify_post_hook ::= Z.to_euclidean_division_equations.

(** * The recogniser on printed tokens *)
Definition tokc (c : Z) : Prop := (33 <=? c) && (c <=? 126) = true.
Lemma ws0_tokc c r : tokc c -> ws0 (c :: r) = c :: r.
Proof.
  unfold tokc. intros H. unfold ws0. cbn [skip_fws]. replace (is_wsp c) with false by (unfold is_wsp; lia).
  destruct r as [|c2 [|c3 r']]; try reflexivity. replace (c =? 13) with false by lia. reflexivity.
Qed.
Lemma skip_sp c r : tokc c -> skip_fws (32 :: c :: r) = (true, c :: r).
Proof.
  intros H. change (skip_fws (32 :: c :: r)) with (true, snd (skip_fws (c :: r))).
  pose proof (ws0_tokc c r H) as E. unfold ws0 in E. rewrite E. reflexivity.
Qed.
Lemma ws1_sp c r : tokc c -> ws1 (32 :: c :: r) = Some (c :: r).
Proof. intros H. unfold ws1. rewrite skip_sp by exact H. reflexivity. Qed.
Lemma ws0_sp c r : tokc c -> ws0 (32 :: c :: r) = c :: r.
Proof. intros H. unfold ws0. rewrite skip_sp by exact H. reflexivity. Qed.
Lemma is_digit_dig x : 0 <= x <= 9 -> is_digit (dig x) = true.
Proof. unfold is_digit, dig. lia. Qed.
Lemma tokc_dig x : 0 <= x <= 9 -> tokc (dig x).
Proof. unfold tokc, dig. lia. Qed.
Lemma take2_two_app x r : 0 <= x <= 99 -> take2 (two x ++ r) = Some (x, r).
Proof.
  intros H. unfold two, take2. cbn [app]. rewrite !is_digit_dig by lia. cbv [andb]. f_equal. f_equal. unfold dig. lia.
Qed.
Lemma take_digits_stop c r : is_digit c = false -> take_digits (c :: r) = ([], c :: r).
Proof. intros H. cbn [take_digits]. rewrite H. reflexivity. Qed.
Lemma take_digits_dig x r : 0 <= x <= 9 ->
  take_digits (dig x :: r) = (x :: fst (take_digits r), snd (take_digits r)).
Proof.
  intros H. cbn [take_digits]. rewrite is_digit_dig by lia. destruct (take_digits r) as [ds r']. cbn [fst snd].
  f_equal. f_equal. unfold dig. lia.
Qed.

(** names *)
Lemma rec_dow_std wd r : 0 <= wd <= 6 -> rec_dow (nth_name DAY_NAMES wd ++ 44 :: r) = (Some wd, r).
Proof.
  intros H. assert (Hc : wd = 0 \/ wd = 1 \/ wd = 2 \/ wd = 3 \/ wd = 4 \/ wd = 5 \/ wd = 6) by lia.
  repeat (destruct Hc as [->|Hc]; [reflexivity|]). subst. reflexivity.
Qed.
Lemma day_name_tok wd r : 0 <= wd <= 6 -> exists c t, nth_name DAY_NAMES wd ++ r = c :: t /\ tokc c.
Proof.
  intros H. assert (Hc : wd = 0 \/ wd = 1 \/ wd = 2 \/ wd = 3 \/ wd = 4 \/ wd = 5 \/ wd = 6) by lia.
  exists (hd 0 (nth_name DAY_NAMES wd)), (tl (nth_name DAY_NAMES wd) ++ r).
  repeat (destruct Hc as [->|Hc]; [split; reflexivity|]). subst. split; reflexivity.
Qed.
Lemma month_name_std lm r : 1 <= lm <= 12 -> month_name (nth_name MONTH_NAMES (lm - 1) ++ r) = Some (lm, r).
Proof.
  intros H. assert (Hc : lm = 1 \/ lm = 2 \/ lm = 3 \/ lm = 4 \/ lm = 5 \/ lm = 6 \/ lm = 7 \/ lm = 8 \/ lm = 9 \/ lm = 10 \/ lm = 11 \/ lm = 12) by lia.
  repeat (destruct Hc as [->|Hc]; [reflexivity|]). subst. reflexivity.
Qed.
Lemma month_name_tok lm r : 1 <= lm <= 12 -> exists c t, nth_name MONTH_NAMES (lm - 1) ++ r = c :: t /\ tokc c.
Proof.
  intros H. assert (Hc : lm = 1 \/ lm = 2 \/ lm = 3 \/ lm = 4 \/ lm = 5 \/ lm = 6 \/ lm = 7 \/ lm = 8 \/ lm = 9 \/ lm = 10 \/ lm = 11 \/ lm = 12) by lia.
  exists (hd 0 (nth_name MONTH_NAMES (lm - 1))), (tl (nth_name MONTH_NAMES (lm - 1)) ++ r).
  repeat (destruct Hc as [->|Hc]; [split; reflexivity|]). subst. split; reflexivity.
Qed.

(** the standard form from explicit fields *)
Definition std (wd ld lm ly h mi sec : Z) (neg : bool) (hh mm : Z) : bytes :=
  nth_name DAY_NAMES wd ++ 44 :: 32 :: (if 10 <=? ld then two ld else [dig ld]) ++ 32 ::
  nth_name MONTH_NAMES (lm - 1) ++ 32 :: four ly ++ 32 :: two h ++ 58 :: two mi ++ 58 :: two sec ++ 32 ::
  (if neg then 45 else 43) :: two hh ++ two mm.

Lemma rec_day_std ld r : 1 <= ld <= 31 ->
  rec_day ((if 10 <=? ld then two ld else [dig ld]) ++ 32 :: r) = Some (ld, 32 :: r)
  /\ exists c t, (if 10 <=? ld then two ld else [dig ld]) ++ 32 :: r = c :: t /\ tokc c.
Proof.
  intros H. unfold rec_day. destruct (10 <=? ld) eqn:E.
  - split; [|eexists _, _; split; [reflexivity|apply tokc_dig; lia]].
    unfold two. cbn [app]. rewrite take_digits_dig by lia. rewrite take_digits_dig by lia.
    rewrite take_digits_stop by reflexivity. cbn [fst snd value_of]. f_equal. f_equal. lia.
  - split; [|eexists _, _; split; [reflexivity|apply tokc_dig; lia]].
    cbn [app]. rewrite take_digits_dig by lia. rewrite take_digits_stop by reflexivity. cbn [fst snd value_of]. replace (0 * 10 + ld) with ld by lia. reflexivity.
Qed.
Lemma rec_year_std ly r : 0 <= ly <= 9999 -> rec_year (four ly ++ 32 :: r) = Some (4, ly, 32 :: r).
Proof.
  intros H. unfold rec_year, four. cbn [app].
  rewrite take_digits_dig by lia. rewrite take_digits_dig by lia. rewrite take_digits_dig by lia. rewrite take_digits_dig by lia.
  rewrite take_digits_stop by reflexivity. cbn [fst snd List.length value_of]. change (2 <=? Z.of_nat 4) with true. cbv iota.
  f_equal. f_equal. f_equal. lia.
Qed.

Theorem recognise_std wd ld lm ly h mi sec neg hh mm :
  0 <= wd <= 6 -> 1 <= ld <= 31 -> 1 <= lm <= 12 -> 0 <= ly <= 9999 -> 0 <= h <= 99 -> 0 <= mi <= 99 -> 0 <= sec <= 99 ->
  0 <= hh <= 99 -> 0 <= mm <= 99 ->
  recognise (std wd ld lm ly h mi sec neg hh mm) = Some (mk_fields (Some wd) ld lm 4 ly h mi (Some sec) (ZNum neg hh mm)).
Proof.
  intros Hwd Hld Hlm Hly Hh Hmi Hsec Hhh Hmm. unfold recognise, std.
  destruct (day_name_tok wd (44 :: 32 :: (if 10 <=? ld then two ld else [dig ld]) ++ 32 ::
    nth_name MONTH_NAMES (lm - 1) ++ 32 :: four ly ++ 32 :: two h ++ 58 :: two mi ++ 58 :: two sec ++ 32 ::
    (if neg then 45 else 43) :: two hh ++ two mm) Hwd) as (c0 & t0 & E0 & T0).
  rewrite E0, (ws0_tokc c0 t0 T0), <- E0. rewrite rec_dow_std by exact Hwd.
  destruct (rec_day_std ld (nth_name MONTH_NAMES (lm - 1) ++ 32 :: four ly ++ 32 :: two h ++ 58 :: two mi ++ 58 :: two sec ++ 32 ::
    (if neg then 45 else 43) :: two hh ++ two mm) Hld) as (Eday & c1 & t1 & E1 & T1).
  rewrite E1, (ws0_sp c1 t1 T1), <- E1. cbv beta iota zeta delta [obind]. rewrite Eday.
  destruct (month_name_tok lm (32 :: four ly ++ 32 :: two h ++ 58 :: two mi ++ 58 :: two sec ++ 32 ::
    (if neg then 45 else 43) :: two hh ++ two mm) Hlm) as (c2 & t2 & E2 & T2).
  rewrite E2, (ws1_sp c2 t2 T2), <- E2. rewrite month_name_std by exact Hlm.
  assert (T3 : tokc (dig (ly / 1000))) by (apply tokc_dig; lia).
  unfold four at 1. cbn [app]. rewrite (ws1_sp _ _ T3).
  change (dig (ly / 1000) :: dig (ly / 100 mod 10) :: dig (ly / 10 mod 10) :: dig (ly mod 10) :: 32 :: ?r)
    with (four ly ++ 32 :: r).
  rewrite rec_year_std by exact Hly.
  assert (T4 : tokc (dig (h / 10))) by (apply tokc_dig; lia).
  unfold two at 1. cbn [app]. rewrite (ws1_sp _ _ T4).
  change (dig (h / 10) :: dig (h mod 10) :: ?r) with (two h ++ r).
  rewrite take2_two_app by exact Hh.
  rewrite (ws0_tokc 58 _ ltac:(unfold tokc; lia)). cbn [expect Z.eqb Pos.eqb].
  assert (T5 : tokc (dig (mi / 10))) by (apply tokc_dig; lia).
  unfold two at 1. cbn [app]. rewrite (ws0_tokc _ _ T5).
  change (dig (mi / 10) :: dig (mi mod 10) :: ?r) with (two mi ++ r).
  rewrite take2_two_app by exact Hmi.
  unfold rec_second. rewrite (ws0_tokc 58 _ ltac:(unfold tokc; lia)). cbn [Z.eqb Pos.eqb].
  assert (T6 : tokc (dig (sec / 10))) by (apply tokc_dig; lia).
  unfold two at 1. cbn [app]. rewrite (ws0_tokc _ _ T6).
  change (dig (sec / 10) :: dig (sec mod 10) :: ?r) with (two sec ++ r).
  rewrite take2_two_app by exact Hsec. cbv beta iota zeta delta [obind].
  assert (T7 : tokc (if neg then 45 else 43)) by (unfold tokc; destruct neg; lia).
  rewrite (ws1_sp _ _ T7).
  unfold rec_zone. replace (((if neg then 45 else 43) =? 43) || ((if neg then 45 else 43) =? 45)) with true by (destruct neg; reflexivity).
  rewrite take2_two_app by exact Hhh. cbv beta iota zeta delta [obind].
  rewrite <- (app_nil_r (two mm)). rewrite take2_two_app by exact Hmm.
  replace ((if neg then 45 else 43) =? 45) with neg by (destruct neg; reflexivity).
  reflexivity.
Qed.

(** * The standard form of a value is read back as that value (to whole seconds) *)
From V Require Import Proofs.C08Date Proofs.C08Days Proofs.GregorianForms.

Definition whole (frac : Z) : Z := if 1000000000 <=? frac then 1000000000 else 0.

Section Back.
  Variables y o secs frac off : Z.
  Hypothesis Hyo : valid_yo y o = true.
  Hypothesis Hyr : year_in_range y = true.
  Hypothesis Hsecs : 0 <= secs < 86400.
  Hypothesis Hfrac : 0 <= frac < 2000000000.
  Hypothesis Hleap : frac < 1000000000 \/ secs mod 60 = 59.
  Hypothesis Hoff : -86400 < off < 86400.
  Hypothesis Hmin : off mod 60 = 0.
  Let n := wall_dn y o secs off.
  Let ls := wall_secs secs off.
  Let ly := fst (yo_of_dn n).
  Let lo := snd (yo_of_dn n).
  Hypothesis Hly : 0 <= ly <= 9999.
  Let lm := fst (md_of_ordinal (is_leap ly) lo).
  Let ld := snd (md_of_ordinal (is_leap ly) lo).
  Let leap := 1000000000 <=? frac.
  Let g := mk_fields (Some (weekday_of_dn n)) ld lm 4 ly (ls / 3600) (ls / 60 mod 60)
             (Some (ls mod 60 + (if leap then 1 else 0))) (ZNum (off <? 0) (Z.abs off / 3600) (Z.abs off / 60 mod 60)).

  Lemma std_text : standard_text false y o secs frac off =
    std (weekday_of_dn n) ld lm ly (ls / 3600) (ls / 60 mod 60) (ls mod 60 + (if leap then 1 else 0))
        (off <? 0) (Z.abs off / 3600) (Z.abs off / 60 mod 60).
  Proof.
    unfold standard_text, std. fold n ls. unfold lm, ld, ly, lo.
    destruct (yo_of_dn n) as [a b]. cbn [fst snd]. destruct (md_of_ordinal (is_leap a) b) as [c d]. cbn [fst snd orb].
    fold leap. destruct (off <? 0); rewrite <- ?app_assoc; reflexivity.
  Qed.

  Lemma local_facts : valid_yo ly lo = true /\ dn_of_yo ly lo = n /\ 1 <= lm <= 12 /\ 1 <= ld <= days_in_month (is_leap ly) lm
    /\ ordinal_of_md (is_leap ly) lm ld = lo /\ 0 <= ls < 86400.
  Proof.
    destruct (yo_of_dn_valid n) as [Hv Hd]. fold ly lo in Hv, Hd.
    assert (Ho : 1 <= lo <= (if is_leap ly then 366 else 365)) by (unfold valid_yo, days_in_year in Hv; destruct (is_leap ly); lia).
    pose proof (md_of_ordinal_valid (is_leap ly) lo Ho) as M. unfold lm, ld.
    destruct (md_of_ordinal (is_leap ly) lo) as [c d]. cbn [fst snd].
    unfold ls, wall_secs. repeat split; try tauto; lia.
  Qed.

  Lemma recognise_standard : recognise (standard_text false y o secs frac off) = Some g.
  Proof.
    destruct local_facts as (_ & _ & Hm & Hd & _ & Hls).
    pose proof (days_in_month_bounds (is_leap ly) lm).
    rewrite std_text. apply recognise_std; try lia.
    - unfold weekday_of_dn. lia.
    - destruct leap; lia.
  Qed.

  Lemma g_year : year_of g = ly. Proof. reflexivity. Qed.
  Lemma g_offset : zone_offset (f_zone g) = off.
  Proof. cbn [g f_zone zone_offset]. destruct (off <? 0) eqn:E; lia. Qed.
  Lemma g_local_dn : local_dn g = n.
  Proof.
    destruct local_facts as (_ & Hd & _ & _ & Ho & _). unfold local_dn. rewrite g_year. cbn [g f_month f_day].
    unfold dn_of_ymd. rewrite Ho. exact Hd.
  Qed.
  Lemma ls_leap : leap = true -> ls mod 60 = 59.
  Proof. unfold leap. intros H. unfold ls, wall_secs. destruct Hleap as [H1|H1]; lia. Qed.
  Lemma g_second : second_of g =? 60 = leap.
  Proof.
    cbn [g second_of f_second]. destruct local_facts as (_ & _ & _ & _ & _ & Hls).
    destruct leap eqn:E; [rewrite (ls_leap E); reflexivity|lia].
  Qed.
  Lemma g_shift : utc_shift g = ls - off.
  Proof.
    unfold utc_shift. rewrite g_second, g_offset. cbn [g f_hour f_minute second_of f_second].
    destruct local_facts as (_ & _ & _ & _ & _ & Hls).
    destruct leap eqn:E; [pose proof (ls_leap E)|]; lia.
  Qed.
  Lemma utc_back : n + (ls - off) / 86400 = dn_of_yo y o /\ (ls - off) mod 86400 = secs.
  Proof. unfold n, ls, wall_dn, wall_secs. lia. Qed.

  Theorem standard_valid : valid g = true /\ weekday_ok g = true /\ representable g = true.
  Proof.
    destruct local_facts as (Hv & Hd & Hm & Hdd & Ho & Hls). destruct utc_back as [U1 U2].
    repeat split.
    - unfold valid. rewrite g_year. cbn [g f_month f_day f_hour f_minute f_zone valid_zone second_of f_second].
      unfold valid_ymd. destruct leap eqn:E; [pose proof (ls_leap E)|]; lia.
    - unfold weekday_ok. rewrite g_local_dn. cbn [g f_wd]. apply Z.eqb_refl.
    - unfold representable. rewrite g_offset, g_year, g_local_dn, g_shift, U1.
      rewrite dn_in_range_iff by exact Hyo. rewrite Hyr.
      unfold year_in_range, MIN_YEAR, MAX_YEAR. lia.
  Qed.
  Theorem standard_denotes : denote g = (y, o, secs, whole frac, off).
  Proof.
    destruct utc_back as [U1 U2]. unfold denote. rewrite g_local_dn, g_shift, U1, U2, g_second, g_offset.
    rewrite yo_of_dn_of_yo by exact Hyo. reflexivity.
  Qed.

End Back.

  (** the text is ASCII and short *)
  Lemma std_ascii wd d m yy h mi s neg hh mm : 0 <= wd <= 6 -> 1 <= d <= 31 -> 1 <= m <= 12 -> 0 <= yy <= 9999 ->
    0 <= h <= 99 -> 0 <= mi <= 99 -> 0 <= s <= 99 -> 0 <= hh <= 99 -> 0 <= mm <= 99 ->
    Forall (fun c => 0 <= c <= 127) (std wd d m yy h mi s neg hh mm) /\ (List.length (std wd d m yy h mi s neg hh mm) <= 40)%nat.
  Proof.
    intros Hwd Hd Hm Hy Hh Hmi Hs Hhh Hmm.
    assert (A2 : forall x, 0 <= x <= 99 -> Forall (fun c => 0 <= c <= 127) (two x)).
    { intros x Hx. unfold two, dig. repeat constructor; lia. }
    assert (Nd : Forall (fun c => 0 <= c <= 127) (nth_name DAY_NAMES wd) /\ List.length (nth_name DAY_NAMES wd) = 3%nat).
    { assert (Hc : wd = 0 \/ wd = 1 \/ wd = 2 \/ wd = 3 \/ wd = 4 \/ wd = 5 \/ wd = 6) by lia.
      repeat (destruct Hc as [->|Hc]; [split; [repeat constructor; cbv; discriminate|reflexivity]|]).
      subst. split; [repeat constructor; cbv; discriminate|reflexivity]. }
    assert (Nm : Forall (fun c => 0 <= c <= 127) (nth_name MONTH_NAMES (m - 1)) /\ List.length (nth_name MONTH_NAMES (m - 1)) = 3%nat).
    { assert (Hc : m = 1 \/ m = 2 \/ m = 3 \/ m = 4 \/ m = 5 \/ m = 6 \/ m = 7 \/ m = 8 \/ m = 9 \/ m = 10 \/ m = 11 \/ m = 12) by lia.
      repeat (destruct Hc as [->|Hc]; [split; [repeat constructor; cbv; discriminate|reflexivity]|]).
      subst. split; [repeat constructor; cbv; discriminate|reflexivity]. }
    destruct Nd as [Nd1 Nd2]. destruct Nm as [Nm1 Nm2].
    unfold std. split.
    - repeat (apply Forall_app; split) || (apply Forall_cons; [try lia|]); try assumption; try (apply A2; lia).
      all: try (destruct (10 <=? d); [apply A2; lia|unfold dig; repeat constructor; lia]).
      all: try (unfold four, dig; repeat constructor; lia).
      all: try (destruct neg; lia).
    - repeat (rewrite !app_length; cbn [List.length]). rewrite Nd2, Nm2.
      destruct (10 <=? d); cbn [two four List.length]; lia.
  Qed.
