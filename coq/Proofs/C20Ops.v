(** C20 -- which model function answers each op of the dispatcher, the reading op sd.read as the
    FromStr parsers of C09 / C13 / C19, and the TimeDelta extremes. *)
From Coq Require Import ZArith List Bool Lia ZifyBool String.
From V Require Import Base.Int Base.IO Base.Utf8 Model.Scan Model.TimeDelta Model.DateTime Model.FromStr Model.Serde Model.C20.
From V Require Model.Date Model.Time Model.C19 Proofs.C06 Proofs.C20Delta.
Import ListNotations.
Open Scope Z_scope.

Theorem dispatch :
  (forall fmt ty v, run B"sd.rt" [VInt fmt; VInt ty; v] = if fmt_ok fmt then rt fmt ty v else VBad) /\
  (forall fmt ty s, run B"sd.read" [VInt fmt; VInt ty; VStr s] = if fmt_ok fmt && utf8_valid s then read ty s else VBad) /\
  (forall m fmt v, run B"sd.ts" [VInt m; VInt fmt; v] = if mod_ok m && fmt_ok fmt then ts m fmt v else VBad) /\
  (forall m fmt kind n, run B"sd.tsread" [VInt m; VInt fmt; VInt kind; VInt n] = if mod_ok m then tsread m fmt kind n else VBad) /\
  (forall m fmt kind, run B"sd.tsnone" [VInt m; VInt fmt; VInt kind] = if mod_ok m then tsnone m fmt kind else VBad) /\
  (forall fmt s n, run B"sd.tdread" [VInt fmt; VInt s; VInt n] = tdread fmt s n) /\
  (forall op args, op_is op "sd.rt" = false -> op_is op "sd.read" = false -> op_is op "sd.ts" = false ->
     op_is op "sd.tsread" = false -> op_is op "sd.tsnone" = false -> op_is op "sd.tdread" = false ->
     run op args = VErr B"NOOP").
Proof.
  repeat match goal with |- _ /\ _ => split end; try (intros; reflexivity).
  intros op args H1 H2 H3 H4 H5 H6. unfold run. rewrite H1, H2, H3, H4, H5, H6. reflexivity.
Qed.

(* a string handed to a string-form deserializer is answered by the type's FromStr parser, its
   ParseError wrapped; anything that is not a string is serde's `invalid type`, never a trap *)
Definition wrap_parse {A} (r : PR A) : SR A :=
  let* x := r in Val (match x with POk a => SOk a | PErr e => SErr (EParse e) end).
Definition wrap_name (e : serr) (r : R (option Z)) : SR Z :=
  let* o := r in Val (match o with Some x => SOk x | None => SErr e end).
Theorem read_is_from_str s :
  de_date (SStr s) = wrap_parse (naive_date_from_str s) /\
  de_time (SStr s) = wrap_parse (naive_time_from_str s) /\
  de_ndt (SStr s) = wrap_parse (naive_datetime_from_str s) /\
  de_dt_fixed (SStr s) = wrap_parse (datetime_fixed_from_str s) /\
  de_dt_utc (SStr s) = smap (fun dt => with_timezone dt 0) (wrap_parse (datetime_fixed_from_str s)) /\
  de_dt_local (SStr s) = smap (fun dt => with_timezone dt 0) (wrap_parse (datetime_fixed_from_str s)) /\
  de_wd (SStr s) = wrap_name EWeekday (C19.wd_from_str s) /\
  de_mo (SStr s) = wrap_name EMonth (C19.mo_from_str s).
Proof. repeat split. Qed.
Definition is_str (v : sval) : bool := match v with SStr _ => true | _ => false end.
Theorem read_not_a_string v : is_str v = false ->
  de_date v = Val (SErr EInvalidType) /\ de_time v = Val (SErr EInvalidType) /\ de_ndt v = Val (SErr EInvalidType) /\
  de_dt_fixed v = Val (SErr EInvalidType) /\ de_dt_utc v = Val (SErr EInvalidType) /\ de_dt_local v = Val (SErr EInvalidType) /\
  de_wd v = Val (SErr EInvalidType) /\ de_mo v = Val (SErr EInvalidType).
Proof. destruct v; try discriminate; intros _; repeat split. Qed.

(* TimeDelta::MIN, ::MAX, zero and a negative duration with a sub-second part are durations of the
   range, so C20_delta_roundtrip applies to them; their written pairs *)
Example delta_extremes :
  C06.valid (mk_td (-9223372036854776) 193000000) /\ C06.valid (mk_td 9223372036854775 807000000) /\
  C06.valid (mk_td 0 0) /\ C06.valid (mk_td (-2) 500000000) /\
  td_new (-9223372036854776) 193000000 = Some (mk_td (-9223372036854776) 193000000) /\
  td_new 9223372036854775 807000000 = Some (mk_td 9223372036854775 807000000) /\
  td_new (-9223372036854776) 192999999 = None /\ td_new 9223372036854775 807000001 = None /\
  (forall fmt, de_td (carry fmt (STup [SI64 (-2); SI32 500000000])) = Val (SOk (mk_td (-2) 500000000))).
Proof.
  split; [|split; [|split; [|split]]];
    try (unfold C06.valid, C06.in_rng, C06.ns, C06.G, C06.RMIN, C06.RMAX; cbn [secs nanos]; lia).
  split; [reflexivity|]. split; [reflexivity|]. split; [reflexivity|]. split; [reflexivity|].
  intros fmt. rewrite C20Delta.delta_read_spec by reflexivity. reflexivity.
Qed.
