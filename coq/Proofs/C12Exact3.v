(** Proofs for C12, part 11: [parse_step] (one call of parse_next_item on ANY "%..." is
    [pct_spec], both modes), the text step with maximal runs, and the main theorem [items_exact]. *)
From Coq Require Import ZArith List Bool Lia ZifyBool.
From V Require Import Base.Int Base.IO Base.IntLemmas Base.Lift Spec.Gregorian Spec.StrftimeDoc
  Model.Items Gen.Strftime Gen.Locales Model.Strftime Model.Format
  Proofs.C12 Proofs.C12Str Proofs.C12Tok Proofs.C12Fam Proofs.C12All Proofs.C12Exact Proofs.C12Exact2.
Import ListNotations.
Open Scope Z_scope.
Ltac Zify.zify_post_hook ::= Z.to_euclidean_division_equations.

Arguments sf_next_char : simpl never.
Local Arguments strip_prefix : simpl never.
Local Arguments exact_simple : simpl never.
Arguments single_row : simpl never.

Ltac se_k :=
  repeat first
    [ match goal with
      | H : single_row ?c = false |- context [single_row ?c] => rewrite H
      end
    | progress se_h ].

Ltac use_hs :=
  match goal with
  | Hs : (forall l o el, _ -> sf_next_char l o ?t el = _) |- context [sf_next_char ?l ?o ?t ?el] =>
      rewrite (Hs l o el) by lia
  end.
Lemma assoc_pad_big x : 128 <= x -> assoc x SF_PAD_OVERRIDE = None.
Proof.
  intros H. unfold SF_PAD_OVERRIDE. cbn [assoc]. replace (x =? 45) with false by lia.
  replace (x =? 48) with false by lia. replace (x =? 95) with false by lia. reflexivity.
Qed.
Local Arguments assoc : simpl never.
Ltac assoc_rules :=
  match goal with
  | Hx : 128 <= ?x |- context [assoc ?x SF_ARMS] => rewrite (assoc_arms_big x Hx)
  | Hx : 128 <= ?x |- context [assoc ?x SF_PAD_OVERRIDE] => rewrite (assoc_pad_big x Hx)
  | |- context [assoc ?k SF_PAD_OVERRIDE] =>
      let v := eval vm_compute in (assoc k SF_PAD_OVERRIDE) in change (assoc k SF_PAD_OVERRIDE) with v
  | |- context [assoc ?k SF_ARMS] =>
      let v := eval vm_compute in (assoc k SF_ARMS) in change (assoc k SF_ARMS) with v
  | H : modifier ?c = _ |- context [modifier ?c] => rewrite H
  end.
Ltac se_m := unfold SF_ALT_CHAR; repeat first [ use_hs | assoc_rules | progress se_k ].

Lemma unknown_bad l r pad r1 : utf8_valid r = true -> split_mod r = (pad, r1) ->
  lookup doc_table r1 = None ->
  parse_next_item l [] (37 :: r) = Val (bad_spec l r).
Proof.
  intros Hv Hs Hl.
  destruct (char_cases_g r Hv) as [-> | [(c & tl & -> & Hc & Hvt) | (x0 & tl0 & n0 & Hx0 & Hvt0 & (b & r' & -> & Hb) & Hlu0 & Hn0 & Hs0)]].
  - destruct l; vm_compute; reflexivity.
  - cbn [split_mod] in Hs. destruct (modifier c) as [p|] eqn:Em.
    + injection Hs as <- <-.
      destruct (char_cases_g tl Hvt) as [-> | [(c2 & tl2 & -> & Hc2 & Hvt2) | (x1 & tl1 & n1 & Hx1 & Hvt1 & (b & r' & -> & Hb) & Hlu1 & Hn1 & Hs1)]].
      * destruct (modifier_cases _ _ Em) as [-> | [-> | ->]]; destruct l; vm_compute; reflexivity.
      * destruct (modifier_cases _ _ Em) as [-> | [-> | ->]].
        -- apply (after_mod_bad l [45] c2 tl2); auto; [cbn; auto|discriminate].
        -- apply (after_mod_bad l [95] c2 tl2); auto; [cbn; auto|discriminate].
        -- apply (after_mod_bad l [48] c2 tl2); auto; [cbn; auto 6|discriminate].
      * assert (Hh : head_ok (b :: r') = true) by (apply valid_head_ok; exact Hvt).
        pose proof (single_row_none b r' Hl) as Hsr. clear Hl.
        destruct Hn1 as [-> | [-> | ->]];
        destruct (modifier_cases _ _ Em) as [-> | [-> | ->]]; destruct l; rewrite pni_percent;
          unfold parse_spec, bad_spec; se_m; reflexivity.
    + injection Hs as <- <-.
      destruct (Z.eq_dec c 35) as [->|Hne].
      * (* the alternate flag *)
        assert (Hh : head_ok tl = true) by (apply valid_head_ok; exact Hvt).
        destruct l; rewrite pni_percent; unfold parse_spec, bad_spec; se_m; leaf Hl.
      * apply (after_mod_bad l [] c tl); auto; cbn; auto.
  - (* a multi-byte character *)
    assert (Hh : head_ok (b :: r') = true) by (apply valid_head_ok; exact Hv).
    assert (Em : modifier b = None).
    { unfold modifier. replace (b =? 45) with false by lia. replace (b =? 95) with false by lia.
      replace (b =? 48) with false by lia. reflexivity. }
    cbn [split_mod] in Hs. rewrite Em in Hs. injection Hs as <- <-.
    pose proof (single_row_none b r' Hl) as Hsr. clear Hl.
    destruct Hn0 as [-> | [-> | ->]]; destruct l; rewrite pni_percent; unfold parse_spec, bad_spec; se_m; reflexivity.
Qed.

(** ** parse_step: one call of parse_next_item on ANY "%..." *)
Theorem parse_step l r : utf8_valid r = true ->
  parse_next_item l [] (37 :: r) = Val (pct_spec l r).
Proof.
  intros Hv. destruct (split_mod r) as [pad r1] eqn:Ep.
  destruct (lookup doc_table r1) as [[e rest]|] eqn:El.
  2:{ rewrite (pct_spec_none l r pad r1 Ep El). exact (unknown_bad l r pad r1 Hv Ep El). }
  destruct (percent_row _ _ _ Ep) as (m & Hm & Hr & _ & _).
  destruct (lookup_sound _ _ _ _ El) as (name & Hin & Hs). subst r1 r.
  assert (Hvrest : utf8_valid rest = true).
  { apply (valid_ascii_prefix m (modifiers_ascii m Hm)) in Hv.
    pose proof (proj1 (Forall_forall _ _) ascii_names _ Hin) as Hn. cbn [fst] in Hn.
    apply (valid_ascii_prefix name Hn) in Hv. exact Hv. }
  exact (table_row rows_exact name e m Hin Hm l rest (valid_head_ok _ Hvrest)).
Qed.

(** ** the text step: maximal runs *)
Lemma find_run_len q : forall (n : nat) s pos fuel, (List.length s <= n)%nat -> (List.length s <= fuel)%nat ->
  utf8_valid s = true ->
  let k := run_len (fun c => negb (q c)) fuel s in
  (match find_char_aux q s O pos with Some i => i | None => pos + blen s end) = pos + Z.of_nat k /\
  (k <= List.length s)%nat /\ utf8_valid (skipn k s) = true.
Proof.
  induction n as [|n IH]; intros s pos fuel Hn Hf Hv.
  - destruct s; [|cbn in Hn; lia]. destruct fuel; cbn; repeat split; auto; lia.
  - destruct s as [|b0 r].
    { destruct fuel; cbn; repeat split; auto; lia. }
    destruct fuel as [|f]; [cbn in Hf; lia|].
    destruct (valid_char b0 r Hv) as (m & rest & x & Hm & Hlen & Hskip & Hvr & Hnc & Hlu & Hlo & Hhi).
    cbn [find_char_aux run_len]. rewrite Hnc. cbv zeta.
    destruct (q x) eqn:Eq; cbn [negb].
    + cbn [skipn]. repeat split; auto; lia.
    + rewrite Hlu, Nat2Z.id, Hskip.
      assert (Hr : find_char_aux q r (m - 1) (pos + 1) = find_char_aux q rest O (pos + Z.of_nat m)).
      { rewrite find_char_aux_skip by (cbn [List.length] in Hlen; lia).
        replace (skipn (m - 1) r) with rest.
        - f_equal. lia.
        - rewrite <- Hskip. destruct m; [lia|]. cbn [skipn]. f_equal. lia. }
      rewrite Hr.
      assert (Hrest_len : List.length rest = (List.length (b0 :: r) - m)%nat)
        by (rewrite <- Hskip, skipn_length; reflexivity).
      destruct (IH rest (pos + Z.of_nat m) f) as (Hk1 & Hk2 & Hk3); [cbn [List.length] in *; lia..|exact Hvr|].
      assert (Hb : blen (b0 :: r) = Z.of_nat m + blen rest) by (unfold blen; rewrite Hrest_len; lia).
      assert (Hskipn : forall (l : bytes) a c, skipn (a + c) l = skipn c (skipn a l)).
      { intros l a. revert l. induction a as [|a IHa]; intros l c; [reflexivity|].
        destruct l as [|y l]; [destruct c; reflexivity|]. cbn [Nat.add skipn]. apply IHa. }
      split; [destruct (find_char_aux q rest O (pos + Z.of_nat m)); lia|].
      split; [lia|]. rewrite Hskipn, Hskip. exact Hk3.
Qed.

Lemma run_pos p s c0 : utf8_valid s = true -> next_char s = Some c0 -> p c0 = true -> (1 <= run p s)%nat.
Proof.
  intros Hv Hnc Hp. destruct s as [|b0 r]; [discriminate|]. unfold run. cbn [List.length run_len].
  rewrite Hnc, Hp. pose proof (len_utf8_pos c0). lia.
Qed.

Lemma text_step_exact l q r c0 : utf8_valid r = true -> next_char r = Some c0 -> (c0 =? 37) = false ->
  let k := if is_whitespace c0 then run is_whitespace r else run lit_char r in
  (1 <= k <= List.length r)%nat /\ utf8_valid (skipn k r) = true /\
  parse_next_item l q r =
    Val (Some (skipn k r, (if is_whitespace c0 then Space (firstn k r) else Literal (firstn k r))), q).
Proof.
  intros Hv Hnc E37. unfold parse_next_item. rewrite Hnc, E37.
  assert (Hgen : forall p, p c0 = false -> forall mk : bytes -> Item,
            let k := run (fun c => negb (p c)) r in
            (1 <= k <= List.length r)%nat /\ utf8_valid (skipn k r) = true /\
            (let nextspec := match find_char p r with Some i => i | None => blen r end in
             let* _ := rassert (0 <? nextspec) in
             let* it := str_to r nextspec in
             let* rm := str_from r nextspec in
             Val (Some (rm, mk it), q)) = Val (Some (skipn k r, mk (firstn k r)), q)).
  { intros p Hpc mk.
    destruct (find_run_len p (List.length r) r 0 (List.length r) (le_n _) (le_n _) Hv) as (Hk1 & Hk2 & Hk3).
    fold (run (fun c => negb (p c)) r) in Hk1, Hk2, Hk3. cbv zeta.
    pose proof (run_pos (fun c => negb (p c)) r c0 Hv Hnc ltac:(cbv beta; rewrite Hpc; reflexivity)) as Hk5.
    split; [lia|]. split; [exact Hk3|].
    unfold find_char. rewrite !Z.add_0_l in Hk1. rewrite Hk1.
    unfold rassert. replace (0 <? Z.of_nat _) with true by lia. cbv [bind].
    rewrite str_to_at, str_from_at by (try lia; apply valid_head_ok; exact Hk3). reflexivity. }
  assert (Hext : forall p p' s f, (forall c, p c = p' c) -> run_len p f s = run_len p' f s).
  { intros p p' s f He. revert s. induction f as [|f IHf]; intros s; [reflexivity|].
    cbn [run_len]. destruct (next_char s); [|reflexivity]. rewrite He. destruct (p' z); [|reflexivity].
    cbv zeta. rewrite IHf. reflexivity. }
  destruct (is_whitespace c0) eqn:Ews.
  - specialize (Hgen (fun c => negb (is_whitespace c)) ltac:(cbv beta; rewrite Ews; reflexivity) Space).
    cbv zeta in *. unfold run in *.
    rewrite (Hext _ is_whitespace r _ (fun c => negb_involutive (is_whitespace c))) in Hgen. exact Hgen.
  - specialize (Hgen (fun c => is_whitespace c || (c =? 37)) ltac:(cbv beta; rewrite Ews, E37; reflexivity) Literal).
    cbv zeta in *. unfold run in *.
    rewrite (Hext _ lit_char r _) in Hgen; [exact Hgen|].
    intros c. unfold lit_char. rewrite negb_orb. reflexivity.
Qed.
