(** Proofs for C18 over the state machine of Model/C18.v, for arbitrary oracles (file table, rule
    parser, hash, zone lookup) and for both choices of the clock that stamps the cache. *)
From Coq Require Import ZArith List Bool Lia String.
From V Require Import Base.Int Base.IO Gen.LocalCache Model.C18.
Import ListNotations.
Open Scope Z_scope.

Section Proofs.
  Context {zone HASH ARG ANS : Type}.
  Variable O : oracle zone HASH ARG ANS.
  Variable mono : bool.
  Notation world := (world zone).
  Notation op := (op ARG).
  Notation state := (@state zone HASH).
  Notation cache := (@cache zone HASH).

  (** what [env::var("TZ").ok()] yields for a raw value of the variable *)
  Definition env_of (v : option bytes) : option bytes :=
    match v with Some b => if utf8_valid b then Some b else None | None => None end.
  Lemma env_var_tz : forall w : world, env_var w LC_ENV_NAME = env_of (w_tz w).
  Proof. reflexivity. Qed.

  (** the zone the environment names in world [w] *)
  Definition zone_at (w : world) : zone := current_zone O w (env_var w LC_ENV_NAME).

  (** *** Selection: which source is used for each shape of TZ *)
  Lemma sel_empty : forall w, from_posix_tz O w [] = Some (o_utc O).
  Proof. reflexivity. Qed.

  Lemma sel_unset : forall w, tz_local O w None = read_zone w LC_LOCALTIME_FILE.
  Proof. reflexivity. Qed.

  Lemma sel_localtime_name : forall w, from_posix_tz O w LC_LOCALTIME_NAME = read_zone w LC_LOCALTIME_FILE.
  Proof. reflexivity. Qed.

  (* first directory of the list that has the name *)
  Inductive first_hit (w : world) (path : bytes) : list bytes -> option (option zone) -> Prop :=
  | fh_none : first_hit w path [] None
  | fh_here : forall d r f, w_files w (path_join d path) = Some f -> first_hit w path (d :: r) (Some f)
  | fh_later : forall d r res, w_files w (path_join d path) = None -> first_hit w path r res ->
                               first_hit w path (d :: r) res.
  Lemma find_in_dirs_first_hit : forall w path dirs, first_hit w path dirs (find_in_dirs w dirs path).
  Proof.
    induction dirs as [|d r IH]; cbn [find_in_dirs]; [constructor|].
    destruct (w_files w (path_join d path)) eqn:E; [apply fh_here; exact E | apply fh_later; assumption].
  Qed.
  Lemma first_hit_fun : forall w path dirs a b, first_hit w path dirs a -> first_hit w path dirs b -> a = b.
  Proof.
    induction dirs as [|d r IH]; intros a b Ha Hb; inversion Ha; inversion Hb; subst; try congruence.
    apply IH; assumption.
  Qed.

  (* what a name (after an optional colon) resolves to: None = no such file *)
  Definition names_file (w : world) (name : bytes) (res : option (option zone)) : Prop :=
    if is_absolute name then res = w_files w name
    else first_hit w name LC_ZONE_INFO_DIRECTORIES res.
  Lemma find_tz_file_spec : forall w name, names_file w name (find_tz_file w name).
  Proof.
    intros. unfold names_file, find_tz_file. destruct (is_absolute name); [reflexivity|].
    apply find_in_dirs_first_hit.
  Qed.
  Lemma names_file_fun : forall w name a b, names_file w name a -> names_file w name b -> a = b.
  Proof.
    unfold names_file. intros w name a b. destruct (is_absolute name); [congruence|]. apply first_hit_fun.
  Qed.

  Lemma names_file_spec : forall w name,
    names_file w name (find_tz_file w name) /\
    (forall a b, names_file w name a -> names_file w name b -> a = b).
  Proof. intros. split; [apply find_tz_file_spec | apply names_file_fun]. Qed.

  (** a value starting with a colon: the rest must name a readable TZif file, a rule is never tried *)
  Lemma sel_colon : forall w rest res, names_file w rest res ->
    bytes_eqb (LC_FILE_PREFIX :: rest) LC_LOCALTIME_NAME = false ->
    from_posix_tz O w (LC_FILE_PREFIX :: rest) = match res with Some (Some z) => Some z | _ => None end.
  Proof.
    intros w rest res Hn Hl. unfold from_posix_tz. rewrite Hl, Z.eqb_refl.
    rewrite (names_file_fun _ _ _ _ Hn (find_tz_file_spec w rest)).
    destruct (find_tz_file w rest) as [[z|]|]; reflexivity.
  Qed.

  (** any other non-empty value: a file of that name wins (readable or not); only when there is no
      such file the trimmed text is read as a POSIX rule *)
  Lemma sel_plain : forall w c0 rest res, names_file w (c0 :: rest) res ->
    bytes_eqb (c0 :: rest) LC_LOCALTIME_NAME = false -> c0 <> LC_FILE_PREFIX ->
    from_posix_tz O w (c0 :: rest) =
      match res with
      | Some (Some z) => Some z
      | Some None => None
      | None => o_rule O (trim_ws (c0 :: rest))
      end.
  Proof.
    intros w c0 rest res Hn Hl Hc. unfold from_posix_tz. rewrite Hl.
    apply Z.eqb_neq in Hc. rewrite Hc.
    rewrite (names_file_fun _ _ _ _ Hn (find_tz_file_spec w (c0 :: rest))).
    destruct (find_tz_file w (c0 :: rest)) as [[z|]|]; reflexivity.
  Qed.

  (** the fallback chain: named source, else the zoneinfo file of the system's zone name, else UTC *)
  Lemma sel_chain : forall w var,
    current_zone O w var =
      match tz_local O w var with
      | Some z => z
      | None =>
          match o_iana O with
          | Some n => match w_files w (LC_TZDB_LOCATION ++ 47 :: n) with Some (Some z) => z | _ => o_utc O end
          | None => o_utc O
          end
      end.
  Proof.
    intros. unfold current_zone, fallback_timezone, read_zone.
    destruct (tz_local O w var); [reflexivity|].
    destruct (o_iana O); [|reflexivity].
    destruct (w_files w (LC_TZDB_LOCATION ++ 47 :: b)) as [[z|]|]; reflexivity.
  Qed.

  (** the selection looks at the file table only *)
  Lemma find_in_dirs_files : forall (w w' : world) dirs p, w_files w = w_files w' ->
    find_in_dirs w dirs p = find_in_dirs w' dirs p.
  Proof. intros w w' dirs p H. induction dirs as [|d r IH]; cbn [find_in_dirs]; [reflexivity|]. rewrite H, IH. reflexivity. Qed.
  Lemma current_zone_files : forall (w w' : world) var, w_files w = w_files w' ->
    current_zone O w var = current_zone O w' var.
  Proof.
    intros w w' var H.
    assert (Hr : forall p, read_zone w p = read_zone w' p) by (intro p; unfold read_zone; rewrite H; reflexivity).
    assert (Hf : forall p, find_tz_file w p = find_tz_file w' p).
    { intro p. unfold find_tz_file. rewrite H, (find_in_dirs_files w w' _ p H). reflexivity. }
    assert (Hp : forall s, from_posix_tz O w s = from_posix_tz O w' s).
    { intro s. unfold from_posix_tz. destruct s as [|c0 rest]; [reflexivity|]. rewrite !Hr, !Hf. reflexivity. }
    unfold current_zone, tz_local, fallback_timezone. destruct var; rewrite ?Hp; destruct (o_iana O); rewrite ?Hr; reflexivity.
  Qed.

  (** *** The cache *)
  (** [e] is the reading of the environment a source stamp stands for *)
  Definition src_matches (s : @source HASH) (e : option bytes) : Prop :=
    match e with Some b => s = Environment (o_hash O b) | None => exists m, s = LocalTime m end.
  (** a cache is coherent: stamp and zone come from one reading [e] of the environment that
      satisfied [P] *)
  Definition good (P : option bytes -> Prop) (w0 : world) (c : cache) : Prop :=
    exists v, P v /\ src_matches (c_source c) (env_of v) /\ c_zone c = current_zone O w0 (env_of v).
  Definition ogood P w0 (oc : option cache) : Prop := match oc with Some c => good P w0 c | None => True end.

  Definition hash_injective : Prop :=
    forall a b, o_hash_eqb O (o_hash O a) (o_hash O b) = true -> a = b.

  Lemma source_new_matches : forall (w : world) e, src_matches (source_new O w e) e.
  Proof. intros w [b|]; cbn; [reflexivity|]. destruct (w_mtime w); eexists; reflexivity. Qed.

  Lemma default_good : forall (P : option bytes -> Prop) (w0 w : world), w_files w = w_files w0 -> P (w_tz w) ->
    good P w0 (cache_default O mono w).
  Proof.
    intros P w0 w Hf HP. exists (w_tz w). split; [exact HP|]. unfold cache_default. cbn [c_source c_zone].
    rewrite env_var_tz. split; [apply source_new_matches | apply current_zone_files; exact Hf].
  Qed.

  Lemma refresh_now : forall (P : option bytes -> Prop) (w0 w : world) c, hash_injective ->
    w_files w = w_files w0 -> good P w0 c ->
    src_matches (c_source (cache_refresh O mono w c)) (env_of (w_tz w)) /\
    c_zone (cache_refresh O mono w c) = current_zone O w0 (env_of (w_tz w)).
  Proof.
    intros P w0 w c Hinj Hf [v [_ [Hs Hz]]]. unfold cache_refresh. cbn [c_source c_zone]. rewrite env_var_tz.
    split; [apply source_new_matches|].
    destruct (out_of_date O (c_source c) (source_new O w (env_of (w_tz w)))) eqn:E.
    - apply current_zone_files; exact Hf.
    - rewrite Hz. unfold src_matches in Hs.
      destruct (env_of v) as [b'|], (env_of (w_tz w)) as [b|]; cbn [source_new] in E.
      + rewrite Hs in E. cbn in E. apply negb_false_iff in E. apply Hinj in E. subst. reflexivity.
      + rewrite Hs in E. destruct (w_mtime w); cbn in E; discriminate.
      + destruct Hs as [m Hs]. rewrite Hs in E. cbn in E. discriminate.
      + reflexivity.
  Qed.

  Lemma refresh_good : forall (P : option bytes -> Prop) (w0 w : world) c, hash_injective ->
    w_files w = w_files w0 -> P (w_tz w) -> good P w0 c -> good P w0 (cache_refresh O mono w c).
  Proof.
    intros P w0 w c Hinj Hf HP Hg. destruct (refresh_now P w0 w c Hinj Hf Hg) as [A Hb].
    exists (w_tz w). auto.
  Qed.

  Lemma check_cases : forall (w : world) c,
    cache_check O mono w c = c \/ cache_check O mono w c = cache_refresh O mono w c.
  Proof.
    intros. unfold cache_check. destruct (duration_since _ _); [|right; reflexivity].
    destruct (LC_REUSE _); [left|right]; reflexivity.
  Qed.

  Lemma check_good : forall (P : option bytes -> Prop) (w0 w : world) c, hash_injective ->
    w_files w = w_files w0 -> P (w_tz w) -> good P w0 c -> good P w0 (cache_check O mono w c).
  Proof.
    intros P w0 w c Hinj Hf HP Hg. destruct (check_cases w c) as [E|E]; rewrite E; [exact Hg|].
    apply refresh_good; assumption.
  Qed.

  (** *** Histories *)
  Definition exec (s : state) (ops : list op) : state := fst (run_ops O mono s ops).
  Definition answers (s : state) (ops : list op) : list ANS := snd (run_ops O mono s ops).

  Lemma exec_cons : forall s o r, exec s (o :: r) = exec (fst (step O mono s o)) r.
  Proof.
    intros. unfold exec. cbn [run_ops]. destruct (step O mono s o) as [s1 a]. cbn [fst].
    destruct (run_ops O mono s1 r) as [s2 l]. reflexivity.
  Qed.
  Lemma exec_app : forall a s b, exec s (a ++ b) = exec (exec s a) b.
  Proof. induction a as [|o r IH]; intros; [reflexivity|]. rewrite <- app_comm_cons, !exec_cons. apply IH. Qed.
  Lemma answers_cons : forall s o r,
    answers s (o :: r) = match snd (step O mono s o) with Some x => x :: answers (fst (step O mono s o)) r
                                                         | None => answers (fst (step O mono s o)) r end.
  Proof.
    intros. unfold answers. cbn [run_ops]. destruct (step O mono s o) as [s1 a]. cbn [fst snd].
    destruct (run_ops O mono s1 r) as [s2 l]. destruct a; reflexivity.
  Qed.

  Definition tz_of_op (o : op) : list (option bytes) :=
    match o with SetTZ v => [Some v] | UnsetTZ => [None] | _ => [] end.
  (** the values TZ takes in the course of a history *)
  Definition tz_values (w0 : world) (ops : list op) : list (option bytes) := w_tz w0 :: flat_map tz_of_op ops.

  Definition inv (P : option bytes -> Prop) (w0 : world) (s : state) : Prop :=
    w_files (st_world s) = w_files w0 /\ P (w_tz (st_world s)) /\ Forall (ogood P w0) (st_cur s :: st_stack s).

  Lemma good_mono : forall (P Q : option bytes -> Prop) w0 c, (forall v, P v -> Q v) -> good P w0 c -> good Q w0 c.
  Proof. intros P Q w0 c H [v [A Hb]]. exists v. auto. Qed.
  Lemma ogood_mono : forall (P Q : option bytes -> Prop) w0 oc, (forall v, P v -> Q v) -> ogood P w0 oc -> ogood Q w0 oc.
  Proof. intros P Q w0 [c|] H; cbn; [apply good_mono; exact H | trivial]. Qed.

  (** one step keeps every cache coherent, and an answer is read from one zone: the zone selected
      for one of the values TZ has taken *)
  Lemma step_inv : forall (P Q : option bytes -> Prop) w0 s o, hash_injective ->
    (forall v, P v -> Q v) -> (forall v, In v (tz_of_op o) -> Q v) -> inv P w0 s ->
    inv Q w0 (fst (step O mono s o)) /\
    (forall a, snd (step O mono s o) = Some a ->
       exists v local d, Q v /\ o = Convert local d /\ a = o_answer O (current_zone O w0 (env_of v)) local d).
  Proof.
    intros P Q w0 s o Hinj HPQ Hnew [Hf [HP Hall]].
    assert (HallQ : Forall (ogood Q w0) (st_cur s :: st_stack s)).
    { eapply Forall_impl; [|exact Hall]. intros oc. apply ogood_mono. exact HPQ. }
    destruct o; cbn [step with_world set_tz set_clocks set_mtime fst snd st_world st_cur st_stack w_tz w_files].
    - split; [|discriminate]. repeat split; [exact Hf | apply Hnew; left; reflexivity | exact HallQ].
    - split; [|discriminate]. repeat split; [exact Hf | apply Hnew; left; reflexivity | exact HallQ].
    - split; [|discriminate]. repeat split; [exact Hf | apply HPQ; exact HP | exact HallQ].
    - split; [|discriminate]. repeat split; [exact Hf | apply HPQ; exact HP | exact HallQ].
    - split; [|discriminate]. repeat split; [exact Hf | apply HPQ; exact HP | exact HallQ].
    - (* Convert *)
      unfold tl_offset, cache_offset.
      set (c0 := match st_cur s with Some c => c | None => cache_default O mono (st_world s) end).
      assert (Hc0 : good Q w0 c0).
      { subst c0. inversion HallQ as [|oc l Hoc Hl]; subst. destruct (st_cur s) as [c|]; [exact Hoc|].
        apply default_good; [exact Hf | apply HPQ; exact HP]. }
      assert (Hc1 : good Q w0 (cache_check O mono (st_world s) c0)).
      { apply check_good; [exact Hinj | exact Hf | apply HPQ; exact HP | exact Hc0]. }
      cbn [fst snd st_world st_cur st_stack]. split.
      + repeat split; [exact Hf | apply HPQ; exact HP |].
        constructor; [exact Hc1 | inversion HallQ; assumption].
      + intros a Ha. injection Ha as <-. destruct Hc1 as [v [Hv [_ Hz]]].
        exists v, local, d. rewrite Hz. auto.
    - split; [|discriminate]. repeat split; [exact Hf | apply HPQ; exact HP |].
      constructor; [exact I | exact HallQ].
    - destruct (st_stack s) as [|p rest] eqn:Es; cbn [fst snd st_world st_cur st_stack].
      + split; [|discriminate]. repeat split; [exact Hf | apply HPQ; exact HP | rewrite Es; exact HallQ].
      + split; [|discriminate]. repeat split; [exact Hf | apply HPQ; exact HP |].
        inversion HallQ as [|? ? _ Hl]; subst. exact Hl.
  Qed.

  Lemma init_inv : forall w0 : world, inv (fun v => v = w_tz w0) w0 (init_state w0).
  Proof. intros. repeat split. repeat constructor. Qed.

  Lemma run_inv : forall ops (P : option bytes -> Prop) w0 s, hash_injective -> inv P w0 s ->
    inv (fun v => P v \/ In v (flat_map tz_of_op ops)) w0 (exec s ops) /\
    Forall (fun a => exists v local d, (P v \/ In v (flat_map tz_of_op ops)) /\
                                       a = o_answer O (current_zone O w0 (env_of v)) local d) (answers s ops).
  Proof.
    induction ops as [|o r IH]; intros P w0 s Hinj Hi.
    - split; [|constructor]. destruct Hi as [A [Hb C]]. repeat split; [exact A | left; exact Hb |].
      eapply Forall_impl; [|exact C]. intros oc. apply ogood_mono. auto.
    - rewrite exec_cons, answers_cons.
      destruct (step_inv P (fun v => P v \/ In v (tz_of_op o)) w0 s o Hinj) as [Hi1 Ha1]; auto.
      destruct (IH _ w0 _ Hinj Hi1) as [Hi2 Ha2].
      assert (Himp : forall v, (P v \/ In v (tz_of_op o)) \/ In v (flat_map tz_of_op r) ->
                               P v \/ In v (flat_map tz_of_op (o :: r))).
      { intros v [[A|A]|A]; [left; exact A | right; cbn [flat_map]; apply in_or_app; left; exact A
                            | right; cbn [flat_map]; apply in_or_app; right; exact A]. }
      split.
      + destruct Hi2 as [A [Hb C]]. repeat split; [exact A | apply Himp; exact Hb |].
        eapply Forall_impl; [|exact C]. intros oc. apply ogood_mono. exact Himp.
      + assert (Ha2' : Forall (fun a => exists v local d, (P v \/ In v (flat_map tz_of_op (o :: r))) /\
                                  a = o_answer O (current_zone O w0 (env_of v)) local d)
                              (answers (fst (step O mono s o)) r)).
        { eapply Forall_impl; [|exact Ha2]. intros a [v [l [d [A Hb]]]]. exists v, l, d. split; [apply Himp; exact A|exact Hb]. }
        destruct (snd (step O mono s o)) as [a|] eqn:E; [|exact Ha2'].
        constructor; [|exact Ha2'].
        destruct (Ha1 a eq_refl) as [v [l [d [A [_ Hb]]]]]. exists v, l, d. split; [|exact Hb].
        apply Himp. left. exact A.
  Qed.

  (** invariant: in every reachable state every thread's cache holds the zone selected for one
      value TZ has taken, stamped with the source of that same value *)
  Theorem invariant : hash_injective -> forall w0 ops,
    Forall (ogood (fun v => In v (tz_values w0 ops)) w0)
           (st_cur (exec (init_state w0) ops) :: st_stack (exec (init_state w0) ops)).
  Proof.
    intros Hinj w0 ops. destruct (run_inv ops _ w0 _ Hinj (init_inv w0)) as [[_ [_ H]] _].
    eapply Forall_impl; [|exact H]. intros oc. apply ogood_mono.
    intros v [->|A]; [left; reflexivity | right; exact A].
  Qed.

  (** no mixing: every answer of a history is the lookup in ONE zone, the zone selected for one
      of the values TZ has taken *)
  Theorem no_mixing : hash_injective -> forall w0 ops,
    Forall (fun a => exists v local d, In v (tz_values w0 ops) /\
                                       a = o_answer O (current_zone O w0 (env_of v)) local d)
           (answers (init_state w0) ops).
  Proof.
    intros Hinj w0 ops. destruct (run_inv ops _ w0 _ Hinj (init_inv w0)) as [_ H].
    eapply Forall_impl; [|exact H]. intros a [v [l [d [A Hb]]]]. exists v, l, d. split; [|exact Hb].
    destruct A as [->|A]; [left; reflexivity | right; exact A].
  Qed.

  (** a single conversion reads exactly one zone: the one it holds after the check, which is either
      the zone it held before or the zone the environment names now *)
  Theorem one_zone_per_conversion : forall (w : world) c local d,
    exists z, snd (cache_offset O mono w c local d) = o_answer O z local d /\
              c_zone (fst (cache_offset O mono w c local d)) = z /\
              (z = c_zone c \/ z = zone_at w).
  Proof.
    intros. unfold cache_offset. cbn [fst snd]. eexists. split; [reflexivity|]. split; [reflexivity|].
    destruct (check_cases w c) as [E|E]; rewrite E; [left; reflexivity|].
    unfold cache_refresh. cbn [c_zone]. destruct (out_of_date _ _ _); [right; reflexivity | left; reflexivity].
  Qed.

  (** new thread: the first conversion of a thread uses the zone the environment names at that
      moment, whatever happened before and whatever the clocks say *)
  Lemma fresh_thread_current : forall (w : world) local d,
    tl_offset O mono w None local d =
      (Some (cache_default O mono w), o_answer O (zone_at w) local d).
  Proof.
    intros. unfold tl_offset, cache_offset, cache_check, cache_default, duration_since.
    cbn [c_last_checked]. rewrite Z.leb_refl, Z.sub_diag. reflexivity.
  Qed.
  Theorem new_thread_fresh : forall s local d, st_cur s = None ->
    snd (step O mono s (Convert local d)) = Some (o_answer O (zone_at (st_world s)) local d).
  Proof. intros s local d H. cbn [step]. rewrite H, fresh_thread_current. reflexivity. Qed.
  Theorem spawn_then_convert : forall s local d,
    snd (step O mono (fst (step O mono s Spawn)) (Convert local d)) = Some (o_answer O (zone_at (st_world s)) local d).
  Proof. intros. rewrite (new_thread_fresh (fst (step O mono s Spawn)) local d eq_refl). reflexivity. Qed.

  (** *** Freshness *)
  Definition K (w : world) : Z := cache_now mono w.
  (** time does not run backwards; when the cache is stamped with the wall clock, the wall clock
      must not be set back either *)
  Definition time_ok (o : op) : Prop :=
    match o with Advance dt => 0 <= dt | ClockStep dt => mono = true \/ 0 <= dt | _ => True end.
  Definition keeps_tz (o : op) : Prop := tz_of_op o = [].
  Definition dt_of (o : op) : Z := match o with Advance dt => dt | _ => 0 end.
  Fixpoint elapsed (ops : list op) : Z :=
    match ops with [] => 0 | o :: r => dt_of o + elapsed r end.

  Definition caches (s : state) : list (option cache) := st_cur s :: st_stack s.
  Definition stamps_le (bound : Z) (l : list (option cache)) : Prop :=
    Forall (fun oc => match oc with Some c => c_last_checked c <= bound | None => True end) l.
  Lemma stamps_weaken : forall b b' l, b <= b' -> stamps_le b l -> stamps_le b' l.
  Proof. intros b b' l H Hs. eapply Forall_impl; [|exact Hs]. intros [c|]; [lia | trivial]. Qed.

  Lemma K_step : forall s o, time_ok o -> K (st_world s) + dt_of o <= K (st_world (fst (step O mono s o))).
  Proof.
    intros s o Ht. unfold K, cache_now.
    destruct o; cbn [step with_world set_tz set_clocks set_mtime fst st_world w_wall w_mono dt_of]; try lia.
    - cbn in Ht. destruct mono; lia.
    - cbn in Ht. destruct mono; [lia|]. destruct Ht; [discriminate | lia].
    - destruct (tl_offset _ _ _ _ _ _). cbn. lia.
    - destruct (st_stack s); cbn; lia.
  Qed.
  Lemma K_exec : forall ops s, Forall time_ok ops -> K (st_world s) + elapsed ops <= K (st_world (exec s ops)).
  Proof.
    induction ops as [|o r IH]; intros s Ht; [cbn; lia|]. inversion Ht; subst.
    rewrite exec_cons. cbn [elapsed]. pose proof (K_step s o H1). specialize (IH (fst (step O mono s o)) H2). lia.
  Qed.

  Lemma check_stamp : forall (w : world) c, c_last_checked c <= K w -> c_last_checked (cache_check O mono w c) <= K w.
  Proof.
    intros w c H. destruct (check_cases w c) as [E|E]; rewrite E; [exact H|].
    unfold cache_refresh. cbn [c_last_checked]. unfold K. lia.
  Qed.

  (* stamps never exceed the clock that makes them, as long as that clock does not go back *)
  Lemma stamps_step : forall s o, time_ok o -> stamps_le (K (st_world s)) (caches s) ->
    stamps_le (K (st_world (fst (step O mono s o)))) (caches (fst (step O mono s o))).
  Proof.
    intros s o Ht Hs. pose proof (K_step s o Ht) as HK. unfold caches in *.
    destruct o; cbn [step with_world fst st_world st_cur st_stack dt_of] in *.
    - eapply stamps_weaken; [|exact Hs]. lia.
    - eapply stamps_weaken; [|exact Hs]. lia.
    - eapply stamps_weaken; [|exact Hs]. cbn [dt_of] in HK. unfold time_ok in Ht. lia.
    - eapply stamps_weaken; [|exact Hs]. lia.
    - eapply stamps_weaken; [|exact Hs]. lia.
    - unfold tl_offset, cache_offset. cbn [fst st_world st_cur st_stack].
      inversion Hs as [|oc l Hoc Hl]; subst. constructor; [|exact Hl].
      apply check_stamp. destruct (st_cur s) as [c|]; [exact Hoc|].
      unfold cache_default. cbn [c_last_checked]. unfold K. lia.
    - constructor; [exact I | exact Hs].
    - destruct (st_stack s) as [|p rest] eqn:E; cbn [fst st_world st_cur st_stack]; [rewrite E; exact Hs|].
      inversion Hs; assumption.
  Qed.
  Lemma stamps_exec : forall ops s, Forall time_ok ops -> stamps_le (K (st_world s)) (caches s) ->
    stamps_le (K (st_world (exec s ops))) (caches (exec s ops)).
  Proof.
    induction ops as [|o r IH]; intros s Ht Hs; [exact Hs|]. inversion Ht; subst.
    rewrite exec_cons. apply IH; [assumption|]. apply stamps_step; assumption.
  Qed.

  (** while TZ keeps the value [v]: a cache either was stamped no later than [K0] (the cache clock
      when the quiet period began) or already holds the zone selected for [v] *)
  Definition settled (w0 : world) (v : option bytes) (K0 : Z) (oc : option cache) : Prop :=
    match oc with
    | Some c => c_last_checked c <= K0 \/
                (src_matches (c_source c) (env_of v) /\ c_zone c = current_zone O w0 (env_of v))
    | None => True
    end.
  Definition quiet (P : option bytes -> Prop) (w0 : world) (v : option bytes) (K0 : Z) (s : state) : Prop :=
    inv P w0 s /\ w_tz (st_world s) = v /\ Forall (settled w0 v K0) (caches s).

  Lemma default_now : forall (w0 w : world), w_files w = w_files w0 ->
    src_matches (c_source (cache_default O mono w)) (env_of (w_tz w)) /\
    c_zone (cache_default O mono w) = current_zone O w0 (env_of (w_tz w)).
  Proof.
    intros w0 w Hf. unfold cache_default. cbn [c_source c_zone]. rewrite env_var_tz.
    split; [apply source_new_matches | apply current_zone_files; exact Hf].
  Qed.

  Lemma quiet_step : forall P w0 v K0 s o, hash_injective -> keeps_tz o -> quiet P w0 v K0 s ->
    quiet P w0 v K0 (fst (step O mono s o)).
  Proof.
    intros P w0 v K0 s o Hinj Hk [Hi [Hv Hs]].
    destruct (step_inv P P w0 s o Hinj (fun _ H => H)) as [Hi' _]; [|exact Hi|].
    { unfold keeps_tz in Hk. rewrite Hk. intros ? []. }
    split; [exact Hi'|]. clear Hi'. unfold caches in *.
    destruct o; cbn [step with_world set_tz set_clocks set_mtime fst st_world st_cur st_stack w_tz] in *;
      try (split; [exact Hv | exact Hs]); try discriminate Hk.
    - (* Convert *)
      unfold tl_offset, cache_offset. cbn [fst st_world st_cur st_stack]. split; [exact Hv|].
      destruct Hi as [Hf [HP Hall]].
      inversion Hs as [|oc l Hoc Hl]; subst. inversion Hall as [|oc' l' Hg Hgl]; subst.
      constructor; [|exact Hl]. cbn [settled].
      destruct (st_cur s) as [c|].
      + destruct (check_cases (st_world s) c) as [E|E]; rewrite E; [exact Hoc|].
        right. exact (refresh_now P w0 (st_world s) c Hinj Hf Hg).
      + destruct (check_cases (st_world s) (cache_default O mono (st_world s))) as [E|E]; rewrite E.
        * right. apply default_now; exact Hf.
        * right. apply (refresh_now P w0 (st_world s) _ Hinj Hf). apply default_good; assumption.
    - split; [exact Hv|]. constructor; [exact I | exact Hs].
    - destruct (st_stack s) as [|p rest] eqn:E; cbn [fst st_world st_cur st_stack].
      + split; [exact Hv | rewrite E; exact Hs].
      + split; [exact Hv | inversion Hs; assumption].
  Qed.
  Lemma quiet_exec : forall ops P w0 v K0 s, hash_injective -> Forall keeps_tz ops -> quiet P w0 v K0 s ->
    quiet P w0 v K0 (exec s ops).
  Proof.
    induction ops as [|o r IH]; intros P w0 v K0 s Hinj Hk Hq; [exact Hq|]. inversion Hk; subst.
    rewrite exec_cons. apply IH; [exact Hinj | assumption |]. apply quiet_step; assumption.
  Qed.

  Lemma reuse_window_closed : forall d, NANOS_PER_SEC <= d -> LC_REUSE (as_secs d) = false.
  Proof.
    intros d H. unfold LC_REUSE, as_secs, NANOS_PER_SEC in *. apply Z.ltb_ge.
    apply Z.div_le_lower_bound; lia.
  Qed.

  Lemma quiet_convert : forall P w0 v K0 s local d, hash_injective -> quiet P w0 v K0 s ->
    K0 + NANOS_PER_SEC <= K (st_world s) ->
    snd (step O mono s (Convert local d)) = Some (o_answer O (zone_at (st_world s)) local d).
  Proof.
    intros P w0 v K0 s local d Hinj [[Hf [HP Hall]] [Hv Hs]] HK.
    destruct (st_cur s) as [c|] eqn:Ec; [|apply new_thread_fresh; exact Ec].
    assert (Hz : zone_at (st_world s) = current_zone O w0 (env_of v)).
    { unfold zone_at. rewrite env_var_tz, Hv. apply current_zone_files. exact Hf. }
    unfold caches in *. rewrite Ec in *.
    inversion Hs as [|oc l Hoc Hl]; subst. inversion Hall as [|oc' l' Hg Hgl]; subst.
    cbn [step]. rewrite Ec. unfold tl_offset, cache_offset. cbn [snd]. f_equal. f_equal. rewrite Hz.
    cbn [settled] in Hoc. destruct Hoc as [Hold | [_ Hzone]].
    - (* stamped before the quiet period: the window is over, the environment is read again *)
      assert (E : cache_check O mono (st_world s) c = cache_refresh O mono (st_world s) c).
      { unfold cache_check, duration_since. fold (K (st_world s)).
        replace (c_last_checked c <=? K (st_world s)) with true by (symmetry; apply Z.leb_le; unfold NANOS_PER_SEC in HK; lia).
        rewrite reuse_window_closed; [reflexivity | lia]. }
      rewrite E. exact (proj2 (refresh_now P w0 (st_world s) c Hinj Hf Hg)).
    - destruct (check_cases (st_world s) c) as [E|E]; rewrite E; [exact Hzone|].
      exact (proj2 (refresh_now P w0 (st_world s) c Hinj Hf Hg)).
  Qed.

  (** freshness: for ALL histories, a conversion made after TZ has kept its value for at least one
      second of elapsed time (through any conversions, thread switches, clock steps and file
      touches in between) uses the zone the environment names *)
  Theorem freshness : hash_injective -> forall w0 pre quiet_ops local d,
    Forall time_ok (pre ++ quiet_ops) -> Forall keeps_tz quiet_ops ->
    NANOS_PER_SEC <= elapsed quiet_ops ->
    let s := exec (init_state w0) (pre ++ quiet_ops) in
    snd (step O mono s (Convert local d)) = Some (o_answer O (zone_at (st_world s)) local d).
  Proof.
    intros Hinj w0 pre qo local d Ht Hk He s. subst s. rewrite exec_app.
    apply Forall_app in Ht. destruct Ht as [Ht1 Ht2].
    set (s1 := exec (init_state w0) pre).
    destruct (run_inv pre _ w0 _ Hinj (init_inv w0)) as [Hi1 _]. fold s1 in Hi1.
    assert (Hst : stamps_le (K (st_world s1)) (caches s1)).
    { apply stamps_exec; [exact Ht1|]. repeat constructor. }
    assert (Hq : quiet (fun v => v = w_tz w0 \/ In v (flat_map tz_of_op pre)) w0 (w_tz (st_world s1)) (K (st_world s1)) s1).
    { split; [exact Hi1|]. split; [reflexivity|].
      eapply Forall_impl; [|exact Hst]. intros [c|] H; cbn; [left; exact H | trivial]. }
    pose proof (quiet_exec qo _ w0 _ _ s1 Hinj Hk Hq) as Hq2.
    eapply quiet_convert; [exact Hinj | exact Hq2 |].
    pose proof (K_exec qo s1 Ht2). lia.
  Qed.
  (** *** The stamp invariant: a cache is a snapshot of the environment taken at the moment of its
      stamp — there is a point of the history at which the cache clock read [c_last_checked], and the
      cache holds the source stamp and the zone selected for the value TZ had at that point. *)
  Definition snapshot_of (c : cache) (s' : state) : Prop :=
    c_last_checked c = K (st_world s') /\
    src_matches (c_source c) (env_of (w_tz (st_world s'))) /\
    c_zone c = zone_at (st_world s').

  Lemma exec_files : forall w0 ops, hash_injective -> w_files (st_world (exec (init_state w0) ops)) = w_files w0.
  Proof. intros w0 ops Hinj. destruct (run_inv ops _ w0 _ Hinj (init_inv w0)) as [[H _] _]. exact H. Qed.

  Lemma snapshot_good : forall w0 c s', w_files (st_world s') = w_files w0 -> snapshot_of c s' ->
    good (fun _ => True) w0 c.
  Proof.
    intros w0 c s' Hf [_ [Hs Hz]]. exists (w_tz (st_world s')). split; [exact I|]. split; [exact Hs|].
    rewrite Hz. unfold zone_at. rewrite env_var_tz. apply current_zone_files. exact Hf.
  Qed.

  Theorem stamp_invariant : hash_injective -> forall w0 ops c,
    In (Some c) (caches (exec (init_state w0) ops)) ->
    exists p1 p2, ops = p1 ++ p2 /\ snapshot_of c (exec (init_state w0) p1).
  Proof.
    intros Hinj w0 ops. induction ops as [|o ops IH] using rev_ind; intros c Hin.
    - cbn in Hin. destruct Hin as [H|[]]. discriminate.
    - rewrite exec_app in Hin. set (s := exec (init_state w0) ops) in *.
      assert (Hext : forall c, In (Some c) (caches s) ->
                exists p1 p2, ops ++ [o] = p1 ++ p2 /\ snapshot_of c (exec (init_state w0) p1)).
      { intros c' H. destruct (IH c' H) as [p1 [p2 [E S]]]. exists p1, (p2 ++ [o]). rewrite app_assoc, <- E. auto. }
      assert (Hhere : forall c, snapshot_of c s ->
                exists p1 p2, ops ++ [o] = p1 ++ p2 /\ snapshot_of c (exec (init_state w0) p1)).
      { intros c' H. exists ops, [o]. auto. }
      rewrite exec_cons in Hin. change (exec (fst (step O mono s o)) []) with (fst (step O mono s o)) in Hin. unfold caches in *.
      destruct o; cbn [step with_world fst st_cur st_stack] in Hin; try (apply Hext; exact Hin).
      + (* Convert *)
        unfold tl_offset, cache_offset in Hin. cbn [fst st_cur st_stack] in Hin.
        destruct Hin as [Hin|Hin]; [|apply Hext; right; exact Hin]. injection Hin as <-.
        pose proof (exec_files w0 ops Hinj) as Hf. fold s in Hf.
        assert (Hdef : snapshot_of (cache_default O mono (st_world s)) s).
        { split; [reflexivity|]. destruct (default_now (st_world s) (st_world s) eq_refl) as [A1 A2].
          split; [exact A1|]. rewrite A2. unfold zone_at. rewrite env_var_tz. reflexivity. }
        assert (Hrefresh : forall c0, good (fun _ => True) w0 c0 -> snapshot_of (cache_refresh O mono (st_world s) c0) s).
        { intros c0 Hg. destruct (refresh_now _ w0 (st_world s) c0 Hinj Hf Hg) as [A1 A2].
          split; [reflexivity|]. split; [exact A1|]. rewrite A2. unfold zone_at. rewrite env_var_tz.
          symmetry. apply current_zone_files. exact Hf. }
        destruct (st_cur s) as [c0|] eqn:Ec.
        * destruct (check_cases (st_world s) c0) as [E|E]; rewrite E.
          -- apply Hext. left. reflexivity.
          -- apply Hhere. apply Hrefresh.
             destruct (IH c0 (or_introl eq_refl)) as [p1 [p2 [_ S]]].
             eapply snapshot_good; [|exact S]. apply exec_files. exact Hinj.
        * destruct (check_cases (st_world s) (cache_default O mono (st_world s))) as [E|E]; rewrite E.
          -- apply Hhere. exact Hdef.
          -- apply Hhere. apply Hrefresh. eapply snapshot_good; [exact Hf | exact Hdef].
      + (* Spawn *)
        destruct Hin as [Hin|Hin]; [discriminate | apply Hext; exact Hin].
      + (* Join *)
        destruct (st_stack s) as [|p rest] eqn:Es; cbn [fst st_cur st_stack] in Hin.
        * apply Hext. rewrite Es in Hin. exact Hin.
        * apply Hext. right. exact Hin.
  Qed.
End Proofs.

(** *** The statement is not vacuous, and the wall-clock variant fails when the clock is set back *)
Definition demo_world : xworld :=
  {| x_files := [(B"/etc/localtime", Some (zfixed 0)); (B"/tmp/z", Some (zfixed 3600));
                 (B"/tmp/step", Some {| z_off := 4380; z_step := Some (2000, 1, 0, 11640) |})];
     x_rules := [(B"AAA-3", 10800); (B"BBB+5", -18000)];
     x_iana := None |}.
Definition noon : Z * Z * Z := (2020, 100, 43200).
Definition demo_history : list (op (Z * Z * Z)) :=
  [SetTZ B"AAA-3"; Convert false noon; SetTZ B"BBB+5"; Advance 400000000; Convert false noon; Spawn; Convert true noon; Join;
   Advance 700000000; Convert false noon; SetTZ B":/tmp/z"; Advance 1000000000; Convert false noon; UnsetTZ;
   Advance 999999999; Convert false noon; Advance 1; Convert false noon].
Lemma demo_answers : forall mono,
  answers (xoracle demo_world) mono (init_state (xinit demo_world)) demo_history =
  [VInt 10800; VInt 10800; VTup [VInt (-18000)]; VInt (-18000); VInt 3600; VInt 3600; VInt 0].
Proof. intros [|]; vm_compute; reflexivity. Qed.

(* the direction of a conversion matters in a zone with a transition (+01:13 before
   2000-01-01T00:00:00Z, +03:14 after): the instant 00:30 is after it, the wall-clock time 00:30 is
   before it, the wall-clock time 02:00 does not occur *)
Lemma demo_direction : forall mono,
  answers (xoracle demo_world) mono (init_state (xinit demo_world))
    [SetTZ B"/tmp/step"; Convert false (2000, 1, 1800); Convert true (2000, 1, 1800); Convert true (2000, 1, 7200);
     Convert true (2000, 1, 11640); Convert false (1999, 365, 86399)] =
  [VInt 11640; VTup [VInt 4380]; VTup []; VTup [VInt 11640]; VInt 4380].
Proof. intros [|]; vm_compute; reflexivity. Qed.

Lemma xoracle_hash_injective : forall x, hash_injective (xoracle x).
Proof.
  intros x a. unfold hash_injective. cbn. induction a as [|c r IH]; intros [|c' r'] H; cbn in H; try discriminate; [reflexivity|].
  apply andb_prop in H. destruct H as [H1 H2]. apply Z.eqb_eq in H1. subst. f_equal. apply IH. exact H2.
Qed.

(* wall clock stamps, clock set back by 10 s before the change: 10.5 s later the old zone is still used *)
Definition backstep_pre : list (op (Z * Z * Z)) := [SetTZ B"AAA-3"; Convert false noon; ClockStep (-10000000000); SetTZ B"BBB+5"].
Definition backstep_quiet : list (op (Z * Z * Z)) := [Advance 10500000000].
Lemma freshness_wall_clock_refuted :
  exists x pre qo local d,
    Forall (fun o => 0 <= dt_of o) (pre ++ qo) /\ Forall keeps_tz qo /\ NANOS_PER_SEC <= elapsed qo /\
    let s := exec (xoracle x) false (init_state (xinit x)) (pre ++ qo) in
    snd (step (xoracle x) false s (Convert local d)) <> Some (o_answer (xoracle x) (zone_at (xoracle x) (st_world s)) local d).
Proof.
  exists demo_world, backstep_pre, backstep_quiet, false, noon.
  split; [repeat constructor; cbn; lia|]. split; [repeat constructor|]. split; [vm_compute; discriminate|].
  vm_compute. discriminate.
Qed.
(* the same history with monotonic stamps is fine (instance of [freshness]) *)
Lemma backstep_monotonic_ok :
  let s := exec (xoracle demo_world) true (init_state (xinit demo_world)) (backstep_pre ++ backstep_quiet) in
  snd (step (xoracle demo_world) true s (Convert false noon)) = Some (VInt (-18000)).
Proof. vm_compute. reflexivity. Qed.
