(** Proofs for C18 (model: Model/C18.v). *)
From Coq Require Import ZArith List Bool Lia.
From V Require Import Base.Int Base.IO Gen.LocalCache Model.C18.
Import ListNotations.
Open Scope Z_scope.

Section Proofs.
  Context {zone HASH ARG ANS : Type}.
  Variable O : oracle zone HASH ARG ANS.
  Variable mono : bool.

  (** *** selection *)
  Lemma sel_empty : forall w, from_posix_tz O w [] = Some (o_utc O).
  Proof. reflexivity. Qed.

  Lemma sel_unset : forall w, tz_local O w None = read_zone w LC_LOCALTIME_FILE.
  Proof. reflexivity. Qed.

  (** the first conversion of a thread reads the zone the environment names now *)
  Lemma fresh_thread_current : forall w local d,
    tl_offset O mono w None local d =
      (Some (cache_default O mono w), o_answer O (current_zone O w (env_var w LC_ENV_NAME)) local d).
  Proof.
    intros. unfold tl_offset, cache_offset, cache_check, cache_default, duration_since.
    cbn [c_last_checked]. rewrite Z.leb_refl, Z.sub_diag. reflexivity.
  Qed.
End Proofs.
