(** C09, top level: the property as the independent judge states it (Judge/C09.v) holds of the model's
    dispatcher ([Model.C09.run]) on EVERY case line of all three ops, except exactly the two recorded
    findings (both on op tx.rt), where the model gives the implementation's error. *)
From Coq Require Import ZArith List Bool Lia ZifyBool String.
From V Require Import Base.Int Base.IntLemmas Base.IO Base.Utf8 Base.Lift Model.Scan Model.Parse Model.FromStr Model.Show Model.DateTime
  Model.C09 Spec.Gregorian
  Proofs.C09Show Proofs.C09Time Proofs.C09Date Proofs.C09DateTime Proofs.C09Zoned Proofs.C09Shape Proofs.C09 Proofs.C09Holds
  Proofs.C09Edge Proofs.C09EdgeRead Proofs.HoldsLib.
From V Require Model.Date Model.Time Model.C19 Judge.C09 Proofs.Date Proofs.C08 Proofs.C04.
Import ListNotations.
Open Scope Z_scope.
Ltac Zify.zify_post_hook ::= Z.to_euclidean_division_equations.
Import Proofs.Date.
Module J := Judge.C09.

(** the case lines of the two recorded findings (known_findings.json C09-ndt-display-not-parsed,
    C09-dt-wall-clock-outside-date-range): tx.rt of a NaiveDateTime in Display form; tx.rt of a
    DateTime<FixedOffset> whose wall-clock date is outside the range of NaiveDate *)
Definition known_finding (op : bytes) (args : list val) : bool :=
  op_is op "tx.rt" &&
  match args with
  | [VInt ty; VInt form; v] =>
      ((ty =? 2) && (form =? 0))
      || ((ty =? 3) && match v with
                       | VTup [VInt y; VInt o; VInt s; VInt f; VInt off] => negb (wall_ok y o s off)
                       | _ => false
                       end)
  | _ => false
  end.

(** what each op name selects in the judge and in the dispatcher *)
Lemma jd_show args out : J.judge (B"tx.show") args out =
  match args with [VInt ty; VInt form; v] => J.judge_show ty form v out | _ => JSkip end.
Proof. reflexivity. Qed.
Lemma jd_rt args out : J.judge (B"tx.rt") args out =
  match args with [VInt ty; VInt form; v] => J.judge_rt ty form v out | _ => JSkip end.
Proof. reflexivity. Qed.
Lemma jd_parse args out : J.judge (B"tx.parse") args out =
  match args with [VInt ty; VStr s] => J.judge_parse ty s out | _ => JSkip end.
Proof. reflexivity. Qed.

Ltac inv_shape H :=
  repeat (match type of H with context [match ?x with _ => _ end] => is_var x; destruct x end;
          cbv beta iota in H; try discriminate H).

Lemma form_ok_of form : negb ((form =? 0) || (form =? 1)) = false -> form_ok form.
Proof. unfold form_ok. lia. Qed.

(** a UTC value (offset 0) never leaves the range *)
Lemma wall_ok_utc y o s : J.valid_date y o = true -> J.valid_time s 0 = true \/ 0 <= s < 86400 -> wall_ok y o s 0 = true.
Proof.
  intros Hv Hs. destruct (dec_date_valid y o Hv) as (_ & Hr & _). unfold wall_ok.
  assert (0 <= s < 86400) by (destruct Hs as [Hs|Hs]; [unfold J.valid_time in Hs; lia|exact Hs]).
  replace ((s + 0) / 86400) with 0 by lia. rewrite Z.add_0_r. exact (repr_dn_in_range y o _ Hr).
Qed.

(** * the central lemma: on every (type, form, value) the judge places in the domain, the dispatcher
    prints the documented text, and -- outside the two findings -- reads the value back *)
Lemma spec_show_rt ty form v t : J.spec_text ty form v = J.InDom t ->
  run B"tx.show" [VInt ty; VInt form; v] = VStr t /\
  (known_finding B"tx.rt" [VInt ty; VInt form; v] = false -> run B"tx.rt" [VInt ty; VInt form; v] = v).
Proof.
  intros H. pose proof H as H0. unfold J.spec_text in H. cbv zeta in H.
  destruct (negb ((form =? 0) || (form =? 1))) eqn:Ef; [discriminate|]. pose proof (form_ok_of form Ef) as Hf.
  destruct (ty =? 0) eqn:E0.
  { apply Z.eqb_eq in E0. subst ty. inv_shape H.
    destruct (J.valid_date z z0) eqn:Hv; [|discriminate]. injection H as <-.
    destruct (holds_date z z0 form Hv Hf) as [S R]. split; [exact S|intros _; exact R]. }
  destruct (ty =? 1) eqn:E1.
  { apply Z.eqb_eq in E1. subst ty. inv_shape H.
    destruct (J.valid_time z z0) eqn:Hv; [|discriminate]. destruct (J.time_in_domain z z0) eqn:Hd; [|discriminate].
    injection H as <-. destruct (holds_time z z0 form Hv Hd Hf) as [S R]. split; [exact S|intros _; exact R]. }
  destruct (ty =? 2) eqn:E2.
  { apply Z.eqb_eq in E2. subst ty. inv_shape H.
    destruct (J.valid_date z z0 && J.valid_time z1 z2) eqn:Hv; [|discriminate]. apply andb_prop in Hv. destruct Hv as [Hv1 Hv2].
    destruct (J.time_in_domain z1 z2) eqn:Hd; [|discriminate]. injection H as <-.
    destruct (holds_ndt z z0 z1 z2 Hv1 Hv2 Hd) as (S1 & S0 & R1 & _).
    destruct Hf as [-> | ->].
    - split; [exact S0|]. intros Hk. discriminate Hk.
    - split; [exact S1|intros _; exact R1]. }
  destruct ((ty =? 3) || (ty =? 4)) eqn:E34.
  { inv_shape H. rename z into y, z0 into o, z1 into s, z2 into f, z3 into off.
    destruct (J.valid_date y o && J.valid_time s f && J.valid_offset off && ((ty =? 3) || (off =? 0))) eqn:Hv; [|discriminate].
    apply andb_prop in Hv. destruct Hv as [Hv Hty]. apply andb_prop in Hv. destruct Hv as [Hv Hvo].
    apply andb_prop in Hv. destruct Hv as [Hvd Hvt].
    destruct (J.time_in_domain s f && (off mod 60 =? 0)) eqn:Hd; [|discriminate].
    apply andb_prop in Hd. destruct Hd as [Hd Hm]. apply Z.eqb_eq in Hm.
    assert (Hty' : ty = 3 \/ (ty = 4 /\ off = 0)) by lia.
    destruct (wall_ok y o s off) eqn:Hw.
    - destruct (holds_dt y o s f off ty form Hvd Hvt Hd Hvo Hm Hty' Hf Hw) as [(t' & Hs & S) R].
      cbv zeta in Hs. rewrite H0 in Hs. injection Hs as <-. split; [exact S|intros _; exact R].
    - (* the wall-clock date is outside the range: only with a non-zero offset, i.e. type 3 *)
      assert (ty = 3).
      { destruct Hty' as [E|[_ ->]]; [exact E|]. rewrite (wall_ok_utc y o s Hvd) in Hw; [discriminate|].
        right. unfold J.valid_time in Hvt. lia. }
      subst ty. split; [|intros Hk; exfalso; unfold known_finding in Hk; cbn [op_is] in Hk;
                          rewrite op_rt in Hk; cbn [Z.eqb Pos.eqb andb orb] in Hk; rewrite Hw in Hk; discriminate Hk].
      destruct (dec_date_valid y o Hvd) as (_ & Hr & _).
      pose proof (time_dom_of s f Hvt Hd) as Htd.
      assert (Hob : -86400 < off < 86400) by (unfold J.valid_offset in Hvo; lia).
      pose proof (shape_dtz_full y o _ s f off false Hr Htd Hob Hm) as Sh. cbv zeta in Sh.
      pose proof (dec_dtz_valid y o s f off Hvd Hvt Hvo) as Hdec.
      destruct (J.wall y o s off) as [[ly lo] ls]. destruct Sh as [S1 S2].
      apply run_show. unfold show. rewrite (form_neg form Hf). cbn [Z.eqb Pos.eqb]. rewrite Hdec.
      destruct Hf as [-> | ->]; cbn [Z.eqb Pos.eqb] in *; injection H as <-.
      + rewrite S2. repeat (rewrite <- app_assoc; cbn [app]). reflexivity.
      + rewrite S1. repeat (rewrite <- app_assoc; cbn [app]). reflexivity. }
  destruct (ty =? 5) eqn:E5.
  { apply Z.eqb_eq in E5. subst ty. inv_shape H.
    destruct (J.valid_offset z) eqn:Hv; [|discriminate]. destruct (z mod 60 =? 0) eqn:Hm; [|discriminate].
    unfold J.valid_offset in Hv.
    destruct (holds_fixed_offset z form ltac:(lia) ltac:(lia) Hf) as (t' & Hs & S & R).
    rewrite H0 in Hs. injection Hs as <-. split; [exact S|intros _; exact R]. }
  destruct (ty =? 6) eqn:E6.
  { apply Z.eqb_eq in E6. subst ty. inv_shape H.
    destruct ((0 <=? z) && (z <=? 6)) eqn:Hv; [|discriminate].
    destruct (holds_weekday z form ltac:(lia) Hf) as (t' & Hs & S & R).
    rewrite H0 in Hs. injection Hs as <-. split; [exact S|intros _; exact R]. }
  destruct (ty =? 7) eqn:E7; [|discriminate].
  apply Z.eqb_eq in E7. subst ty. inv_shape H.
  destruct ((1 <=? z) && (z <=? 12) && (form =? 1)) eqn:Hv; [|discriminate].
  assert (form = 1) by lia. subst form.
  destruct (holds_month z ltac:(lia)) as (t' & Hs & S & R).
  rewrite H0 in Hs. injection Hs as <-. split; [exact S|intros _; exact R].
Qed.

(** * every op *)
Theorem C09_holds op args : known_finding op args = false ->
  J.judge op args (run op args) <> JSkip -> J.judge op args (run op args) = JOk.
Proof.
  intros Hk.
  destruct (op_is op "tx.show") eqn:P1.
  { apply hl_op_is_eq in P1. subst op. rewrite jd_show.
    destruct args as [|[ty| | | | | | | |] [|[form| | | | | | | |] [|v [|? ?]]]]; try congruence.
    unfold J.judge_show. destruct (J.spec_text ty form v) as [t| |] eqn:Hs; try congruence. intros _.
    rewrite (proj1 (spec_show_rt ty form v t Hs)). apply hl_judge_eq_refl. }
  destruct (op_is op "tx.rt") eqn:P2.
  { apply hl_op_is_eq in P2. subst op. rewrite jd_rt.
    destruct args as [|[ty| | | | | | | |] [|[form| | | | | | | |] [|v [|? ?]]]]; try congruence.
    unfold J.judge_rt. destruct (J.spec_text ty form v) as [t| |] eqn:Hs; try congruence. intros _.
    rewrite (proj2 (spec_show_rt ty form v t Hs) Hk). apply hl_judge_eq_refl. }
  destruct (op_is op "tx.parse") eqn:P3.
  { apply hl_op_is_eq in P3. subst op. rewrite jd_parse.
    destruct args as [|[ty| | | | | | | |] [|[ |s| | | | | | |] [|? ?]]]; try congruence.
    unfold J.judge_parse. destruct (J.is_text_of ty s _); congruence. }
  intros H. exfalso. apply H. unfold J.judge. rewrite P1, P2, P3. reflexivity.
Qed.

(** on the cases of the first finding the model gives the implementation's error *)
Theorem C09_finding_ndt_display y o s f : J.valid_date y o = true -> J.valid_time s f = true -> J.time_in_domain s f = true ->
  let args := [VInt 2; VInt 0; VTup [VInt y; VInt o; VInt s; VInt f]] in
  known_finding B"tx.rt" args = true /\ run B"tx.rt" args = VErr B"Invalid" /\
  exists why, J.judge B"tx.rt" args (run B"tx.rt" args) = JBad why.
Proof.
  intros Hv Ht Hd args. destruct (holds_ndt y o s f Hv Ht Hd) as (_ & _ & _ & R0). cbv zeta in R0.
  split; [reflexivity|]. split; [exact R0|]. unfold args. rewrite R0, jd_rt. unfold J.judge_rt, J.spec_text.
  cbn [Z.eqb Pos.eqb orb negb]. rewrite Hv, Ht, Hd. cbn [andb]. unfold judge_eq. cbn [val_eqb]. eexists. reflexivity.
Qed.

(** on EVERY case of the second finding the model gives the implementation's error, in both forms *)
Theorem C09_finding_wall_clock y o s f off form : J.valid_date y o = true -> J.valid_time s f = true ->
  J.time_in_domain s f = true -> J.valid_offset off = true -> off mod 60 = 0 -> form_ok form ->
  wall_ok y o s off = false ->
  let args := [VInt 3; VInt form; VTup [VInt y; VInt o; VInt s; VInt f; VInt off]] in
  known_finding B"tx.rt" args = true /\ run B"tx.rt" args = VErr B"OutOfRange" /\
  exists why, J.judge B"tx.rt" args (run B"tx.rt" args) = JBad why.
Proof.
  intros Hvd Hvt Hd Hvo Hm Hf Hw args.
  destruct (dec_date_valid y o Hvd) as (_ & Hr & _). pose proof (time_dom_of s f Hvt Hd) as Htd.
  assert (Hob : -86400 < off < 86400) by (unfold J.valid_offset in Hvo; lia).
  pose proof (dec_dtz_valid y o s f off Hvd Hvt Hvo) as Hdec.
  destruct (wall_clock_refused y o _ s f off Hr Htd Hob Hm Hw) as [(t1 & E1 & E2) (t2 & E3 & E4)].
  assert (R : run B"tx.rt" args = VErr B"OutOfRange").
  { unfold args. eapply (run_rt 3 form _ (if form =? 1 then t1 else t2)).
    - unfold show. rewrite (form_neg form Hf). cbn [Z.eqb Pos.eqb]. rewrite Hdec.
      destruct Hf as [-> | ->]; cbn [Z.eqb Pos.eqb]; [rewrite E3|rewrite E1]; reflexivity.
    - unfold parse_text. cbn [Z.eqb Pos.eqb]. unfold vres.
      destruct Hf as [-> | ->]; cbn [Z.eqb Pos.eqb]; [rewrite E4|rewrite E2]; reflexivity. }
  split.
  { unfold args, known_finding. rewrite op_rt. cbn [Z.eqb Pos.eqb andb orb]. rewrite Hw. reflexivity. }
  split; [exact R|]. rewrite R. unfold args. rewrite jd_rt. unfold J.judge_rt, J.spec_text.
  rewrite (form_neg form Hf). cbn [Z.eqb Pos.eqb orb]. rewrite Hvd, Hvt, Hvo, Hd. cbn [andb].
  replace (off mod 60 =? 0) with true by lia. destruct (J.wall y o s off) as [[ly lo] ls].
  unfold judge_eq. cbn [val_eqb]. eexists. reflexivity.
Qed.

(** the excluded cases of the second finding are exactly those of the recorded matcher: UTC date on
    the last / first day of the range and second-of-day + offset crossing the day boundary outwards *)
Theorem wall_ok_false_iff y o s off : J.valid_date y o = true -> 0 <= s < 86400 -> -86400 < off < 86400 ->
  (wall_ok y o s off = false <->
   (y = 262142 /\ o = 365 /\ 86400 <= s + off) \/ (y = -262143 /\ o = 1 /\ s + off < 0)).
Proof.
  intros Hv Hs Ho. destruct (dec_date_valid y o Hv) as (_ & Hr & _). unfold wall_ok. split.
  - intros Hw. destruct (wall_out_cases y o _ s off Hr Hs Ho Hw) as [(A & B0 & C & _)|(A & B0 & C & _)]; [left|right]; tauto.
  - intros [(-> & -> & H)|(-> & -> & H)].
    + replace ((s + off) / 86400) with 1 by lia. vm_compute. reflexivity.
    + replace ((s + off) / 86400) with (-1) by lia. vm_compute. reflexivity.
Qed.

(** the theorem is not vacuous: the judge has an opinion on each op, and the findings are findings *)
Example holds_examples :
  (let a := [VInt 3; VInt 0; VTup [VInt 2016; VInt 366; VInt 86399; VInt 1500000000; VInt (-34200)]] in
   known_finding B"tx.show" a = false /\ J.judge B"tx.show" a (run B"tx.show" a) = JOk /\
   known_finding B"tx.rt" a = false /\ J.judge B"tx.rt" a (run B"tx.rt" a) = JOk) /\
  (let a := [VInt 3; VStr (B"2016-12-31T14:29:60.500-09:30")] in
   known_finding B"tx.parse" a = false /\ J.judge B"tx.parse" a (run B"tx.parse" a) = JOk) /\
  (let a := [VInt 3; VInt 1; VTup [VInt 262142; VInt 365; VInt 86399; VInt 0; VInt 60]] in
   known_finding B"tx.show" a = false /\ J.judge B"tx.show" a (run B"tx.show" a) = JOk /\
   known_finding B"tx.rt" a = true /\ run B"tx.rt" a = VErr B"OutOfRange").
Proof. vm_compute. repeat split. Qed.

(** * the dispatcher, op by op *)
Lemma dispatch args :
  run (B"tx.show") args =
    match args with
    | [VInt ty; VInt form; v] => match show ty form v with Some r => val_of_R VStr r | None => VBad end
    | _ => VBad end /\
  run (B"tx.parse") args =
    match args with
    | [VInt ty; VStr s] => if utf8_valid s then match parse_text ty s with Some o => o | None => VBad end else VBad
    | _ => VBad end /\
  run (B"tx.rt") args =
    match args with
    | [VInt ty; VInt form; v] =>
        match show ty form v with
        | Some (Val s) => match parse_text ty s with Some o => o | None => VBad end
        | Some Panic => VPanic
        | Some OutOfFuel => VFuel
        | None => VBad
        end
    | _ => VBad end.
Proof. repeat split. Qed.

(* tx.rt is tx.parse applied to the text of tx.show *)
Lemma rt_is_parse_of_show ty form v t : run (B"tx.show") [VInt ty; VInt form; v] = VStr t -> utf8_valid t = true ->
  run (B"tx.rt") [VInt ty; VInt form; v] = run (B"tx.parse") [VInt ty; VStr t].
Proof.
  destruct (dispatch [VInt ty; VInt form; v]) as (E1 & _ & E3). destruct (dispatch [VInt ty; VStr t]) as (_ & E2 & _).
  rewrite E1, E2, E3. destruct (show ty form v) as [[s| |]|]; cbn [val_of_R]; try discriminate.
  intros H U. injection H as ->. rewrite U. reflexivity.
Qed.

(** Weekday / Month: the printed names are the judge's English names, for every value *)
Lemma shape_weekday w : 0 <= w <= 6 ->
  to_text (wd_display [] w) = Val (nth (Z.to_nat w) J.weekday_names []) /\
  to_text (wd_debug [] w) = Val (nth (Z.to_nat w) J.weekday_names []).
Proof.
  intros H. assert (E : w = 0 \/ w = 1 \/ w = 2 \/ w = 3 \/ w = 4 \/ w = 5 \/ w = 6) by lia.
  repeat (destruct E as [-> | E]; [vm_compute; split; reflexivity|]). subst w. vm_compute. split; reflexivity.
Qed.
(* the model's Month value is the discriminant 0..11 (the case protocol carries 1..12) *)
Lemma shape_month m : 0 <= m <= 11 -> to_text (mo_debug [] m) = Val (nth (Z.to_nat m) J.month_names []).
Proof.
  intros H. assert (E : m = 0 \/ m = 1 \/ m = 2 \/ m = 3 \/ m = 4 \/ m = 5 \/ m = 6 \/ m = 7 \/ m = 8 \/ m = 9 \/ m = 10 \/ m = 11) by lia.
  repeat (destruct E as [-> | E]; [vm_compute; reflexivity|]). subst m. vm_compute. reflexivity.
Qed.
