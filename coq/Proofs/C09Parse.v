(** C09 -- step lemmas for the item-driven reader (Model/Parse.v) on printed text: what one item
    of the fixed FromStr lists does to a string that starts with the token the writer printed.
    Every lemma is generic in the digits (no sweep): they rest on Proofs/Scan.v [number_on_digits],
    [nanosecond_ok] and Proofs/Decimal.v. *)
From Coq Require Import ZArith List Bool Lia ZifyBool String.
From V Require Import Base.Int Base.IntLemmas Base.IO Base.Utf8 Gen.ScanTables Gen.ParseTable Model.Scan Model.Items
  Model.Rfc3339 Model.Parse Proofs.Utf8 Proofs.Scan Proofs.Decimal.
From V Require Model.Parsed Proofs.C14.
Import ListNotations.
Open Scope Z_scope.

Notation parsed := Model.Parsed.parsed.
Notation pput := Model.Parsed.pput.
Notation pget := Model.Parsed.pget.

Definition ascii (s : bytes) : Prop := Forall (fun c => 0 <= c <= 127) s.
Lemma ascii_digits ds : forallb is_ascii_digit ds = true -> ascii ds.
Proof.
  intros H. eapply Forall_impl; [|apply all_digits_ascii; exact H]. cbn. intros a [Ha _]. exact Ha.
Qed.
Lemma ascii_app a b : ascii a -> ascii b -> ascii (a ++ b).
Proof. intros Ha Hb. apply Forall_app. split; assumption. Qed.
Lemma utf8_ascii s : ascii s -> utf8_valid s = true.
Proof. intros H. rewrite <- (app_nil_r s). rewrite utf8_valid_app_ascii by exact H. reflexivity. Qed.

(** ** white space *)
Definition nows_start (s : bytes) : Prop :=
  match s with [] => True | c :: _ => 0 <= c <= 127 /\ is_whitespace c = false end.
Lemma trim_start_id s : nows_start s -> trim_start s = s.
Proof.
  intros H. unfold trim_start. change s with ([] ++ s) at 1. apply trim_prefix; [constructor|].
  unfold first_cp_fails. destruct s as [|c r]; [exact I|]. destruct H as [Hc Hw].
  rewrite next_code_point_ascii by lia. exact Hw.
Qed.
Lemma digit_nows c r : is_ascii_digit c = true -> nows_start (c :: r).
Proof. intros H. pose proof (digit_range c H). cbn. split; [lia|]. unfold is_whitespace. lia. Qed.
Lemma digits_nows ds rest : forallb is_ascii_digit ds = true -> ds <> [] -> nows_start (ds ++ rest).
Proof.
  intros H Hne. destruct ds as [|c r]; [congruence|]. cbn [forallb] in H. apply andb_prop in H.
  cbn [app]. apply digit_nows. exact (proj1 H).
Qed.

(** ** Item::Space / Item::Literal *)
Lemma parse_item_space rel p s x : nows_start s -> parse_item rel p s (Space x) = pok (p, s).
Proof. intros H. cbn [parse_item]. rewrite trim_start_id by exact H. reflexivity. Qed.
Lemma parse_item_literal1 rel p c rest : utf8_valid rest = true ->
  parse_item rel p (c :: rest) (Literal [c]) = pok (p, rest).
Proof.
  intros Hv. cbn [parse_item]. rewrite !blen_cons, blen_nil. pose proof (blen_nonneg rest).
  replace (1 + blen rest <? 1 + 0) with false by lia.
  unfold starts_with. cbn [strip_prefix]. rewrite Z.eqb_refl. cbn [negb].
  change (1 + 0) with 1. rewrite str_from_1 by (apply utf8_valid_starts_ok; exact Hv). reflexivity.
Qed.

(** ** Item::Numeric *)
Lemma parse_numeric_unsigned p ds rest spec width code :
  zassoc (numeric_idx spec) PN_TABLE = Some (width, false, code) ->
  forallb is_ascii_digit ds = true -> ds <> [] -> utf8_valid rest = true ->
  blen ds <= width -> (blen ds < width -> not_digit_start rest = true) -> digits_value ds 0 <= i64_max ->
  parse_numeric p (ds ++ rest) spec =
  (let+ p' := set_by_code code p (digits_value ds 0) in pok (p', rest)).
Proof.
  intros Ht Hd Hne Hv Hw Hr Hval. unfold parse_numeric. rewrite Ht.
  rewrite trim_start_id by (apply digits_nows; assumption).
  change PN_MIN_DIGITS with 1.
  assert (1 <= blen ds).
  { destruct ds as [|c r]; [congruence|]. rewrite blen_cons. pose proof (blen_nonneg r). lia. }
  rewrite number_on_digits; try assumption; try lia.
  reflexivity.
Qed.

(* a signed item (Year) printed with an explicit sign: every digit is read *)
Lemma parse_numeric_signed p sgn ds rest spec width code :
  zassoc (numeric_idx spec) PN_TABLE = Some (width, true, code) ->
  (sgn = 43 \/ sgn = 45) ->
  forallb is_ascii_digit ds = true -> ds <> [] -> utf8_valid rest = true ->
  not_digit_start rest = true -> digits_value ds 0 <= i64_max -> blen ds <= 1000 ->
  parse_numeric p (sgn :: ds ++ rest) spec =
  (let+ p' := set_by_code code p (if sgn =? 45 then - digits_value ds 0 else digits_value ds 0) in pok (p', rest)).
Proof.
  intros Ht Hs Hd Hne Hv Hr Hval Hlen. unfold parse_numeric. rewrite Ht.
  rewrite trim_start_id by (cbn; unfold is_whitespace; lia).
  change PN_MIN_DIGITS with 1. change PN_SIGNED_MAX_DIGITS with 18446744073709551615.
  assert (1 <= blen ds).
  { destruct ds as [|c r]; [congruence|]. rewrite blen_cons. pose proof (blen_nonneg r). lia. }
  assert (Hvr : utf8_valid (ds ++ rest) = true).
  { rewrite utf8_valid_app_ascii; [exact Hv|apply ascii_digits; exact Hd]. }
  pose proof (digits_value_mono ds 0 Hd ltac:(lia)) as Hnn.
  cbn [starts_with_byte].
  destruct Hs as [-> | ->].
  - change (43 =? 45) with false. change (43 =? 43) with true. cbv iota.
    rewrite str_from_1 by (apply utf8_valid_starts_ok; exact Hvr). cbn [bind].
    rewrite number_on_digits; try assumption; try lia; [|intros _; exact Hr]. reflexivity.
  - change (45 =? 45) with true. cbv iota.
    rewrite str_from_1 by (apply utf8_valid_starts_ok; exact Hvr). cbn [bind].
    rewrite number_on_digits; try assumption; try lia; [|intros _; exact Hr]. cbn [pbind bind].
    unfold checked_sub. rewrite chko_in by (unfold in_i64, in_range, i64_min, i64_max in *; lia).
    replace (0 - digits_value ds 0) with (- digits_value ds 0) by lia. reflexivity.
Qed.

(** ** setters on an empty field *)
Lemma set_checked_fresh f lo hi cast p v : pget f p = None -> lo <= v <= hi ->
  Model.Parsed.set_checked f lo hi cast p v = (pput f (Some (cast v)) p, Model.Parsed.Ok tt).
Proof.
  intros Hn Hr. rewrite C14.set_checked_in by exact Hr. unfold Model.Parsed.set_if_consistent. rewrite Hn. reflexivity.
Qed.
Lemma set_hour_fresh p v : pget Model.Parsed.F_hour_div_12 p = None -> pget Model.Parsed.F_hour_mod_12 p = None ->
  0 <= v <= 23 ->
  Model.Parsed.set_hour p v =
  Val (pput Model.Parsed.F_hour_mod_12 (Some (v mod 12)) (pput Model.Parsed.F_hour_div_12 (Some (v / 12)) p), Model.Parsed.Ok tt).
Proof.
  intros H1 H2 Hr. rewrite C14.set_hour_value.
  replace (Model.Parsed.contains 0 23 v) with true by (symmetry; apply C14.contains_spec; lia).
  unfold Model.Parsed.set_if_consistent. rewrite H1.
  rewrite C14.pget_pput_other by discriminate. rewrite H2. reflexivity.
Qed.

(** ** Fixed::Nanosecond *)
Lemma digit_run_app ds rest : forallb is_ascii_digit ds = true -> not_digit_start rest = true ->
  digit_run (ds ++ rest) = (ds, rest).
Proof.
  intros Hd Hr. induction ds as [|c r IH]; cbn [app].
  - destruct rest as [|c r]; [reflexivity|]. cbn [digit_run]. cbn [not_digit_start] in Hr.
    destruct (is_ascii_digit c); [discriminate|reflexivity].
  - cbn [forallb] in Hd. apply andb_prop in Hd. destruct Hd as [Hc Hd]. cbn [digit_run]. rewrite Hc, IH by exact Hd. reflexivity.
Qed.
Lemma parse_dot_nanosecond_digits p ds rest :
  forallb is_ascii_digit ds = true -> 1 <= blen ds <= 9 -> utf8_valid rest = true -> not_digit_start rest = true ->
  parse_dot_nanosecond p (46 :: ds ++ rest) =
  (let+ p' := setq (Model.Parsed.set_nanosecond p (digits_value ds 0 * 10 ^ (9 - blen ds))) in pok (p', rest)).
Proof.
  intros Hd Hl Hv Hr. unfold parse_dot_nanosecond. cbn [starts_with_byte]. change (46 =? 46) with true. cbv iota.
  assert (Hvr : utf8_valid (ds ++ rest) = true).
  { rewrite utf8_valid_app_ascii; [exact Hv|apply ascii_digits; exact Hd]. }
  rewrite str_from_1 by (apply utf8_valid_starts_ok; exact Hvr). cbn [bind].
  rewrite nanosecond_ok by exact Hvr. unfold nanosecond_pure. rewrite digit_run_app by assumption.
  assert (Hf : firstn 9 ds = ds).
  { apply firstn_all2. unfold blen in Hl. lia. }
  rewrite Hf.
  destruct ds as [|c r]; [rewrite blen_nil in Hl; lia|]. reflexivity.
Qed.
Lemma parse_dot_nanosecond_none p s : starts_with_byte s 46 = false -> parse_dot_nanosecond p s = pok (p, s).
Proof. intros H. unfold parse_dot_nanosecond. rewrite H. reflexivity. Qed.

(** ** one turn of the item loop on a printed token *)
Lemma step_space rel p s x items : nows_start s ->
  parse_items rel p s (Space x :: items) = parse_items rel p s items.
Proof. intros H. cbn [parse_items]. rewrite parse_item_space by exact H. reflexivity. Qed.
Lemma step_lit rel p c rest items : utf8_valid rest = true ->
  parse_items rel p (c :: rest) (Literal [c] :: items) = parse_items rel p rest items.
Proof. intros H. cbn [parse_items]. rewrite parse_item_literal1 by exact H. reflexivity. Qed.
Lemma step_num2 rel p n rest items spec pad code p' :
  zassoc (numeric_idx spec) PN_TABLE = Some (2, false, code) ->
  0 <= n < 100 -> utf8_valid rest = true ->
  set_by_code code p n = pok p' ->
  parse_items rel p (low_digits 2 n ++ rest) (INumeric spec pad :: items) = parse_items rel p' rest items.
Proof.
  intros Ht Hn Hv Hset. cbn [parse_items parse_item].
  rewrite (parse_numeric_unsigned p (low_digits 2 n) rest spec 2 code); try assumption.
  - rewrite low_digits_value0 by (change (10 ^ Z.of_nat 2) with 100; lia). rewrite Hset. reflexivity.
  - apply low_digits_digits.
  - discriminate.
  - rewrite low_digits_blen. lia.
  - rewrite low_digits_blen. lia.
  - rewrite low_digits_value0 by (change (10 ^ Z.of_nat 2) with 100; lia). unfold i64_max. lia.
Qed.
Lemma step_nano_none rel p s items : starts_with_byte s 46 = false ->
  parse_items rel p s (IFixed F_Nanosecond :: items) = parse_items rel p s items.
Proof. intros H. cbn [parse_items parse_item parse_fixed]. rewrite parse_dot_nanosecond_none by exact H. reflexivity. Qed.
Lemma step_nano_digits rel p k v rest items : (1 <= k <= 9)%nat -> 0 <= v < 10 ^ Z.of_nat k ->
  utf8_valid rest = true -> not_digit_start rest = true ->
  pget Model.Parsed.F_nanosecond p = None ->
  parse_items rel p (46 :: low_digits k v ++ rest) (IFixed F_Nanosecond :: items) =
  parse_items rel (pput Model.Parsed.F_nanosecond (Some (v * 10 ^ (9 - Z.of_nat k))) p) rest items.
Proof.
  intros Hk Hv Hr Hnd Hp. cbn [parse_items parse_item parse_fixed].
  rewrite parse_dot_nanosecond_digits; try assumption.
  2:{ apply low_digits_digits. }
  2:{ rewrite low_digits_blen. lia. }
  rewrite low_digits_value0, low_digits_blen by lia.
  assert (Hb : 0 <= v * 10 ^ (9 - Z.of_nat k) <= 999999999).
  { assert (Hp10 : 0 < 10 ^ (9 - Z.of_nat k)) by (apply Z.pow_pos_nonneg; lia).
    assert (10 ^ Z.of_nat k * 10 ^ (9 - Z.of_nat k) = 1000000000).
    { rewrite <- Z.pow_add_r by lia. replace (Z.of_nat k + (9 - Z.of_nat k)) with 9 by lia. reflexivity. }
    set (P := 10 ^ (9 - Z.of_nat k)) in *. set (Q := 10 ^ Z.of_nat k) in *.
    assert (v * P <= (Q - 1) * P) by (apply Z.mul_le_mono_nonneg_r; lia).
    assert (0 <= v * P) by (apply Z.mul_nonneg_nonneg; lia). lia. }
  unfold Model.Parsed.set_nanosecond. rewrite set_checked_fresh by (assumption || lia).
  rewrite C14.as_u32_small by (unfold u32_max; lia). reflexivity.
Qed.

(* a signed item printed without a sign (the year 0..9999) *)
Lemma parse_numeric_nosign p ds rest spec width code :
  zassoc (numeric_idx spec) PN_TABLE = Some (width, true, code) ->
  forallb is_ascii_digit ds = true -> ds <> [] -> utf8_valid rest = true ->
  blen ds <= width -> (blen ds < width -> not_digit_start rest = true) -> digits_value ds 0 <= i64_max ->
  parse_numeric p (ds ++ rest) spec =
  (let+ p' := set_by_code code p (digits_value ds 0) in pok (p', rest)).
Proof.
  intros Ht Hd Hne Hv Hw Hr Hval. unfold parse_numeric. rewrite Ht.
  rewrite trim_start_id by (apply digits_nows; assumption).
  change PN_MIN_DIGITS with 1.
  assert (1 <= blen ds).
  { destruct ds as [|c r]; [congruence|]. rewrite blen_cons. pose proof (blen_nonneg r). lia. }
  assert (Hs : starts_with_byte (ds ++ rest) 45 = false /\ starts_with_byte (ds ++ rest) 43 = false).
  { destruct ds as [|c r]; [congruence|]. cbn [forallb] in Hd. apply andb_prop in Hd.
    pose proof (digit_range c (proj1 Hd)). cbn [app starts_with_byte]. lia. }
  destruct Hs as [-> ->].
  rewrite number_on_digits; try assumption; try lia.
  reflexivity.
Qed.
