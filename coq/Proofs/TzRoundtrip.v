(** Round trips against the specification writer of Spec/TzWriter.v:
    [from_tz_string (print_rule r ext) ext = Val (Ok r)] for every rule the documented forms can
    express.  The cursor lemmas here are exact (equalities), unlike the Hoare-style ones of
    Proofs/TzCommon.v. *)
From Coq Require Import ZArith List Bool Lia ZifyBool.
From V Require Import Base.Int Base.IO Base.IntLemmas Gen.TzInfo.
From V Require Import Model.TzParser Model.TzRule Spec.TzWriter.
From V Require Import Proofs.TzCommon.
Import ListNotations.
Open Scope Z_scope.
Ltac Zify.zify_post_hook ::= Z.to_euclidean_division_equations.

Lemma rbind_ok {A T} (a : A) (f : A -> R (res T)) : rbind (ok a) f = f a.
Proof. reflexivity. Qed.

Ltac norm_app := repeat (rewrite <- ?app_assoc in *; rewrite <- ?app_comm_cons in *; progress cbn [app] in *).

Ltac rc_eq := match goal with |- context [mk_cur _ ?x] => match goal with |- _ = ok (_, mk_cur _ ?y) => replace y with x by lia; reflexivity end end.

Definition fits (rc : Z) (s : bytes) : Prop := 0 <= rc /\ rc + zlen s <= u64_max.
Lemma fits_app rc a rest : fits rc (a ++ rest) -> fits (rc + zlen a) rest.
Proof. unfold fits. rewrite zlen_app. pose proof (zlen_nonneg a). lia. Qed.
Lemma fits_cons rc x rest : fits rc (x :: rest) -> fits (rc + 1) rest.
Proof. unfold fits. rewrite zlen_cons. lia. Qed.

Lemma firstn_zlen_app {A} (a rest : list A) : firstn (Z.to_nat (zlen a)) (a ++ rest) = a.
Proof.
  unfold zlen. rewrite Nat2Z.id. rewrite firstn_app, firstn_all, Nat.sub_diag. cbn. apply app_nil_r.
Qed.
Lemma skipn_zlen_app {A} (a rest : list A) : skipn (Z.to_nat (zlen a)) (a ++ rest) = rest.
Proof.
  unfold zlen. rewrite Nat2Z.id. rewrite skipn_app, skipn_all, Nat.sub_diag. reflexivity.
Qed.

Lemma read_exact_app a rest rc : fits rc (a ++ rest) ->
  read_exact (mk_cur (a ++ rest) rc) (zlen a) = ok (a, mk_cur rest (rc + zlen a)).
Proof.
  intros [H0 H1]. unfold read_exact. cbn [remaining read_count]. rewrite zlen_app in *.
  pose proof (zlen_nonneg a). pose proof (zlen_nonneg rest).
  replace ((0 <=? zlen a) && (zlen a <=? zlen a + zlen rest)) with true by lia.
  unfold add_usize. rewrite chk_in by range_solver. cbv [bind].
  rewrite firstn_zlen_app, skipn_zlen_app. reflexivity.
Qed.
Lemma read_exact_1 x rest rc : fits rc (x :: rest) ->
  read_exact (mk_cur (x :: rest) rc) 1 = ok ([x], mk_cur rest (rc + 1)).
Proof. intros H. apply (read_exact_app [x] rest rc H). Qed.

Definition stops (f : Z -> bool) (rest : bytes) : Prop :=
  match rest with [] => True | x :: _ => f x = false end.
Lemma prefix_len_app f ds rest : Forall (fun x => f x = true) ds -> stops f rest ->
  prefix_len f (ds ++ rest) = zlen ds.
Proof.
  intros HF Hs. induction HF as [|x r Hx HF IH]; cbn [app prefix_len].
  - destruct rest as [|y rest']; [reflexivity|]. cbn [prefix_len]. cbn in Hs. rewrite Hs. reflexivity.
  - rewrite Hx, IH, zlen_cons. reflexivity.
Qed.
Lemma read_while_app f ds rest rc : Forall (fun x => f x = true) ds -> stops f rest -> fits rc (ds ++ rest) ->
  read_while (mk_cur (ds ++ rest) rc) f = ok (ds, mk_cur rest (rc + zlen ds)).
Proof.
  intros HF Hs Hfit. unfold read_while. cbn [remaining]. rewrite prefix_len_app by assumption.
  apply read_exact_app. exact Hfit.
Qed.

Lemma read_int_app ds rest rc tmax : ds <> [] -> Forall (fun x => is_ascii_digit x = true) ds ->
  stops is_ascii_digit rest -> digits_value ds <= tmax -> fits rc (ds ++ rest) ->
  read_int (mk_cur (ds ++ rest) rc) tmax = ok (digits_value ds, mk_cur rest (rc + zlen ds)).
Proof.
  intros Hne HF Hs Hv Hfit. unfold read_int. rewrite read_while_app by assumption. rewrite rbind_ok.
  destruct ds as [|d r]; [congruence|]. replace (digits_value (d :: r) <=? tmax) with true by lia. reflexivity.
Qed.

(* fixed-width decimal fields *)
Lemma print1_digits n : 0 <= n <= 9 ->
  Forall (fun x => is_ascii_digit x = true) (print1 n) /\ digits_value (print1 n) = n /\ zlen (print1 n) = 1.
Proof.
  intros H. unfold print1, digits_value, is_ascii_digit. cbn [fold_left]. repeat split; try reflexivity; try lia.
  repeat constructor; lia.
Qed.
Lemma print2_digits n : 0 <= n <= 99 ->
  Forall (fun x => is_ascii_digit x = true) (print2 n) /\ digits_value (print2 n) = n /\ zlen (print2 n) = 2.
Proof.
  intros H. unfold print2, digits_value, is_ascii_digit. cbn [fold_left]. repeat split; try reflexivity; try lia.
  repeat constructor; lia.
Qed.
Lemma print3_digits n : 0 <= n <= 999 ->
  Forall (fun x => is_ascii_digit x = true) (print3 n) /\ digits_value (print3 n) = n /\ zlen (print3 n) = 3.
Proof.
  intros H. unfold print3, digits_value, is_ascii_digit. cbn [fold_left]. repeat split; try reflexivity; try lia.
  repeat constructor; lia.
Qed.

Lemma read_tag_1 t rest rc : fits rc (t :: rest) ->
  read_tag (mk_cur (t :: rest) rc) [t] = ok (mk_cur rest (rc + 1)).
Proof.
  intros H. unfold read_tag. change (zlen [t]) with 1. rewrite read_exact_1 by exact H. rewrite rbind_ok. cbn [bytes_eqb].
  rewrite Z.eqb_refl. reflexivity.
Qed.
Lemma read_optional_tag_yes t rest rc : fits rc (t :: rest) ->
  read_optional_tag (mk_cur (t :: rest) rc) [t] = ok (true, mk_cur rest (rc + 1)).
Proof.
  intros H. unfold read_optional_tag. cbn [remaining starts_with]. rewrite Z.eqb_refl. cbn [andb].
  change (zlen [t]) with 1. rewrite read_exact_1 by exact H.
  destruct rest; reflexivity.
Qed.

(* a quoted name *)
Lemma name_char_not_gt b : is_name_char b = true -> negb (b =? 62) = true.
Proof. unfold is_name_char. lia. Qed.
Lemma parse_name_quoted n rest rc : Forall (fun b => is_name_char b = true) n ->
  fits rc (60 :: n ++ 62 :: rest) ->
  parse_name (mk_cur (60 :: n ++ 62 :: rest) rc) = ok (n, mk_cur rest (rc + zlen n + 2)).
Proof.
  intros Hn Hfit. unfold parse_name. cbn [peek remaining].
  rewrite read_exact_1 by exact Hfit. rewrite rbind_ok.
  apply fits_cons in Hfit.
  unfold read_until. cbn [remaining].
  rewrite (prefix_len_app (fun x => negb (x =? 62)) n (62 :: rest)).
  2:{ eapply Forall_impl; [|exact Hn]. intros b Hb. apply name_char_not_gt. exact Hb. }
  2:{ cbn. reflexivity. }
  rewrite read_exact_app by exact Hfit. rewrite rbind_ok.
  apply fits_app in Hfit. rewrite read_exact_1 by exact Hfit. rewrite rbind_ok.
  replace (rc + 1 + zlen n + 1) with (rc + zlen n + 2) by lia. reflexivity.
Qed.

Lemma zlen_print2 n : zlen (print2 n) = 2.
Proof. reflexivity. Qed.
Lemma zlen_print3 n : zlen (print3 n) = 3.
Proof. reflexivity. Qed.
Lemma zlen_print1 n : zlen (print1 n) = 1.
Proof. reflexivity. Qed.
Lemma stops_58 rest : stops is_ascii_digit (58 :: rest).
Proof. reflexivity. Qed.

Lemma parse_hhmmss_app hd h m s rest rc :
  hd <> [] -> Forall (fun x => is_ascii_digit x = true) hd -> digits_value hd = h -> h <= i32_max ->
  0 <= m <= 59 -> 0 <= s <= 59 -> stops is_ascii_digit rest ->
  fits rc (hd ++ 58 :: print2 m ++ 58 :: print2 s ++ rest) ->
  parse_hhmmss (mk_cur (hd ++ 58 :: print2 m ++ 58 :: print2 s ++ rest) rc)
  = ok (h, m, s, mk_cur rest (rc + zlen hd + 6)).
Proof.
  intros Hne Hd Hv Hh Hm Hs Hst Hfit. unfold parse_hhmmss.
  destruct (print2_digits m ltac:(lia)) as (Dm1 & Dm2 & Dm3).
  destruct (print2_digits s ltac:(lia)) as (Ds1 & Ds2 & Ds3).
  rewrite read_int_app; [|assumption|assumption|apply stops_58|lia|exact Hfit].
  rewrite rbind_ok. cbv beta iota. apply fits_app in Hfit.
  rewrite read_optional_tag_yes by exact Hfit. rewrite rbind_ok. cbv beta iota. apply fits_cons in Hfit.
  rewrite read_int_app; [|discriminate|assumption|apply stops_58|unfold i32_max; lia|exact Hfit].
  rewrite rbind_ok. cbv beta iota. apply fits_app in Hfit.
  rewrite read_optional_tag_yes by exact Hfit. rewrite rbind_ok. cbv beta iota. apply fits_cons in Hfit.
  rewrite read_int_app; [|discriminate|assumption|assumption|unfold i32_max; lia|exact Hfit].
  rewrite rbind_ok. cbv beta iota. rewrite Hv, Dm2, Ds2, Dm3, Ds3.
  replace (rc + zlen hd + 1 + 2 + 1 + 2) with (rc + zlen hd + 6) by lia. reflexivity.
Qed.

Definition hour_digits (three : bool) (a : Z) : bytes := if three then print3 (a / 3600) else print2 (a / 3600).
Lemma print_hms_shape three v :
  print_hms three v = (if v <? 0 then [45] else []) ++ hour_digits three (Z.abs v) ++ 58 :: print2 ((Z.abs v / 60) mod 60) ++ 58 :: print2 (Z.abs v mod 60).
Proof. unfold print_hms, hour_digits. destruct three; reflexivity. Qed.
Lemma hour_digits_ok (three : bool) a : 0 <= a <= (if three then 604799 else 89999) ->
  hour_digits three a <> [] /\ Forall (fun x => is_ascii_digit x = true) (hour_digits three a) /\
  digits_value (hour_digits three a) = a / 3600 /\ zlen (hour_digits three a) = (if three then 3 else 2) /\
  (exists d r, hour_digits three a = d :: r /\ 48 <= d <= 57).
Proof.
  intros H. unfold hour_digits. destruct three.
  - destruct (print3_digits (a / 3600) ltac:(lia)) as (D1 & D2 & D3). repeat split; try assumption; try discriminate.
    unfold print3. eexists _, _. split; [reflexivity|lia].
  - destruct (print2_digits (a / 3600) ltac:(lia)) as (D1 & D2 & D3). repeat split; try assumption; try discriminate.
    unfold print2. eexists _, _. split; [reflexivity|lia].
Qed.

Lemma parse_signed_app (three : bool) v rest rc :
  - (if three then 604799 else 89999) <= v <= (if three then 604799 else 89999) ->
  stops is_ascii_digit rest -> fits rc (print_hms three v ++ rest) ->
  parse_signed_hhmmss (mk_cur (print_hms three v ++ rest) rc)
  = ok (if v <? 0 then -1 else 1, Z.abs v / 3600, (Z.abs v / 60) mod 60, Z.abs v mod 60,
        mk_cur rest (rc + zlen (print_hms three v))).
Proof.
  intros Hv Hst Hfit. rewrite print_hms_shape in *. set (a := Z.abs v) in *.
  assert (Ha : 0 <= a <= (if three then 604799 else 89999)) by (subst a; destruct three; lia).
  destruct (hour_digits_ok three a Ha) as (H1 & H2 & H3 & H4 & (d & r & Hd & Hdr)).
  assert (Hh : digits_value (hour_digits three a) <= i32_max) by (rewrite H3; unfold i32_max; destruct three; lia).
  unfold parse_signed_hhmmss. destruct (v <? 0) eqn:Es.
  - cbn [app peek remaining] in *. change ((45 =? 43) || (45 =? 45)) with true. cbv iota.
    rewrite read_exact_1 by exact Hfit. rewrite rbind_ok. cbv beta iota. change (45 =? 45) with true. cbv iota.
    rewrite rbind_ok. cbv beta iota.
    apply fits_cons in Hfit. rewrite <- !app_assoc in *. cbn [app] in *. rewrite <- !app_assoc in *. cbn [app] in *.
    rewrite (parse_hhmmss_app _ (a / 3600)); try assumption; try lia.
    rewrite rbind_ok. cbv beta iota. rewrite zlen_cons, zlen_app, !zlen_cons, zlen_app, !zlen_cons, !zlen_print2.
    rc_eq.
  - cbn [app] in *. rewrite <- !app_assoc in *. cbn [app] in *. rewrite <- !app_assoc in *. cbn [app] in *.
    rewrite Hd in *. cbn [app peek remaining].
    replace ((d =? 43) || (d =? 45)) with false by lia. rewrite rbind_ok. cbv beta iota.
    rewrite !(app_comm_cons r _ d) in *. rewrite <- Hd in *.
    rewrite (parse_hhmmss_app _ (a / 3600)); try assumption; try lia.
    rewrite rbind_ok. cbv beta iota. rewrite zlen_app, !zlen_cons, zlen_app, !zlen_cons, !zlen_print2.
    rc_eq.
Qed.

Lemma hms_secs_val sg h m s : (sg = 1 \/ sg = -1) -> 0 <= h <= 167 -> 0 <= m <= 59 -> 0 <= s <= 59 ->
  hms_secs sg h m s = Val (sg * (h * 3600 + m * 60 + s)).
Proof.
  intros Hsg Hh Hm Hs. unfold hms_secs. unfold_ops. repeat chk_next'. cbv [bind]. repeat chk_next'. reflexivity.
Qed.
Lemma abs_recompose v : (if v <? 0 then -1 else 1) * (Z.abs v / 3600 * 3600 + (Z.abs v / 60) mod 60 * 60 + Z.abs v mod 60) = v.
Proof. destruct (v <? 0) eqn:E; lia. Qed.

Lemma parse_offset_app v rest rc : -89999 <= v <= 89999 -> stops is_ascii_digit rest ->
  fits rc (print_hms false v ++ rest) ->
  parse_offset (mk_cur (print_hms false v ++ rest) rc) = ok (v, mk_cur rest (rc + zlen (print_hms false v))).
Proof.
  intros Hv Hst Hfit. unfold parse_offset, TZR_OFFSET_HOUR_MAX, TZR_MINSEC_MAX.
  rewrite (parse_signed_app false) by assumption. rewrite rbind_ok. cbv beta iota.
  replace (negb ((0 <=? Z.abs v / 3600) && (Z.abs v / 3600 <=? 24))) with false by lia.
  replace (negb ((0 <=? (Z.abs v / 60) mod 60) && ((Z.abs v / 60) mod 60 <=? 59))) with false by lia.
  replace (negb ((0 <=? Z.abs v mod 60) && (Z.abs v mod 60 <=? 59))) with false by lia.
  rewrite hms_secs_val by (try lia; destruct (v <? 0); auto). cbv [bind].
  rewrite abs_recompose. reflexivity.
Qed.
Lemma parse_rule_time_app v rest rc : 0 <= v <= 89999 -> stops is_ascii_digit rest ->
  fits rc (print_hms false v ++ rest) ->
  parse_rule_time (mk_cur (print_hms false v ++ rest) rc) = ok (v, mk_cur rest (rc + zlen (print_hms false v))).
Proof.
  intros Hv Hst Hfit. unfold parse_rule_time, TZR_RULE_HOUR_MAX, TZR_MINSEC_MAX.
  pose proof (parse_signed_app false v rest rc ltac:(cbv beta iota; lia) Hst Hfit) as Hp.
  unfold parse_signed_hhmmss in Hp. rewrite print_hms_shape in *.
  replace (v <? 0) with false in * by lia. cbn [app] in *.
  destruct (hour_digits_ok false (Z.abs v) ltac:(cbv beta iota; lia)) as (_ & _ & _ & _ & (d & r & Hd & Hdr)).
  rewrite Hd in *. cbn [app peek remaining] in Hp.
  replace ((d =? 43) || (d =? 45)) with false in Hp by lia. rewrite rbind_ok in Hp. cbv beta iota in Hp.
  cbn [app].
  destruct (parse_hhmmss _) as [[p|e]| |] eqn:E; cbn [rbind] in Hp; try discriminate.
  destruct p as [[[h m] s] c]. unfold ok in Hp. injection Hp as -> -> -> ->.
  cbn [rbind].
  replace (negb ((0 <=? Z.abs v / 3600) && (Z.abs v / 3600 <=? 24))) with false by lia.
  replace (negb ((0 <=? (Z.abs v / 60) mod 60) && ((Z.abs v / 60) mod 60 <=? 59))) with false by lia.
  replace (negb ((0 <=? Z.abs v mod 60) && (Z.abs v mod 60 <=? 59))) with false by lia.
  rewrite hms_secs_val by (try lia; auto). cbv [bind].
  pose proof (abs_recompose v) as Hr. replace (v <? 0) with false in Hr by lia. rewrite Hr. reflexivity.
Qed.
Lemma parse_rule_time_extended_app v rest rc : -604799 <= v <= 604799 -> stops is_ascii_digit rest ->
  fits rc (print_hms true v ++ rest) ->
  parse_rule_time_extended (mk_cur (print_hms true v ++ rest) rc) = ok (v, mk_cur rest (rc + zlen (print_hms true v))).
Proof.
  intros Hv Hst Hfit. unfold parse_rule_time_extended, TZR_RULE_EXT_HOUR_MIN, TZR_RULE_EXT_HOUR_MAX, TZR_MINSEC_MAX.
  rewrite (parse_signed_app true) by assumption. rewrite rbind_ok. cbv beta iota.
  replace (negb ((-167 <=? Z.abs v / 3600) && (Z.abs v / 3600 <=? 167))) with false by lia.
  replace (negb ((0 <=? (Z.abs v / 60) mod 60) && ((Z.abs v / 60) mod 60 <=? 59))) with false by lia.
  replace (negb ((0 <=? Z.abs v mod 60) && (Z.abs v mod 60 <=? 59))) with false by lia.
  rewrite hms_secs_val by (try lia; destruct (v <? 0); auto). cbv [bind].
  rewrite abs_recompose. reflexivity.
Qed.

Lemma match_M_J (x : Z) : 48 <= x <= 57 ->
  forall (X : Type) (a b0 c0 : X), match x with 77 => a | 74 => b0 | _ => c0 end = c0.
Proof.
  intros H X a b0 c0. destruct x as [|p|p]; try reflexivity.
  repeat (destruct p as [p|p|]; try reflexivity); lia.
Qed.

Lemma stops_47 rest : stops is_ascii_digit (47 :: rest).
Proof. reflexivity. Qed.
Lemma stops_46 rest : stops is_ascii_digit (46 :: rest).
Proof. reflexivity. Qed.

Lemma rule_time_app (ext : bool) t rest rc : time_printable ext t -> stops is_ascii_digit rest ->
  fits rc (print_hms ext t ++ rest) ->
  (if ext then parse_rule_time_extended (mk_cur (print_hms ext t ++ rest) rc)
   else parse_rule_time (mk_cur (print_hms ext t ++ rest) rc))
  = ok (t, mk_cur rest (rc + zlen (print_hms ext t))).
Proof.
  intros Ht Hst Hfit. unfold time_printable in Ht. destruct ext.
  - apply parse_rule_time_extended_app; assumption.
  - apply parse_rule_time_app; assumption.
Qed.

Lemma rule_day_parse_app d (ext : bool) t rest rc : day_printable d -> time_printable ext t ->
  stops is_ascii_digit rest -> fits rc (print_day d ++ 47 :: (print_hms ext t ++ rest)) ->
  rule_day_parse (mk_cur (print_day d ++ 47 :: (print_hms ext t ++ rest)) rc) ext
  = ok (d, t, mk_cur rest (rc + zlen (print_day d) + 1 + zlen (print_hms ext t))).
Proof.
  intros Hd Ht Hst Hfit. unfold rule_day_parse.
  assert (Htail : forall rc', fits rc' (47 :: (print_hms ext t ++ rest)) ->
            (let+ '(slash, c) := read_optional_tag (mk_cur (47 :: (print_hms ext t ++ rest)) rc') [47] in
             if negb slash then ok (d, TZR_DEFAULT_RULE_TIME, c)
             else if ext then let+ '(t0, c0) := parse_rule_time_extended c in ok (d, t0, c0)
             else let+ '(t0, c0) := parse_rule_time c in ok (d, t0, c0))
            = ok (d, t, mk_cur rest (rc' + 1 + zlen (print_hms ext t)))).
  { intros rc' Hf. rewrite read_optional_tag_yes by exact Hf. rewrite rbind_ok. cbv beta iota. cbn [negb].
    apply fits_cons in Hf. pose proof (rule_time_app ext t rest (rc' + 1) Ht Hst Hf) as Hr.
    destruct ext; rewrite Hr; rewrite rbind_ok; reflexivity. }
  destruct d as [n|n|m w wd]; cbn [day_printable] in Hd; unfold print_day in *.
  - (* Jn *)
    cbn [app] in *. cbn [peek remaining]. cbv beta iota.
    rewrite read_exact_1 by exact Hfit. rewrite rbind_ok. cbv beta iota. apply fits_cons in Hfit.
    destruct (print3_digits n ltac:(lia)) as (D1 & D2 & D3).
    rewrite read_int_app; [|discriminate|exact D1|apply stops_47|unfold u16_max; lia|exact Hfit].
    rewrite rbind_ok. cbv beta iota. rewrite D2. unfold julian_1, TZR_JULIAN1_MIN, TZR_JULIAN1_MAX.
    replace (negb ((1 <=? n) && (n <=? 365))) with false by lia.
    change (Val (Ok (Julian1WithoutLeap n))) with (ok (Julian1WithoutLeap n)). rewrite !rbind_ok.
    apply fits_app in Hfit. rewrite Htail by exact Hfit. rewrite zlen_cons, D3. rc_eq.
  - (* n *)
    destruct (print3_digits n ltac:(lia)) as (D1 & D2 & D3).
    assert (Hpk : exists x r, print3 n = x :: r /\ 48 <= x <= 57).
    { unfold print3. eexists _, _. split; [reflexivity|lia]. }
    destruct Hpk as (x & r & Hx & Hxr).
    assert (Hpeek : peek (mk_cur (print3 n ++ 47 :: (print_hms ext t ++ rest)) rc) = Some x) by (rewrite Hx; reflexivity).
    rewrite Hpeek. rewrite (match_M_J x Hxr).
    rewrite read_int_app; [|discriminate|exact D1|apply stops_47|unfold u16_max; lia|exact Hfit].
    rewrite rbind_ok. cbv beta iota. rewrite D2. unfold julian_0, TZR_JULIAN0_MAX.
    replace (n >? 365) with false by lia.
    change (Val (Ok (Julian0WithLeap n))) with (ok (Julian0WithLeap n)). rewrite !rbind_ok.
    apply fits_app in Hfit. rewrite Htail by exact Hfit. rewrite D3. rc_eq.
  - (* Mm.w.d *)
    destruct Hd as (Hm & Hw & Hwd).
    rewrite <- ?app_assoc in *. cbn [app] in *. rewrite <- ?app_assoc in *. cbn [app] in *.
    cbn [peek remaining]. cbv beta iota.
    rewrite read_exact_1 by exact Hfit. rewrite rbind_ok. cbv beta iota. apply fits_cons in Hfit.
    destruct (print2_digits m ltac:(lia)) as (M1 & M2 & M3).
    destruct (print1_digits w ltac:(lia)) as (W1 & W2 & W3).
    destruct (print1_digits wd ltac:(lia)) as (X1 & X2 & X3).
    rewrite read_int_app; [|discriminate|exact M1|apply stops_46|unfold u8_max; lia|exact Hfit].
    rewrite rbind_ok. cbv beta iota. apply fits_app in Hfit.
    rewrite read_tag_1 by exact Hfit. rewrite rbind_ok. apply fits_cons in Hfit.
    rewrite read_int_app; [|discriminate|exact W1|apply stops_46|unfold u8_max; lia|exact Hfit].
    rewrite rbind_ok. cbv beta iota. apply fits_app in Hfit.
    rewrite read_tag_1 by exact Hfit. rewrite rbind_ok. apply fits_cons in Hfit.
    rewrite read_int_app; [|discriminate|exact X1|apply stops_47|unfold u8_max; lia|exact Hfit].
    rewrite rbind_ok. cbv beta iota. apply fits_app in Hfit.
    rewrite M2, W2, X2. unfold month_weekday.
    replace (negb ((1 <=? m) && (m <=? 12))) with false by lia.
    replace (negb ((1 <=? w) && (w <=? 5))) with false by lia.
    replace (wd >? 6) with false by lia.
    change (Val (Ok (MonthWeekday m w wd))) with (ok (MonthWeekday m w wd)). rewrite !rbind_ok.
    rewrite Htail by exact Hfit.
    rewrite zlen_cons, zlen_app, zlen_cons, zlen_app, zlen_cons, M3, W3, X3. rc_eq.
Qed.

Lemma name_loop_exact : forall n i, 0 <= i -> i + zlen n <= 7 ->
  Forall (fun b => is_name_char b = true) n -> name_loop n i = ok tt.
Proof.
  induction n as [|b r IH]; intros i Hi Hl HF; cbn [name_loop]; [reflexivity|].
  inversion HF as [|? ? Hb HF']; subst. rewrite Hb. rewrite zlen_cons in Hl. pose proof (zlen_nonneg r).
  unfold rassert. replace (i + 1 <? 8) with true by lia. cbv [bind]. apply IH; [lia|lia|exact HF'].
Qed.
Lemma ltt_new_exact off dst n : -89999 <= off <= 89999 -> name_printable (Some n) ->
  ltt_new off dst (Some n) = ok (mk_ltt off dst (Some n)).
Proof.
  intros Ho [Hl Hc]. unfold ltt_new, tz_name_new, TZ_NAME_MIN, TZ_NAME_MAX.
  replace (off =? i32_min) with false by (unfold i32_min; lia).
  replace (negb ((3 <=? zlen n) && (zlen n <=? 7))) with false by lia.
  rewrite name_loop_exact by (try lia; assumption). rewrite !rbind_ok. reflexivity.
Qed.

Lemma stops_60 rest : stops is_ascii_digit (60 :: rest).
Proof. reflexivity. Qed.
Lemma stops_44 rest : stops is_ascii_digit (44 :: rest).
Proof. reflexivity. Qed.

(* one "<name>offset" segment *)
Lemma ltt_segment l (dst : bool) rest rc : ltt_printable dst l -> stops is_ascii_digit rest ->
  fits rc (print_ltt l ++ rest) ->
  exists n, name l = Some n /\ name_printable (Some n) /\
  parse_name (mk_cur (print_ltt l ++ rest) rc)
    = ok (n, mk_cur (print_hms false (- ut_offset l) ++ rest) (rc + zlen n + 2)) /\
  parse_offset (mk_cur (print_hms false (- ut_offset l) ++ rest) (rc + zlen n + 2))
    = ok (- ut_offset l, mk_cur rest (rc + zlen (print_ltt l))) /\
  fits (rc + zlen (print_ltt l)) rest.
Proof.
  intros (Hd & Ho & Hn) Hst Hfit. unfold print_ltt, print_name, name_of in *.
  destruct (name l) as [n|] eqn:En; [|contradiction]. exists n. split; [reflexivity|]. split; [exact Hn|].
  destruct Hn as [Hl Hc].
  rewrite <- ?app_assoc in *. cbn [app] in *. rewrite <- ?app_assoc in *. cbn [app] in *.
  split; [apply parse_name_quoted; assumption|].
  assert (Hfit2 : fits (rc + zlen n + 2) (print_hms false (- ut_offset l) ++ rest)).
  { apply fits_cons in Hfit. apply fits_app in Hfit. apply fits_cons in Hfit.
    replace (rc + zlen n + 2) with (rc + 1 + zlen n + 1) by lia. exact Hfit. }
  split.
  - rewrite parse_offset_app; [|lia|exact Hst|exact Hfit2].
    rewrite zlen_cons, zlen_app, zlen_cons. rc_eq.
  - apply fits_app in Hfit2. rewrite zlen_cons, zlen_app, zlen_cons.
    replace (rc + (1 + (zlen n + (1 + zlen (print_hms false (- ut_offset l)))))) with (rc + zlen n + 2 + zlen (print_hms false (- ut_offset l))) by lia.
    exact Hfit2.
Qed.

Lemma match_not_44 (x : Z) : x <> 44 -> forall (X : Type) (a b0 : X), match x with 44 => a | _ => b0 end = b0.
Proof.
  intros H X a b0. destruct x as [|p|p]; try reflexivity.
  repeat (destruct p as [p|p|]; try reflexivity); lia.
Qed.
Lemma print_hms_head (three : bool) v : - (if three then 604799 else 89999) <= v <= (if three then 604799 else 89999) ->
  exists x r, print_hms three v = x :: r /\ (x = 45 \/ 48 <= x <= 57).
Proof.
  intros H. rewrite print_hms_shape. destruct (v <? 0) eqn:E.
  - cbn [app]. eexists _, _. split; [reflexivity|left; reflexivity].
  - destruct (hour_digits_ok three (Z.abs v) ltac:(destruct three; lia)) as (_ & _ & _ & _ & (d & r & Hd & Hdr)).
    rewrite Hd. cbn [app]. eexists _, _. split; [reflexivity|right; exact Hdr].
Qed.

Lemma zlen_print_hms (three : bool) v : 0 <= zlen (print_hms three v) <= 10.
Proof.
  unfold print_hms. destruct (v <? 0); destruct three; cbn [app];
    repeat (rewrite zlen_app || rewrite zlen_cons); rewrite ?zlen_print2, ?zlen_print3; change (zlen (@nil Z)) with 0; lia.
Qed.
Lemma zlen_print_ltt l : name_printable (name l) -> 0 <= zlen (print_ltt l) <= 19.
Proof.
  intros H. unfold print_ltt, print_name, name_of. destruct (name l) as [n|]; [|contradiction]. destruct H as [H _].
  pose proof (zlen_print_hms false (- ut_offset l)).
  repeat (rewrite zlen_app || rewrite zlen_cons). change (zlen (@nil Z)) with 0. lia.
Qed.
Lemma zlen_print_day d : 0 <= zlen (print_day d) <= 7.
Proof. destruct d; cbn; unfold zlen; cbn; lia. Qed.

Theorem rule_roundtrip r (ext : bool) : rule_printable r ext ->
  from_tz_string (print_rule r ext) ext = Val (Ok r).
Proof.
  intros Hp. unfold from_tz_string.
  assert (Hbound : forall s : bytes, zlen s <= 1000 -> fits 0 s) by (intros s Hs; unfold fits, u64_max; lia).
  destruct r as [l|a]; cbn [rule_printable print_rule] in *.
  - (* std offset *)
    assert (Hfit : fits 0 (print_ltt l ++ [])).
    { apply Hbound. destruct Hp as (_ & _ & Hn). pose proof (zlen_print_ltt l Hn). rewrite zlen_app. change (zlen (@nil Z)) with 0. lia. }
    destruct (ltt_segment l false [] 0 Hp I Hfit) as (n & En & Hn & H1 & H2 & _).
    rewrite !app_nil_r in *. unfold cur_new. rewrite H1, rbind_ok. cbv beta iota. rewrite H2, rbind_ok. cbv beta iota.
    cbn [cur_is_empty remaining]. destruct Hp as (Hd & Ho & _).
    unfold neg_i32. rewrite chk_in by range_solver. cbv [bind].
    replace (- - ut_offset l) with (ut_offset l) by lia.
    rewrite ltt_new_exact by assumption. rewrite rbind_ok.
    destruct l as [off d nm]. cbn [ut_offset is_dst name] in *. subst. reflexivity.
  - destruct Hp as (Hs & Hd & Hds & Hde & Hts & Hte).
    set (tail2 := 44 :: (print_day (dst_end a) ++ 47 :: (print_hms ext (dst_end_time a) ++ []))).
    set (tail1 := 44 :: (print_day (dst_start a) ++ 47 :: (print_hms ext (dst_start_time a) ++ tail2))).
    assert (Hshape : print_ltt (a_std a) ++ print_ltt (a_dst a) ++ [44] ++ print_day (dst_start a) ++ [47] ++
                     print_hms ext (dst_start_time a) ++ [44] ++ print_day (dst_end a) ++ [47] ++ print_hms ext (dst_end_time a)
                     = print_ltt (a_std a) ++ (print_ltt (a_dst a) ++ tail1)).
    { subst tail1 tail2. rewrite app_nil_r. cbn [app]. rewrite <- ?app_assoc. reflexivity. }
    rewrite Hshape.
    assert (Hfit : fits 0 (print_ltt (a_std a) ++ (print_ltt (a_dst a) ++ tail1))).
    { apply Hbound. destruct Hs as (_ & _ & Hn1). destruct Hd as (_ & _ & Hn2).
      pose proof (zlen_print_ltt _ Hn1). pose proof (zlen_print_ltt _ Hn2).
      pose proof (zlen_print_day (dst_start a)). pose proof (zlen_print_day (dst_end a)).
      pose proof (zlen_print_hms ext (dst_start_time a)). pose proof (zlen_print_hms ext (dst_end_time a)).
      subst tail1 tail2. repeat (rewrite zlen_app || rewrite zlen_cons). change (zlen (@nil Z)) with 0. lia. }
    assert (Hst1 : stops is_ascii_digit (print_ltt (a_dst a) ++ tail1)) by (unfold print_ltt, print_name; cbn [app]; reflexivity).
    destruct (ltt_segment (a_std a) false _ 0 Hs Hst1 Hfit) as (n1 & En1 & Hn1 & H1 & H2 & Hfit1).
    unfold cur_new. rewrite H1, rbind_ok. cbv beta iota. rewrite H2, rbind_ok. cbv beta iota.
    assert (Hne : cur_is_empty (mk_cur (print_ltt (a_dst a) ++ tail1) (0 + zlen (print_ltt (a_std a)))) = false) by (unfold print_ltt, print_name; reflexivity).
    rewrite Hne.
    assert (Hst2 : stops is_ascii_digit tail1) by reflexivity.
    destruct (ltt_segment (a_dst a) true _ _ Hd Hst2 Hfit1) as (n2 & En2 & Hn2 & H3 & H4 & Hfit2).
    rewrite H3, rbind_ok. cbv beta iota.
    (* the DST offset is always printed: the next byte is a sign or a digit, never a comma *)
    destruct Hd as (Hdd & Hdo & _).
    destruct (print_hms_head false (- ut_offset (a_dst a)) ltac:(cbv beta iota; lia)) as (x & rr & Hx & Hxr).
    assert (Hpeek : peek (mk_cur (print_hms false (- ut_offset (a_dst a)) ++ tail1) (0 + zlen (print_ltt (a_std a)) + zlen n2 + 2)) = Some x)
      by (rewrite Hx; reflexivity).
    rewrite Hpeek. rewrite (match_not_44 x ltac:(lia)). rewrite H4, rbind_ok. cbv beta iota.
    assert (Hne2 : cur_is_empty (mk_cur tail1 (0 + zlen (print_ltt (a_std a)) + zlen (print_ltt (a_dst a)))) = false) by reflexivity.
    rewrite Hne2. subst tail1.
    rewrite read_tag_1 by exact Hfit2. rewrite rbind_ok. apply fits_cons in Hfit2.
    assert (Hst3 : stops is_ascii_digit tail2) by reflexivity.
    rewrite rule_day_parse_app; [|assumption|assumption|exact Hst3|exact Hfit2].
    rewrite rbind_ok. cbv beta iota.
    apply fits_app in Hfit2. apply fits_cons in Hfit2. apply fits_app in Hfit2.
    subst tail2.
    match goal with |- context [read_tag (mk_cur _ ?rcx) _] => set (rc3 := rcx) in * end.
    assert (Hfit3 : fits rc3 (44 :: (print_day (dst_end a) ++ 47 :: (print_hms ext (dst_end_time a) ++ [])))).
    { subst rc3. replace (0 + zlen (print_ltt (a_std a)) + zlen (print_ltt (a_dst a)) + 1 + zlen (print_day (dst_start a)) + 1 + zlen (print_hms ext (dst_start_time a)))
        with (0 + zlen (print_ltt (a_std a)) + zlen (print_ltt (a_dst a)) + 1 + zlen (print_day (dst_start a)) + 1 + zlen (print_hms ext (dst_start_time a))) by lia.
      exact Hfit2. }
    rewrite read_tag_1 by exact Hfit3. rewrite rbind_ok. apply fits_cons in Hfit3.
    rewrite rule_day_parse_app; [|assumption|assumption|exact I|exact Hfit3].
    rewrite rbind_ok. cbv beta iota. cbn [cur_is_empty remaining negb].
    destruct Hs as (Hsd & Hso & _).
    unfold neg_i32. rewrite chk_in by range_solver. cbv [bind].
    replace (- - ut_offset (a_std a)) with (ut_offset (a_std a)) by lia.
    rewrite ltt_new_exact by assumption. rewrite rbind_ok.
    rewrite chk_in by range_solver. cbv beta iota.
    replace (- - ut_offset (a_dst a)) with (ut_offset (a_dst a)) by lia.
    rewrite ltt_new_exact by assumption. rewrite rbind_ok.
    unfold alt_new, TZ_SECONDS_PER_WEEK.
    assert (Hw1 : Z.abs (dst_start_time a) < 604800) by (unfold time_printable in Hts; destruct ext; lia).
    assert (Hw2 : Z.abs (dst_end_time a) < 604800) by (unfold time_printable in Hte; destruct ext; lia).
    replace (negb ((Z.abs (dst_start_time a) <? 604800) && (Z.abs (dst_end_time a) <? 604800))) with false by lia.
    cbn [rbind]. destruct a as [std dst ds st de et]. cbn [a_std a_dst dst_start dst_end dst_start_time dst_end_time] in *.
    destruct std as [so sd sn]. destruct dst as [dof dd dn]. cbn [ut_offset is_dst name] in *. subst. reflexivity.
Qed.

(* the hypothesis is inhabited by rules of both forms *)
Lemma rule_printable_examples :
  rule_printable (Fixed (mk_ltt (-36000) false (Some [72; 83; 84]))) false /\
  rule_printable (Alternate (mk_alt (mk_ltt (-10800) false (Some [45; 48; 51])) (mk_ltt (-7200) true (Some [45; 48; 50]))
                                    (MonthWeekday 3 5 0) (-7200) (MonthWeekday 10 5 0) (-3600))) true.
Proof.
  split; cbn; unfold ltt_printable, name_printable, time_printable; cbn [is_dst ut_offset name];
    repeat split; try reflexivity; try lia; try (unfold zlen; cbn [List.length]; lia); repeat constructor.
Qed.
