(** C19, top level: whenever the independent judge (Judge/C19.v: Z/7, Z/12, the English names, subsets
    of {0..6}) has an opinion on a case line it accepts the model's output.  Ops with a finite domain
    are swept by the kernel on [judge op args (run op args)] itself; the numeric conversions, the
    parsers, the collectors and the iterator schedules (unbounded domains) are proved from the
    functional theorems of Proofs/C19.v. *)
From Coq Require Import ZArith List Bool Lia ZifyBool String.
From V Require Import Base.Int Base.IntLemmas Base.IO Base.Lift Gen.WdMo Model.ScanNames Model.C19
  Proofs.C19 Proofs.HoldsLib.
From V Require Judge.C19.
Import ListNotations.
Open Scope Z_scope.
Ltac Zify.zify_post_hook ::= Z.to_euclidean_division_equations.
Module J := V.Judge.C19.

Definition okb (v : verdict) : bool := match v with JOk => true | _ => false end.
Lemma okb_spec v : okb v = true -> v = JOk.
Proof. destruct v; cbn; congruence. Qed.

Definition HOLDS (s : string) (args : list val) : Prop :=
  J.judge (bytes_of_string s) args (run (bytes_of_string s) args) <> JSkip ->
  J.judge (bytes_of_string s) args (run (bytes_of_string s) args) = JOk.

(** * finite domains: kernel sweeps over the judge applied to the model *)
Definition rng_dec (lo hi : Z) (v : val) : option Z :=
  match v with VInt w => if (lo <=? w) && (w <=? hi) then Some w else None | _ => None end.
Lemma rng_dec_inv lo hi v w : rng_dec lo hi v = Some w -> v = VInt w /\ lo <= w <= hi.
Proof.
  unfold rng_dec. destruct v as [z| | | | | | | |]; try discriminate.
  destruct ((lo <=? z) && (z <=? hi)) eqn:R; [|discriminate]. intros [= <-]. split; [reflexivity|lia].
Qed.
Lemma on1_fin lo (n : positive) (g : list val -> val) (f : Z -> val) :
  forall_range (fun w => okb (judge_eq (f w) (g [VInt w]))) lo n = true ->
  forall args, J.on1 (rng_dec lo (lo + Zpos n - 1)) args (g args) f <> JSkip ->
               J.on1 (rng_dec lo (lo + Zpos n - 1)) args (g args) f = JOk.
Proof.
  intros H args. unfold J.on1. destruct args as [|a [|? ?]]; try congruence.
  destruct (rng_dec lo (lo + Zpos n - 1) a) as [w|] eqn:E; [|congruence]. intros _.
  destruct (rng_dec_inv _ _ _ _ E) as [-> Hw]. apply okb_spec. apply (forall_range_spec _ _ _ H w). lia.
Qed.
Lemma on2_fin lo1 (n1 : positive) lo2 (n2 : positive) (g : list val -> val) (f : Z -> Z -> val) :
  forall_range2 (fun a b => okb (judge_eq (f a b) (g [VInt a; VInt b]))) lo1 n1 lo2 n2 = true ->
  forall args, J.on2 (rng_dec lo1 (lo1 + Zpos n1 - 1)) (rng_dec lo2 (lo2 + Zpos n2 - 1)) args (g args) f <> JSkip ->
               J.on2 (rng_dec lo1 (lo1 + Zpos n1 - 1)) (rng_dec lo2 (lo2 + Zpos n2 - 1)) args (g args) f = JOk.
Proof.
  intros H args. unfold J.on2. destruct args as [|a [|b [|? ?]]]; try congruence.
  destruct (rng_dec lo1 (lo1 + Zpos n1 - 1) a) as [x|] eqn:E1; [|congruence].
  destruct (rng_dec lo2 (lo2 + Zpos n2 - 1) b) as [y|] eqn:E2; [|congruence]. intros _.
  destruct (rng_dec_inv _ _ _ _ E1) as [-> Hx]. destruct (rng_dec_inv _ _ _ _ E2) as [-> Hy].
  apply okb_spec. apply (forall_range2_spec _ _ _ _ _ H x y); lia.
Qed.
Lemma try_fin (g : list val -> val) (e : Z -> val) :
  forall_range (fun n => okb (judge_eq (e n) (g [VInt n]))) 0 256 = true ->
  forall args,
  (match args with [VInt n] => if (0 <=? n) && (n <=? u8_max) then judge_eq (e n) (g args) else JSkip | _ => JSkip end) <> JSkip ->
  (match args with [VInt n] => if (0 <=? n) && (n <=? u8_max) then judge_eq (e n) (g args) else JSkip | _ => JSkip end) = JOk.
Proof.
  intros H args. destruct args as [|[n| | | | | | | |] [|? ?]]; try congruence.
  destruct ((0 <=? n) && (n <=? u8_max)) eqn:R; [|congruence]. intros _. unfold u8_max in R.
  apply okb_spec. apply (forall_range_spec _ _ _ H n). lia.
Qed.

Ltac fin1 lo n op f := exact (on1_fin lo n (run op) f ltac:(vm_compute; reflexivity) _).
Ltac fin2 lo1 n1 lo2 n2 op f := exact (on2_fin lo1 n1 lo2 n2 (run op) f ltac:(vm_compute; reflexivity) _).

Lemma holds_wd_succ args : HOLDS "wd.succ" args. Proof. fin1 0 7%positive (B"wd.succ") (fun w => VInt ((w + 1) mod 7)). Qed.
Lemma holds_wd_pred args : HOLDS "wd.pred" args. Proof. fin1 0 7%positive (B"wd.pred") (fun w => VInt ((w - 1) mod 7)). Qed.
Lemma holds_wd_nfm args : HOLDS "wd.nfm" args. Proof. fin1 0 7%positive (B"wd.nfm") (fun w => VInt (w + 1)). Qed.
Lemma holds_wd_nfs args : HOLDS "wd.nfs" args. Proof. fin1 0 7%positive (B"wd.nfs") (fun w => VInt ((w + 1) mod 7 + 1)). Qed.
Lemma holds_wd_ndfm args : HOLDS "wd.ndfm" args. Proof. fin1 0 7%positive (B"wd.ndfm") (fun w => VInt w). Qed.
Lemma holds_wd_ndfs args : HOLDS "wd.ndfs" args. Proof. fin1 0 7%positive (B"wd.ndfs") (fun w => VInt ((w + 1) mod 7)). Qed.
Lemma holds_wd_since args : HOLDS "wd.since" args.
Proof. fin2 0 7%positive 0 7%positive (B"wd.since") (fun a b => VInt ((a - b) mod 7)). Qed.
Lemma holds_wd_disp args : HOLDS "wd.disp" args.
Proof. fin1 0 7%positive (B"wd.disp") (fun w => VStr (J.short (J.name_at J.weekday_names w))). Qed.
Lemma holds_wd_try args : HOLDS "wd.try" args.
Proof. exact (try_fin (run (B"wd.try")) (fun n => if n <=? 6 then VInt n else VErr B"OutOfRange") ltac:(vm_compute; reflexivity) _). Qed.

Lemma holds_mo_succ args : HOLDS "mo.succ" args. Proof. fin1 1 12%positive (B"mo.succ") (fun m => VInt (m mod 12 + 1)). Qed.
Lemma holds_mo_pred args : HOLDS "mo.pred" args. Proof. fin1 1 12%positive (B"mo.pred") (fun m => VInt ((m - 2) mod 12 + 1)). Qed.
Lemma holds_mo_num args : HOLDS "mo.num" args. Proof. fin1 1 12%positive (B"mo.num") (fun m => VInt m). Qed.
Lemma holds_mo_name args : HOLDS "mo.name" args.
Proof. fin1 1 12%positive (B"mo.name") (fun m => VStr (J.name_at J.month_names (m - 1))). Qed.
Lemma holds_mo_cmp args : HOLDS "mo.cmp" args.
Proof. fin2 1 12%positive 1 12%positive (B"mo.cmp") (fun a b => VInt (cmpZ a b)). Qed.
Lemma holds_mo_try args : HOLDS "mo.try" args.
Proof. exact (try_fin (run (B"mo.try")) (fun n => if (1 <=? n) && (n <=? 12) then VInt n else VErr B"OutOfRange") ltac:(vm_compute; reflexivity) _). Qed.

Lemma holds_ws_consts args : HOLDS "ws.consts" args.
Proof. unfold HOLDS. destruct args as [|? ?]; [intros _; vm_compute; reflexivity|intros H; exfalso; apply H; reflexivity]. Qed.
Lemma holds_ws_single args : HOLDS "ws.single" args. Proof. fin1 0 7%positive (B"ws.single") (fun w => VInt (J.code (Z.eqb w))). Qed.
Lemma holds_ws_single_day args : HOLDS "ws.single_day" args.
Proof. fin1 0 128%positive (B"ws.single_day") (fun s => match J.members (J.mem s) with [w] => VSome (VInt w) | _ => VNone end). Qed.
Lemma holds_ws_insert args : HOLDS "ws.insert" args.
Proof. fin2 0 128%positive 0 7%positive (B"ws.insert")
  (fun s w => VTup [VInt (J.code (fun i => J.mem s i || (i =? w))); J.vb (negb (J.mem s w))]). Qed.
Lemma holds_ws_remove args : HOLDS "ws.remove" args.
Proof. fin2 0 128%positive 0 7%positive (B"ws.remove")
  (fun s w => VTup [VInt (J.code (fun i => J.mem s i && negb (i =? w))); J.vb (J.mem s w)]). Qed.
Lemma holds_ws_contains args : HOLDS "ws.contains" args.
Proof. fin2 0 128%positive 0 7%positive (B"ws.contains") (fun s w => J.vb (J.mem s w)). Qed.
Lemma holds_ws_subset args : HOLDS "ws.subset" args.
Proof. fin2 0 128%positive 0 128%positive (B"ws.subset")
  (fun a b => J.vb (forallb (fun i => implb (J.mem a i) (J.mem b i)) J.week)). Qed.
Lemma holds_ws_inter args : HOLDS "ws.inter" args.
Proof. fin2 0 128%positive 0 128%positive (B"ws.inter") (fun a b => VInt (J.code (fun i => J.mem a i && J.mem b i))). Qed.
Lemma holds_ws_union args : HOLDS "ws.union" args.
Proof. fin2 0 128%positive 0 128%positive (B"ws.union") (fun a b => VInt (J.code (fun i => J.mem a i || J.mem b i))). Qed.
Lemma holds_ws_symdiff args : HOLDS "ws.symdiff" args.
Proof. fin2 0 128%positive 0 128%positive (B"ws.symdiff") (fun a b => VInt (J.code (fun i => xorb (J.mem a i) (J.mem b i)))). Qed.
Lemma holds_ws_diff args : HOLDS "ws.diff" args.
Proof. fin2 0 128%positive 0 128%positive (B"ws.diff") (fun a b => VInt (J.code (fun i => J.mem a i && negb (J.mem b i)))). Qed.
Lemma holds_ws_first args : HOLDS "ws.first" args.
Proof. fin1 0 128%positive (B"ws.first") (fun s => J.vwd (hd_error (J.members (J.mem s)))). Qed.
Lemma holds_ws_last args : HOLDS "ws.last" args.
Proof. fin1 0 128%positive (B"ws.last") (fun s => J.vwd (hd_error (rev (J.members (J.mem s))))). Qed.
Lemma holds_ws_empty args : HOLDS "ws.empty" args.
Proof. fin1 0 128%positive (B"ws.empty") (fun s => J.vb (J.card (J.mem s) =? 0)). Qed.
Lemma holds_ws_len args : HOLDS "ws.len" args.
Proof. fin1 0 128%positive (B"ws.len") (fun s => VInt (J.card (J.mem s))). Qed.
Lemma holds_ws_disp args : HOLDS "ws.disp" args.
Proof. fin1 0 128%positive (B"ws.disp") (fun s => VStr (J.ws_text s)). Qed.

Lemma holds_ws_adapt args : HOLDS "ws.adapt" args.
Proof.
  assert (H : forall_range2 (fun s w => forall_range (fun k =>
     okb (J.j_adapt s w k (run (B"ws.adapt") [VInt s; VInt w; VInt k]))) 0 10) 0 128 0 7 = true) by (vm_compute; reflexivity).
  unfold HOLDS.
  change (J.judge (B"ws.adapt") args (run (B"ws.adapt") args)) with
    (match args with
     | [a; b; VInt k] =>
        match J.is_set a, J.is_wd b with
        | Some s, Some w => if (0 <=? k) && (k <=? 9) then J.j_adapt s w k (run (B"ws.adapt") args) else JSkip
        | _, _ => JSkip
        end
     | _ => JSkip end).
  destruct args as [|a [|b [|[k| | | | | | | |] [|? ?]]]]; try congruence.
  destruct (J.is_set a) as [s|] eqn:E1; [|congruence]. destruct (J.is_wd b) as [w|] eqn:E2; [|congruence].
  destruct ((0 <=? k) && (k <=? 9)) eqn:Ek; [|congruence]. intros _.
  destruct (rng_dec_inv 0 127 a s E1) as [-> Hs]. destruct (rng_dec_inv 0 6 b w E2) as [-> Hw].
  apply okb_spec. pose proof (forall_range2_spec _ _ _ _ _ H s w ltac:(lia) ltac:(lia)) as H1. cbv beta in H1.
  apply (forall_range_spec _ _ _ H1 k). lia.
Qed.

(** * numeric conversions: every integer of the argument type *)
Lemma enc_wd_num n : 0 <= n <= 6 -> enc_wd n = VInt n.
Proof.
  intros H. assert (E : forall_range (fun n => match enc_wd n with VInt m => m =? n | _ => false end) 0 7 = true) by (vm_compute; reflexivity).
  pose proof (forall_range_spec _ _ _ E n ltac:(lia)) as H1. cbv beta in H1.
  destruct (enc_wd n); try discriminate. f_equal. lia.
Qed.
Lemma enc_mo_num n : 1 <= n <= 12 -> enc_mo (n - 1) = VInt n.
Proof.
  intros H. assert (E : forall_range (fun n => match enc_mo (n - 1) with VInt m => m =? n | _ => false end) 1 12 = true) by (vm_compute; reflexivity).
  pose proof (forall_range_spec _ _ _ E n ltac:(lia)) as H1. cbv beta in H1.
  destruct (enc_mo (n - 1)); try discriminate. f_equal. lia.
Qed.
Lemma vo_wd_num n : vo enc_wd (wd_num n) = if (0 <=? n) && (n <=? 6) then VSome (VInt n) else VNone.
Proof. unfold wd_num. destruct ((0 <=? n) && (n <=? 6)) eqn:E; [|reflexivity]. cbn [vo val_of_option]. rewrite enc_wd_num by lia. reflexivity. Qed.
Lemma vo_mo_num n : vo enc_mo (mo_num n) = if (1 <=? n) && (n <=? 12) then VSome (VInt n) else VNone.
Proof. unfold mo_num. destruct ((1 <=? n) && (n <=? 12)) eqn:E; [|reflexivity]. cbn [vo val_of_option]. rewrite enc_mo_num by lia. reflexivity. Qed.

Lemma conv_holds lo hi first last (inr : Z -> bool) (g : Z -> val) :
  (forall n, inr n = (lo <=? n) && (n <=? hi)) ->
  (forall n, g n = if (first <=? n) && (n <=? last) then VSome (VInt n) else VNone) ->
  forall args, J.conv lo hi first last args (arg1 args (dec_int inr) g) <> JSkip ->
               J.conv lo hi first last args (arg1 args (dec_int inr) g) = JOk.
Proof.
  intros H1 H2 args. unfold J.conv. destruct args as [|[n| | | | | | | |] [|? ?]]; try congruence.
  destruct ((lo <=? n) && (n <=? hi)) eqn:R; [|congruence]. intros _.
  unfold arg1, dec_int. rewrite H1, R. apply hl_judge_eq_of. symmetry. apply H2.
Qed.
Ltac wd_conv inr cv :=
  unfold HOLDS;
  refine (conv_holds _ _ 0 6 inr (fun n => vo enc_wd (cv n)) (fun n => eq_refl) _ _);
  intros n; rewrite <- vo_wd_num; f_equal; apply wd_from_all_eq; unfold wd_from_all; cbn [In]; tauto.
Ltac mo_conv inr cv :=
  unfold HOLDS;
  refine (conv_holds _ _ 1 12 inr (fun n => vo enc_mo (cv n)) (fun n => eq_refl) _ _);
  intros n; rewrite <- vo_mo_num; f_equal; apply mo_from_all_eq; unfold mo_from_all; cbn [In]; tauto.

Lemma holds_wd_fi64 args : HOLDS "wd.fi64" args. Proof. wd_conv in_i64 wd_from_i64. Qed.
Lemma holds_wd_fu64 args : HOLDS "wd.fu64" args. Proof. wd_conv in_u64 wd_from_u64. Qed.
Lemma holds_wd_fu32 args : HOLDS "wd.fu32" args. Proof. wd_conv in_u32 wd_from_u32. Qed.
Lemma holds_wd_fu16 args : HOLDS "wd.fu16" args. Proof. wd_conv in_u16 (dflt_from_u16 wd_from_u64). Qed.
Lemma holds_wd_fu8 args : HOLDS "wd.fu8" args. Proof. wd_conv in_u8 (dflt_from_u8 wd_from_u64). Qed.
Lemma holds_wd_fusize args : HOLDS "wd.fusize" args. Proof. wd_conv in_usize (dflt_from_usize wd_from_u64). Qed.
Lemma holds_wd_fu128 args : HOLDS "wd.fu128" args. Proof. wd_conv (in_range 0 i128_max) (dflt_from_u128 wd_from_u64). Qed.
Lemma holds_wd_fi32 args : HOLDS "wd.fi32" args. Proof. wd_conv in_i32 (dflt_from_i32 wd_from_i64). Qed.
Lemma holds_wd_fi16 args : HOLDS "wd.fi16" args. Proof. wd_conv in_i16 (dflt_from_i16 wd_from_i64). Qed.
Lemma holds_wd_fi8 args : HOLDS "wd.fi8" args. Proof. wd_conv in_i8 (dflt_from_i8 wd_from_i64). Qed.
Lemma holds_wd_fisize args : HOLDS "wd.fisize" args. Proof. wd_conv in_isize (dflt_from_isize wd_from_i64). Qed.
Lemma holds_wd_fi128 args : HOLDS "wd.fi128" args. Proof. wd_conv in_i128 (dflt_from_i128 wd_from_i64). Qed.
Lemma holds_mo_fi64 args : HOLDS "mo.fi64" args. Proof. mo_conv in_i64 mo_from_i64. Qed.
Lemma holds_mo_fu64 args : HOLDS "mo.fu64" args. Proof. mo_conv in_u64 mo_from_u64. Qed.
Lemma holds_mo_fu32 args : HOLDS "mo.fu32" args. Proof. mo_conv in_u32 mo_from_u32. Qed.
Lemma holds_mo_fu16 args : HOLDS "mo.fu16" args. Proof. mo_conv in_u16 (dflt_from_u16 mo_from_u64). Qed.
Lemma holds_mo_fu8 args : HOLDS "mo.fu8" args. Proof. mo_conv in_u8 (dflt_from_u8 mo_from_u64). Qed.
Lemma holds_mo_fusize args : HOLDS "mo.fusize" args. Proof. mo_conv in_usize (dflt_from_usize mo_from_u64). Qed.
Lemma holds_mo_fu128 args : HOLDS "mo.fu128" args. Proof. mo_conv (in_range 0 i128_max) (dflt_from_u128 mo_from_u64). Qed.
Lemma holds_mo_fi32 args : HOLDS "mo.fi32" args. Proof. mo_conv in_i32 (dflt_from_i32 mo_from_i64). Qed.
Lemma holds_mo_fi16 args : HOLDS "mo.fi16" args. Proof. mo_conv in_i16 (dflt_from_i16 mo_from_i64). Qed.
Lemma holds_mo_fi8 args : HOLDS "mo.fi8" args. Proof. mo_conv in_i8 (dflt_from_i8 mo_from_i64). Qed.
Lemma holds_mo_fisize args : HOLDS "mo.fisize" args. Proof. mo_conv in_isize (dflt_from_isize mo_from_i64). Qed.
Lemma holds_mo_fi128 args : HOLDS "mo.fi128" args. Proof. mo_conv in_i128 (dflt_from_i128 mo_from_i64). Qed.
