(** C04, top level: for EVERY op of the z dispatcher and EVERY argument list, whenever the
    independent judge (Judge/C04.v) has an opinion on the model's output it accepts it.
    Codec inversion: an argument the judge's decoders accept is the canonical encoding of a
    well-formed value; with it the per-op theorems of C04Holds / C04HoldsOld / C04HoldsMoved /
    C04HoldsMonths / C04HoldsWith (stated over canonical encodings) are lifted to arbitrary
    argument lists and assembled. *)
From Coq Require Import ZArith List Bool Lia ZifyBool String.
From V Require Import Base.Int Base.IntLemmas Base.IO Gen.DateTimeConsts Spec.Gregorian Model.TimeDelta.
From V Require Model.Date Model.Time Judge.C04 Judge.C09 Proofs.C08Date.
From V Require Import Model.DateTime Model.C04 Proofs.C04 Proofs.C04Date Proofs.C04Holds Proofs.C04HoldsOld
  Proofs.C04HoldsMoved Proofs.C04HoldsMonths Proofs.C04HoldsWith Proofs.HoldsLib.
Import ListNotations.
Open Scope Z_scope.
Ltac Zify.zify_post_hook ::= Z.to_euclidean_division_equations.

Module J := V.Judge.C04.

(** * codec inversion *)
Lemma canon_ndt y o s f : year_in_range y = true -> valid_yo y o = true -> 0 <= s < 86400 -> 0 <= f < 2000000000 ->
  let n := mk_ndt (C08Sweeps.mkdate y o) (Time.mk_time s f) in
  VTup [VInt y; VInt o; VInt s; VInt f] = enc_ndt n /\ ndt_ok n /\ usecs n = dn_of_yo y o * 86400 + s /\ frac n = f /\
  Time.tsecs (nd_time n) = s /\
  forall off, VTup [VInt y; VInt o; VInt s; VInt f; VInt off] = enc_dtz (mk_dtz n off).
Proof.
  intros Hy Ho Hs Hf n. pose proof (C08Date.repr_mk y o Hy Ho) as Hr.
  pose proof (C08Date.repr_acc y o _ Hr) as A. destruct (md_of_ordinal (is_leap y) o). destruct A as (E1 & E2 & _).
  split; [unfold enc_ndt, n; cbn [nd_date nd_time Time.tsecs Time.tfrac]; rewrite E1, E2; reflexivity|].
  split; [split; [exact (nominal_of_repr _ _ _ Hr)|unfold time_ok, n; cbn [nd_time Time.tsecs Time.tfrac]; lia]|].
  split; [unfold usecs, n; cbn [nd_date nd_time Time.tsecs]; rewrite (dn_of_repr _ _ _ Hr); reflexivity|].
  split; [reflexivity|]. split; [reflexivity|].
  intros off. unfold enc_dtz, n. cbn [dz_utc dz_off nd_date nd_time Time.tsecs Time.tfrac]. rewrite E1, E2. reflexivity.
Qed.

Lemma secs_inv y o s f u f' : J.secs_of_naive y o s f = Some (u, f') ->
  year_in_range y = true /\ valid_yo y o = true /\ 0 <= s < 86400 /\ 0 <= f < 2000000000 /\
  u = dn_of_yo y o * 86400 + s /\ f' = f.
Proof.
  unfold J.secs_of_naive, J.frac_ok, J.DAY.
  destruct (year_in_range y) eqn:Ey; [|discriminate]. destruct (valid_yo y o) eqn:Eo; [|discriminate]. cbn [andb].
  destruct ((0 <=? s) && (s <? 86400) && ((0 <=? f) && (f <? 2000000000))) eqn:E; [|discriminate].
  intros [= <- <-]. repeat split; lia.
Qed.

Lemma naive_inv v u f : J.naive_of_arg v = Some (u, f) ->
  exists n, v = enc_ndt n /\ ndt_ok n /\ u = usecs n /\ f = frac n.
Proof.
  unfold J.naive_of_arg. destruct v as [| | | |l| | | |]; try discriminate.
  destruct l as [|[y| | | | | | | |] l]; try discriminate.
  destruct l as [|[o| | | | | | | |] l]; try discriminate.
  destruct l as [|[s| | | | | | | |] l]; try discriminate.
  destruct l as [|[f0| | | | | | | |] l]; try discriminate.
  destruct l; try discriminate.
  intros H. destruct (secs_inv _ _ _ _ _ _ H) as (Hy & Ho & Hs & Hf & -> & ->).
  destruct (canon_ndt y o s f0 Hy Ho Hs Hf) as (E & Hn & Eu & Ef & _).
  eexists. split; [exact E|]. split; [exact Hn|]. split; [symmetry; exact Eu|symmetry; exact Ef].
Qed.

Lemma z_inv v u f off : J.z_of_arg v = Some (u, f, off) ->
  exists a, v = enc_dtz a /\ dtz_ok a /\ u = usecs (dz_utc a) /\ f = frac (dz_utc a) /\ off = dz_off a.
Proof.
  unfold J.z_of_arg. destruct v as [| | | |l| | | |]; try discriminate.
  destruct l as [|[y| | | | | | | |] l]; try discriminate.
  destruct l as [|[o| | | | | | | |] l]; try discriminate.
  destruct l as [|[s| | | | | | | |] l]; try discriminate.
  destruct l as [|[f0| | | | | | | |] l]; try discriminate.
  destruct l as [|[off0| | | | | | | |] l]; try discriminate.
  destruct l; try discriminate.
  destruct (J.secs_of_naive y o s f0) as [[u0 f1]|] eqn:E; [|discriminate].
  destruct (J.off_ok off0) eqn:Eo; [|discriminate]. intros [= <- <- <-].
  destruct (secs_inv _ _ _ _ _ _ E) as (Hy & Ho & Hs & Hf & -> & ->).
  destruct (canon_ndt y o s f0 Hy Ho Hs Hf) as (_ & Hn & Eu & Ef & _ & Ez).
  eexists. split; [exact (Ez off0)|]. cbn [dz_utc dz_off].
  split; [split; [exact Hn|cbn [dz_off]; unfold J.off_ok in Eo; unfold off_ok; lia]|].
  split; [symmetry; exact Eu|]. split; [symmetry; exact Ef|reflexivity].
Qed.

Lemma off_inv v off : J.off_of_arg v = Some off -> v = VInt off /\ off_ok off.
Proof.
  unfold J.off_of_arg. destruct v as [z| | | | | | | |]; try discriminate.
  destruct (J.off_ok z) eqn:E; [|discriminate]. intros [= <-].
  split; [reflexivity|unfold J.off_ok in E; unfold off_ok; lia].
Qed.

Lemma time_inv v s f : J.time_of_arg v = Some (s, f) ->
  exists t, v = Time.enc_time t /\ time_ok t /\ s = Time.tsecs t /\ f = Time.tfrac t.
Proof.
  unfold J.time_of_arg, J.frac_ok, J.DAY. destruct v as [| | | |l| | | |]; try discriminate.
  destruct l as [|[s0| | | | | | | |] l]; try discriminate.
  destruct l as [|[f0| | | | | | | |] l]; try discriminate.
  destruct l; try discriminate.
  destruct ((0 <=? s0) && (s0 <? 86400) && ((0 <=? f0) && (f0 <? 2000000000))) eqn:E; [|discriminate].
  intros [= <- <-]. exists (Time.mk_time s0 f0). split; [reflexivity|].
  split; [unfold time_ok; cbn [Time.tsecs Time.tfrac]; lia|]. split; reflexivity.
Qed.

(** * the argument shapes of the judge and their domains *)
Ltac skip_case := intros H; exfalso; apply H; reflexivity.

Definition j_int (dom : Z -> bool) (K : Z -> val -> verdict) (args : list val) (out : val) : verdict :=
  match args with [VInt s] => if dom s then K s out else JSkip | _ => JSkip end.
Lemma j_int_dom dom K args out : j_int dom K args out <> JSkip -> exists s, args = [VInt s] /\ dom s = true.
Proof.
  unfold j_int. destruct args as [|[s| | | | | | | |] [|? ?]]; try skip_case.
  destruct (dom s) eqn:E; [|skip_case]. intros _. exists s. split; [reflexivity|exact E].
Qed.

Lemma z1_dom g args out : J.z_1 g args out <> JSkip -> exists a, args = [enc_dtz a] /\ dtz_ok a.
Proof.
  unfold J.z_1. destruct args as [|v [|? ?]]; try skip_case.
  destruct (J.z_of_arg v) as [[[u f] off]|] eqn:E; [|skip_case]. intros _.
  destruct (z_inv v u f off E) as (a & -> & Ha & _). exists a. split; [reflexivity|exact Ha].
Qed.
Lemma z2_dom g args out : J.z_2 g args out <> JSkip ->
  exists a b, args = [enc_dtz a; enc_dtz b] /\ dtz_ok a /\ dtz_ok b.
Proof.
  unfold J.z_2. destruct args as [|v [|w [|? ?]]]; try skip_case.
  destruct (J.z_of_arg v) as [[[u f] off]|] eqn:E; [|skip_case].
  destruct (J.z_of_arg w) as [[[u2 f2] off2]|] eqn:E2; [|skip_case]. intros _.
  destruct (z_inv v u f off E) as (a & -> & Ha & _). destruct (z_inv w u2 f2 off2 E2) as (b & -> & Hb & _).
  exists a, b. split; [reflexivity|split; assumption].
Qed.

Definition j_on (K : Z -> Z -> Z -> val -> verdict) (args : list val) (out : val) : verdict :=
  match args with
  | [o; n] => match J.off_of_arg o, J.naive_of_arg n with
              | Some off, Some (u, f) => K off u f out
              | _, _ => JSkip end
  | _ => JSkip end.
Lemma j_on_dom K args out : j_on K args out <> JSkip ->
  exists off n, args = [VInt off; enc_ndt n] /\ off_ok off /\ ndt_ok n.
Proof.
  unfold j_on. destruct args as [|o [|v [|? ?]]]; try skip_case.
  destruct (J.off_of_arg o) as [off|] eqn:E; [|skip_case].
  destruct (J.naive_of_arg v) as [[u f]|] eqn:E2; [|skip_case]. intros _.
  destruct (off_inv o off E) as [-> Ho]. destruct (naive_inv v u f E2) as (n & -> & Hn & _).
  exists off, n. split; [reflexivity|split; assumption].
Qed.

Definition j_sgn (inr : Z -> bool) (K : Z -> Z -> Z -> Z -> Z -> val -> verdict) (args : list val) (out : val) : verdict :=
  match args with
  | [a; VInt sign; VInt n] =>
      match J.z_of_arg a with
      | Some (u, f, off) => if ((sign =? 1) || (sign =? -1)) && inr n then K u f off sign n out else JSkip
      | None => JSkip end
  | _ => JSkip end.
Lemma j_sgn_dom inr K args out : j_sgn inr K args out <> JSkip ->
  exists a sign n, args = [enc_dtz a; VInt sign; VInt n] /\ dtz_ok a /\ (sign =? 1) || (sign =? -1) = true /\ inr n = true.
Proof.
  unfold j_sgn. destruct args as [|v [|[sign| | | | | | | |] [|[n| | | | | | | |] [|? ?]]]]; try skip_case.
  destruct (J.z_of_arg v) as [[[u f] off]|] eqn:E; [|skip_case].
  destruct (((sign =? 1) || (sign =? -1)) && inr n) eqn:E2; [|skip_case]. intros _.
  apply andb_prop in E2. destruct E2 as [Hs Hn].
  destruct (z_inv v u f off E) as (a & -> & Ha & _). exists a, sign, n. split; [reflexivity|]. split; [exact Ha|]. split; assumption.
Qed.

Definition HOLDS (s : string) (args : list val) : Prop :=
  J.judge (bytes_of_string s) args (run (bytes_of_string s) args) <> JSkip ->
  J.judge (bytes_of_string s) args (run (bytes_of_string s) args) = JOk.

(** * offsets *)
Lemma all_east args : HOLDS "z.east" args.
Proof.
  intros H. destruct (j_int_dom in_i32 (fun s out => judge_eq (if J.off_ok s then VSome (VInt s) else VNone) out) args _ H)
    as (s & -> & Hs). apply holds_east. exact Hs.
Qed.
Lemma all_west args : HOLDS "z.west" args.
Proof.
  intros H. destruct (j_int_dom in_i32 (fun s out => judge_eq (if J.off_ok s then VSome (VInt (- s)) else VNone) out) args _ H)
    as (s & -> & Hs). apply holds_west. exact Hs.
Qed.
Lemma all_peast args : HOLDS "z.peast" args.
Proof.
  intros H. destruct (j_int_dom in_i32 (fun s out => judge_eq (if J.off_ok s then VInt s else VPanic) out) args _ H)
    as (s & -> & Hs). apply holds_peast. exact Hs.
Qed.
Lemma all_pwest args : HOLDS "z.pwest" args.
Proof.
  intros H. destruct (j_int_dom in_i32 (fun s out => judge_eq (if J.off_ok s then VInt (- s) else VPanic) out) args _ H)
    as (s & -> & Hs). apply holds_pwest. exact Hs.
Qed.
Lemma all_uml args : HOLDS "z.uml" args.
Proof.
  intros H. destruct (j_int_dom J.off_ok (fun s out => judge_eq (VTup [VInt (- s); VInt s]) out) args _ H)
    as (s & -> & Hs). apply holds_uml. exact Hs.
Qed.

(** * construction from an offset and a naive reading *)
Lemma all_fromlocal args : HOLDS "z.fromlocal" args.
Proof.
  intros H. destruct (j_on_dom (fun off l f out => judge_eq (J.exp_mlt_z (l - off) f off) out) args _ H)
    as (off & n & -> & Ho & Hn). apply holds_fromlocal; assumption.
Qed.
Lemma all_fromutc args : HOLDS "z.fromutc" args.
Proof.
  intros H. destruct (j_on_dom (fun off u f out => judge_eq (J.enc_z u f off) out) args _ H)
    as (off & n & -> & Ho & Hn). apply holds_fromutc; assumption.
Qed.
Lemma all_mk args : HOLDS "z.mk" args.
Proof.
  intros H. destruct (j_on_dom (fun off u f out => judge_eq (VTup [J.enc_z u f off; VInt off; J.enc_z u f off]) out) args _ H)
    as (off & n & -> & Ho & Hn). apply holds_mk; assumption.
Qed.
Lemma all_pfromlocal args : HOLDS "z.pfromlocal" args.
Proof.
  intros H.
  destruct (j_on_dom (fun off l f out => judge_eq (if J.in_rng (l - off) then J.enc_z (l - off) f off else VPanic) out) args _ H)
    as (off & n & -> & Ho & Hn). apply holds_pfromlocal; assumption.
Qed.

(** * one date-time *)
Ltac z1_tac g lem :=
  let H := fresh "H" in let a := fresh "a" in let Ha := fresh "Ha" in
  intros H; destruct (z1_dom g _ _ H) as (a & -> & Ha); apply lem; exact Ha.
Lemma all_nutc args : HOLDS "z.nutc" args.
Proof. z1_tac (fun (u f _ : Z) => J.enc_naive u f) holds_nutc. Qed.
Lemma all_nlocal args : HOLDS "z.nlocal" args.
Proof. z1_tac (fun (u f off : Z) => if J.in_rng (u + off) then J.enc_naive (u + off) f else VPanic) holds_nlocal. Qed.
Lemma all_acc args : HOLDS "z.acc" args.
Proof. z1_tac (fun (u f off : Z) => J.exp_acc (u + off) f) holds_acc. Qed.
Lemma all_time args : HOLDS "z.time" args.
Proof. z1_tac (fun (u f off : Z) => VTup [VInt ((u + off) mod J.DAY); VInt f]) holds_time. Qed.
Lemma all_datenaive args : HOLDS "z.datenaive" args.
Proof.
  z1_tac (fun (u f off : Z) => if J.in_rng (u + off)
            then let '(y, o) := yo_of_dn ((u + off) / J.DAY) in VTup [VInt y; VInt o] else VPanic) holds_datenaive.
Qed.
Lemma all_fixed args : HOLDS "z.fixed" args.
Proof. z1_tac J.enc_z holds_fixed. Qed.
Lemma all_toutc args : HOLDS "z.toutc" args.
Proof. z1_tac (fun (u f _ : Z) => J.enc_z u f 0) holds_toutc. Qed.
Lemma all_conv args : HOLDS "z.conv" args.
Proof. z1_tac (fun (u f _ : Z) => VTup [J.enc_z u f 0; J.enc_z u f 0]) holds_conv. Qed.
Lemma all_prov args : HOLDS "z.prov" args.
Proof. z1_tac (fun (u _ off : Z) => J.exp_prov (u + off)) holds_prov. Qed.

(** * two date-times *)
Ltac z2_tac g lem :=
  let H := fresh "H" in let a := fresh "a" in let b := fresh "b" in let Ha := fresh "Ha" in let Hb := fresh "Hb" in
  intros H; destruct (z2_dom g _ _ H) as (a & b & -> & Ha & Hb); apply lem; assumption.
Lemma all_eq args : HOLDS "z.eq" args.
Proof. z2_tac (fun (p q : Z * Z) (o : val) => judge_eq (val_of_bool (J.inst_eqb p q)) o) holds_eq. Qed.
Lemma all_cmp args : HOLDS "z.cmp" args.
Proof. z2_tac (fun (p q : Z * Z) (o : val) => judge_eq (VInt (J.inst_cmp p q)) o) holds_cmp. Qed.
Lemma all_hasheq args : HOLDS "z.hasheq" args.
Proof.
  z2_tac (fun (p q : Z * Z) (o : val) =>
    if J.inst_eqb p q then judge_eq (VInt 1) o else J.judge_either (VInt 0) (VInt 1) o) holds_hasheq.
Qed.
Lemma all_pcmp args : HOLDS "z.pcmp" args.
Proof. z2_tac (fun (p q : Z * Z) (o : val) => judge_eq (J.exp_pcmp p q) o) holds_pcmp. Qed.

(** * a date-time and an offset *)
Lemma all_withtz args : HOLDS "z.withtz" args.
Proof.
  intros H. destruct args as [|v [|o [|? ?]]]; try (exfalso; apply H; reflexivity).
  assert (D : match J.z_of_arg v, J.off_of_arg o with Some _, Some _ => True | _, _ => False end).
  { destruct (J.z_of_arg v) as [[[u f] off]|] eqn:E; [|exfalso; apply H].
    - destruct (J.off_of_arg o) as [off2|] eqn:E2; [exact I|exfalso; apply H].
      change (J.judge (bytes_of_string "z.withtz") [v; o] (run (bytes_of_string "z.withtz") [v; o])) with
        (match J.z_of_arg v, J.off_of_arg o with
         | Some (u, f, _), Some off2 => judge_eq (J.enc_z u f off2) (run (bytes_of_string "z.withtz") [v; o])
         | _, _ => JSkip end). rewrite E, E2. reflexivity.
    - change (J.judge (bytes_of_string "z.withtz") [v; o] (run (bytes_of_string "z.withtz") [v; o])) with
        (match J.z_of_arg v, J.off_of_arg o with
         | Some (u, f, _), Some off2 => judge_eq (J.enc_z u f off2) (run (bytes_of_string "z.withtz") [v; o])
         | _, _ => JSkip end). rewrite E. reflexivity. }
  destruct (J.z_of_arg v) as [[[u f] off]|] eqn:E; [|contradiction].
  destruct (J.off_of_arg o) as [off2|] eqn:E2; [|contradiction].
  destruct (z_inv v u f off E) as (a & -> & Ha & _). destruct (off_inv o off2 E2) as [-> Ho].
  apply holds_withtz; assumption.
Qed.

(** * day and month stepping *)
Lemma all_days args : HOLDS "z.days" args.
Proof.
  intros H.
  destruct (j_sgn_dom in_u64 (fun u f off sign n out => J.moved VSome VNone u off (u + off + sign * n * J.DAY) f out) args _ H)
    as (a & sign & n & -> & Ha & Hs & Hn). apply holds_days; assumption.
Qed.
Lemma all_opdays args : HOLDS "z.opdays" args.
Proof.
  intros H.
  destruct (j_sgn_dom in_u64 (fun u f off sign n out => J.moved (fun v => v) VPanic u off (u + off + sign * n * J.DAY) f out) args _ H)
    as (a & sign & n & -> & Ha & Hs & Hn). apply holds_opdays; assumption.
Qed.
Lemma all_months args : HOLDS "z.months" args.
Proof.
  intros H.
  destruct (j_sgn_dom in_u32 (fun u f off sign n out =>
      let w := u + off in
      let '(y, m, d) := ymd_of_dn (w / J.DAY) in
      let tot := y * 12 + (m - 1) + sign * n in
      let y' := tot / 12 in let m' := tot mod 12 + 1 in
      let d' := Z.min d (days_in_month (is_leap y') m') in
      J.moved VSome VNone u off (dn_of_ymd y' m' d' * J.DAY + w mod J.DAY) f out) args _ H)
    as (a & sign & n & -> & Ha & Hs & Hn). apply holds_months; assumption.
Qed.
Lemma all_opmonths args : HOLDS "z.opmonths" args.
Proof.
  intros H.
  destruct (j_sgn_dom in_u32 (fun u f off sign n out =>
      let w := u + off in
      let '(y, m, d) := ymd_of_dn (w / J.DAY) in
      let tot := y * 12 + (m - 1) + sign * n in
      let y' := tot / 12 in let m' := tot mod 12 + 1 in
      let d' := Z.min d (days_in_month (is_leap y') m') in
      J.moved (fun v => v) VPanic u off (dn_of_ymd y' m' d' * J.DAY + w mod J.DAY) f out) args _ H)
    as (a & sign & n & -> & Ha & Hs & Hn). apply holds_opmonths; assumption.
Qed.

(** * setters *)
Definition j_with (args : list val) (out : val) : verdict :=
  match args with
  | [VInt field; a; VInt x] =>
      match J.z_of_arg a with
      | Some (u, f, off) =>
          if (0 <=? field) && (field <=? 10) && (if field =? 0 then in_i32 x else in_u32 x) then
            match J.replace_field field (u + off) f x with
            | Some (w', f') => J.moved VSome VNone u off w' f' out
            | None => judge_eq VNone out
            end
          else JSkip
      | None => JSkip end
  | _ => JSkip end.
Lemma j_with_dom args out : j_with args out <> JSkip ->
  exists field a x, args = [VInt field; enc_dtz a; VInt x] /\ dtz_ok a /\
    (0 <=? field) && (field <=? 10) && (if field =? 0 then in_i32 x else in_u32 x) = true.
Proof.
  unfold j_with. destruct args as [|[field| | | | | | | |] [|v [|[x| | | | | | | |] [|? ?]]]]; try skip_case.
  destruct (J.z_of_arg v) as [[[u f] off]|] eqn:E; [|skip_case].
  destruct ((0 <=? field) && (field <=? 10) && (if field =? 0 then in_i32 x else in_u32 x)) eqn:E2; [|skip_case]. intros _.
  destruct (z_inv v u f off E) as (a & -> & Ha & _). exists field, a, x. split; [reflexivity|]. split; assumption.
Qed.
Lemma all_with args : HOLDS "z.with" args.
Proof.
  intros H. destruct (j_with_dom args _ H) as (field & a & x & -> & Ha & Hd). apply holds_with; assumption.
Qed.

Definition j_withtime (args : list val) (out : val) : verdict :=
  match args with
  | [a; t] => match J.z_of_arg a, J.time_of_arg t with
              | Some (u, _, off), Some (s, f') =>
                  J.moved (fun v => VTup [v]) (VTup []) u off ((u + off) / J.DAY * J.DAY + s) f' out
              | _, _ => JSkip end
  | _ => JSkip end.
Lemma j_withtime_dom args out : j_withtime args out <> JSkip ->
  exists a t, args = [enc_dtz a; Time.enc_time t] /\ dtz_ok a /\ time_ok t.
Proof.
  unfold j_withtime. destruct args as [|v [|w [|? ?]]]; try skip_case.
  destruct (J.z_of_arg v) as [[[u f] off]|] eqn:E; [|skip_case].
  destruct (J.time_of_arg w) as [[s f']|] eqn:E2; [|skip_case]. intros _.
  destruct (z_inv v u f off E) as (a & -> & Ha & _). destruct (time_inv w s f' E2) as (t & -> & Ht & _).
  exists a, t. split; [reflexivity|split; assumption].
Qed.
Lemma all_withtime args : HOLDS "z.withtime" args.
Proof.
  intros H. destruct (j_withtime_dom args _ H) as (a & t & -> & Ha & Ht). apply holds_withtime; assumption.
Qed.

Definition j_ymdhms (args : list val) (out : val) : verdict :=
  match args with
  | [o; VInt y; VInt m; VInt d; VInt h; VInt mi; VInt s] =>
      match J.off_of_arg o with
      | Some off =>
          if in_i32 y && in_u32 m && in_u32 d && in_u32 h && in_u32 mi && in_u32 s then
            if valid_ymd y m d && (h <? 24) && (mi <? 60) && (s <? 60) then
              let u := dn_of_ymd y m d * J.DAY + h * 3600 + mi * 60 + s - off in
              if year_in_range y then judge_eq (J.exp_mlt_z u 0 off) out
              else J.judge_either (VTup []) (J.exp_mlt_z u 0 off) out
            else judge_eq (VTup []) out
          else JSkip
      | None => JSkip end
  | _ => JSkip end.
Lemma j_ymdhms_dom args out : j_ymdhms args out <> JSkip ->
  exists off y m d h mi s, args = [VInt off; VInt y; VInt m; VInt d; VInt h; VInt mi; VInt s] /\ off_ok off /\
    in_i32 y && in_u32 m && in_u32 d && in_u32 h && in_u32 mi && in_u32 s = true.
Proof.
  unfold j_ymdhms.
  destruct args as [|o [|[y| | | | | | | |] [|[m| | | | | | | |] [|[d| | | | | | | |] l]]]]; try skip_case.
  destruct l as [|[h| | | | | | | |] [|[mi| | | | | | | |] [|[s| | | | | | | |] [|? ?]]]]; try skip_case.
  destruct (J.off_of_arg o) as [off|] eqn:E; [|skip_case].
  destruct (in_i32 y && in_u32 m && in_u32 d && in_u32 h && in_u32 mi && in_u32 s) eqn:E2; [|skip_case]. intros _.
  destruct (off_inv o off E) as [-> Ho]. exists off, y, m, d, h, mi, s. split; [reflexivity|]. split; assumption.
Qed.
Lemma all_ymdhms args : HOLDS "z.ymdhms" args.
Proof.
  intros H. destruct (j_ymdhms_dom args _ H) as (off & y & m & d & h & mi & s & -> & Ho & Hd).
  apply holds_ymdhms; assumption.
Qed.

(** * z.show: the domain of the judge's documented text is the side conditions of holds_show *)
Lemma show_dom form v out : Judge.C09.judge_show 3 form v out <> JSkip ->
  exists a, v = enc_dtz a /\ dtz_ok a /\ dz_off a mod 60 = 0 /\
    (frac (dz_utc a) < 1000000000 \/ Time.tsecs (nd_time (dz_utc a)) mod 60 = 59) /\ (form = 0 \/ form = 1).
Proof.
  unfold Judge.C09.judge_show, Judge.C09.spec_text.
  destruct (negb ((form =? 0) || (form =? 1))) eqn:Ef; [skip_case|].
  change (3 =? 0) with false. change (3 =? 1) with false. change (3 =? 2) with false. change (3 =? 3) with true.
  cbn [orb andb]. cbv iota beta.
  destruct v as [| | | |l| | | |]; try skip_case.
  destruct l as [|[y| | | | | | | |] l]; try skip_case.
  destruct l as [|[o| | | | | | | |] l]; try skip_case.
  destruct l as [|[s| | | | | | | |] l]; try skip_case.
  destruct l as [|[f| | | | | | | |] l]; try skip_case.
  destruct l as [|[off| | | | | | | |] l]; try skip_case.
  destruct l; try skip_case.
  destruct (Judge.C09.valid_date y o && Judge.C09.valid_time s f && Judge.C09.valid_offset off && true) eqn:E1; [|skip_case].
  destruct (Judge.C09.time_in_domain s f && (off mod 60 =? 0)) eqn:E2; [|skip_case]. intros _.
  unfold Judge.C09.valid_date, Judge.C09.valid_time, Judge.C09.valid_offset in E1. unfold Judge.C09.time_in_domain in E2.
  destruct (year_in_range y) eqn:Hy; [|discriminate]. destruct (valid_yo y o) eqn:Ho; [|discriminate]. cbn [andb] in E1.
  destruct (canon_ndt y o s f Hy Ho ltac:(lia) ltac:(lia)) as (_ & Hn & _ & Efr & Es & Ez).
  eexists. split; [exact (Ez off)|]. cbn [dz_utc dz_off].
  split; [split; [exact Hn|cbn [dz_off]; unfold off_ok; lia]|]. rewrite Efr, Es. repeat split; lia.
Qed.
Lemma all_show args : HOLDS "z.show" args.
Proof.
  intros H. destruct args as [|v [|[form| | | | | | | |] [|? ?]]]; try (exfalso; apply H; reflexivity).
  assert (D : Judge.C09.judge_show 3 form v (run (bytes_of_string "z.show") [v; VInt form]) <> JSkip) by exact H.
  destruct (show_dom form v _ D) as (a & -> & Ha & Hm & Hl & Hf). apply holds_show; assumption.
Qed.

(** * top level *)
Ltac op_case_at o s lem :=
  destruct (op_is o s) eqn:?;
  [match goal with H : op_is o s = true |- _ => apply hl_op_is_eq in H; subst; apply lem end|].
Tactic Notation "op_case" constr(s) constr(lem) :=
  match goal with o : bytes |- _ => op_case_at o s lem end.

Theorem C04_holds op args :
  J.judge op args (run op args) <> JSkip -> J.judge op args (run op args) = JOk.
Proof.
  op_case "z.east"%string all_east. op_case "z.west"%string all_west. op_case "z.fromlocal"%string all_fromlocal.
  op_case "z.fromutc"%string all_fromutc. op_case "z.nutc"%string all_nutc. op_case "z.show"%string all_show.
  op_case "z.nlocal"%string all_nlocal. op_case "z.acc"%string all_acc. op_case "z.time"%string all_time.
  op_case "z.datenaive"%string all_datenaive. op_case "z.withtz"%string all_withtz. op_case "z.fixed"%string all_fixed.
  op_case "z.toutc"%string all_toutc. op_case "z.eq"%string all_eq. op_case "z.cmp"%string all_cmp.
  op_case "z.hasheq"%string all_hasheq. op_case "z.with"%string all_with. op_case "z.withtime"%string all_withtime.
  op_case "z.days"%string all_days. op_case "z.months"%string all_months. op_case "z.ymdhms"%string all_ymdhms.
  op_case "z.opmonths"%string all_opmonths. op_case "z.opdays"%string all_opdays. op_case "z.conv"%string all_conv.
  op_case "z.pcmp"%string all_pcmp. op_case "z.uml"%string all_uml. op_case "z.prov"%string all_prov.
  op_case "z.peast"%string all_peast. op_case "z.pwest"%string all_pwest. op_case "z.mk"%string all_mk.
  op_case "z.pfromlocal"%string all_pfromlocal.
  intros H. exfalso. apply H. unfold J.judge.
  repeat match goal with E : op_is _ _ = false |- _ => rewrite E; clear E end. reflexivity.
Qed.

Corollary C04_never_bad op args : not_bad (J.judge op args (run op args)).
Proof. apply hl_never_bad. apply C04_holds. Qed.

(** the statement is not vacuous: both the in-domain and the open-class verdicts occur *)
Lemma holds_examples :
  J.judge (bytes_of_string "z.days") [enc_dtz z_max_p2h; VInt 1; VInt 1] (run (bytes_of_string "z.days") [enc_dtz z_max_p2h; VInt 1; VInt 1]) = JOk /\
  run (bytes_of_string "z.days") [enc_dtz z_max_p2h; VInt 1; VInt 1] = VNone /\
  J.judge (bytes_of_string "z.days") [enc_dtz z_max_p2h; VInt 1; VInt 1] (VSome (VInt 0)) <> JSkip /\
  J.judge (bytes_of_string "z.with") [VInt 0; enc_dtz z_min_m2h; VInt 1970] (run (bytes_of_string "z.with") [VInt 0; enc_dtz z_min_m2h; VInt 1970]) = JOk.
Proof.
  split; [apply holds_days; [exact (proj1 z_max_ok)|reflexivity|reflexivity]|].
  split; [vm_compute; reflexivity|]. split; [vm_compute; discriminate|].
  apply holds_with; [exact (proj1 z_min_ok)|reflexivity].
Qed.
Lemma moved_hyps_inhabited :
  dtz_ok z_max_p2h /\ (1 =? 1) || (1 =? -1) = true /\ (-1 =? 1) || (-1 =? -1) = true /\ in_u64 18446744073709551615 = true /\
  in_u32 4294967295 = true /\ time_ok noon /\ off_ok (-86399) /\
  (0 <=? 10) && (10 <=? 10) && (if 10 =? 0 then in_i32 1999999999 else in_u32 1999999999) = true /\
  in_i32 (-262144) && in_u32 12 && in_u32 31 && in_u32 23 && in_u32 59 && in_u32 59 = true.
Proof.
  split; [exact (proj1 z_max_ok)|]. split; [reflexivity|]. split; [reflexivity|]. split; [reflexivity|].
  split; [reflexivity|]. split; [unfold time_ok, noon; cbn [Time.tsecs Time.tfrac]; lia|].
  split; [unfold off_ok; lia|]. split; reflexivity.
Qed.
