(** The footer check of the reader against the calendar oracle, in both directions: inside the
    premise [footer_dom] (the last transition time and its leap-corrected value are i64 values
    and, for an alternating rule, the premise [rule_hyps] of property C05 holds there) the
    reader's [footer_consistent] is true exactly when the last transition's local time type is
    the type the rule has by the oracle of Spec/Zone.v ([footer_matches]).
    [footer_agrees] (Proofs/TzFooterSpec.v) is [footer_dom] together with [footer_matches]. *)
From Coq Require Import ZArith List Bool Lia ZifyBool.
From V Require Import Base.Int Base.IO Base.IntLemmas Gen.TzInfo.
From V Require Import Spec.Gregorian Spec.Zone.
From V Require Import Model.TzParser Model.TzRule Spec.TzWriter.
From V Require Import Proofs.TzCommon Proofs.TzRoundtrip Proofs.TzWriterRoundtrip Proofs.TzWriterFull Proofs.C16.
From V Require Import Proofs.C05Spec Proofs.C05Rule Proofs.TzFooterSpec.
Import ListNotations.
Open Scope Z_scope.
Ltac Zify.zify_post_hook ::= Z.to_euclidean_division_equations.

Definition footer_u (z : timezone) (last : transition) : Z :=
  tr_time last - corr_before (leap_seconds z) (tr_time last) 0.
Definition footer_dom (z : timezone) : Prop :=
  match extra_rule z, last_of (transitions z) with
  | Some rule, Some last =>
      -9223372036854775808 < tr_time last <= 9223372036854775807 /\ in_i64 (footer_u z last) = true /\
      match rule with Fixed _ => True | Alternate a => rule_hyps a (footer_u z last) end
  | _, _ => True
  end.
Definition oracle_type (rule : trule) (u : Z) : ltt :=
  match rule with
  | Fixed l => l
  | Alternate a => if rule_is_dst (conv_rule a) u then a_dst a else a_std a
  end.
Definition footer_matches (z : timezone) : Prop :=
  match extra_rule z, last_of (transitions z) with
  | Some rule, Some last =>
      index (local_time_types z) (tr_idx last) = Val (oracle_type rule (footer_u z last))
  | _, _ => True
  end.

Lemma ltt_check_eq a b :
  (ut_offset a =? ut_offset b) && Bool.eqb (is_dst a) (is_dst b) && opt_bytes_eqb (name a) (name b) = true -> a = b.
Proof.
  intros H. apply andb_prop in H. destruct H as [H H3]. apply andb_prop in H. destruct H as [H1 H2].
  destruct a as [o1 d1 n1], b as [o2 d2 n2]. cbn [ut_offset is_dst name] in *.
  apply Z.eqb_eq in H1. apply eqb_prop in H2. subst. f_equal.
  destruct n1 as [x|], n2 as [y|]; cbn [opt_bytes_eqb] in H3; try discriminate; [|reflexivity].
  f_equal. apply bytes_eqb_eq. exact H3.
Qed.

Lemma rule_eval_oracle rule u :
  match rule with Fixed _ => True | Alternate a => rule_hyps a u end ->
  rule_find_local_time_type rule u = Val (Ok (oracle_type rule u)).
Proof.
  destruct rule as [l|a]; [reflexivity|]. intros (Ha & Htr & Hs & Hd & P2 & P1 & P0 & Pn & Hreg).
  cbn [rule_find_local_time_type oracle_type].
  pose proof (rule_offset_spec a _ Ha Htr) as Hspec. cbv zeta in Hspec.
  exact (Hspec Hs Hd P2 P1 P0 Pn Hreg).
Qed.

Theorem footer_consistent_iff z : leaps_spaced (leap_seconds z) -> zlen (leap_seconds z) <= 4294967295 ->
  footer_dom z -> (footer_consistent z = true <-> footer_matches z).
Proof.
  intros Hsp Hlen Hdom. unfold footer_dom, footer_matches, footer_consistent in *.
  destruct (extra_rule z) as [rule|]; [|tauto].
  destruct (last_of (transitions z)) as [last|]; [|tauto].
  destruct Hdom as (Ht & Hu & Hr). unfold footer_u in *.
  rewrite unix_leap_exact; [|apply leaps_spaced_increasing; exact Hsp|exact Hlen|exact Ht|exact Hu].
  unfold ok. rewrite (rule_eval_oracle rule _ Hr).
  destruct (index (local_time_types z) (tr_idx last)) as [l| |].
  - split.
    + intros H. apply ltt_check_eq in H. rewrite H. reflexivity.
    + intros H. injection H as ->. apply ltt_check_refl.
  - split; discriminate.
  - split; discriminate.
Qed.

Lemma footer_agrees_split z : footer_agrees z <-> footer_dom z /\ footer_matches z.
Proof.
  unfold footer_agrees, footer_dom, footer_matches, footer_u, oracle_type.
  destruct (extra_rule z) as [rule|]; [|tauto].
  destruct (last_of (transitions z)) as [last|]; [|tauto].
  cbv zeta. destruct rule as [l|a]; tauto.
Qed.
