(** C05, full-strength forms:
    - instant -> offset on COMPOSITE zones (table + footer) for every instant including the last
      table transition itself and without assuming that table and footer agree there
      ([offset_at_composite_full], [offset_at_composite_fixed]);
    - wall clock -> candidates for a POSIX rule for EVERY year argument and EVERY wall-clock second:
      what the code returns as a pure function ([rule_local_total]), its relation to the
      transition-table scan on every second ([rule_answer_table]), and against the oracle: every
      instant of S(l) is among the candidates on EVERY second, the candidates are exactly S(l) off
      the excepted seconds ([rule_zone_every_second]); the premise on the years cannot be dropped
      ([rule_premise_refuted]). *)
From Coq Require Import ZArith List Bool Lia ZifyBool String.
From V Require Import Base.Int Base.IO Base.IntLemmas Gen.TzInfo Spec.Gregorian Spec.Zone.
From V Require Import Model.TzParser Model.TzRule Model.TzLookup.
From V Require Import Proofs.TzCommon Proofs.TzEval Proofs.C05 Proofs.C05Composite Proofs.C05Wide.
Import ListNotations.
Open Scope Z_scope.

(** * Instant -> offset on a composite zone, every instant *)
(* the oracle without any continuity assumption: at the last transition itself it answers only when
   table and rule agree *)
Lemma zone_off_composite_any first tr r tl pv ol t :
  increasing tr = true -> last_window tr first = Some (tl, pv, ol) ->
  zone_off (mk_szone first tr (Some (inr r))) t =
  if t <? tl then Some (table_off tr first t)
  else if t =? tl then (if ol =? roff r tl then Some ol else None)
  else Some (roff r t).
Proof.
  intros Hinc Hlw. unfold zone_off. cbn [z_trans z_rule z_first rule_off].
  rewrite (last_window_last_trans _ _ _ _ _ Hlw). fold (roff r t).
  destruct (tl <? t) eqn:E1.
  - replace (t <? tl) with false by lia. replace (t =? tl) with false by lia. reflexivity.
  - destruct (t =? tl) eqn:E2.
    + replace (t <? tl) with false by lia. assert (t = tl) by lia. subst t.
      rewrite (proj2 (last_window_after _ _ _ _ _ Hinc Hlw) tl (Z.le_refl _)). reflexivity.
    + replace (t <? tl) with true by lia. reflexivity.
Qed.

Lemma model_last z ps first tl pv ol : table_zone z ps first ->
  last_window (offs ps) (ut_offset first) = Some (tl, pv, ol) ->
  exists lst, last_of (transitions z) = Some lst /\ tr_time lst = tl.
Proof.
  intros Hz Hlw. pose proof (last_window_last_trans _ _ _ _ _ Hlw) as H.
  rewrite last_trans_last_of, offs_fst, <- (resolved_times _ _ _ (tz_res _ _ _ Hz)), last_of_map in H.
  destruct (last_of (transitions z)) as [lst|]; [|discriminate]. injection H as H. exists lst. auto.
Qed.

(* the code: the table (binary search) strictly before the last transition, the rule from it on;
   against the oracle: the prescribed offset wherever the standards prescribe one, and at the last
   transition instant, when table and footer disagree there (the oracle is silent), the rule's *)
Theorem offset_at_composite_full z ps first a tl pv ol t :
  let r := conv_rule a in
  let cz := mk_szone (ut_offset first) (offs ps) (Some (inr r)) in
  table_zone z ps first -> leap_seconds z = [] -> extra_rule z = Some (Alternate a) ->
  increasing (offs ps) = true -> zlen (transitions z) < 4611686018427387904 ->
  last_window (offs ps) (ut_offset first) = Some (tl, pv, ol) ->
  (tl <= t -> rule_hyps a t) ->
  exists lt, find_local_time_type z t = Val (Ok lt) /\
    ut_offset lt = (if t <? tl then table_off (offs ps) (ut_offset first) t else roff r t) /\
    (zone_off cz t = Some (ut_offset lt) \/
     (t = tl /\ zone_off cz t = None /\ ol <> roff r tl)).
Proof.
  intros r cz Hz Hleap Hr Hinc Hlen Hlw Hrule.
  unfold cz. rewrite (zone_off_composite_any _ _ _ _ _ _ t Hinc Hlw).
  destruct (model_last z ps first tl pv ol Hz Hlw) as (lst & Hlst & Htl).
  destruct (t <? tl) eqn:E.
  - destruct (find_local_time_type_table z ps first t Hz Hleap Hinc Hlen) as (lt & H1 & H2).
    { right. exists lst. split; [exact Hlst|lia]. }
    exists lt. split; [exact H1|]. split; [exact H2|]. left. rewrite H2. reflexivity.
  - rewrite (offset_at_rule z a t Hleap Hr).
    + eexists. split; [reflexivity|].
      assert (Eo : ut_offset (if rule_is_dst (conv_rule a) t then a_dst a else a_std a) = roff r t).
      { unfold roff. fold r. destruct (rule_is_dst r t); reflexivity. }
      split; [exact Eo|]. rewrite Eo.
      destruct (t =? tl) eqn:E2; [|left; reflexivity].
      assert (t = tl) by lia. subst t.
      destruct (ol =? roff r tl) eqn:E3; [left; f_equal; lia|right]. split; [reflexivity|]. split; [reflexivity|lia].
    + right. exists lst. split; [exact Hlst|lia].
    + apply Hrule. lia.
Qed.

(* a table followed by a FIXED footer: no hypothesis on the footer at all *)
Lemma zone_off_fixed_any first tr o tl pv ol t :
  increasing tr = true -> last_window tr first = Some (tl, pv, ol) ->
  zone_off (mk_szone first tr (Some (inl o))) t =
  if t <? tl then Some (table_off tr first t)
  else if t =? tl then (if ol =? o then Some ol else None)
  else Some o.
Proof.
  intros Hinc Hlw. unfold zone_off. cbn [z_trans z_rule z_first rule_off].
  rewrite (last_window_last_trans _ _ _ _ _ Hlw).
  destruct (tl <? t) eqn:E1.
  - replace (t <? tl) with false by lia. replace (t =? tl) with false by lia. reflexivity.
  - destruct (t =? tl) eqn:E2.
    + replace (t <? tl) with false by lia. assert (t = tl) by lia. subst t.
      rewrite (proj2 (last_window_after _ _ _ _ _ Hinc Hlw) tl (Z.le_refl _)). reflexivity.
    + replace (t <? tl) with true by lia. reflexivity.
Qed.

Theorem offset_at_composite_fixed z ps first f tl pv ol t :
  let cz := mk_szone (ut_offset first) (offs ps) (Some (inl (ut_offset f))) in
  table_zone z ps first -> leap_seconds z = [] -> extra_rule z = Some (Fixed f) ->
  increasing (offs ps) = true -> zlen (transitions z) < 4611686018427387904 ->
  last_window (offs ps) (ut_offset first) = Some (tl, pv, ol) ->
  exists lt, find_local_time_type z t = Val (Ok lt) /\
    ut_offset lt = (if t <? tl then table_off (offs ps) (ut_offset first) t else ut_offset f) /\
    (zone_off cz t = Some (ut_offset lt) \/
     (t = tl /\ zone_off cz t = None /\ ol <> ut_offset f)).
Proof.
  intros cz Hz Hleap Hr Hinc Hlen Hlw.
  unfold cz. rewrite (zone_off_fixed_any _ _ _ _ _ _ t Hinc Hlw).
  destruct (model_last z ps first tl pv ol Hz Hlw) as (lst & Hlst & Htl).
  destruct (t <? tl) eqn:E.
  - destruct (find_local_time_type_table z ps first t Hz Hleap Hinc Hlen) as (lt & H1 & H2).
    { right. exists lst. split; [exact Hlst|lia]. }
    exists lt. split; [exact H1|]. split; [exact H2|]. left. rewrite H2. reflexivity.
  - exists f. split.
    + unfold find_local_time_type. rewrite Hlst, Hr. unfold unix_time_to_unix_leap_time. rewrite Hleap.
      cbn [leap_loop oor_to rbind]. replace (t >=? tr_time lst) with true by lia.
      cbn [rule_find_local_time_type]. reflexivity.
    + split; [reflexivity|].
      destruct (t =? tl) eqn:E2; [|left; reflexivity].
      assert (t = tl) by lia. subst t.
      destruct (ol =? ut_offset f) eqn:E3; [left; f_equal; lia|right]. split; [reflexivity|]. split; [reflexivity|lia].
Qed.

(* table and footer can disagree at the last transition only in a zone the reader rejects
   (TimeZoneRef::validate, C16); at the level of the lookup the second alternative is inhabited *)
Definition disag_zone : timezone :=
  mk_tz [mk_tr 1704060000 1] [ex_cet; ex_cest] [] (Some (Alternate exc_rule)).
Definition disag_ps : list (Z * ltt) := [(1704060000, ex_cest)].
Lemma disag_facts :
  table_zone disag_zone disag_ps ex_cet /\ leap_seconds disag_zone = [] /\
  last_window (offs disag_ps) (ut_offset ex_cet) = Some (1704060000, 3600, 7200) /\
  rule_hyps exc_rule 1704060000 /\
  zone_off (mk_szone (ut_offset ex_cet) (offs disag_ps) (Some (inr (conv_rule exc_rule)))) 1704060000 = None /\
  roff (conv_rule exc_rule) 1704060000 = 3600 /\
  find_local_time_type disag_zone 1704060000 = Val (Ok ex_cet) /\
  find_local_time_type disag_zone 1704059999 = Val (Ok ex_cet) /\
  rule_hyps exc_rule 1698541200 /\
  zone_off exc_cz 1698541200 = Some 3600 /\ find_local_time_type exc_zone 1698541200 = Val (Ok ex_cet).
Proof.
  split.
  - constructor; [reflexivity|repeat constructor| |unfold o_ok; cbn; lia].
    repeat constructor; cbn; unfold t_ok, o_ok; cbn; lia.
  - split; [reflexivity|]. split; [reflexivity|].
    assert (H : forall t, -1000000000000000 <= t <= 1000000000000000 ->
       (let r := conv_rule exc_rule in let y := utc_year t in
        premise_year r (y - 2) && premise_year r (y - 1) && premise_year r y && premise_year r (y + 1) &&
        Bool.eqb (rule_start_utc r (y - 1) <? rule_end_utc r (y - 1)) (rule_start_utc r y <? rule_end_utc r y)) = true ->
       rule_hyps exc_rule t).
    { intros t Ht Hb. cbv zeta in Hb. unfold rule_hyps. cbv zeta.
      apply andb_prop in Hb. destruct Hb as [Hb H5]. apply andb_prop in Hb. destruct Hb as [Hb H4].
      apply andb_prop in Hb. destruct Hb as [Hb H3]. apply andb_prop in Hb. destruct Hb as [H1 H2].
      split; [exact exc_alt_ok|]. split; [exact Ht|]. split; [cbn; lia|]. split; [cbn; lia|].
      repeat (split; [assumption|]). apply Bool.eqb_prop. exact H5. }
    split; [apply H; [lia|vm_compute; reflexivity]|].
    split; [vm_compute; reflexivity|]. split; [vm_compute; reflexivity|].
    split; [vm_compute; reflexivity|]. split; [vm_compute; reflexivity|].
    split; [apply H; [lia|vm_compute; reflexivity]|].
    split; vm_compute; reflexivity.
Qed.

(** * POSIX rules, wall clock -> candidates: EVERY year argument, EVERY wall-clock second *)
(* what AlternateTime::find_local_time_type_from_local returns, as a pure function of the four
   wall-clock readings of the year's two transitions: Ss / Se = the start of daylight time read on
   the standard / daylight clock, Es / Ee = its end read on the daylight / standard clock
   (dst_start_transition_start/_end, dst_end_transition_start/_end of the Rust) *)
Definition rule_answer_of (std dst : ltt) (Ss Se Es Ee l : Z) : mlt ltt :=
  match ut_offset std ?= ut_offset dst with
  | Eq => MSingle std
  | Lt =>
      if Ss <? Es then
        if l <=? Ss then MSingle std
        else if (l >? Ss) && (l <? Se) then MNone
        else if (l >=? Se) && (l <? Ee) then MSingle dst
        else if (l >=? Ee) && (l <=? Es) then MAmbiguous dst std
        else MSingle std
      else
        if l <? Ee then MSingle dst
        else if (l >=? Ee) && (l <=? Es) then MAmbiguous dst std
        else if (l >? Ee) && (l <? Ss) then MSingle std
        else if (l >=? Ss) && (l <? Se) then MNone
        else MSingle dst
  | Gt =>
      if Ss <? Es then
        if l <? Se then MSingle std
        else if (l >=? Se) && (l <=? Ss) then MAmbiguous std dst
        else if (l >? Ss) && (l <? Es) then MSingle dst
        else if (l >=? Es) && (l <? Ee) then MNone
        else MSingle std
      else
        if l <=? Es then MSingle dst
        else if (l >? Es) && (l <? Ee) then MNone
        else if (l >=? Ee) && (l <? Se) then MSingle std
        else if (l >=? Se) && (l <=? Ss) then MAmbiguous std dst
        else MSingle dst
  end.
Definition rule_answer (a : alt_time) (y l : Z) : mlt ltt :=
  let r := conv_rule a in
  let S := rule_start_utc r y in let E := rule_end_utc r y in
  let std := ut_offset (a_std a) in let dst := ut_offset (a_dst a) in
  rule_answer_of (a_std a) (a_dst a) (S + std) (S + dst) (E + dst) (E + std) l.

(* for EVERY rule the reader can produce, EVERY year argument an i32 can hold and EVERY reading: no
   trap, no error, and the answer is [rule_answer] *)
Theorem rule_local_total a y l : alt_ok a -> -2147483650 <= y <= 2147483650 ->
  alt_find_local_time_type_from_local a y l = Val (Ok (rule_answer a y l)).
Proof.
  intros (Hs & Hd & Hds & Hde & Hst & Het) Hy.
  pose proof (ltt_ok_off _ Hs) as Hso. pose proof (ltt_ok_off _ Hd) as Hdo.
  unfold alt_find_local_time_type_from_local, rule_answer.
  rewrite !rule_unix_time_eq by (assumption || lia).
  cbv [bind]. cbv zeta.
  set (r := conv_rule a).
  assert (ES : (rday_dn y (conv_day (dst_start a)) - EPOCH_DN) * 86400 + 0 + dst_start_time a
               = rule_start_utc r y + ut_offset (a_std a)).
  { unfold rule_start_utc, r, conv_rule. cbn [r_start r_start_time r_std]. lia. }
  assert (EE : (rday_dn y (conv_day (dst_end a)) - EPOCH_DN) * 86400 + 0 + dst_end_time a
               = rule_end_utc r y + ut_offset (a_dst a)).
  { unfold rule_end_utc, r, conv_rule. cbn [r_end r_end_time r_dst]. lia. }
  assert (BS : -70000000000000000 <= rule_start_utc r y <= 70000000000000000).
  { destruct (rule_unix_time_spec (dst_start a) y (dst_start_time a - ut_offset (a_std a)) Hds Hy ltac:(lia)) as (v & Hv & Hb).
    rewrite rule_unix_time_eq in Hv by (assumption || lia). injection Hv as <-.
    unfold rule_start_utc, r, conv_rule. cbn [r_start r_start_time r_std]. lia. }
  assert (BE : -70000000000000000 <= rule_end_utc r y <= 70000000000000000).
  { destruct (rule_unix_time_spec (dst_end a) y (dst_end_time a - ut_offset (a_dst a)) Hde Hy ltac:(lia)) as (v & Hv & Hb).
    rewrite rule_unix_time_eq in Hv by (assumption || lia). injection Hv as <-.
    unfold rule_end_utc, r, conv_rule. cbn [r_end r_end_time r_dst]. lia. }
  unfold_ops.
  set (S := rule_start_utc r y) in *. set (E := rule_end_utc r y) in *.
  set (std := ut_offset (a_std a)) in *. set (dst := ut_offset (a_dst a)) in *.
  replace ((rday_dn y (conv_day (dst_start a)) - EPOCH_DN) * 86400 + 0) with (S + std - dst_start_time a) by lia.
  replace ((rday_dn y (conv_day (dst_end a)) - EPOCH_DN) * 86400 + 0) with (E + dst - dst_end_time a) by lia.
  repeat chk_next'.
  replace (S + std - dst_start_time a + dst_start_time a) with (S + std) by lia.
  replace (E + dst - dst_end_time a + dst_end_time a) with (E + dst) by lia.
  replace (S + std + dst - std) with (S + dst) by lia.
  replace (E + dst + std - dst) with (E + std) by lia.
  unfold rule_answer_of. fold std dst.
  destruct (std ?= dst); [reflexivity| |];
    repeat match goal with |- context [if ?c then _ else _] => destruct c end; reflexivity.
Qed.

(* against the transition-table scan over the year's two transitions, on EVERY second: the same
   answer, except on the first second of a skipped interval at the year's SECOND transition, where
   the rule code says None and the scan Single(type before) (the property excepts that second; None
   is the oracle's answer there) *)
Theorem rule_answer_table a y l : ut_offset (a_std a) <> ut_offset (a_dst a) ->
  let '(ps, first) := year_table a y in
  ordered (windows (offs ps) (ut_offset first)) = true ->
  rule_answer a y l = table_answer ps first l \/
  (rule_answer a y l = MNone /\
   exists t1 x t2 w, ps = [(t1, x); (t2, w)] /\ ut_offset x < ut_offset w /\ l = t2 + ut_offset x /\
                     table_answer ps first l = MSingle x).
Proof.
  intros Hne. unfold year_table, rule_answer. cbv zeta.
  set (r := conv_rule a). set (S := rule_start_utc r y). set (E := rule_end_utc r y).
  set (std := ut_offset (a_std a)) in *. set (dst := ut_offset (a_dst a)) in *.
  unfold rule_answer_of. fold std dst.
  destruct (S + std <? E + dst) eqn:Hn; cbn [offs map fst snd windows ordered]; fold std dst;
    intros Hord; unfold table_answer; cbn [scanL]; fold std dst.
  - destruct (Z.compare_spec std dst) as [Hc|Hc|Hc]; [contradiction| |].
    + replace (S + std ?= S + dst) with Lt by (symmetry; apply Z.compare_lt_iff; lia).
      replace (E + dst ?= E + std) with Gt by (symmetry; apply Z.compare_gt_iff; lia).
      left. repeat match goal with |- context [if ?c then _ else _] => destruct c eqn:? end; try reflexivity; exfalso; lia.
    + replace (S + std ?= S + dst) with Gt by (symmetry; apply Z.compare_gt_iff; lia).
      replace (E + dst ?= E + std) with Lt by (symmetry; apply Z.compare_lt_iff; lia).
      destruct (Z.eq_dec l (E + dst)) as [El|Nl].
      * right. subst l.
        repeat match goal with |- context [if ?c then _ else _] => destruct c eqn:? end; try (exfalso; lia).
        all: split; [reflexivity|]; exists S, (a_dst a), E, (a_std a); fold std dst; repeat split; lia.
      * left. repeat match goal with |- context [if ?c then _ else _] => destruct c eqn:? end; try reflexivity; exfalso; lia.
  - destruct (Z.compare_spec std dst) as [Hc|Hc|Hc]; [contradiction| |].
    + replace (S + std ?= S + dst) with Lt by (symmetry; apply Z.compare_lt_iff; lia).
      replace (E + dst ?= E + std) with Gt by (symmetry; apply Z.compare_gt_iff; lia).
      destruct (Z.eq_dec l (S + std)) as [El|Nl].
      * right. subst l.
        repeat match goal with |- context [if ?c then _ else _] => destruct c eqn:? end; try (exfalso; lia).
        all: split; [reflexivity|]; exists E, (a_std a), S, (a_dst a); fold std dst; repeat split; lia.
      * left. repeat match goal with |- context [if ?c then _ else _] => destruct c eqn:? end; try reflexivity; exfalso; lia.
    + replace (S + std ?= S + dst) with Gt by (symmetry; apply Z.compare_gt_iff; lia).
      replace (E + dst ?= E + std) with Lt by (symmetry; apply Z.compare_lt_iff; lia).
      left. repeat match goal with |- context [if ?c then _ else _] => destruct c eqn:? end; try reflexivity; exfalso; lia.
Qed.

(* the arithmetic core of completeness on every second: an instant t at which the year's formula
   puts the zone at offset o, read l = t + o on the wall clock, is among the candidates for l *)
Lemma rule_answer_contains a k l t : ut_offset (a_std a) <> ut_offset (a_dst a) ->
  let r := conv_rule a in
  let '(ps, first) := year_table a k in
  ordered (windows (offs ps) (ut_offset first)) = true ->
  let o := if yform (rule_start_utc r k) (rule_end_utc r k) t then r_dst r else r_std r in
  t + o = l -> contains (rule_answer a k l) o.
Proof.
  intros Hne r. unfold year_table, rule_answer. cbv zeta. fold r.
  change (r_std r) with (ut_offset (a_std a)). change (r_dst r) with (ut_offset (a_dst a)).
  set (S := rule_start_utc r k). set (E := rule_end_utc r k).
  set (std := ut_offset (a_std a)) in *. set (dst := ut_offset (a_dst a)) in *.
  unfold rule_answer_of, yform. fold std dst.
  destruct (S + std <? E + dst) eqn:Hn; cbn [offs map fst snd windows ordered]; fold std dst;
    intros Hord Hl.
  - assert (S < E) by lia. replace (S <? E) with true in * by lia.
    destruct (Z.compare_spec std dst) as [Hc|Hc|Hc]; [contradiction| |];
      destruct ((S <=? t) && (t <? E)) eqn:Bt;
      repeat match goal with |- context [if ?c then _ else _] => destruct c eqn:? end; cbn [contains]; fold std dst; lia.
  - assert (E < S) by lia. replace (S <? E) with false in * by lia.
    destruct (Z.compare_spec std dst) as [Hc|Hc|Hc]; [contradiction| |];
      destruct ((t <? E) || (S <=? t)) eqn:Bt;
      repeat match goal with |- context [if ?c then _ else _] => destruct c eqn:? end; cbn [contains]; fold std dst; lia.
Qed.

(** TZ strings / rule-only zones against the oracle, for EVERY wall-clock second l (k = the calendar
    year of l, which is the year argument the glue passes): under the property's premise around k
    and with the year's two windows disjoint and in order,
    - every instant of S(l) = instants_of_wall is among the candidates (so the round trip holds ON the
      excepted seconds as well);
    - off the excepted seconds the candidates are exactly S(l), earliest first. *)
Theorem rule_zone_every_second z a first l :
  let k := utc_year l in let r := conv_rule a in
  transitions z = [] -> index (local_time_types z) 0 = Val first -> extra_rule z = Some (Alternate a) ->
  alt_ok a -> -2147483650 <= k <= 2147483650 -> r_std r <> r_dst r -> rule_year_hyps r k ->
  let '(ps, prev) := year_table a k in
  ordered (windows (offs ps) (ut_offset prev)) = true ->
  exists m, find_local_time_type_from_local z k l = Val (Ok m) /\ m = rule_answer a k l /\
  let rz := mk_szone (ut_offset first) [] (Some (inr r)) in
  (forall t, In t (instants_of_wall rz l) -> contains m (l - t)) /\
  (excepted_table (offs ps) (ut_offset prev) l = false -> classified rz l m).
Proof.
  intros k r Ht Hf Hr Ha Hk Hne Hyp.
  pose proof (rule_zone_classification z a first l Ht Hf Hr Ha Hk Hne Hyp) as Hcl.
  pose proof (rule_answer_contains a k l) as Hcont.
  cbv zeta in Hcl, Hcont. fold k r in Hcl, Hcont.
  destruct (year_table a k) as [ps prev]. intros Hord.
  exists (rule_answer a k l). split; [|split; [reflexivity|]].
  { unfold find_local_time_type_from_local. rewrite Ht, Hf, Hr.
    cbn [bind rule_find_local_time_type_from_local]. rewrite (rule_local_total a k l Ha Hk). reflexivity. }
  cbv zeta. split.
  - intros t Hin. apply instants_rule_only in Hin.
    pose proof (utc_year_bounds l) as Hlb. fold k in Hlb.
    assert (Hw : year_start k <= t + r_std r < year_start (k + 1) \/ year_start k <= t + r_dst r < year_start (k + 1)).
    { unfold roff in Hin. destruct (rule_is_dst r t); [right|left]; lia. }
    pose proof (rule_is_dst_year r k t Hyp Hw) as Hd. fold (yform (rule_start_utc r k) (rule_end_utc r k) t) in Hd.
    unfold roff in Hin. rewrite Hd in Hin.
    replace (l - t) with (if yform (rule_start_utc r k) (rule_end_utc r k) t then r_dst r else r_std r) by lia.
    apply (Hcont t Hne Hord). exact Hin.
  - intros Hex. destruct (Hcl Hord Hex) as (m & Hm & Hc).
    unfold find_local_time_type_from_local in Hm. rewrite Ht, Hf, Hr in Hm.
    cbn [bind rule_find_local_time_type_from_local] in Hm. rewrite (rule_local_total a k l Ha Hk) in Hm.
    injection Hm as <-. exact Hc.
Qed.

(* round trip for a TZ string on EVERY instant, the excepted boundary seconds included *)
Theorem roundtrip_rule_zone z a first t :
  let r := conv_rule a in let o := roff r t in let l := t + o in let k := utc_year l in
  transitions z = [] -> index (local_time_types z) 0 = Val first -> extra_rule z = Some (Alternate a) ->
  alt_ok a -> -2147483650 <= k <= 2147483650 -> r_std r <> r_dst r -> rule_year_hyps r k ->
  ordered (windows (offs (fst (year_table a k))) (ut_offset (snd (year_table a k)))) = true ->
  exists m, find_local_time_type_from_local z k l = Val (Ok m) /\ contains m o.
Proof.
  intros r o l k Ht Hf Hr Ha Hk Hne Hyp Hord.
  pose proof (rule_zone_every_second z a first l Ht Hf Hr Ha Hk Hne Hyp) as H. cbv zeta in H. fold k r in H.
  destruct (year_table a k) as [ps prev]. cbn [fst snd] in Hord.
  destruct (H Hord) as (m & Hm & _ & Hin & _). exists m. split; [exact Hm|].
  replace o with (l - t) by (unfold l; lia). apply Hin. apply instants_rule_only. reflexivity.
Qed.

(** * Inhabited; the excepted seconds; the premise cannot be dropped *)
(* CET-1CEST,M3.5.0,M10.5.0/3 as a TZ string, year 2024: the last second 03:00:00 of the repeated
   hour of 2024-10-27 (an excepted second) gets Ambiguous although it occurs once -- an inclusion;
   02:00:00 of 2024-03-31 (first second of the skipped hour, excepted) gets Single(CET) although it
   never occurs -- an inclusion; 03:00:00 of that day (excepted) is exact *)
Definition exr_zone : timezone := mk_tz [] [ex_cet; ex_cest] [] (Some (Alternate exc_rule)).
Definition exr_rz : szone := mk_szone (ut_offset ex_cet) [] (Some (inr (conv_rule exc_rule))).
Lemma exr_facts :
  alt_ok exc_rule /\ rule_year_hyps (conv_rule exc_rule) 2024 /\
  ordered (windows (offs (fst (year_table exc_rule 2024))) (ut_offset (snd (year_table exc_rule 2024)))) = true /\
  utc_year 1729998000 = 2024 /\
  excepted_table (offs (fst (year_table exc_rule 2024))) (ut_offset (snd (year_table exc_rule 2024))) 1729998000 = true /\
  find_local_time_type_from_local exr_zone 2024 1729998000 = Val (Ok (MAmbiguous ex_cest ex_cet)) /\
  instants_of_wall exr_rz 1729998000 = [1729994400] /\
  find_local_time_type_from_local exr_zone 2024 1711850400 = Val (Ok (MSingle ex_cet)) /\
  instants_of_wall exr_rz 1711850400 = [] /\
  find_local_time_type_from_local exr_zone 2024 1711854000 = Val (Ok (MSingle ex_cest)) /\
  instants_of_wall exr_rz 1711854000 = [1711846800].
Proof.
  split; [exact exc_alt_ok|].
  vm_compute. repeat match goal with |- _ /\ _ => split end; try reflexivity; discriminate.
Qed.

(* the premise of the property (rule transitions more than a day inside the year) cannot be dropped:
   AAA0BBB,J200/0,J1/0:30 ends daylight time at 00:30 (daylight clock) of 1 January, i.e. the wall
   clock falls back into 31 December of the previous year.  2023-12-31T23:45:00 occurs twice; the
   rule code, looking at the two transitions of 2023 only, answers Single(BBB).  Every other
   hypothesis of [rule_zone_every_second] holds.  (The judge skips such years: premise_at.) *)
Definition prem_std := mk_ltt 0 false (Some (B"AAA")).
Definition prem_dst := mk_ltt 3600 true (Some (B"BBB")).
Definition prem_rule : alt_time :=
  mk_alt prem_std prem_dst (Julian1WithoutLeap 200) 0 (Julian1WithoutLeap 1) 1800.
Definition prem_zone : timezone := mk_tz [] [prem_std; prem_dst] [] (Some (Alternate prem_rule)).
Definition prem_rz : szone := mk_szone 0 [] (Some (inr (conv_rule prem_rule))).
Lemma prem_alt_ok : alt_ok prem_rule.
Proof.
  unfold alt_ok, ltt_ok, name_ok, day_ok. cbn.
  repeat match goal with |- _ /\ _ => split end; try reflexivity; try lia; try discriminate; repeat constructor.
Qed.
Lemma rule_premise_refuted :
  alt_ok prem_rule /\ r_std (conv_rule prem_rule) <> r_dst (conv_rule prem_rule) /\
  utc_year 1704066300 = 2023 /\
  ordered (windows (offs (fst (year_table prem_rule 2023))) (ut_offset (snd (year_table prem_rule 2023)))) = true /\
  excepted_wall prem_rz 1704066300 = false /\
  premise_year (conv_rule prem_rule) 2023 = false /\ premise_year (conv_rule prem_rule) 2024 = false /\
  find_local_time_type_from_local prem_zone 2023 1704066300 = Val (Ok (MSingle prem_dst)) /\
  instants_of_wall prem_rz 1704066300 = [1704062700; 1704066300].
Proof.
  split; [exact prem_alt_ok|]. split; [cbn; discriminate|].
  vm_compute. repeat match goal with |- _ /\ _ => split end; try reflexivity; discriminate.
Qed.
