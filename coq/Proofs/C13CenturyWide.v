(** C13 -- the upper bound of the %C + %y pair is exact: for EVERY NaiveDate of a year >= 10000 and each of
    the four forms of Proofs/C13Century.v the formatter prints a century of three or four digits; the
    reader's %C takes two of them, %y the next two, and the literal "-" that follows meets a digit:
    Err(Invalid).  Supersedes [date_century_wide_partial]. *)
From Coq Require Import ZArith List Bool Lia ZifyBool.
From V Require Import Base.Int Base.IntLemmas Base.IO Base.Utf8 Base.Lift Model.Scan Model.Items Gen.ParseTable
  Proofs.Utf8 Proofs.Scan Model.Parse Proofs.C13 Proofs.C13Reads Proofs.C13Fmt Proofs.C13Digits Proofs.C13Time Proofs.C13View
  Proofs.C13General Proofs.C13Century Spec.StrftimeDoc Spec.Gregorian.
From V Require Model.Parsed Model.Format Model.Date Proofs.C12 Proofs.C14 Proofs.C14Date Proofs.C08Sweeps.
Import ListNotations.
Open Scope Z_scope.
Ltac Zify.zify_post_hook ::= Z.to_euclidean_division_equations.

(** * the digits the formatter prints for a century of 100..=2621 followed by the two-digit year *)
Definition wide_digits (c r : Z) : bytes := pad_num DZero 2 false c ++ pad_num DZero 2 false r.
Definition wide_shape (c r : Z) : bool :=
  match wide_digits c r with
  | a :: b :: c' :: d' :: e :: more =>
      is_ascii_digit a && is_ascii_digit b && is_ascii_digit c' && is_ascii_digit d' && is_ascii_digit e
      && forallb is_ascii_digit more
  | _ => false
  end.
Lemma wide_sweep : forall_range (fun c => forall_range (fun r => wide_shape c r) 0 100) 100 2522 = true.
Proof. vm_compute. reflexivity. Qed.

Lemma wide_split c r : 100 <= c <= 2621 -> 0 <= r <= 99 ->
  exists a b c' d' e more, wide_digits c r = a :: b :: c' :: d' :: e :: more /\
    is_ascii_digit a = true /\ is_ascii_digit b = true /\ is_ascii_digit c' = true /\ is_ascii_digit d' = true /\
    is_ascii_digit e = true /\ forallb is_ascii_digit more = true.
Proof.
  intros Hc Hr. pose proof (forall_range_spec _ _ _ wide_sweep c ltac:(lia)) as H1. cbv beta in H1.
  pose proof (forall_range_spec _ _ _ H1 r ltac:(lia)) as H. cbv beta in H. unfold wide_shape in H.
  destruct (wide_digits c r) as [|a [|b [|c' [|d' [|e more]]]]]; try discriminate H.
  exists a, b, c', d', e, more. split; [reflexivity|].
  cbv iota beta in H. do 5 (apply andb_prop in H; destruct H as [H ?]). repeat split; assumption.
Qed.

Lemma set_fresh code f lo hi p v : simple_code code = Some (f, lo, hi) -> lo <= v <= hi -> Model.Parsed.pget f p = None ->
  set_by_code code p v = pok (Model.Parsed.pput f (Some v) p).
Proof.
  intros Hs Hv Hn. rewrite (simple_code_set code f lo hi p v Hs Hv). unfold Model.Parsed.set_if_consistent. rewrite Hn. reflexivity.
Qed.

(** * the reader on such a text *)
Lemma wide_refused c r l rest items : 100 <= c <= 2621 -> 0 <= r <= 99 -> utf8_valid ((45 :: l) ++ rest) = true ->
  parse Model.Parsed.parsed_new (wide_digits c r ++ (45 :: l) ++ rest)
        (num0 N_YearDiv100 :: num0 N_YearMod100 :: Literal (45 :: l) :: items) = perr_ Invalid.
Proof.
  intros Hc Hr Hv. destruct (wide_split c r Hc Hr) as (a & b & c' & d' & e & more & -> & Ha & Hb & Hc' & Hd' & He & Hm).
  pose proof (digit_range a Ha). pose proof (digit_range b Hb). pose proof (digit_range c' Hc'). pose proof (digit_range d' Hd').
  pose proof (digit_range e He).
  set (tail := (45 :: l) ++ rest) in *.
  assert (Hv3 : utf8_valid (e :: more ++ tail) = true).
  { change (e :: more ++ tail) with ((e :: more) ++ tail). apply digits_utf8; [|exact Hv]. cbn [forallb]. rewrite He, Hm. reflexivity. }
  assert (Hv2 : utf8_valid ([c'; d'] ++ e :: more ++ tail) = true).
  { apply digits_utf8; [|exact Hv3]. cbn [forallb]. rewrite Hc', Hd'. reflexivity. }
  unfold parse, parse_internal, num0. cbn [parse_items parse_item].
  (* %C takes two digits *)
  change ((a :: b :: c' :: d' :: e :: more) ++ tail) with ([] ++ [a; b] ++ ([c'; d'] ++ e :: more ++ tail)).
  rewrite (parse_numeric_unsigned Model.Parsed.parsed_new N_YearDiv100 2 1 [] [a; b] _ (numeric_table N_YearDiv100));
    [|constructor|cbn [forallb]; rewrite Ha, Hb; reflexivity|rewrite !blen_cons, blen_nil; lia
     |intros Hlt; rewrite !blen_cons, blen_nil in Hlt; lia|exact Hv2|cbn [digits_value]; unfold i64_max; lia].
  set (v1 := digits_value [a; b] 0). assert (Hv1 : 0 <= v1 <= 99) by (unfold v1; cbn [digits_value]; lia).
  rewrite (set_fresh 1 Model.Parsed.F_year_div_100 0 i32_max Model.Parsed.parsed_new v1 eq_refl ltac:(unfold i32_max; lia) eq_refl).
  cbn [pbind bind pok].
  (* %y the next two *)
  change ([c'; d'] ++ e :: more ++ tail) with ([] ++ [c'; d'] ++ (e :: more ++ tail)).
  rewrite (parse_numeric_unsigned _ N_YearMod100 2 2 [] [c'; d'] _ (numeric_table N_YearMod100));
    [|constructor|cbn [forallb]; rewrite Hc', Hd'; reflexivity|rewrite !blen_cons, blen_nil; lia
     |intros Hlt; rewrite !blen_cons, blen_nil in Hlt; lia|exact Hv3|cbn [digits_value]; unfold i64_max; lia].
  set (v2 := digits_value [c'; d'] 0). assert (Hv2' : 0 <= v2 <= 99) by (unfold v2; cbn [digits_value]; lia).
  rewrite (set_fresh 2 Model.Parsed.F_year_mod_100 0 99 (Model.Parsed.pput Model.Parsed.F_year_div_100 (Some v1) Model.Parsed.parsed_new) v2
             eq_refl Hv2' eq_refl).
  cbn [pbind bind pok].
  (* the literal meets a digit *)
  unfold tail. rewrite !blen_cons, !blen_app, !blen_cons.
  pose proof (blen_nonneg more). pose proof (blen_nonneg l). pose proof (blen_nonneg rest).
  replace (1 + (blen more + (1 + blen l + blen rest)) <? 1 + blen l) with false by lia.
  unfold starts_with. cbn [strip_prefix]. replace (45 =? e) with false by lia. reflexivity.
Qed.

(** * every date of a year >= 10000, the four forms *)
Theorem date_century_wide_refused y o d items : Proofs.C08Sweeps.repr y o d -> 10000 <= y -> In items century_items ->
  exists text,
    Model.Format.write_items (Model.Format.fa_of_date d) items [] = Model.Format.fok text /\
    (let+ p := parse Model.Parsed.parsed_new text items in pr_of (Model.Parsed.to_naive_date p)) = Val (PErr Invalid).
Proof.
  intros H Hy Hin. set (dn := dn_of_yo y o).
  destruct (Proofs.C14Date.repr_year_i32 y o d H) as [_ Hyb].
  pose proof (args_view_date y o d H) as V. fold dn in V.
  pose proof (args_bounds _ _ V ltac:(cbn; lia)) as Bsv.
  pose proof (dseg_nil (Model.Format.fa_of_date d) (sv_of_date dn) None [] eq_refl) as S0.
  pose proof (cy_renders y o d H) as R1.
  assert (Ht : exists l tail rest, items = CY_ITEMS ++ Literal (45 :: l) :: tail /\
            Model.Format.write_items (Model.Format.fa_of_date d) items [] =
              Model.Format.fok (concat (cy_texts y) ++ (45 :: l) ++ rest) /\
            utf8_valid ((45 :: l) ++ rest) = true).
  { unfold century_items in Hin. cbn [In] in Hin. destruct Hin as [<-|[<-|[<-|[<-|[]]]]]; unfold CYMD_ITEMS, CYJ_ITEMS, CYW_ITEMS, CYU_ITEMS.
    - destruct (md_seg _ _ None dn _ _ _ [] V eq_refl Bsv S0) as [(R & _ & Vv) _]. rewrite !app_nil_r in R, Vv.
      exists [], (tl MD_ITEMS). eexists. split; [reflexivity|].
      rewrite (write_items_texts _ _ _ [] (Forall2_app R1 R)). cbn [app]. rewrite concat_app. split; [reflexivity|].
      exact Vv.
    - destruct (j_seg _ _ None dn _ _ _ [] V eq_refl Bsv S0) as [(R & _ & Vv) _]. rewrite !app_nil_r in R, Vv.
      exists [], (tl J_ITEMS). eexists. split; [reflexivity|].
      rewrite (write_items_texts _ _ _ [] (Forall2_app R1 R)). cbn [app]. rewrite concat_app. split; [reflexivity|].
      exact Vv.
    - destruct (wmon_seg _ _ None dn _ _ _ [] V eq_refl Bsv S0) as [(R & _ & Vv) _]. rewrite !app_nil_r in R, Vv.
      exists [87], (tl WMON_ITEMS). eexists. split; [reflexivity|].
      rewrite (write_items_texts _ _ _ [] (Forall2_app R1 R)). cbn [app]. rewrite concat_app. split; [reflexivity|].
      exact Vv.
    - destruct (wsun_seg _ _ None dn _ _ _ [] V eq_refl Bsv S0) as [(R & _ & Vv) _]. rewrite !app_nil_r in R, Vv.
      exists [85], (tl WSUN_ITEMS). eexists. split; [reflexivity|].
      rewrite (write_items_texts _ _ _ [] (Forall2_app R1 R)). cbn [app]. rewrite concat_app. split; [reflexivity|].
      exact Vv. }
  destruct Ht as (l & tail & rest & -> & Hw & Hv).
  eexists. split; [exact Hw|].
  unfold cy_texts. cbn [concat]. rewrite app_nil_r. fold (wide_digits (y / 100) (y mod 100)).
  unfold CY_ITEMS. cbn [app]. change (45 :: l ++ rest) with ((45 :: l) ++ rest).
  rewrite (wide_refused (y / 100) (y mod 100) l rest tail ltac:(lia) ltac:(lia) Hv). reflexivity.
Qed.

Example date_century_wide_refused_inhabited :
  Proofs.C08Sweeps.repr 10000 1 (Proofs.C08Sweeps.mkdate 10000 1) /\ 10000 <= 10000 /\
  Proofs.C08Sweeps.repr 262142 365 (Proofs.C08Sweeps.mkdate 262142 365) /\ 10000 <= 262142 /\ In CYU_ITEMS century_items.
Proof. repeat split; try reflexivity; try lia. right. right. right. left. reflexivity. Qed.
