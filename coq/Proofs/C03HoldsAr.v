(** C03 — the judge of Judge/C03.v accepts the model's output on every in-domain case of the
    arithmetic ops (the ar ops), for arbitrary argument lists: bridges between the judge's reading of an
    argument (instant / day number / nanosecond count, Spec/Gregorian.v) and the model's decoded
    values, then one lemma per argument shape, then the assembly [holds_arith]. *)
From Coq Require Import String ZArith List Bool Lia ZifyBool.
From V Require Import Base.Int Base.IO Base.IntLemmas Spec.Gregorian Model.TimeDelta Model.DateTime Model.C03
  Gen.DateTimeConsts Proofs.C06 Proofs.C03 Proofs.C03Ops Proofs.C03Holds.
From V Require Model.Date Model.Time Judge.C03 Proofs.C01Holds Proofs.C08Date Proofs.C08Days Proofs.C03Zone.
Import ListNotations.
Open Scope Z_scope.
Ltac Zify.zify_post_hook ::= Z.to_euclidean_division_equations.

Module J := Judge.C03.
Notation jrefl := C01Holds.judge_eq_refl.

(** * 1. Bridges *)
(* naive date-time argument *)
Lemma inst_of_ndt_inv v t : J.inst_of_ndt v = J.AInst t ->
  exists y o s f, v = VTup [VInt y; VInt o; VInt s; VInt f].
Proof.
  unfold J.inst_of_ndt. destruct v as [| | | |l| | | |]; try discriminate.
  destruct l as [|[y| | | | | | | |] l]; try discriminate.
  destruct l as [|[o| | | | | | | |] l]; try discriminate.
  destruct l as [|[s| | | | | | | |] l]; try discriminate.
  destruct l as [|[f| | | | | | | |] l]; try discriminate.
  destruct l; try discriminate. intros _. exists y, o, s, f. reflexivity.
Qed.
Lemma fields_bridge y o s f t : J.inst_of_fields y o s f = J.AInst t ->
  exists a, dec_ndt (VTup [VInt y; VInt o; VInt s; VInt f]) = Some a /\ nvalid a /\ inst a = t.
Proof.
  unfold J.inst_of_fields, J.G.
  destruct (year_in_range y && valid_yo y o && (0 <=? s) && (s <? 86400) && (0 <=? f) && (f <? 2 * 1000000000)) eqn:E;
    [|discriminate].
  destruct (f <? 1000000000) eqn:El; [|discriminate]. intros [= <-].
  do 5 (apply andb_prop in E; destruct E as [E ?]). rename E into Hy.
  assert (Ho : valid_yo y o = true) by assumption.
  destruct (dec_date_ok y o Hy Ho) as (x & Hx & Vx & Dx & _).
  exists (mk_ndt x (Time.mk_time s f)). split; [|split].
  - unfold dec_ndt. change (VTup [VInt y; VInt o]) with (vd y o). rewrite Hx. unfold Time.dec_time.
    replace ((0 <=? s) && (s <? 86400) && (0 <=? f) && (f <? 2000000000)) with true by lia. reflexivity.
  - split; [exact Vx|]. unfold tvalid, G. cbn [nd_time Time.tsecs Time.tfrac]. lia.
  - unfold inst. cbn [nd_date nd_time Time.tsecs Time.tfrac]. rewrite Dx. reflexivity.
Qed.
Lemma ndt_bridge v t : J.inst_of_ndt v = J.AInst t ->
  exists a, dec_ndt v = Some a /\ nvalid a /\ inst a = t.
Proof.
  intros H. destruct (inst_of_ndt_inv v t H) as (y & o & s & f & ->). apply fields_bridge. exact H.
Qed.

(* zone-aware argument *)
Lemma dtz_bridge v t off : J.inst_of_dtz v = (J.AInst t, off) ->
  exists u, dec_dtz v = Some (mk_dtz u off) /\ nvalid u /\ inst u = t /\ -86400 < off < 86400.
Proof.
  unfold J.inst_of_dtz. destruct v as [| | | |l| | | |]; try discriminate.
  destruct l as [|[y| | | | | | | |] l]; try discriminate.
  destruct l as [|[o| | | | | | | |] l]; try discriminate.
  destruct l as [|[s| | | | | | | |] l]; try discriminate.
  destruct l as [|[f| | | | | | | |] l]; try discriminate.
  destruct l as [|[z| | | | | | | |] l]; try discriminate.
  destruct l; try discriminate.
  destruct ((-86400 <? z) && (z <? 86400)) eqn:Eo; [|discriminate].
  intros [= Hf <-]. destruct (fields_bridge y o s f t Hf) as (u & Hu & Vu & Iu).
  exists u. unfold dec_dtz. rewrite Hu. unfold east_opt, FO_EAST_LO, FO_EAST_HI. rewrite Eo.
  split; [reflexivity|]. split; [exact Vu|]. split; [exact Iu|lia].
Qed.

(* duration argument *)
Lemma td_bridge v x : J.ns_of_td v = Some x -> exists d, dec_td v = Some d /\ valid d /\ ns d = x.
Proof.
  unfold J.ns_of_td, J.in_td, J.G, J.RMIN, J.RMAX.
  destruct v as [| | | |l| | | |]; try discriminate.
  destruct l as [|[s| | | | | | | |] l]; try discriminate.
  destruct l as [|[n| | | | | | | |] l]; try discriminate.
  destruct l; try discriminate.
  destruct ((0 <=? n) && (n <? 1000000000) && ((-9223372036854775807000000 <=? s * 1000000000 + n) && (s * 1000000000 + n <=? 9223372036854775807000000))) eqn:E;
    [|discriminate].
  intros [= <-].
  assert (Hs : in_i64 s = true) by solve_in. assert (Hn : in_u32 n = true) by solve_in.
  unfold dec_td. rewrite Hs, Hn. cbn [andb]. pose proof (td_new_spec s n Hs Hn) as T.
  destruct (td_new s n) as [d|].
  - destruct T as (E1 & E2 & V). exists d. split; [reflexivity|]. split; [exact V|]. unfold ns, G. rewrite E1, E2. reflexivity.
  - exfalso. apply T. unfold in_rng, G, RMIN, RMAX. lia.
Qed.

(* date argument *)
Lemma date_bridge v n : J.dn_of_date v = Some n -> exists d, dec_date v = Some d /\ vdate d /\ dn d = n.
Proof.
  unfold J.dn_of_date. destruct v as [| | | |l| | | |]; try discriminate.
  destruct l as [|[y| | | | | | | |] l]; try discriminate.
  destruct l as [|[o| | | | | | | |] l]; try discriminate.
  destruct l; try discriminate.
  destruct (year_in_range y && valid_yo y o) eqn:E; [|discriminate]. intros [= <-].
  apply andb_prop in E. destruct E as [Hy Ho].
  destruct (dec_date_ok y o Hy Ho) as (x & Hx & Vx & Dx & _). exists x. auto.
Qed.

(* results *)
Lemma enc_fields_inst b : nvalid b ->
  J.enc_inst_fields (inst b) =
    [VInt (Date.d_year (nd_date b)); VInt (Date.d_ordinal (nd_date b)); VInt (Time.tsecs (nd_time b));
     VInt (Time.tfrac (nd_time b))].
Proof.
  intros [Vd [Hs Hf]]. pose proof (vdate_range _ Vd) as Rg. destruct Vd as [_ [Ho _]].
  unfold J.enc_inst_fields.
  assert (E1 : dn_of_nanos (inst b) = dn (nd_date b)).
  { rewrite inst_split. unfold dn_of_nanos, tns, DAYNS, G in *. lia. }
  assert (E2 : sod_of_nanos (inst b) = Time.tsecs (nd_time b)).
  { rewrite inst_split. unfold sod_of_nanos, tns, DAYNS, G in *. lia. }
  assert (E3 : frac_of_nanos (inst b) = Time.tfrac (nd_time b)).
  { rewrite inst_split. unfold frac_of_nanos, tns, DAYNS, G in *. lia. }
  rewrite E1, E2, E3. unfold dn. rewrite C08Days.yo_of_dn_of_yo by exact Ho. reflexivity.
Qed.
Lemma enc_ndt_inst b : nvalid b -> enc_ndt b = J.enc_inst (inst b).
Proof. intros Vb. unfold J.enc_inst. rewrite (enc_fields_inst b Vb). reflexivity. Qed.
Lemma enc_dtz_inst b off : nvalid b -> enc_dtz (mk_dtz b off) = J.enc_zinst (inst b) off.
Proof. intros Vb. unfold J.enc_zinst. rewrite (enc_fields_inst b Vb). reflexivity. Qed.
Lemma enc_td_ns d : valid d -> enc_td d = J.enc_ns (ns d).
Proof.
  intros [Hn _]. unfold enc_td, J.enc_ns, ns, J.G, G in *.
  replace ((secs d * 1000000000 + nanos d) / 1000000000) with (secs d) by lia.
  replace ((secs d * 1000000000 + nanos d) mod 1000000000) with (nanos d) by lia. reflexivity.
Qed.

(** a checked result and its operator form against the judge's [wrap] *)
Definition out_ndt (op_form : bool) (r : option ndt) : val :=
  if op_form then val_of_R enc_ndt (unwrap_r (Val r)) else val_of_R vo_ndt (Val r).
Lemma wrap_ndt op_form target r : ndt_res target r -> out_ndt op_form r = J.wrap op_form (J.exp_inst target).
Proof.
  unfold out_ndt, J.exp_inst, J.in_ns, ndt_res. destruct r as [b|]; cbn [unwrap_r unwrap bind val_of_R vo_ndt val_of_option].
  - intros [Vb Ib]. pose proof (nvalid_inst_range b Vb) as Rg. rewrite Ib in Rg.
    replace ((NS_MIN <=? target) && (target <=? NS_MAX)) with true by lia.
    rewrite (enc_ndt_inst b Vb), Ib. destruct op_form; reflexivity.
  - intros Hn. replace ((NS_MIN <=? target) && (target <=? NS_MAX)) with false by lia.
    destruct op_form; reflexivity.
Qed.
Definition zres (off target : Z) (r : option dtz) : Prop :=
  match r with
  | Some z => dz_off z = off /\ nvalid (dz_utc z) /\ inst (dz_utc z) = target
  | None => ~ (NS_MIN <= target <= NS_MAX)
  end.
Definition out_dtz (op_form : bool) (r : option dtz) : val :=
  if op_form then val_of_R enc_dtz (unwrap_r (Val r)) else val_of_R vo_dtz (Val r).
Lemma wrap_dtz op_form off target r : zres off target r -> out_dtz op_form r = J.wrap op_form (J.exp_zinst off target).
Proof.
  unfold out_dtz, J.exp_zinst, J.in_ns, zres. destruct r as [[b o]|]; cbn [unwrap_r unwrap bind val_of_R vo_dtz val_of_option dz_off dz_utc].
  - intros (-> & Vb & Ib). pose proof (nvalid_inst_range b Vb) as Rg. rewrite Ib in Rg.
    replace ((NS_MIN <=? target) && (target <=? NS_MAX)) with true by lia.
    change (enc_dtz {| dz_utc := b; dz_off := off |}) with (enc_dtz (mk_dtz b off)).
    rewrite (enc_dtz_inst b off Vb), Ib. destruct op_form; reflexivity.
  - intros Hn. replace ((NS_MIN <=? target) && (target <=? NS_MAX)) with false by lia.
    destruct op_form; reflexivity.
Qed.
Definition out_date (op_form : bool) (r : option Z) : val :=
  if op_form then val_of_R enc_date (unwrap_r (Val r)) else val_of_R vo_date (Val r).
Lemma wrap_date op_form d target r : date_res d target r -> out_date op_form r = J.wrap op_form (J.exp_dn target).
Proof.
  unfold out_date, J.exp_dn, date_res. destruct r as [x|]; cbn [unwrap_r unwrap bind val_of_R vo_date val_of_option].
  - intros [Vx Dx]. pose proof (vdate_range x Vx) as Rg. rewrite Dx in Rg.
    replace (dn_in_range target) with true by (unfold dn_in_range; lia).
    rewrite (enc_date_dn x Vx), Dx. destruct op_form; reflexivity.
  - intros ->. destruct op_form; reflexivity.
Qed.

(** exact-or-panic specifications against [wrap true] *)
Lemma wrap_exact target (op : R ndt) :
  (if in_ns_range target then exists b, op = Val b /\ nvalid b /\ inst b = target else op = Panic) ->
  val_of_R enc_ndt op = J.wrap true (J.exp_inst target).
Proof.
  unfold J.exp_inst, J.in_ns. change ((NS_MIN <=? target) && (target <=? NS_MAX)) with (in_ns_range target).
  destruct (in_ns_range target).
  - intros (b & -> & Vb & Ib). cbn [val_of_R J.wrap]. rewrite (enc_ndt_inst b Vb), Ib. reflexivity.
  - intros ->. reflexivity.
Qed.
Lemma wrap_zexact off target (op : R dtz) :
  (if in_ns_range target then exists b, op = Val (mk_dtz b off) /\ nvalid b /\ inst b = target else op = Panic) ->
  val_of_R enc_dtz op = J.wrap true (J.exp_zinst off target).
Proof.
  unfold J.exp_zinst, J.in_ns. change ((NS_MIN <=? target) && (target <=? NS_MAX)) with (in_ns_range target).
  destruct (in_ns_range target).
  - intros (b & -> & Vb & Ib). cbn [val_of_R J.wrap]. rewrite (enc_dtz_inst b off Vb), Ib. reflexivity.
  - intros ->. reflexivity.
Qed.

(** small arguments *)
Lemma sign_bridge v s : J.sign_of v = Some s ->
  exists b : bool, arg_sign v = Some b /\ s = (if b then 1 else -1).
Proof.
  unfold J.sign_of, arg_sign. destruct v as [z| | | | | | | |]; try discriminate.
  destruct z as [|p|p]; try discriminate.
  - destruct p; try discriminate. intros [= <-]. exists true. split; reflexivity.
  - destruct p; try discriminate. intros [= <-]. exists false. split; reflexivity.
Qed.
Lemma u64_bridge v n : J.u64_of v = Some n -> arg_u64 v = Some n /\ in_u64 n = true.
Proof.
  unfold J.u64_of, arg_u64. destruct v as [z| | | | | | | |]; try discriminate.
  destruct (in_u64 z) eqn:E; [|discriminate]. intros [= <-]. split; [reflexivity|exact E].
Qed.
Lemma std_bridge vs vn x : J.std_of vs vn = Some x ->
  exists ds dn, arg_std vs vn = Some (ds, dn) /\ in_u64 ds = true /\ 0 <= dn < G /\ x = ds * G + dn.
Proof.
  unfold J.std_of, arg_std, J.G. destruct vs as [s| | | | | | | |]; try discriminate.
  destruct vn as [n| | | | | | | |]; try discriminate.
  destruct (in_u64 s && (0 <=? n) && (n <? 1000000000)) eqn:E; [|discriminate]. intros [= <-].
  apply andb_prop in E. destruct E as [E E3]. apply andb_prop in E. destruct E as [E1 E2].
  unfold arg_u64, arg_u32. rewrite E1. replace (in_u32 n) with true by solve_in. rewrite E3.
  exists s, n. unfold G. repeat split; try lia. exact E1.
Qed.
Lemma off_bridge v o : J.off_of v = Some o -> arg_i32 v = Some o /\ east_opt o = Some o /\ -86400 < o < 86400.
Proof.
  unfold J.off_of, arg_i32, east_opt, FO_EAST_LO, FO_EAST_HI. destruct v as [z| | | | | | | |]; try discriminate.
  destruct ((-86400 <? z) && (z <? 86400)) eqn:E; [|discriminate]. intros [= <-].
  replace (in_i32 z) with true by solve_in. rewrite E. split; [reflexivity|]. split; [reflexivity|lia].
Qed.

Ltac skip_or := try congruence.

(** * 2. One lemma per argument shape *)
(* naive date-time +- TimeDelta, checked / operator form *)
Lemma n_td_holds op_form sg (out : ndt -> td -> val) args :
  (forall a d, nvalid a -> valid d -> exists r, out a d = out_ndt op_form r /\ ndt_res (inst a + sg * ns d) r) ->
  J.j_n_td op_form sg args (a2 dec_ndt dec_td args out) <> JSkip ->
  J.j_n_td op_form sg args (a2 dec_ndt dec_td args out) = JOk.
Proof.
  intros Hout. unfold J.j_n_td, a2. destruct args as [|x [|y [|? ?]]]; skip_or.
  destruct (J.inst_of_ndt x) as [| |t] eqn:Ex; skip_or.
  destruct (J.ns_of_td y) as [n|] eqn:Ey; skip_or. intros _.
  destruct (ndt_bridge x t Ex) as (a & Da & Va & Ia). destruct (td_bridge y n Ey) as (d & Dd & Vd & Nd).
  rewrite Da, Dd. destruct (Hout a d Va Vd) as (r & Eo & R). rewrite Eo, (wrap_ndt op_form _ r R), Ia, Nd.
  apply jrefl.
Qed.
Lemma z_td_holds op_form sg (out : dtz -> td -> val) args :
  (forall u off d, nvalid u -> valid d ->
     exists r, out (mk_dtz u off) d = out_dtz op_form r /\ zres off (inst u + sg * ns d) r) ->
  J.j_z_td op_form sg args (a2 dec_dtz dec_td args out) <> JSkip ->
  J.j_z_td op_form sg args (a2 dec_dtz dec_td args out) = JOk.
Proof.
  intros Hout. unfold J.j_z_td, a2. destruct args as [|x [|y [|? ?]]]; skip_or.
  destruct (J.inst_of_dtz x) as [[| |t] off] eqn:Ex; skip_or.
  destruct (J.ns_of_td y) as [n|] eqn:Ey; skip_or. intros _.
  destruct (dtz_bridge x t off Ex) as (u & Du & Vu & Iu & _). destruct (td_bridge y n Ey) as (d & Dd & Vd & Nd).
  rewrite Du, Dd. destruct (Hout u off d Vu Vd) as (r & Eo & R). rewrite Eo, (wrap_dtz op_form off _ r R), Iu, Nd.
  apply jrefl.
Qed.
(* differences *)
Lemma n_n_holds (c : ndt -> ndt -> R td) args :
  (forall a b, nvalid a -> nvalid b -> exists d, c a b = Val d /\ valid d /\ ns d = inst a - inst b) ->
  J.j_n_n args (a2 dec_ndt dec_ndt args (fun a b => val_of_R enc_td (c a b))) <> JSkip ->
  J.j_n_n args (a2 dec_ndt dec_ndt args (fun a b => val_of_R enc_td (c a b))) = JOk.
Proof.
  intros Hc. unfold J.j_n_n, a2. destruct args as [|x [|y [|? ?]]]; skip_or.
  destruct (J.inst_of_ndt x) as [| |t1] eqn:Ex; skip_or.
  destruct (J.inst_of_ndt y) as [| |t2] eqn:Ey; skip_or. intros _.
  destruct (ndt_bridge x t1 Ex) as (a & Da & Va & Ia). destruct (ndt_bridge y t2 Ey) as (b & Db & Vb & Ib).
  rewrite Da, Db. destruct (Hc a b Va Vb) as (d & Ed & Vd & Nd). rewrite Ed. cbn [val_of_R].
  rewrite (enc_td_ns d Vd), Nd, Ia, Ib. apply jrefl.
Qed.
Lemma z_z_holds (c : dtz -> dtz -> R td) args :
  (forall a b, c a b = dz_signed_duration_since a b) ->
  J.j_z_z args (a2 dec_dtz dec_dtz args (fun a b => val_of_R enc_td (c a b))) <> JSkip ->
  J.j_z_z args (a2 dec_dtz dec_dtz args (fun a b => val_of_R enc_td (c a b))) = JOk.
Proof.
  intros Hc. unfold J.j_z_z, a2. destruct args as [|x [|y [|? ?]]]; skip_or.
  destruct (J.inst_of_dtz x) as [[| |t1] o1] eqn:Ex; skip_or.
  destruct (J.inst_of_dtz y) as [[| |t2] o2] eqn:Ey; skip_or. intros _.
  destruct (dtz_bridge x t1 o1 Ex) as (a & Da & Va & Ia & _). destruct (dtz_bridge y t2 o2 Ey) as (b & Db & Vb & Ib & _).
  rewrite Da, Db, Hc. destruct (zone_diff_exact a o1 b o2 Va Vb) as (d & Ed & Vd & Nd). rewrite Ed. cbn [val_of_R].
  rewrite (enc_td_ns d Vd), Nd, Ia, Ib. apply jrefl.
Qed.
Lemma d_d_holds (c : Z -> Z -> R td) args :
  (forall a b, c a b = Date.signed_duration_since a b) ->
  J.j_d_d args (a2 dec_date dec_date args (fun a b => val_of_R enc_td (c a b))) <> JSkip ->
  J.j_d_d args (a2 dec_date dec_date args (fun a b => val_of_R enc_td (c a b))) = JOk.
Proof.
  intros Hc. unfold J.j_d_d, a2. destruct args as [|x [|y [|? ?]]]; skip_or.
  destruct (J.dn_of_date x) as [n1|] eqn:Ex; skip_or.
  destruct (J.dn_of_date y) as [n2|] eqn:Ey; skip_or. intros _.
  destruct (date_bridge x n1 Ex) as (a & Da & Va & Ia). destruct (date_bridge y n2 Ey) as (b & Db & Vb & Ib).
  rewrite Da, Db, Hc, (date_diff_holds a b Va Vb). cbn [val_of_R]. rewrite Ia, Ib.
  unfold enc_td, J.enc_ns, J.DAYNS, J.G. cbn [secs nanos].
  replace ((n1 - n2) * 86400000000000 / 1000000000) with ((n1 - n2) * 86400) by lia.
  replace ((n1 - n2) * 86400000000000 mod 1000000000) with 0 by lia. apply jrefl.
Qed.
(* dates *)
Lemma d_days_holds op_form sg (out : Z -> Z -> val) args :
  (forall d n, vdate d -> in_u64 n = true -> exists r, out d n = out_date op_form r /\ date_res d (dn d + sg * n) r) ->
  J.j_d_days op_form sg args (a2 dec_date arg_u64 args out) <> JSkip ->
  J.j_d_days op_form sg args (a2 dec_date arg_u64 args out) = JOk.
Proof.
  intros Hout. unfold J.j_d_days, a2. destruct args as [|x [|y [|? ?]]]; skip_or.
  destruct (J.dn_of_date x) as [n1|] eqn:Ex; skip_or.
  destruct (J.u64_of y) as [n|] eqn:Ey; skip_or. intros _.
  destruct (date_bridge x n1 Ex) as (d & Dd & Vd & Id). destruct (u64_bridge y n Ey) as [Dn Hn].
  rewrite Dd, Dn. destruct (Hout d n Vd Hn) as (r & Eo & R). rewrite Eo, (wrap_date op_form d _ r R), Id.
  apply jrefl.
Qed.
Lemma d_td_holds op_form sg (out : Z -> td -> val) args :
  (forall d x, vdate d -> valid x ->
     exists r, out d x = out_date op_form r /\ date_res d (dn d + sg * Z.quot (ns x) 86400000000000) r) ->
  J.j_d_td op_form sg args (a2 dec_date dec_td args out) <> JSkip ->
  J.j_d_td op_form sg args (a2 dec_date dec_td args out) = JOk.
Proof.
  intros Hout. unfold J.j_d_td, a2. destruct args as [|x [|y [|? ?]]]; skip_or.
  destruct (J.dn_of_date x) as [n1|] eqn:Ex; skip_or.
  destruct (J.ns_of_td y) as [n|] eqn:Ey; skip_or. intros _.
  destruct (date_bridge x n1 Ex) as (d & Dd & Vd & Id). destruct (td_bridge y n Ey) as (t & Dt & Vt & Nt).
  rewrite Dd, Dt. destruct (Hout d t Vd Vt) as (r & Eo & R). rewrite Eo, (wrap_date op_form d _ r R), Id, Nt.
  apply jrefl.
Qed.

(* signed shapes *)
Lemma n_days_holds op_form (out : ndt -> bool -> Z -> val) args :
  (forall a (sg : bool) n, nvalid a -> in_u64 n = true ->
     exists r, out a sg n = out_ndt op_form r /\ ndt_res (inst a + (if sg then 1 else -1) * n * 86400000000000) r) ->
  J.j_n_days op_form args (a3 dec_ndt arg_sign arg_u64 args out) <> JSkip ->
  J.j_n_days op_form args (a3 dec_ndt arg_sign arg_u64 args out) = JOk.
Proof.
  intros Hout. unfold J.j_n_days, a3. destruct args as [|x [|y [|z [|? ?]]]]; skip_or.
  destruct (J.inst_of_ndt x) as [| |t] eqn:Ex; skip_or.
  destruct (J.sign_of y) as [s|] eqn:Ey; skip_or.
  destruct (J.u64_of z) as [n|] eqn:Ez; skip_or. intros _.
  destruct (ndt_bridge x t Ex) as (a & Da & Va & Ia). destruct (sign_bridge y s Ey) as (b & Db & ->).
  destruct (u64_bridge z n Ez) as [Dn Hn]. rewrite Da, Db, Dn.
  destruct (Hout a b n Va Hn) as (r & Eo & R). rewrite Eo, (wrap_ndt op_form _ r R), Ia. apply jrefl.
Qed.
Lemma sg3_n_td_holds (out : ndt -> bool -> td -> val) args :
  (forall a (sg : bool) d, nvalid a -> valid d ->
     exists r, out a sg d = out_ndt true r /\ ndt_res (inst a + (if sg then 1 else -1) * ns d) r) ->
  J.j_sg3 (J.j_n_td true) args (a3 dec_ndt arg_sign dec_td args out) <> JSkip ->
  J.j_sg3 (J.j_n_td true) args (a3 dec_ndt arg_sign dec_td args out) = JOk.
Proof.
  intros Hout. unfold J.j_sg3, J.j_n_td, a3. destruct args as [|x [|y [|z [|? ?]]]]; skip_or.
  destruct (J.sign_of y) as [s|] eqn:Ey; skip_or.
  destruct (J.inst_of_ndt x) as [| |t] eqn:Ex; skip_or.
  destruct (J.ns_of_td z) as [n|] eqn:Ez; skip_or. intros _.
  destruct (ndt_bridge x t Ex) as (a & Da & Va & Ia). destruct (sign_bridge y s Ey) as (b & Db & ->).
  destruct (td_bridge z n Ez) as (d & Dd & Vd & Nd). rewrite Da, Db, Dd.
  destruct (Hout a b d Va Vd) as (r & Eo & R). rewrite Eo, (wrap_ndt true _ r R), Ia, Nd. apply jrefl.
Qed.
Lemma sg3_d_td_holds (out : Z -> bool -> td -> val) args :
  (forall d (sg : bool) x, vdate d -> valid x ->
     exists r, out d sg x = out_date true r /\
       date_res d (dn d + (if sg then 1 else -1) * Z.quot (ns x) 86400000000000) r) ->
  J.j_sg3 (J.j_d_td true) args (a3 dec_date arg_sign dec_td args out) <> JSkip ->
  J.j_sg3 (J.j_d_td true) args (a3 dec_date arg_sign dec_td args out) = JOk.
Proof.
  intros Hout. unfold J.j_sg3, J.j_d_td, a3. destruct args as [|x [|y [|z [|? ?]]]]; skip_or.
  destruct (J.sign_of y) as [s|] eqn:Ey; skip_or.
  destruct (J.dn_of_date x) as [n1|] eqn:Ex; skip_or.
  destruct (J.ns_of_td z) as [n|] eqn:Ez; skip_or. intros _.
  destruct (date_bridge x n1 Ex) as (d & Dd & Vd & Id). destruct (sign_bridge y s Ey) as (b & Db & ->).
  destruct (td_bridge z n Ez) as (t & Dt & Vt & Nt). rewrite Dd, Db, Dt.
  destruct (Hout d b t Vd Vt) as (r & Eo & R). rewrite Eo, (wrap_date true d _ r R), Id, Nt. apply jrefl.
Qed.
(* core::time::Duration operands: always the operator form *)
Lemma n_std_holds (out : ndt -> bool -> Z -> Z -> val) args :
  (forall a (sg : bool) s n, nvalid a -> in_u64 s = true -> 0 <= n < G ->
     out a sg s n = J.wrap true (J.exp_inst (inst a + (if sg then 1 else -1) * (s * G + n)))) ->
  J.j_n_std args (a_std dec_ndt args out) <> JSkip -> J.j_n_std args (a_std dec_ndt args out) = JOk.
Proof.
  intros Hout. unfold J.j_n_std, a_std. destruct args as [|x [|y [|z [|w [|? ?]]]]]; skip_or.
  destruct (J.inst_of_ndt x) as [| |t] eqn:Ex; skip_or.
  destruct (J.sign_of y) as [s|] eqn:Ey; skip_or.
  destruct (J.std_of z w) as [q|] eqn:Ez; skip_or. intros _.
  destruct (ndt_bridge x t Ex) as (a & Da & Va & Ia). destruct (sign_bridge y s Ey) as (b & Db & ->).
  destruct (std_bridge z w q Ez) as (ds & dn & Ds & Hs & Hn & ->). rewrite Da, Db, Ds.
  rewrite (Hout a b ds dn Va Hs Hn), Ia. apply jrefl.
Qed.
Lemma z_std_holds (out : dtz -> bool -> Z -> Z -> val) args :
  (forall u off (sg : bool) s n, nvalid u -> in_u64 s = true -> 0 <= n < G ->
     out (mk_dtz u off) sg s n = J.wrap true (J.exp_zinst off (inst u + (if sg then 1 else -1) * (s * G + n)))) ->
  J.j_z_std args (a_std dec_dtz args out) <> JSkip -> J.j_z_std args (a_std dec_dtz args out) = JOk.
Proof.
  intros Hout. unfold J.j_z_std, a_std. destruct args as [|x [|y [|z [|w [|? ?]]]]]; skip_or.
  destruct (J.inst_of_dtz x) as [[| |t] off] eqn:Ex; skip_or.
  destruct (J.sign_of y) as [s|] eqn:Ey; skip_or.
  destruct (J.std_of z w) as [q|] eqn:Ez; skip_or. intros _.
  destruct (dtz_bridge x t off Ex) as (u & Du & Vu & Iu & _). destruct (sign_bridge y s Ey) as (b & Db & ->).
  destruct (std_bridge z w q Ez) as (ds & dn & Ds & Hs & Hn & ->). rewrite Du, Db, Ds.
  rewrite (Hout u off b ds dn Vu Hs Hn), Iu. apply jrefl.
Qed.
(* FixedOffset operands *)
Lemma n_off_holds op_form (out : ndt -> bool -> Z -> val) args :
  (forall a (sg : bool) off, nvalid a -> -86400 < off < 86400 ->
     out a sg off = J.wrap op_form (J.exp_inst (inst a + (if sg then 1 else -1) * off * J.G))) ->
  J.j_n_off op_form args (a_off dec_ndt args out) <> JSkip -> J.j_n_off op_form args (a_off dec_ndt args out) = JOk.
Proof.
  intros Hout. unfold J.j_n_off, a_off. destruct args as [|x [|y [|z [|? ?]]]]; skip_or.
  destruct (J.inst_of_ndt x) as [| |t] eqn:Ex; skip_or.
  destruct (J.sign_of y) as [s|] eqn:Ey; skip_or.
  destruct (J.off_of z) as [o|] eqn:Ez; skip_or. intros _.
  destruct (ndt_bridge x t Ex) as (a & Da & Va & Ia). destruct (sign_bridge y s Ey) as (b & Db & ->).
  destruct (off_bridge z o Ez) as (Do & Eo & Ho). rewrite Da, Db, Do, Eo.
  rewrite (Hout a b o Va Ho), Ia. apply jrefl.
Qed.
Lemma z_off_holds (out : dtz -> bool -> Z -> val) args :
  (forall u zoff (sg : bool) off, nvalid u -> -86400 < off < 86400 ->
     out (mk_dtz u zoff) sg off = J.wrap true (J.exp_zinst zoff (inst u + (if sg then 1 else -1) * off * J.G))) ->
  J.j_z_off args (a_off dec_dtz args out) <> JSkip -> J.j_z_off args (a_off dec_dtz args out) = JOk.
Proof.
  intros Hout. unfold J.j_z_off, a_off. destruct args as [|x [|y [|z [|? ?]]]]; skip_or.
  destruct (J.inst_of_dtz x) as [[| |t] zoff] eqn:Ex; skip_or.
  destruct (J.sign_of y) as [s|] eqn:Ey; skip_or.
  destruct (J.off_of z) as [o|] eqn:Ez; skip_or. intros _.
  destruct (dtz_bridge x t zoff Ex) as (u & Du & Vu & Iu & _). destruct (sign_bridge y s Ey) as (b & Db & ->).
  destruct (off_bridge z o Ez) as (Do & Eo & Ho). rewrite Du, Db, Do, Eo.
  rewrite (Hout u zoff b o Vu Ho), Iu. apply jrefl.
Qed.
(* b + (a - b) = a; order follows the distance *)
Lemma rt_holds args :
  J.j_rt args (a2 dec_ndt dec_ndt args (fun a b =>
      val_of_R vo_ndt (let* d := ndt_signed_duration_since a b in ndt_checked_add_signed b d))) <> JSkip ->
  J.j_rt args (a2 dec_ndt dec_ndt args (fun a b =>
      val_of_R vo_ndt (let* d := ndt_signed_duration_since a b in ndt_checked_add_signed b d))) = JOk.
Proof.
  unfold J.j_rt, a2. destruct args as [|x [|y [|? ?]]]; skip_or.
  destruct (J.inst_of_ndt x) as [| |t1] eqn:Ex; skip_or.
  destruct (J.inst_of_ndt y) as [| |t2] eqn:Ey; skip_or. intros _.
  destruct (ndt_bridge x t1 Ex) as (a & Da & Va & Ia). destruct (ndt_bridge y t2 Ey) as (b & Db & Vb & Ib).
  rewrite Da, Db. destruct (ndt_roundtrip_u a b Va Vb) as (d & Ed & Eb). rewrite Ed. cbn [bind]. rewrite Eb.
  cbn [val_of_R vo_ndt val_of_option]. rewrite (enc_ndt_inst a Va), Ia. apply jrefl.
Qed.
Lemma cmpZ_diff x y : cmpZ (x - y) 0 = cmpZ x y.
Proof.
  unfold cmpZ. destruct (Z.compare_spec x y); destruct (Z.compare_spec (x - y) 0); try reflexivity; lia.
Qed.
Lemma ord_holds args :
  J.j_ord args (a2 dec_ndt dec_ndt args (fun a b =>
      val_of_R (fun d => VTup [VInt (ndt_cmp a b); VInt (td_cmp d (mk_td 0 0))]) (ndt_signed_duration_since a b))) <> JSkip ->
  J.j_ord args (a2 dec_ndt dec_ndt args (fun a b =>
      val_of_R (fun d => VTup [VInt (ndt_cmp a b); VInt (td_cmp d (mk_td 0 0))]) (ndt_signed_duration_since a b))) = JOk.
Proof.
  unfold J.j_ord, a2. destruct args as [|x [|y [|? ?]]]; skip_or.
  destruct (J.inst_of_ndt x) as [| |t1] eqn:Ex; skip_or.
  destruct (J.inst_of_ndt y) as [| |t2] eqn:Ey; skip_or. intros _.
  destruct (ndt_bridge x t1 Ex) as (a & Da & Va & Ia). destruct (ndt_bridge y t2 Ey) as (b & Db & Vb & Ib).
  rewrite Da, Db. destruct (ndt_order_u a b Va Vb) as (d & Ed & Ec & En). rewrite Ed. cbn [val_of_R].
  rewrite Ec, En, Ia, Ib, cmpZ_diff. apply jrefl.
Qed.

(** * 3. Outputs of the Duration / FixedOffset forms against the judge's expectation *)
Lemma in_ns_fold t : (NS_MIN <=? t) && (t <=? NS_MAX) = in_ns_range t.
Proof. reflexivity. Qed.
Lemma panic_out_n t : in_ns_range t = false -> VPanic = J.wrap true (J.exp_inst t).
Proof. intros H. unfold J.exp_inst, J.in_ns. rewrite in_ns_fold, H. reflexivity. Qed.
Lemma panic_out_z off t : in_ns_range t = false -> VPanic = J.wrap true (J.exp_zinst off t).
Proof. intros H. unfold J.exp_zinst, J.in_ns. rewrite in_ns_fold, H. reflexivity. Qed.

Lemma std_out_n a (sg : bool) s n : nvalid a -> in_u64 s = true -> 0 <= n < G ->
  val_of_R enc_ndt (if sg then op_nadd_std_assign a s n else op_nsub_std_assign a s n)
  = J.wrap true (J.exp_inst (inst a + (if sg then 1 else -1) * (s * G + n))).
Proof.
  intros Va Hs Hn. destruct (ops_std_assign_exact a s n Va Hs Hn) as [A S].
  pose proof (nvalid_inst_range a Va) as Rg.
  assert (Hx : 0 <= s * G + n) by (unfold in_u64, in_range, G in *; lia).
  destruct sg.
  - replace (inst a + 1 * (s * G + n)) with (inst a + (s * G + n)) by lia.
    destruct (in_td_range (s * G + n)) eqn:Et; cbn [andb] in A.
    + apply wrap_exact. exact A.
    + rewrite A. apply panic_out_n.
      unfold in_td_range, in_ns_range, RMIN, RMAX, NS_MIN, NS_MAX in *. lia.
  - replace (inst a + -1 * (s * G + n)) with (inst a - (s * G + n)) by lia.
    destruct (in_td_range (s * G + n)) eqn:Et; cbn [andb] in S.
    + apply wrap_exact. exact S.
    + rewrite S. apply panic_out_n.
      unfold in_td_range, in_ns_range, RMIN, RMAX, NS_MIN, NS_MAX in *. lia.
Qed.
Lemma std_out_z u off (sg : bool) s n : nvalid u -> in_u64 s = true -> 0 <= n < G ->
  val_of_R enc_dtz (if sg then op_zadd_std_assign (mk_dtz u off) s n else op_zsub_std_assign (mk_dtz u off) s n)
  = J.wrap true (J.exp_zinst off (inst u + (if sg then 1 else -1) * (s * G + n))).
Proof.
  intros Vu Hs Hn. destruct (ops_zstd_assign_exact u off s n Vu Hs Hn) as [A S].
  pose proof (nvalid_inst_range u Vu) as Rg.
  assert (Hx : 0 <= s * G + n) by (unfold in_u64, in_range, G in *; lia).
  destruct sg.
  - replace (inst u + 1 * (s * G + n)) with (inst u + (s * G + n)) by lia.
    destruct (in_td_range (s * G + n)) eqn:Et; cbn [andb] in A.
    + apply wrap_zexact. exact A.
    + rewrite A. apply panic_out_z.
      unfold in_td_range, in_ns_range, RMIN, RMAX, NS_MIN, NS_MAX in *. lia.
  - replace (inst u + -1 * (s * G + n)) with (inst u - (s * G + n)) by lia.
    destruct (in_td_range (s * G + n)) eqn:Et; cbn [andb] in S.
    + apply wrap_zexact. exact S.
    + rewrite S. apply panic_out_z.
      unfold in_td_range, in_ns_range, RMIN, RMAX, NS_MIN, NS_MAX in *. lia.
Qed.
Lemma zstd_same a s n : op_zadd_std a s n = op_zadd_std_assign a s n /\ op_zsub_std a s n = op_zsub_std_assign a s n.
Proof.
  pose proof (ops_zstd_agree a s n) as A. pose proof (ops_zstd_assign_agree a s n) as S.
  destruct (from_std s n); destruct A as [A1 A2]; destruct S as [S1 S2]; rewrite A1, A2, S1, S2; split; reflexivity.
Qed.
Lemma noff_out a (sg : bool) off : nvalid a -> -86400 < off < 86400 ->
  val_of_R vo_ndt (if sg then ndt_checked_add_offset a off else ndt_checked_sub_offset a off)
  = J.wrap false (J.exp_inst (inst a + (if sg then 1 else -1) * off * J.G)).
Proof.
  intros Va Ho. destruct (ndt_offset_exact a off Va Ho) as [(r1 & E1 & R1) (r2 & E2 & R2)]. destruct sg.
  - rewrite E1. replace (inst a + 1 * off * J.G) with (inst a + off * G) by (unfold J.G, G; lia).
    exact (wrap_ndt false _ r1 R1).
  - rewrite E2. replace (inst a + -1 * off * J.G) with (inst a - off * G) by (unfold J.G, G; lia).
    exact (wrap_ndt false _ r2 R2).
Qed.
Lemma opnoff_out a (sg : bool) off : nvalid a -> -86400 < off < 86400 ->
  val_of_R enc_ndt (if sg then op_nadd_off a off else op_nsub_off a off)
  = J.wrap true (J.exp_inst (inst a + (if sg then 1 else -1) * off * J.G)).
Proof.
  intros Va Ho. destruct (ops_off_exact a off Va Ho) as [A S]. destruct sg.
  - replace (inst a + 1 * off * J.G) with (inst a + off * G) by (unfold J.G, G; lia). apply wrap_exact. exact A.
  - replace (inst a + -1 * off * J.G) with (inst a - off * G) by (unfold J.G, G; lia). apply wrap_exact. exact S.
Qed.
Lemma opzoff_out u zoff (sg : bool) off : nvalid u -> -86400 < off < 86400 ->
  val_of_R enc_dtz (if sg then op_zadd_off (mk_dtz u zoff) off else op_zsub_off (mk_dtz u zoff) off)
  = J.wrap true (J.exp_zinst zoff (inst u + (if sg then 1 else -1) * off * J.G)).
Proof.
  intros Vu Ho. destruct (ops_zoff_exact u zoff off Vu Ho) as [A S]. destruct sg.
  - replace (inst u + 1 * off * J.G) with (inst u + off * G) by (unfold J.G, G; lia). apply wrap_zexact. exact A.
  - replace (inst u + -1 * off * J.G) with (inst u - off * G) by (unfold J.G, G; lia). apply wrap_zexact. exact S.
Qed.

(** * 4. Per op, then all of them *)
Lemma h_nadd args : J.judge B"ar.nadd" args (run B"ar.nadd" args) <> JSkip -> J.judge B"ar.nadd" args (run B"ar.nadd" args) = JOk.
Proof.
  change (J.judge B"ar.nadd" args (run B"ar.nadd" args)) with (J.j_n_td false 1 args (a2 dec_ndt dec_td args (fun a d => val_of_R vo_ndt (ndt_checked_add_signed a d)))).
  apply n_td_holds. intros a d Va Vd. destruct (ndt_add_exact_u a d Va Vd) as (r & E & R). exists r. rewrite E. split; [reflexivity|]. replace (inst a + 1 * ns d) with (inst a + ns d) by lia. exact R.
Qed.
Lemma h_nsub args : J.judge B"ar.nsub" args (run B"ar.nsub" args) <> JSkip -> J.judge B"ar.nsub" args (run B"ar.nsub" args) = JOk.
Proof.
  change (J.judge B"ar.nsub" args (run B"ar.nsub" args)) with (J.j_n_td false (-1) args (a2 dec_ndt dec_td args (fun a d => val_of_R vo_ndt (ndt_checked_sub_signed a d)))).
  apply n_td_holds. intros a d Va Vd. destruct (ndt_sub_exact_u a d Va Vd) as (r & E & R). exists r. rewrite E. split; [reflexivity|]. replace (inst a + (-1) * ns d) with (inst a - ns d) by lia. exact R.
Qed.
Lemma h_opnadd args : J.judge B"ar.opnadd" args (run B"ar.opnadd" args) <> JSkip -> J.judge B"ar.opnadd" args (run B"ar.opnadd" args) = JOk.
Proof.
  change (J.judge B"ar.opnadd" args (run B"ar.opnadd" args)) with (J.j_n_td true 1 args (a2 dec_ndt dec_td args (fun a d => val_of_R enc_ndt (op_nadd_td a d)))).
  apply n_td_holds. intros a d Va Vd. destruct (ndt_add_exact_u a d Va Vd) as (r & E & R). exists r. unfold op_nadd_td. rewrite E. split; [reflexivity|]. replace (inst a + 1 * ns d) with (inst a + ns d) by lia. exact R.
Qed.
Lemma h_opnsub args : J.judge B"ar.opnsub" args (run B"ar.opnsub" args) <> JSkip -> J.judge B"ar.opnsub" args (run B"ar.opnsub" args) = JOk.
Proof.
  change (J.judge B"ar.opnsub" args (run B"ar.opnsub" args)) with (J.j_n_td true (-1) args (a2 dec_ndt dec_td args (fun a d => val_of_R enc_ndt (op_nsub_td a d)))).
  apply n_td_holds. intros a d Va Vd. destruct (ndt_sub_exact_u a d Va Vd) as (r & E & R). exists r. unfold op_nsub_td. rewrite E. split; [reflexivity|]. replace (inst a + (-1) * ns d) with (inst a - ns d) by lia. exact R.
Qed.
Lemma h_ndiff args : J.judge B"ar.ndiff" args (run B"ar.ndiff" args) <> JSkip -> J.judge B"ar.ndiff" args (run B"ar.ndiff" args) = JOk.
Proof.
  change (J.judge B"ar.ndiff" args (run B"ar.ndiff" args)) with (J.j_n_n args (a2 dec_ndt dec_ndt args (fun a b => val_of_R enc_td (ndt_signed_duration_since a b)))).
  apply (n_n_holds ndt_signed_duration_since). exact ndt_diff_exact_u.
Qed.
Lemma h_opndiff args : J.judge B"ar.opndiff" args (run B"ar.opndiff" args) <> JSkip -> J.judge B"ar.opndiff" args (run B"ar.opndiff" args) = JOk.
Proof.
  change (J.judge B"ar.opndiff" args (run B"ar.opndiff" args)) with (J.j_n_n args (a2 dec_ndt dec_ndt args (fun a b => val_of_R enc_td (op_nsub_ndt a b)))).
  apply (n_n_holds op_nsub_ndt). exact ndt_diff_exact_u.
Qed.
Lemma h_ndays args : J.judge B"ar.ndays" args (run B"ar.ndays" args) <> JSkip -> J.judge B"ar.ndays" args (run B"ar.ndays" args) = JOk.
Proof.
  change (J.judge B"ar.ndays" args (run B"ar.ndays" args)) with (J.j_n_days false args (a3 dec_ndt arg_sign arg_u64 args (fun a sg n => val_of_R vo_ndt (if sg then ndt_checked_add_days a n else ndt_checked_sub_days a n)))).
  apply n_days_holds. intros a sg n Va Hn. destruct (ndt_days_exact_u a n Va Hn) as [(r1 & E1 & R1) (r2 & E2 & R2)]. destruct sg; [exists r1; rewrite E1|exists r2; rewrite E2]; (split; [reflexivity|]); [replace (inst a + 1 * n * 86400000000000) with (inst a + n * DAYNS) by (unfold DAYNS; lia)|replace (inst a + -1 * n * 86400000000000) with (inst a - n * DAYNS) by (unfold DAYNS; lia)]; assumption.
Qed.
Lemma h_opndays args : J.judge B"ar.opndays" args (run B"ar.opndays" args) <> JSkip -> J.judge B"ar.opndays" args (run B"ar.opndays" args) = JOk.
Proof.
  change (J.judge B"ar.opndays" args (run B"ar.opndays" args)) with (J.j_n_days true args (a3 dec_ndt arg_sign arg_u64 args (fun a sg n => val_of_R enc_ndt (if sg then op_nadd_days a n else op_nsub_days a n)))).
  apply n_days_holds. intros a sg n Va Hn. destruct (ndt_days_exact_u a n Va Hn) as [(r1 & E1 & R1) (r2 & E2 & R2)]. unfold op_nadd_days, op_nsub_days. destruct sg; [exists r1; rewrite E1|exists r2; rewrite E2]; (split; [reflexivity|]); [replace (inst a + 1 * n * 86400000000000) with (inst a + n * DAYNS) by (unfold DAYNS; lia)|replace (inst a + -1 * n * 86400000000000) with (inst a - n * DAYNS) by (unfold DAYNS; lia)]; assumption.
Qed.
Lemma h_addstd args : J.judge B"ar.addstd" args (run B"ar.addstd" args) <> JSkip -> J.judge B"ar.addstd" args (run B"ar.addstd" args) = JOk.
Proof.
  change (J.judge B"ar.addstd" args (run B"ar.addstd" args)) with (J.j_n_std args (a_std dec_ndt args (fun a sg s n => val_of_R enc_ndt (if sg then op_nadd_std a s n else op_nsub_std a s n)))).
  apply n_std_holds. exact std_out_n.
Qed.
Lemma h_stdasg args : J.judge B"ar.stdasg" args (run B"ar.stdasg" args) <> JSkip -> J.judge B"ar.stdasg" args (run B"ar.stdasg" args) = JOk.
Proof.
  change (J.judge B"ar.stdasg" args (run B"ar.stdasg" args)) with (J.j_n_std args (a_std dec_ndt args (fun a sg s n => val_of_R enc_ndt (if sg then op_nadd_std_assign a s n else op_nsub_std_assign a s n)))).
  apply n_std_holds. exact std_out_n.
Qed.
Lemma h_nrt args : J.judge B"ar.nrt" args (run B"ar.nrt" args) <> JSkip -> J.judge B"ar.nrt" args (run B"ar.nrt" args) = JOk.
Proof.
  change (J.judge B"ar.nrt" args (run B"ar.nrt" args)) with (J.j_rt args (a2 dec_ndt dec_ndt args (fun a b => val_of_R vo_ndt (let* d := ndt_signed_duration_since a b in ndt_checked_add_signed b d)))).
  apply rt_holds.
Qed.
Lemma h_nord args : J.judge B"ar.nord" args (run B"ar.nord" args) <> JSkip -> J.judge B"ar.nord" args (run B"ar.nord" args) = JOk.
Proof.
  change (J.judge B"ar.nord" args (run B"ar.nord" args)) with (J.j_ord args (a2 dec_ndt dec_ndt args (fun a b => val_of_R (fun d => VTup [VInt (ndt_cmp a b); VInt (td_cmp d (mk_td 0 0))]) (ndt_signed_duration_since a b)))).
  apply ord_holds.
Qed.
Lemma h_dadd args : J.judge B"ar.dadd" args (run B"ar.dadd" args) <> JSkip -> J.judge B"ar.dadd" args (run B"ar.dadd" args) = JOk.
Proof.
  change (J.judge B"ar.dadd" args (run B"ar.dadd" args)) with (J.j_d_days false 1 args (a2 dec_date arg_u64 args (fun d n => val_of_R vo_date (Date.checked_add_days d n)))).
  apply d_days_holds. intros d n Vd Hn. destruct (date_add_days_exact_u d n Vd Hn) as (r & E & R). exists r. rewrite E. split; [reflexivity|]. replace (dn d + 1 * n) with (dn d + n) by lia. exact R.
Qed.
Lemma h_dsub args : J.judge B"ar.dsub" args (run B"ar.dsub" args) <> JSkip -> J.judge B"ar.dsub" args (run B"ar.dsub" args) = JOk.
Proof.
  change (J.judge B"ar.dsub" args (run B"ar.dsub" args)) with (J.j_d_days false (-1) args (a2 dec_date arg_u64 args (fun d n => val_of_R vo_date (Date.checked_sub_days d n)))).
  apply d_days_holds. intros d n Vd Hn. destruct (date_sub_days_exact_u d n Vd Hn) as (r & E & R). exists r. rewrite E. split; [reflexivity|]. replace (dn d + (-1) * n) with (dn d - n) by lia. exact R.
Qed.
Lemma h_opdadd args : J.judge B"ar.opdadd" args (run B"ar.opdadd" args) <> JSkip -> J.judge B"ar.opdadd" args (run B"ar.opdadd" args) = JOk.
Proof.
  change (J.judge B"ar.opdadd" args (run B"ar.opdadd" args)) with (J.j_d_days true 1 args (a2 dec_date arg_u64 args (fun d n => val_of_R enc_date (op_dadd_days d n)))).
  apply d_days_holds. intros d n Vd Hn. destruct (date_add_days_exact_u d n Vd Hn) as (r & E & R). exists r. unfold op_dadd_days. rewrite E. split; [reflexivity|]. replace (dn d + 1 * n) with (dn d + n) by lia. exact R.
Qed.
Lemma h_opdsub args : J.judge B"ar.opdsub" args (run B"ar.opdsub" args) <> JSkip -> J.judge B"ar.opdsub" args (run B"ar.opdsub" args) = JOk.
Proof.
  change (J.judge B"ar.opdsub" args (run B"ar.opdsub" args)) with (J.j_d_days true (-1) args (a2 dec_date arg_u64 args (fun d n => val_of_R enc_date (op_dsub_days d n)))).
  apply d_days_holds. intros d n Vd Hn. destruct (date_sub_days_exact_u d n Vd Hn) as (r & E & R). exists r. unfold op_dsub_days. rewrite E. split; [reflexivity|]. replace (dn d + (-1) * n) with (dn d - n) by lia. exact R.
Qed.
Lemma h_dadds args : J.judge B"ar.dadds" args (run B"ar.dadds" args) <> JSkip -> J.judge B"ar.dadds" args (run B"ar.dadds" args) = JOk.
Proof.
  change (J.judge B"ar.dadds" args (run B"ar.dadds" args)) with (J.j_d_td false 1 args (a2 dec_date dec_td args (fun d x => val_of_R vo_date (Date.checked_add_signed d x)))).
  apply d_td_holds. intros d x Vd Vx. destruct (date_add_signed_trunc_u d x Vd Vx) as (r & E & R). exists r. rewrite E. split; [reflexivity|]. replace (dn d + 1 * Z.quot (ns x) 86400000000000) with (dn d + Z.quot (ns x) DAYNS) by (unfold DAYNS; lia). exact R.
Qed.
Lemma h_dsubs args : J.judge B"ar.dsubs" args (run B"ar.dsubs" args) <> JSkip -> J.judge B"ar.dsubs" args (run B"ar.dsubs" args) = JOk.
Proof.
  change (J.judge B"ar.dsubs" args (run B"ar.dsubs" args)) with (J.j_d_td false (-1) args (a2 dec_date dec_td args (fun d x => val_of_R vo_date (Date.checked_sub_signed d x)))).
  apply d_td_holds. intros d x Vd Vx. destruct (date_sub_signed_trunc_u d x Vd Vx) as (r & E & R). exists r. rewrite E. split; [reflexivity|]. replace (dn d + (-1) * Z.quot (ns x) 86400000000000) with (dn d - Z.quot (ns x) DAYNS) by (unfold DAYNS; lia). exact R.
Qed.
Lemma h_opdadds args : J.judge B"ar.opdadds" args (run B"ar.opdadds" args) <> JSkip -> J.judge B"ar.opdadds" args (run B"ar.opdadds" args) = JOk.
Proof.
  change (J.judge B"ar.opdadds" args (run B"ar.opdadds" args)) with (J.j_d_td true 1 args (a2 dec_date dec_td args (fun d x => val_of_R enc_date (op_dadd_td d x)))).
  apply d_td_holds. intros d x Vd Vx. destruct (date_add_signed_trunc_u d x Vd Vx) as (r & E & R). exists r. unfold op_dadd_td. rewrite E. split; [reflexivity|]. replace (dn d + 1 * Z.quot (ns x) 86400000000000) with (dn d + Z.quot (ns x) DAYNS) by (unfold DAYNS; lia). exact R.
Qed.
Lemma h_opdsubs args : J.judge B"ar.opdsubs" args (run B"ar.opdsubs" args) <> JSkip -> J.judge B"ar.opdsubs" args (run B"ar.opdsubs" args) = JOk.
Proof.
  change (J.judge B"ar.opdsubs" args (run B"ar.opdsubs" args)) with (J.j_d_td true (-1) args (a2 dec_date dec_td args (fun d x => val_of_R enc_date (op_dsub_td d x)))).
  apply d_td_holds. intros d x Vd Vx. destruct (date_sub_signed_trunc_u d x Vd Vx) as (r & E & R). exists r. unfold op_dsub_td. rewrite E. split; [reflexivity|]. replace (dn d + (-1) * Z.quot (ns x) 86400000000000) with (dn d - Z.quot (ns x) DAYNS) by (unfold DAYNS; lia). exact R.
Qed.
Lemma h_ddiff args : J.judge B"ar.ddiff" args (run B"ar.ddiff" args) <> JSkip -> J.judge B"ar.ddiff" args (run B"ar.ddiff" args) = JOk.
Proof.
  change (J.judge B"ar.ddiff" args (run B"ar.ddiff" args)) with (J.j_d_d args (a2 dec_date dec_date args (fun a b => val_of_R enc_td (Date.signed_duration_since a b)))).
  apply (d_d_holds Date.signed_duration_since). reflexivity.
Qed.
Lemma h_opddiff args : J.judge B"ar.opddiff" args (run B"ar.opddiff" args) <> JSkip -> J.judge B"ar.opddiff" args (run B"ar.opddiff" args) = JOk.
Proof.
  change (J.judge B"ar.opddiff" args (run B"ar.opddiff" args)) with (J.j_d_d args (a2 dec_date dec_date args (fun a b => val_of_R enc_td (op_dsub_date a b)))).
  apply (d_d_holds op_dsub_date). reflexivity.
Qed.
Lemma h_zadd args : J.judge B"ar.zadd" args (run B"ar.zadd" args) <> JSkip -> J.judge B"ar.zadd" args (run B"ar.zadd" args) = JOk.
Proof.
  change (J.judge B"ar.zadd" args (run B"ar.zadd" args)) with (J.j_z_td false 1 args (a2 dec_dtz dec_td args (fun a d => val_of_R vo_dtz (dz_checked_add_signed a d)))).
  apply z_td_holds. intros u off d Vu Vd. destruct (zone_add_exact u off d Vu Vd) as (r & E & R). exists r. rewrite E. split; [reflexivity|]. replace (inst u + 1 * ns d) with (inst u + ns d) by lia. exact R.
Qed.
Lemma h_zsub args : J.judge B"ar.zsub" args (run B"ar.zsub" args) <> JSkip -> J.judge B"ar.zsub" args (run B"ar.zsub" args) = JOk.
Proof.
  change (J.judge B"ar.zsub" args (run B"ar.zsub" args)) with (J.j_z_td false (-1) args (a2 dec_dtz dec_td args (fun a d => val_of_R vo_dtz (dz_checked_sub_signed a d)))).
  apply z_td_holds. intros u off d Vu Vd. destruct (zone_sub_exact u off d Vu Vd) as (r & E & R). exists r. rewrite E. split; [reflexivity|]. replace (inst u + (-1) * ns d) with (inst u - ns d) by lia. exact R.
Qed.
Lemma h_opzadd args : J.judge B"ar.opzadd" args (run B"ar.opzadd" args) <> JSkip -> J.judge B"ar.opzadd" args (run B"ar.opzadd" args) = JOk.
Proof.
  change (J.judge B"ar.opzadd" args (run B"ar.opzadd" args)) with (J.j_z_td true 1 args (a2 dec_dtz dec_td args (fun a d => val_of_R enc_dtz (op_zadd_td a d)))).
  apply z_td_holds. intros u off d Vu Vd. destruct (zone_add_exact u off d Vu Vd) as (r & E & R). exists r. unfold op_zadd_td. rewrite E. split; [reflexivity|]. replace (inst u + 1 * ns d) with (inst u + ns d) by lia. exact R.
Qed.
Lemma h_opzsub args : J.judge B"ar.opzsub" args (run B"ar.opzsub" args) <> JSkip -> J.judge B"ar.opzsub" args (run B"ar.opzsub" args) = JOk.
Proof.
  change (J.judge B"ar.opzsub" args (run B"ar.opzsub" args)) with (J.j_z_td true (-1) args (a2 dec_dtz dec_td args (fun a d => val_of_R enc_dtz (op_zsub_td a d)))).
  apply z_td_holds. intros u off d Vu Vd. destruct (zone_sub_exact u off d Vu Vd) as (r & E & R). exists r. unfold op_zsub_td. rewrite E. split; [reflexivity|]. replace (inst u + (-1) * ns d) with (inst u - ns d) by lia. exact R.
Qed.
Lemma h_opzaddasg args : J.judge B"ar.opzaddasg" args (run B"ar.opzaddasg" args) <> JSkip -> J.judge B"ar.opzaddasg" args (run B"ar.opzaddasg" args) = JOk.
Proof.
  change (J.judge B"ar.opzaddasg" args (run B"ar.opzaddasg" args)) with (J.j_z_td true 1 args (a2 dec_dtz dec_td args (fun a d => val_of_R enc_dtz (op_zadd_assign a d)))).
  apply z_td_holds. intros u off d Vu Vd. destruct (zone_add_exact u off d Vu Vd) as (r & E & R). exists r. rewrite (proj1 (ops_assign_agree (mk_dtz u off) d)). unfold op_zadd_td. rewrite E. split; [reflexivity|]. replace (inst u + 1 * ns d) with (inst u + ns d) by lia. exact R.
Qed.
Lemma h_opzsubasg args : J.judge B"ar.opzsubasg" args (run B"ar.opzsubasg" args) <> JSkip -> J.judge B"ar.opzsubasg" args (run B"ar.opzsubasg" args) = JOk.
Proof.
  change (J.judge B"ar.opzsubasg" args (run B"ar.opzsubasg" args)) with (J.j_z_td true (-1) args (a2 dec_dtz dec_td args (fun a d => val_of_R enc_dtz (op_zsub_assign a d)))).
  apply z_td_holds. intros u off d Vu Vd. destruct (zone_sub_exact u off d Vu Vd) as (r & E & R). exists r. rewrite (proj2 (ops_assign_agree (mk_dtz u off) d)). unfold op_zsub_td. rewrite E. split; [reflexivity|]. replace (inst u + (-1) * ns d) with (inst u - ns d) by lia. exact R.
Qed.
Lemma h_zdiff args : J.judge B"ar.zdiff" args (run B"ar.zdiff" args) <> JSkip -> J.judge B"ar.zdiff" args (run B"ar.zdiff" args) = JOk.
Proof.
  change (J.judge B"ar.zdiff" args (run B"ar.zdiff" args)) with (J.j_z_z args (a2 dec_dtz dec_dtz args (fun a b => val_of_R enc_td (dz_signed_duration_since a b)))).
  apply (z_z_holds dz_signed_duration_since). reflexivity.
Qed.
Lemma h_opzdiff args : J.judge B"ar.opzdiff" args (run B"ar.opzdiff" args) <> JSkip -> J.judge B"ar.opzdiff" args (run B"ar.opzdiff" args) = JOk.
Proof.
  change (J.judge B"ar.opzdiff" args (run B"ar.opzdiff" args)) with (J.j_z_z args (a2 dec_dtz dec_dtz args (fun a b => val_of_R enc_td (op_zsub_z a b)))).
  apply (z_z_holds op_zsub_z). reflexivity.
Qed.
Lemma h_opzdiffref args : J.judge B"ar.opzdiffref" args (run B"ar.opzdiffref" args) <> JSkip -> J.judge B"ar.opzdiffref" args (run B"ar.opzdiffref" args) = JOk.
Proof.
  change (J.judge B"ar.opzdiffref" args (run B"ar.opzdiffref" args)) with (J.j_z_z args (a2 dec_dtz dec_dtz args (fun a b => val_of_R enc_td (op_zsub_zref a b)))).
  apply (z_z_holds op_zsub_zref). reflexivity.
Qed.
Lemma h_zaddstd args : J.judge B"ar.zaddstd" args (run B"ar.zaddstd" args) <> JSkip -> J.judge B"ar.zaddstd" args (run B"ar.zaddstd" args) = JOk.
Proof.
  change (J.judge B"ar.zaddstd" args (run B"ar.zaddstd" args)) with (J.j_z_std args (a_std dec_dtz args (fun a sg s n => val_of_R enc_dtz (if sg then op_zadd_std a s n else op_zsub_std a s n)))).
  apply z_std_holds. intros u off sg s n Vu Hs Hn. destruct (zstd_same (mk_dtz u off) s n) as [-> ->]. exact (std_out_z u off sg s n Vu Hs Hn).
Qed.
Lemma h_zstdasg args : J.judge B"ar.zstdasg" args (run B"ar.zstdasg" args) <> JSkip -> J.judge B"ar.zstdasg" args (run B"ar.zstdasg" args) = JOk.
Proof.
  change (J.judge B"ar.zstdasg" args (run B"ar.zstdasg" args)) with (J.j_z_std args (a_std dec_dtz args (fun a sg s n => val_of_R enc_dtz (if sg then op_zadd_std_assign a s n else op_zsub_std_assign a s n)))).
  apply z_std_holds. exact std_out_z.
Qed.
Lemma h_opdasg args : J.judge B"ar.opdasg" args (run B"ar.opdasg" args) <> JSkip -> J.judge B"ar.opdasg" args (run B"ar.opdasg" args) = JOk.
Proof.
  change (J.judge B"ar.opdasg" args (run B"ar.opdasg" args)) with (J.j_sg3 (J.j_d_td true) args (a3 dec_date arg_sign dec_td args (fun d sg x => val_of_R enc_date (if sg then op_dadd_assign d x else op_dsub_assign d x)))).
  apply sg3_d_td_holds. intros d sg x Vd Vx. destruct (date_add_signed_trunc_u d x Vd Vx) as (r1 & E1 & R1). destruct (date_sub_signed_trunc_u d x Vd Vx) as (r2 & E2 & R2). unfold op_dadd_assign, op_dsub_assign, op_dadd_td, op_dsub_td. destruct sg; [exists r1; rewrite E1|exists r2; rewrite E2]; (split; [reflexivity|]); [replace (dn d + 1 * Z.quot (ns x) 86400000000000) with (dn d + Z.quot (ns x) DAYNS) by (unfold DAYNS; lia)|replace (dn d + -1 * Z.quot (ns x) 86400000000000) with (dn d - Z.quot (ns x) DAYNS) by (unfold DAYNS; lia)]; assumption.
Qed.
Lemma h_opnasg args : J.judge B"ar.opnasg" args (run B"ar.opnasg" args) <> JSkip -> J.judge B"ar.opnasg" args (run B"ar.opnasg" args) = JOk.
Proof.
  change (J.judge B"ar.opnasg" args (run B"ar.opnasg" args)) with (J.j_sg3 (J.j_n_td true) args (a3 dec_ndt arg_sign dec_td args (fun a sg x => val_of_R enc_ndt (if sg then op_nadd_assign a x else op_nsub_assign a x)))).
  apply sg3_n_td_holds. intros a sg d Va Vd. destruct (ndt_add_exact_u a d Va Vd) as (r1 & E1 & R1). destruct (ndt_sub_exact_u a d Va Vd) as (r2 & E2 & R2). unfold op_nadd_assign, op_nsub_assign, op_nadd_td, op_nsub_td. destruct sg; [exists r1; rewrite E1|exists r2; rewrite E2]; (split; [reflexivity|]); [replace (inst a + 1 * ns d) with (inst a + ns d) by lia|replace (inst a + -1 * ns d) with (inst a - ns d) by lia]; assumption.
Qed.
Lemma h_noff args : J.judge B"ar.noff" args (run B"ar.noff" args) <> JSkip -> J.judge B"ar.noff" args (run B"ar.noff" args) = JOk.
Proof.
  change (J.judge B"ar.noff" args (run B"ar.noff" args)) with (J.j_n_off false args (a_off dec_ndt args (fun a sg off => val_of_R vo_ndt (if sg then ndt_checked_add_offset a off else ndt_checked_sub_offset a off)))).
  apply n_off_holds. exact noff_out.
Qed.
Lemma h_opnoff args : J.judge B"ar.opnoff" args (run B"ar.opnoff" args) <> JSkip -> J.judge B"ar.opnoff" args (run B"ar.opnoff" args) = JOk.
Proof.
  change (J.judge B"ar.opnoff" args (run B"ar.opnoff" args)) with (J.j_n_off true args (a_off dec_ndt args (fun a sg off => val_of_R enc_ndt (if sg then op_nadd_off a off else op_nsub_off a off)))).
  apply n_off_holds. exact opnoff_out.
Qed.
Lemma h_opzoff args : J.judge B"ar.opzoff" args (run B"ar.opzoff" args) <> JSkip -> J.judge B"ar.opzoff" args (run B"ar.opzoff" args) = JOk.
Proof.
  change (J.judge B"ar.opzoff" args (run B"ar.opzoff" args)) with (J.j_z_off args (a_off dec_dtz args (fun a sg off => val_of_R enc_dtz (if sg then op_zadd_off a off else op_zsub_off a off)))).
  apply z_off_holds. exact opzoff_out.
Qed.
Definition arith_ops : list bytes :=
  [B"ar.nadd"; B"ar.nsub"; B"ar.opnadd"; B"ar.opnsub"; B"ar.ndiff"; B"ar.opndiff"; B"ar.ndays"; B"ar.opndays"; B"ar.addstd"; B"ar.stdasg"; B"ar.nrt"; B"ar.nord"; B"ar.dadd"; B"ar.dsub"; B"ar.opdadd"; B"ar.opdsub"; B"ar.dadds"; B"ar.dsubs"; B"ar.opdadds"; B"ar.opdsubs"; B"ar.ddiff"; B"ar.opddiff"; B"ar.zadd"; B"ar.zsub"; B"ar.opzadd"; B"ar.opzsub"; B"ar.opzaddasg"; B"ar.opzsubasg"; B"ar.zdiff"; B"ar.opzdiff"; B"ar.opzdiffref"; B"ar.zaddstd"; B"ar.zstdasg"; B"ar.opdasg"; B"ar.opnasg"; B"ar.noff"; B"ar.opnoff"; B"ar.opzoff"].

Theorem holds_arith op args : In op arith_ops ->
  J.judge op args (run op args) <> JSkip -> J.judge op args (run op args) = JOk.
Proof.
  intros H. unfold arith_ops in H. cbn [In] in H.
  destruct H as [<-|H]; [exact (h_nadd args)|].
  destruct H as [<-|H]; [exact (h_nsub args)|].
  destruct H as [<-|H]; [exact (h_opnadd args)|].
  destruct H as [<-|H]; [exact (h_opnsub args)|].
  destruct H as [<-|H]; [exact (h_ndiff args)|].
  destruct H as [<-|H]; [exact (h_opndiff args)|].
  destruct H as [<-|H]; [exact (h_ndays args)|].
  destruct H as [<-|H]; [exact (h_opndays args)|].
  destruct H as [<-|H]; [exact (h_addstd args)|].
  destruct H as [<-|H]; [exact (h_stdasg args)|].
  destruct H as [<-|H]; [exact (h_nrt args)|].
  destruct H as [<-|H]; [exact (h_nord args)|].
  destruct H as [<-|H]; [exact (h_dadd args)|].
  destruct H as [<-|H]; [exact (h_dsub args)|].
  destruct H as [<-|H]; [exact (h_opdadd args)|].
  destruct H as [<-|H]; [exact (h_opdsub args)|].
  destruct H as [<-|H]; [exact (h_dadds args)|].
  destruct H as [<-|H]; [exact (h_dsubs args)|].
  destruct H as [<-|H]; [exact (h_opdadds args)|].
  destruct H as [<-|H]; [exact (h_opdsubs args)|].
  destruct H as [<-|H]; [exact (h_ddiff args)|].
  destruct H as [<-|H]; [exact (h_opddiff args)|].
  destruct H as [<-|H]; [exact (h_zadd args)|].
  destruct H as [<-|H]; [exact (h_zsub args)|].
  destruct H as [<-|H]; [exact (h_opzadd args)|].
  destruct H as [<-|H]; [exact (h_opzsub args)|].
  destruct H as [<-|H]; [exact (h_opzaddasg args)|].
  destruct H as [<-|H]; [exact (h_opzsubasg args)|].
  destruct H as [<-|H]; [exact (h_zdiff args)|].
  destruct H as [<-|H]; [exact (h_opzdiff args)|].
  destruct H as [<-|H]; [exact (h_opzdiffref args)|].
  destruct H as [<-|H]; [exact (h_zaddstd args)|].
  destruct H as [<-|H]; [exact (h_zstdasg args)|].
  destruct H as [<-|H]; [exact (h_opdasg args)|].
  destruct H as [<-|H]; [exact (h_opnasg args)|].
  destruct H as [<-|H]; [exact (h_noff args)|].
  destruct H as [<-|H]; [exact (h_opnoff args)|].
  destruct H as [<-|H]; [exact (h_opzoff args)|].
  contradiction.
Qed.

Lemma arith_examples :
  J.judge B"ar.opzoff" [VTup [VInt 262142; VInt 365; VInt 86399; VInt 999999999; VInt 3600]; VInt 1; VInt 1]
    (run B"ar.opzoff" [VTup [VInt 262142; VInt 365; VInt 86399; VInt 999999999; VInt 3600]; VInt 1; VInt 1]) = JOk /\
  J.judge B"ar.stdasg" [VTup [VInt 2024; VInt 60; VInt 0; VInt 0]; VInt (-1); VInt 86400; VInt 1]
    (run B"ar.stdasg" [VTup [VInt 2024; VInt 60; VInt 0; VInt 0]; VInt (-1); VInt 86400; VInt 1]) = JOk /\
  J.judge B"ar.opdasg" [VTup [VInt 2024; VInt 60]; VInt 1; VTup [VInt 86399; VInt 999999999]]
    (run B"ar.opdasg" [VTup [VInt 2024; VInt 60]; VInt 1; VTup [VInt 86399; VInt 999999999]]) = JOk.
Proof. vm_compute. repeat split; reflexivity. Qed.
