(** C03 — the judge of Judge/C03.v accepts the model's output on every in-domain case of the
    arithmetic ops (the ar ops), for arbitrary argument lists: bridges between the judge's reading of an
    argument (instant / day number / nanosecond count, Spec/Gregorian.v) and the model's decoded
    values, then one lemma per argument shape, then the assembly [holds_arith]. *)
From Coq Require Import String ZArith List Bool Lia ZifyBool.
From V Require Import Base.Int Base.IO Base.IntLemmas Spec.Gregorian Model.TimeDelta Model.DateTime Model.C03
  Gen.DateTimeConsts Proofs.C06 Proofs.C03 Proofs.C03Ops Proofs.C03Holds.
From V Require Model.Date Model.Time Judge.C03 Proofs.C01Holds Proofs.C08Date Proofs.C08Days Proofs.C03Zone.
Import ListNotations.
Open Scope Z_scope.
Ltac Zify.zify_post_hook ::= Z.to_euclidean_division_equations.

Module J := Judge.C03.
Notation jrefl := C01Holds.judge_eq_refl.

(** * 1. Bridges *)
(* naive date-time argument *)
Lemma inst_of_ndt_inv v t : J.inst_of_ndt v = J.AInst t ->
  exists y o s f, v = VTup [VInt y; VInt o; VInt s; VInt f].
Proof.
  unfold J.inst_of_ndt. destruct v as [| | | |l| | | |]; try discriminate.
  destruct l as [|[y| | | | | | | |] l]; try discriminate.
  destruct l as [|[o| | | | | | | |] l]; try discriminate.
  destruct l as [|[s| | | | | | | |] l]; try discriminate.
  destruct l as [|[f| | | | | | | |] l]; try discriminate.
  destruct l; try discriminate. intros _. exists y, o, s, f. reflexivity.
Qed.
Lemma fields_bridge y o s f t : J.inst_of_fields y o s f = J.AInst t ->
  exists a, dec_ndt (VTup [VInt y; VInt o; VInt s; VInt f]) = Some a /\ nvalid a /\ inst a = t.
Proof.
  unfold J.inst_of_fields, J.G.
  destruct (year_in_range y && valid_yo y o && (0 <=? s) && (s <? 86400) && (0 <=? f) && (f <? 2 * 1000000000)) eqn:E;
    [|discriminate].
  destruct (f <? 1000000000) eqn:El; [|discriminate]. intros [= <-].
  do 5 (apply andb_prop in E; destruct E as [E ?]). rename E into Hy.
  assert (Ho : valid_yo y o = true) by assumption.
  destruct (dec_date_ok y o Hy Ho) as (x & Hx & Vx & Dx & _).
  exists (mk_ndt x (Time.mk_time s f)). split; [|split].
  - unfold dec_ndt. change (VTup [VInt y; VInt o]) with (vd y o). rewrite Hx. unfold Time.dec_time.
    replace ((0 <=? s) && (s <? 86400) && (0 <=? f) && (f <? 2000000000)) with true by lia. reflexivity.
  - split; [exact Vx|]. unfold tvalid, G. cbn [nd_time Time.tsecs Time.tfrac]. lia.
  - unfold inst. cbn [nd_date nd_time Time.tsecs Time.tfrac]. rewrite Dx. reflexivity.
Qed.
Lemma ndt_bridge v t : J.inst_of_ndt v = J.AInst t ->
  exists a, dec_ndt v = Some a /\ nvalid a /\ inst a = t.
Proof.
  intros H. destruct (inst_of_ndt_inv v t H) as (y & o & s & f & ->). apply fields_bridge. exact H.
Qed.

(* zone-aware argument *)
Lemma dtz_bridge v t off : J.inst_of_dtz v = (J.AInst t, off) ->
  exists u, dec_dtz v = Some (mk_dtz u off) /\ nvalid u /\ inst u = t /\ -86400 < off < 86400.
Proof.
  unfold J.inst_of_dtz. destruct v as [| | | |l| | | |]; try discriminate.
  destruct l as [|[y| | | | | | | |] l]; try discriminate.
  destruct l as [|[o| | | | | | | |] l]; try discriminate.
  destruct l as [|[s| | | | | | | |] l]; try discriminate.
  destruct l as [|[f| | | | | | | |] l]; try discriminate.
  destruct l as [|[z| | | | | | | |] l]; try discriminate.
  destruct l; try discriminate.
  destruct ((-86400 <? z) && (z <? 86400)) eqn:Eo; [|discriminate].
  intros [= Hf <-]. destruct (fields_bridge y o s f t Hf) as (u & Hu & Vu & Iu).
  exists u. unfold dec_dtz. rewrite Hu. unfold east_opt, FO_EAST_LO, FO_EAST_HI. rewrite Eo.
  split; [reflexivity|]. split; [exact Vu|]. split; [exact Iu|lia].
Qed.

(* duration argument *)
Lemma td_bridge v x : J.ns_of_td v = Some x -> exists d, dec_td v = Some d /\ valid d /\ ns d = x.
Proof.
  unfold J.ns_of_td, J.in_td, J.G, J.RMIN, J.RMAX.
  destruct v as [| | | |l| | | |]; try discriminate.
  destruct l as [|[s| | | | | | | |] l]; try discriminate.
  destruct l as [|[n| | | | | | | |] l]; try discriminate.
  destruct l; try discriminate.
  destruct ((0 <=? n) && (n <? 1000000000) && ((-9223372036854775807000000 <=? s * 1000000000 + n) && (s * 1000000000 + n <=? 9223372036854775807000000))) eqn:E;
    [|discriminate].
  intros [= <-].
  assert (Hs : in_i64 s = true) by solve_in. assert (Hn : in_u32 n = true) by solve_in.
  unfold dec_td. rewrite Hs, Hn. cbn [andb]. pose proof (td_new_spec s n Hs Hn) as T.
  destruct (td_new s n) as [d|].
  - destruct T as (E1 & E2 & V). exists d. split; [reflexivity|]. split; [exact V|]. unfold ns, G. rewrite E1, E2. reflexivity.
  - exfalso. apply T. unfold in_rng, G, RMIN, RMAX. lia.
Qed.

(* date argument *)
Lemma date_bridge v n : J.dn_of_date v = Some n -> exists d, dec_date v = Some d /\ vdate d /\ dn d = n.
Proof.
  unfold J.dn_of_date. destruct v as [| | | |l| | | |]; try discriminate.
  destruct l as [|[y| | | | | | | |] l]; try discriminate.
  destruct l as [|[o| | | | | | | |] l]; try discriminate.
  destruct l; try discriminate.
  destruct (year_in_range y && valid_yo y o) eqn:E; [|discriminate]. intros [= <-].
  apply andb_prop in E. destruct E as [Hy Ho].
  destruct (dec_date_ok y o Hy Ho) as (x & Hx & Vx & Dx & _). exists x. auto.
Qed.

(* results *)
Lemma enc_fields_inst b : nvalid b ->
  J.enc_inst_fields (inst b) =
    [VInt (Date.d_year (nd_date b)); VInt (Date.d_ordinal (nd_date b)); VInt (Time.tsecs (nd_time b));
     VInt (Time.tfrac (nd_time b))].
Proof.
  intros [Vd [Hs Hf]]. pose proof (vdate_range _ Vd) as Rg. destruct Vd as [_ [Ho _]].
  unfold J.enc_inst_fields.
  assert (E1 : dn_of_nanos (inst b) = dn (nd_date b)).
  { rewrite inst_split. unfold dn_of_nanos, tns, DAYNS, G in *. lia. }
  assert (E2 : sod_of_nanos (inst b) = Time.tsecs (nd_time b)).
  { rewrite inst_split. unfold sod_of_nanos, tns, DAYNS, G in *. lia. }
  assert (E3 : frac_of_nanos (inst b) = Time.tfrac (nd_time b)).
  { rewrite inst_split. unfold frac_of_nanos, tns, DAYNS, G in *. lia. }
  rewrite E1, E2, E3. unfold dn. rewrite C08Days.yo_of_dn_of_yo by exact Ho. reflexivity.
Qed.
Lemma enc_ndt_inst b : nvalid b -> enc_ndt b = J.enc_inst (inst b).
Proof. intros Vb. unfold J.enc_inst. rewrite (enc_fields_inst b Vb). reflexivity. Qed.
Lemma enc_dtz_inst b off : nvalid b -> enc_dtz (mk_dtz b off) = J.enc_zinst (inst b) off.
Proof. intros Vb. unfold J.enc_zinst. rewrite (enc_fields_inst b Vb). reflexivity. Qed.
Lemma enc_td_ns d : valid d -> enc_td d = J.enc_ns (ns d).
Proof.
  intros [Hn _]. unfold enc_td, J.enc_ns, ns, J.G, G in *.
  replace ((secs d * 1000000000 + nanos d) / 1000000000) with (secs d) by lia.
  replace ((secs d * 1000000000 + nanos d) mod 1000000000) with (nanos d) by lia. reflexivity.
Qed.

(** a checked result and its operator form against the judge's [wrap] *)
Definition out_ndt (op_form : bool) (r : option ndt) : val :=
  if op_form then val_of_R enc_ndt (unwrap_r (Val r)) else val_of_R vo_ndt (Val r).
Lemma wrap_ndt op_form target r : ndt_res target r -> out_ndt op_form r = J.wrap op_form (J.exp_inst target).
Proof.
  unfold out_ndt, J.exp_inst, J.in_ns, ndt_res. destruct r as [b|]; cbn [unwrap_r unwrap bind val_of_R vo_ndt val_of_option].
  - intros [Vb Ib]. pose proof (nvalid_inst_range b Vb) as Rg. rewrite Ib in Rg.
    replace ((NS_MIN <=? target) && (target <=? NS_MAX)) with true by lia.
    rewrite (enc_ndt_inst b Vb), Ib. destruct op_form; reflexivity.
  - intros Hn. replace ((NS_MIN <=? target) && (target <=? NS_MAX)) with false by lia.
    destruct op_form; reflexivity.
Qed.
Definition zres (off target : Z) (r : option dtz) : Prop :=
  match r with
  | Some z => dz_off z = off /\ nvalid (dz_utc z) /\ inst (dz_utc z) = target
  | None => ~ (NS_MIN <= target <= NS_MAX)
  end.
Definition out_dtz (op_form : bool) (r : option dtz) : val :=
  if op_form then val_of_R enc_dtz (unwrap_r (Val r)) else val_of_R vo_dtz (Val r).
Lemma wrap_dtz op_form off target r : zres off target r -> out_dtz op_form r = J.wrap op_form (J.exp_zinst off target).
Proof.
  unfold out_dtz, J.exp_zinst, J.in_ns, zres. destruct r as [[b o]|]; cbn [unwrap_r unwrap bind val_of_R vo_dtz val_of_option dz_off dz_utc].
  - intros (-> & Vb & Ib). pose proof (nvalid_inst_range b Vb) as Rg. rewrite Ib in Rg.
    replace ((NS_MIN <=? target) && (target <=? NS_MAX)) with true by lia.
    change (enc_dtz {| dz_utc := b; dz_off := off |}) with (enc_dtz (mk_dtz b off)).
    rewrite (enc_dtz_inst b off Vb), Ib. destruct op_form; reflexivity.
  - intros Hn. replace ((NS_MIN <=? target) && (target <=? NS_MAX)) with false by lia.
    destruct op_form; reflexivity.
Qed.
Definition out_date (op_form : bool) (r : option Z) : val :=
  if op_form then val_of_R enc_date (unwrap_r (Val r)) else val_of_R vo_date (Val r).
Lemma wrap_date op_form d target r : date_res d target r -> out_date op_form r = J.wrap op_form (J.exp_dn target).
Proof.
  unfold out_date, J.exp_dn, date_res. destruct r as [x|]; cbn [unwrap_r unwrap bind val_of_R vo_date val_of_option].
  - intros [Vx Dx]. pose proof (vdate_range x Vx) as Rg. rewrite Dx in Rg.
    replace (dn_in_range target) with true by (unfold dn_in_range; lia).
    rewrite (enc_date_dn x Vx), Dx. destruct op_form; reflexivity.
  - intros ->. destruct op_form; reflexivity.
Qed.
