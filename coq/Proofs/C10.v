(** C10 proofs (under construction). *)
From Coq Require Import ZArith List Bool Lia ZifyBool String.
From V Require Import Base.Int Base.IO Base.Utf8 Model.Scan Model.DateTime Model.C10 Spec.Rfc3339.
Import ListNotations.
Open Scope Z_scope.

Lemma write_hundreds_spec w n : 0 <= n < 100 ->
  write_hundreds w n = Some (w ++ two n).
Proof.
  intros H. unfold write_hundreds, two, dig.
  destruct (n >=? 100) eqn:E; [lia|].
  rewrite Z.quot_div_nonneg, Z.rem_mod_nonneg by lia. reflexivity.
Qed.
