(** C10 proofs: the RFC 3339 reader never traps on well-formed UTF-8 and accepts exactly the
    grammar of Spec/Rfc3339.v with valid fields; the writer produces a string of the grammar that
    shows the fields of the value; round trip. *)
From Coq Require Import ZArith List Bool Lia ZifyBool String.
From V Require Import Base.Int Base.IntLemmas Base.IO Base.Utf8 Gen.ScanTables Model.Scan Model.DateTime Model.C10
  Spec.Gregorian Spec.Rfc3339 Proofs.Utf8 Proofs.Scan.
From V Require Model.Date Model.Time.
Import ListNotations.
Open Scope Z_scope.

Lemma write_hundreds_spec w n : 0 <= n < 100 ->
  write_hundreds w n = Some (w ++ two n).
Proof.
  intros H. unfold write_hundreds, two, dig.
  destruct (n >=? 100) eqn:E; [lia|].
  rewrite Z.quot_div_nonneg, Z.rem_mod_nonneg by lia. reflexivity.
Qed.

(** * Step 1: parse_rfc3339 never traps and equals a slicing-free function *)
Definition pb {X Y} (r : presult X) (f : X -> presult Y) : presult Y :=
  match r with POk x => f x | PErr e => PErr e end.
Definition char_pure (s : bytes) (c : Z) : presult bytes :=
  match s with x :: r => if x =? c then POk r else PErr Invalid | [] => PErr TooShort end.
Definition sep_pure (s : bytes) : presult bytes :=
  match s with
  | c :: r => if existsb (Z.eqb c) R3_SEPARATORS then POk r else PErr Invalid
  | [] => PErr TooShort
  end.
Definition set_hour_pure (p : parsed) (v : Z) : presult parsed :=
  if (0 <=? v) && (v <=? 23) then
    pb (set_if_consistent (p_hour_div_12 p) (if v <=? 11 then 0 else 1)) (fun d =>
    pb (set_if_consistent (p_hour_mod_12 p) (if v <=? 11 then v else v - 12)) (fun m =>
    POk (mk_parsed (p_year p) (p_month p) (p_day p) d m (p_minute p) (p_second p) (p_nanosecond p) (p_offset p))))
  else PErr OutOfRange.
Definition frac_pure (p : parsed) (s : bytes) : presult (parsed * bytes) :=
  match s with
  | c :: s1 =>
      if c =? 46 then
        pb (nanosecond_pure s1) (fun '(s2, nano) => pb (set_nanosecond p nano) (fun p' => POk (p', s2)))
      else POk (p, s)
  | [] => POk (p, s)
  end.
Definition scan_pure (s : bytes) : presult (parsed * bytes) :=
  pb (four_digits s) (fun '(s, v) => pb (set_year parsed_new v) (fun p =>
  pb (char_pure s 45) (fun s =>
  pb (two_digits s) (fun '(s, v) => pb (set_month p v) (fun p =>
  pb (char_pure s 45) (fun s =>
  pb (two_digits s) (fun '(s, v) => pb (set_day p v) (fun p =>
  pb (sep_pure s) (fun s =>
  pb (two_digits s) (fun '(s, v) => pb (set_hour_pure p v) (fun p =>
  pb (char_pure s 58) (fun s =>
  pb (two_digits s) (fun '(s, v) => pb (set_minute p v) (fun p =>
  pb (char_pure s 58) (fun s =>
  pb (two_digits s) (fun '(s, v) => pb (set_second p v) (fun p =>
  pb (frac_pure p s) (fun '(p, s) =>
  pb (tz_colon_pure s) (fun '(s, offset) =>
  if negb ((- MAX_RFC3339_OFFSET <=? offset) && (offset <=? MAX_RFC3339_OFFSET)) then PErr OutOfRange else
  pb (set_offset p offset) (fun p => POk (p, s))))))))))))))))))))).

Lemma char_pure_valid s c r : utf8_valid s = true -> 0 <= c <= 127 -> char_pure s c = POk r -> utf8_valid r = true.
Proof.
  unfold char_pure. destruct s as [|x r']; [discriminate|]. destruct (x =? c) eqn:E; [|discriminate].
  intros Hv Hc H. injection H as <-. assert (x = c) by lia. subst x. rewrite utf8_valid_ascii in Hv by lia. exact Hv.
Qed.
Lemma sep_pure_valid s r : utf8_valid s = true -> sep_pure s = POk r -> utf8_valid r = true.
Proof.
  unfold sep_pure. destruct s as [|x r']; [discriminate|].
  destruct (existsb (Z.eqb x) R3_SEPARATORS) eqn:E; [|discriminate].
  intros Hv H. injection H as <-. cbn in E. rewrite utf8_valid_ascii in Hv by lia. exact Hv.
Qed.
Lemma nanosecond_pure_valid s r v : utf8_valid s = true -> nanosecond_pure s = POk (r, v) ->
  utf8_valid r = true /\ 0 <= v <= 999999999.
Proof.
  intros Hv. unfold nanosecond_pure.
  destruct (digit_run_spec s) as (Hs & Hd & Ht). destruct (digit_run s) as [d t]. cbn [fst snd] in *.
  destruct d as [|c0 d0]; [discriminate|]. set (d := c0 :: d0) in *.
  set (w := digits_value (firstn 9 d) 0 * 10 ^ (9 - blen (firstn 9 d))).
  intros H. injection H as <- <-. split.
  - rewrite Hs in Hv. rewrite utf8_valid_app_ascii in Hv; [exact Hv|].
    eapply Forall_impl; [|apply all_digits_ascii; exact Hd]. cbn. intros a [Ha _]. exact Ha.
  - subst w. set (d9 := firstn 9 d).
    assert (Hd9 : forallb is_ascii_digit d9 = true) by (apply all_digits_firstn; exact Hd).
    pose proof (digits_value_bound d9 0 Hd9 ltac:(lia)) as Hb. change ((0 + 1) * 10 ^ blen d9) with (1 * 10 ^ blen d9) in Hb.
    pose proof (digits_value_mono d9 0 Hd9 ltac:(lia)) as Hnn.
    pose proof (blen_firstn_le 9 d) as Hle. fold d9 in Hle. pose proof (blen_nonneg d9) as Hge.
    assert (Hk : blen d9 = 0 \/ blen d9 = 1 \/ blen d9 = 2 \/ blen d9 = 3 \/ blen d9 = 4 \/ blen d9 = 5 \/ blen d9 = 6 \/ blen d9 = 7 \/ blen d9 = 8 \/ blen d9 = 9) by lia.
    destruct Hk as [Hk|[Hk|[Hk|[Hk|[Hk|[Hk|[Hk|[Hk|[Hk|Hk]]]]]]]]]; rewrite Hk in *;
      match goal with |- context [10 ^ ?e] => let v := eval compute in (10 ^ e) in change (10 ^ e) with v end;
      match type of Hb with context [10 ^ ?e] => let v := eval compute in (10 ^ e) in change (10 ^ e) with v in Hb end; lia.
Qed.
Lemma tz_tail_pure_valid neg s r v : utf8_valid s = true -> tz_tail_pure neg s = POk (r, v) -> utf8_valid r = true.
Proof.
  unfold tz_tail_pure. destruct s as [|h1 [|h2 [|x [|m1 [|m2 s4]]]]]; try discriminate;
  destruct (is_ascii_digit h1) eqn:E1; try discriminate; destruct (is_ascii_digit h2) eqn:E2; try discriminate; cbn [andb];
  try (destruct (x =? 58) eqn:Ex; discriminate).
  destruct (x =? 58) eqn:Ex; [|discriminate].
  destruct ((48 <=? m1) && (m1 <=? 53) && is_ascii_digit m2) eqn:Em.
  2:{ destruct ((54 <=? m1) && (m1 <=? 57) && is_ascii_digit m2); discriminate. }
  intros Hv H. injection H as <- _.
  pose proof (digit_range h1 E1). pose proof (digit_range h2 E2).
  apply andb_prop in Em. destruct Em as [Em1 Em2]. pose proof (digit_range m2 Em2).
  rewrite !utf8_valid_ascii in Hv by lia. exact Hv.
Qed.
Lemma tz_colon_pure_valid s r v : utf8_valid s = true -> tz_colon_pure s = POk (r, v) -> utf8_valid r = true.
Proof.
  unfold tz_colon_pure. destruct s as [|c r']; [discriminate|].
  destruct ((c =? 90) || (c =? 122)) eqn:Ez.
  { intros Hv H. injection H as <- _. rewrite utf8_valid_ascii in Hv by lia. exact Hv. }
  unfold tz_sign. destruct (c =? 43) eqn:E43.
  { intros Hv H. rewrite utf8_valid_ascii in Hv by lia. eapply tz_tail_pure_valid; eassumption. }
  destruct (c =? 45) eqn:E45.
  { intros Hv H. rewrite utf8_valid_ascii in Hv by lia. eapply tz_tail_pure_valid; eassumption. }
  destruct r' as [|c2 [|c3 r'']]; try discriminate.
  destruct ((c =? 226) && (c2 =? 136) && (c3 =? 146)) eqn:E; [|discriminate].
  assert (c = 226 /\ c2 = 136 /\ c3 = 146) as (-> & -> & ->) by lia.
  intros Hv H. rewrite utf8_valid_minus in Hv. eapply tz_tail_pure_valid; eassumption.
Qed.

Lemma set_hour_ok p v : set_hour p v = Val (set_hour_pure p v).
Proof.
  unfold set_hour, set_hour_pure.
  change P_HOUR_AM_LO with 0. change P_HOUR_AM_HI with 11. change P_HOUR_PM_LO with 12.
  change P_HOUR_PM_HI with 23. change P_HOUR_PM_SUB with 12.
  destruct ((0 <=? v) && (v <=? 11)) eqn:E1.
  - replace ((0 <=? v) && (v <=? 23)) with true by lia. replace (v <=? 11) with true by lia.
    rewrite as_u32_id by (unfold in_u32, in_range, u32_max; lia). cbn [bind]. unfold pb.
    destruct (set_if_consistent (p_hour_div_12 p) 0); [|reflexivity].
    destruct (set_if_consistent (p_hour_mod_12 p) v); reflexivity.
  - destruct ((12 <=? v) && (v <=? 23)) eqn:E2.
    + replace ((0 <=? v) && (v <=? 23)) with true by lia. replace (v <=? 11) with false by lia.
      rewrite as_u32_id by (unfold in_u32, in_range, u32_max; lia). unfold sub_u32.
      rewrite chk_in by (unfold in_u32, in_range, u32_max; lia). cbn [bind]. unfold pb.
      destruct (set_if_consistent (p_hour_div_12 p) 1); [|reflexivity].
      destruct (set_if_consistent (p_hour_mod_12 p) (v - 12)); reflexivity.
    + replace ((0 <=? v) && (v <=? 23)) with false by lia. reflexivity.
Qed.

Lemma char_ok' s c : utf8_valid s = true -> 0 <= c <= 127 -> char s c = Val (char_pure s c).
Proof. exact (char_ok s c). Qed.
Lemma sep_ok s : utf8_valid s = true ->
  match s with
  | [] => perr_ TooShort
  | c :: _ => if existsb (Z.eqb c) R3_SEPARATORS then plift (str_from s 1) else perr_ Invalid
  end = Val (sep_pure s).
Proof.
  intros Hv. unfold sep_pure. destruct s as [|c r]; [reflexivity|].
  destruct (existsb (Z.eqb c) R3_SEPARATORS) eqn:E; [|reflexivity].
  cbn in E. rewrite str_from_1; [reflexivity|].
  apply utf8_valid_starts_ok. rewrite utf8_valid_ascii in Hv by lia. exact Hv.
Qed.
Lemma frac_ok p s : utf8_valid s = true ->
  (if starts_with_byte s 46
   then let* s1 := str_from s 1 in
        let+ '(s2, nano) := nanosecond s1 in
        match set_nanosecond p nano with POk a => pok (a, s2) | PErr e => Val (PErr e) end
   else pok (p, s)) = Val (frac_pure p s).
Proof.
  intros Hv. unfold frac_pure, starts_with_byte. destruct s as [|c s1]; [reflexivity|].
  destruct (c =? 46) eqn:E; [|reflexivity]. assert (c = 46) by lia. subst c.
  rewrite utf8_valid_ascii in Hv by lia.
  rewrite str_from_1 by (apply utf8_valid_starts_ok; exact Hv). cbn [bind].
  rewrite nanosecond_ok by exact Hv. destruct (nanosecond_pure s1) as [[s2 nano]|e]; [|reflexivity].
  cbn [pbind bind pb]. destruct (set_nanosecond p nano); reflexivity.
Qed.
Lemma frac_pure_valid p s p' r : utf8_valid s = true -> frac_pure p s = POk (p', r) -> utf8_valid r = true.
Proof.
  unfold frac_pure. destruct s as [|c s1]; [intros Hv H; injection H as _ <-; exact Hv|].
  destruct (c =? 46) eqn:E; [|intros Hv H; injection H as _ <-; exact Hv].
  intros Hv. rewrite utf8_valid_ascii in Hv by lia.
  destruct (nanosecond_pure s1) as [[s2 nano]|e] eqn:En; [|discriminate]. cbn [pb].
  destruct (set_nanosecond p nano); [|discriminate]. cbn [pb]. intros H. injection H as _ <-.
  exact (proj1 (nanosecond_pure_valid _ _ _ Hv En)).
Qed.

Ltac step_set :=
  match goal with
  | |- context [pb (?f ?p ?v) _] =>
      destruct (f p v) eqn:?; cbn [pbind bind pb pok]; [|reflexivity]
  end.
Ltac step_two Hv :=
  rewrite number_2 by exact Hv;
  let s' := fresh "s" in let v := fresh "v" in let E := fresh "E" in let Hv' := fresh "Hv" in
  match goal with
  | |- context [pb (two_digits ?s) _] =>
      destruct (two_digits s) as [[s' v]|?] eqn:E; cbn [pbind bind pb pok]; [|reflexivity];
      pose proof (proj1 (two_digits_valid _ _ _ Hv E)) as Hv'
  end.
Ltac step_char Hv :=
  rewrite char_ok' by (exact Hv || lia);
  let s' := fresh "s" in let E := fresh "E" in let Hv' := fresh "Hv" in
  match goal with
  | |- context [pb (char_pure ?s ?c) _] =>
      destruct (char_pure s c) as [s'|?] eqn:E; cbn [pbind bind pb pok]; [|reflexivity];
      assert (Hv' : utf8_valid s' = true) by (apply (char_pure_valid s c s' Hv); [lia|exact E])
  end.

(** the reader's scanning phase never traps on a well-formed string *)
Theorem parse_rfc3339_ok s : utf8_valid s = true ->
  parse_rfc3339 parsed_new s = Val (scan_pure s).
Proof.
  intros Hv. unfold parse_rfc3339, scan_pure, consume_number, pure_set.
  change R3_YEAR_MIN with 4. change R3_YEAR_MAX with 4.
  change R3_MONTH_MIN with 2. change R3_MONTH_MAX with 2. change R3_DAY_MIN with 2. change R3_DAY_MAX with 2.
  change R3_HOUR_MIN with 2. change R3_HOUR_MAX with 2. change R3_MINUTE_MIN with 2. change R3_MINUTE_MAX with 2.
  change R3_SECOND_MIN with 2. change R3_SECOND_MAX with 2.
  rewrite number_4 by exact Hv.
  destruct (four_digits s) as [[s1 y]|e] eqn:E1; [|reflexivity].
  destruct (four_digits_valid _ _ _ Hv E1) as [Hv1 Hy]. cbn [pbind bind pb pok].
  step_set. step_char Hv1. step_two Hv0. step_set. step_char Hv2. step_two Hv3. step_set.
  rewrite sep_ok by exact Hv4.
  destruct (sep_pure s4) as [s5|?] eqn:E5; cbn [pbind bind pb pok]; [|reflexivity].
  pose proof (sep_pure_valid _ _ Hv4 E5) as Hv5.
  step_two Hv5. rewrite set_hour_ok. cbn [pbind bind]. step_set.
  step_char Hv6. step_two Hv7. step_set. step_char Hv8. step_two Hv9. step_set.
  rewrite frac_ok by exact Hv10.
  match goal with |- context [pb (frac_pure ?p ?s) _] =>
    destruct (frac_pure p s) as [[p5 s11]|?] eqn:E11; cbn [pbind bind pb pok]; [|reflexivity] end.
  pose proof (frac_pure_valid _ _ _ _ Hv10 E11) as Hv11.
  rewrite timezone_offset_colon_ok by exact Hv11.
  destruct (tz_colon_pure s11) as [[s12 off]|?]; cbn [pbind bind pb pok]; [|reflexivity].
  destruct (negb ((- MAX_RFC3339_OFFSET <=? off) && (off <=? MAX_RFC3339_OFFSET))); [reflexivity|].
  destruct (set_offset p5 off); reflexivity.
Qed.

(** * Step 2: the slicing-free scanner against the grammar recogniser (both pure) *)
Lemma take2_two s : take2 s = match two_digits s with POk (r, v) => Some (v, r) | PErr _ => None end.
Proof.
  unfold take2, two_digits, digv. destruct s as [|a [|b r]]; try reflexivity.
  change is_digit with is_ascii_digit. destruct (is_ascii_digit a), (is_ascii_digit b); reflexivity.
Qed.
Lemma take4_four s : take4 s = match four_digits s with POk (r, v) => Some (v, r) | PErr _ => None end.
Proof.
  unfold take4, take2, four_digits, digv. destruct s as [|a [|b [|c [|d r]]]]; try reflexivity;
  change is_digit with is_ascii_digit; destruct (is_ascii_digit a), (is_ascii_digit b); try reflexivity;
  try (destruct (is_ascii_digit c); reflexivity).
  destruct (is_ascii_digit c), (is_ascii_digit d); cbn [andb]; try reflexivity.
  do 2 f_equal. lia.
Qed.
Lemma expect_char c s : expect c s = match char_pure s c with POk r => Some r | PErr _ => None end.
Proof. unfold expect, char_pure. destruct s as [|x r]; [reflexivity|]. destruct (x =? c); reflexivity. Qed.
Lemma sep_pure_cons c r : sep_pure (c :: r) = if is_sep c then POk r else PErr Invalid.
Proof.
  unfold sep_pure, is_sep. cbn [existsb R3_SEPARATORS].
  destruct (c =? 116), (c =? 84), (c =? 32); reflexivity.
Qed.

Lemma take_digits_run s :
  take_digits s = (map (fun c => c - 48) (fst (digit_run s)), snd (digit_run s)).
Proof.
  induction s as [|c r IH]; [reflexivity|]. cbn [take_digits digit_run]. change is_digit with is_ascii_digit.
  destruct (is_ascii_digit c); [|reflexivity]. rewrite IH. destruct (digit_run r) as [d t]. reflexivity.
Qed.
(** value of the first [k] digits, scaled to [k] places = the spec's [frac_value] *)
Lemma frac_value_digits : forall k d acc,
  digits_value (firstn k d) acc * 10 ^ (Z.of_nat k - blen (firstn k d))
  = acc * 10 ^ Z.of_nat k + frac_value (map (fun c => c - 48) d) k.
Proof.
  induction k as [|k IH]; intros d acc.
  - cbn [firstn digits_value frac_value]. rewrite blen_nil. change (Z.of_nat 0) with 0. change (10 ^ (0 - 0)) with 1. change (10 ^ 0) with 1. lia.
  - destruct d as [|c r].
    + cbn [firstn digits_value map frac_value]. rewrite blen_nil. rewrite Z.sub_0_r. lia.
    + cbn [firstn digits_value map frac_value]. rewrite blen_cons.
      replace (Z.of_nat (S k) - (1 + blen (firstn k r))) with (Z.of_nat k - blen (firstn k r)) by lia.
      rewrite IH. replace (Z.of_nat (S k)) with (Z.succ (Z.of_nat k)) by lia.
      rewrite Z.pow_succ_r by lia. ring.
Qed.
Lemma nanos_frac d : digits_value (firstn 9 d) 0 * 10 ^ (9 - blen (firstn 9 d)) = frac_nanos (map (fun c => c - 48) d).
Proof. unfold frac_nanos. pose proof (frac_value_digits 9 d 0) as H. change (Z.of_nat 9) with 9 in H. rewrite H. lia. Qed.

Definition with_nano (p : parsed) (ds : list Z) : parsed :=
  match ds with
  | [] => p
  | _ => mk_parsed (p_year p) (p_month p) (p_day p) (p_hour_div_12 p) (p_hour_mod_12 p) (p_minute p) (p_second p)
           (Some (frac_nanos ds)) (p_offset p)
  end.
Lemma frac_rel p s : utf8_valid s = true -> p_nanosecond p = None -> exists e,
  frac_pure p s = match rec_frac s with Some (ds, r) => POk (with_nano p ds, r) | None => PErr e end.
Proof.
  intros Hv Hp. unfold frac_pure, rec_frac. destruct s as [|c s1]; [exists Invalid; reflexivity|].
  destruct (c =? 46) eqn:E; [|exists Invalid; reflexivity].
  rewrite utf8_valid_ascii in Hv by lia.
  rewrite take_digits_run. destruct (nanosecond_pure s1) as [[s2 nano]|e] eqn:En.
  - destruct (nanosecond_pure_valid _ _ _ Hv En) as [_ Hr]. unfold nanosecond_pure in En.
    destruct (digit_run s1) as [d t]. cbn [fst snd]. destruct d as [|c0 d0]; [discriminate|].
    set (d := c0 :: d0) in *. rewrite nanos_frac in En.
    set (w := frac_nanos (map (fun c => c - 48) d)) in *. injection En as <- <-.
    exists Invalid. cbn [pb]. unfold set_nanosecond, set_if_consistent. rewrite Hp.
    change P_NANOSECOND_LO with 0. change P_NANOSECOND_HI with 999999999.
    replace (negb ((0 <=? w) && (w <=? 999999999))) with false by lia.
    rewrite as_u32_id by (unfold in_u32, in_range, u32_max; lia). cbn [pb]. subst d. reflexivity.
  - unfold nanosecond_pure in En. destruct (digit_run s1) as [d t]. cbn [fst snd]. destruct d as [|c0 d0]; [|discriminate].
    exists e. reflexivity.
Qed.

Definition zone_min_ok (z : zone) : bool := match z with Zulu _ => true | Numeric _ _ mm => mm <=? 59 end.
Lemma tz_tail_rel neg sg r : (neg = negb (sg =? 0)) -> exists e,
  tz_tail_pure neg r = match rec_numeric sg r with
                       | Some (z, r') => if zone_min_ok z then POk (r', zone_offset z) else PErr OutOfRange
                       | None => PErr e end.
Proof.
  intros Hn. unfold tz_tail_pure, rec_numeric. rewrite take2_two. unfold two_digits.
  destruct r as [|h1 [|h2 s2]]; try (exists TooShort; reflexivity).
  destruct (is_ascii_digit h1 && is_ascii_digit h2) eqn:Eh; [|exists Invalid; reflexivity].
  cbn [obind]. rewrite expect_char. unfold char_pure.
  destruct s2 as [|x s3]; [exists TooShort; reflexivity|].
  destruct (x =? 58) eqn:Ex; [|exists Invalid; reflexivity]. cbn [obind].
  rewrite take2_two. unfold two_digits.
  destruct s3 as [|m1 [|m2 s4]]; try (exists TooShort; reflexivity).
  destruct (is_ascii_digit m2) eqn:E2.
  2:{ rewrite !andb_false_r. exists Invalid. reflexivity. }
  rewrite !andb_true_r.
  destruct (is_ascii_digit m1) eqn:E1.
  2:{ exists Invalid. unfold is_ascii_digit in E1.
      replace ((48 <=? m1) && (m1 <=? 53)) with false by lia. replace ((54 <=? m1) && (m1 <=? 57)) with false by lia. reflexivity. }
  pose proof (digit_range m1 E1). pose proof (digit_range m2 E2). cbn [obind zone_min_ok zone_offset].
  exists Invalid.
  destruct ((48 <=? m1) && (m1 <=? 53)) eqn:Em.
  - replace (10 * (m1 - 48) + (m2 - 48) <=? 59) with true by lia. do 2 f_equal.
    subst neg. destruct (sg =? 0); cbn [negb]; lia.
  - replace ((54 <=? m1) && (m1 <=? 57)) with true by lia.
    replace (10 * (m1 - 48) + (m2 - 48) <=? 59) with false by lia. reflexivity.
Qed.
Lemma tz_rel s : exists e,
  tz_colon_pure s = match rec_zone s with
                    | Some (z, r) => if zone_min_ok z then POk (r, zone_offset z) else PErr OutOfRange
                    | None => PErr e end.
Proof.
  unfold tz_colon_pure, rec_zone, tz_sign. destruct s as [|c r]; [exists TooShort; reflexivity|].
  destruct ((c =? 90) || (c =? 122)); [exists Invalid; reflexivity|].
  destruct (c =? 43); [apply tz_tail_rel; reflexivity|].
  destruct (c =? 45); [apply tz_tail_rel; reflexivity|].
  destruct r as [|c2 [|c3 r']]; try (exists Invalid; reflexivity).
  destruct ((c =? 226) && (c2 =? 136) && (c3 =? 146)); [apply tz_tail_rel; reflexivity|exists Invalid; reflexivity].
Qed.

(** the [Parsed] value the reader builds for recognised fields *)
Definition parsed_of (f : fields) : parsed :=
  mk_parsed (Some (f_year f)) (Some (f_month f)) (Some (f_day f))
    (Some (if f_hour f <=? 11 then 0 else 1))
    (Some (if f_hour f <=? 11 then f_hour f else f_hour f - 12))
    (Some (f_minute f)) (Some (f_second f))
    (match f_frac f with [] => None | ds => Some (frac_nanos ds) end)
    (Some (zone_offset (f_zone f))).
(** the part of [valid] the scanning phase checks (everything but the existence of the date) *)
Definition valid_nodate (f : fields) : bool :=
  (1 <=? f_month f) && (f_month f <=? 12) && (1 <=? f_day f) && (f_day f <=? 31)
  && (f_hour f <=? 23) && (f_minute f <=? 59) && (f_second f <=? 60) && valid_zone (f_zone f).

Lemma set_year_new y : 0 <= y <= 9999 ->
  set_year parsed_new y = POk (mk_parsed (Some y) None None None None None None None None).
Proof. intros H. unfold set_year. replace (in_i32 y) with true by (unfold in_i32, in_range, i32_min, i32_max; lia). reflexivity. Qed.
Lemma set_month_ok p v : p_month p = None -> set_month p v =
  if (1 <=? v) && (v <=? 12)
  then POk (mk_parsed (p_year p) (Some v) (p_day p) (p_hour_div_12 p) (p_hour_mod_12 p) (p_minute p) (p_second p) (p_nanosecond p) (p_offset p))
  else PErr OutOfRange.
Proof.
  intros Hp. unfold set_month. change P_MONTH_LO with 1. change P_MONTH_HI with 12.
  destruct ((1 <=? v) && (v <=? 12)) eqn:E; [|reflexivity]. cbn [negb]. rewrite Hp. cbn [set_if_consistent].
  rewrite as_u32_id by (unfold in_u32, in_range, u32_max; lia). reflexivity.
Qed.
Lemma set_day_ok p v : p_day p = None -> set_day p v =
  if (1 <=? v) && (v <=? 31)
  then POk (mk_parsed (p_year p) (p_month p) (Some v) (p_hour_div_12 p) (p_hour_mod_12 p) (p_minute p) (p_second p) (p_nanosecond p) (p_offset p))
  else PErr OutOfRange.
Proof.
  intros Hp. unfold set_day. change P_DAY_LO with 1. change P_DAY_HI with 31.
  destruct ((1 <=? v) && (v <=? 31)) eqn:E; [|reflexivity]. cbn [negb]. rewrite Hp. cbn [set_if_consistent].
  rewrite as_u32_id by (unfold in_u32, in_range, u32_max; lia). reflexivity.
Qed.
Lemma set_hour_pure_ok p v : p_hour_div_12 p = None -> p_hour_mod_12 p = None -> set_hour_pure p v =
  if (0 <=? v) && (v <=? 23)
  then POk (mk_parsed (p_year p) (p_month p) (p_day p) (Some (if v <=? 11 then 0 else 1)) (Some (if v <=? 11 then v else v - 12))
              (p_minute p) (p_second p) (p_nanosecond p) (p_offset p))
  else PErr OutOfRange.
Proof. intros H1 H2. unfold set_hour_pure. rewrite H1, H2. reflexivity. Qed.
Lemma set_minute_ok p v : p_minute p = None -> set_minute p v =
  if (0 <=? v) && (v <=? 59)
  then POk (mk_parsed (p_year p) (p_month p) (p_day p) (p_hour_div_12 p) (p_hour_mod_12 p) (Some v) (p_second p) (p_nanosecond p) (p_offset p))
  else PErr OutOfRange.
Proof.
  intros Hp. unfold set_minute. change P_MINUTE_LO with 0. change P_MINUTE_HI with 59.
  destruct ((0 <=? v) && (v <=? 59)) eqn:E; [|reflexivity]. cbn [negb]. rewrite Hp. cbn [set_if_consistent].
  rewrite as_u32_id by (unfold in_u32, in_range, u32_max; lia). reflexivity.
Qed.
Lemma set_second_ok p v : p_second p = None -> set_second p v =
  if (0 <=? v) && (v <=? 60)
  then POk (mk_parsed (p_year p) (p_month p) (p_day p) (p_hour_div_12 p) (p_hour_mod_12 p) (p_minute p) (Some v) (p_nanosecond p) (p_offset p))
  else PErr OutOfRange.
Proof.
  intros Hp. unfold set_second. change P_SECOND_LO with 0. change P_SECOND_HI with 60.
  destruct ((0 <=? v) && (v <=? 60)) eqn:E; [|reflexivity]. cbn [negb]. rewrite Hp. cbn [set_if_consistent].
  rewrite as_u32_id by (unfold in_u32, in_range, u32_max; lia). reflexivity.
Qed.
Lemma set_offset_ok p v : p_offset p = None -> -86340 <= v <= 86340 -> set_offset p v =
  POk (mk_parsed (p_year p) (p_month p) (p_day p) (p_hour_div_12 p) (p_hour_mod_12 p) (p_minute p) (p_second p) (p_nanosecond p) (Some v)).
Proof.
  intros Hp Hv. unfold set_offset. replace (in_i32 v) with true by (unfold in_i32, in_range, i32_min, i32_max; lia).
  cbn [negb]. rewrite Hp. reflexivity.
Qed.

Lemma rec_numeric_wf sg s z r : 0 <= sg <= 2 -> rec_numeric sg s = Some (z, r) -> wf_zone z = true.
Proof.
  intros Hsg. unfold rec_numeric. rewrite take2_two.
  destruct (two_digits s) as [[s1 hh]|] eqn:E1; [|discriminate]. cbn [obind]. rewrite expect_char.
  destruct (char_pure s1 58) as [s2|]; [|discriminate]. cbn [obind]. rewrite take2_two.
  destruct (two_digits s2) as [[s3 mm]|] eqn:E2; [|discriminate]. cbn [obind]. intros H. injection H as <- _.
  unfold two_digits in E1, E2.
  destruct s as [|a [|b t]]; try discriminate. destruct (is_ascii_digit a) eqn:Ea; [|discriminate]. destruct (is_ascii_digit b) eqn:Eb; [|discriminate].
  destruct s2 as [|a' [|b' t']]; try discriminate. destruct (is_ascii_digit a') eqn:Ea'; [|discriminate]. destruct (is_ascii_digit b') eqn:Eb'; [|discriminate].
  cbn [andb] in E1, E2.
  set (v1 := 10 * (a - 48) + (b - 48)) in *. set (v2 := 10 * (a' - 48) + (b' - 48)) in *.
  injection E1 as _ <-. injection E2 as _ <-. subst v1 v2.
  pose proof (digit_range a Ea). pose proof (digit_range b Eb). pose proof (digit_range a' Ea'). pose proof (digit_range b' Eb').
  unfold wf_zone, is2. lia.
Qed.
Lemma rec_zone_wf s z r : rec_zone s = Some (z, r) -> wf_zone z = true.
Proof.
  unfold rec_zone. destruct s as [|c t]; [discriminate|].
  destruct ((c =? 90) || (c =? 122)) eqn:Ez. { intros H. injection H as <- _. exact Ez. }
  destruct (c =? 43). { apply rec_numeric_wf. lia. }
  destruct (c =? 45). { apply rec_numeric_wf. lia. }
  destruct t as [|c2 [|c3 t']]; try discriminate.
  destruct ((c =? 226) && (c2 =? 136) && (c3 =? 146)); [|discriminate]. apply rec_numeric_wf. lia.
Qed.

Lemma map_dig_ok l : forallb is_ascii_digit l = true -> forallb is_dig (map (fun c => c - 48) l) = true.
Proof.
  induction l as [|x l IH]; [reflexivity|]. cbn [map forallb]. intros Hd.
  apply andb_prop in Hd. destruct Hd as [Hx Hl]. pose proof (digit_range x Hx).
  rewrite (IH Hl). unfold is_dig. lia.
Qed.
(** soundness of the scanning phase: success means the grammar matched with valid time fields *)
Lemma scan_pure_sound s p rest : utf8_valid s = true -> scan_pure s = POk (p, rest) ->
  match recognise_prefix s with
  | Some (f, rest') => rest' = rest /\ valid_nodate f = true /\ p = parsed_of f /\ wf f = true
  | None => False
  end.
Proof.
  intros Hv H. unfold scan_pure in H. unfold recognise_prefix.
  rewrite take4_four. destruct (four_digits s) as [[s1 y]|] eqn:E1; [|discriminate]. cbn [pb obind] in *.
  destruct (four_digits_valid _ _ _ Hv E1) as [Hv1 Hy]. rewrite set_year_new in H by exact Hy. cbn [pb] in H.
  rewrite expect_char. destruct (char_pure s1 45) as [s2|] eqn:E2; [|discriminate]. cbn [pb obind] in *.
  pose proof (fun pf => char_pure_valid _ _ _ Hv1 pf E2) as Hv2; specialize (Hv2 ltac:(lia)).
  rewrite take2_two. destruct (two_digits s2) as [[s3 mo]|] eqn:E3; [|discriminate]. cbn [pb obind] in *.
  destruct (two_digits_valid _ _ _ Hv2 E3) as [Hv3 Hmo]. rewrite set_month_ok in H by reflexivity.
  destruct ((1 <=? mo) && (mo <=? 12)) eqn:Rmo; [|discriminate]. cbn [pb p_year p_month p_day p_hour_div_12 p_hour_mod_12 p_minute p_second p_nanosecond p_offset] in H.
  rewrite expect_char. destruct (char_pure s3 45) as [s4|] eqn:E4; [|discriminate]. cbn [pb obind] in *.
  pose proof (fun pf => char_pure_valid _ _ _ Hv3 pf E4) as Hv4; specialize (Hv4 ltac:(lia)).
  rewrite take2_two. destruct (two_digits s4) as [[s5 d]|] eqn:E5; [|discriminate]. cbn [pb obind] in *.
  destruct (two_digits_valid _ _ _ Hv4 E5) as [Hv5 Hd]. rewrite set_day_ok in H by reflexivity.
  destruct ((1 <=? d) && (d <=? 31)) eqn:Rd; [|discriminate]. cbn [pb p_year p_month p_day p_hour_div_12 p_hour_mod_12 p_minute p_second p_nanosecond p_offset] in H.
  destruct s5 as [|sepc s6]; [discriminate|]. rewrite sep_pure_cons in H.
  destruct (is_sep sepc) eqn:Esep; [|discriminate]. cbn [pb negb] in *.
  assert (Hv6 : utf8_valid s6 = true) by (apply (sep_pure_valid (sepc :: s6)); [exact Hv5|rewrite sep_pure_cons, Esep; reflexivity]).
  rewrite take2_two. destruct (two_digits s6) as [[s7 h]|] eqn:E7; [|discriminate]. cbn [pb obind] in *.
  destruct (two_digits_valid _ _ _ Hv6 E7) as [Hv7 Hh]. rewrite set_hour_pure_ok in H by reflexivity.
  destruct ((0 <=? h) && (h <=? 23)) eqn:Rh; [|discriminate]. cbn [pb p_year p_month p_day p_hour_div_12 p_hour_mod_12 p_minute p_second p_nanosecond p_offset] in H.
  rewrite expect_char. destruct (char_pure s7 58) as [s8|] eqn:E8; [|discriminate]. cbn [pb obind] in *.
  pose proof (fun pf => char_pure_valid _ _ _ Hv7 pf E8) as Hv8; specialize (Hv8 ltac:(lia)).
  rewrite take2_two. destruct (two_digits s8) as [[s9 mi]|] eqn:E9; [|discriminate]. cbn [pb obind] in *.
  destruct (two_digits_valid _ _ _ Hv8 E9) as [Hv9 Hmi]. rewrite set_minute_ok in H by reflexivity.
  destruct ((0 <=? mi) && (mi <=? 59)) eqn:Rmi; [|discriminate]. cbn [pb p_year p_month p_day p_hour_div_12 p_hour_mod_12 p_minute p_second p_nanosecond p_offset] in H.
  rewrite expect_char. destruct (char_pure s9 58) as [s10|] eqn:E10; [|discriminate]. cbn [pb obind] in *.
  pose proof (fun pf => char_pure_valid _ _ _ Hv9 pf E10) as Hv10; specialize (Hv10 ltac:(lia)).
  rewrite take2_two. destruct (two_digits s10) as [[s11 sec]|] eqn:E11; [|discriminate]. cbn [pb obind] in *.
  destruct (two_digits_valid _ _ _ Hv10 E11) as [Hv11 Hsec]. rewrite set_second_ok in H by reflexivity.
  destruct ((0 <=? sec) && (sec <=? 60)) eqn:Rsec; [|discriminate]. cbn [pb p_year p_month p_day p_hour_div_12 p_hour_mod_12 p_minute p_second p_nanosecond p_offset] in H.
  match type of H with context [frac_pure ?q s11] => destruct (frac_rel q s11 Hv11 eq_refl) as [e Hf]; rewrite Hf in H; clear Hf end.
  destruct (rec_frac s11) as [[fr s12]|] eqn:E12; [|discriminate]. cbn [pb obind] in *.
  destruct (tz_rel s12) as [e' Hz]. rewrite Hz in H. clear Hz.
  destruct (rec_zone s12) as [[z s13]|] eqn:E13; [|discriminate]. cbn [pb obind] in *.
  destruct (zone_min_ok z) eqn:Zm; [|discriminate]. cbn [pb] in H.
  change (- MAX_RFC3339_OFFSET) with (-86340) in H. change MAX_RFC3339_OFFSET with 86340 in H.
  destruct ((-86340 <=? zone_offset z) && (zone_offset z <=? 86340)) eqn:Ro; [|discriminate]. cbn [negb] in H.
  pose proof (rec_zone_wf _ _ _ E13) as Hwz.
  rewrite set_offset_ok in H by (try lia; destruct fr; reflexivity). cbn [pb] in H.
  injection H as <- <-. split; [reflexivity|].
  assert (Hfr : forallb is_dig fr = true).
  { clear - E12. unfold rec_frac in E12. destruct s11 as [|c t]; [injection E12 as <- _; reflexivity|].
    destruct (c =? 46); [|injection E12 as <- _; reflexivity].
    rewrite take_digits_run in E12. destruct (digit_run_spec t) as (_ & Hd & _).
    destruct (digit_run t) as [dd tt]. cbn [fst snd] in *.
    destruct dd as [|c0 d0]; [discriminate|]. injection E12 as <- _.
    change (forallb is_dig (map (fun c => c - 48) (c0 :: d0)) = true). apply map_dig_ok. exact Hd. }
  unfold valid_nodate, parsed_of, wf, valid_zone. cbn [f_year f_month f_day f_sep f_hour f_minute f_second f_frac f_zone].
  repeat split.
  - destruct z as [c|sg hh mm]; [lia|]. cbn [zone_min_ok zone_offset wf_zone] in *. unfold is2 in Hwz.
    destruct (sg =? 0); lia.
  - destruct fr; reflexivity.
  - unfold is_sep in Esep. unfold is2. rewrite Hfr, Hwz. lia.
Qed.

(** completeness of the scanning phase: a string of the grammar with valid time fields is scanned *)
Lemma scan_pure_complete s f rest : utf8_valid s = true ->
  recognise_prefix s = Some (f, rest) -> valid_nodate f = true ->
  scan_pure s = POk (parsed_of f, rest).
Proof.
  intros Hv H Hval. unfold recognise_prefix in H.
  rewrite take4_four in H. destruct (four_digits s) as [[s1 y]|] eqn:E1; [|discriminate]. cbn [obind] in H.
  destruct (four_digits_valid _ _ _ Hv E1) as [Hv1 Hy].
  rewrite expect_char in H. destruct (char_pure s1 45) as [s2|] eqn:E2; [|discriminate]. cbn [obind] in H.
  pose proof (fun pf => char_pure_valid _ _ _ Hv1 pf E2) as Hv2; specialize (Hv2 ltac:(lia)).
  rewrite take2_two in H. destruct (two_digits s2) as [[s3 mo]|] eqn:E3; [|discriminate]. cbn [obind] in H.
  destruct (two_digits_valid _ _ _ Hv2 E3) as [Hv3 Hmo].
  rewrite expect_char in H. destruct (char_pure s3 45) as [s4|] eqn:E4; [|discriminate]. cbn [obind] in H.
  pose proof (fun pf => char_pure_valid _ _ _ Hv3 pf E4) as Hv4; specialize (Hv4 ltac:(lia)).
  rewrite take2_two in H. destruct (two_digits s4) as [[s5 d]|] eqn:E5; [|discriminate]. cbn [obind] in H.
  destruct (two_digits_valid _ _ _ Hv4 E5) as [Hv5 Hd].
  destruct s5 as [|sepc s6]; [discriminate|].
  destruct (is_sep sepc) eqn:Esep; [|discriminate]. cbn [negb] in H.
  assert (Hv6 : utf8_valid s6 = true) by (apply (sep_pure_valid (sepc :: s6)); [exact Hv5|rewrite sep_pure_cons, Esep; reflexivity]).
  rewrite take2_two in H. destruct (two_digits s6) as [[s7 h]|] eqn:E7; [|discriminate]. cbn [obind] in H.
  destruct (two_digits_valid _ _ _ Hv6 E7) as [Hv7 Hh].
  rewrite expect_char in H. destruct (char_pure s7 58) as [s8|] eqn:E8; [|discriminate]. cbn [obind] in H.
  pose proof (fun pf => char_pure_valid _ _ _ Hv7 pf E8) as Hv8; specialize (Hv8 ltac:(lia)).
  rewrite take2_two in H. destruct (two_digits s8) as [[s9 mi]|] eqn:E9; [|discriminate]. cbn [obind] in H.
  destruct (two_digits_valid _ _ _ Hv8 E9) as [Hv9 Hmi].
  rewrite expect_char in H. destruct (char_pure s9 58) as [s10|] eqn:E10; [|discriminate]. cbn [obind] in H.
  pose proof (fun pf => char_pure_valid _ _ _ Hv9 pf E10) as Hv10; specialize (Hv10 ltac:(lia)).
  rewrite take2_two in H. destruct (two_digits s10) as [[s11 sec]|] eqn:E11; [|discriminate]. cbn [obind] in H.
  destruct (two_digits_valid _ _ _ Hv10 E11) as [Hv11 Hsec].
  destruct (rec_frac s11) as [[fr s12]|] eqn:E12; [|discriminate]. cbn [obind] in H.
  destruct (rec_zone s12) as [[z s13]|] eqn:E13; [|discriminate]. cbn [obind] in H.
  injection H as <- <-.
  unfold valid_nodate in Hval. cbn [f_year f_month f_day f_sep f_hour f_minute f_second f_frac f_zone] in Hval.
  pose proof (rec_zone_wf _ _ _ E13) as Hwz.
  unfold scan_pure, parsed_of. cbn [f_year f_month f_day f_sep f_hour f_minute f_second f_frac f_zone].
  rewrite E1. cbn [pb]. rewrite set_year_new by exact Hy. cbn [pb].
  rewrite E2. cbn [pb]. rewrite E3. cbn [pb]. rewrite set_month_ok by reflexivity.
  replace ((1 <=? mo) && (mo <=? 12)) with true by lia. cbn [pb p_year p_month p_day p_hour_div_12 p_hour_mod_12 p_minute p_second p_nanosecond p_offset].
  rewrite E4. cbn [pb]. rewrite E5. cbn [pb]. rewrite set_day_ok by reflexivity.
  replace ((1 <=? d) && (d <=? 31)) with true by lia. cbn [pb p_year p_month p_day p_hour_div_12 p_hour_mod_12 p_minute p_second p_nanosecond p_offset].
  rewrite sep_pure_cons, Esep. cbn [pb]. rewrite E7. cbn [pb]. rewrite set_hour_pure_ok by reflexivity.
  replace ((0 <=? h) && (h <=? 23)) with true by lia. cbn [pb p_year p_month p_day p_hour_div_12 p_hour_mod_12 p_minute p_second p_nanosecond p_offset].
  rewrite E8. cbn [pb]. rewrite E9. cbn [pb]. rewrite set_minute_ok by reflexivity.
  replace ((0 <=? mi) && (mi <=? 59)) with true by lia. cbn [pb p_year p_month p_day p_hour_div_12 p_hour_mod_12 p_minute p_second p_nanosecond p_offset].
  rewrite E10. cbn [pb]. rewrite E11. cbn [pb]. rewrite set_second_ok by reflexivity.
  replace ((0 <=? sec) && (sec <=? 60)) with true by lia. cbn [pb p_year p_month p_day p_hour_div_12 p_hour_mod_12 p_minute p_second p_nanosecond p_offset].
  match goal with |- context [frac_pure ?q s11] => destruct (frac_rel q s11 Hv11 eq_refl) as [e Hf]; rewrite Hf; clear Hf end.
  rewrite E12. cbn [pb].
  destruct (tz_rel s12) as [e' Hz]. rewrite Hz, E13. clear Hz.
  assert (Hzo : zone_min_ok z = true /\ -86340 <= zone_offset z <= 86340).
  { destruct z as [c|sg hh mm]; [cbn; lia|]. cbn [zone_min_ok zone_offset valid_zone wf_zone] in *. unfold is2 in Hwz.
    destruct (sg =? 0); lia. }
  destruct Hzo as [Hzm Hzo]. rewrite Hzm. cbn [pb].
  change (- MAX_RFC3339_OFFSET) with (-86340). change MAX_RFC3339_OFFSET with 86340.
  replace ((-86340 <=? zone_offset z) && (zone_offset z <=? 86340)) with true by lia. cbn [negb].
  rewrite set_offset_ok by (try lia; destruct fr; reflexivity). cbn [pb].
  destruct fr; reflexivity.
Qed.

(** * Step 3: resolution of the parsed fields (narrow Parsed::to_datetime) *)
Lemma frac_value_bound ds : forall k, forallb is_dig ds = true -> 0 <= frac_value ds k < 10 ^ Z.of_nat k.
Proof.
  intros k. revert ds. induction k as [|k IH]; intros ds Hd.
  - cbn [frac_value]. change (10 ^ Z.of_nat 0) with 1. lia.
  - replace (Z.of_nat (S k)) with (Z.succ (Z.of_nat k)) by lia. rewrite Z.pow_succ_r by lia.
    assert (0 < 10 ^ Z.of_nat k) by (apply Z.pow_pos_nonneg; lia).
    destruct ds as [|d r]; cbn [frac_value]; [lia|].
    cbn [forallb] in Hd. apply andb_prop in Hd. destruct Hd as [Hd Hr]. unfold is_dig in Hd.
    specialize (IH r Hr). set (P := 10 ^ Z.of_nat k) in *. clearbody P.
    assert (0 <= d * P <= 9 * P) by (split; [apply Z.mul_nonneg_nonneg; lia|apply Z.mul_le_mono_nonneg_r; lia]).
    lia.
Qed.
Lemma frac_nanos_bound ds : forallb is_dig ds = true -> 0 <= frac_nanos ds <= 999999999.
Proof. intros H. pose proof (frac_value_bound ds 9 H) as B. change (10 ^ Z.of_nat 9) with 1000000000 in B. unfold frac_nanos. lia. Qed.

Definition time_of (f : fields) : Time.ntime :=
  Time.mk_time (f_hour f * 3600 + f_minute f * 60 + (if f_second f =? 60 then 59 else f_second f))
               (frac_nanos (f_frac f) + (if f_second f =? 60 then 1000000000 else 0)).

Lemma to_naive_time_ok f : wf f = true -> valid_nodate f = true ->
  to_naive_time (parsed_of f) = Val (POk (time_of f)).
Proof.
  intros Hw Hv. unfold wf, is2 in Hw. unfold valid_nodate in Hv.
  assert (Hfr : forallb is_dig (f_frac f) = true).
  { apply andb_prop in Hw. destruct Hw as [Hw _]. apply andb_prop in Hw. exact (proj2 Hw). }
  pose proof (frac_nanos_bound _ Hfr) as Hn.
  assert (Hr : 0 <= f_hour f <= 23 /\ 0 <= f_minute f <= 59 /\ 0 <= f_second f <= 60).
  { clear Hn Hfr. repeat (apply andb_prop in Hw; destruct Hw as [Hw ?]). repeat (apply andb_prop in Hv; destruct Hv as [Hv ?]). lia. }
  clear Hw Hv.
  unfold to_naive_time, parsed_of, time_of.
  cbn [p_year p_month p_day p_hour_div_12 p_hour_mod_12 p_minute p_second p_nanosecond p_offset].
  set (h := f_hour f) in *. set (mi := f_minute f) in *. set (sec := f_second f) in *.
  replace ((0 <=? (if h <=? 11 then 0 else 1)) && ((if h <=? 11 then 0 else 1) <=? 1)) with true by (destruct (h <=? 11); reflexivity).
  cbn [pbind bind pok].
  replace ((0 <=? (if h <=? 11 then h else h - 12)) && ((if h <=? 11 then h else h - 12) <=? 11)) with true by (destruct (h <=? 11) eqn:E; lia).
  cbn [pbind bind pok].
  unfold mul_u32, add_u32.
  rewrite chk_in by (unfold in_u32, in_range, u32_max; destruct (h <=? 11); lia). cbn [bind].
  rewrite chk_in by (unfold in_u32, in_range, u32_max; destruct (h <=? 11) eqn:E; lia). cbn [bind].
  replace ((if h <=? 11 then 0 else 1) * 12 + (if h <=? 11 then h else h - 12)) with h by (destruct (h <=? 11) eqn:E; lia).
  replace ((0 <=? mi) && (mi <=? 59)) with true by lia. cbn [pbind bind pok].
  destruct (sec =? 60) eqn:E60.
  - replace ((0 <=? sec) && (sec <=? 59)) with false by lia. cbn [pbind bind pok].
    assert (Hx : (let+ extra := match (match f_frac f with [] => None | _ :: _ => Some (frac_nanos (f_frac f)) end) with
                   | Some v => if (0 <=? v) && (v <=? 999999999) then pok v else perr_ OutOfRange
                   | None => pok 0 end in pok extra) = pok (frac_nanos (f_frac f))).
    { destruct (f_frac f) eqn:Ef; [reflexivity|]. rewrite <- Ef in *.
      replace ((0 <=? frac_nanos (f_frac f)) && (frac_nanos (f_frac f) <=? 999999999)) with true by lia. reflexivity. }
    destruct (f_frac f) as [|d0 r0] eqn:Ef.
    + cbn [pbind bind pok]. rewrite chk_in by (unfold in_u32, in_range, u32_max; lia). cbn [bind].
      unfold Time.from_hms_nano_opt, mul_u32, add_u32.
      replace (((h >=? 24) || (mi >=? 60) || (59 >=? 60)) || ((1000000000 + 0 >=? 1000000000) && negb (59 =? 59)) || (1000000000 + 0 >=? 2000000000)) with false by lia.
      rewrite chk_in by (unfold in_u32, in_range, u32_max; lia). cbn [bind].
      rewrite chk_in by (unfold in_u32, in_range, u32_max; lia). cbn [bind].
      rewrite chk_in by (unfold in_u32, in_range, u32_max; lia). cbn [bind].
      rewrite chk_in by (unfold in_u32, in_range, u32_max; lia). cbn [bind].
      unfold pok. apply f_equal, f_equal. change (frac_nanos []) with 0. f_equal; lia.
    + rewrite <- Ef in *. clear Hx.
      replace ((0 <=? frac_nanos (f_frac f)) && (frac_nanos (f_frac f) <=? 999999999)) with true by lia.
      cbn [pbind bind pok]. rewrite chk_in by (unfold in_u32, in_range, u32_max; lia). cbn [bind].
      unfold Time.from_hms_nano_opt, mul_u32, add_u32.
      set (n := 1000000000 + frac_nanos (f_frac f)) in *.
      replace (((h >=? 24) || (mi >=? 60) || (59 >=? 60)) || ((n >=? 1000000000) && negb (59 =? 59)) || (n >=? 2000000000)) with false by lia.
      rewrite chk_in by (unfold in_u32, in_range, u32_max; lia). cbn [bind].
      rewrite chk_in by (unfold in_u32, in_range, u32_max; lia). cbn [bind].
      rewrite chk_in by (unfold in_u32, in_range, u32_max; lia). cbn [bind].
      rewrite chk_in by (unfold in_u32, in_range, u32_max; lia). cbn [bind].
      unfold pok. apply f_equal, f_equal. f_equal; lia.
  - replace ((0 <=? sec) && (sec <=? 59)) with true by lia. cbn [pbind bind pok].
    destruct (f_frac f) as [|d0 r0] eqn:Ef.
    + cbn [pbind bind pok]. rewrite chk_in by (unfold in_u32, in_range, u32_max; lia). cbn [bind].
      unfold Time.from_hms_nano_opt, mul_u32, add_u32.
      replace (((h >=? 24) || (mi >=? 60) || (sec >=? 60)) || ((0 + 0 >=? 1000000000) && negb (sec =? 59)) || (0 + 0 >=? 2000000000)) with false by lia.
      rewrite chk_in by (unfold in_u32, in_range, u32_max; lia). cbn [bind].
      rewrite chk_in by (unfold in_u32, in_range, u32_max; lia). cbn [bind].
      rewrite chk_in by (unfold in_u32, in_range, u32_max; lia). cbn [bind].
      rewrite chk_in by (unfold in_u32, in_range, u32_max; lia). cbn [bind].
      unfold pok. apply f_equal, f_equal. change (frac_nanos []) with 0. f_equal; lia.
    + rewrite <- Ef in *.
      replace ((0 <=? frac_nanos (f_frac f)) && (frac_nanos (f_frac f) <=? 999999999)) with true by lia.
      cbn [pbind bind pok]. rewrite chk_in by (unfold in_u32, in_range, u32_max; lia). cbn [bind].
      unfold Time.from_hms_nano_opt, mul_u32, add_u32.
      set (n := 0 + frac_nanos (f_frac f)) in *.
      replace (((h >=? 24) || (mi >=? 60) || (sec >=? 60)) || ((n >=? 1000000000) && negb (sec =? 59)) || (n >=? 2000000000)) with false by lia.
      rewrite chk_in by (unfold in_u32, in_range, u32_max; lia). cbn [bind].
      rewrite chk_in by (unfold in_u32, in_range, u32_max; lia). cbn [bind].
      rewrite chk_in by (unfold in_u32, in_range, u32_max; lia). cbn [bind].
      rewrite chk_in by (unfold in_u32, in_range, u32_max; lia). cbn [bind].
      unfold pok. apply f_equal, f_equal. f_equal; lia.
Qed.

(** calendar arithmetic used below (pure Spec/Gregorian.v facts) *)
Lemma ordinal_bound y m d : valid_ymd y m d = true -> 1 <= ordinal_of_md (is_leap y) m d <= 366.
Proof.
  unfold valid_ymd, ordinal_of_md. intros H.
  assert (Hm : m = 1 \/ m = 2 \/ m = 3 \/ m = 4 \/ m = 5 \/ m = 6 \/ m = 7 \/ m = 8 \/ m = 9 \/ m = 10 \/ m = 11 \/ m = 12) by lia.
  destruct (is_leap y);
  destruct Hm as [->|[->|[->|[->|[->|[->|[->|[->|[->|[->|[->| ->]]]]]]]]]]];
  match goal with |- context [cum_days ?l ?m] => let v := eval vm_compute in (cum_days l m) in change (cum_days l m) with v end;
  match type of H with context [days_in_month ?l ?m] => let v := eval vm_compute in (days_in_month l m) in change (days_in_month l m) with v in H end;
  lia.
Qed.
Definition DAY_LO := -366.      (* 31 December of year -1 *)
Definition DAY_HI := 3652061.   (* 2 January of year 10000 *)
Lemma dn_range y m d : 0 <= y <= 9999 -> valid_ymd y m d = true -> DAY_LO < dn_of_ymd y m d < DAY_HI.
Proof.
  intros Hy Hv. pose proof (ordinal_bound y m d Hv) as Ho.
  unfold dn_of_ymd, dn_of_yo, days_before_year, DAY_LO, DAY_HI. cbv zeta.
  set (o := ordinal_of_md (is_leap y) m d) in *. clearbody o. lia.
Qed.

Definition tuple_of (a : dtz) : Z * Z * Z * Z * Z :=
  (Date.d_year (nd_date (dz_utc a)), Date.d_ordinal (nd_date (dz_utc a)),
   Time.tsecs (nd_time (dz_utc a)), Time.tfrac (nd_time (dz_utc a)), dz_off a).

(** [good dt n]: the NaiveDate value [dt] (packed word) is the day with number [n].  The facts
    below are the part of C01 (calendar forms agree) this property rests on, for the years an
    RFC 3339 string can name and one day around them. *)
Record date_facts (good : Z -> Z -> Prop) : Prop := {
  df_year : forall dt n, good dt n -> Date.d_year dt = year_of_dn n;
  df_ordinal : forall dt n, good dt n -> Date.d_ordinal dt = ordinal_of_dn n;
  df_month : forall dt n, good dt n -> DAY_LO <= n <= DAY_HI ->
    Date.d_month dt = Val (fst (md_of_ordinal (is_leap (year_of_dn n)) (ordinal_of_dn n)));
  df_day : forall dt n, good dt n -> DAY_LO <= n <= DAY_HI ->
    Date.d_day dt = Val (snd (md_of_ordinal (is_leap (year_of_dn n)) (ordinal_of_dn n)));
  df_ymd_some : forall y m d, 0 <= y <= 9999 -> 1 <= m <= 12 -> 1 <= d <= 31 -> valid_ymd y m d = true ->
    exists dt, Date.from_ymd_opt y m d = Val (Some dt) /\ good dt (dn_of_ymd y m d);
  df_ymd_none : forall y m d, 0 <= y <= 9999 -> 1 <= m <= 12 -> 1 <= d <= 31 -> valid_ymd y m d = false ->
    Date.from_ymd_opt y m d = Val None;
  df_ndce : forall dt n, good dt n -> DAY_LO <= n <= DAY_HI -> Date.num_days_from_ce dt = Val n;
  df_pred : forall dt n, good dt n -> DAY_LO < n <= DAY_HI ->
    exists dt', Date.pred_opt dt = Val (Some dt') /\ good dt' (n - 1);
  df_succ : forall dt n, good dt n -> DAY_LO <= n < DAY_HI ->
    exists dt', Date.succ_opt dt = Val (Some dt') /\ good dt' (n + 1) }.

Section WithDateFacts.
  Variable good : Z -> Z -> Prop.
  Hypothesis DF : date_facts good.
  Let good_year := df_year good DF.
  Let good_ordinal := df_ordinal good DF.
  Let ymd_some := df_ymd_some good DF.
  Let ymd_none := df_ymd_none good DF.
  Let good_ndce := df_ndce good DF.
  Let good_pred := df_pred good DF.
  Let good_succ := df_succ good DF.

  Lemma to_datetime_ok f : wf f = true -> valid_nodate f = true ->
    if valid_ymd (f_year f) (f_month f) (f_day f)
    then exists a, to_datetime (parsed_of f) = Val (POk a) /\ tuple_of a = denote f
    else to_datetime (parsed_of f) = Val (PErr OutOfRange).
  Proof.
    intros Hw Hv. pose proof (to_naive_time_ok f Hw Hv) as Ht.
    assert (Hfr : forallb is_dig (f_frac f) = true).
    { unfold wf in Hw. apply andb_prop in Hw. destruct Hw as [Hw _]. apply andb_prop in Hw. exact (proj2 Hw). }
    pose proof (frac_nanos_bound _ Hfr) as Hn.
    assert (Hr : 0 <= f_year f <= 9999 /\ 1 <= f_month f <= 12 /\ 1 <= f_day f <= 31 /\
                 0 <= f_hour f <= 23 /\ 0 <= f_minute f <= 59 /\ 0 <= f_second f <= 60 /\
                 -86340 <= zone_offset (f_zone f) <= 86340).
    { clear Ht Hn Hfr. unfold wf, is2 in Hw. unfold valid_nodate in Hv.
      repeat (apply andb_prop in Hw; destruct Hw as [Hw ?]). repeat (apply andb_prop in Hv; destruct Hv as [Hv ?]).
      destruct (f_zone f) as [c|sg hh mm]; [cbn [zone_offset]; lia|].
      cbn [zone_offset valid_zone wf_zone] in *. unfold is2 in *. destruct (sg =? 0); lia. }
    destruct Hr as (Hy & Hmo & Hd & Hh & Hmi & Hs & Hoff).
    unfold to_datetime. change (p_offset (parsed_of f)) with (Some (zone_offset (f_zone f))). cbv beta iota.
    set (off := zone_offset (f_zone f)) in *.
    unfold to_naive_datetime_with_offset. rewrite Ht.
    unfold to_naive_date. change (p_year (parsed_of f)) with (Some (f_year f)).
    change (p_month (parsed_of f)) with (Some (f_month f)). change (p_day (parsed_of f)) with (Some (f_day f)). cbv beta iota.
    destruct (valid_ymd (f_year f) (f_month f) (f_day f)) eqn:Evd.
    2:{ rewrite (ymd_none _ _ _ Hy Hmo Hd Evd). reflexivity. }
    destruct (ymd_some _ _ _ Hy Hmo Hd Evd) as (dt & Hdt & Hgood). rewrite Hdt.
    pose proof (dn_range _ _ _ Hy Evd) as Hdn. set (n := dn_of_ymd (f_year f) (f_month f) (f_day f)) in *.
    unfold DAY_LO, DAY_HI in *.
    cbn [bind pbind pok]. unfold dt_timestamp. cbn [nd_date nd_time].
    rewrite (good_ndce dt n Hgood) by (unfold DAY_LO, DAY_HI; lia). cbn [bind].
    unfold time_of, Time.num_seconds_from_midnight. cbn [Time.tsecs Time.tfrac].
    set (ls := f_hour f * 3600 + f_minute f * 60 + (if f_second f =? 60 then 59 else f_second f)) in *.
    assert (Hls : 0 <= ls < 86400) by (subst ls; destruct (f_second f =? 60) eqn:E; lia).
    set (fr := frac_nanos (f_frac f) + (if f_second f =? 60 then 1000000000 else 0)) in *.
    change Gen.DateTimeConsts.UNIX_EPOCH_DAY with 719163.
    unfold sub_i64, mul_i64, add_i64.
    rewrite chk_in by (unfold in_i64, in_range, i64_min, i64_max; lia). cbn [bind].
    rewrite chk_in by (unfold in_i64, in_range, i64_min, i64_max; lia). cbn [bind].
    rewrite chk_in by (unfold in_i64, in_range, i64_min, i64_max; lia). cbn [bind].
    rewrite chk_in by (unfold in_i64, in_range, i64_min, i64_max; lia). cbn [bind pbind pok].
    unfold east_opt. change Gen.DateTimeConsts.FO_EAST_LO with (-86400). change Gen.DateTimeConsts.FO_EAST_HI with 86400.
    replace ((-86400 <? off) && (off <? 86400)) with true by lia.
    unfold from_local_datetime, ndt_checked_sub_offset, Time.overflowing_sub_offset. cbn [nd_date nd_time Time.tsecs Time.tfrac].
    rewrite as_i32_id by (unfold in_i32, in_range, i32_min, i32_max; lia).
    unfold sub_i32. rewrite chk_in by (unfold in_i32, in_range, i32_min, i32_max; lia). cbn [bind].
    rewrite div_euclid_pos, rem_euclid_pos by lia.
    set (t := ls - off) in *.
    assert (Hq : -1 <= t / 86400 <= 1) by lia.
    rewrite chk_in by (unfold in_i32, in_range, i32_min, i32_max; lia). cbn [bind].
    replace (in_i32 (t / 86400)) with true by (unfold in_i32, in_range, i32_min, i32_max; lia). cbn [bind].
    rewrite as_u32_id by (unfold in_u32, in_range, u32_max; lia).
    unfold shift_date_checked.
    assert (Hden : forall dt', good dt' (n + t / 86400) ->
      tuple_of (mk_dtz (mk_ndt dt' (Time.mk_time (t mod 86400) fr)) off) = denote f).
    { intros dt' Hg. unfold tuple_of, denote. cbn [dz_utc dz_off nd_date nd_time Time.tsecs Time.tfrac].
      rewrite (good_year _ _ Hg), (good_ordinal _ _ Hg). unfold year_of_dn, ordinal_of_dn.
      fold off. fold n. fold ls. fold t.
      destruct (yo_of_dn (n + t / 86400)) as [yy oo]. reflexivity. }
    destruct (t / 86400 =? -1) eqn:Em1.
    - destruct (good_pred dt n Hgood) as (dt' & Hp & Hg'); [unfold DAY_LO, DAY_HI; lia|].
      rewrite Hp. cbn [obind bind]. eexists. split; [reflexivity|]. apply Hden.
      replace (n + t / 86400) with (n - 1) by lia. exact Hg'.
    - destruct (t / 86400 =? 1) eqn:E1.
      + destruct (good_succ dt n Hgood) as (dt' & Hp & Hg'); [unfold DAY_LO, DAY_HI; lia|].
        rewrite Hp. cbn [obind bind]. eexists. split; [reflexivity|]. apply Hden.
        replace (n + t / 86400) with (n + 1) by lia. exact Hg'.
      + cbn [obind bind]. eexists. split; [reflexivity|]. apply Hden.
        replace (n + t / 86400) with n by lia. exact Hgood.
  Qed.

  Lemma valid_split f : valid_nodate f = true -> valid f = valid_ymd (f_year f) (f_month f) (f_day f).
  Proof.
    unfold valid_nodate, valid. intros H. repeat (apply andb_prop in H; destruct H as [H ?]).
    destruct (valid_ymd (f_year f) (f_month f) (f_day f)); [|reflexivity].
    repeat match goal with H : _ = true |- _ => rewrite H; clear H end. reflexivity.
  Qed.
  Lemma valid_nodate_of_valid f : valid f = true -> valid_nodate f = true.
  Proof.
    unfold valid_nodate, valid. intros H. repeat (apply andb_prop in H; destruct H as [H ?]).
    assert (Hd : (1 <=? f_month f) && (f_month f <=? 12) && (1 <=? f_day f) && (f_day f <=? 31) = true).
    { unfold valid_ymd in H. repeat (apply andb_prop in H; destruct H as [H ?]).
      assert (f_day f <= 31); [|lia].
      unfold days_in_month in *. destruct (f_month f =? 2); [destruct (is_leap (f_year f)); lia|].
      destruct ((f_month f =? 4) || (f_month f =? 6) || (f_month f =? 9) || (f_month f =? 11)); lia. }
    rewrite Hd. repeat match goal with H : _ = true |- _ => rewrite H; clear H end. reflexivity.
  Qed.

  (** ** exact acceptance: for every well-formed UTF-8 string the reader returns the denoted value
      when the string is in the grammar with valid fields, and an error value otherwise; it never
      traps *)
  Theorem parse_exact s : utf8_valid s = true ->
    exists r, parse_from_rfc3339 s = Val r /\
      match accepts s with
      | Some v => exists a, r = POk a /\ tuple_of a = v
      | None => exists e, r = PErr e
      end.
  Proof.
    intros Hv. unfold parse_from_rfc3339. rewrite parse_rfc3339_ok by exact Hv.
    destruct (scan_pure s) as [[p rest]|e] eqn:Es.
    - cbn [pbind bind]. pose proof (scan_pure_sound s p rest Hv Es) as Hs.
      destruct (recognise_prefix s) as [[f rest']|] eqn:Er; [|contradiction].
      destruct Hs as (-> & Hvn & -> & Hwf).
      unfold accepts, recognise. rewrite Er.
      destruct rest as [|c rest].
      + cbn [is_empty negb]. pose proof (to_datetime_ok f Hwf Hvn) as Ht.
        rewrite (valid_split f Hvn).
        destruct (valid_ymd (f_year f) (f_month f) (f_day f)).
        * destruct Ht as (a & Ha & Htu). exists (POk a). split; [exact Ha|]. exists a. split; [reflexivity|exact Htu].
        * exists (PErr OutOfRange). split; [exact Ht|]. exists OutOfRange. reflexivity.
      + cbn [is_empty negb]. exists (PErr TooLong). split; [reflexivity|]. exists TooLong. reflexivity.
    - cbn [pbind bind]. exists (PErr e). split; [reflexivity|].
      destruct (accepts s) as [v|] eqn:Ea; [exfalso|exists e; reflexivity].
      unfold accepts, recognise in Ea.
      destruct (recognise_prefix s) as [[f rest]|] eqn:Er; [|discriminate].
      destruct rest; [|discriminate]. destruct (valid f) eqn:Evf; [|discriminate].
      pose proof (scan_pure_complete s f [] Hv Er (valid_nodate_of_valid f Evf)) as Hc.
      rewrite Hc in Es. discriminate.
  Qed.
End WithDateFacts.
