(** C15 -- the serde carriers (Model/Serde.v; their stream and round-trip theorems are C20's) never trap, at full
    strength: the string deserializers ARE the FromStr impls (visit_str = value.parse()), so every string is
    answered by a value or an error (Proofs/C15Deep.v); the string serializers of NaiveTime / NaiveDateTime are
    collect_str of the Display / Debug text, which returns for EVERY value, leap-second fractions on any second
    included (Proofs/C15Text.v); the sixteen timestamp helper modules serialize EVERY well-formed date-time --
    timestamp() / timestamp_millis() / timestamp_micros() do not overflow anywhere in the range
    (C02_timestamp, C02_timestamp_millis_no_overflow, C02_timestamp_micros_no_overflow: leap-second values
    included) and timestamp_nanos_opt() answers None by value (C15_timestamp_nanos_opt_total).  C20's own theorems
    (C20_serde_roundtrip_*, C20_ts_serialize_spec) say WHAT is written / read on their domains. *)
From Coq Require Import ZArith List Bool Lia ZifyBool.
From V Require Import Base.Int Base.IO.
From V Require Base.Utf8 Model.Scan Model.Serde Model.FromStr Model.Show Model.C19 Model.ScanNames Model.DateTime Model.Time Gen.SerdeConsts.
From V Require Proofs.C20Ts Proofs.C02 Proofs.C04 Proofs.C19 Props.C02.
From V Require Import Proofs.C15 Proofs.C15Owners Proofs.C15Wide Proofs.C15Text Proofs.C15Deep.
Import ListNotations.
Open Scope Z_scope.

Notation SOk := Model.Serde.SOk.

(** what a Deserializer hands to visit_str is a string *)
Definition sval_ok (v : Model.Serde.sval) : Prop :=
  match v with Model.Serde.SStr s => str_ok s | _ => True end.

Lemma de_str_total A (parse : bytes -> Model.Scan.PR A) (good : A -> Prop) v :
  (forall s, str_ok s -> returns (parse s) /\ forall a, parse s = Val (Model.Scan.POk a) -> good a) -> sval_ok v ->
  returns (Model.Serde.de_str parse v) /\ forall a, Model.Serde.de_str parse v = Val (SOk a) -> good a.
Proof.
  intros Hp Hv. destruct v as [s| | | | | | |]; cbn [Model.Serde.de_str sval_ok] in *;
    try (split; [split; discriminate|intros a E; discriminate]).
  destruct (Hp s Hv) as [[N1 N2] G]. destruct (parse s) as [[a|e]| |]; try congruence; cbn [bind].
  - split; [split; discriminate|]. intros b [= <-]. exact (G a eq_refl).
  - split; [split; discriminate|]. intros b E. discriminate.
Qed.

Lemma de_date_total v : sval_ok v ->
  returns (Model.Serde.de_date v) /\ forall d, Model.Serde.de_date v = Val (SOk d) -> date_valid d.
Proof. exact (de_str_total _ _ date_valid v naive_date_from_str_total). Qed.
Lemma de_time_total v : sval_ok v ->
  returns (Model.Serde.de_time v) /\ forall t, Model.Serde.de_time v = Val (SOk t) -> time_valid t.
Proof. exact (de_str_total _ _ time_valid v naive_time_from_str_total). Qed.
Lemma de_ndt_total v : sval_ok v ->
  returns (Model.Serde.de_ndt v) /\ forall a, Model.Serde.de_ndt v = Val (SOk a) -> Proofs.C04.ndt_ok a.
Proof. exact (de_str_total _ _ Proofs.C04.ndt_ok v naive_datetime_from_str_total). Qed.
Lemma de_dt_fixed_total v : sval_ok v ->
  returns (Model.Serde.de_dt_fixed v) /\ forall z, Model.Serde.de_dt_fixed v = Val (SOk z) -> Proofs.C04.dtz_ok z.
Proof. exact (de_str_total _ _ Proofs.C04.dtz_ok v datetime_fixed_from_str_total). Qed.
Lemma de_dt_utc_total v : sval_ok v ->
  returns (Model.Serde.de_dt_utc v) /\
  forall z, Model.Serde.de_dt_utc v = Val (SOk z) -> Proofs.C04.dtz_ok z /\ Model.DateTime.dz_off z = 0.
Proof.
  intros Hv. destruct (de_dt_fixed_total v Hv) as [[N1 N2] G].
  unfold Model.Serde.de_dt_utc, Model.Serde.smap, Model.Serde.sbind.
  destruct (Model.Serde.de_dt_fixed v) as [[z|e]| |]; try congruence; cbn [bind].
  - split; [split; discriminate|]. intros b [= <-]. destruct (G z eq_refl) as [Hu _].
    split; [split; [exact Hu|unfold Proofs.C04.off_ok; cbn; lia]|reflexivity].
  - split; [split; discriminate|]. intros b E. discriminate.
Qed.
(* Weekday / Month: visit_str = value.parse() of C19's readers *)
Lemma de_names_total v :
  (forall s, v = Model.Serde.SStr s -> Forall Proofs.C19.byte s /\ Model.ScanNames.utf8_valid s = true) ->
  returns (Model.Serde.de_wd v) /\ returns (Model.Serde.de_mo v).
Proof.
  intros Hv. unfold Model.Serde.de_wd, Model.Serde.de_mo, Model.Serde.de_name.
  destruct v as [s| | | | | | |]; try (split; split; discriminate).
  destruct (Hv s eq_refl) as [Hb Hu]. destruct (weekday_month_from_str_total s Hb Hu) as [[A1 A2] [B1 B2]].
  split.
  - destruct (Model.C19.wd_from_str s) as [o| |]; try congruence. cbn [bind]. split; discriminate.
  - destruct (Model.C19.mo_from_str s) as [o| |]; try congruence. cbn [bind]. split; discriminate.
Qed.

(** the string serializers of NaiveTime and NaiveDateTime: EVERY value *)
Lemma collect_str_returns w : returns (Model.Show.to_text w) -> returns (Model.Serde.collect_str w).
Proof. unfold Model.Serde.collect_str. intros [N1 N2]. destruct (Model.Show.to_text w); try congruence. cbn [bind]. split; discriminate. Qed.
Lemma ser_time_total t : time_valid t -> returns (Model.Serde.ser_time t).
Proof.
  intros H. destruct (show_time_total t H) as [H1 H2]. unfold Model.Serde.ser_time.
  destruct (Gen.SerdeConsts.SD_TIME_WRITER =? 1); apply collect_str_returns; assumption.
Qed.
Lemma ser_ndt_total a : Proofs.C04.ndt_ok a -> returns (Model.Serde.ser_ndt a).
Proof.
  intros H. destruct (show_ndt_total a H) as [H1 H2]. unfold Model.Serde.ser_ndt.
  destruct (Gen.SerdeConsts.SD_NDT_WRITER =? 1); apply collect_str_returns; assumption.
Qed.

(** the sixteen timestamp helper modules: serialize of EVERY well-formed date-time *)
Lemma ts_accessor_total u a : 0 <= u <= 3 -> Proofs.C04.ndt_ok a -> returns (Model.Serde.ts_accessor u a).
Proof.
  intros Hu Ha. apply ndt_ok_valid_ndt in Ha.
  assert (Hc : u = 0 \/ u = 1 \/ u = 2 \/ u = 3) by lia.
  destruct Hc as [->|[->|[->| ->]]]; unfold Model.Serde.ts_accessor; cbn [Z.eqb Pos.eqb].
  - rewrite (Props.C02.C02_timestamp a Ha). cbn [bind]. split; discriminate.
  - rewrite (Props.C02.C02_timestamp_millis_no_overflow a Ha). cbn [bind]. split; discriminate.
  - rewrite (Props.C02.C02_timestamp_micros_no_overflow a Ha). cbn [bind]. split; discriminate.
  - destruct (timestamp_nanos_opt_any a Ha) as (os & E & _). rewrite E. cbn [bind]. destruct os; split; discriminate.
Qed.
Lemma ts_serialize_total m a : In m Proofs.C20Ts.plain_mods -> Proofs.C04.ndt_ok a -> returns (Model.Serde.ts_serialize m a).
Proof.
  intros Hm Ha. unfold Model.Serde.ts_serialize. rewrite Proofs.C20Ts.ser_tab by (apply in_or_app; left; exact Hm). cbn [bind].
  assert (Hu : 0 <= (m mod 8) / 2 <= 3) by lia.
  destruct (ts_accessor_total _ a Hu Ha) as [N1 N2]. unfold Model.Serde.sbind.
  destruct (Model.Serde.ts_accessor (m mod 8 / 2) a) as [[t|e]| |]; try congruence; cbn [bind]; split; discriminate.
Qed.
Lemma ts_serialize_option_total m o : In m Proofs.C20Ts.option_mods -> (forall a, o = Some a -> Proofs.C04.ndt_ok a) ->
  returns (Model.Serde.ts_serialize_option m o).
Proof.
  intros Hm Ho. unfold Model.Serde.ts_serialize_option. rewrite Proofs.C20Ts.ser_tab by (apply in_or_app; right; exact Hm). cbn [bind].
  destruct o as [a|]; [|split; discriminate].
  assert (Hu : 0 <= (m mod 8) / 2 <= 3) by lia.
  destruct (ts_accessor_total _ a Hu (Ho a eq_refl)) as [N1 N2]. unfold Model.Serde.sbind.
  destruct (Model.Serde.ts_accessor (m mod 8 / 2) a) as [[t|e]| |]; try congruence; cbn [bind]; split; discriminate.
Qed.

Lemma serde_hypotheses_inhabited :
  sval_ok (Model.Serde.SStr ex_text) /\ sval_ok Model.Serde.SUnit /\ In 6 Proofs.C20Ts.plain_mods /\ In 7 Proofs.C20Ts.option_mods /\
  Proofs.C04.ndt_ok l_wide.
Proof.
  split; [exact (proj1 (proj2 deep_hypotheses_inhabited))|]. split; [exact I|]. split; [cbn; tauto|]. split; [cbn; tauto|].
  exact (proj1 (proj2 (proj2 (proj2 (proj2 (proj2 (proj2 wide_hypotheses_inhabited))))))).
Qed.
