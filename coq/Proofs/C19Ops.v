(** C19 — remaining per-function facts: Month::name, the order of months. *)
From Coq Require Import ZArith List Bool Lia ZifyBool String.
From V Require Import Base.Int Base.IO Base.Lift Gen.WdMo Model.ScanNames Model.C19 Proofs.C19.
From V Require Judge.C19.
Import ListNotations.
Open Scope Z_scope.

Lemma mo_name_sweep : forall_range (fun m => Rbytes_eqb (mo_name m) (nth (Z.to_nat m) Judge.C19.month_names [])) 0 12 = true.
Proof. vm_compute. reflexivity. Qed.
Theorem mo_name_spec m : mo m -> mo_name m = Val (nth (Z.to_nat m) Judge.C19.month_names []).
Proof. intros H. apply Rbytes_eqb_spec. apply (forall_range_spec _ _ _ mo_name_sweep m). unfold mo in H. lia. Qed.
(* derived Ord of Month = order of the month numbers *)
Theorem mo_cmp_numbers a b : mo a -> mo b ->
  exists na nb, mo_number_from_month a = Val na /\ mo_number_from_month b = Val nb /\ mo_cmp a b = cmpZ na nb.
Proof.
  intros Ha Hb. exists (a + 1), (b + 1). rewrite !mo_number_spec by assumption.
  split; [reflexivity|]. split; [reflexivity|]. apply mo_cmp_spec.
Qed.
