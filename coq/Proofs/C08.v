(** C08 — month stepping, field replacement and week helpers follow calendar rules: the model
    functions (Model/Date.v, Model/DateExtra.v) against the proleptic Gregorian calendar of
    Spec/Gregorian.v.  A date word [d] represents (year [y], ordinal [o]) when [repr y o d]; the
    canonical case encoding of a date is exactly that pair. *)
From Coq Require Import ZArith List Bool Lia ZifyBool.
From V Require Import Base.Int Base.IntLemmas Base.Bits Base.Lift Base.Table Gen.DateTables Gen.C08Consts
  Spec.Gregorian Model.Date Model.DateExtra Proofs.C08Sweeps Proofs.C08Date.
Import ListNotations.
Open Scope Z_scope.
Ltac Zify.zify_post_hook ::= Z.to_euclidean_division_equations.

Ltac solve_in := unfold in_i32, in_u32, in_u8, in_i64, in_u64, in_range, i32_min, i32_max, u32_max, u8_max,
  i64_min, i64_max, u64_max; lia.

(** month and day of a represented date, as the calendar has them *)
Definition month_of (y o : Z) : Z := fst (md_of_ordinal (is_leap y) o).
Definition day_of (y o : Z) : Z := snd (md_of_ordinal (is_leap y) o).

Lemma repr_md y o d : repr y o d ->
  d_year d = y /\ d_ordinal d = o /\ d_month d = Val (month_of y o) /\ d_day d = Val (day_of y o) /\
  d_weekday d = Val (weekday_of_dn (dn_of_yo y o)) /\ d_leap_year d = is_leap y /\
  1 <= month_of y o <= 12 /\ 1 <= day_of y o <= days_in_month (is_leap y) (month_of y o) /\
  ordinal_of_md (is_leap y) (month_of y o) (day_of y o) = o.
Proof.
  intros H. pose proof (repr_acc y o d H) as A. unfold month_of, day_of.
  destruct (md_of_ordinal (is_leap y) o) as [m dd]. cbn [fst snd].
  destruct A as (A1 & A2 & A3 & A4 & A5 & A6 & A7 & A8 & A9 & A10 & A11).
  unfold valid_md in A10. repeat split; try assumption; lia.
Qed.

(** * Common-era year, quarter *)
Theorem year_ce_spec y o d : repr y o d ->
  d_year_ce d = Val (if 1 <=? y then (true, y) else (false, 1 - y)).
Proof.
  intros H. destruct (repr_md y o d H) as (Hy & _). pose proof (year_range_bounds y (proj1 H)) as Hb.
  unfold d_year_ce, YCE_LT, YCE_FROM. rewrite Hy.
  destruct (y <? 1) eqn:E; destruct (1 <=? y) eqn:E2; try lia.
  - unfold sub_i32, chk. replace (in_i32 (1 - y)) with true by solve_in. cbn [bind].
    rewrite as_u32_id by solve_in. reflexivity.
  - rewrite as_u32_id by solve_in. reflexivity.
Qed.

Theorem quarter_spec y o d : repr y o d ->
  d_quarter d = Val ((month_of y o - 1) / 3 + 1) /\ 1 <= (month_of y o - 1) / 3 + 1 <= 4.
Proof.
  intros H. destruct (repr_md y o d H) as (_ & _ & Hm & _ & _ & _ & Hmb & _).
  split; [|lia]. unfold d_quarter, Q_SUB, Q_DIV, Q_ADD. rewrite Hm. cbn [bind].
  unfold sub_u32, chk. replace (in_u32 (month_of y o - 1)) with true by solve_in. cbn [bind].
  rewrite div_euclid_pos by lia. unfold chk.
  replace (in_u32 ((month_of y o - 1) / 3)) with true by solve_in. cbn [bind].
  unfold add_u32, chk. replace (in_u32 ((month_of y o - 1) / 3 + 1)) with true by solve_in. reflexivity.
Qed.
