(** C08 — month stepping, field replacement and week helpers follow calendar rules: the model
    functions (Model/Date.v, Model/DateExtra.v) against the proleptic Gregorian calendar of
    Spec/Gregorian.v.  A date word [d] represents (year [y], ordinal [o]) when [repr y o d]; the
    canonical case encoding of a date is exactly that pair. *)
From Coq Require Import ZArith List Bool Lia ZifyBool.
From V Require Import Base.Int Base.IntLemmas Base.Bits Base.Lift Base.Table Gen.DateTables Gen.C08Consts
  Spec.Gregorian Model.Date Model.DateExtra Proofs.C08Sweeps Proofs.C08Date Proofs.C08Days Proofs.C08AddDays.
Import ListNotations.
Open Scope Z_scope.
Ltac Zify.zify_post_hook ::= Z.to_euclidean_division_equations.


(** month and day of a represented date, as the calendar has them *)
Definition month_of (y o : Z) : Z := fst (md_of_ordinal (is_leap y) o).
Definition day_of (y o : Z) : Z := snd (md_of_ordinal (is_leap y) o).

Lemma repr_md y o d : repr y o d ->
  d_year d = y /\ d_ordinal d = o /\ d_month d = Val (month_of y o) /\ d_day d = Val (day_of y o) /\
  d_weekday d = Val (weekday_of_dn (dn_of_yo y o)) /\ d_leap_year d = is_leap y /\
  1 <= month_of y o <= 12 /\ 1 <= day_of y o <= days_in_month (is_leap y) (month_of y o) /\
  ordinal_of_md (is_leap y) (month_of y o) (day_of y o) = o.
Proof.
  intros H. pose proof (repr_acc y o d H) as A. unfold month_of, day_of.
  destruct (md_of_ordinal (is_leap y) o) as [m dd]. cbn [fst snd].
  destruct A as (A1 & A2 & A3 & A4 & A5 & A6 & A7 & A8 & A9 & A10 & A11).
  unfold valid_md in A10. repeat split; try assumption; lia.
Qed.

(** * Common-era year, quarter *)
Theorem year_ce_spec y o d : repr y o d ->
  d_year_ce d = Val (if 1 <=? y then (true, y) else (false, 1 - y)).
Proof.
  intros H. destruct (repr_md y o d H) as (Hy & _). pose proof (year_range_bounds y (proj1 H)) as Hb.
  unfold d_year_ce, YCE_LT, YCE_FROM. rewrite Hy.
  destruct (y <? 1) eqn:E; destruct (1 <=? y) eqn:E2; try lia.
  - unfold sub_i32, chk. replace (in_i32 (1 - y)) with true by solve_in. cbn [bind].
    rewrite as_u32_id by solve_in. reflexivity.
  - rewrite as_u32_id by solve_in. reflexivity.
Qed.

Theorem quarter_spec y o d : repr y o d ->
  d_quarter d = Val ((month_of y o - 1) / 3 + 1) /\ 1 <= (month_of y o - 1) / 3 + 1 <= 4.
Proof.
  intros H. destruct (repr_md y o d H) as (_ & _ & Hm & _ & _ & _ & Hmb & _).
  split; [|lia]. unfold d_quarter, Q_SUB, Q_DIV, Q_ADD. rewrite Hm. cbn [bind].
  unfold sub_u32, chk. replace (in_u32 (month_of y o - 1)) with true by solve_in. cbn [bind].
  rewrite div_euclid_pos by lia. unfold chk.
  replace (in_u32 ((month_of y o - 1) / 3)) with true by solve_in. cbn [bind].
  unfold add_u32, chk. replace (in_u32 ((month_of y o - 1) / 3 + 1)) with true by solve_in. reflexivity.
Qed.

(** * Weeks *)
Lemma wd_from_monday w : 0 <= w <= 6 -> wd_num_days_from_monday w = Val w.
Proof. intros H. unfold wd_num_days_from_monday, wd_days_since. replace (w <? 0) with false by lia.
  unfold sub_u32, chk. replace (w - 0) with w by lia. replace (in_u32 w) with true by solve_in. reflexivity. Qed.
Lemma wd_number w : 0 <= w <= 6 -> wd_number_from_monday w = Val (w + 1).
Proof. intros H. unfold wd_number_from_monday. fold (wd_num_days_from_monday w). rewrite wd_from_monday by lia.
  cbn [bind]. unfold add_u32, chk. replace (in_u32 (w + 1)) with true by solve_in. reflexivity. Qed.
Lemma wd_pred_spec w : 0 <= w <= 6 -> wd_pred w = (w + 6) mod 7.
Proof. intros H. assert (w = 0 \/ w = 1 \/ w = 2 \/ w = 3 \/ w = 4 \/ w = 5 \/ w = 6) as C by lia.
  repeat (destruct C as [->|C]; [reflexivity|]). subst. reflexivity. Qed.

Definition week_start (n w : Z) : Z := n - (weekday_of_dn n - w) mod 7.

Lemma week_start_facts n w : 0 <= w <= 6 ->
  weekday_of_dn (week_start n w) = w /\ n - 6 <= week_start n w <= n.
Proof. intros H. unfold week_start, weekday_of_dn. lia. Qed.

Theorem week_first_spec y o d w : repr y o d -> 0 <= w <= 6 ->
  week_checked_first_day (d_week d w) =
  Val (date_if (dn_in_range (week_start (dn_of_yo y o) w)) (date_of_dn (week_start (dn_of_yo y o) w))).
Proof.
  intros H Hw. destruct (repr_md y o d H) as (_ & _ & _ & _ & Hwd & _).
  unfold week_checked_first_day, d_week. cbn [wk_date wk_start].
  rewrite wd_from_monday by lia. cbn [bind]. rewrite Hwd. cbn [bind].
  set (n := dn_of_yo y o) in *. set (wd := weekday_of_dn n).
  assert (Hwdb : 0 <= wd <= 6) by (unfold wd, weekday_of_dn; lia).
  rewrite wd_from_monday by lia. cbn [bind]. rewrite !as_i32_id by solve_in.
  unfold sub_i32, chk. replace (in_i32 (w - wd)) with true by solve_in. cbn [bind].
  unfold WK_FIRST_WRAP, WK_FIRST_NOWRAP.
  replace (in_i32 (w - wd - (if wd <? w then 7 else 0))) with true by (destruct (wd <? w); solve_in).
  cbn [bind].
  rewrite (add_days_spec y o d _ H) by (destruct (wd <? w); solve_in). fold n.
  replace (n + (w - wd - (if wd <? w then 7 else 0))) with (week_start n w); [reflexivity|].
  unfold week_start. fold wd. destruct (wd <? w) eqn:E; lia.
Qed.

Theorem week_last_spec y o d w : repr y o d -> 0 <= w <= 6 ->
  week_checked_last_day (d_week d w) =
  Val (date_if (dn_in_range (week_start (dn_of_yo y o) w + 6)) (date_of_dn (week_start (dn_of_yo y o) w + 6))).
Proof.
  intros H Hw. destruct (repr_md y o d H) as (_ & _ & _ & _ & Hwd & _).
  unfold week_checked_last_day, d_week. cbn [wk_date wk_start].
  rewrite wd_pred_spec by lia. rewrite wd_from_monday by lia. cbn [bind]. rewrite Hwd. cbn [bind].
  set (n := dn_of_yo y o) in *. set (wd := weekday_of_dn n).
  assert (Hwdb : 0 <= wd <= 6) by (unfold wd, weekday_of_dn; lia).
  rewrite wd_from_monday by lia. cbn [bind]. rewrite !as_i32_id by solve_in.
  set (e := (w + 6) mod 7). assert (He : 0 <= e <= 6) by (unfold e; lia).
  unfold sub_i32, chk. replace (in_i32 (e - wd)) with true by solve_in. cbn [bind].
  unfold WK_LAST_WRAP, WK_LAST_NOWRAP. unfold add_i32, chk.
  replace (in_i32 (e - wd + (if e <? wd then 7 else 0))) with true by (destruct (e <? wd); solve_in).
  cbn [bind].
  rewrite (add_days_spec y o d _ H) by (destruct (e <? wd); solve_in). fold n.
  replace (n + (e - wd + (if e <? wd then 7 else 0))) with (week_start n w + 6); [reflexivity|].
  unfold week_start. fold wd. unfold e. destruct ((w + 6) mod 7 <? wd) eqn:E; lia.
Qed.

Theorem week_days_spec y o d w : repr y o d -> 0 <= w <= 6 ->
  let f := week_start (dn_of_yo y o) w in
  week_checked_days (d_week d w) =
  Val (if dn_in_range f && dn_in_range (f + 6) then Some (date_of_dn f, date_of_dn (f + 6)) else None).
Proof.
  intros H Hw f. unfold week_checked_days. rewrite (week_first_spec y o d w H Hw), (week_last_spec y o d w H Hw).
  cbn [bind]. fold f. destruct (dn_in_range f); destruct (dn_in_range (f + 6)); reflexivity.
Qed.

(** the date word of an in-range day number is a represented date with that day number *)
Lemma date_of_dn_repr n : dn_in_range n = true ->
  repr (fst (yo_of_dn n)) (snd (yo_of_dn n)) (date_of_dn n) /\ dn_of_yo (fst (yo_of_dn n)) (snd (yo_of_dn n)) = n.
Proof.
  intros Hn. destruct (yo_of_dn_valid n) as [Hv Hd]. split; [|assumption].
  apply repr_mk; [|assumption]. rewrite <- (dn_in_range_iff _ _ Hv), Hd. assumption.
Qed.

(** * n-th weekday of a month *)
Definition nth_weekday (y m w n : Z) : option Z :=
  if year_in_range y && (1 <=? m) && (m <=? 12) && (1 <=? n) then
    let day := 1 + (w - weekday_of_dn (dn_of_ymd y m 1)) mod 7 + 7 * (n - 1) in
    date_if (day <=? days_in_month (is_leap y) m) (mk_ymd y m day)
  else None.

Lemma mk_ymd_repr y m dd : year_in_range y = true -> valid_ymd y m dd = true ->
  repr y (ordinal_of_md (is_leap y) m dd) (mk_ymd y m dd).
Proof.
  intros Hy Hv. apply repr_mk; [assumption|].
  unfold valid_ymd in Hv. pose proof (days_in_month_bounds (is_leap y) m).
  destruct (mdf_word m dd y ltac:(lia) ltac:(lia)) as (_ & _ & _ & _ & _ & _ & Hvo).
  rewrite valid_md_ymd in Hvo. exact (proj1 (Hvo Hv)).
Qed.

Theorem nth_weekday_spec y m w n : in_i32 y = true -> in_u32 m = true -> 0 <= w <= 6 -> in_u8 n = true ->
  from_weekday_of_month_opt y m w n = Val (nth_weekday y m w n).
Proof.
  intros Hy Hm Hw Hn. unfold from_weekday_of_month_opt, nth_weekday.
  destruct (n =? 0) eqn:E0.
  { replace (1 <=? n) with false by lia. rewrite andb_false_r. reflexivity. }
  replace (1 <=? n) with true by solve_in. rewrite andb_true_r.
  unfold NWD_FIRST_DAY, obind. rewrite from_ymd_opt_spec by (try assumption; solve_in). cbn [bind].
  replace (valid_ymd y m 1) with ((1 <=? m) && (m <=? 12))
    by (unfold valid_ymd; pose proof (days_in_month_bounds (is_leap y) m); lia).
  rewrite andb_assoc.
  destruct (year_in_range y && (1 <=? m) && (m <=? 12)) eqn:E1; [|reflexivity]. cbn [date_if].
  assert (Hyr : year_in_range y = true) by (destruct (year_in_range y); [reflexivity|cbn in E1; discriminate E1]).
  rewrite Hyr in E1. cbn [andb] in E1.
  assert (Hv1 : valid_ymd y m 1 = true) by (unfold valid_ymd; pose proof (days_in_month_bounds (is_leap y) m); lia).
  destruct (repr_md _ _ _ (mk_ymd_repr y m 1 Hyr Hv1)) as (_ & _ & _ & _ & Hwd & _).
  rewrite Hwd. cbn [bind]. fold (dn_of_ymd y m 1).
  set (fw := weekday_of_dn (dn_of_ymd y m 1)).
  assert (Hfw : 0 <= fw <= 6) by (unfold fw, weekday_of_dn; lia).
  rewrite !wd_number by lia. cbn [bind].
  unfold NWD_BIAS, NWD_MOD, NWD_N_SUB, NWD_STEP, NWD_DAY_ADD.
  unfold add_u32, chk. replace (in_u32 (7 + (w + 1))) with true by solve_in. cbn [bind].
  unfold sub_u32, chk. replace (in_u32 (7 + (w + 1) - (fw + 1))) with true by solve_in. cbn [bind].
  unfold rem_u32. rewrite rem_t_nz by lia.
  replace (in_u32 (Z.quot (7 + (w + 1) - (fw + 1)) 7)) with true
    by (rewrite Z.quot_div_nonneg by lia; solve_in).
  cbn [bind]. rewrite Z.rem_mod_nonneg by lia.
  unfold sub_u8, chk. replace (in_u8 (n - 1)) with true by solve_in. cbn [bind].
  rewrite as_u32_id by solve_in.
  unfold mul_u32, chk. replace (in_u32 ((n - 1) * 7)) with true by solve_in. cbn [bind].
  replace (in_u32 ((n - 1) * 7 + (7 + (w + 1) - (fw + 1)) mod 7)) with true by solve_in. cbn [bind].
  replace (in_u32 ((n - 1) * 7 + (7 + (w + 1) - (fw + 1)) mod 7 + 1)) with true by solve_in. cbn [bind].
  replace ((n - 1) * 7 + (7 + (w + 1) - (fw + 1)) mod 7 + 1) with (1 + (w - fw) mod 7 + 7 * (n - 1)) by lia.
  set (day := 1 + (w - fw) mod 7 + 7 * (n - 1)).
  rewrite from_ymd_opt_spec by (try assumption; unfold day; solve_in).
  rewrite Hyr. cbn [andb].
  replace (valid_ymd y m day) with (day <=? days_in_month (is_leap y) m); [reflexivity|].
  unfold valid_ymd. unfold day. solve_in.
Qed.

(** * Whole years elapsed *)
Definition years_between (y1 m1 d1 y0 m0 d0 : Z) : option Z :=
  let n := y1 - y0 - (if (m1 <? m0) || ((m1 =? m0) && (d1 <? d0)) then 1 else 0) in
  if 0 <=? n then Some n else None.

Lemma lor_md m dd : 1 <= m <= 12 -> 1 <= dd <= 31 -> Z.lor (shl_u32 m 5) dd = m * 32 + dd.
Proof.
  intros Hm Hd. rewrite shl_u32_small by (unfold u32_max; lia). change (2 ^ 5) with 32.
  pose proof (lor_disjoint m dd 5 ltac:(lia) ltac:(change (2 ^ 5) with 32; lia)) as L.
  rewrite Z.shiftl_mul_pow2 in L by lia. exact L.
Qed.

Theorem years_since_spec y1 o1 d1 y0 o0 d0 : repr y1 o1 d1 -> repr y0 o0 d0 ->
  years_since d1 d0 = Val (years_between y1 (month_of y1 o1) (day_of y1 o1) y0 (month_of y0 o0) (day_of y0 o0)).
Proof.
  intros H1 H0.
  destruct (repr_md _ _ _ H1) as (Hy1 & _ & Hm1 & Hd1 & _ & _ & Bm1 & Bd1 & _).
  destruct (repr_md _ _ _ H0) as (Hy0 & _ & Hm0 & Hd0 & _ & _ & Bm0 & Bd0 & _).
  pose proof (year_range_bounds _ (proj1 H1)). pose proof (year_range_bounds _ (proj1 H0)).
  pose proof (days_in_month_bounds (is_leap y1) (month_of y1 o1)).
  pose proof (days_in_month_bounds (is_leap y0) (month_of y0 o0)).
  unfold years_since, years_between. rewrite Hy1, Hy0, Hm1, Hd1, Hm0, Hd0.
  unfold sub_i32, chk. replace (in_i32 (y1 - y0)) with true by solve_in. cbn [bind].
  rewrite !lor_md by lia.
  set (m1 := month_of y1 o1) in *. set (m0 := month_of y0 o0) in *.
  set (dd1 := day_of y1 o1) in *. set (dd0 := day_of y0 o0) in *.
  replace (m1 * 32 + dd1 <? m0 * 32 + dd0) with ((m1 <? m0) || ((m1 =? m0) && (dd1 <? dd0))) by lia.
  destruct ((m1 <? m0) || ((m1 =? m0) && (dd1 <? dd0))).
  - replace (in_i32 (y1 - y0 - 1)) with true by solve_in. cbn [bind].
    destruct (0 <=? y1 - y0 - 1) eqn:E; [rewrite as_u32_id by solve_in|]; reflexivity.
  - cbn [bind]. replace (y1 - y0 - 0) with (y1 - y0) by lia.
    destruct (0 <=? y1 - y0) eqn:E; [rewrite as_u32_id by solve_in|]; reflexivity.
Qed.

(** the lexicographic formula counts anniversaries: the largest k with (y0 + k, m0, d0) <= (y1, m1, d1) *)
Theorem years_between_max y1 m1 d1 y0 m0 d0 k :
  years_between y1 m1 d1 y0 m0 d0 = Some k <->
  0 <= k /\ (let le (a b c a' b' c' : Z) := a < a' \/ (a = a' /\ (b < b' \/ (b = b' /\ c <= c'))) in
             le (y0 + k) m0 d0 y1 m1 d1 /\ ~ le (y0 + k + 1) m0 d0 y1 m1 d1).
Proof.
  unfold years_between. cbv zeta.
  destruct ((m1 <? m0) || ((m1 =? m0) && (d1 <? d0))) eqn:E;
  match goal with |- context [if ?c then Some ?v else None] => destruct c eqn:E2 end;
  split; intros Hh; try (injection Hh as Hh); try discriminate; try (f_equal); lia.
Qed.

(** * Month lengths *)
Theorem month_num_days_spec m y : 1 <= m <= 12 -> in_i32 y = true ->
  month_num_days m y =
  Val (if (m =? 2) && negb (year_in_range y) then None else Some (days_in_month (is_leap y) m)).
Proof.
  intros Hm Hy. unfold month_num_days. destruct (m =? 2) eqn:E2.
  - unfold MND_FEB_PROBE_MONTH, MND_FEB_PROBE_DAY, obind.
    rewrite from_ymd_opt_spec by (try assumption; solve_in). cbn [bind].
    assert (V21 : valid_ymd y 2 1 = true) by (unfold valid_ymd, days_in_month; destruct (is_leap y); reflexivity).
    rewrite V21, andb_true_r. cbn [andb].
    destruct (year_in_range y) eqn:Ey; [|reflexivity]. cbn [date_if negb].
    destruct (repr_md _ _ _ (mk_ymd_repr y 2 1 Ey V21)) as (_ & _ & _ & _ & _ & Hl & _).
    rewrite Hl. replace m with 2 by lia. unfold days_in_month, MND_FEB_LEAP, MND_FEB_COMMON. reflexivity.
  - cbn [andb].
    assert (m = 1 \/ m = 3 \/ m = 4 \/ m = 5 \/ m = 6 \/ m = 7 \/ m = 8 \/ m = 9 \/ m = 10 \/ m = 11 \/ m = 12) as C by lia.
    repeat (destruct C as [->|C]; [reflexivity|]). subst. reflexivity.
Qed.

Theorem num_days_in_month_spec y o d : repr y o d ->
  d_num_days_in_month d = Val (days_in_month (is_leap y) (month_of y o)).
Proof.
  intros H. destruct (repr_md y o d H) as (Hy & _ & Hm & _ & _ & _ & Bm & _).
  pose proof (year_range_bounds y (proj1 H)).
  unfold d_num_days_in_month. rewrite Hm, Hy. cbn [bind]. unfold month_from_u32.
  replace ((1 <=? month_of y o) && (month_of y o <=? 12)) with true by lia. cbn [unwrap bind].
  unfold unwrap_r. rewrite month_num_days_spec by (try lia; solve_in).
  rewrite (proj1 H). cbn [negb]. rewrite andb_false_r. reflexivity.
Qed.

(** * Results are represented dates with the stated fields; encodings *)
Theorem mk_ymd_fields y m dd : year_in_range y = true -> valid_ymd y m dd = true ->
  let o := ordinal_of_md (is_leap y) m dd in
  repr y o (mk_ymd y m dd) /\ month_of y o = m /\ day_of y o = dd.
Proof.
  intros Hy Hv o. split; [apply mk_ymd_repr; assumption|].
  unfold valid_ymd in Hv. pose proof (days_in_month_bounds (is_leap y) m).
  destruct (mdf_word m dd y ltac:(lia) ltac:(lia)) as (_ & _ & _ & _ & _ & _ & Hvo).
  rewrite valid_md_ymd in Hvo. destruct (Hvo Hv) as [_ E]. unfold month_of, day_of, o. rewrite E. split; reflexivity.
Qed.

Theorem repr_unique y o d y' o' : repr y o d -> repr y' o' d -> y = y' /\ o = o'.
Proof.
  intros H H'. destruct (repr_md _ _ _ H) as (E1 & E2 & _). destruct (repr_md _ _ _ H') as (E1' & E2' & _). lia.
Qed.

(** month stepping by zero months and the panicking operators *)
Theorem op_add_months_spec y o d n : repr y o d -> in_u32 n = true ->
  d_op_add_months d n = match shift_months y o n with Some d' => Val d' | None => Panic end.
Proof. intros H Hn. unfold d_op_add_months, unwrap_r. rewrite (checked_add_months_spec y o d n H Hn). cbn [bind].
  destruct (shift_months y o n); reflexivity. Qed.
Theorem op_sub_months_spec y o d n : repr y o d -> in_u32 n = true ->
  d_op_sub_months d n = match shift_months y o (- n) with Some d' => Val d' | None => Panic end.
Proof. intros H Hn. unfold d_op_sub_months, unwrap_r. rewrite (checked_sub_months_spec y o d n H Hn). cbn [bind].
  destruct (shift_months y o (- n)); reflexivity. Qed.

(** the target of a month step is a date of the stated year and month, with the day clamped *)
Theorem shift_months_fields y o k d' : valid_yo y o = true -> shift_months y o k = Some d' ->
  let t := 12 * y + (month_of y o - 1) + k in
  let y' := t / 12 in let m' := t mod 12 + 1 in
  let dd' := Z.min (day_of y o) (days_in_month (is_leap y') m') in
  year_in_range y' = true /\ repr y' (ordinal_of_md (is_leap y') m' dd') d' /\
  month_of y' (ordinal_of_md (is_leap y') m' dd') = m' /\ day_of y' (ordinal_of_md (is_leap y') m' dd') = dd'.
Proof.
  intros Ho S t y' m' dd'. unfold shift_months in S. fold (month_of y o) (day_of y o) in S.
  fold t y' m' dd' in S. destruct (year_in_range y') eqn:Ey; [|discriminate S]. injection S as <-.
  assert (Hv : valid_ymd y' m' dd' = true).
  { pose proof (lo_facts_of y o Ho) as [_ _ Fdiv Fmod Frng Fleap Fvalid].
    pose proof (acc_ok_lo _ Frng) as A. unfold acc_ok in A. rewrite Fvalid, Fdiv, Fmod, Fleap in A.
    unfold dd', day_of, valid_ymd. destruct (md_of_ordinal (is_leap y) o) as [m0 d0]. cbn [snd].
    repeat (apply andb_prop in A; destruct A as [A ?]). unfold valid_md in *.
    pose proof (days_in_month_bounds (is_leap y') m'). assert (1 <= m' <= 12) by (unfold m'; lia). lia. }
  pose proof (mk_ymd_fields y' m' dd' Ey Hv) as F. cbv zeta in F. destruct F as (R & E1 & E2).
  split; [reflexivity|]. split; [exact R|]. split; [exact E1|exact E2].
Qed.

(** * Inhabitants *)
Lemma ex_repr : repr 2024 31 (mkdate 2024 31) /\ repr (-262143) 1 (mkdate (-262143) 1)
  /\ repr 262142 365 (mkdate 262142 365).
Proof. repeat split. Qed.
Lemma ex_values :
  checked_add_months (mkdate 2024 31) 1 = Val (Some (mkdate 2024 60)) /\
  checked_add_months (mkdate 262142 365) 1 = Val None /\
  checked_add_months (mkdate 2024 31) 4294967295 = Val None /\
  with_day0 (mkdate 2024 31) 4294967295 = Val None /\
  with_year (mkdate 2024 60) 2023 = Val None /\
  week_checked_first_day (d_week (mkdate (-262143) 1) 6) = Val None /\
  week_checked_last_day (d_week (mkdate (-262143) 1) 6) = Val (Some (mkdate (-262143) 3)) /\
  from_weekday_of_month_opt 2017 3 4 2 = Val (Some (mkdate 2017 69)) /\
  years_since (mkdate 2021 59) (mkdate 2020 60) = Val (Some 0).
Proof. vm_compute. repeat split. Qed.

(** * The panicking week accessors: the same dates, a trap exactly when the checked form has nothing *)
Theorem week_panicking_spec y o d w : repr y o d -> 0 <= w <= 6 ->
  let f := week_start (dn_of_yo y o) w in
  week_first_day (d_week d w) = (if dn_in_range f then Val (date_of_dn f) else Panic) /\
  week_last_day (d_week d w) = (if dn_in_range (f + 6) then Val (date_of_dn (f + 6)) else Panic) /\
  week_days (d_week d w) =
    (if dn_in_range f && dn_in_range (f + 6) then Val (date_of_dn f, date_of_dn (f + 6)) else Panic).
Proof.
  intros H Hw f. unfold week_first_day, week_last_day, week_days, unwrap_r.
  rewrite (week_first_spec y o d w H Hw), (week_last_spec y o d w H Hw).
  pose proof (week_days_spec y o d w H Hw) as D. cbv zeta in D. rewrite D. fold f. cbn [bind].
  destruct (dn_in_range f); destruct (dn_in_range (f + 6)); repeat split; reflexivity.
Qed.
