(** C01, top level: on every case line the model's output is accepted by the independent judge
    (never [JBad]); on every in-domain case it is [JOk].  Assembled from the functional theorems. *)
From Coq Require Import ZArith List Bool Lia ZifyBool String.
From V Require Import Base.Int Base.IntLemmas Base.IO Base.Table Gen.DateTables Model.TimeDelta Model.Date Model.C01
  Judge.C01 Spec.Gregorian Proofs.C01.
Import ListNotations.
Open Scope Z_scope.
Ltac Zify.zify_post_hook ::= Z.to_euclidean_division_equations.

Definition not_bad (v : verdict) : Prop := match v with JBad _ => False | _ => True end.

Lemma bytes_eqb_refl b : bytes_eqb b b = true.
Proof. induction b as [|x b IH]; [reflexivity|]. cbn [bytes_eqb]. rewrite Z.eqb_refl, IH. reflexivity. Qed.
Lemma val_eqb_refl : forall v, val_eqb v v = true.
Proof.
  fix IH 1. intros v. destruct v; cbn [val_eqb]; try reflexivity; try apply Z.eqb_refl; try apply bytes_eqb_refl.
  - apply IH.
  - induction l as [|a l IHl]; [reflexivity|]. rewrite (IH a). exact IHl.
Qed.
Lemma judge_eq_refl v : judge_eq v v = JOk.
Proof. unfold judge_eq. rewrite val_eqb_refl. reflexivity. Qed.

(** codecs *)
Lemma enc_date_repr y o d : repr y o d -> Model.C01.enc_date d = enc_yo (y, o).
Proof.
  intros H. pose proof (repr_acc y o d H) as A. destruct (md_of_ordinal (is_leap y) o).
  destruct A as (Ey & Eo & _). unfold Model.C01.enc_date, enc_yo. rewrite Ey, Eo. reflexivity.
Qed.
Lemma vo_date_of_dn n : vo_date (date_if (dn_in_range n) (date_of_dn n)) = exp_dn n.
Proof.
  unfold exp_dn, vo_date. destruct (dn_in_range n) eqn:E; [|reflexivity]. cbn [date_if val_of_option].
  rewrite (enc_date_repr _ _ _ (date_of_dn_repr n E)). destruct (yo_of_dn n). reflexivity.
Qed.

Lemma arg_decodes v n : dn_of_arg v = Some n ->
  exists y o, v = VTup [VInt y; VInt o] /\ repr y o (mkdate y o) /\ n = dn_of_yo y o /\
              dec_date v = DDate (mkdate y o).
Proof.
  unfold dn_of_arg. destruct v as [| | | |l| | | |]; try discriminate.
  destruct l as [|[y| | | | | | | |] l]; try discriminate.
  destruct l as [|[o| | | | | | | |] l]; try discriminate.
  destruct l; try discriminate.
  destruct (year_in_range y && valid_yo y o) eqn:E; [|discriminate]. intros [= <-].
  apply andb_prop in E. destruct E as [Hy Ho].
  exists y, o. split; [reflexivity|]. split; [apply repr_mk; assumption|]. split; [reflexivity|].
  pose proof (year_range_bounds y Hy). pose proof (lo_facts_of y o Ho) as [_ Fo _ _ _ _ _].
  unfold dec_date. replace (in_i32 y && in_u32 o) with true by solve_in.
  rewrite from_yo_opt_spec by solve_in. rewrite Hy, Ho. reflexivity.
Qed.

Lemma un_holds (f : Z -> val) (g : Z -> val) args :
  (forall y o, repr y o (mkdate y o) -> g (mkdate y o) = f (dn_of_yo y o)) ->
  (un f args (match args with [a] => with_date a g | _ => VBad end)) <> JSkip ->
  un f args (match args with [a] => with_date a g | _ => VBad end) = JOk.
Proof.
  intros Hfg. unfold un. destruct args as [|a [|b r]]; try congruence.
  destruct (dn_of_arg a) as [n|] eqn:E; [|congruence]. intros _.
  destruct (arg_decodes a n E) as (y & o & -> & Hr & -> & Hdec).
  unfold with_date. rewrite Hdec. rewrite (Hfg y o Hr). apply judge_eq_refl.
Qed.
Lemma bin_holds (f : Z -> Z -> val) (g : Z -> Z -> val) args :
  (forall y1 o1 y2 o2, repr y1 o1 (mkdate y1 o1) -> repr y2 o2 (mkdate y2 o2) ->
     g (mkdate y1 o1) (mkdate y2 o2) = f (dn_of_yo y1 o1) (dn_of_yo y2 o2)) ->
  (bin f args (match args with [a; b] => with_date a (fun x => with_date b (fun y => g x y)) | _ => VBad end)) <> JSkip ->
  bin f args (match args with [a; b] => with_date a (fun x => with_date b (fun y => g x y)) | _ => VBad end) = JOk.
Proof.
  intros Hfg. unfold bin. destruct args as [|a [|b [|c r]]]; try congruence.
  destruct (dn_of_arg a) as [n1|] eqn:E1; [|congruence].
  destruct (dn_of_arg b) as [n2|] eqn:E2; [|congruence]. intros _.
  destruct (arg_decodes a n1 E1) as (y1 & o1 & -> & Hr1 & -> & Hdec1).
  destruct (arg_decodes b n2 E2) as (y2 & o2 & -> & Hr2 & -> & Hdec2).
  unfold with_date. rewrite Hdec1, Hdec2. rewrite (Hfg _ _ _ _ Hr1 Hr2). apply judge_eq_refl.
Qed.

Lemma acc_agrees y o : repr y o (mkdate y o) ->
  val_of_R enc_acc (d_acc (mkdate y o)) = exp_acc (dn_of_yo y o).
Proof.
  intros H. rewrite (accessors_spec y o _ H). cbn [val_of_R]. unfold exp_acc, spec_acc, enc_acc. cbv zeta.
  rewrite yo_of_dn_of_yo by exact (proj1 (proj2 H)).
  destruct (md_of_ordinal (is_leap y) o) as [m dd]. destruct (iso_of_dn (dn_of_yo y o)) as [iy iw].
  reflexivity.
Qed.

(** * [d.range]: the model's checksum over a range equals the checksum of the calendar's words *)
Definition D (n : Z) : option Z := date_if (dn_in_range n) (date_of_dn n).
Lemma opt_eqb_refl o : opt_eqb o o = true.
Proof. destruct o; cbn; [apply Z.eqb_refl|reflexivity]. Qed.
Lemma fnv_step_eq : Model.C01.fnv_step = Judge.C01.fnv_step.
Proof. reflexivity. Qed.

Lemma day_words_spec n : i32_min < n < i32_max ->
  day_words (D (n - 1)) (D n) (D (n + 1)) = Val (exp_words n).
Proof.
  intros Hn. unfold day_words, exp_words. change (D n) with (date_if (dn_in_range n) (date_of_dn n)).
  destruct (dn_in_range n) eqn:Er; [|reflexivity]. cbn [date_if].
  pose proof (date_of_dn_repr n Er) as H. destruct (yo_of_dn_valid n) as [Hv Hd].
  set (y := fst (yo_of_dn n)) in *. set (o := snd (yo_of_dn n)) in *. set (d := date_of_dn n) in *.
  assert (Eyo : yo_of_dn n = (y, o)) by (unfold y, o; destruct (yo_of_dn n); reflexivity).
  rewrite (accessors_spec y o d H). cbn [bind]. unfold spec_acc. cbv zeta. cbn [a_y a_m a_d a_o a_wd a_iy a_iw a_dn a_m0 a_d0 a_o0 a_dn2].
  pose proof (repr_acc y o d H) as A. rewrite Eyo.
  destruct (md_of_ordinal (is_leap y) o) as [m dd] eqn:Emd. cbn [fst snd].
  destruct A as (_ & _ & _ & _ & _ & _ & _ & _ & _ & Hvmd & Hord).
  pose proof (year_range_bounds y (proj1 H)) as Hyb.
  pose proof (lo_facts_of y o Hv) as [_ Fo _ _ _ _ _].
  pose proof (days_in_month_bounds (is_leap y) m) as Bdm. unfold valid_md in Hvmd.
  rewrite Hd.
  (* from_ymd_opt *)
  rewrite from_ymd_opt_spec by solve_in. rewrite (proj1 H). unfold valid_ymd. rewrite Hvmd. cbn [andb date_if bind].
  replace (mk_ymd y m dd) with d by (unfold mk_ymd; rewrite Hord; symmetry; exact (proj2 (proj2 H))).
  (* from_yo_opt *)
  rewrite from_yo_opt_spec by solve_in. rewrite (proj1 H), Hv. cbn [andb date_if bind].
  replace (mkdate y o) with d by (symmetry; exact (proj2 (proj2 H))).
  (* from_isoywd_opt *)
  destruct (isoywd_of_dn n) as [Hiv Hidn].
  pose proof (iso_of_dn_bounds n) as Hwb.
  assert (Hiy : y - 1 <= fst (iso_of_dn n) <= y + 1).
  { rewrite <- Hd. rewrite iso_of_dn_yo by assumption. cbv zeta.
    destruct (_ <? 1); [cbn; lia|]. destruct (_ <? _); cbn; lia. }
  destruct (iso_of_dn n) as [iy iw] eqn:Eiso. cbn [fst snd] in *.
  rewrite from_isoywd_opt_spec by (solve_in || (unfold weekday_of_dn; lia)).
  rewrite Hiv, Hidn, Er. cbn [andb date_if bind]. fold d.
  rewrite (succ_opt_spec y o d H), (pred_opt_spec y o d H), Hd. cbn [bind]. fold (D (n + 1)) (D (n - 1)).
  rewrite !opt_eqb_refl. cbn [b2z].
  f_equal.
Qed.

Lemma from_days_D n : in_i32 n = true -> from_num_days_from_ce_opt n = Val (D n).
Proof. intros H. unfold D. apply from_num_days_from_ce_opt_spec. exact H. Qed.

Lemma range_step_spec n h : i32_min < n -> n + 1 < i32_max ->
  range_step (n, Val (D (n - 1), D n, h)) = (n + 1, Val (D n, D (n + 1), snd (exp_range_step (n, h)))).
Proof.
  intros H1 H2. unfold range_step, exp_range_step. cbn [bind snd].
  rewrite from_days_D by solve_in. cbn [bind]. rewrite day_words_spec by lia. cbn [bind].
  rewrite fnv_step_eq. reflexivity.
Qed.

Lemma range_iter_spec lo h0 : i32_min < lo -> forall k, lo + Zpos k < i32_max ->
  Pos.iter range_step (lo, Val (D (lo - 1), D lo, h0)) k =
    (lo + Zpos k, Val (D (lo + Zpos k - 1), D (lo + Zpos k), snd (Pos.iter exp_range_step (lo, h0) k))) /\
  fst (Pos.iter exp_range_step (lo, h0) k) = lo + Zpos k.
Proof.
  intros Hlo. induction k as [|k IH] using Pos.peano_ind; intros Hk.
  - cbn [Pos.iter]. rewrite range_step_spec by lia. replace (lo + 1 - 1) with lo by lia.
    split; [reflexivity|]. reflexivity.
  - rewrite !Pos.iter_succ. destruct (IH ltac:(lia)) as [IH1 IH2]. rewrite IH1.
    destruct (Pos.iter exp_range_step (lo, h0) k) as [n h] eqn:E. cbn [fst snd] in *. subst n.
    replace (lo + Z.pos (Pos.succ k)) with (lo + Z.pos k + 1) by lia.
    rewrite range_step_spec by lia. replace (lo + Z.pos k + 1 - 1) with (lo + Z.pos k) by lia.
    split; reflexivity.
Qed.

Theorem d_range_spec lo hi : i32_min < lo -> lo <= hi -> hi < i32_max ->
  d_range lo hi = Val (exp_range lo hi).
Proof.
  intros H1 H2 H3. unfold d_range, exp_range. destruct (hi <=? lo) eqn:E; [reflexivity|].
  rewrite !from_days_D by solve_in. cbn [bind].
  destruct (range_iter_spec lo Judge.C01.FNV_OFFSET H1 (Z.to_pos (hi - lo)) ltac:(lia)) as [R _].
  change Model.C01.FNV_OFFSET with Judge.C01.FNV_OFFSET. rewrite R. reflexivity.
Qed.

(** * Top level: whenever the judge has an opinion on a case, it accepts the model's output *)
Theorem C01_holds op args : judge op args (run op args) <> JSkip -> judge op args (run op args) = JOk.
Proof.
  unfold judge, run. intros Hdom.
  destruct (op_is op "d.ymd") eqn:O1.
  { destruct args as [|[y| | | | | | | |] [|[m| | | | | | | |] [|[d| | | | | | | |] [|? ?]]]]; try congruence.
    destruct (in_i32 y && in_u32 m && in_u32 d) eqn:E; [|congruence].
    apply andb_prop in E. destruct E as [E E3]. apply andb_prop in E. destruct E as [E1 E2].
    unfold arg_i32, arg_u32. rewrite E1, E2, E3. rewrite from_ymd_opt_spec by assumption. cbn [val_of_R].
    rewrite (andb_comm (valid_ymd y m d)).
    destruct (year_in_range y && valid_ymd y m d) eqn:V; cbn [date_if vo_date val_of_option]; [|apply judge_eq_refl].
    apply andb_prop in V. destruct V as [V1 V2].
    destruct (mk_ymd_repr y m d V1 V2) as [Hr _]. rewrite (enc_date_repr _ _ _ Hr). apply judge_eq_refl. }
  destruct (op_is op "d.yo") eqn:O2.
  { destruct args as [|[y| | | | | | | |] [|[o| | | | | | | |] [|? ?]]]; try congruence.
    destruct (in_i32 y && in_u32 o) eqn:E; [|congruence].
    apply andb_prop in E. destruct E as [E1 E2].
    unfold arg_i32, arg_u32. rewrite E1, E2. rewrite from_yo_opt_spec by assumption. cbn [val_of_R].
    rewrite (andb_comm (valid_yo y o)).
    destruct (year_in_range y && valid_yo y o) eqn:V; cbn [date_if vo_date val_of_option]; [|apply judge_eq_refl].
    apply andb_prop in V. destruct V as [V1 V2].
    rewrite (enc_date_repr _ _ _ (repr_mk y o V1 V2)). apply judge_eq_refl. }
  destruct (op_is op "d.isoywd") eqn:O3.
  { destruct args as [|[y| | | | | | | |] [|[w| | | | | | | |] [|[wd| | | | | | | |] [|? ?]]]]; try congruence.
    destruct (in_i32 y && in_u32 w && (0 <=? wd) && (wd <=? 6)) eqn:E; [|congruence].
    apply andb_prop in E. destruct E as [E E4]. apply andb_prop in E. destruct E as [E E3].
    apply andb_prop in E. destruct E as [E1 E2].
    unfold arg_i32, arg_u32. rewrite E1, E2, E3, E4. cbn [andb].
    rewrite from_isoywd_opt_spec by (assumption || lia). cbn [val_of_R].
    destruct (valid_isoywd y w wd); cbn [andb]; [|apply judge_eq_refl].
    rewrite vo_date_of_dn. apply judge_eq_refl. }
  destruct (op_is op "d.days") eqn:O4.
  { destruct args as [|[n| | | | | | | |] [|? ?]]; try congruence.
    destruct (in_i32 n) eqn:E; [|congruence].
    unfold arg_i32. rewrite E. rewrite from_num_days_from_ce_opt_spec by assumption. cbn [val_of_R].
    rewrite vo_date_of_dn. apply judge_eq_refl. }
  destruct (op_is op "d.acc") eqn:O5.
  { apply un_holds; [|exact Hdom]. intros y o H. apply acc_agrees. exact H. }
  destruct (op_is op "d.succ") eqn:O6.
  { apply un_holds; [|exact Hdom]. intros y o H. rewrite (succ_opt_spec y o _ H). cbn [val_of_R]. apply vo_date_of_dn. }
  destruct (op_is op "d.pred") eqn:O7.
  { apply un_holds; [|exact Hdom]. intros y o H. rewrite (pred_opt_spec y o _ H). cbn [val_of_R]. apply vo_date_of_dn. }
  destruct (op_is op "d.cmp") eqn:O8.
  { apply bin_holds; [|exact Hdom]. intros y1 o1 y2 o2 H1 H2. rewrite (order_spec _ _ _ _ _ _ H1 H2). reflexivity. }
  destruct (op_is op "d.cmpiw") eqn:O9.
  { apply bin_holds; [|exact Hdom]. intros y1 o1 y2 o2 H1 H2.
    destruct (d_iso_week_spec _ _ _ H1) as (S1 & _). destruct (d_iso_week_spec _ _ _ H2) as (S2 & _).
    cbv zeta in S1, S2. 
    destruct (iso_week_order _ _ _ _ _ _ _ _ H1 H2 S1 S2) as [C _].
    rewrite S1, S2. cbn [bind val_of_R]. unfold iw_cmp. rewrite C.
    destruct (iso_of_dn (dn_of_yo y1 o1)). destruct (iso_of_dn (dn_of_yo y2 o2)). reflexivity. }
  destruct (op_is op "d.range") eqn:O10; [|congruence].
  destruct args as [|[lo| | | | | | | |] [|[hi| | | | | | | |] [|? ?]]]; try congruence.
  destruct ((i32_min <? lo) && (lo <=? hi) && (hi <? i32_max) && (hi - lo <=? 1048576)) eqn:E; [|congruence].
  unfold arg_i32. replace (in_i32 lo) with true by solve_in. replace (in_i32 hi) with true by solve_in.
  unfold RANGE_MAX. rewrite E. rewrite d_range_spec by lia. apply judge_eq_refl.
Qed.
Corollary C01_never_bad op args : not_bad (judge op args (run op args)).
Proof.
  destruct (judge op args (run op args)) eqn:E; cbn; try exact I.
  assert (H : judge op args (run op args) <> JSkip) by (rewrite E; discriminate).
  rewrite (C01_holds op args H) in E. discriminate.
Qed.


