(** C09 -- the dispatcher level: for every case of the property's domain (as the judge states it:
    Judge/C09.v [valid_date], [valid_time], [time_in_domain], [valid_offset]) the model's output of
    [tx.show] is the documented text and the output of [tx.rt] is the value itself -- except on
    the two recorded findings, where it is the error the implementation gives. *)
From Coq Require Import ZArith List Bool Lia ZifyBool String.
From V Require Import Base.Int Base.IntLemmas Base.IO Base.Utf8 Base.Lift Model.Scan Model.Parse Model.FromStr Model.Show Model.DateTime
  Model.C09 Spec.Gregorian
  Proofs.C09Show Proofs.C09Time Proofs.C09Date Proofs.C09DateTime Proofs.C09Zoned Proofs.C09Shape Proofs.C09.
From V Require Model.Date Model.Time Model.C19 Judge.C09 Proofs.Date Proofs.C08 Proofs.C04.
Import ListNotations.
Open Scope Z_scope.
Ltac Zify.zify_post_hook ::= Z.to_euclidean_division_equations.
Import Proofs.Date.

Definition form_ok (form : Z) : Prop := form = 0 \/ form = 1.

(** * decoding the canonical encodings *)
Lemma dec_date_valid y o : Judge.C09.valid_date y o = true ->
  dec_date (VTup [VInt y; VInt o]) = Some (mkdate y o) /\ repr y o (mkdate y o) /\
  enc_date (mkdate y o) = VTup [VInt y; VInt o].
Proof.
  intros H. unfold Judge.C09.valid_date in H. apply andb_prop in H. destruct H as [Hy Ho].
  pose proof (year_range_bounds y Hy) as Hyb.
  pose proof (repr_mk y o Hy Ho) as Hr.
  pose proof Ho as Ho'. rewrite valid_yo_iff in Ho'.
  assert (Hob : 1 <= o <= 366) by (destruct (is_leap y); lia).
  split; [|split; [exact Hr|]].
  - unfold dec_date.
    replace (in_i32 y) with true by (symmetry; apply in_i32_iff; lia).
    replace (in_u32 o) with true by (unfold in_u32, in_range, u32_max; lia). cbn [andb].
    rewrite from_yo_opt_spec by (try apply in_i32_iff; unfold in_u32, in_range, u32_max; lia).
    rewrite Hy, Ho. reflexivity.
  - unfold enc_date. destruct (C08.repr_md y o _ Hr) as (E1 & E2 & _). rewrite E1, E2. reflexivity.
Qed.
Lemma dec_time_valid s f : Judge.C09.valid_time s f = true ->
  Time.dec_time (VTup [VInt s; VInt f]) = Some (Time.mk_time s f) /\ tvalid (Time.mk_time s f).
Proof.
  intros H. unfold Judge.C09.valid_time in H. unfold Time.dec_time.
  replace ((0 <=? s) && (s <? 86400) && (0 <=? f) && (f <? 2000000000)) with true by lia.
  split; [reflexivity|]. split; cbn; lia.
Qed.
Lemma time_dom_of s f : Judge.C09.valid_time s f = true -> Judge.C09.time_in_domain s f = true ->
  time_dom (Time.mk_time s f).
Proof.
  intros H1 H2. destruct (dec_time_valid s f H1) as [_ Hv]. split; [exact Hv|].
  unfold Judge.C09.time_in_domain in H2. cbn [Time.tsecs Time.tfrac]. lia.
Qed.
Lemma dec_ndt_valid y o s f : Judge.C09.valid_date y o = true -> Judge.C09.valid_time s f = true ->
  dec_ndt (VTup [VInt y; VInt o; VInt s; VInt f]) = Some (mk_ndt (mkdate y o) (Time.mk_time s f)).
Proof.
  intros Hd Ht. unfold dec_ndt. rewrite (proj1 (dec_date_valid y o Hd)), (proj1 (dec_time_valid s f Ht)). reflexivity.
Qed.
Lemma dec_dtz_valid y o s f off : Judge.C09.valid_date y o = true -> Judge.C09.valid_time s f = true ->
  Judge.C09.valid_offset off = true ->
  dec_dtz (VTup [VInt y; VInt o; VInt s; VInt f; VInt off]) = Some (mk_dtz (mk_ndt (mkdate y o) (Time.mk_time s f)) off).
Proof.
  intros Hd Ht Ho. unfold dec_dtz. rewrite (dec_ndt_valid y o s f Hd Ht).
  assert (Ee : east_opt off = Some off).
  { apply C04.east_opt_some_iff. split; [reflexivity|]. unfold Judge.C09.valid_offset in Ho. unfold C04.off_ok. lia. }
  rewrite Ee. reflexivity.
Qed.

Lemma op_show : op_is B"tx.show" "tx.show" = true. Proof. reflexivity. Qed.
Lemma op_rt_show : op_is B"tx.rt" "tx.show" = false. Proof. reflexivity. Qed.
Lemma op_rt_parse : op_is B"tx.rt" "tx.parse" = false. Proof. reflexivity. Qed.
Lemma op_rt : op_is B"tx.rt" "tx.rt" = true. Proof. reflexivity. Qed.

Lemma run_show ty form v r : show ty form v = Some (Val r) -> run B"tx.show" [VInt ty; VInt form; v] = VStr r.
Proof. intros H. unfold run. rewrite op_show, H. reflexivity. Qed.
Lemma run_rt ty form v r o : show ty form v = Some (Val r) -> parse_text ty r = Some o ->
  run B"tx.rt" [VInt ty; VInt form; v] = o.
Proof. intros H Hp. unfold run. rewrite op_rt_show, op_rt_parse, op_rt, H, Hp. reflexivity. Qed.

Lemma form_neg form : form_ok form -> negb ((form =? 0) || (form =? 1)) = false.
Proof. intros [-> | ->]; reflexivity. Qed.

(** * NaiveDate *)
Theorem holds_date y o form : Judge.C09.valid_date y o = true -> form_ok form ->
  run B"tx.show" [VInt 0; VInt form; VTup [VInt y; VInt o]] = VStr (Judge.C09.date_text y o) /\
  run B"tx.rt" [VInt 0; VInt form; VTup [VInt y; VInt o]] = VTup [VInt y; VInt o].
Proof.
  intros Hv Hf. destruct (dec_date_valid y o Hv) as (Hd & Hr & He).
  destruct (shape_date y o _ Hr) as [S1 S2].
  assert (Hs : show 0 form (VTup [VInt y; VInt o]) = Some (Val (Judge.C09.date_text y o))).
  { unfold show. rewrite (form_neg form Hf). cbn [Z.eqb]. rewrite Hd.
    destruct Hf as [-> | ->]; cbn [Z.eqb Pos.eqb]; [rewrite S2|rewrite S1]; reflexivity. }
  split; [apply run_show; exact Hs|]. eapply run_rt; [exact Hs|].
  unfold parse_text. cbn [Z.eqb]. unfold vres.
  destruct (date_roundtrip y o _ Hr) as (s & E1 & _ & E3). rewrite S1 in E1. injection E1 as <-.
  rewrite E3. cbn [val_of_PR]. rewrite He. reflexivity.
Qed.

(** * NaiveTime *)
Theorem holds_time s f form : Judge.C09.valid_time s f = true -> Judge.C09.time_in_domain s f = true -> form_ok form ->
  run B"tx.show" [VInt 1; VInt form; VTup [VInt s; VInt f]] = VStr (Judge.C09.time_text s f) /\
  run B"tx.rt" [VInt 1; VInt form; VTup [VInt s; VInt f]] = VTup [VInt s; VInt f].
Proof.
  intros Hv Hdm Hf. destruct (dec_time_valid s f Hv) as (Hd & Htv).
  pose proof (time_dom_of s f Hv Hdm) as Htd.
  destruct (shape_time _ Htv) as [S1 S2]. cbn [Time.tsecs Time.tfrac] in S1, S2.
  assert (Hs : show 1 form (VTup [VInt s; VInt f]) = Some (Val (Judge.C09.time_text s f))).
  { unfold show. rewrite (form_neg form Hf). cbn [Z.eqb Pos.eqb]. rewrite Hd.
    destruct Hf as [-> | ->]; cbn [Z.eqb Pos.eqb]; [rewrite S2|rewrite S1]; reflexivity. }
  split; [apply run_show; exact Hs|]. eapply run_rt; [exact Hs|].
  unfold parse_text. cbn [Z.eqb Pos.eqb]. unfold vres.
  destruct (time_roundtrip _ Htd) as (t & E1 & _ & E3). rewrite S1 in E1. injection E1 as <-.
  rewrite E3. reflexivity.
Qed.

(** * NaiveDateTime: Debug round trips; Display is the recorded finding *)
Theorem holds_ndt y o s f : Judge.C09.valid_date y o = true -> Judge.C09.valid_time s f = true ->
  Judge.C09.time_in_domain s f = true ->
  let v := VTup [VInt y; VInt o; VInt s; VInt f] in
  run B"tx.show" [VInt 2; VInt 1; v] = VStr (Judge.C09.date_text y o ++ B"T" ++ Judge.C09.time_text s f) /\
  run B"tx.show" [VInt 2; VInt 0; v] = VStr (Judge.C09.date_text y o ++ B" " ++ Judge.C09.time_text s f) /\
  run B"tx.rt" [VInt 2; VInt 1; v] = v /\
  run B"tx.rt" [VInt 2; VInt 0; v] = VErr B"Invalid".
Proof.
  intros Hv Ht Hdm v. destruct (dec_date_valid y o Hv) as (_ & Hr & He).
  destruct (dec_time_valid s f Ht) as (_ & Htv). pose proof (time_dom_of s f Ht Hdm) as Htd.
  pose proof (dec_ndt_valid y o s f Hv Ht) as Hd.
  destruct (shape_ndt y o _ _ Hr Htv) as [S1 S2]. cbn [Time.tsecs Time.tfrac] in S1, S2.
  assert (Hdom : ndt_dom (mk_ndt (mkdate y o) (Time.mk_time s f))) by (split; [exists y, o; exact Hr|exact Htd]).
  assert (Hs1 : show 2 1 v = Some (Val (Judge.C09.date_text y o ++ B"T" ++ Judge.C09.time_text s f))).
  { unfold show, v. cbn [Z.eqb Pos.eqb orb negb]. rewrite Hd, S1. reflexivity. }
  assert (Hs0 : show 2 0 v = Some (Val (Judge.C09.date_text y o ++ B" " ++ Judge.C09.time_text s f))).
  { unfold show, v. cbn [Z.eqb Pos.eqb orb negb]. rewrite Hd, S2. reflexivity. }
  split; [apply run_show; exact Hs1|]. split; [apply run_show; exact Hs0|]. split.
  - eapply run_rt; [exact Hs1|]. unfold parse_text. cbn [Z.eqb Pos.eqb]. unfold vres.
    destruct (ndt_debug_roundtrip _ Hdom) as (t & E1 & E3). rewrite S1 in E1. injection E1 as <-.
    match goal with |- context [naive_datetime_from_str ?x] =>
      replace (naive_datetime_from_str x) with (Val (POk (mk_ndt (mkdate y o) (Time.mk_time s f)))) by (symmetry; exact E3) end.
    cbn [val_of_PR]. unfold enc_ndt. cbn [nd_date nd_time Time.tsecs Time.tfrac].
    destruct (C08.repr_md y o _ Hr) as (E4 & E5 & _). rewrite E4, E5. reflexivity.
  - eapply run_rt; [exact Hs0|]. unfold parse_text. cbn [Z.eqb Pos.eqb]. unfold vres.
    destruct (ndt_display_refused _ Hdom) as (t & E1 & E3). rewrite S2 in E1. injection E1 as <-.
    match goal with |- context [naive_datetime_from_str ?x] =>
      replace (naive_datetime_from_str x) with (@Val (presult ndt) (PErr Scan.Invalid)) by (symmetry; exact E3) end.
    reflexivity.
Qed.

(** * DateTime<FixedOffset> / DateTime<Utc>: wall-clock date inside the range *)
Definition wall_ok (y o s off : Z) : bool := dn_in_range (dn_of_yo y o + (s + off) / 86400).

Theorem holds_dt y o s f off ty form : Judge.C09.valid_date y o = true -> Judge.C09.valid_time s f = true ->
  Judge.C09.time_in_domain s f = true -> Judge.C09.valid_offset off = true -> off mod 60 = 0 ->
  (ty = 3 \/ (ty = 4 /\ off = 0)) -> form_ok form -> wall_ok y o s off = true ->
  let v := VTup [VInt y; VInt o; VInt s; VInt f; VInt off] in
  (exists t, Judge.C09.spec_text ty form v = Judge.C09.InDom t /\ run B"tx.show" [VInt ty; VInt form; v] = VStr t) /\
  run B"tx.rt" [VInt ty; VInt form; v] = v.
Proof.
  intros Hv Ht Hdm Ho Hm Hty Hf Hw v. subst v.
  destruct (dec_date_valid y o Hv) as (_ & Hr & He).
  pose proof (time_dom_of s f Ht Hdm) as Htd.
  pose proof (dec_dtz_valid y o s f off Hv Ht Ho) as Hd.
  assert (Hob : -86400 < off < 86400) by (unfold Judge.C09.valid_offset in Ho; lia).
  set (a := mk_dtz (mk_ndt (mkdate y o) (Time.mk_time s f)) off) in *.
  assert (Hdom : dtz_dom a).
  { exists y, o. unfold a. cbn [dz_utc dz_off nd_date nd_time Time.tsecs]. repeat split; try lia; try apply Htd; try apply Hr. exact Hw. }
  assert (Henc : enc_dtz a = VTup [VInt y; VInt o; VInt s; VInt f; VInt off]).
  { unfold enc_dtz, a. cbn [dz_utc dz_off nd_date nd_time Time.tsecs Time.tfrac].
    destruct (C08.repr_md y o _ Hr) as (E4 & E5 & _). rewrite E4, E5. reflexivity. }
  pose proof (shape_dtz y o _ s f off (ty =? 4) Hr Htd Hob Hm Hw) as Sh. cbv zeta in Sh. fold a in Sh.
  unfold Judge.C09.spec_text. rewrite (form_neg form Hf).
  assert (Hvalid : Judge.C09.valid_date y o && Judge.C09.valid_time s f && Judge.C09.valid_offset off && ((ty =? 3) || (off =? 0)) = true).
  { rewrite Hv, Ht, Ho. destruct Hty as [-> | [-> ->]]; reflexivity. }
  destruct (Judge.C09.wall y o s off) as [[ly lo] ls]. destruct Sh as [S1 S2].
  assert (Hshow : show ty form (VTup [VInt y; VInt o; VInt s; VInt f; VInt off]) = Some (if form =? 1 then to_text (dtz_debug (ty =? 4) [] a) else to_text (dtz_display (ty =? 4) [] a))).
  { unfold show. rewrite (form_neg form Hf).
    destruct Hty as [-> | [-> ->]]; cbn [Z.eqb Pos.eqb]; rewrite Hd; unfold a; cbn [dz_off Z.eqb];
      destruct (form =? 1); reflexivity. }
  split.
  - destruct Hty as [-> | [-> ->]]; cbn [Z.eqb Pos.eqb orb] in *; rewrite Hvalid, Hdm; cbn [andb];
      replace (0 mod 60 =? 0) with true by reflexivity; try (replace (off mod 60 =? 0) with true by lia);
      destruct Hf as [-> | ->]; cbn [Z.eqb Pos.eqb] in *; eexists; (split; [reflexivity|]);
      apply run_show; rewrite Hshow; first [rewrite S1|rewrite S2]; repeat (rewrite <- app_assoc; cbn [app]); reflexivity.
  - destruct Hty as [-> | [-> ->]].
    + destruct (dtz_fixed_roundtrip a Hdom) as [(t1 & E1 & E2) (t2 & E3 & E4)].
      destruct Hf as [-> | ->]; cbn [Z.eqb Pos.eqb] in Hshow.
      * eapply run_rt; [rewrite Hshow, E3; reflexivity|]. unfold parse_text. cbn [Z.eqb Pos.eqb]. unfold vres. rewrite E4.
        cbn [val_of_PR]. exact (f_equal Some Henc).
      * eapply run_rt; [rewrite Hshow, E1; reflexivity|]. unfold parse_text. cbn [Z.eqb Pos.eqb]. unfold vres. rewrite E2.
        cbn [val_of_PR]. exact (f_equal Some Henc).
    + destruct (dtz_utc_roundtrip a Hdom eq_refl) as [(t1 & E1 & E2) (t2 & E3 & E4)].
      destruct Hf as [-> | ->]; cbn [Z.eqb Pos.eqb] in Hshow.
      * eapply run_rt; [rewrite Hshow, E3; reflexivity|]. unfold parse_text. cbn [Z.eqb Pos.eqb]. unfold vres. rewrite E4.
        cbn [val_of_PR]. exact (f_equal Some Henc).
      * eapply run_rt; [rewrite Hshow, E1; reflexivity|]. unfold parse_text. cbn [Z.eqb Pos.eqb]. unfold vres. rewrite E2.
        cbn [val_of_PR]. exact (f_equal Some Henc).
Qed.

(** * FixedOffset, Weekday, Month: finite domains, by complete enumeration of the dispatcher *)
Definition small_ok (ty form : Z) (v : val) : bool :=
  match Judge.C09.spec_text ty form v with
  | Judge.C09.InDom t =>
      val_eqb (run B"tx.show" [VInt ty; VInt form; v]) (VStr t) && val_eqb (run B"tx.rt" [VInt ty; VInt form; v]) v
  | _ => false
  end.
Lemma fixed_sweep : forall_range (fun m => small_ok 5 0 (VInt (60 * m)) && small_ok 5 1 (VInt (60 * m))) (-1439) 2879 = true.
Proof. vm_compute. reflexivity. Qed.
Lemma wd_sweep : forall_range (fun w => small_ok 6 0 (VInt w) && small_ok 6 1 (VInt w)) 0 7 = true.
Proof. vm_compute. reflexivity. Qed.
Lemma mo_sweep : forall_range (fun m => small_ok 7 1 (VInt m)) 1 12 = true.
Proof. vm_compute. reflexivity. Qed.

Lemma val_eqb_str v t : val_eqb v (VStr t) = true -> v = VStr t.
Proof.
  destruct v; cbn; try discriminate. intros H. f_equal. revert t H.
  induction s as [|c r IH]; intros [|d t]; cbn; try discriminate; [reflexivity|].
  intros H. apply andb_prop in H. destruct H as [H1 H2]. f_equal; [lia|apply IH; exact H2].
Qed.
Lemma val_eqb_int v z : val_eqb v (VInt z) = true -> v = VInt z.
Proof. destruct v; cbn; try discriminate. intros H. f_equal. lia. Qed.
Lemma small_ok_spec ty form z : small_ok ty form (VInt z) = true ->
  exists t, Judge.C09.spec_text ty form (VInt z) = Judge.C09.InDom t /\
            run B"tx.show" [VInt ty; VInt form; VInt z] = VStr t /\ run B"tx.rt" [VInt ty; VInt form; VInt z] = VInt z.
Proof.
  unfold small_ok. destruct (Judge.C09.spec_text ty form (VInt z)) as [t| |]; try discriminate.
  intros H. apply andb_prop in H. destruct H as [H1 H2]. exists t. split; [reflexivity|].
  split; [apply val_eqb_str; exact H1|apply val_eqb_int; exact H2].
Qed.

Theorem holds_fixed_offset off form : -86400 < off < 86400 -> off mod 60 = 0 -> form_ok form ->
  exists t, Judge.C09.spec_text 5 form (VInt off) = Judge.C09.InDom t /\
            run B"tx.show" [VInt 5; VInt form; VInt off] = VStr t /\ run B"tx.rt" [VInt 5; VInt form; VInt off] = VInt off.
Proof.
  intros Hr Hm Hf. assert (E : off = 60 * (off / 60)) by lia.
  pose proof (forall_range_spec _ _ _ fixed_sweep (off / 60) ltac:(lia)) as H. cbv beta in H. rewrite <- E in H.
  apply andb_prop in H. destruct H as [H0 H1]. destruct Hf as [-> | ->]; apply small_ok_spec; assumption.
Qed.
Theorem holds_weekday w form : 0 <= w <= 6 -> form_ok form ->
  exists t, Judge.C09.spec_text 6 form (VInt w) = Judge.C09.InDom t /\
            run B"tx.show" [VInt 6; VInt form; VInt w] = VStr t /\ run B"tx.rt" [VInt 6; VInt form; VInt w] = VInt w.
Proof.
  intros Hw Hf. pose proof (forall_range_spec _ _ _ wd_sweep w ltac:(lia)) as H. cbv beta in H.
  apply andb_prop in H. destruct H as [H0 H1]. destruct Hf as [-> | ->]; apply small_ok_spec; assumption.
Qed.
Theorem holds_month m : 1 <= m <= 12 ->
  exists t, Judge.C09.spec_text 7 1 (VInt m) = Judge.C09.InDom t /\
            run B"tx.show" [VInt 7; VInt 1; VInt m] = VStr t /\ run B"tx.rt" [VInt 7; VInt 1; VInt m] = VInt m.
Proof.
  intros Hm. pose proof (forall_range_spec _ _ _ mo_sweep m ltac:(lia)) as H. cbv beta in H.
  apply small_ok_spec; assumption.
Qed.
