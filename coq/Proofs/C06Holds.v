(** C06, top level: on every case line whose arguments decode, whenever the independent judge
    (Judge/C06.v) has an opinion it accepts the model's output.  Assembled from the functional
    theorems of Proofs/C06.v, C06Ops.v and C06Display.v. *)
From Coq Require Import ZArith List Bool Lia ZifyBool String.
From V Require Import Base.Int Base.IntLemmas Base.IO Gen.TimeDelta Model.C06 Spec.DurationText
  Proofs.C06 Proofs.C06Ops Proofs.C06Display Proofs.HoldsLib.
From V Require Judge.C06.
Import ListNotations.
Open Scope Z_scope.
Ltac Zify.zify_post_hook ::= Z.to_euclidean_division_equations.
Module J := V.Judge.C06.

(** * the argument shapes of the dispatcher *)
Definition sh_i64 (f : Z -> val) (args : list val) : val :=
  match args with [a] => match arg_i64 a with Some z => f z | None => VBad end | _ => VBad end.
Definition sh_td1 (f : td -> val) (args : list val) : val :=
  match args with [a] => match dec_td a with Some d => f d | None => VBad end | _ => VBad end.
Definition sh_td2 (f : td -> td -> val) (args : list val) : val :=
  match args with
  | [a; b] => match dec_td a, dec_td b with Some x, Some y => f x y | _, _ => VBad end
  | _ => VBad end.
Definition sh_tdk (f : td -> Z -> val) (args : list val) : val :=
  match args with
  | [a; b] => match dec_td a, arg_i32 b with Some x, Some k => f x k | _, _ => VBad end
  | _ => VBad end.
Definition sh_sum (args : list val) : val :=
  match args with
  | [VTup l] => match dec_tds l with Some ds => val_of_R enc_td (td_sum ds (mk_td 0 0)) | None => VBad end
  | _ => VBad end.
Definition sh_new (args : list val) : val :=
  match args with
  | [a; b] => match arg_i64 a, arg_u32 b with Some s, Some n => vo_td (td_new s n) | _, _ => VBad end
  | _ => VBad end.
Definition sh_fromstd (args : list val) : val :=
  match args with
  | [a; b] => match arg_u64 a, arg_u32 b with
              | Some s, Some n => if n <? 1000000000 then vo_td (from_std s n) else VBad
              | _, _ => VBad end
  | _ => VBad end.
Definition sh_consts (args : list val) : val :=
  match args with
  | [] => let lo := mk_td TD_MIN_secs TD_MIN_nanos in let hi := mk_td TD_MAX_secs TD_MAX_nanos in
          VTup [enc_td lo; enc_td hi; enc_td (mk_td 0 0); enc_td lo; enc_td hi]
  | _ => VBad end.

(** which model function answers which op (every op of the dispatcher) *)
Theorem dispatch args :
  run (B"td.new") args = sh_new args /\
  run (B"td.weeks") args = sh_i64 (fun z => vo_td (try_weeks z)) args /\
  run (B"td.days") args = sh_i64 (fun z => vo_td (try_days z)) args /\
  run (B"td.hours") args = sh_i64 (fun z => vo_td (try_hours z)) args /\
  run (B"td.minutes") args = sh_i64 (fun z => vo_td (try_minutes z)) args /\
  run (B"td.seconds") args = sh_i64 (fun z => vo_td (try_seconds z)) args /\
  run (B"td.millis") args = sh_i64 (fun z => val_of_R vo_td (try_milliseconds z)) args /\
  run (B"td.pweeks") args = sh_i64 (fun z => val_of_R enc_td (unwrap (try_weeks z))) args /\
  run (B"td.pdays") args = sh_i64 (fun z => val_of_R enc_td (unwrap (try_days z))) args /\
  run (B"td.phours") args = sh_i64 (fun z => val_of_R enc_td (unwrap (try_hours z))) args /\
  run (B"td.pminutes") args = sh_i64 (fun z => val_of_R enc_td (unwrap (try_minutes z))) args /\
  run (B"td.pseconds") args = sh_i64 (fun z => val_of_R enc_td (unwrap (try_seconds z))) args /\
  run (B"td.pmillis") args = sh_i64 (fun z => val_of_R enc_td (unwrap_r (try_milliseconds z))) args /\
  run (B"td.micros") args = sh_i64 (fun z => val_of_R enc_td (microseconds z)) args /\
  run (B"td.nanos") args = sh_i64 (fun z => val_of_R enc_td (nanoseconds z)) args /\
  run (B"td.acc") args = sh_td1 (fun d => val_of_R (fun v => v) (td_acc d)) args /\
  run (B"td.add") args = sh_td2 (fun a b => val_of_R vo_td (td_checked_add a b)) args /\
  run (B"td.sub") args = sh_td2 (fun a b => val_of_R vo_td (td_checked_sub a b)) args /\
  run (B"td.mul") args = sh_tdk (fun a k => val_of_R vo_td (td_checked_mul a k)) args /\
  run (B"td.div") args = sh_tdk (fun a k => val_of_R vo_td (td_checked_div a k)) args /\
  run (B"td.neg") args = sh_td1 (fun d => val_of_R enc_td (td_neg d)) args /\
  run (B"td.abs") args = sh_td1 (fun d => val_of_R enc_td (td_abs d)) args /\
  run (B"td.cmp") args = sh_td2 (fun a b => VInt (td_cmp a b)) args /\
  run (B"td.fromstd") args = sh_fromstd args /\
  run (B"td.tostd") args = sh_td1 (fun d => val_of_option (fun '(s, n) => VTup [VInt s; VInt n]) (to_std d)) args /\
  run (B"td.disp") args = sh_td1 (fun d => val_of_R VStr (td_display d)) args /\
  run (B"td.opadd") args = sh_td2 (fun a b => val_of_R enc_td (op_add a b)) args /\
  run (B"td.opsub") args = sh_td2 (fun a b => val_of_R enc_td (op_sub a b)) args /\
  run (B"td.opmul") args = sh_tdk (fun a k => val_of_R enc_td (op_mul a k)) args /\
  run (B"td.opdiv") args = sh_tdk (fun a k => val_of_R enc_td (op_div a k)) args /\
  run (B"td.sum") args = sh_sum args /\
  run (B"td.opaddasg") args = sh_td2 (fun a b => val_of_R enc_td (op_add a b)) args /\
  run (B"td.opsubasg") args = sh_td2 (fun a b => val_of_R enc_td (op_sub a b)) args /\
  run (B"td.sumv") args = sh_sum args /\
  run (B"td.consts") args = sh_consts args.
Proof. repeat match goal with |- _ /\ _ => split end; reflexivity. Qed.

(** * codecs *)
Lemma dec_ns v d : dec_td v = Some d -> valid d /\ J.ns_of_arg v = Some (ns d) /\ v = enc_td d.
Proof.
  unfold dec_td. destruct v as [| | | |l| | | |]; try discriminate.
  destruct l as [|[s| | | | | | | |] l]; try discriminate.
  destruct l as [|[n| | | | | | | |] l]; try discriminate.
  destruct l; try discriminate.
  destruct (in_i64 s && in_u32 n) eqn:E; [|discriminate]. apply andb_prop in E. destruct E as [E1 E2].
  intros H. pose proof (td_new_spec s n E1 E2) as S. rewrite H in S. destruct S as (Hs & Hn & Hv).
  split; [exact Hv|]. destruct d as [ds dn]. cbn [secs nanos] in Hs, Hn. subst ds dn.
  split; [|reflexivity]. unfold J.ns_of_arg. destruct Hv as [Hv1 Hv2]. unfold ns, in_rng, G, RMIN, RMAX in *. cbn [secs nanos] in *.
  unfold J.in_rng, J.G, J.RMIN, J.RMAX.
  replace ((0 <=? n) && (n <? 1000000000) &&
    ((-9223372036854775807000000 <=? s * 1000000000 + n) && (s * 1000000000 + n <=? 9223372036854775807000000))) with true by lia.
  reflexivity.
Qed.
Lemma ns_dec v x : J.ns_of_arg v = Some x -> exists d, dec_td v = Some d /\ valid d /\ ns d = x.
Proof.
  unfold J.ns_of_arg. destruct v as [| | | |l| | | |]; try discriminate.
  destruct l as [|[s| | | | | | | |] l]; try discriminate.
  destruct l as [|[n| | | | | | | |] l]; try discriminate.
  destruct l; try discriminate.
  unfold J.in_rng, J.G, J.RMIN, J.RMAX.
  destruct ((0 <=? n) && (n <? 1000000000) &&
    ((-9223372036854775807000000 <=? s * 1000000000 + n) && (s * 1000000000 + n <=? 9223372036854775807000000))) eqn:E;
    [|discriminate]. intros [= <-].
  assert (E1 : in_i64 s = true) by solve_in. assert (E2 : in_u32 n = true) by solve_in.
  pose proof (td_new_spec s n E1 E2) as S. unfold dec_td. rewrite E1, E2. cbn [andb].
  destruct (td_new s n) as [d|].
  - destruct S as (Hs & Hn & Hv). exists d. split; [reflexivity|]. split; [exact Hv|]. unfold ns, G. rewrite Hs, Hn. reflexivity.
  - exfalso. apply S. unfold in_rng, G, RMIN, RMAX. lia.
Qed.
Lemma enc_valid d : valid d -> enc_td d = J.enc_ns (ns d).
Proof.
  intros [H _]. unfold enc_td, J.enc_ns, J.G, ns, G in *.
  replace ((secs d * 1000000000 + nanos d) / 1000000000) with (secs d) by lia.
  replace ((secs d * 1000000000 + nanos d) mod 1000000000) with (nanos d) by lia. reflexivity.
Qed.
Lemma ns_of_out_enc d : valid d -> J.ns_of_out (enc_td d) = Some (ns d).
Proof.
  intros [H1 H2]. unfold J.ns_of_out, J.ns_of_arg, enc_td, J.in_rng, J.G, J.RMIN, J.RMAX.
  unfold ns, in_rng, G, RMIN, RMAX in *.
  replace ((0 <=? nanos d) && (nanos d <? 1000000000) &&
    ((-9223372036854775807000000 <=? secs d * 1000000000 + nanos d) && (secs d * 1000000000 + nanos d <=? 9223372036854775807000000))) with true by lia.
  reflexivity.
Qed.
Lemma in_rng_J x : J.in_rng x = in_rngb x.
Proof. reflexivity. Qed.
Lemma exp_opt_spec (o : option td) x :
  match o with Some d => ns d = x /\ valid d | None => ~ in_rng x end -> vo_td o = J.exp_opt x.
Proof.
  unfold J.exp_opt. change (J.in_rng x) with (in_rngb x). destruct o as [d|]; cbn [vo_td val_of_option]; intros H.
  - destruct H as [H1 H2]. pose proof H2 as [_ H3]. rewrite H1 in H3. apply in_rngb_iff in H3. rewrite H3.
    rewrite enc_valid by exact H2. rewrite H1. reflexivity.
  - destruct (in_rngb x) eqn:E; [apply in_rngb_iff in E; tauto|reflexivity].
Qed.
Lemma exp_opt_R (c : R (option td)) x :
  (exists r, c = Val r /\ match r with Some d => ns d = x /\ valid d | None => ~ in_rng x end) ->
  val_of_R vo_td c = J.exp_opt x.
Proof. intros (r & -> & H). cbn [val_of_R]. apply exp_opt_spec. exact H. Qed.
Lemma eop_val r x : exact_or_panic r x -> val_of_R enc_td r = J.exp_or_panic x.
Proof.
  unfold exact_or_panic, J.exp_or_panic. change (J.in_rng x) with (in_rngb x). destruct (in_rngb x).
  - intros (d & -> & H1 & H2). cbn [val_of_R]. rewrite enc_valid by exact H2. rewrite H1. reflexivity.
  - intros ->. reflexivity.
Qed.
Lemma exact_val (r : R td) x : (exists d, r = Val d /\ ns d = x /\ valid d) -> val_of_R enc_td r = J.enc_ns x.
Proof. intros (d & -> & H1 & H2). cbn [val_of_R]. rewrite enc_valid by exact H2. rewrite H1. reflexivity. Qed.

(** * generic acceptance lemmas, one per judge combinator *)
Lemma i64_holds (e g : Z -> val) args :
  (forall z, in_i64 z = true -> e z = g z) ->
  (match args with [VInt z] => if in_i64 z then judge_eq (e z) (sh_i64 g args) else JSkip | _ => JSkip end) <> JSkip ->
  (match args with [VInt z] => if in_i64 z then judge_eq (e z) (sh_i64 g args) else JSkip | _ => JSkip end) = JOk.
Proof.
  intros H. destruct args as [|[z| | | | | | | |] [|? ?]]; try congruence.
  destruct (in_i64 z) eqn:E; [|congruence]. intros _. unfold sh_i64, arg_i64. rewrite E.
  apply hl_judge_eq_of. apply H. exact E.
Qed.
Lemma un_holds (f : Z -> val) (g : td -> val) args :
  (forall d, valid d -> f (ns d) = g d) ->
  J.un f args (sh_td1 g args) <> JSkip -> J.un f args (sh_td1 g args) = JOk.
Proof.
  intros H. unfold J.un. destruct args as [|a [|? ?]]; try congruence.
  destruct (J.ns_of_arg a) as [x|] eqn:E; [|congruence]. intros _.
  destruct (ns_dec a x E) as (d & Hd & Hv & <-). unfold sh_td1. rewrite Hd. apply hl_judge_eq_of. apply H. exact Hv.
Qed.
Lemma bin_holds (f : Z -> Z -> val) (g : td -> td -> val) args :
  (forall a b, valid a -> valid b -> f (ns a) (ns b) = g a b) ->
  J.bin f args (sh_td2 g args) <> JSkip -> J.bin f args (sh_td2 g args) = JOk.
Proof.
  intros H. unfold J.bin. destruct args as [|a [|b [|? ?]]]; try congruence.
  destruct (J.ns_of_arg a) as [x|] eqn:E1; [|congruence].
  destruct (J.ns_of_arg b) as [y|] eqn:E2; [|congruence]. intros _.
  destruct (ns_dec a x E1) as (da & Hda & Hva & <-). destruct (ns_dec b y E2) as (db & Hdb & Hvb & <-).
  unfold sh_td2. rewrite Hda, Hdb. apply hl_judge_eq_of. apply H; assumption.
Qed.
Lemma bink_holds (f : Z -> Z -> val -> verdict) (g : td -> Z -> val) args :
  (forall a k, valid a -> in_i32 k = true -> f (ns a) k (g a k) = JOk) ->
  J.bin_k f args (sh_tdk g args) <> JSkip -> J.bin_k f args (sh_tdk g args) = JOk.
Proof.
  intros H. unfold J.bin_k. destruct args as [|a [|[k| | | | | | | |] [|? ?]]]; try congruence.
  destruct (J.ns_of_arg a) as [x|] eqn:E1; [|congruence].
  destruct (in_i32 k) eqn:Ek; [|congruence]. intros _.
  destruct (ns_dec a x E1) as (da & Hda & Hva & <-).
  unfold sh_tdk, arg_i32. rewrite Hda, Ek. apply H; assumption.
Qed.

Definition HOLDS (s : string) (args : list val) : Prop :=
  J.judge (bytes_of_string s) args (run (bytes_of_string s) args) <> JSkip ->
  J.judge (bytes_of_string s) args (run (bytes_of_string s) args) = JOk.

Lemma mul_assoc_G z k : z * (k * J.G) = z * k * G.
Proof. unfold J.G, G. ring. Qed.

Lemma holds_new args : HOLDS "td.new" args.
Proof.
  unfold HOLDS. change (run (B"td.new") args) with (sh_new args).
  destruct args as [|[s| | | | | | | |] [|[n| | | | | | | |] [|? ?]]]; try (intros H; exfalso; apply H; reflexivity).
  change (J.judge (B"td.new") [VInt s; VInt n] (sh_new [VInt s; VInt n])) with
    (if in_i64 s && in_u32 n then judge_eq (if n <? J.G then J.exp_opt (s * J.G + n) else VNone) (sh_new [VInt s; VInt n]) else JSkip).
  destruct (in_i64 s && in_u32 n) eqn:E; [|congruence]. intros _. apply andb_prop in E. destruct E as [E1 E2].
  unfold sh_new, arg_i64, arg_u32. rewrite E1, E2. apply hl_judge_eq_of.
  pose proof (td_new_spec s n E1 E2) as S. unfold J.G. destruct (n <? 1000000000) eqn:En.
  - symmetry. apply exp_opt_spec. destruct (td_new s n) as [d|].
    + destruct S as (Hs & Hn & Hv). split; [unfold ns, G; rewrite Hs, Hn; reflexivity|exact Hv].
    + intros Hr. apply S. unfold G. split; [lia|exact Hr].
  - destruct (td_new s n) as [d|]; [|reflexivity]. destruct S as (_ & Hn & [Hv _]). unfold G in Hv. lia.
Qed.

Ltac unit_ctor_tac per g spec :=
  unfold HOLDS;
  refine (i64_holds (fun z => J.exp_opt (z * (per * J.G))) g _ _);
  intros z Hz; symmetry; rewrite mul_assoc_G; apply exp_opt_spec; apply spec; exact Hz.
Lemma holds_weeks args : HOLDS "td.weeks" args.
Proof. unit_ctor_tac 604800 (fun z => vo_td (try_weeks z)) try_weeks_spec. Qed.
Lemma holds_days args : HOLDS "td.days" args.
Proof. unit_ctor_tac 86400 (fun z => vo_td (try_days z)) try_days_spec. Qed.
Lemma holds_hours args : HOLDS "td.hours" args.
Proof. unit_ctor_tac 3600 (fun z => vo_td (try_hours z)) try_hours_spec. Qed.
Lemma holds_minutes args : HOLDS "td.minutes" args.
Proof. unit_ctor_tac 60 (fun z => vo_td (try_minutes z)) try_minutes_spec. Qed.
Lemma holds_seconds args : HOLDS "td.seconds" args.
Proof.
  unfold HOLDS. refine (i64_holds (fun z => J.exp_opt (z * J.G)) (fun z => vo_td (try_seconds z)) _ _).
  intros z Hz. symmetry. apply exp_opt_spec. apply try_seconds_spec. exact Hz.
Qed.
Lemma holds_millis args : HOLDS "td.millis" args.
Proof.
  unfold HOLDS. refine (i64_holds (fun z => J.exp_opt (z * 1000000)) (fun z => val_of_R vo_td (try_milliseconds z)) _ _).
  intros z Hz. symmetry. apply exp_opt_R. apply try_milliseconds_spec. exact Hz.
Qed.
Ltac punit_ctor_tac per g spec :=
  unfold HOLDS;
  refine (i64_holds (fun z => J.exp_or_panic (z * (per * J.G))) g _ _);
  intros z Hz; symmetry; rewrite mul_assoc_G; apply eop_val; apply spec; exact Hz.
Lemma holds_pweeks args : HOLDS "td.pweeks" args.
Proof. punit_ctor_tac 604800 (fun z => val_of_R enc_td (unwrap (try_weeks z))) pweeks_spec. Qed.
Lemma holds_pdays args : HOLDS "td.pdays" args.
Proof. punit_ctor_tac 86400 (fun z => val_of_R enc_td (unwrap (try_days z))) pdays_spec. Qed.
Lemma holds_phours args : HOLDS "td.phours" args.
Proof. punit_ctor_tac 3600 (fun z => val_of_R enc_td (unwrap (try_hours z))) phours_spec. Qed.
Lemma holds_pminutes args : HOLDS "td.pminutes" args.
Proof. punit_ctor_tac 60 (fun z => val_of_R enc_td (unwrap (try_minutes z))) pminutes_spec. Qed.
Lemma holds_pseconds args : HOLDS "td.pseconds" args.
Proof.
  unfold HOLDS. refine (i64_holds (fun z => J.exp_or_panic (z * J.G)) (fun z => val_of_R enc_td (unwrap (try_seconds z))) _ _).
  intros z Hz. symmetry. apply eop_val. apply pseconds_spec. exact Hz.
Qed.
Lemma holds_pmillis args : HOLDS "td.pmillis" args.
Proof.
  unfold HOLDS. refine (i64_holds (fun z => J.exp_or_panic (z * 1000000)) (fun z => val_of_R enc_td (unwrap_r (try_milliseconds z))) _ _).
  intros z Hz. symmetry. apply eop_val. apply pmillis_spec. exact Hz.
Qed.
Lemma holds_micros args : HOLDS "td.micros" args.
Proof.
  unfold HOLDS. refine (i64_holds (fun z => J.enc_ns (z * 1000)) (fun z => val_of_R enc_td (microseconds z)) _ _).
  intros z Hz. symmetry. apply exact_val. apply microseconds_spec. exact Hz.
Qed.
Lemma holds_nanos args : HOLDS "td.nanos" args.
Proof.
  unfold HOLDS. refine (i64_holds (fun z => J.enc_ns z) (fun z => val_of_R enc_td (nanoseconds z)) _ _).
  intros z Hz. symmetry. apply exact_val. apply nanoseconds_spec. exact Hz.
Qed.

Lemma holds_acc args : HOLDS "td.acc" args.
Proof.
  unfold HOLDS. refine (un_holds J.exp_acc (fun d => val_of_R (fun v => v) (td_acc d)) args _).
  intros d Hd. rewrite (td_acc_spec d Hd). cbn [val_of_R]. unfold J.exp_acc, J.opt_i64.
  destruct (in_i64 (Z.quot (ns d) 1000)); destruct (in_i64 (ns d)); reflexivity.
Qed.
Lemma holds_add args : HOLDS "td.add" args.
Proof.
  unfold HOLDS. refine (bin_holds (fun x y => J.exp_opt (x + y)) (fun a b => val_of_R vo_td (td_checked_add a b)) args _).
  intros a b Ha Hb. symmetry. apply exp_opt_R. apply checked_add_spec; assumption.
Qed.
Lemma holds_sub args : HOLDS "td.sub" args.
Proof.
  unfold HOLDS. refine (bin_holds (fun x y => J.exp_opt (x - y)) (fun a b => val_of_R vo_td (td_checked_sub a b)) args _).
  intros a b Ha Hb. symmetry. apply exp_opt_R. apply checked_sub_spec; assumption.
Qed.
Lemma holds_mul args : HOLDS "td.mul" args.
Proof.
  unfold HOLDS. refine (bink_holds (fun x k o => judge_eq (J.exp_opt (x * k)) o) (fun a k => val_of_R vo_td (td_checked_mul a k)) args _).
  intros a k Ha Hk. apply hl_judge_eq_of. symmetry. apply exp_opt_R. apply checked_mul_spec; assumption.
Qed.
Lemma div_ok_of a k d : Z.abs (ns d * k - ns a) < 2 * Z.abs k -> J.div_ok (ns a) k (ns d) = true.
Proof. unfold J.div_ok. lia. Qed.
Lemma holds_div args : HOLDS "td.div" args.
Proof.
  unfold HOLDS. refine (bink_holds (J.judge_div false) (fun a k => val_of_R vo_td (td_checked_div a k)) args _).
  intros a k Ha Hk. unfold J.judge_div. destruct (k =? 0) eqn:E0.
  - assert (k = 0) by lia. subst k. reflexivity.
  - destruct (checked_div_spec a k Ha Hk ltac:(lia)) as (d & E & Hv & Hd). rewrite E.
    cbn [val_of_R vo_td val_of_option]. rewrite (ns_of_out_enc d Hv), (div_ok_of a k d Hd). reflexivity.
Qed.
Lemma holds_opdiv args : HOLDS "td.opdiv" args.
Proof.
  unfold HOLDS. refine (bink_holds (J.judge_div true) (fun a k => val_of_R enc_td (op_div a k)) args _).
  intros a k Ha Hk. unfold J.judge_div. destruct (k =? 0) eqn:E0.
  - assert (k = 0) by lia. subst k. reflexivity.
  - destruct (proj2 (op_div_spec a k Ha Hk) ltac:(lia)) as (d & E & _ & Hv & Hd). rewrite E.
    cbn [val_of_R]. rewrite (ns_of_out_enc d Hv), (div_ok_of a k d Hd). reflexivity.
Qed.
Lemma holds_neg args : HOLDS "td.neg" args.
Proof.
  unfold HOLDS. refine (un_holds (fun x => J.enc_ns (- x)) (fun d => val_of_R enc_td (td_neg d)) args _).
  intros d Hd. symmetry. apply exact_val. apply neg_spec. exact Hd.
Qed.
Lemma holds_abs args : HOLDS "td.abs" args.
Proof.
  unfold HOLDS. refine (un_holds (fun x => J.enc_ns (Z.abs x)) (fun d => val_of_R enc_td (td_abs d)) args _).
  intros d Hd. symmetry. apply exact_val. apply abs_spec. exact Hd.
Qed.
Lemma holds_cmp args : HOLDS "td.cmp" args.
Proof.
  unfold HOLDS. refine (bin_holds (fun x y => VInt (cmpZ x y)) (fun a b => VInt (td_cmp a b)) args _).
  intros a b Ha Hb. rewrite cmp_spec by assumption. reflexivity.
Qed.
Lemma holds_fromstd args : HOLDS "td.fromstd" args.
Proof.
  unfold HOLDS. change (run (B"td.fromstd") args) with (sh_fromstd args).
  destruct args as [|[s| | | | | | | |] [|[n| | | | | | | |] [|? ?]]]; try (intros H; exfalso; apply H; reflexivity).
  change (J.judge (B"td.fromstd") [VInt s; VInt n] (sh_fromstd [VInt s; VInt n])) with
    (if in_u64 s && (0 <=? n) && (n <? J.G) then judge_eq (J.exp_opt (s * J.G + n)) (sh_fromstd [VInt s; VInt n]) else JSkip).
  destruct (in_u64 s && (0 <=? n) && (n <? J.G)) eqn:E; [|congruence]. intros _. unfold J.G in E.
  apply andb_prop in E. destruct E as [E E3]. apply andb_prop in E. destruct E as [E1 E0].
  assert (E2 : in_u32 n = true) by solve_in.
  unfold sh_fromstd, arg_u64, arg_u32. rewrite E1, E2. replace (n <? 1000000000) with true by lia.
  apply hl_judge_eq_of. symmetry. apply exp_opt_spec. apply (from_std_spec s n E1). unfold G. lia.
Qed.
Lemma holds_tostd args : HOLDS "td.tostd" args.
Proof.
  unfold HOLDS.
  refine (un_holds (fun x => if x <? 0 then VNone else VSome (VTup [VInt (x / J.G); VInt (x mod J.G)]))
            (fun d => val_of_option (fun '(s, n) => VTup [VInt s; VInt n]) (to_std d)) args _).
  intros d Hd. pose proof (to_std_spec d Hd) as S. destruct (to_std d) as [[s n]|]; cbn [val_of_option].
  - destruct S as (H0 & Hs & Hn & _). unfold J.G, G in *. replace (ns d <? 0) with false by lia.
    replace (ns d / 1000000000) with s by lia. replace (ns d mod 1000000000) with n by lia. reflexivity.
  - replace (ns d <? 0) with true by lia. reflexivity.
Qed.
Lemma holds_disp args : HOLDS "td.disp" args.
Proof.
  unfold HOLDS. refine (un_holds (fun x => VStr (J.exp_display x)) (fun d => val_of_R VStr (td_display d)) args _).
  intros d Hd. rewrite (td_display_exact d Hd), exp_display_text. reflexivity.
Qed.
Lemma holds_opadd args : HOLDS "td.opadd" args.
Proof.
  unfold HOLDS. refine (bin_holds (fun x y => J.exp_or_panic (x + y)) (fun a b => val_of_R enc_td (op_add a b)) args _).
  intros a b Ha Hb. symmetry. apply eop_val. apply op_add_eop; assumption.
Qed.
Lemma holds_opsub args : HOLDS "td.opsub" args.
Proof.
  unfold HOLDS. refine (bin_holds (fun x y => J.exp_or_panic (x - y)) (fun a b => val_of_R enc_td (op_sub a b)) args _).
  intros a b Ha Hb. symmetry. apply eop_val. apply op_sub_eop; assumption.
Qed.
Lemma holds_opaddasg args : HOLDS "td.opaddasg" args.
Proof.
  unfold HOLDS. refine (bin_holds (fun x y => J.exp_or_panic (x + y)) (fun a b => val_of_R enc_td (op_add a b)) args _).
  intros a b Ha Hb. symmetry. apply eop_val. apply op_add_eop; assumption.
Qed.
Lemma holds_opsubasg args : HOLDS "td.opsubasg" args.
Proof.
  unfold HOLDS. refine (bin_holds (fun x y => J.exp_or_panic (x - y)) (fun a b => val_of_R enc_td (op_sub a b)) args _).
  intros a b Ha Hb. symmetry. apply eop_val. apply op_sub_eop; assumption.
Qed.
Lemma holds_opmul args : HOLDS "td.opmul" args.
Proof.
  unfold HOLDS. refine (bink_holds (fun x k o => judge_eq (J.exp_or_panic (x * k)) o) (fun a k => val_of_R enc_td (op_mul a k)) args _).
  intros a k Ha Hk. apply hl_judge_eq_of. symmetry. apply eop_val. apply op_mul_spec; assumption.
Qed.
Lemma holds_consts args : HOLDS "td.consts" args.
Proof.
  unfold HOLDS. destruct args as [|? ?]; [intros _; vm_compute; reflexivity|intros H; exfalso; apply H; reflexivity].
Qed.

(** sums: the judge's running total is the model's fold *)
Lemma sum_agrees : forall l ds acc e, dec_tds l = Some ds -> valid acc -> J.exp_sum l (ns acc) = Some e ->
  val_of_R enc_td (td_sum ds acc) = e.
Proof.
  induction l as [|v r IH]; intros ds acc e Hd Hacc He.
  - cbn [dec_tds] in Hd. injection Hd as <-. cbn [J.exp_sum] in He. injection He as <-.
    cbn [td_sum val_of_R]. apply enc_valid. exact Hacc.
  - cbn [dec_tds] in Hd. destruct (dec_td v) as [d|] eqn:Ev; [|discriminate].
    destruct (dec_tds r) as [ds'|] eqn:Er; [|discriminate]. injection Hd as <-.
    destruct (dec_ns v d Ev) as (Hv & Hn & _). cbn [J.exp_sum] in He. rewrite Hn in He.
    pose proof (op_add_eop acc d Hacc Hv) as Ho. unfold exact_or_panic in Ho. change (J.in_rng (ns acc + ns d)) with (in_rngb (ns acc + ns d)) in He.
    cbn [td_sum]. destruct (in_rngb (ns acc + ns d)).
    + destruct Ho as (d' & Eo & Hs & Hv'). rewrite Eo. cbn [bind]. apply (IH ds' d' e eq_refl Hv'). rewrite Hs. exact He.
    + rewrite Ho. injection He as <-. reflexivity.
Qed.
Lemma sum_holds args : sh_sum args <> VBad ->
  (match args with [VTup l] => match J.exp_sum l 0 with Some e => judge_eq e (sh_sum args) | None => JSkip end | _ => JSkip end) <> JSkip ->
  (match args with [VTup l] => match J.exp_sum l 0 with Some e => judge_eq e (sh_sum args) | None => JSkip end | _ => JSkip end) = JOk.
Proof.
  intros Hb. destruct args as [|[| | | |l| | | |] [|? ?]]; try congruence.
  destruct (J.exp_sum l 0) as [e|] eqn:Ee; [|congruence]. intros _.
  unfold sh_sum in *. destruct (dec_tds l) as [ds|] eqn:Ed; [|exfalso; apply Hb; reflexivity].
  apply hl_judge_eq_of. symmetry. apply (sum_agrees l ds (mk_td 0 0) e Ed); [apply consts_spec|exact Ee].
Qed.
Lemma holds_sum args : run (B"td.sum") args <> VBad -> HOLDS "td.sum" args.
Proof. intros Hb. unfold HOLDS. exact (sum_holds args Hb). Qed.
Lemma holds_sumv args : run (B"td.sumv") args <> VBad -> HOLDS "td.sumv" args.
Proof. intros Hb. unfold HOLDS. exact (sum_holds args Hb). Qed.

(** * top level *)
Ltac op_case_at o s lem :=
  destruct (op_is o s) eqn:?;
  [match goal with H : op_is o s = true |- _ => apply hl_op_is_eq in H; subst; apply lem end|].
Tactic Notation "op_case" constr(s) constr(lem) :=
  match goal with o : bytes |- _ => op_case_at o s lem end.

Theorem C06_holds_strict op args : op_is op "td.sum" = false -> op_is op "td.sumv" = false ->
  J.judge op args (run op args) <> JSkip -> J.judge op args (run op args) = JOk.
Proof.
  intros S1 S2.
  op_case "td.new"%string holds_new. op_case "td.weeks"%string holds_weeks. op_case "td.days"%string holds_days.
  op_case "td.hours"%string holds_hours. op_case "td.minutes"%string holds_minutes. op_case "td.seconds"%string holds_seconds.
  op_case "td.millis"%string holds_millis. op_case "td.micros"%string holds_micros. op_case "td.nanos"%string holds_nanos.
  op_case "td.acc"%string holds_acc. op_case "td.add"%string holds_add. op_case "td.sub"%string holds_sub.
  op_case "td.mul"%string holds_mul. op_case "td.div"%string holds_div. op_case "td.neg"%string holds_neg.
  op_case "td.abs"%string holds_abs. op_case "td.cmp"%string holds_cmp. op_case "td.fromstd"%string holds_fromstd.
  op_case "td.tostd"%string holds_tostd. op_case "td.disp"%string holds_disp.
  op_case "td.pweeks"%string holds_pweeks. op_case "td.pdays"%string holds_pdays. op_case "td.phours"%string holds_phours.
  op_case "td.pminutes"%string holds_pminutes. op_case "td.pseconds"%string holds_pseconds. op_case "td.pmillis"%string holds_pmillis.
  op_case "td.opadd"%string holds_opadd. op_case "td.opsub"%string holds_opsub. op_case "td.opmul"%string holds_opmul.
  op_case "td.opdiv"%string holds_opdiv. op_case "td.opaddasg"%string holds_opaddasg. op_case "td.opsubasg"%string holds_opsubasg.
  op_case "td.consts"%string holds_consts.
  intros H. exfalso. apply H. unfold J.judge.
  repeat match goal with E : op_is _ _ = false |- _ => rewrite E; clear E end. reflexivity.
Qed.

Theorem C06_holds op args : run op args <> VBad ->
  J.judge op args (run op args) <> JSkip -> J.judge op args (run op args) = JOk.
Proof.
  intros Hb.
  destruct (op_is op "td.sum") eqn:S1; [apply hl_op_is_eq in S1; subst; apply holds_sum; exact Hb|].
  destruct (op_is op "td.sumv") eqn:S2; [apply hl_op_is_eq in S2; subst; apply holds_sumv; exact Hb|].
  apply C06_holds_strict; assumption.
Qed.
Corollary C06_never_bad op args : run op args <> VBad -> not_bad (J.judge op args (run op args)).
Proof. intros Hb. apply hl_never_bad. apply C06_holds. exact Hb. Qed.

(* why the summing ops need the premise: the judge stops at the first overflowing prefix and does not
   look at the remaining elements, the dispatcher decodes all of them first *)
Lemma sum_lazy_judge_example :
  let big := VTup [VInt 9223372036854775; VInt 0] in
  run (B"td.sum") [VTup [big; big; VNone]] = VBad /\
  J.judge (B"td.sum") [VTup [big; big; VNone]] VBad <> JSkip.
Proof. split; [reflexivity|vm_compute; discriminate]. Qed.
