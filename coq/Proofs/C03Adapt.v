(** C03 — the provided iterator adaptors over the two date iterators, stated against the mathematical
    sequence of dates.  An iterator started at the valid date [start] and driven in one direction
    yields the dates with day numbers [dn start +- i*stride] for [0 <= i < av], where
    [av = (DN_MAX - dn start) / stride] (forward) or [(dn start - DN_MIN) / stride] (backward).
    - [count]  = [av]                                   (it.dcount / it.wcount)
    - [last]   = item [av - 1], nothing when [av = 0]     (it.dlast / it.wlast)
    - [len]    = [max 0 (av - k)] after [k] calls, forward only  (it.dlen / it.wlen)
    - [nth n]  = item [n], the cursor then stands behind it      (it.dnth / it.wnth)
    - [step_by s] = items [0, s, 2s, ...]                          (it.dstep / it.wstep)
    - [rev()]  = the same iterator driven from the other end     (it.drev / it.wrev)
    The generic part is over an abstract step function satisfying [step_ok] (Proofs/C03.v). *)
From Coq Require Import String ZArith List Bool Lia ZifyBool.
From V Require Import Base.Int Base.IO Base.IntLemmas Spec.Gregorian Model.TimeDelta Model.DateTime Model.C03 Proofs.C06 Proofs.C03.
From V Require Model.Date Model.Time.
Import ListNotations.
Open Scope Z_scope.
Ltac Zify.zify_post_hook ::= Z.to_euclidean_division_equations.

Lemma nat4000 : Z.of_nat 4000 = 4000. Proof. vm_compute. reflexivity. Qed.
Lemma nat5001 : Z.of_nat 5001 = 5001. Proof. vm_compute. reflexivity. Qed.

Section Adapt.
Variable step : Z -> R (option Z * Z).
Variable delta : Z.
Hypothesis Hdelta : delta <> 0.
Hypothesis Hstep : step_ok step delta.

Local Notation av v := (avail delta (dn v)).

(** one call: an item and the cursor one stride further, or the end *)
Lemma step_cases v : vdate v ->
  (0 < av v /\ exists v', step v = Val (Some v, v') /\ vdate v' /\ dn v' = dn v + delta /\ av v' = av v - 1) \/
  (av v = 0 /\ step v = Val (None, v)).
Proof.
  intros Hv. pose proof (Hstep v Hv) as S. pose proof (vdate_range v Hv) as Rg.
  pose proof (avail_pos delta Hdelta (dn v) Rg) as AP. pose proof (avail_nonneg delta Hdelta v Hv) as AN.
  destruct (dn_in_range (dn v + delta)) eqn:E.
  - left. split; [apply AP; reflexivity|]. destruct S as [v' [E1 [V1 D1]]]. exists v'.
    split; [exact E1|]. split; [exact V1|]. split; [exact D1|].
    rewrite D1. apply (avail_step delta Hdelta); assumption.
  - right. split; [|exact S].
    destruct (Z_lt_dec 0 (av v)) as [L|L]; [apply AP in L; congruence|lia].
Qed.

(** [count]: more items than fuel *)
Lemma count_none : forall (fuel : nat) v acc, vdate v -> Z.of_nat fuel <= av v ->
  it_count step fuel v acc = Val None.
Proof.
  induction fuel as [|f IH]; intros v acc Hv Hf; [reflexivity|].
  cbn [it_count]. destruct (step_cases v Hv) as [[P [v' [E [V [D A]]]]]|[Z0 E]].
  - rewrite E. cbn [bind]. apply IH; [exact V|lia].
  - lia.
Qed.

Lemma count_all_spec v : vdate v ->
  it_count_all step v = if av v <? 4000 then Val (av v) else OutOfFuel.
Proof.
  intros Hv. unfold it_count_all. destruct (av v <? 4000) eqn:E.
  - rewrite (count_spec step delta Hdelta Hstep 4000 v 0 Hv) by (rewrite nat4000; lia). reflexivity.
  - rewrite count_none by (try rewrite nat4000; try assumption; lia). reflexivity.
Qed.

(** [last] *)
Lemma last_spec : forall (fuel : nat) v acc, vdate v -> av v < Z.of_nat fuel ->
  exists r, it_last step fuel v acc = Val r /\
    (av v = 0 -> r = acc) /\
    (0 < av v -> exists x, r = Some x /\ vdate x /\ dn x = dn v + delta * (av v - 1)).
Proof.
  induction fuel as [|f IH]; intros v acc Hv Hf.
  - pose proof (avail_nonneg delta Hdelta v Hv). lia.
  - cbn [it_last]. destruct (step_cases v Hv) as [[P [v' [E [V [D A]]]]]|[Z0 E]].
    + rewrite E. cbn [bind]. destruct (IH v' (Some v) V ltac:(lia)) as [r [E2 [R0 R1]]].
      exists r. split; [exact E2|]. split; [lia|]. intros _.
      destruct (Z.eq_dec (av v') 0) as [Z1|N1].
      * exists v. split; [apply R0; exact Z1|]. split; [exact Hv|]. replace (av v - 1) with 0 by lia. lia.
      * pose proof (avail_nonneg delta Hdelta v' V). destruct (R1 ltac:(lia)) as [x [Ex [Vx Dx]]].
        exists x. split; [exact Ex|]. split; [exact Vx|]. rewrite Dx, A, D. lia.
    + rewrite E. cbn [bind]. exists acc. split; [reflexivity|]. split; [reflexivity|lia].
Qed.
Lemma last_no_fuel : forall (fuel : nat) v acc, vdate v -> Z.of_nat fuel <= av v ->
  it_last step fuel v acc = OutOfFuel.
Proof.
  induction fuel as [|f IH]; intros v acc Hv Hf; [reflexivity|].
  cbn [it_last]. destruct (step_cases v Hv) as [[P [v' [E [V [D A]]]]]|[Z0 E]].
  - rewrite E. cbn [bind]. apply IH; [exact V|lia].
  - lia.
Qed.

(** [nth n]: the item [n] strides from the cursor, which then stands one stride behind it; past the
    end nothing, and the iterator stays exhausted *)
Lemma nth_spec : forall (fuel : nat) n v, vdate v -> 0 <= n < Z.of_nat fuel ->
  (n < av v -> exists x v', it_nth step fuel n v = Val (Some x, v') /\ vdate x /\ dn x = dn v + delta * n /\
                 vdate v' /\ dn v' = dn x + delta /\ av v' = av v - n - 1) /\
  (av v <= n -> exists v', it_nth step fuel n v = Val (None, v') /\ vdate v' /\ av v' = 0).
Proof.
  induction fuel as [|f IH]; intros n v Hv Hn; [lia|].
  cbn [it_nth]. destruct (step_cases v Hv) as [[P [v' [E [V [D A]]]]]|[Z0 E]]; rewrite E; cbn [bind].
  - destruct (n <=? 0) eqn:En.
    + assert (n = 0) by lia. subst n. split; [|lia]. intros _. exists v, v'.
      split; [reflexivity|]. split; [exact Hv|]. split; [lia|]. split; [exact V|]. split; [exact D|lia].
    + destruct (IH (n - 1) v' V ltac:(lia)) as [I1 I2]. split.
      * intros L. destruct (I1 ltac:(lia)) as [x [w [E2 [Vx [Dx [Vw [Dw Aw]]]]]]].
        exists x, w. split; [exact E2|]. split; [exact Vx|]. split; [rewrite Dx, D; lia|].
        split; [exact Vw|]. split; [exact Dw|lia].
      * intros L. destruct (I2 ltac:(lia)) as [w [E2 [Vw Aw]]]. exists w. split; [exact E2|]. split; assumption.
  - split; [lia|]. intros _. exists v. split; [destruct (n <=? 0); reflexivity|]. split; assumption.
Qed.
Lemma nth_f_is_nth : forall fuel n v, it_nth_f step fuel n v = it_nth step fuel n v.
Proof. reflexivity. Qed.

(** [step_by s], the calls after the first one: every call is [nth (s - 1)] *)
Lemma div_shift a s : 0 < s -> (a - s) / s = a / s - 1.
Proof. intros Hs. replace (a - s) with (a + (-1) * s) by lia. rewrite Z.div_add by lia. lia. Qed.
Lemma div_ge1 a s : 0 < s -> s <= a -> 1 <= a / s.
Proof. intros Hs Ha. apply Z.div_le_lower_bound; lia. Qed.

Lemma step_by_rest s : 1 <= s <= 5001 -> forall (cap : nat) v, vdate v ->
  exists l, it_step_by step s false cap v = Val l /\
    Z.of_nat (length l) = Z.min (Z.of_nat cap) (av v / s) /\
    forall i x, nth_error l i = Some x -> vdate x /\ dn x = dn v + delta * (s - 1) + delta * s * Z.of_nat i.
Proof.
  intros Hs. induction cap as [|c IH]; intros v Hv.
  - exists []. split; [reflexivity|]. pose proof (avail_nonneg delta Hdelta v Hv) as AN.
    assert (0 <= av v / s) by (apply Z.div_pos; lia).
    split; [cbn [length]; lia|]. intros [|i] x Hx; discriminate.
  - cbn [it_step_by]. rewrite nth_f_is_nth.
    destruct (nth_spec 5001 (s - 1) v Hv ltac:(rewrite nat5001; lia)) as [N1 N2].
    pose proof (avail_nonneg delta Hdelta v Hv) as AN.
    destruct (Z_lt_dec (s - 1) (av v)) as [L|L].
    + destruct (N1 L) as [x [v' [E [Vx [Dx [Vv [Dv Av]]]]]]]. rewrite E. cbn [bind].
      destruct (IH v' Vv) as [l [E2 [Len Ent]]]. rewrite E2. cbn [bind].
      exists (x :: l). split; [reflexivity|]. split.
      * cbn [length]. rewrite Nat2Z.inj_succ, Len. replace (av v') with (av v - s) by lia.
        rewrite div_shift by lia. pose proof (div_ge1 (av v) s ltac:(lia) ltac:(lia)). lia.
      * intros [|i] y Hy; cbn [nth_error] in Hy.
        -- injection Hy as <-. split; [exact Vx|]. rewrite Dx. lia.
        -- destruct (Ent i y Hy) as [Vy Dy]. split; [exact Vy|]. rewrite Dy, Dv, Dx. lia.
    + destruct (N2 ltac:(lia)) as [v' [E _]]. rewrite E. cbn [bind].
      exists []. split; [reflexivity|]. split.
      * rewrite Z.div_small by lia. cbn [length]. lia.
      * intros [|i] x Hx; discriminate.
Qed.

(** [step_by s] from the start: the first call is [next] *)
Lemma step_by_spec s : 1 <= s <= 5001 -> forall (cap : nat) v, vdate v ->
  exists l, it_step_by step s true cap v = Val l /\
    Z.of_nat (length l) = Z.min (Z.of_nat cap) ((av v + s - 1) / s) /\
    forall i x, nth_error l i = Some x -> vdate x /\ dn x = dn v + delta * s * Z.of_nat i.
Proof.
  intros Hs cap v Hv. pose proof (avail_nonneg delta Hdelta v Hv) as AN.
  destruct cap as [|c].
  - exists []. split; [reflexivity|]. assert (0 <= (av v + s - 1) / s) by (apply Z.div_pos; lia).
    split; [cbn [length]; lia|]. intros [|i] x Hx; discriminate.
  - cbn [it_step_by]. destruct (step_cases v Hv) as [[P [v' [E [V [D A]]]]]|[Z0 E]]; rewrite E; cbn [bind].
    + destruct (step_by_rest s Hs c v' V) as [l [E2 [Len Ent]]]. rewrite E2. cbn [bind].
      exists (v :: l). split; [reflexivity|]. split.
      * cbn [length]. rewrite Nat2Z.inj_succ, Len, A.
        replace (av v + s - 1) with (av v - 1 + 1 * s) by lia. rewrite Z.div_add by lia. lia.
      * intros [|i] y Hy; cbn [nth_error] in Hy.
        -- injection Hy as <-. split; [exact Hv|]. lia.
        -- destruct (Ent i y Hy) as [Vy Dy]. split; [exact Vy|]. rewrite Dy, D. lia.
    + exists []. split; [reflexivity|]. split.
      * rewrite Z0. rewrite Z.div_small by lia. cbn [length]. lia.
      * intros [|i] x Hx; discriminate.
Qed.

(** the observable of it.days / it.weeks / it.drev / it.wrev: after [k] calls the next item and the
    number of items still coming, reported when it is at most [cap] *)
Lemma observe_spec start k cap : vdate start -> 0 <= k -> 0 <= cap ->
  let a := av start in
  let left := Z.max 0 (a - k) in
  exists v, it_drive step (Z.to_nat k) start = Val v /\ vdate v /\
    (k < a -> dn v = dn start + delta * k) /\
    it_observe step start k cap =
      Val (if k <? a then Some v else None, if left <=? cap then Some left else None).
Proof.
  intros Hs Hk Hc a left.
  destruct (iter_spec step delta Hdelta Hstep start (Z.to_nat k) Hs) as [v [E [V [HA [HB [HC HD]]]]]].
  rewrite Z2Nat.id in * by lia. fold a in HA, HB, HC, HD. fold left in HC, HD.
  exists v. split; [exact E|]. split; [exact V|]. split; [intros L; apply HA; exact L|].
  unfold it_observe. rewrite E. cbn [bind].
  assert (Cnt : it_count step (S (Z.to_nat cap)) v 0 = Val (if left <=? cap then Some left else None)).
  { destruct (left <=? cap) eqn:El.
    - rewrite HD by lia. f_equal.
    - apply count_none; [exact V|]. rewrite HC. lia. }
  destruct (k <? a) eqn:Ek.
  - destruct (HA ltac:(lia)) as [_ [v' Ev]]. rewrite Ev. cbn [bind]. rewrite Cnt. reflexivity.
  - rewrite HB by lia. cbn [bind]. rewrite Cnt. reflexivity.
Qed.
End Adapt.

(** * The four concrete iterators *)
Inductive date_iter : (Z -> R (option Z * Z)) -> Z -> bool -> Prop :=
| DI_days_forward : date_iter days_next 1 true
| DI_days_backward : date_iter days_next_back 1 false
| DI_weeks_forward : date_iter weeks_next 7 true
| DI_weeks_backward : date_iter weeks_next_back 7 false.

(** number of items of the sequence from [start], and the day number of its item [i] *)
Definition seq_avail (stride : Z) (fwd : bool) (start : Z) : Z :=
  if fwd then (DN_MAX - dn start) / stride else (dn start - DN_MIN) / stride.
Definition seq_dn (stride : Z) (fwd : bool) (start i : Z) : Z :=
  if fwd then dn start + stride * i else dn start - stride * i.
Definition sdelta (stride : Z) (fwd : bool) : Z := if fwd then stride else - stride.

Lemma date_iter_ok step stride fwd : date_iter step stride fwd ->
  sdelta stride fwd <> 0 /\ step_ok step (sdelta stride fwd) /\
  (forall start, avail (sdelta stride fwd) (dn start) = seq_avail stride fwd start) /\
  (forall start i, dn start + sdelta stride fwd * i = seq_dn stride fwd start i).
Proof.
  intros H. destruct H; cbn [sdelta]; (split; [lia|]); (split; [|split; [reflexivity|intros; unfold seq_dn; lia]]).
  - exact (days_next_ok succ_holds).
  - exact (days_next_back_ok pred_holds).
  - exact (weeks_next_ok add_days_holds).
  - exact (weeks_next_back_ok add_days_holds).
Qed.

Lemma adapt_count step stride fwd : date_iter step stride fwd -> forall start, vdate start ->
  it_count_all step start =
    if seq_avail stride fwd start <? 4000 then Val (seq_avail stride fwd start) else OutOfFuel.
Proof.
  intros H start Hs. destruct (date_iter_ok _ _ _ H) as [Hd [Ho [Ha _]]].
  rewrite (count_all_spec step _ Hd Ho start Hs), Ha. reflexivity.
Qed.

Lemma adapt_last step stride fwd : date_iter step stride fwd -> forall start, vdate start ->
  let a := seq_avail stride fwd start in
  if a <? 4000 then
    exists r, it_last step 4000 start None = Val r /\
      (a = 0 -> r = None) /\
      (0 < a -> exists x, r = Some x /\ vdate x /\ dn x = seq_dn stride fwd start (a - 1))
  else it_last step 4000 start None = OutOfFuel.
Proof.
  intros H start Hs a. destruct (date_iter_ok _ _ _ H) as [Hd [Ho [Ha Hn]]].
  unfold a. rewrite <- Ha. destruct (avail (sdelta stride fwd) (dn start) <? 4000) eqn:E.
  - destruct (last_spec step _ Hd Ho 4000 start None Hs ltac:(rewrite nat4000; lia)) as [r [E1 [R0 R1]]].
    exists r. split; [exact E1|]. split; [exact R0|]. intros P. destruct (R1 P) as [x [Ex [Vx Dx]]].
    exists x. split; [exact Ex|]. split; [exact Vx|]. rewrite <- Hn. exact Dx.
  - apply (last_no_fuel step _ Hd Ho); [exact Hs|rewrite nat4000; lia].
Qed.

Lemma adapt_nth step stride fwd : date_iter step stride fwd -> forall (fuel : nat) n start, vdate start ->
  0 <= n < Z.of_nat fuel ->
  let a := seq_avail stride fwd start in
  (n < a -> exists x v', it_nth step fuel n start = Val (Some x, v') /\ vdate x /\ dn x = seq_dn stride fwd start n /\
              vdate v' /\ dn v' = seq_dn stride fwd start (n + 1) /\ seq_avail stride fwd v' = a - n - 1) /\
  (a <= n -> exists v', it_nth step fuel n start = Val (None, v') /\ vdate v' /\ seq_avail stride fwd v' = 0).
Proof.
  intros H fuel n start Hs Hn a. destruct (date_iter_ok _ _ _ H) as [Hd [Ho [Ha Hq]]].
  destruct (nth_spec step _ Hd Ho fuel n start Hs Hn) as [N1 N2]. unfold a. rewrite <- Ha. split.
  - intros L. destruct (N1 L) as [x [v' [E [Vx [Dx [Vv [Dv Av]]]]]]]. exists x, v'.
    split; [exact E|]. split; [exact Vx|]. split; [rewrite <- Hq; exact Dx|]. split; [exact Vv|].
    split; [rewrite <- Hq, Dv, Dx; lia|]. rewrite <- Ha. exact Av.
  - intros L. destruct (N2 L) as [v' [E [Vv Av]]]. exists v'. split; [exact E|]. split; [exact Vv|].
    rewrite <- Ha. exact Av.
Qed.

Lemma adapt_step_by step stride fwd : date_iter step stride fwd -> forall s (cap : nat) start, vdate start ->
  1 <= s <= 5001 ->
  exists l, it_step_by step s true cap start = Val l /\
    Z.of_nat (length l) = Z.min (Z.of_nat cap) ((seq_avail stride fwd start + s - 1) / s) /\
    forall i x, nth_error l i = Some x -> vdate x /\ dn x = seq_dn stride fwd start (s * Z.of_nat i).
Proof.
  intros H s cap start Hs Hss. destruct (date_iter_ok _ _ _ H) as [Hd [Ho [Ha Hq]]].
  destruct (step_by_spec step _ Hd Ho s Hss cap start Hs) as [l [E [Len Ent]]].
  exists l. split; [exact E|]. split; [rewrite <- Ha; exact Len|].
  intros i x Hx. destruct (Ent i x Hx) as [Vx Dx]. split; [exact Vx|]. rewrite <- Hq, Dx. lia.
Qed.

Lemma adapt_observe step stride fwd : date_iter step stride fwd -> forall start k cap, vdate start ->
  0 <= k -> 0 <= cap ->
  let a := seq_avail stride fwd start in
  let left := Z.max 0 (a - k) in
  exists v, vdate v /\ (k < a -> dn v = seq_dn stride fwd start k) /\
    it_observe step start k cap =
      Val (if k <? a then Some v else None, if left <=? cap then Some left else None).
Proof.
  intros H start k cap Hs Hk Hc a left. destruct (date_iter_ok _ _ _ H) as [Hd [Ho [Ha Hq]]].
  destruct (observe_spec step _ Hd Ho start k cap Hs Hk Hc) as [v [_ [V [D O]]]].
  cbv zeta in O, D. rewrite Ha in O, D. exists v. split; [exact V|]. split; [|exact O].
  intros L. rewrite <- Hq. apply D. exact L.
Qed.

(** [ExactSizeIterator::len] (forward): the number of items still coming.  Driven backwards the
    length hint is the forward count (known finding C03-iter-rev-size-hint, hint_backward_refuted) *)
Lemma adapt_len_days start k : vdate start -> 0 <= k ->
  it_len days_next days_size_hint start k = Val (Z.max 0 ((DN_MAX - dn start) / 1 - k)).
Proof.
  intros Hs Hk. destruct (iter_days_forward_u start (Z.to_nat k) Hs) as [v [E [_ [_ [_ [Hh _]]]]]].
  rewrite Z2Nat.id in Hh by lia. unfold it_len, it_hint. rewrite E. cbn [bind]. rewrite Hh. cbn [bind snd fst].
  rewrite Z.eqb_refl. reflexivity.
Qed.
Lemma adapt_len_weeks start k : vdate start -> 0 <= k ->
  it_len weeks_next weeks_size_hint start k = Val (Z.max 0 ((DN_MAX - dn start) / 7 - k)).
Proof.
  intros Hs Hk. destruct (iter_weeks_forward_u start (Z.to_nat k) Hs) as [v [E [_ [_ [_ [Hh _]]]]]].
  rewrite Z2Nat.id in Hh by lia. unfold it_len, it_hint. rewrite E. cbn [bind]. rewrite Hh. cbn [bind snd fst].
  rewrite Z.eqb_refl. reflexivity.
Qed.

(** [rev()]: the ops it.drev / it.wrev are it.days / it.weeks with the two step functions exchanged,
    i.e. asked for one direction they answer what it.days / it.weeks answer for the other *)
Lemma run_it_swap f g d k cap :
  run_it f g [d; k; VInt 0; cap] = run_it g f [d; k; VInt 1; cap] /\
  run_it f g [d; k; VInt 1; cap] = run_it g f [d; k; VInt 0; cap].
Proof.
  unfold run_it. cbn [arg_dir]. destruct (dec_date d), (arg_small k), (arg_small cap); split; reflexivity.
Qed.
Lemma rev_is_swap d k cap :
  run B"it.drev" [d; k; VInt 0; cap] = run B"it.days" [d; k; VInt 1; cap] /\
  run B"it.drev" [d; k; VInt 1; cap] = run B"it.days" [d; k; VInt 0; cap] /\
  run B"it.wrev" [d; k; VInt 0; cap] = run B"it.weeks" [d; k; VInt 1; cap] /\
  run B"it.wrev" [d; k; VInt 1; cap] = run B"it.weeks" [d; k; VInt 0; cap].
Proof.
  change (run B"it.drev") with (run_it days_next_back days_next).
  change (run B"it.wrev") with (run_it weeks_next_back weeks_next).
  change (run B"it.days") with (run_it days_next days_next_back).
  change (run B"it.weeks") with (run_it weeks_next weeks_next_back).
  destruct (run_it_swap days_next_back days_next d k cap).
  destruct (run_it_swap weeks_next_back weeks_next d k cap). repeat split; assumption.
Qed.

(** inhabitants: near the two ends of the range the counts are small, both fuel cases occur *)
Lemma adapt_examples :
  vdate Date.D_MAX /\ vdate Date.D_MIN /\
  seq_avail 1 true Date.D_MAX = 0 /\ seq_avail 7 false Date.D_MIN = 0 /\
  it_count_all days_next Date.D_MAX = Val 0 /\ it_last days_next 4000 Date.D_MAX None = Val None /\
  (seq_avail 1 true Date.D_MIN <? 4000) = false /\ it_count_all days_next Date.D_MIN = OutOfFuel /\
  it_step_by days_next_back 3 true 5 Date.D_MAX <> Val [].
Proof.
  split; [exact (proj1 vdate_max)|]. split; [exact (proj1 vdate_min)|].
  vm_compute. repeat split; congruence.
Qed.
