(** C03 — executable statement of the property "adding and subtracting elapsed time is exact or
    refused, never wrapped".  Written from the property text and calendar mathematics only
    (Spec/Gregorian.v); nothing is imported from the model or from generated constants.

    A non-leap date-time denotes an instant: an integer number of nanoseconds since 1970-01-01T00:00
    ([unix_nanos]); a duration denotes an integer number of nanoseconds; a date denotes its day
    number.  Representable instants are [NS_MIN, NS_MAX], representable dates [DN_MIN, DN_MAX].
    - date-time +- duration: the value denoting [a +- d] when that is representable, else refusal;
    - difference: the duration denoting [a - b];
    - date +- n days (n : u64), date +- duration (truncated toward zero to whole days);
    - operator forms: the same value, PANIC exactly where the checked form refuses;
    - zone-aware values: the arithmetic is on the instant; the offset is carried along unchanged;
    - iterators: item k is start +- k*step; the sequence ends exactly when the cursor cannot advance
      by another step inside the range (the iterator never yields a date whose successor step leaves
      the range: pinned by the crate's own tests test_day_iterator_limit/test_week_iterator_limit);
      the length hint is exactly the number of items the iterator still yields in the direction it
      is driven (DESIGN.md 5.0).
    Leap-second operands (nanosecond field >= 10^9) are outside this property (C07): [JSkip]. *)
From Coq Require Import ZArith List Bool String.
From V Require Import Base.Int Base.IO Spec.Gregorian.
Import ListNotations.
Open Scope Z_scope.

Definition G := 1000000000.
Definition DAYNS := 86400000000000.
Definition RMAX := 9223372036854775807000000.                (* (2^63-1) ms in ns *)
Definition RMIN := -9223372036854775807000000.
Definition in_td (n : Z) : bool := (RMIN <=? n) && (n <=? RMAX).
Definition in_ns (t : Z) : bool := (NS_MIN <=? t) && (t <=? NS_MAX).

(** ** decoding arguments / encoding expected results *)
Definition ns_of_td (v : val) : option Z :=
  match v with
  | VTup [VInt s; VInt n] =>
      if (0 <=? n) && (n <? G) && in_td (s * G + n) then Some (s * G + n) else None
  | _ => None
  end.
Definition enc_ns (n : Z) : val := VTup [VInt (n / G); VInt (n mod G)].

Definition dn_of_date (v : val) : option Z :=
  match v with
  | VTup [VInt y; VInt o] => if year_in_range y && valid_yo y o then Some (dn_of_yo y o) else None
  | _ => None
  end.
Definition enc_dn (n : Z) : val := let '(y, o) := yo_of_dn n in VTup [VInt y; VInt o].

(** a naive date-time argument: invalid, a leap-second value, or an instant *)
Inductive dtarg := ABad | ALeap | AInst (t : Z).
Definition inst_of_fields (y o s f : Z) : dtarg :=
  if year_in_range y && valid_yo y o && (0 <=? s) && (s <? 86400) && (0 <=? f) && (f <? 2 * G) then
    if f <? G then AInst (unix_nanos (dn_of_yo y o) s f) else ALeap
  else ABad.
Definition inst_of_ndt (v : val) : dtarg :=
  match v with
  | VTup [VInt y; VInt o; VInt s; VInt f] => inst_of_fields y o s f
  | _ => ABad
  end.
Definition enc_inst_fields (t : Z) : list val :=
  let '(y, o) := yo_of_dn (dn_of_nanos t) in
  [VInt y; VInt o; VInt (sod_of_nanos t); VInt (frac_of_nanos t)].
Definition enc_inst (t : Z) : val := VTup (enc_inst_fields t).
(** zone-aware: (UTC reading, offset seconds) *)
Definition inst_of_dtz (v : val) : dtarg * Z :=
  match v with
  | VTup [VInt y; VInt o; VInt s; VInt f; VInt off] =>
      if (-86400 <? off) && (off <? 86400) then (inst_of_fields y o s f, off) else (ABad, 0)
  | _ => (ABad, 0)
  end.
Definition enc_zinst (t off : Z) : val := VTup (enc_inst_fields t ++ [VInt off]).

Definition sign_of (v : val) : option Z :=
  match v with VInt 1 => Some 1 | VInt (-1) => Some (-1) | _ => None end.
Definition u64_of (v : val) : option Z :=
  match v with VInt n => if in_u64 n then Some n else None | _ => None end.
Definition std_of (s n : val) : option Z :=
  match s, n with
  | VInt s, VInt n => if in_u64 s && (0 <=? n) && (n <? G) then Some (s * G + n) else None
  | _, _ => None
  end.
Definition small_of (v : val) : option Z :=
  match v with VInt z => if (0 <=? z) && (z <=? 5000) then Some z else None | _ => None end.

(** checked form: some(value) / none; operator form: value / PANIC *)
Definition wrap (op_form : bool) (o : option val) : val :=
  match o with
  | Some v => if op_form then v else VSome v
  | None => if op_form then VPanic else VNone
  end.
Definition exp_inst (t : Z) : option val := if in_ns t then Some (enc_inst t) else None.
Definition exp_zinst (off t : Z) : option val := if in_ns t then Some (enc_zinst t off) else None.
Definition exp_dn (n : Z) : option val := if dn_in_range n then Some (enc_dn n) else None.

(** ** judges per argument shape *)
Definition j_n_td (op_form : bool) (sg : Z) (args : list val) (out : val) : verdict :=
  match args with
  | [a; d] =>
      match inst_of_ndt a, ns_of_td d with
      | AInst t, Some x => judge_eq (wrap op_form (exp_inst (t + sg * x))) out
      | _, _ => JSkip
      end
  | _ => JSkip
  end.
Definition j_z_td (op_form : bool) (sg : Z) (args : list val) (out : val) : verdict :=
  match args with
  | [a; d] =>
      match inst_of_dtz a, ns_of_td d with
      | (AInst t, off), Some x => judge_eq (wrap op_form (exp_zinst off (t + sg * x))) out
      | _, _ => JSkip
      end
  | _ => JSkip
  end.
Definition j_n_n (args : list val) (out : val) : verdict :=
  match args with
  | [a; b] =>
      match inst_of_ndt a, inst_of_ndt b with
      | AInst x, AInst y => judge_eq (enc_ns (x - y)) out
      | _, _ => JSkip
      end
  | _ => JSkip
  end.
Definition j_z_z (args : list val) (out : val) : verdict :=
  match args with
  | [a; b] =>
      match inst_of_dtz a, inst_of_dtz b with
      | (AInst x, _), (AInst y, _) => judge_eq (enc_ns (x - y)) out
      | _, _ => JSkip
      end
  | _ => JSkip
  end.
Definition j_n_days (op_form : bool) (args : list val) (out : val) : verdict :=
  match args with
  | [a; sg; n] =>
      match inst_of_ndt a, sign_of sg, u64_of n with
      | AInst t, Some s, Some n => judge_eq (wrap op_form (exp_inst (t + s * n * DAYNS))) out
      | _, _, _ => JSkip
      end
  | _ => JSkip
  end.
Definition j_n_std (args : list val) (out : val) : verdict :=
  match args with
  | [a; sg; s; n] =>
      match inst_of_ndt a, sign_of sg, std_of s n with
      | AInst t, Some sg, Some x => judge_eq (wrap true (exp_inst (t + sg * x))) out
      | _, _, _ => JSkip
      end
  | _ => JSkip
  end.
Definition j_z_std (args : list val) (out : val) : verdict :=
  match args with
  | [a; sg; s; n] =>
      match inst_of_dtz a, sign_of sg, std_of s n with
      | (AInst t, off), Some sg, Some x => judge_eq (wrap true (exp_zinst off (t + sg * x))) out
      | _, _, _ => JSkip
      end
  | _ => JSkip
  end.
(** Days on a zone-aware value move the date of the *local* reading (documented: refused when the
    resulting date is out of range).  The instant moves by n*86400 s.  Where the target instant is
    representable but the target local date is not (within a day of a range end, non-zero offset) the
    text gives no ruling between "refused" and "exact": both are accepted there, nothing else. *)
Definition j_z_days (op_form : bool) (args : list val) (out : val) : verdict :=
  match args with
  | [a; sg; n] =>
      match inst_of_dtz a, sign_of sg, u64_of n with
      | (AInst t, off), Some s, Some n =>
          let t' := t + s * n * DAYNS in
          let l' := dn_of_nanos (t + off * G) + s * n in
          if n =? 0 then judge_eq (wrap op_form (Some (enc_zinst t off))) out
          else if negb (in_ns t') then judge_eq (wrap op_form None) out
          else if dn_in_range l' then judge_eq (wrap op_form (Some (enc_zinst t' off))) out
          else if val_eqb (wrap op_form None) out || val_eqb (wrap op_form (Some (enc_zinst t' off))) out
               then JOk else JBad B"neither-refused-nor-exact"
      | _, _, _ => JSkip
      end
  | _ => JSkip
  end.

Definition j_d_days (op_form : bool) (sg : Z) (args : list val) (out : val) : verdict :=
  match args with
  | [d; n] =>
      match dn_of_date d, u64_of n with
      | Some x, Some n => judge_eq (wrap op_form (exp_dn (x + sg * n))) out
      | _, _ => JSkip
      end
  | _ => JSkip
  end.
Definition j_d_td (op_form : bool) (sg : Z) (args : list val) (out : val) : verdict :=
  match args with
  | [d; x] =>
      match dn_of_date d, ns_of_td x with
      | Some a, Some x => judge_eq (wrap op_form (exp_dn (a + sg * Z.quot x DAYNS))) out
      | _, _ => JSkip
      end
  | _ => JSkip
  end.
Definition j_d_d (args : list val) (out : val) : verdict :=
  match args with
  | [a; b] =>
      match dn_of_date a, dn_of_date b with
      | Some x, Some y => judge_eq (enc_ns ((x - y) * DAYNS)) out
      | _, _ => JSkip
      end
  | _ => JSkip
  end.

(** b + (a - b) = a ; order follows the distance *)
Definition j_rt (args : list val) (out : val) : verdict :=
  match args with
  | [a; b] =>
      match inst_of_ndt a, inst_of_ndt b with
      | AInst x, AInst _ => judge_eq (VSome (enc_inst x)) out
      | _, _ => JSkip
      end
  | _ => JSkip
  end.
Definition j_ord (args : list val) (out : val) : verdict :=
  match args with
  | [a; b] =>
      match inst_of_ndt a, inst_of_ndt b with
      | AInst x, AInst y => judge_eq (VTup [VInt (cmpZ x y); VInt (cmpZ (x - y) 0)]) out
      | _, _ => JSkip
      end
  | _ => JSkip
  end.

(** iterators: [step] days per item; [avail] = number of items from the start in the direction *)
Definition it_avail (step s : Z) (fwd : bool) : Z :=
  if fwd then (DN_MAX - s) / step else (s - DN_MIN) / step.
Definition it_item (step s k : Z) (fwd : bool) : val :=
  if k <? it_avail step s fwd then VSome (enc_dn (if fwd then s + k * step else s - k * step)) else VNone.
Definition it_remaining (step s k : Z) (fwd : bool) : Z := Z.max 0 (it_avail step s fwd - k).
Definition dir_of (v : val) : option bool :=
  match v with VInt 0 => Some true | VInt 1 => Some false | _ => None end.
Definition j_it (step : Z) (args : list val) (out : val) : verdict :=
  match args with
  | [d; k; dir; cap] =>
      match dn_of_date d, small_of k, dir_of dir, small_of cap with
      | Some s, Some k, Some fwd, Some cap =>
          let r := it_remaining step s k fwd in
          judge_eq (VTup [it_item step s k fwd; if r <=? cap then VSome (VInt r) else VNone]) out
      | _, _, _, _ => JSkip
      end
  | _ => JSkip
  end.
(** [nth(n)] is the (n+1)-th item, the iterator then continues behind it; once it has returned
    [None] the sequence has ended for good *)
Definition j_nth (step : Z) (args : list val) (out : val) : verdict :=
  match args with
  | [d; VInt n; dir; cap] =>
      match dn_of_date d, dir_of dir, small_of cap with
      | Some s, Some fwd, Some cap =>
          if (0 <=? n) && (n <=? 18446744073709551615) then
            let avail := it_avail step s fwd in
            let k := if n <? avail then n + 1 else avail in
            let r := it_remaining step s k fwd in
            judge_eq (VTup [it_item step s n fwd; it_item step s k fwd;
                            if r <=? cap then VSome (VInt r) else VNone]) out
          else JSkip
      | _, _, _ => JSkip
      end
  | _ => JSkip
  end.
Definition j_hint (step : Z) (args : list val) (out : val) : verdict :=
  match args with
  | [d; k; dir] =>
      match dn_of_date d, small_of k, dir_of dir with
      | Some s, Some k, Some fwd =>
          let r := it_remaining step s k fwd in
          if val_eqb (VTup [VInt r; VSome (VInt r)]) out then JOk
          else JBad (B"length-hint-not-the-number-of-remaining-items=" ++ dec_of_Z r)
      | _, _, _ => JSkip
      end
  | _ => JSkip
  end.

(** ** the remaining operator surface: compound assignment ([x += d] is [x = x + d]), subtraction of
    a reference, and a FixedOffset operand, which stands for its number of seconds: on a naive
    date-time [a +- off] is the value [off] seconds later / earlier; on a zone-aware value the
    instant moves by [off] seconds and the value's own offset is carried along unchanged.  Checked
    form: refusal exactly when that instant is not representable; operator form: PANIC there. *)
Definition j_sg3 (j : Z -> list val -> val -> verdict) (args : list val) (out : val) : verdict :=
  match args with
  | [a; sg; x] => match sign_of sg with Some s => j s [a; x] out | None => JSkip end
  | _ => JSkip
  end.
Definition off_of (v : val) : option Z :=
  match v with VInt o => if (-86400 <? o) && (o <? 86400) then Some o else None | _ => None end.
Definition j_n_off (op_form : bool) (args : list val) (out : val) : verdict :=
  match args with
  | [a; sg; o] =>
      match inst_of_ndt a, sign_of sg, off_of o with
      | AInst t, Some s, Some off => judge_eq (wrap op_form (exp_inst (t + s * off * G))) out
      | _, _, _ => JSkip
      end
  | _ => JSkip
  end.
Definition j_z_off (args : list val) (out : val) : verdict :=
  match args with
  | [a; sg; o] =>
      match inst_of_dtz a, sign_of sg, off_of o with
      | (AInst t, zoff), Some s, Some off => judge_eq (wrap true (exp_zinst zoff (t + s * off * G))) out
      | _, _, _ => JSkip
      end
  | _ => JSkip
  end.

(** order of zone-aware values (also with different offsets) follows the distance of their instants:
    [cmp], [partial_cmp], [==] and [max] all read the sign of (instant a - instant b) *)
Definition j_zord (args : list val) (out : val) : verdict :=
  match args with
  | [a; b] =>
      match inst_of_dtz a, inst_of_dtz b with
      | (AInst x, _), (AInst y, _) =>
          let c := cmpZ (x - y) 0 in
          judge_eq (VTup [VInt c; VSome (VInt c); val_of_bool (c =? 0); val_of_bool (0 <=? c)]) out
      | _, _ => JSkip
      end
  | _ => JSkip
  end.

(** ** adaptors over the same sequence of items: [count] is the number of items, [last] the final
    one, [len] the exact length (forward), [step_by(st)] every st-th item beginning with the first,
    [rev()] the sequence driven from the other end.  The ops that run to the end are only asked
    within ten years of that end. *)
Definition near_end_j (v : val) (fwd : bool) : bool :=
  match v with
  | VTup [VInt y; _] => if fwd then 262133 <=? y else y <=? -262134
  | _ => false
  end.
Definition j_end (f : Z -> Z -> bool -> val) (step : Z) (args : list val) (out : val) : verdict :=
  match args with
  | [d; dir] =>
      match dn_of_date d, dir_of dir with
      | Some s, Some fwd => if near_end_j d fwd then judge_eq (f step s fwd) out else JSkip
      | _, _ => JSkip
      end
  | _ => JSkip
  end.
Definition exp_count (step s : Z) (fwd : bool) : val := VInt (it_remaining step s 0 fwd).
Definition exp_last (step s : Z) (fwd : bool) : val :=
  if it_avail step s fwd <=? 0 then VNone else it_item step s (it_avail step s fwd - 1) fwd.
Definition j_len (step : Z) (args : list val) (out : val) : verdict :=
  match args with
  | [d; k] =>
      match dn_of_date d, small_of k with
      | Some s, Some k => judge_eq (VInt (it_remaining step s k true)) out
      | _, _ => JSkip
      end
  | _ => JSkip
  end.
Fixpoint exp_steps (step s st : Z) (fwd : bool) (i : Z) (n : nat) : list val :=
  match n with
  | O => []
  | S n' =>
      match it_item step s (i * st) fwd with
      | VSome x => x :: exp_steps step s st fwd (i + 1) n'
      | _ => []
      end
  end.
Definition j_step (step : Z) (args : list val) (out : val) : verdict :=
  match args with
  | [d; dir; st; cap] =>
      match dn_of_date d, dir_of dir, small_of st, small_of cap with
      | Some s, Some fwd, Some st, Some cap =>
          if (1 <=? st) && (cap <=? 60) then judge_eq (VTup (exp_steps step s st fwd 0 (Z.to_nat cap))) out
          else JSkip
      | _, _, _, _ => JSkip
      end
  | _ => JSkip
  end.
Definition j_rev (step : Z) (args : list val) (out : val) : verdict :=
  match args with
  | [d; k; VInt dir; cap] => j_it step [d; k; VInt (1 - dir); cap] out
  | _ => JSkip
  end.

Definition judge (op : bytes) (args : list val) (out : val) : verdict :=
  if op_is op "ar.nadd" then j_n_td false 1 args out
  else if op_is op "ar.nsub" then j_n_td false (-1) args out
  else if op_is op "ar.ndiff" then j_n_n args out
  else if op_is op "ar.ndays" then j_n_days false args out
  else if op_is op "ar.opnadd" then j_n_td true 1 args out
  else if op_is op "ar.opnsub" then j_n_td true (-1) args out
  else if op_is op "ar.opndiff" then j_n_n args out
  else if op_is op "ar.opndays" then j_n_days true args out
  else if op_is op "ar.addstd" then j_n_std args out
  else if op_is op "ar.nrt" then j_rt args out
  else if op_is op "ar.nord" then j_ord args out
  else if op_is op "ar.dadd" then j_d_days false 1 args out
  else if op_is op "ar.dsub" then j_d_days false (-1) args out
  else if op_is op "ar.dadds" then j_d_td false 1 args out
  else if op_is op "ar.dsubs" then j_d_td false (-1) args out
  else if op_is op "ar.ddiff" then j_d_d args out
  else if op_is op "ar.opdadd" then j_d_days true 1 args out
  else if op_is op "ar.opdsub" then j_d_days true (-1) args out
  else if op_is op "ar.opdadds" then j_d_td true 1 args out
  else if op_is op "ar.opdsubs" then j_d_td true (-1) args out
  else if op_is op "ar.opddiff" then j_d_d args out
  else if op_is op "ar.zadd" then j_z_td false 1 args out
  else if op_is op "ar.zsub" then j_z_td false (-1) args out
  else if op_is op "ar.zdiff" then j_z_z args out
  else if op_is op "ar.zdays" then j_z_days false args out
  else if op_is op "ar.opzadd" then j_z_td true 1 args out
  else if op_is op "ar.opzsub" then j_z_td true (-1) args out
  else if op_is op "ar.opzaddasg" then j_z_td true 1 args out
  else if op_is op "ar.opzsubasg" then j_z_td true (-1) args out
  else if op_is op "ar.opzdiff" then j_z_z args out
  else if op_is op "ar.opzdays" then j_z_days true args out
  else if op_is op "ar.zaddstd" then j_z_std args out
  else if op_is op "it.days" then j_it 1 args out
  else if op_is op "it.weeks" then j_it 7 args out
  else if op_is op "it.dnth" then j_nth 1 args out
  else if op_is op "it.wnth" then j_nth 7 args out
  else if op_is op "it.dhint" then j_hint 1 args out
  else if op_is op "it.whint" then j_hint 7 args out
  else if op_is op "ar.opdasg" then j_sg3 (j_d_td true) args out
  else if op_is op "ar.opnasg" then j_sg3 (j_n_td true) args out
  else if op_is op "ar.stdasg" then j_n_std args out
  else if op_is op "ar.zstdasg" then j_z_std args out
  else if op_is op "ar.opzdiffref" then j_z_z args out
  else if op_is op "ar.zord" then j_zord args out
  else if op_is op "ar.noff" then j_n_off false args out
  else if op_is op "ar.opnoff" then j_n_off true args out
  else if op_is op "ar.opzoff" then j_z_off args out
  else if op_is op "it.dcount" then j_end exp_count 1 args out
  else if op_is op "it.wcount" then j_end exp_count 7 args out
  else if op_is op "it.dlast" then j_end exp_last 1 args out
  else if op_is op "it.wlast" then j_end exp_last 7 args out
  else if op_is op "it.dlen" then j_len 1 args out
  else if op_is op "it.wlen" then j_len 7 args out
  else if op_is op "it.dstep" then j_step 1 args out
  else if op_is op "it.wstep" then j_step 7 args out
  else if op_is op "it.drev" then j_rev 1 args out
  else if op_is op "it.wrev" then j_rev 7 args out
  else JSkip.
