(** C12 — executable statement of the property: formatting with a documented specifier (and
    padding modifier) produces the documented text; literal text is copied; composites equal their
    documented expansion; an unknown specifier or a missing field makes formatting fail.
    The oracle is Spec/StrftimeDoc.v (the documentation table over Spec/Gregorian.v); nothing is
    imported from the model or the generated data.

    Domain ([JSkip] outside): arguments that do not decode to a valid value or a valid UTF-8
    format; %y/%g on a negative (ISO) year; %Z on an offset with seconds; the parsing-only %#z;
    the lenient constructor on a format that contains an invalid specifier (its recovery is not
    documented in the table); for `sf.items`, everything after the first [Error] item and the
    question whether iteration ends after an error (that is C15's claim). *)
From Coq Require Import ZArith List Bool String.
From V Require Import Base.Int Base.IO Spec.Gregorian Spec.StrftimeDoc.
Import ListNotations.
Open Scope Z_scope.

(* expected canonical items, text runs merged, as the judge's normal form *)
Inductive nitem := NText (s : bytes) | NNum (n p : Z) | NFix (f : Z) | NErr | NBad.

Definition nitem_of_tok (t : tok) : nitem :=
  match t with
  | KText s => NText s
  | KNum f p => NNum (nfield_code f) (dpad_code p)
  | KFix f => NFix (tfield_code f)
  | KErr => NErr
  end.

Definition nitem_of_val (v : val) : nitem :=
  match v with
  | VTup [VInt 0; VStr s] => NText s
  | VTup [VInt 1; VStr s] => NText s
  | VTup [VInt 2; VInt n; VInt p] => NNum n p
  | VTup [VInt 3; VInt f] => NFix f
  | VTup [VInt 4] => NErr
  | _ => NBad
  end.

Fixpoint nmerge (l : list nitem) : list nitem :=
  match l with
  | NText a :: r =>
      match nmerge r with
      | NText b :: r' => NText (a ++ b) :: r'
      | r' => NText a :: r'
      end
  | x :: r => x :: nmerge r
  | [] => []
  end.
Fixpoint nupto_err (l : list nitem) : list nitem :=
  match l with [] => [] | NErr :: _ => [NErr] | x :: r => x :: nupto_err r end.

Definition nitem_eqb (a b : nitem) : bool :=
  match a, b with
  | NText x, NText y => bytes_eqb x y
  | NNum n p, NNum m q => (n =? m) && (p =? q)
  | NFix f, NFix g => f =? g
  | NErr, NErr => true
  | _, _ => false
  end.
Fixpoint nlist_eqb (a b : list nitem) : bool :=
  match a, b with
  | [], [] => true
  | x :: a', y :: b' => nitem_eqb x y && nlist_eqb a' b'
  | _, _ => false
  end.

Definition judge_items (fmt : bytes) (lenient : bool) (out : val) : verdict :=
  let exp := tokens fmt in
  if has_err exp && lenient then JSkip else
  match out with
  | VTup l =>
      let want := nmerge (map nitem_of_tok (upto_err exp)) in
      let got := nmerge (nupto_err (map nitem_of_val l)) in
      (* merging stops at the first error on both sides: compare the truncated lists *)
      if nlist_eqb want got then JOk else JBad B"items-differ-from-documented-table"
  | VErr _ => if has_err exp then JSkip else JBad B"no-item-list-for-a-valid-format"
  | _ => JBad B"not-an-item-list"
  end.

Definition judge_fmt (lenient : bool) (kind : Z) (v : val) (fmt : bytes) (out : val) : verdict :=
  match sval_of kind v with
  | None => JSkip
  | Some sv =>
      if lenient && has_err (tokens fmt) then JSkip else
      match doc_format sv fmt with
      | ROk s => judge_eq (VStr s) out
      | RFail => judge_eq (VErr B"fmt") out
      | RSkip => JSkip
      end
  end.

Definition judge (op : bytes) (args : list val) (out : val) : verdict :=
  if op_is op "sf.items" then
    match args with
    | [VStr s; VInt l] =>
        if utf8_ok s && ((l =? 0) || (l =? 1)) then judge_items s (l =? 1) out else JSkip
    | _ => JSkip
    end
  else if op_is op "sf.fmt" then
    match args with
    | [VInt kind; v; VStr f] => if utf8_ok f then judge_fmt false kind v f out else JSkip
    | _ => JSkip
    end
  else if op_is op "sf.fmtl" then
    match args with
    | [VInt kind; v; VStr f] => if utf8_ok f then judge_fmt true kind v f out else JSkip
    | _ => JSkip
    end
  (* the deprecated free functions format / format_item: the same documented text (a value the harness
     cannot hand over - wall clock outside the date range - is BADARGS and outside the domain) *)
  else if op_is op "sf.dfmt" || op_is op "sf.dfmti" then
    match args with
    | [VInt kind; v; VStr f] =>
        if utf8_ok f then
          match out with
          | VErr e => if bytes_eqb e B"BADARGS" then JSkip else judge_fmt false kind v f out
          | _ => judge_fmt false kind v f out
          end
        else JSkip
    | _ => JSkip
    end
  else JSkip.
