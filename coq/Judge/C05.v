(** C05 — executable statement of the property "local time follows the zone data", written from
    the property text and Spec/Zone.v (RFC 8536 + POSIX semantics of a zone as an offset function
    of the instant).  Nothing is imported from the model or from generated constants.

    A case carries the zone twice: as the bytes the implementation reads (ignored here) and as the
    structured zone model [ZM] the generator obtained independently of chrono:
        ZM    = (first offset, ((instant, offset from then on), ...), RULE, TAG)
        TAG   = Adler-32 of the printed zone source, a blank and the printed ZM without TAG
        RULE  = none | some((offset)) | some((std, dst, DAY, start time, DAY, end time))
        DAY   = (0, n) zero-based day n | (1, n) Julian day Jn | (2, m, w, d) Mm.w.d
    Instants and wall-clock readings are whole seconds; results are offsets in seconds.

    Verdicts, per element of the batch (the case is [bad] if an element is, [skip] if every
    element is skipped):
    - [lz.at]  (instant -> offset): the answer is [zone_off];
    - [lz.loc] (wall -> offsets): S = [instants_of_wall]: [] -> (), [t] -> (w - t),
      [t1; t2] -> (w - t1, w - t2) earliest first; no claim on the excepted boundary seconds and
      when S has more than two elements;
    - [lz.sel]: the .earliest() / .latest() / .single() projections of the same answer;
    - [lz.rt]  (instant -> wall -> instants): the wall reading is t + zone_off t and the answer is
      (t), or (a, b) with a < b and t one of them;
    - [lz.env]: [lz.at] / [lz.loc] through the public route (direction argument 0 / 1);
    - [lz.conv] (public route): the conversions into DateTime<Local> (From<DateTime<Utc>>,
      From<DateTime<FixedOffset>>, FromStr, From<SystemTime>) and out of it (into DateTime<Utc>,
      DateTime<FixedOffset>) keep the instant; the offset of a Local result is [zone_off] at that
      instant, of the Utc result 0, of the FixedOffset result the Local value's offset;
    - [lz.asg] (public route): a DateTime<Local> at instant t, then += / -= a whole number of seconds d
      (as TimeDelta and as core::time::Duration): the instant moves exactly and the offset of the result
      is [zone_off] at the NEW instant (the zone is resolved again, the old offset is not kept);
    - [lz.uat]: [lz.at] for the instants in whose year the rule is NOT regular ([spacing_rule_self]);
    - [lz.uloc] / [lz.usel] / [lz.urt]: the same statements, for the readings at which
      the zone does NOT satisfy the spacing condition [spacing_ok] (transitions closer together
      than the offset change, rules whose start and end swap their order from one year to the
      next); an element at which the zone is well spaced is skipped under these ops.
    Outside the domain (skip): zone model not well formed; an implementation that rejected the
    zone (acceptance is C16); instants within three days of the ends of chrono's date range;
    offsets FixedOffset cannot carry (|o| >= 86400; for wall-clock readings: anywhere in the zone);
    rule years in which a rule transition lies
    within one day of the year's ends (the property's premise) or both transitions coincide. *)
From Coq Require Import ZArith List Bool String.
From V Require Import Base.Int Base.IO Spec.Gregorian Spec.Zone.
Import ListNotations.
Open Scope Z_scope.

(** ** decoding the zone model *)
Definition dec_day (v : val) : option rday :=
  match v with
  | VTup [VInt 0; VInt n] => if (0 <=? n) && (n <=? 365) then Some (RJulian0 n) else None
  | VTup [VInt 1; VInt n] => if (1 <=? n) && (n <=? 365) then Some (RJulian1 n) else None
  | VTup [VInt 2; VInt m; VInt w; VInt d] =>
      if (1 <=? m) && (m <=? 12) && (1 <=? w) && (w <=? 5) && (0 <=? d) && (d <=? 6)
      then Some (RMonthWeek m w d) else None
  | _ => None
  end.
Definition small (o : Z) : bool := (-2147483648 <? o) && (o <? 2147483648).
Definition dec_rule (v : val) : option (option (Z + srule)) :=
  match v with
  | VNone => Some None
  | VSome (VTup [VInt o]) => if small o then Some (Some (inl o)) else None
  | VSome (VTup [VInt std; VInt dst; sd; VInt st; ed; VInt et]) =>
      match dec_day sd, dec_day ed with
      | Some sd, Some ed =>
          if small std && small dst && (Z.abs st <? 604800) && (Z.abs et <? 604800)
          then Some (Some (inr (mk_srule std dst sd st ed et))) else None
      | _, _ => None
      end
  | _ => None
  end.
Fixpoint dec_trans (l : list val) : option (list (Z * Z)) :=
  match l with
  | [] => Some []
  | VTup [VInt t; VInt o] :: r =>
      match dec_trans r with Some r' => if small o then Some ((t, o) :: r') else None | None => None end
  | _ => None
  end.
(* The case carries the zone twice (bytes for the implementation, ZM for this judge); the two are
   bound together by a checksum (Adler-32 over the printed source and the printed ZM) so that a
   case line edited on one side only -- e.g. by the shrinker -- is outside the domain instead of
   being judged against the wrong zone. *)
Fixpoint adler (bs : bytes) (a b : Z) : Z :=
  match bs with
  | [] => b * 65536 + a
  | x :: r =>
      let s := a + x in let a' := if s <? 65521 then s else s - 65521 in
      let u := b + a' in let b' := if u <? 65521 then u else u - 65521 in
      adler r a' b'
  end.
Definition case_tag (src zm3 : val) : Z := adler (print_val src ++ 32 :: print_val zm3) 1 0.
Definition dec_zone (src v : val) : option szone :=
  match v with
  | VTup [VInt first; VTup trs; rule; VInt tag] =>
      if negb (tag =? case_tag src (VTup [VInt first; VTup trs; rule])) then None else
      match dec_trans trs, dec_rule rule with
      | Some tr, Some r => if small first && increasing tr then Some (mk_szone first tr r) else None
      | _, _ => None
      end
  | _ => None
  end.

(** ** domain *)
Definition TS_MIN := Eval compute in unix_secs DN_MIN 0.
Definition TS_MAX := Eval compute in unix_secs DN_MAX 86399.
Definition ts_ok (x : Z) : bool := (TS_MIN + 259200 <=? x) && (x <=? TS_MAX - 259200).
(* what a FixedOffset can carry *)
Definition fo_ok (o : Z) : bool := (-86400 <? o) && (o <? 86400).

(* [year_start], [premise_year] are in Spec/Zone.v; the oracle looks two years either way *)
Definition premise_at (a : srule) (x : Z) : bool :=
  let y := utc_year x in
  premise_year a (y - 2) && premise_year a (y - 1) && premise_year a y && premise_year a (y + 1)
  && premise_year a (y + 2).
(* the rule can matter for x only from three days before the last table transition on *)
Definition rule_dom (z : szone) (x : Z) : bool :=
  match z_rule z with
  | Some (inr a) =>
      match last_trans (z_trans z) with
      | Some tl => if x + 259200 <? tl then true else premise_at a x
      | None => premise_at a x
      end
  | _ => true
  end.
Definition in_dom (z : szone) (x : Z) : bool := ts_ok x && rule_dom z x.

(** ** the spacing condition ([windows], [ordered], [spacing_table] are in Spec/Zone.v) *)
Fixpoint before_last (tr : list (Z * Z)) (cur : Z) : Z :=
  match tr with
  | [] => cur
  | [_] => cur
  | (_, o) :: rest => before_last rest o
  end.
(* the rule's transitions of year y: (instant, offset before, offset after) *)
Definition rule_events (a : srule) (y : Z) : list (Z * Z * Z) :=
  [(rule_start_utc a y, r_std a, r_dst a); (rule_end_utc a y, r_dst a, r_std a)].
Definition ev_window (e : Z * Z * Z) : Z * Z :=
  let '(r, before, after) := e in (r + Z.min before after, r + Z.max before after).
(* the rule alone, around year y: the same order of start and end in the three years, and the
   six windows disjoint and in order *)
Definition spacing_rule_self (a : srule) (y : Z) : bool :=
  let north := rule_start_utc a y <? rule_end_utc a y in
  let evs yy := if north then rule_events a yy else rev (rule_events a yy) in
  Bool.eqb (rule_start_utc a (y - 1) <? rule_end_utc a (y - 1)) north &&
  Bool.eqb (rule_start_utc a (y + 1) <? rule_end_utc a (y + 1)) north &&
  ordered (map ev_window (evs (y - 1) ++ evs y ++ evs (y + 1))).
(* the rule against the table: a rule transition at the last table transition continues the
   table's offset; one before it ends its window no later than the last table window begins;
   one after it begins its window after the last table window *)
Definition spacing_rule_table (z : szone) (a : srule) : bool :=
  match last_trans (z_trans z) with
  | None => true
  | Some tn =>
      let p := before_last (z_trans z) (z_first z) in
      let on := table_off (z_trans z) (z_first z) tn in
      let y := utc_year tn in
      forallb (fun ev =>
        let '(r, before, after) := ev in
        let '(lo, hi) := ev_window ev in
        if r =? tn then before =? p
        else if r <? tn then hi <? tn + Z.min p on
        else tn + Z.max p on <? lo)
        (rule_events a (y - 1) ++ rule_events a y ++ rule_events a (y + 1))
  end.
Definition spacing_ok (z : szone) (w : Z) : bool :=
  spacing_table (z_trans z) (z_first z) &&
  match z_rule z with
  | Some (inr a) => spacing_rule_self a (utc_year w) && spacing_rule_table z a
  | _ => true
  end.
(* every offset of the zone can be carried by a FixedOffset (otherwise the conversion of a wall
   reading next to such a period answers None as a whole) *)
Definition offsets_ok (z : szone) : bool := forallb fo_ok (zone_offsets z).

(** ** expected answers *)
(* [offs] is [zone_offsets z], computed once per case (the list has no duplicates and is the same
   for every reading: [instants_of_wall z w = instants_of_wall_among (zone_offsets z) z w] by
   definition) *)
Definition undetermined (offs : list Z) (z : szone) (w : Z) : bool :=
  existsb (fun o => match zone_off z (w - o) with None => true | Some _ => false end) offs.
(* offsets for a wall-clock reading, earliest instant first; None = no claim *)
Definition expected_loc (offs : list Z) (z : szone) (w : Z) : option (list Z) :=
  if negb (in_dom z w) || negb (forallb fo_ok offs) || excepted_wall z w || undetermined offs z w then None else
  match instants_of_wall_among offs z w with
  | [] => Some []
  | [t] => if fo_ok (w - t) then Some [w - t] else None
  | [t1; t2] => if fo_ok (w - t1) && fo_ok (w - t2) then Some [w - t1; w - t2] else None
  | _ => None
  end.

Inductive ev := EOk | ESkip | EBad (expected : val).

Definition j_at (z : szone) (t : Z) (out : val) : ev :=
  if negb (in_dom z t) then ESkip else
  match zone_off z t with
  | None => ESkip
  | Some o => if negb (fo_ok o) then ESkip else if val_eqb out (VInt o) then EOk else EBad (VInt o)
  end.
Definition j_loc (offs : list Z) (z : szone) (w : Z) (out : val) : ev :=
  match expected_loc offs z w with
  | None => ESkip
  | Some l => let e := VTup (map VInt l) in if val_eqb out e then EOk else EBad e
  end.
Definition j_sel (offs : list Z) (z : szone) (w : Z) (out : val) : ev :=
  match expected_loc offs z w with
  | None => ESkip
  | Some l =>
      let e := match l with
               | [] => VTup [VNone; VNone; VNone]
               | [o] => VTup [VSome (VInt o); VSome (VInt o); VSome (VInt o)]
               | o1 :: o2 :: _ => VTup [VSome (VInt o1); VSome (VInt o2); VNone]
               end in
      if val_eqb out e then EOk else EBad e
  end.
Definition j_rt (z : szone) (t : Z) (out : val) : ev :=
  if negb (in_dom z t) || negb (offsets_ok z) then ESkip else
  match zone_off z t with
  | None => ESkip
  | Some o =>
      if negb (fo_ok o && in_dom z (t + o)) then ESkip else
      match out with
      | VTup [VInt w; VTup [VInt a]] =>
          if (w =? t + o) && (a =? t) then EOk else EBad (VTup [VInt (t + o); VTup [VInt t]])
      | VTup [VInt w; VTup [VInt a; VInt b]] =>
          if (w =? t + o) && (a <? b) && ((a =? t) || (b =? t)) then EOk
          else EBad (VTup [VInt (t + o); VTup [VInt t]])
      | _ => EBad (VTup [VInt (t + o); VTup [VInt t]])
      end
  end.
(* the conversions: six (offset, timestamp) pairs - Local from Utc, Local from FixedOffset, Utc from Local,
   FixedOffset from Local, Local from text, Local from SystemTime *)
Definition j_conv (z : szone) (t : Z) (out : val) : ev :=
  if negb (in_dom z t) then ESkip else
  match zone_off z t with
  | None => ESkip
  | Some o =>
      if negb (fo_ok o) then ESkip else
      let p := VTup [VInt o; VInt t] in
      let e := VTup [p; p; VTup [VInt 0; VInt t]; p; p; p] in
      if val_eqb out e then EOk else EBad e
  end.
(* DateTime<Local> += / -= : four results (+= d, -= d as TimeDelta; += |d|, -= |d| as core::time::Duration), each
   (offset, timestamp): the instant moved exactly, the offset the zone's offset at the NEW instant.  A claim is
   made on a result whose new instant is in the domain (and in a regular rule year); a PANIC there is rejected *)
Definition regular_at (z : szone) (t : Z) : bool :=
  match z_rule z with Some (inr a) => spacing_rule_self a (utc_year t) | _ => true end.
Definition asg_exp (z : szone) (t' : Z) : option val :=
  if negb (in_dom z t' && regular_at z t') then None else
  match zone_off z t' with
  | Some o' => if fo_ok o' then Some (VTup [VInt o'; VInt t']) else None
  | None => None
  end.
Definition asg_chk (x : option val) (v : val) : bool := match x with None => true | Some w => val_eqb v w end.
Definition asg_show (x : option val) : val := match x with None => VNone | Some w => VSome w end.
Definition ASG_MAX := 10000000000000.
Definition j_asg (z : szone) (d : Z) (t : Z) (out : val) : ev :=
  if negb (in_dom z t && regular_at z t) then ESkip else
  match zone_off z t with
  | None => ESkip
  | Some o =>
      if negb (fo_ok o) then ESkip else
      let ea := asg_exp z (t + d) in let eb := asg_exp z (t - d) in
      let ec := asg_exp z (t + Z.abs d) in let ee := asg_exp z (t - Z.abs d) in
      let want := VTup [asg_show ea; asg_show eb; asg_show ec; asg_show ee] in
      match ea, eb, ec, ee with
      | None, None, None, None => ESkip
      | _, _, _, _ =>
          match out with
          | VTup [a; b; c; e] =>
              if asg_chk ea a && asg_chk eb b && asg_chk ec c && asg_chk ee e then EOk else EBad want
          | _ => EBad want
          end
      end
  end.
(* the unspaced variants: only where the zone is not well spaced at this reading *)
Definition unspaced (z : szone) (j : szone -> Z -> val -> ev) (wall_of : Z -> option Z) (x : Z) (out : val) : ev :=
  match wall_of x with
  | Some w => if spacing_ok z w then ESkip else j z x out
  | None => ESkip
  end.

(** ** batches *)
Fixpoint ints (l : list val) : option (list Z) :=
  match l with
  | [] => Some []
  | VInt x :: r => match ints r with Some r' => Some (x :: r') | None => None end
  | _ => None
  end.
Fixpoint walk (j : Z -> val -> ev) (i : Z) (xs : list Z) (outs : list val) (any_ok : bool) : verdict :=
  match xs, outs with
  | [], [] => if any_ok then JOk else JSkip
  | x :: xs', o :: outs' =>
      match j x o with
      | EOk => walk j (i + 1) xs' outs' true
      | ESkip => walk j (i + 1) xs' outs' any_ok
      | EBad e => JBad (B"element=" ++ dec_of_Z i ++ B",arg=" ++ dec_of_Z x ++ B",expected=" ++ print_val e)
      end
  | _, _ => JBad B"length"
  end.
Definition batch (j : Z -> val -> ev) (xs : val) (out : val) : verdict :=
  match xs with
  | VTup l =>
      match ints l with
      | Some xs =>
          match out with
          | VTup outs => walk j 0 xs outs false
          | VErr _ => JSkip                (* the zone was rejected: C16 *)
          | _ => JBad B"shape"             (* PANIC / TIMEOUT for the whole batch *)
          end
      | None => JSkip
      end
  | _ => JSkip
  end.

Definition judge (op : bytes) (args : list val) (out : val) : verdict :=
  match args with
  | [src; zm; xs] =>
      match dec_zone src zm with
      | None => JSkip
      | Some z =>
          let offs := zone_offsets z in
          let wall_self := fun w : Z => Some w in
          let wall_of_t := fun t : Z => match zone_off z t with Some o => Some (t + o) | None => None end in
          if op_is op "lz.at" then batch (j_at z) xs out
          else if op_is op "lz.loc" then batch (j_loc offs z) xs out
          else if op_is op "lz.sel" then batch (j_sel offs z) xs out
          else if op_is op "lz.rt" then batch (j_rt z) xs out
          else if op_is op "lz.uat" then
            batch (fun t o => match z_rule z with
                              | Some (inr a) => if spacing_rule_self a (utc_year t) then ESkip else j_at z t o
                              | _ => ESkip
                              end) xs out
          else if op_is op "lz.uloc" then batch (unspaced z (j_loc offs) wall_self) xs out
          else if op_is op "lz.usel" then batch (unspaced z (j_sel offs) wall_self) xs out
          else if op_is op "lz.urt" then batch (unspaced z j_rt wall_of_t) xs out
          else if op_is op "lz.conv" then
            match z_rule z with
            | Some (inr a) => batch (fun t o => if spacing_rule_self a (utc_year t) then j_conv z t o else ESkip) xs out
            | _ => batch (j_conv z) xs out
            end
          else JSkip
      end
  | [src; zm; VInt dir; xs] =>
      match dec_zone src zm with
      | None => JSkip
      | Some z =>
          if op_is op "lz.env" then
            if dir =? 0 then batch (j_at z) xs out
            else if dir =? 1 then batch (j_loc (zone_offsets z) z) xs out
            else JSkip
          else if op_is op "lz.asg" then
            if (- ASG_MAX <=? dir) && (dir <=? ASG_MAX) then batch (j_asg z dir) xs out else JSkip
          else JSkip
      end
  | _ => JSkip
  end.
