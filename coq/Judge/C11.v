(** C11 -- executable statement of the property "RFC 2822 output round-trips and obsolete forms are
    read as specified", written from the property text, RFC 2822 sections 3.3 / 4.3 and the crate
    documentation (Spec/Rfc2822.v, Spec/Gregorian.v); nothing is imported from the model or the
    generated data.

    r2.parse <bytes>   if the generator grammar ([recognise]) accepts the string:
                         fields valid, day of week (if written) right, value representable
                                              -> the output must be exactly the denoted value;
                         fields not valid (day 0/32, 30 Feb, hour 24, minute 60, second 61, zone
                         minutes 60) or a day of week that contradicts the date
                                              -> the output must be an error value;
                         valid but outside what the library can represent (offset of 24 h or more,
                         year beyond the documented range) -> no claim (skip).
                       strings outside the grammar: the property makes no claim of exact
                       acceptance (skip) -- but a PANIC (or a hang) is never an allowed outcome.
    r2.write Z         domain: whole-minute offset, leap-second field only on second 59.
    r2.fmt Z           wall-clock year 0..9999: the text must be exactly the standard form
                       "Www, D Mon YYYY HH:MM:SS +hhmm" of the value (correct day of week; the
                       leap second printed as :60; one-digit days with or without a leading zero),
                       and that text must denote, under the reader specification, the same instant
                       to whole seconds (leap second kept) and the same offset.
                       wall-clock year outside 0..9999: the documented panic is the expected output.
    r2.rt Z            parse (write v): v to whole seconds, leap second and offset kept (same
                       domain; outside 0..9999 the documented panic). *)
From Coq Require Import ZArith List Bool String.
From V Require Import Base.Int Base.IO Base.Utf8 Spec.Gregorian Spec.Rfc2822.
Import ListNotations.
Open Scope Z_scope.

Definition enc5 (v : Z * Z * Z * Z * Z) : val :=
  let '(y, o, s, f, off) := v in VTup [VInt y; VInt o; VInt s; VInt f; VInt off].

Definition is_error (out : val) : bool :=
  match out with
  | VErr n => negb (bytes_eqb n B"BADARGS" || bytes_eqb n B"NOOP")
  | _ => false
  end.
Definition is_crash (out : val) : bool :=
  match out with VPanic | VTimeout | VFuel => true | _ => false end.

Definition judge_parse (s : bytes) (out : val) : verdict :=
  if negb (utf8_valid s) then JSkip else
  match recognise s with
  | None => if is_crash out then JBad B"the-reader-must-fail-by-value-on-any-text" else JSkip
  | Some f =>
      if negb (valid f) then
        (if is_error out then JOk else JBad B"fields-that-name-no-date-time-must-be-rejected")
      else if negb (weekday_ok f) then
        (if is_error out then JOk else JBad B"a-day-of-week-that-contradicts-the-date-must-be-rejected")
      else if negb (representable f) then
        (if is_crash out then JBad B"the-reader-must-fail-by-value-on-any-text" else JSkip)
      else judge_eq (enc5 (denote f)) out
  end.

(** a value of the case protocol that is a date-time in chrono's range *)
Definition dec5 (v : val) : option (Z * Z * Z * Z * Z) :=
  match v with
  | VTup [VInt y; VInt o; VInt s; VInt f; VInt off] =>
      if year_in_range y && valid_yo y o && (0 <=? s) && (s <? 86400) && (0 <=? f) && (f <? 2000000000)
         && (-86400 <? off) && (off <? 86400)
      then Some (y, o, s, f, off) else None
  | _ => None
  end.
(** the writer domain of the property, apart from the year *)
Definition in_writer_domain (v : Z * Z * Z * Z * Z) : bool :=
  let '(y, o, s, f, off) := v in
  (off mod 60 =? 0) && ((f <? 1000000000) || (s mod 60 =? 59)).
Definition wall_year (v : Z * Z * Z * Z * Z) : Z :=
  let '(y, o, s, f, off) := v in fst (yo_of_dn (wall_dn y o s off)).
Definition year_printable (v : Z * Z * Z * Z * Z) : bool := (0 <=? wall_year v) && (wall_year v <=? 9999).
(** the value to whole seconds, leap second kept *)
Definition whole_seconds (v : Z * Z * Z * Z * Z) : Z * Z * Z * Z * Z :=
  let '(y, o, s, f, off) := v in (y, o, s, (if 1000000000 <=? f then 1000000000 else 0), off).

Definition judge_text (v : Z * Z * Z * Z * Z) (t : bytes) : verdict :=
  let '(y, o, s, f, off) := v in
  if negb (bytes_eqb t (standard_text false y o s f off) || bytes_eqb t (standard_text true y o s f off))
  then JBad (B"expected=" ++ print_val (VStr (standard_text false y o s f off))) else
  match recognise t with
  | None => JBad B"standard-form-not-in-the-reader-grammar"
  | Some g =>
      if negb (valid g && weekday_ok g && representable g) then JBad B"standard-form-fields-not-valid" else
      match f_wd g with
      | None => JBad B"day-of-week-missing"
      | Some _ => judge_eq (enc5 (whole_seconds v)) (enc5 (denote g))
      end
  end.

Definition judge_write (z : val) (out : val) : verdict :=
  match dec5 z with
  | Some v =>
      if negb (in_writer_domain v) then JSkip else
      if year_printable v then
        match out with
        | VStr t => judge_text v t
        | _ => JBad B"writer-must-produce-text"
        end
      else
        match out with
        | VPanic => JOk
        | _ => JBad B"outside-years-0-9999-the-documented-panic-is-expected"
        end
  | None => JSkip
  end.

Definition judge_rt (z : val) (out : val) : verdict :=
  match dec5 z with
  | Some v =>
      if negb (in_writer_domain v) then JSkip else
      if year_printable v then judge_eq (enc5 (whole_seconds v)) out
      else match out with
           | VPanic => JOk
           | _ => JBad B"outside-years-0-9999-the-documented-panic-is-expected"
           end
  | None => JSkip
  end.

Definition judge (op : bytes) (args : list val) (out : val) : verdict :=
  if op_is op "r2.parse" then
    match args with [VStr s] => judge_parse s out | _ => JSkip end
  else if op_is op "r2.write" || op_is op "r2.fmt" then
    match args with [z] => judge_write z out | _ => JSkip end
  else if op_is op "r2.rt" then
    match args with [z] => judge_rt z out | _ => JSkip end
  else JSkip.
