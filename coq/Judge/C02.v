(** C02 — executable statement of the property "Unix timestamps and UTC date-times correspond
    one-to-one".  Written from the property text and the calendar mathematics of Spec/Gregorian.v only:
    the instant of a (non-leap) UTC date-time with day number [dn], second of day [s] and nanosecond [f]
    is  unix_nanos dn s f = ((dn - dn(1970-01-01)) * 86400 + s) * 10^9 + f  nanoseconds after the epoch.
    Nothing is imported from the model or from the generated constants.

    Readings fixed here:
    - a constructor applied to a count must return the date-time whose instant is exactly that count
      (this *is* flooring: the fields s, f are non-negative remainders), and must refuse exactly when
      no such date-time exists in chrono's documented range (years -262143 ..= 262142) or the
      nanosecond field is invalid: >= 10^9 unless (< 2*10^9 and the second number is 59 mod 60);
    - accessors on a non-leap value return floor(instant / unit); the nanosecond accessor returns the
      exact count when it fits i64 and reports absence otherwise; on a leap-second value (f >= 10^9)
      only the documented pair (timestamp, subsec_nanos = f) and the sub-second quotients are judged;
    - panicking variants: a value must be the right one; refusing by panic is only allowed where the
      fallible variant must refuse;
    - SystemTime: the instant +-(secs * 10^9 + nanos) relative to UNIX_EPOCH is preserved; converting a
      leap-second value to a SystemTime must give an instant inside that leap second (from the last
      nanosecond of the second it is attached to up to, excluding, two seconds after the start of that
      second), never a panic. *)
From Coq Require Import ZArith List Bool String.
From V Require Import Base.Int Base.IO Spec.Gregorian.
Import ListNotations.
Open Scope Z_scope.

Definition G := 1000000000.
Definition SEC_MIN := Eval compute in unix_secs DN_MIN 0.
Definition SEC_MAX := Eval compute in unix_secs DN_MAX 86399.
Definition secs_in_range (s : Z) : bool := (SEC_MIN <=? s) && (s <=? SEC_MAX).
Definition ns_in_range (t : Z) : bool := (NS_MIN <=? t) && (t <=? NS_MAX).

(** a date-time value of the protocol: (year, ordinal, second of day, nanosecond field) *)
Definition dec_dt (l : list val) : option (Z * Z * Z) :=
  match l with
  | [VInt y; VInt o; VInt s; VInt f] =>
      if year_in_range y && valid_yo y o && (0 <=? s) && (s <? 86400) && (0 <=? f) && (f <? 2 * G)
      then Some (dn_of_yo y o, s, f) else None
  | _ => None
  end.

(** how a constructor reports success / refusal *)
Inductive kind := KOpt | KPanic | KMlt (off : Z) | KDtz (off : Z).
(* Some (Some fields) = a value, Some None = refusal, None = neither *)
Definition payload (k : kind) (out : val) : option (option (list val)) :=
  match k with
  | KOpt => match out with
            | VNone => Some None
            | VSome (VTup l) => Some (Some l)
            | _ => None end
  | KPanic => match out with
              | VPanic => Some None
              | VTup l => Some (Some l)
              | _ => None end
  | KMlt off => match out with
                | VTup [] => Some None
                | VTup [VTup [y; o; s; f; VInt off']] => if off =? off' then Some (Some [y; o; s; f]) else None
                | _ => None end
  | KDtz off => match out with
                | VPanic => Some None
                | VTup [y; o; s; f; VInt off'] => if off =? off' then Some (Some [y; o; s; f]) else None
                | _ => None end
  end.

Definition judge_ctor (k : kind) (should : bool) (right : Z * Z * Z -> bool) (out : val) : verdict :=
  match payload k out with
  | None => JBad B"result-of-unexpected-shape"
  | Some None => if should then JBad B"representable-count-refused" else JOk
  | Some (Some l) =>
      if should then
        match dec_dt l with
        | Some d => if right d then JOk else JBad B"date-time-not-at-that-distance-from-the-epoch"
        | None => JBad B"result-is-not-a-valid-date-time"
        end
      else JBad B"unrepresentable-or-invalid-count-accepted"
  end.

(** seconds + nanosecond field *)
Definition accept (secs nsecs : Z) : bool :=
  secs_in_range secs && ((nsecs <? G) || ((nsecs <? 2 * G) && (secs mod 60 =? 59))).
Definition right_secs (secs nsecs : Z) (d : Z * Z * Z) : bool :=
  let '(dn, s, f) := d in (unix_secs dn s =? secs) && (f =? nsecs).
(** a count of [unit] nanoseconds each *)
Definition right_ns (t : Z) (d : Z * Z * Z) : bool :=
  let '(dn, s, f) := d in (f <? G) && (unix_nanos dn s f =? t).

Definition j_from (k : kind) (a b out : val) : verdict :=
  match a, b with
  | VInt secs, VInt nsecs =>
      if in_i64 secs && in_u32 nsecs then judge_ctor k (accept secs nsecs) (right_secs secs nsecs) out else JSkip
  | _, _ => JSkip
  end.
Definition j_unit (k : kind) (unit : Z) (a out : val) : verdict :=
  match a with
  | VInt x => if in_i64 x then judge_ctor k (ns_in_range (x * unit)) (right_ns (x * unit)) out else JSkip
  | _ => JSkip
  end.
Definition off_ok (o : Z) : bool := (-86400 <? o) && (o <? 86400).

Definition opt_i64 (z : Z) : val := if in_i64 z then VSome (VInt z) else VNone.

(** accessors *)
Definition j_acc (arg out : val) : verdict :=
  match arg with
  | VTup l =>
    match dec_dt l with
    | Some (dn, s, f) =>
      if f <? G then
        let t := unix_nanos dn s f in
        judge_eq (VTup [VInt (t / G); VInt (t / 1000000); VInt (t / 1000); opt_i64 t;
                        VInt (f / 1000000); VInt (f / 1000); VInt f]) out
      else
        match out with
        | VTup [VInt ts; _; _; _; VInt sms; VInt sus; VInt sns] =>
            if (ts =? unix_secs dn s) && (sns =? f) && (sms =? f / 1000000) && (sus =? f / 1000) then JOk
            else JBad B"leap-second-value:timestamp-or-subsec-wrong"
        | _ => JBad B"leap-second-value:result-of-unexpected-shape"
        end
    | None => JSkip
    end
  | _ => JSkip
  end.
Definition j_acc_ns (arg out : val) : verdict :=
  match arg with
  | VTup l =>
    match dec_dt l with
    | Some (dn, s, f) =>
      if f <? G then
        let t := unix_nanos dn s f in
        if in_i64 t then judge_eq (VInt t) out
        else match out with VPanic => JOk | _ => JBad B"count-outside-i64-reported-as-a-value" end
      else JSkip
    | None => JSkip
    end
  | _ => JSkip
  end.

(** round trips *)
Definition j_rt_unit (unit : Z) (a out : val) : verdict :=
  match a with
  | VInt x => if in_i64 x then judge_eq (if ns_in_range (x * unit) then VSome (VInt x) else VNone) out else JSkip
  | _ => JSkip
  end.
Definition j_back (arg out : val) : verdict :=
  match arg with
  | VTup [VInt y; VInt o; VInt s; VInt f] =>
    match dec_dt [VInt y; VInt o; VInt s; VInt f] with
    | Some (dn, _, _) =>
      let dt g := VSome (VTup [VInt y; VInt o; VInt s; VInt g]) in
      if f <? G then
        judge_eq (VTup [dt f; dt (f - f mod 1000000); dt (f - f mod 1000);
                        if in_i64 (unix_nanos dn s f) then dt f else VNone]) out
      else if s mod 60 =? 59 then
        match out with
        | VTup (r1 :: _) => judge_eq (dt f) r1
        | _ => JBad B"result-of-unexpected-shape"
        end
      else JSkip
    | None => JSkip
    end
  | _ => JSkip
  end.

(** SystemTime *)
Definition j_systime (args : list val) (out : val) : verdict :=
  match args with
  | [VInt sg; VInt secs; VInt nanos] =>
      if ((sg =? 0) || (sg =? 1)) && in_u64 secs && (0 <=? nanos) && (nanos <? G) then
        let t := (if sg =? 0 then 1 else -1) * (secs * G + nanos) in
        judge_ctor (KDtz 0) (ns_in_range t) (right_ns t) out
      else JSkip
  | _ => JSkip
  end.
Definition j_tosys (args : list val) (out : val) : verdict :=
  match args with
  | [VTup [y; o; s; f; VInt off]] =>
      match dec_dt [y; o; s; f] with
      | Some (dn, s, f) =>
          if off_ok off then
            if f <? G then
              let t := unix_nanos dn s f in
              let a := Z.abs t in
              judge_eq (VTup [val_of_bool (t <? 0); VInt (a / G); VInt (a mod G)]) out
            else
              (* a leap-second value (G <= f < 2G) has no unique instant: "this second plus f
                 nanoseconds" (what the accessors pair (timestamp, subsec_nanos) denotes) or any
                 clamp inside the leap second are accepted, i.e. a well-formed (sign, secs, nanos)
                 triple whose instant r lies in [t0 + G - 1, t0 + 2G), t0 = the start of the
                 second; anything else (a panic included) is not a preserved instant *)
              let t0 := unix_nanos dn s 0 in
              match out with
              | VTup [VInt b; VInt secs; VInt nanos] =>
                  if ((b =? 0) || (b =? 1)) && (0 <=? secs) && (0 <=? nanos) && (nanos <? G) then
                    let r := (if b =? 1 then -1 else 1) * (secs * G + nanos) in
                    if (t0 + G - 1 <=? r) && (r <? t0 + 2 * G) then JOk
                    else JBad B"leap-second-value:instant-outside-the-leap-second"
                  else JBad B"leap-second-value:result-not-a-well-formed-triple"
              | _ => JBad B"leap-second-value:result-of-unexpected-shape"
              end
          else JSkip
      | None => JSkip
      end
  | _ => JSkip
  end.

Definition is_badargs (out : val) : bool :=
  match out with VErr s => bytes_eqb s B"BADARGS" | _ => false end.

(** the constants: the epoch is 1970-01-01T00:00:00Z (count 0); the range of representable UTC
    date-times runs from the first nanosecond of the first supported day to the last of the last *)
Definition enc_fields (dn s f : Z) : list val := let '(y, o) := yo_of_dn dn in [VInt y; VInt o; VInt s; VInt f].
Definition exp_consts : val :=
  let e := enc_fields EPOCH_DN 0 0 in
  let lo := enc_fields DN_MIN 0 0 in let hi := enc_fields DN_MAX 86399 999999999 in
  VTup [VTup (e ++ [VInt 0]); VInt 0; VTup e; VTup (lo ++ [VInt 0]); VTup (hi ++ [VInt 0]); VTup lo; VTup hi;
        VInt SEC_MIN; VInt SEC_MAX].

(** the [Default] values: NaiveDate is the day 1970-01-01 (day number EPOCH_DN), NaiveTime is midnight,
    NaiveDateTime / DateTime<Utc> / DateTime<FixedOffset> are the epoch (instant 0, timestamp 0), the zoned
    ones with offset 0 *)
Definition exp_defaults : val :=
  let e := enc_fields EPOCH_DN 0 0 in
  let '(y, o) := yo_of_dn EPOCH_DN in
  VTup [VTup [VInt y; VInt o]; VTup [VInt 0; VInt 0]; VTup e; VTup (e ++ [VInt 0]); VTup (e ++ [VInt 0]);
        VInt 0; VInt 0].

Definition judge (op : bytes) (args : list val) (out : val) : verdict :=
  let two (f : val -> val -> val -> verdict) := match args with [a; b] => f a b out | _ => JSkip end in
  let one (f : val -> val -> verdict) := match args with [a] => f a out | _ => JSkip end in
  let off2 (f : Z -> val -> val -> verdict) :=
    match args with [VInt o; a] => if off_ok o then f o a out else JSkip | _ => JSkip end in
  let off3 (f : Z -> val -> val -> val -> verdict) :=
    match args with [VInt o; a; b] => if off_ok o then f o a b out else JSkip | _ => JSkip end in
  if is_badargs out then JSkip
  else if op_is op "ts.from" then two (j_from KOpt)
  else if op_is op "ts.fromms" then one (j_unit KOpt 1000000)
  else if op_is op "ts.fromus" then one (j_unit KOpt 1000)
  else if op_is op "ts.fromns" then one (j_unit KPanic 1)
  else if op_is op "ts.of" then one j_acc
  else if op_is op "ts.ofns" then one j_acc_ns
  else if op_is op "ts.rt" then
    two (fun a b out => match a, b with
         | VInt secs, VInt nsecs =>
             if in_i64 secs && in_u32 nsecs then
               judge_eq (if accept secs nsecs then VSome (VTup [VInt secs; VInt nsecs]) else VNone) out
             else JSkip
         | _, _ => JSkip end)
  else if op_is op "ts.rtms" then one (j_rt_unit 1000000)
  else if op_is op "ts.rtus" then one (j_rt_unit 1000)
  else if op_is op "ts.rtns" then one (j_rt_unit 1)
  else if op_is op "ts.back" then one j_back
  else if op_is op "ts.tz" then off3 (fun o => j_from (KMlt o))
  else if op_is op "ts.tzp" then off3 (fun o => j_from (KDtz o))
  else if op_is op "ts.tzms" then off2 (fun o => j_unit (KMlt o) 1000000)
  else if op_is op "ts.tzmsp" then off2 (fun o => j_unit (KDtz o) 1000000)
  else if op_is op "ts.tzus" then off2 (fun o => j_unit (KMlt o) 1000)
  else if op_is op "ts.tzns" then off2 (fun o => j_unit (KDtz o) 1)
  else if op_is op "ts.naive_from" then two (j_from KPanic)
  else if op_is op "ts.naive_opt" then two (j_from KOpt)
  else if op_is op "ts.naive_ms" then one (j_unit KOpt 1000000)
  else if op_is op "ts.naive_us" then one (j_unit KOpt 1000)
  else if op_is op "ts.naive_ns" then one (j_unit KOpt 1)
  else if op_is op "ts.naive_of" then one j_acc
  else if op_is op "ts.naive_ofns" then one j_acc_ns
  else if op_is op "ts.systime" then j_systime args out
  else if op_is op "ts.tosys" then j_tosys args out
  else if op_is op "ts.consts" then
    match args with [] => judge_eq exp_consts out | _ => JSkip end
  else if op_is op "ts.defaults" then
    match args with [] => judge_eq exp_defaults out | _ => JSkip end
  else JSkip.
