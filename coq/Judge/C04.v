(** C04 — executable statement of the property "one instant, many wall clocks".

    A date-time value [(y, o, s, f, off)] (UTC reading + offset) denotes
      - the UTC second count  U = dn(y,o) * 86400 + s   (dn = proleptic Gregorian day number,
        Spec/Gregorian.v) together with the sub-second field f (0 <= f < 2*10^9; f >= 10^9 is
        chrono's representation of a leap second and is carried unchanged by every operation here);
        for f < 10^9 the instant in nanoseconds is (U - EPOCH_DN*86400) * 10^9 + f, and comparing
        instants is comparing the pairs (U, f) lexicographically;
      - the wall clock  W = U + off, rendered by the calendar functions of Spec/Gregorian.v
        (also when W is up to one day outside the nominal range).
    The supported range of instants is  DN_MIN*86400 <= U <= DN_MAX*86400 + 86399.
    Every expected output below is computed from these definitions only; nothing is imported from
    the model or from the generated tables. *)
From Coq Require Import ZArith List Bool String.
From V Require Import Base.Int Base.IO Spec.Gregorian.
From V Require Judge.C09.
Import ListNotations.
Open Scope Z_scope.

Definition DAY := 86400.
Definition TMIN := DN_MIN * DAY.
Definition TMAX := DN_MAX * DAY + 86399.
Definition in_rng (t : Z) : bool := (TMIN <=? t) && (t <=? TMAX).
Definition off_ok (off : Z) : bool := (-86400 <? off) && (off <? 86400).
Definition frac_ok (f : Z) : bool := (0 <=? f) && (f <? 2000000000).

(** ** decoding of arguments (None = outside the property's domain) *)
Definition secs_of_naive (y o s f : Z) : option (Z * Z) :=
  if year_in_range y && valid_yo y o && (0 <=? s) && (s <? DAY) && frac_ok f
  then Some (dn_of_yo y o * DAY + s, f) else None.
Definition naive_of_arg (v : val) : option (Z * Z) :=
  match v with VTup [VInt y; VInt o; VInt s; VInt f] => secs_of_naive y o s f | _ => None end.
(** (U, f, off) *)
Definition z_of_arg (v : val) : option (Z * Z * Z) :=
  match v with
  | VTup [VInt y; VInt o; VInt s; VInt f; VInt off] =>
      match secs_of_naive y o s f with
      | Some (u, f) => if off_ok off then Some (u, f, off) else None
      | None => None
      end
  | _ => None
  end.
Definition off_of_arg (v : val) : option Z :=
  match v with VInt off => if off_ok off then Some off else None | _ => None end.
Definition time_of_arg (v : val) : option (Z * Z) :=
  match v with
  | VTup [VInt s; VInt f] => if (0 <=? s) && (s <? DAY) && frac_ok f then Some (s, f) else None
  | _ => None
  end.

(** ** rendering *)
Definition enc_naive (t f : Z) : val :=
  let '(y, o) := yo_of_dn (t / DAY) in VTup [VInt y; VInt o; VInt (t mod DAY); VInt f].
Definition enc_z (u f off : Z) : val :=
  let '(y, o) := yo_of_dn (u / DAY) in VTup [VInt y; VInt o; VInt (u mod DAY); VInt f; VInt off].
Definition exp_opt_z (u f off : Z) : val := if in_rng u then VSome (enc_z u f off) else VNone.
Definition exp_mlt_z (u f off : Z) : val := if in_rng u then VTup [enc_z u f off] else VTup [].

Definition judge_either (e1 e2 got : val) : verdict :=
  if val_eqb e1 got || val_eqb e2 got then JOk
  else JBad (B"expected=" ++ print_val e1 ++ B"|" ++ print_val e2).

(** the 14 wall-clock fields reported by [z.acc] *)
Definition exp_acc (w f : Z) : val :=
  let dn := w / DAY in let sod := w mod DAY in
  let '(y, m, d) := ymd_of_dn dn in
  let o := ordinal_of_dn dn in
  let '(iy, iw) := iso_of_dn dn in
  VTup [VInt y; VInt m; VInt (m - 1); VInt d; VInt (d - 1); VInt o; VInt (o - 1); VInt (weekday_of_dn dn);
        VInt (sod / 3600); VInt (sod / 60 mod 60); VInt (sod mod 60); VInt f; VInt iy; VInt iw].

(** ** replacing one field of the wall clock (w, f); None = no such date/time exists *)
Definition replace_field (field w f x : Z) : option (Z * Z) :=
  let dn := w / DAY in let sod := w mod DAY in
  let '(y, m, d) := ymd_of_dn dn in
  let date (ok : bool) (dn' : Z) := if ok then Some (dn' * DAY + sod, f) else None in
  if field =? 0 then date (valid_ymd x m d) (dn_of_ymd x m d)
  else if field =? 1 then date (valid_ymd y x d) (dn_of_ymd y x d)
  else if field =? 2 then date (valid_ymd y (x + 1) d) (dn_of_ymd y (x + 1) d)
  else if field =? 3 then date (valid_ymd y m x) (dn_of_ymd y m x)
  else if field =? 4 then date (valid_ymd y m (x + 1)) (dn_of_ymd y m (x + 1))
  else if field =? 5 then date (valid_yo y x) (dn_of_yo y x)
  else if field =? 6 then date (valid_yo y (x + 1)) (dn_of_yo y (x + 1))
  else if field =? 7 then if x <? 24 then Some (dn * DAY + x * 3600 + sod mod 3600, f) else None
  else if field =? 8 then if x <? 60 then Some (dn * DAY + sod / 3600 * 3600 + x * 60 + sod mod 60, f) else None
  else if field =? 9 then if x <? 60 then Some (dn * DAY + sod / 60 * 60 + x, f) else None
  else if x <? 2000000000 then Some (w, x) else None.

(** result of an operation that moves the wall clock of (u, f, off) to (w', f'):
    [Some] of the date-time with instant w' - off when that instant is in the supported range,
    [None] otherwise.  One class is left open: when the *new* wall-clock date differs from the old
    one and itself lies outside the nominal date range (a headroom reading requested by the
    caller, not produced by the offset), chrono documents [None] ("the resulting local datetime
    would be out of range"); the property text makes no claim there, so [None] is accepted as well
    as the exact value.
    A second open class: the result is the last second of the range carrying a leap-second
    fraction.  chrono's MAX is 23:59:59.999999999 of the last day while the type also admits
    23:59:59 + (10^9 + x) ns on that day, which the derived order puts after MAX; whether that
    reading is inside "the supported range" is not fixed by the property text, so a setter may
    refuse it or build it. *)
Definition moved (mk_some : val -> val) (none : val) (u off w' f' : Z) (got : val) : verdict :=
  let u' := w' - off in
  let strict := if in_rng u' then mk_some (enc_z u' f' off) else none in
  let dn_old := (u + off) / DAY in let dn_new := w' / DAY in
  if negb (dn_new =? dn_old) && negb (dn_in_range dn_new) then judge_either strict none got
  else if (u' =? TMAX) && (1000000000 <=? f') then judge_either strict none got
  else judge_eq strict got.

Definition z_1 (f : Z -> Z -> Z -> val) (args : list val) (out : val) : verdict :=
  match args with
  | [a] => match z_of_arg a with Some (u, fr, off) => judge_eq (f u fr off) out | None => JSkip end
  | _ => JSkip
  end.
Definition z_2 (f : Z * Z -> Z * Z -> val -> verdict) (args : list val) (out : val) : verdict :=
  match args with
  | [a; b] => match z_of_arg a, z_of_arg b with
              | Some (u, f1, _), Some (v, f2, _) => f (u, f1) (v, f2) out
              | _, _ => JSkip end
  | _ => JSkip
  end.
Definition inst_eqb (a b : Z * Z) : bool := (fst a =? fst b) && (snd a =? snd b).
Definition inst_cmp (a b : Z * Z) : Z := cmp_lex [fst a; snd a] [fst b; snd b].

(** the derived and provided accessors of the wall clock reported by [z.prov]: common-era year,
    quarter, day number, length of the month, 12-hour clock, seconds from midnight, 0-based ISO week *)
Definition exp_prov (w : Z) : val :=
  let dn := w / DAY in let sod := w mod DAY in
  let '(y, m, d) := ymd_of_dn dn in
  let '(iy, iw) := iso_of_dn dn in
  let h := sod / 3600 in
  VTup [val_of_bool (1 <=? y); VInt (if 1 <=? y then y else 1 - y); VInt ((m - 1) / 3 + 1); VInt dn;
        VInt (days_in_month (is_leap y) m); val_of_bool (12 <=? h);
        VInt (if h mod 12 =? 0 then 12 else h mod 12); VInt sod; VInt (iw - 1)].
(** comparison operators between two zone-aware values (same or different zone types): all of them
    read the order of the instants *)
Definition exp_pcmp (a b : Z * Z) : val :=
  let c := inst_cmp a b in let e := inst_eqb a b in
  VTup [VSome (VInt c); VSome (VInt c); val_of_bool e; val_of_bool (negb e);
        val_of_bool (c =? -1); val_of_bool (c <=? 0); val_of_bool (c =? 1); val_of_bool (0 <=? c);
        val_of_bool (c =? -1); val_of_bool (0 <=? c)].

Definition judge (op : bytes) (args : list val) (out : val) : verdict :=
  if op_is op "z.east" then
    match args with
    | [VInt s] => if in_i32 s then judge_eq (if off_ok s then VSome (VInt s) else VNone) out else JSkip
    | _ => JSkip end
  else if op_is op "z.west" then
    match args with
    | [VInt s] => if in_i32 s then judge_eq (if off_ok s then VSome (VInt (- s)) else VNone) out else JSkip
    | _ => JSkip end
  else if op_is op "z.fromlocal" then
    match args with
    | [o; n] => match off_of_arg o, naive_of_arg n with
                | Some off, Some (l, f) => judge_eq (exp_mlt_z (l - off) f off) out
                | _, _ => JSkip end
    | _ => JSkip end
  else if op_is op "z.fromutc" then
    match args with
    | [o; n] => match off_of_arg o, naive_of_arg n with
                | Some off, Some (u, f) => judge_eq (enc_z u f off) out
                | _, _ => JSkip end
    | _ => JSkip end
  else if op_is op "z.nutc" then z_1 (fun u f _ => enc_naive u f) args out
  else if op_is op "z.show" then
    (* formatting acts on the wall-clock reading (also in the one-day headroom): the documented
       Display / Debug text of a zone-aware value, as specified for C09 *)
    match args with
    | [v; VInt form] => C09.judge_show 3 form v out
    | _ => JSkip
    end
  else if op_is op "z.nlocal" then
    z_1 (fun u f off => if in_rng (u + off) then enc_naive (u + off) f else VPanic) args out
  else if op_is op "z.acc" then z_1 (fun u f off => exp_acc (u + off) f) args out
  else if op_is op "z.time" then z_1 (fun u f off => VTup [VInt ((u + off) mod DAY); VInt f]) args out
  else if op_is op "z.datenaive" then
    z_1 (fun u f off => if in_rng (u + off)
                        then let '(y, o) := yo_of_dn ((u + off) / DAY) in VTup [VInt y; VInt o]
                        else VPanic) args out
  else if op_is op "z.withtz" then
    match args with
    | [a; o] => match z_of_arg a, off_of_arg o with
                | Some (u, f, _), Some off2 => judge_eq (enc_z u f off2) out
                | _, _ => JSkip end
    | _ => JSkip end
  else if op_is op "z.fixed" then z_1 enc_z args out
  else if op_is op "z.toutc" then z_1 (fun u f _ => enc_z u f 0) args out
  else if op_is op "z.eq" then z_2 (fun a b o => judge_eq (val_of_bool (inst_eqb a b)) o) args out
  else if op_is op "z.cmp" then z_2 (fun a b o => judge_eq (VInt (inst_cmp a b)) o) args out
  else if op_is op "z.hasheq" then
    (* equal instants must hash equally; distinct instants may collide (no claim) *)
    z_2 (fun a b o => if inst_eqb a b then judge_eq (VInt 1) o
                      else judge_either (VInt 0) (VInt 1) o) args out
  else if op_is op "z.with" then
    match args with
    | [VInt field; a; VInt x] =>
        match z_of_arg a with
        | Some (u, f, off) =>
            if (0 <=? field) && (field <=? 10) && (if field =? 0 then in_i32 x else in_u32 x) then
              match replace_field field (u + off) f x with
              | Some (w', f') => moved VSome VNone u off w' f' out
              | None => judge_eq VNone out
              end
            else JSkip
        | None => JSkip end
    | _ => JSkip end
  else if op_is op "z.withtime" then
    match args with
    | [a; t] => match z_of_arg a, time_of_arg t with
                | Some (u, _, off), Some (s, f') =>
                    moved (fun v => VTup [v]) (VTup []) u off ((u + off) / DAY * DAY + s) f' out
                | _, _ => JSkip end
    | _ => JSkip end
  else if op_is op "z.days" then
    match args with
    | [a; VInt sign; VInt n] =>
        match z_of_arg a with
        | Some (u, f, off) =>
            if ((sign =? 1) || (sign =? -1)) && in_u64 n
            then moved VSome VNone u off (u + off + sign * n * DAY) f out
            else JSkip
        | None => JSkip end
    | _ => JSkip end
  else if op_is op "z.months" then
    match args with
    | [a; VInt sign; VInt n] =>
        match z_of_arg a with
        | Some (u, f, off) =>
            if ((sign =? 1) || (sign =? -1)) && in_u32 n then
              let w := u + off in
              let '(y, m, d) := ymd_of_dn (w / DAY) in
              let tot := y * 12 + (m - 1) + sign * n in
              let y' := tot / 12 in let m' := tot mod 12 + 1 in
              let d' := Z.min d (days_in_month (is_leap y') m') in
              moved VSome VNone u off (dn_of_ymd y' m' d' * DAY + w mod DAY) f out
            else JSkip
        | None => JSkip end
    | _ => JSkip end
  else if op_is op "z.ymdhms" then
    match args with
    | [o; VInt y; VInt m; VInt d; VInt h; VInt mi; VInt s] =>
        match off_of_arg o with
        | Some off =>
            if in_i32 y && in_u32 m && in_u32 d && in_u32 h && in_u32 mi && in_u32 s then
              if valid_ymd y m d && (h <? 24) && (mi <? 60) && (s <? 60) then
                let u := dn_of_ymd y m d * DAY + h * 3600 + mi * 60 + s - off in
                if year_in_range y then judge_eq (exp_mlt_z u 0 off) out
                else (* a wall-clock date outside the nominal range is not a supported input;
                        rejecting it is accepted, building the exact instant as well *)
                     judge_either (VTup []) (exp_mlt_z u 0 off) out
              else judge_eq (VTup []) out
            else JSkip
        | None => JSkip end
    | _ => JSkip end
  else if op_is op "z.opmonths" then
    (* the operator form: the value of the checked form, PANIC where that reports nothing *)
    match args with
    | [a; VInt sign; VInt n] =>
        match z_of_arg a with
        | Some (u, f, off) =>
            if ((sign =? 1) || (sign =? -1)) && in_u32 n then
              let w := u + off in
              let '(y, m, d) := ymd_of_dn (w / DAY) in
              let tot := y * 12 + (m - 1) + sign * n in
              let y' := tot / 12 in let m' := tot mod 12 + 1 in
              let d' := Z.min d (days_in_month (is_leap y') m') in
              moved (fun v => v) VPanic u off (dn_of_ymd y' m' d' * DAY + w mod DAY) f out
            else JSkip
        | None => JSkip end
    | _ => JSkip end
  else if op_is op "z.opdays" then
    (* the operator form of day stepping: the wall-clock date moves by n days, time of day (a leap
       fraction included) kept; the value of the checked form, PANIC where that reports nothing *)
    match args with
    | [a; VInt sign; VInt n] =>
        match z_of_arg a with
        | Some (u, f, off) =>
            if ((sign =? 1) || (sign =? -1)) && in_u64 n
            then moved (fun v => v) VPanic u off (u + off + sign * n * DAY) f out
            else JSkip
        | None => JSkip end
    | _ => JSkip end
  else if op_is op "z.conv" then z_1 (fun u f _ => VTup [enc_z u f 0; enc_z u f 0]) args out
  else if op_is op "z.pcmp" then z_2 (fun a b o => judge_eq (exp_pcmp a b) o) args out
  else if op_is op "z.uml" then
    match args with
    | [VInt s] => if off_ok s then judge_eq (VTup [VInt (- s); VInt s]) out else JSkip
    | _ => JSkip end
  else if op_is op "z.prov" then z_1 (fun u _ off => exp_prov (u + off)) args out
  else if op_is op "z.peast" then
    match args with
    | [VInt s] => if in_i32 s then judge_eq (if off_ok s then VInt s else VPanic) out else JSkip
    | _ => JSkip end
  else if op_is op "z.pwest" then
    match args with
    | [VInt s] => if in_i32 s then judge_eq (if off_ok s then VInt (- s) else VPanic) out else JSkip
    | _ => JSkip end
  else if op_is op "z.mk" then
    match args with
    | [o; n] => match off_of_arg o, naive_of_arg n with
                | Some off, Some (u, f) => judge_eq (VTup [enc_z u f off; VInt off; enc_z u f off]) out
                | _, _ => JSkip end
    | _ => JSkip end
  else if op_is op "z.pfromlocal" then
    (* the panicking construction from a wall-clock reading: the instant is the reading minus the
       offset; PANIC exactly when that instant is outside the supported range *)
    match args with
    | [o; n] => match off_of_arg o, naive_of_arg n with
                | Some off, Some (l, f) => judge_eq (if in_rng (l - off) then enc_z (l - off) f off else VPanic) out
                | _, _ => JSkip end
    | _ => JSkip end
  else JSkip.
