(** C18 — executable statement of the property, written from its text:

    "The local zone is chosen from the process environment: with TZ unset, the system's
     /etc/localtime; with TZ naming a file (optionally prefixed by a colon, absolute or relative to
     the system zoneinfo directories), that TZif file; with TZ holding a POSIX rule, that rule; with TZ
     empty, UTC; and if the named source cannot be read or parsed, the system zone and finally UTC.
     A change of TZ is honoured by every conversion made at least one second later on the same
     thread and immediately on a new thread, and no single conversion mixes two zones."

    Input: the description of the machine (which paths hold which fixed-offset zone, which strings
    are POSIX rules and their offset), the history, the clock readings measured around every step
    and the offsets the implementation answered.  For every conversion the set of zones the text
    allows is computed and the observed offset must belong to it:
      - the zone of the current value of TZ is always allowed;
      - the zone of an earlier value is allowed only if that value was replaced after the first
        conversion of the running thread (a new thread honours changes immediately) and the
        conversion was not made at least one second (of elapsed, i.e. monotonic, time) after the
        replacement.
    Where the text leaves the reading of a value open (a colon followed by something that is not a
    file, blanks around a rule, a name present in several directories) every reading is allowed.
    [JSkip]: the measured gap between two conversions is too close to one second to tell on which
    side it fell (the quantifier says "wait < 1 s or >= 1 s"), or the arguments are malformed.
    Nothing is imported from the model. *)
From Coq Require Import ZArith List Bool String.
From V Require Import Base.Int Base.IO.
Import ListNotations.
Open Scope Z_scope.

Definition G : Z := 1000000000.

Definition zoneinfo_dirs : list bytes :=
  [B"/usr/share/zoneinfo"; B"/share/zoneinfo"; B"/etc/zoneinfo"; B"/usr/share/lib/zoneinfo"].

Fixpoint jassoc {A} (k : bytes) (l : list (bytes * A)) : option A :=
  match l with [] => None | (k', v) :: r => if bytes_eqb k k' then Some v else jassoc k r end.

(** A zone of the machine description: a fixed offset, or [JStep o1 (y, ord, secs) o2]: offset o1
    before the instant (y, ord, secs) UTC and the larger offset o2 from then on. *)
Inductive jzone := JFixed (off : Z) | JStep (o1 : Z) (y ord secs : Z) (o2 : Z).
Record machine := { m_files : list (bytes * option jzone); m_rules : list (bytes * Z); m_iana : option bytes }.

Definition before3 (a b : Z * Z * Z) : bool :=     (* lexicographic < on (year, ordinal, second of day) *)
  let '(y1, o1, s1) := a in let '(y2, o2, s2) := b in
  if y1 =? y2 then (if o1 =? o2 then s1 <? s2 else o1 <? o2) else y1 <? y2.
Definition same3 (a b : Z * Z * Z) : bool :=
  let '(y1, o1, s1) := a in let '(y2, o2, s2) := b in (y1 =? y2) && (o1 =? o2) && (s1 =? s2).

(** The answers a zone may give for one conversion.  Instant -> offset in force at that instant.
    Wall-clock time -> the offsets under which some instant shows that wall-clock time: with a
    forward step the readings from T+o1 up to (not including) T+o2 do not occur; at the first
    skipped second itself either answer is accepted (boundary second). *)
Definition zone_answers (z : jzone) (local : bool) (d : Z * Z * Z) : list val :=
  match z with
  | JFixed off => if local then [VTup [VInt off]] else [VInt off]
  | JStep o1 y ord secs o2 =>
      if local then
        if before3 d (y, ord, secs + o1) then [VTup [VInt o1]]
        else if same3 d (y, ord, secs + o1) then [VTup [VInt o1]; VTup []]
        else if before3 d (y, ord, secs + o2) then [VTup []]
        else [VTup [VInt o2]]
      else if before3 d (y, ord, secs) then [VInt o1] else [VInt o2]
  end.

Definition blank (c : Z) : bool := (c =? 32) || ((9 <=? c) && (c <=? 13)).
Fixpoint drop_blanks (s : bytes) : bytes :=
  match s with c :: r => if blank c then drop_blanks r else s | [] => [] end.
Definition strip (s : bytes) : bytes := rev (drop_blanks (rev (drop_blanks s))).

Definition opt_list {A} (o : option A) : list A := match o with Some a => [a] | None => [] end.

(* "the system zone and finally UTC" *)
Definition system_zone (m : machine) : list jzone :=
  let a := match jassoc B"/etc/localtime" (m_files m) with Some (Some z) => [z] | _ => [] end in
  let b := match m_iana m with
           | Some n => match jassoc (B"/usr/share/zoneinfo/" ++ n) (m_files m) with Some (Some z) => [z] | _ => [] end
           | None => [] end in
  match a ++ b with [] => [JFixed 0] | l => l end.

(* the zones the first sentence allows for a value of TZ *)
Definition zones_for (m : machine) (v : option bytes) : list jzone :=
  match v with
  | None => match jassoc B"/etc/localtime" (m_files m) with Some (Some z) => [z] | _ => system_zone m end
  | Some [] => [JFixed 0]
  | Some s =>
      let colon := match s with 58 :: _ => true | _ => false end in
      let name := match s with 58 :: r => r | _ => s end in
      let hits := match name with
                  | 47 :: _ => opt_list (jassoc name (m_files m))
                  | _ => flat_map (fun d => opt_list (jassoc (d ++ 47 :: name) (m_files m))) zoneinfo_dirs
                  end in
      match hits with
      | _ :: _ => flat_map (fun h => match h with Some z => [z] | None => system_zone m end) hits
      | [] =>
          match (if colon then None else jassoc s (m_rules m)) with
          | Some z => [JFixed z]
          | None => match jassoc (strip name) (m_rules m) with
                    | Some z => JFixed z :: system_zone m
                    | None => system_zone m
                    end
          end
      end
  end.

Definition mem_val (v : val) (l : list val) : bool := existsb (val_eqb v) l.

(* steps: 0 set, 1 unset, 3 conversion (direction), 4 spawn, 5 join; 2/6/7 only move clocks *)
Inductive jstep := JSet (v : bytes) | JUnset | JConv (local : bool) (d : Z * Z * Z) | JSpawn | JJoin | JOther.
Definition jdec_step (v : val) : option jstep :=
  match v with
  | VTup [VInt 0; VStr b] => Some (JSet b)
  | VTup [VInt 1] => Some JUnset
  | VTup [VInt 2; VInt _] => Some JOther
  | VTup [VInt 3; VInt d; VTup [VInt y; VInt o; VInt sec; VInt _]] =>
      if d =? 0 then Some (JConv false (y, o, sec)) else if d =? 1 then Some (JConv true (y, o, sec)) else None
  | VTup [VInt 4] => Some JSpawn
  | VTup [VInt 5] => Some JJoin
  | VTup [VInt 6; VInt ms] => if 0 <=? ms then Some JOther else None
  | VTup [VInt 7; VInt _] => Some JOther
  | _ => None
  end.

Record reading := { r_w0 : Z; r_m0 : Z; r_w1 : Z; r_m1 : Z }.
Definition jdec_time (v : val) : option reading :=
  match v with
  | VTup [VInt w0; VInt m0; VInt w1; VInt m1] => Some {| r_w0 := w0; r_m0 := m0; r_w1 := w1; r_m1 := m1 |}
  | _ => None
  end.
Fixpoint jdec_zip (steps times : list val) : option (list (jstep * reading)) :=
  match steps, times with
  | [], [] => Some []
  | s :: rs, t :: rt =>
      match jdec_step s, jdec_time t, jdec_zip rs rt with
      | Some a, Some b, Some l => Some ((a, b) :: l)
      | _, _, _ => None
      end
  | _, _ => None
  end.

Definition jdec_zone (v : val) : option (option jzone) :=
  match v with
  | VNone => Some None
  | VSome (VInt z) => Some (Some (JFixed z))
  | VSome (VTup [VInt o1; VInt y; VInt ord; VInt secs; VInt o2]) =>
      if (o1 <? o2) && (0 <=? secs + o1) && (secs + o2 <? 86400) then Some (Some (JStep o1 y ord secs o2)) else None
  | _ => None
  end.
Fixpoint jdec_files (l : list val) : option (list (bytes * option jzone)) :=
  match l with
  | [] => Some []
  | VTup [VStr p; z] :: r =>
      match jdec_zone z, jdec_files r with Some e, Some t => Some ((p, e) :: t) | _, _ => None end
  | _ => None
  end.
Fixpoint jdec_rules (l : list val) : option (list (bytes * Z)) :=
  match l with
  | [] => Some []
  | VTup [VStr p; VInt z] :: r => match jdec_rules r with Some t => Some ((p, z) :: t) | None => None end
  | _ => None
  end.
Definition jdec_machine (v : val) : option machine :=
  match v with
  | VTup [VTup f; VTup r; i] =>
      match jdec_files f, jdec_rules r with
      | Some f', Some r' =>
          match i with
          | VNone => Some {| m_files := f'; m_rules := r'; m_iana := None |}
          | VSome (VStr n) => Some {| m_files := f'; m_rules := r'; m_iana := Some n |}
          | _ => None
          end
      | _, _ => None
      end
  | _ => None
  end.

(** Is it measurable on which side of one second the gap between two conversions fell?
    (earlier conversion read its clock within [a0,a1], the later one within [b0,b1]) *)
Definition gap_decided (a0 a1 b0 b1 : Z) : bool :=
  ((0 <=? b0 - a1) && (b1 - a0 <? G)) || (b1 - a0 <? 0) || (G <=? b0 - a1).
Fixpoint later_decided (a : reading) (l : list (jstep * reading)) : bool :=
  match l with
  | [] => true
  | (JConv _ _, b) :: r =>
      gap_decided (r_w0 a) (r_w1 a) (r_w0 b) (r_w1 b) && gap_decided (r_m0 a) (r_m1 a) (r_m0 b) (r_m1 b)
      && later_decided a r
  | _ :: r => later_decided a r
  end.
Fixpoint all_decided (l : list (jstep * reading)) : bool :=
  match l with
  | [] => true
  | (JConv _ _, a) :: r => later_decided a r && all_decided r
  | _ :: r => all_decided r
  end.

(** The walk.  [ended]: earlier values of TZ with the index and the (monotonic, after-the-call)
    time of the step that replaced them.  [first]: index of the first conversion of the running
    thread, if it has made one.  [stack]: the same for the threads waiting in a join. *)
Fixpoint walk (m : machine) (l : list (jstep * reading)) (idx : Z) (cur : option bytes)
              (ended : list (option bytes * Z * Z)) (first : option Z) (stack : list (option Z))
              (outs : list val) : verdict :=
  match l with
  | [] => match outs with [] => JOk | _ => JBad B"more-answers-than-conversions" end
  | (s, t) :: r =>
      match s with
      | JSet v => walk m r (idx + 1) (Some v) ((cur, idx, r_m1 t) :: ended) first stack outs
      | JUnset => walk m r (idx + 1) None ((cur, idx, r_m1 t) :: ended) first stack outs
      | JOther => walk m r (idx + 1) cur ended first stack outs
      | JSpawn => walk m r (idx + 1) cur ended None (first :: stack) outs
      | JJoin =>
          match stack with
          | p :: rest => walk m r (idx + 1) cur ended p rest outs
          | [] => walk m r (idx + 1) cur ended first stack outs
          end
      | JConv local d =>
          let olds :=
            match first with
            | None => []
            | Some fi =>
                flat_map (fun '(v, e, m1) =>
                            if (fi <? e) && negb (G <=? r_m0 t - m1) then zones_for m v else []) ended
            end in
          let allowed := flat_map (fun z => zone_answers z local d) (zones_for m cur ++ olds) in
          match outs with
          | [] => JBad B"fewer-answers-than-conversions"
          | o :: outs' =>
              if mem_val o allowed
              then walk m r (idx + 1) cur ended (match first with None => Some idx | f => f end) stack outs'
              else JBad (B"conversion-" ++ dec_of_Z idx ++ B"-answered-" ++ print_val o
                         ++ B"-allowed-" ++ sep_concat B"/" (map print_val allowed))
          end
      end
  end.

Definition judge (op : bytes) (args : list val) (out : val) : verdict :=
  if op_is op "lc.history" then
    match args with
    | [VTup steps; w; VTup times] =>
        match jdec_machine w, jdec_zip steps times with
        | Some m, Some l =>
            match out with
            | VErr e => if bytes_eqb e B"BADARGS" then JSkip else JBad (B"error-" ++ e)
            | VTup outs => if all_decided l then walk m l 0 None [] None [] outs else JSkip
            | _ => JBad B"no-answers"
            end
        | _, _ => JSkip
        end
    | _ => JSkip
    end
  else JSkip.
