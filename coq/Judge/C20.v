(** C20 -- executable statement of the property "serialized forms deserialize to the same value",
    written from the property text and the calendar / instant mathematics of Spec/Gregorian.v only;
    nothing is imported from the model or the generated data.

    Readings fixed here (DESIGN.md section 5.0 and the property text):
    - sd.rt fmt ty v -> (payload, result): [result] must be the original value.  For the naive types,
      the duration, weekday and month: equal.  For a zone-aware date-time: the same instant
      (nanoseconds since the epoch of the UTC reading, a leap-second field counted as its excess over
      the second, as Spec/Gregorian.v [unix_nanos] does) for EVERY offset; the same offset when the
      target keeps one (DateTime<FixedOffset>) and the offset is a whole number of minutes; UTC targets
      report offset 0.  Where the value's leap second sits on second 59 (or there is none) and the
      offset is whole minutes, the fields themselves must be equal ("the original value").
      The payload is not judged (the property does not fix the serialized text of the string forms).
      A result that is no pair (serializer error, panic) is a violation.
    - sd.ts m fmt v -> (written, read back): [written] = floor(instant / unit) -- the exact timestamp --
      and [read back] = the date-time at [written * unit] (the same instant at the module's precision);
      leap-second values are excepted (skip); a value whose count does not fit the i64 the module
      writes must be refused with an error (not a panic, not a wrong number); none <-> none.
    - sd.tsread m fmt kind n: Ok(the date-time at instant n * unit) iff that instant is representable
      (years -262143 ..= 262142), an error (never a panic) otherwise; for every i64 (kind 0) / u64 (kind 1).
    - sd.tsnone: none / unit read back as None.
    - sd.tdread fmt secs nanos: Ok((secs, nanos)) iff 0 <= nanos < 10^9 and |secs * 10^9 + nanos| <=
      i64::MAX milliseconds (the documented range of TimeDelta), an error otherwise.
    - sd.read: arbitrary strings -- the property does not speak about them (skip). *)
From Coq Require Import ZArith List Bool String.
From V Require Import Base.Int Base.IO Spec.Gregorian.
Import ListNotations.
Open Scope Z_scope.

Definition G := 1000000000.
Definition valid_date (y o : Z) : bool := year_in_range y && valid_yo y o.
Definition valid_time (s f : Z) : bool := (0 <=? s) && (s <? 86400) && (0 <=? f) && (f <? 2 * G).
Definition valid_offset (off : Z) : bool := (-86400 <? off) && (off <? 86400).
(* a leap-second field only on second 59 *)
Definition plain_leap (s f : Z) : bool := (f <? G) || (s mod 60 =? 59).
Definition ns_in_range (t : Z) : bool := (NS_MIN <=? t) && (t <=? NS_MAX).
Definition TD_LIMIT := Eval compute in i64_max * 1000000.

Definition is_badargs (out : val) : bool :=
  match out with VErr s => bytes_eqb s B"BADARGS" | _ => false end.
Definition is_err (out : val) : bool := match out with VErr _ => true | _ => false end.

(* naive date-time (y, o, s, f) -> (day number, s, f) *)
Definition dec_ndt (v : val) : option (Z * Z * Z) :=
  match v with
  | VTup [VInt y; VInt o; VInt s; VInt f] =>
      if valid_date y o && valid_time s f then Some (dn_of_yo y o, s, f) else None
  | _ => None
  end.
(* zone-aware (y, o, s, f, off) -> (instant, offset, leap second only on second 59) *)
Definition dec_dt (v : val) : option (Z * Z * bool) :=
  match v with
  | VTup [VInt y; VInt o; VInt s; VInt f; VInt off] =>
      if valid_date y o && valid_time s f && valid_offset off
      then Some (unix_nanos (dn_of_yo y o) s f, off, plain_leap s f) else None
  | _ => None
  end.

(** ** sd.rt *)
Definition result_of (out : val) : option val :=
  match out with VTup [_; r] => Some r | _ => None end.
Definition j_same (v out : val) : verdict :=
  match result_of out with
  | Some r => judge_eq v r
  | None => JBad B"no-value-came-back"
  end.
(* keep: the target type keeps the offset; utc: the target reports offset 0; neither: instant only *)
Definition j_zoned (keep utc : bool) (v out : val) : verdict :=
  match dec_dt v with
  | None => JSkip
  | Some (t, off, plain) =>
    match result_of out with
    | None => JBad B"no-value-came-back"
    | Some r =>
      match dec_dt r with
      | None => JBad B"result-is-not-a-date-time"
      | Some (t', off', _) =>
        if negb (t' =? t) then JBad (B"different-instant:expected=" ++ dec_of_Z t ++ B":got=" ++ dec_of_Z t')
        else if keep && (off mod 60 =? 0) && negb (off' =? off) then JBad B"offset-not-kept"
        else if utc && negb (off' =? 0) then JBad B"utc-target-with-an-offset"
        else if plain && (off mod 60 =? 0) then
          (* nothing in the way of the value itself: the UTC fields must be the original ones *)
          match v, r with
          | VTup [y; o; s; f; _], VTup [y'; o'; s'; f'; _] =>
              if val_eqb (VTup [y; o; s; f]) (VTup [y'; o'; s'; f']) then JOk
              else JBad B"same-instant-but-different-fields"
          | _, _ => JBad B"result-is-not-a-date-time"
          end
        else JOk
      end
    end
  end.

Definition j_rt (ty : Z) (v out : val) : verdict :=
  if ty =? 0 then
    match v with VTup [VInt y; VInt o] => if valid_date y o then j_same v out else JSkip | _ => JSkip end
  else if ty =? 1 then
    match v with VTup [VInt s; VInt f] => if valid_time s f then j_same v out else JSkip | _ => JSkip end
  else if ty =? 2 then
    match dec_ndt v with Some _ => j_same v out | None => JSkip end
  else if ty =? 3 then j_zoned true false v out
  else if ty =? 4 then
    match v with
    | VTup [_; _; _; _; VInt off] => if off =? 0 then j_zoned true true v out else JSkip
    | _ => JSkip end
  else if ty =? 5 then
    match v with
    | VTup [VInt secs; VInt nanos] =>
        if (0 <=? nanos) && (nanos <? G) && (- TD_LIMIT <=? secs * G + nanos) && (secs * G + nanos <=? TD_LIMIT)
        then j_same v out else JSkip
    | _ => JSkip end
  else if ty =? 6 then
    match v with VInt w => if (0 <=? w) && (w <=? 6) then j_same v out else JSkip | _ => JSkip end
  else if ty =? 7 then
    match v with VInt m => if (1 <=? m) && (m <=? 12) then j_same v out else JSkip | _ => JSkip end
  else if ty =? 8 then j_zoned false true v out
  else if ty =? 9 then j_zoned false false v out
  else JSkip.

(** ** the timestamp helper modules *)
(* nanoseconds per unit of module m *)
Definition unit_of (m : Z) : Z :=
  let u := (m mod 8) / 2 in
  if u =? 0 then G else if u =? 1 then 1000000 else if u =? 2 then 1000 else 1.
Definition is_opt (m : Z) : bool := m mod 2 =? 1.
Definition mod_ok (m : Z) : bool := (0 <=? m) && (m <=? 15).

Definition j_ts_value (m : Z) (wrap : val -> val) (x out : val) : verdict :=
  match x with
  | VTup [VInt y; VInt o; VInt s; VInt f] =>
    if valid_date y o && valid_time s f then
      if f <? G then
        let t := unix_nanos (dn_of_yo y o) s f in
        let unit := unit_of m in
        let w := t / unit in
        if in_i64 w then
          judge_eq (VTup [wrap (VInt w); wrap (VTup [VInt y; VInt o; VInt s; VInt (f - f mod unit)])]) out
        else if is_err out then JOk
        else JBad B"count-outside-i64-not-refused-with-an-error"
      else JSkip   (* leap seconds excepted *)
    else JSkip
  | _ => JSkip
  end.
Definition j_ts (m : Z) (v out : val) : verdict :=
  if is_opt m then
    match v with
    | VNone => judge_eq (VTup [VNone; VNone]) out
    | VSome x => j_ts_value m VSome x out
    | _ => JSkip
    end
  else j_ts_value m (fun x => x) v out.

Definition j_tsread (m kind n : Z) (out : val) : verdict :=
  if ((kind =? 0) && in_i64 n) || ((kind =? 1) && in_u64 n) then
    let t := n * unit_of m in
    if ns_in_range t then
      let r := if is_opt m then match out with VSome r => Some r | _ => None end else Some out in
      match r with
      | Some r =>
        match dec_ndt r with
        | Some (dn, s, f) =>
            if (f <? G) && (unix_nanos dn s f =? t) then JOk
            else JBad (B"not-the-date-time-at-instant=" ++ dec_of_Z t)
        | None => JBad B"representable-timestamp-refused-or-result-of-unexpected-shape"
        end
      | None => JBad B"representable-timestamp-refused-or-result-of-unexpected-shape"
      end
    else if is_err out then JOk
    else JBad B"unrepresentable-timestamp-not-refused-with-an-error"
  else JSkip.

Definition j_tdread (secs nanos : Z) (out : val) : verdict :=
  if in_i64 secs && in_i32 nanos then
    if (0 <=? nanos) && (nanos <? G) && (- TD_LIMIT <=? secs * G + nanos) && (secs * G + nanos <=? TD_LIMIT)
    then judge_eq (VTup [VInt secs; VInt nanos]) out
    else if is_err out then JOk
    else JBad B"out-of-range-pair-not-refused-with-an-error"
  else JSkip.

Definition judge (op : bytes) (args : list val) (out : val) : verdict :=
  if is_badargs out then JSkip
  else if op_is op "sd.rt" then
    match args with
    | [VInt fmt; VInt ty; v] => if (fmt =? 0) || (fmt =? 1) then j_rt ty v out else JSkip
    | _ => JSkip end
  else if op_is op "sd.ts" then
    match args with
    | [VInt m; VInt fmt; v] => if mod_ok m && ((fmt =? 0) || (fmt =? 1)) then j_ts m v out else JSkip
    | _ => JSkip end
  else if op_is op "sd.tsread" then
    match args with
    | [VInt m; VInt fmt; VInt kind; VInt n] =>
        if mod_ok m && (0 <=? fmt) && (fmt <=? 2) then j_tsread m kind n out else JSkip
    | _ => JSkip end
  else if op_is op "sd.tsnone" then
    match args with
    | [VInt m; VInt fmt; VInt kind] =>
        if mod_ok m && is_opt m && (0 <=? fmt) && (fmt <=? 2) && ((kind =? 0) || (kind =? 1))
        then judge_eq VNone out else JSkip
    | _ => JSkip end
  else if op_is op "sd.tdread" then
    match args with
    | [VInt fmt; VInt secs; VInt nanos] => if (fmt =? 0) || (fmt =? 1) then j_tdread secs nanos out else JSkip
    | _ => JSkip end
  else JSkip.
