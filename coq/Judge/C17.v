(** C17 — executable statement of the property "rounding and truncation land on the right
    multiple", written from the property text and plain mathematics (Spec/Gregorian.v gives the
    nanosecond count of a wall-clock reading).  Nothing is imported from the model or from the
    generated constants.

    Reading fixed here:
    * s = nanoseconds since 1970-01-01T00:00:00 of the wall-clock reading (for a zone-aware value:
      UTC reading + offset), k = the span in ns.
      trunc = k*floor(s/k), round_up = k*ceil(s/k), round = the nearer of the two, ties up.
    * failure: Err(DurationExceedsLimit) iff k <= 0 or k > i64::MAX; Err(TimestampExceedsLimit) iff
      s is not an i64; when both hold either error is accepted; nothing else fails.
    * leap-second readings (nanosecond field >= 10^9) are outside the domain of the span operations
      (skip).  For the sub-second operations the leap second is a second of its own (pinned by
      test_round_leap_nanos / test_trunc_leap_nanos): its fraction f - 10^9 is rounded within it
      and a carry leaves it for the next ordinary second.
    * sub-second: N digits keep multiples of 10^(9-min(9,N)) ns of the fraction. *)
From Coq Require Import ZArith List Bool String.
From V Require Import Base.Int Base.IO Spec.Gregorian.
Import ListNotations.
Open Scope Z_scope.

Definition G := 1000000000.
Definition TD_RMAX := 9223372036854775807000000.      (* TimeDelta::MAX in ns: (2^63-1) ms *)

(** ** arguments *)
(* a span argument (secs, nanos) and its nanosecond count *)
Definition span_of (v : val) : option Z :=
  match v with
  | VTup [VInt s; VInt n] =>
      let k := s * G + n in
      if (0 <=? n) && (n <? G) && (- TD_RMAX <=? k) && (k <=? TD_RMAX) then Some k else None
  | _ => None
  end.
Definition valid_date (y o : Z) : bool := year_in_range y && valid_yo y o.
(* (day number, second of day, nanosecond field) of a naive date-time argument *)
Definition ndt_of (y o s f : val) : option (Z * Z * Z) :=
  match y, o, s, f with
  | VInt y, VInt o, VInt s, VInt f =>
      if valid_date y o && (0 <=? s) && (s <? 86400) && (0 <=? f) && (f <? 2 * G)
      then Some (dn_of_yo y o, s, f) else None
  | _, _, _, _ => None
  end.
Definition offset_of (v : val) : option Z :=
  match v with VInt off => if (-86400 <? off) && (off <? 86400) then Some off else None | _ => None end.

(** ** results *)
(* canonical (year, ordinal, secs, frac) fields of an instant given in ns since the epoch *)
Definition fields_of_instant (t : Z) : list val :=
  let '(y, o) := yo_of_dn (dn_of_nanos t) in
  [VInt y; VInt o; VInt (sod_of_nanos t); VInt (frac_of_nanos t)].
Definition representable (t : Z) : bool := (NS_MIN <=? t) && (t <=? NS_MAX).

(** ** the three multiples *)
Definition m_trunc (s k : Z) : Z := k * (s / k).
Definition m_up (s k : Z) : Z := k * - ((- s) / k).
Definition m_round (s k : Z) : Z :=
  let lo := m_trunc s k in
  let d := s - lo in
  if d =? 0 then s else if k - d <=? d then lo + k else lo.

Definition E_DUR : val := VErr B"DurationExceedsLimit".
Definition E_TS : val := VErr B"TimestampExceedsLimit".

(* [w]: wall-clock stamp, [k]: span, [enc]: encoding of a wall-clock result stamp (None: not representable) *)
Definition judge_span (f : Z -> Z -> Z) (w k : Z) (enc : Z -> option val) (out : val) : verdict :=
  let span_bad := (k <=? 0) || (i64_max <? k) in
  let stamp_bad := negb (in_i64 w) in
  if span_bad && stamp_bad then
    (if val_eqb out E_DUR || val_eqb out E_TS then JOk else JBad B"expected=err:DurationExceedsLimit|err:TimestampExceedsLimit")
  else if span_bad then judge_eq E_DUR out
  else if stamp_bad then judge_eq E_TS out
  else match enc (f w k) with
       | Some e => judge_eq e out
       | None => JSkip
       end.

Definition judge_naive (f : Z -> Z -> Z) (args : list val) (out : val) : verdict :=
  match args with
  | [VTup [y; o; s; fr]; d] =>
      match ndt_of y o s fr, span_of d with
      | Some (dn, sod, frac), Some k =>
          if G <=? frac then JSkip else
          judge_span f (unix_nanos dn sod frac) k
            (fun r => if representable r then Some (VTup (fields_of_instant r)) else None) out
      | _, _ => JSkip
      end
  | _ => JSkip
  end.

Definition judge_zoned (f : Z -> Z -> Z) (args : list val) (out : val) : verdict :=
  match args with
  | [VTup [y; o; s; fr; off]; d] =>
      match ndt_of y o s fr, offset_of off, span_of d with
      | Some (dn, sod, frac), Some off, Some k =>
          if G <=? frac then JSkip else
          judge_span f (unix_nanos dn sod frac + off * G) k
            (fun r => let u := r - off * G in
                      if representable u then Some (VTup (fields_of_instant u ++ [VInt off])) else None) out
      | _, _, _ => JSkip
      end
  | _ => JSkip
  end.

(** ** sub-second digits *)
Definition sub_span (digits : Z) : Z := 10 ^ (9 - Z.min 9 digits).
(* new fraction within the second and whether the value moves to the next second *)
Definition sub_frac (round : bool) (digits f : Z) : Z * bool :=
  let span := sub_span digits in
  let d := f mod span in
  let lo := f - d in
  if round && negb (d =? 0) && (span - d <=? d) then
    (if lo + span =? G then (0, true) else (lo + span, false))
  else (lo, false).

(* kind 1: time of day (wraps at midnight); kinds 2, 3: (day, second of day), None past the last day *)
Definition judge_sub (round : bool) (args : list val) (out : val) : verdict :=
  match args with
  | [VInt kind; v; VInt digits] =>
      if negb (in_u16 digits) then JSkip else
      let go (dn sod field : Z) (enc : Z -> Z -> Z -> option val) : verdict :=
        let leap := G <=? field in
        let f := if leap then field - G else field in
        let '(f', carry) := sub_frac round digits f in
        let e := if carry then enc dn (sod + 1) 0 else enc dn sod (if leap then f' + G else f') in
        match e with Some e => judge_eq e out | None => JSkip end in
      let date_fields (dn sod : Z) : option (list val) :=
        let '(dn, sod) := if sod =? 86400 then (dn + 1, 0) else (dn, sod) in
        if dn_in_range dn then let '(y, o) := yo_of_dn dn in Some [VInt y; VInt o; VInt sod] else None in
      if kind =? 1 then
        match v with
        | VTup [VInt s; VInt fr] =>
            if (0 <=? s) && (s <? 86400) && (0 <=? fr) && (fr <? 2 * G) then
              go 0 s fr (fun _ sod f => Some (VTup [VInt (sod mod 86400); VInt f]))
            else JSkip
        | _ => JSkip
        end
      else if kind =? 2 then
        match v with
        | VTup [y; o; s; fr] =>
            match ndt_of y o s fr with
            | Some (dn, sod, field) =>
                go dn sod field (fun dn sod f =>
                  match date_fields dn sod with Some l => Some (VTup (l ++ [VInt f])) | None => None end)
            | None => JSkip
            end
        | _ => JSkip
        end
      else if kind =? 3 then
        match v with
        | VTup [y; o; s; fr; off] =>
            match ndt_of y o s fr, offset_of off with
            | Some (dn, sod, field), Some off =>
                go dn sod field (fun dn sod f =>
                  match date_fields dn sod with Some l => Some (VTup (l ++ [VInt f; VInt off])) | None => None end)
            | _, _ => JSkip
            end
        | _ => JSkip
        end
      else JSkip
  | _ => JSkip
  end.

Definition judge (op : bytes) (args : list val) (out : val) : verdict :=
  if op_is op "rd.trunc" then judge_naive m_trunc args out
  else if op_is op "rd.round" then judge_naive m_round args out
  else if op_is op "rd.up" then judge_naive m_up args out
  else if op_is op "rd.ztrunc" then judge_zoned m_trunc args out
  else if op_is op "rd.zround" then judge_zoned m_round args out
  else if op_is op "rd.zup" then judge_zoned m_up args out
  else if op_is op "rd.rsub" then judge_sub true args out
  else if op_is op "rd.tsub" then judge_sub false args out
  else JSkip.
