(** C15 -- executable statement of "fallible operations fail by value, not by panic or hang",
    written from the property text and the documentation of the public API; nothing is imported
    from the model or from generated data (Base + Spec only).

    The case stream of C15 is the union of all properties' ops plus the [c15.*] ops.  For every
    op the property makes the same three claims about the output of the implementation:

      (1) no trap: the output is not PANIC / TIMEOUT / FUEL, and no such marker occurs inside it
          (an operation that reports failure through its return type must RETURN);
      (2) a returned value is a VALID value of its type (dates: year -262143..262142 with an
          ordinal the year has; times: 0 <= secs < 86400, 0 <= frac < 2*10^9; naive date-times:
          both; zone-aware date-times: naive UTC reading valid -- that is the closed range
          MIN_UTC..MAX_UTC -- and |offset| < 86400; durations: 0 <= nanos < 10^9 and
          |secs*10^9 + nanos| <= (2^63-1)*10^6; offsets: |off| < 86400; text: valid UTF-8);
          a failure value ([none], [err:<Kind>], the empty MappedLocalTime) is always acceptable here:
          WHICH arguments must fail is the business of the owning property's judge, not of C15;
      (3) iterating the items of a format string ends, with at most 13 items per input byte
          (DESIGN 5.0: one consuming step per byte, at most 13 items per step).

    Operations documented to panic (property text: operator arithmetic on overflow, deprecated
    panicking constructors, the wall-clock reading of a date-time whose local time is out of range,
    RFC 2822 rendering of years outside 0..9999, Display of an invalid format) may answer PANIC:
      - [z.nlocal], [z.datenaive]: exactly when the wall clock leaves the NaiveDateTime range;
      - [r2.write], [r2.fmt], [r2.rt]: exactly when the wall-clock year is outside 0..9999;
      - operator forms, deprecated panicking constructors, the panicking NaiveWeek accessors and the
        std conversions: PANIC is outside C15's claim (skip) -- the owners' judges (C02, C03, C06,
        C07, C08) state exactly when those must panic.
    A value they return instead is still checked by (2). *)
From Coq Require Import ZArith List Bool String.
From V Require Import Base.Int Base.IO Base.Utf8 Spec.Gregorian.
Import ListNotations.
Open Scope Z_scope.

(** * (1) no trap, anywhere in the output *)
Fixpoint no_trap (v : val) : bool :=
  match v with
  | VPanic | VTimeout | VFuel => false
  | VSome x => no_trap x
  | VTup l => (fix all (l : list val) : bool := match l with [] => true | x :: r => no_trap x && all r end) l
  | _ => true
  end.

(** * (2) validity of returned values, by result shape *)
Inductive shape :=
| SAny | SInt | SDate | STime | SNdt | SDtz | STd | SOff | SText
| SOpt (s : shape)            (* none | some(v) *)
| SRes (s : shape)            (* err:<Kind> | v *)
| SMlt (s : shape)            (* () | (v) | (v,w) *)
| STup (l : list shape)       (* fixed-length tuple *)
| SItems (len : Z).           (* item list of a format string of [len] bytes: at most 13*len items *)

Definition G := 1000000000.
Definition RMAX := 9223372036854775807000000.
Definition date_ok (y o : Z) : bool := year_in_range y && valid_yo y o.
Definition time_ok (s f : Z) : bool := (0 <=? s) && (s <? 86400) && (0 <=? f) && (f <? 2000000000).
Definition off_ok (off : Z) : bool := (-86400 <? off) && (off <? 86400).
Definition td_ok (s n : Z) : bool := (0 <=? n) && (n <? G) && (- RMAX <=? s * G + n) && (s * G + n <=? RMAX).

Fixpoint valid (sh : shape) (v : val) {struct sh} : bool :=
  match sh with
  | SAny => true
  | SInt => match v with VInt _ => true | _ => false end
  | SDate => match v with VTup [VInt y; VInt o] => date_ok y o | _ => false end
  | STime => match v with VTup [VInt s; VInt f] => time_ok s f | _ => false end
  | SNdt => match v with VTup [VInt y; VInt o; VInt s; VInt f] => date_ok y o && time_ok s f | _ => false end
  | SDtz => match v with
            | VTup [VInt y; VInt o; VInt s; VInt f; VInt off] => date_ok y o && time_ok s f && off_ok off
            | _ => false end
  | STd => match v with VTup [VInt s; VInt n] => td_ok s n | _ => false end
  | SOff => match v with VInt off => off_ok off | _ => false end
  | SText => match v with VStr s => utf8_valid s | _ => false end
  | SOpt s => match v with VNone => true | VSome x => valid s x | _ => false end
  | SRes s => match v with VErr _ => true | _ => valid s v end
  | SMlt s => match v with
              | VTup [] => true
              | VTup [a] => valid s a
              | VTup [a; b] => valid s a && valid s b
              | _ => false end
  | STup l => match v with
              | VTup vs =>
                  (fix go (l : list shape) (vs : list val) : bool :=
                     match l, vs with
                     | [], [] => true
                     | s :: l', x :: vs' => valid s x && go l' vs'
                     | _, _ => false
                     end) l vs
              | _ => false end
  | SItems len => match v with
                  | VTup items => Z.of_nat (List.length items) <=? 13 * len
                  | _ => false end
  end.

(** shape of the value kinds used by the text ops: 0 NaiveDate 1 NaiveTime 2 NaiveDateTime
    3 DateTime<FixedOffset> 4 DateTime<Utc> 5 FixedOffset *)
Definition kind_shape (k : Z) : shape :=
  if k =? 0 then SDate else if k =? 1 then STime else if k =? 2 then SNdt
  else if k =? 3 then SDtz else if k =? 4 then SDtz else if k =? 5 then SOff else SAny.
Definition arg0_kind (args : list val) : shape :=
  match args with VInt k :: _ => kind_shape k | _ => SAny end.
Definition fmt_len (args : list val) : Z :=
  match args with VStr s :: _ => Z.of_nat (List.length s) | _ => 0 end.

Definition any_of (op : bytes) (l : list string) : bool := existsb (op_is op) l.

(** the result shape of an op (from the documentation of the entry point it calls) *)
Definition shape_of (op : bytes) (args : list val) : shape :=
  (* C01 *)
  if any_of op ["d.ymd"; "d.yo"; "d.isoywd"; "d.days"; "d.succ"; "d.pred"]%string then SOpt SDate
  else if any_of op ["d.pymd"; "d.pyo"; "d.pisoywd"; "d.pdays"; "d.psucc"; "d.ppred"; "ar.opdasg"; "d8.pnthwd"]%string then SDate
  else if any_of op ["ar.opnasg"; "ar.stdasg"; "ar.opnoff"; "d8.ndt.opaddm"; "d8.ndt.opsubm";
                     "ndt.phms"; "ndt.phms_milli"; "ndt.phms_micro"; "ndt.phms_nano"]%string then SNdt
  else if any_of op ["ar.noff"; "ndt.twith"]%string then SOpt SNdt
  else if any_of op ["ar.zstdasg"; "ar.opzoff"; "z.opmonths"; "z.opdays"; "z.pfromlocal"]%string then SDtz
  else if any_of op ["ar.opzdiffref"; "td.opaddasg"; "td.opsubasg"; "td.sumv"]%string then STd
  else if any_of op ["t.phms"; "t.phms_milli"; "t.phms_micro"; "t.phms_nano"; "t.pnsfm"]%string then STime
  else if any_of op ["z.peast"; "z.pwest"]%string then SOff
  else if any_of op ["it.dlast"; "it.wlast"]%string then SOpt SDate
  else if any_of op ["it.drev"; "it.wrev"]%string then STup [SOpt SDate; SAny]
  else if op_is op "z.conv" then STup [SDtz; SDtz]
  else if op_is op "z.mk" then STup [SDtz; SOff; SDtz]
  else if op_is op "td.consts" then STup [STd; STd; STd; STd; STd]
  else if any_of op ["td.pweeks"; "td.pdays"; "td.phours"; "td.pminutes"; "td.pseconds"; "td.pmillis"]%string then STd
  else if op_is op "ts.consts" then STup [SDtz; SInt; SNdt; SDtz; SDtz; SNdt; SNdt; SInt; SInt]
  else if op_is op "ts.defaults" then STup [SDate; STime; SNdt; SDtz; SDtz; SInt; SInt]
  (* C02 *)
  else if any_of op ["ts.from"; "ts.fromms"; "ts.fromus"; "ts.naive_opt"; "ts.naive_ms"; "ts.naive_us"; "ts.naive_ns"]%string
  then SOpt SNdt
  else if any_of op ["ts.fromns"; "ts.naive_from"]%string then SNdt
  else if any_of op ["ts.tz"; "ts.tzms"; "ts.tzus"]%string then SMlt SDtz
  else if any_of op ["ts.tzns"; "ts.tzp"; "ts.tzmsp"; "ts.systime"]%string then SDtz
  else if op_is op "ts.back" then STup [SOpt SNdt; SOpt SNdt; SOpt SNdt; SOpt SNdt]
  (* C03 *)
  else if any_of op ["ar.nadd"; "ar.nsub"; "ar.ndays"; "ar.nrt"; "ndt.add"; "ndt.sub"]%string then SOpt SNdt
  else if any_of op ["ar.opnadd"; "ar.opnsub"; "ar.opndays"; "ar.addstd"; "ndt.opadd"; "ndt.opsub"]%string then SNdt
  else if any_of op ["ar.ndiff"; "ar.ddiff"; "ar.zdiff"; "ar.opndiff"; "ar.opddiff"; "ar.opzdiff"; "t.diff"; "t.opdiff"]%string then STd
  else if any_of op ["ar.dadd"; "ar.dsub"; "ar.dadds"; "ar.dsubs"]%string then SOpt SDate
  else if any_of op ["ar.opdadd"; "ar.opdsub"; "ar.opdadds"; "ar.opdsubs"]%string then SDate
  else if any_of op ["ar.zadd"; "ar.zsub"; "ar.zdays"]%string then SOpt SDtz
  else if any_of op ["ar.opzadd"; "ar.opzsub"; "ar.opzaddasg"; "ar.opzsubasg"; "ar.opzdays"; "ar.zaddstd"]%string then SDtz
  else if any_of op ["it.days"; "it.weeks"]%string then STup [SOpt SDate; SAny]
  (* C04 *)
  else if any_of op ["z.east"; "z.west"]%string then SOpt SOff
  else if any_of op ["z.fromlocal"; "z.withtime"; "z.ymdhms"; "c15.ndt.andtz"]%string then SMlt SDtz
  else if any_of op ["z.fromutc"; "z.withtz"; "z.fixed"; "z.toutc"]%string then SDtz
  else if any_of op ["z.nutc"; "z.nlocal"]%string then SNdt
  else if op_is op "z.time" then STime
  else if op_is op "z.datenaive" then SDate
  else if any_of op ["z.with"; "z.days"; "z.months"]%string then SOpt SDtz
  (* C06 *)
  else if any_of op ["td.new"; "td.weeks"; "td.days"; "td.hours"; "td.minutes"; "td.seconds"; "td.millis";
                     "td.add"; "td.sub"; "td.mul"; "td.div"; "td.fromstd"]%string then SOpt STd
  else if any_of op ["td.micros"; "td.nanos"; "td.neg"; "td.abs"; "td.opadd"; "td.opsub"; "td.opmul"; "td.opdiv"; "td.sum"]%string
  then STd
  else if op_is op "td.disp" then SText
  (* C07 *)
  else if any_of op ["t.hms"; "t.hms_milli"; "t.hms_micro"; "t.hms_nano"; "t.nsfm"; "t.with_hour"; "t.with_minute";
                     "t.with_second"; "t.with_nano"]%string then SOpt STime
  else if any_of op ["t.add"; "t.sub"; "t.addoffd"; "t.suboffd"]%string then STup [STime; SInt]
  else if any_of op ["t.opadd"; "t.opsub"; "t.opadd_assign"; "t.opsub_assign"; "t.addstd"; "t.substd"; "t.addstd_assign";
                     "t.substd_assign"; "t.addoff"; "t.suboff"]%string then STime
  (* C08 *)
  else if any_of op ["d8.addm"; "d8.subm"; "d8.with"; "d8.wfirst"; "d8.wlast"; "d8.nthwd"]%string then SOpt SDate
  else if any_of op ["d8.opaddm"; "d8.opsubm"; "d8.wfirstp"; "d8.wlastp"]%string then SDate
  else if op_is op "d8.week" then SOpt (STup [SDate; SDate])
  else if op_is op "d8.wdaysp" then STup [SDate; SDate]
  else if any_of op ["d8.ndt.addm"; "d8.ndt.subm"; "d8.ndt.with"; "c15.d.hms"; "c15.d.hmsm"; "c15.d.hmsu"; "c15.d.hmsn";
                     "c15.ndt.addoff"; "c15.ndt.suboff"; "c15.ndt.witht"]%string then SOpt SNdt
  else if any_of op ["d8.years"; "d8.dtyears"; "d8.mdays"]%string then SOpt SInt
  (* C09 *)
  else if op_is op "tx.show" then SText
  else if any_of op ["tx.parse"; "tx.rt"]%string then SRes (arg0_kind args)
  (* C10, C11 *)
  else if any_of op ["r3.parse"; "r3.rt"; "r2.parse"; "r2.rt"]%string then SRes SDtz
  else if any_of op ["r3.write"; "r3.show"; "r2.write"; "r2.fmt"]%string then SText
  (* C12 *)
  else if op_is op "sf.items" then SItems (fmt_len args)
  else if any_of op ["sf.fmt"; "sf.fmtl"; "fp.fmt"; "c15.writeto"]%string then SRes SText
  (* C13 *)
  else if any_of op ["fp.rt"; "fp.rtx"; "fp.irt"]%string then SRes (arg0_kind args)
  else if any_of op ["fp.parse"; "fp.iparse"]%string then SRes (STup [arg0_kind args; SRes (arg0_kind args)])
  else if any_of op ["fp.rem"; "c15.rem"]%string then SRes (STup [arg0_kind args; SText])
  (* C14: targets 0 date 1 time 2 naive date-time 3/4 date-time 5 offset *)
  else if any_of op ["pz.resolve"; "pz.raw"]%string then
    SRes (match args with
          | VInt t :: _ => if t =? 4 then SDtz else kind_shape t
          | _ => SAny end)
  (* C17 *)
  else if any_of op ["rd.trunc"; "rd.round"; "rd.up"]%string then SRes SNdt
  else if any_of op ["rd.ztrunc"; "rd.zround"; "rd.zup"]%string then SRes SDtz
  else if any_of op ["rd.rsub"; "rd.tsub"]%string then arg0_kind args
  (* C15 *)
  else if any_of op ["c15.sfparse"; "c15.sfowned"]%string then SRes (SItems (fmt_len args))
  else if op_is op "c15.prem" then SRes SText
  else if op_is op "c15.itemcount" then SInt
  else if any_of op ["c15.errtext"; "c15.isoweek.dbg"; "c15.wdset.dbg"]%string then SText
  else SAny.

(** * documented panics *)
Definition TMIN := DN_MIN * 86400.
Definition TMAX := DN_MAX * 86400 + 86399.
(* (naive UTC seconds, offset) of a valid date-time argument *)
Definition z_of_arg (v : val) : option (Z * Z) :=
  match v with
  | VTup [VInt y; VInt o; VInt s; VInt f; VInt off] =>
      if date_ok y o && time_ok s f && off_ok off then Some (dn_of_yo y o * 86400 + s, off) else None
  | _ => None
  end.
Definition wall_in_range (u off : Z) : bool := (TMIN <=? u + off) && (u + off <=? TMAX).
Definition wall_year (u off : Z) : Z := year_of_dn ((u + off) / 86400).
Definition year_printable (u off : Z) : bool := (0 <=? wall_year u off) && (wall_year u off <=? 9999).

(* ops whose PANIC is outside C15's claim *)
Definition panicking_by_contract (op : bytes) : bool :=
  (* operator arithmetic *)
  any_of op ["td.opadd"; "td.opsub"; "td.opmul"; "td.opdiv"; "td.sum";
             "ar.opnadd"; "ar.opnsub"; "ar.opndiff"; "ar.opndays"; "ar.addstd";
             "ar.opdadd"; "ar.opdsub"; "ar.opdadds"; "ar.opdsubs"; "ar.opddiff";
             "ar.opzadd"; "ar.opzsub"; "ar.opzaddasg"; "ar.opzsubasg"; "ar.opzdiff"; "ar.opzdays"; "ar.zaddstd";
             "t.opadd"; "t.opsub"; "t.opadd_assign"; "t.opsub_assign"; "t.opdiff";
             "t.addstd"; "t.substd"; "t.addstd_assign"; "t.substd_assign"; "t.addoff"; "t.suboff";
             "ndt.opadd"; "ndt.opsub"; "ndt.addstd"; "ndt.substd"; "ndt.addstd_assign"; "ndt.substd_assign"; "d8.opaddm"; "d8.opsubm";
             "td.opaddasg"; "td.opsubasg"; "td.sumv"; "ar.opdasg"; "ar.opnasg"; "ar.stdasg"; "ar.zstdasg"; "ar.opzdiffref";
             "ar.opnoff"; "ar.opzoff"; "z.opmonths"; "z.opdays"; "d8.ndt.opaddm"; "d8.ndt.opsubm"; "lz.asg"]%string
  (* deprecated panicking constructors / accessors *)
  || any_of op ["ts.tzp"; "ts.tzmsp"; "ts.naive_from"; "ts.ofns"; "ts.naive_ofns";
                "d.pymd"; "d.pyo"; "d.pisoywd"; "d.pdays"; "d.psucc"; "d.ppred";
                "t.phms"; "t.phms_milli"; "t.phms_micro"; "t.phms_nano"; "t.pnsfm";
                "ndt.phms"; "ndt.phms_milli"; "ndt.phms_micro"; "ndt.phms_nano";
                "z.peast"; "z.pwest"; "z.pfromlocal"; "d8.pnthwd"]%string
  (* panicking by documentation, infallible by type (not entry points of C15); SubsecRound is defined
     over the Add / Sub operators of its carrier (operator arithmetic) *)
  || any_of op ["d8.wfirstp"; "d8.wlastp"; "d8.wdaysp"; "ts.systime"; "ts.tosys"; "rd.rsub"; "rd.tsub"]%string
  (* the panicking unit constructors of TimeDelta (documented: "Panics when the duration is out of bounds") *)
  || any_of op ["td.pweeks"; "td.pdays"; "td.phours"; "td.pminutes"; "td.pseconds"; "td.pmillis"]%string
  (* == / hash of NaiveWeek are defined through the panicking first_day(); they do not report failure
     through a return type: outside C15's claim *)
  || op_is op "d8.weq".

Definition bad_args (out : val) : bool :=
  match out with VErr n => bytes_eqb n B"BADARGS" || bytes_eqb n B"NOOP" | _ => false end.

Definition check_value (op : bytes) (args : list val) (out : val) : verdict :=
  if negb (no_trap out) then JBad B"trap-inside-the-returned-value"
  else if valid (shape_of op args) out then JOk
  else if op_is op "sf.items" || op_is op "c15.sfparse" || op_is op "c15.sfowned" then
    JBad B"format-string-items-unbounded-or-more-than-13-per-byte"
  else JBad B"returned-value-is-not-a-valid-value-of-its-type".

Definition judge (op : bytes) (args : list val) (out : val) : verdict :=
  if bad_args out then JSkip
  (* the Local zone and its cache are clock / environment dependent: not in C15's stream *)
  else if any_of op ["lz.at"; "lz.uat"; "lz.loc"; "lz.uloc"; "lz.sel"; "lz.usel"; "lz.rt"; "lz.urt"; "lz.env"; "lz.conv"; "lz.asg"; "lc.history"]%string
  then JSkip
  else match out with
  | VPanic =>
      if panicking_by_contract op then JSkip
      else if op_is op "z.nlocal" || op_is op "z.datenaive" then
        match args with
        | [z] => match z_of_arg z with
                 | Some (u, off) => if wall_in_range u off then JBad B"panic-although-the-wall-clock-is-in-range" else JOk
                 | None => JSkip end
        | _ => JSkip end
      else if op_is op "r2.write" || op_is op "r2.fmt" || op_is op "r2.rt" then
        match args with
        | [z] => match z_of_arg z with
                 | Some (u, off) => if year_printable u off then JBad B"panic-although-the-year-is-within-0-9999" else JOk
                 | None => JSkip end
        | _ => JSkip end
      else JBad B"panic-in-an-operation-not-documented-to-panic"
  | VTimeout => JBad B"did-not-return"
  | VFuel => JBad B"did-not-return"
  | _ => check_value op args out
  end.
