(** C01 — executable statement of the property: every date form (year-month-day, year-ordinal,
    ISO year-week-weekday, day number) denotes the date the proleptic Gregorian rules give it, a
    constructor yields that date exactly for the field combinations that denote a date inside the
    supported range (years -262143 ..= 262142) and nothing otherwise, date order is day-number
    order, ISO weeks compare as (ISO year, week) pairs, and succ/pred move by one day.
    The oracle is Spec/Gregorian.v (leap rule, month lengths, ISO week rule); nothing is imported
    from the model or from the generated tables. *)
From Coq Require Import ZArith List Bool String.
From V Require Import Base.Int Base.IO Spec.Gregorian.
Import ListNotations.
Open Scope Z_scope.

Definition enc_yo (p : Z * Z) : val := VTup [VInt (fst p); VInt (snd p)].
Definition exp_dn (n : Z) : val := if dn_in_range n then VSome (enc_yo (yo_of_dn n)) else VNone.

(* a date argument: (year, ordinal) of a date in the supported range; its day number *)
Definition dn_of_arg (v : val) : option Z :=
  match v with
  | VTup [VInt y; VInt o] => if year_in_range y && valid_yo y o then Some (dn_of_yo y o) else None
  | _ => None
  end.

Definition exp_acc (n : Z) : val :=
  let '(y, o) := yo_of_dn n in
  let '(m, d) := md_of_ordinal (is_leap y) o in
  let '(iy, iw) := iso_of_dn n in
  VTup [VInt y; VInt m; VInt d; VInt o; VInt (weekday_of_dn n); VInt iy; VInt iw; VInt n;
        VInt (m - 1); VInt (d - 1); VInt (o - 1); VInt n].

(* [d.range]: the words the runners fold, computed from the calendar rules alone *)
Definition MASK64 := 18446744073709551615.
Definition FNV_OFFSET := 14695981039346656037.
Definition FNV_PRIME := 1099511628211.
Definition fnv_step (h w : Z) : Z := Z.land (FNV_PRIME * Z.lxor h (Z.land w MASK64)) MASK64.
Definition P31 := 2147483648.
Definition P32 := 4294967296.
Definition exp_words (n : Z) : list Z :=
  if dn_in_range n then
    let '(y, o) := yo_of_dn n in
    let '(m, d) := md_of_ordinal (is_leap y) o in
    let '(iy, iw) := iso_of_dn n in
    [ (y + P31) * P32 + (n + P31);
      (n + P31) * P32 + m * 268435456 + d * 8388608 + o * 16384 + weekday_of_dn n * 2048 + iw * 32 + 31;
      (iy + P31) * P32 + (m - 1) * 16777216 + (d - 1) * 65536 + (o - 1) ]
  else [0].
Definition exp_range_step (p : Z * Z) : Z * Z :=
  let '(n, h) := p in (n + 1, fold_left fnv_step (exp_words n) h).
Definition exp_range (lo hi : Z) : Z :=
  if hi <=? lo then FNV_OFFSET else snd (Pos.iter exp_range_step (lo, FNV_OFFSET) (Z.to_pos (hi - lo))).

Definition un (f : Z -> val) (args : list val) (out : val) : verdict :=
  match args with
  | [a] => match dn_of_arg a with Some n => judge_eq (f n) out | None => JSkip end
  | _ => JSkip
  end.
Definition bin (f : Z -> Z -> val) (args : list val) (out : val) : verdict :=
  match args with
  | [a; b] => match dn_of_arg a, dn_of_arg b with
              | Some x, Some y => judge_eq (f x y) out
              | _, _ => JSkip end
  | _ => JSkip
  end.

Definition judge (op : bytes) (args : list val) (out : val) : verdict :=
  if op_is op "d.ymd" then
    match args with
    | [VInt y; VInt m; VInt d] =>
        if in_i32 y && in_u32 m && in_u32 d then
          judge_eq (if valid_ymd y m d && year_in_range y
                    then VSome (enc_yo (y, ordinal_of_md (is_leap y) m d)) else VNone) out
        else JSkip
    | _ => JSkip end
  else if op_is op "d.yo" then
    match args with
    | [VInt y; VInt o] =>
        if in_i32 y && in_u32 o then
          judge_eq (if valid_yo y o && year_in_range y then VSome (enc_yo (y, o)) else VNone) out
        else JSkip
    | _ => JSkip end
  else if op_is op "d.isoywd" then
    match args with
    | [VInt y; VInt w; VInt wd] =>
        if in_i32 y && in_u32 w && (0 <=? wd) && (wd <=? 6) then
          judge_eq (if valid_isoywd y w wd then exp_dn (dn_of_isoywd y w wd) else VNone) out
        else JSkip
    | _ => JSkip end
  else if op_is op "d.days" then
    match args with
    | [VInt n] => if in_i32 n then judge_eq (exp_dn n) out else JSkip
    | _ => JSkip end
  else if op_is op "d.acc" then un exp_acc args out
  else if op_is op "d.succ" then un (fun n => exp_dn (n + 1)) args out
  else if op_is op "d.pred" then un (fun n => exp_dn (n - 1)) args out
  else if op_is op "d.cmp" then bin (fun x y => VInt (cmpZ x y)) args out
  else if op_is op "d.cmpiw" then
    bin (fun x y => let '(y1, w1) := iso_of_dn x in let '(y2, w2) := iso_of_dn y in
                    VInt (cmp_lex [y1; w1] [y2; w2])) args out
  else if op_is op "d.range" then
    match args with
    | [VInt lo; VInt hi] =>
        if (i32_min <? lo) && (lo <=? hi) && (hi <? i32_max) && (hi - lo <=? 1048576)
        then judge_eq (VInt (exp_range lo hi)) out else JSkip
    | _ => JSkip end
  else JSkip.
