(** C01b — judge clauses for the ops of Model/C01b.v, written from the property text and
    Spec/Gregorian.v like Judge/C01.v (whose [judge] stays the subject of [C01_holds] and answers
    every other op): a leap year is one the Gregorian rule names; the 0-based ISO week is the ISO
    week minus one; the day number reached through a date-time at midnight of the date is the
    date's day number and converting back gives the date; the panicking twin of a constructor (and
    of succ / pred) yields the same date and panics exactly where the checked form yields nothing. *)
From Coq Require Import ZArith List Bool String.
From V Require Import Base.Int Base.IO Spec.Gregorian.
From V Require Judge.C01.
Import ListNotations.
Open Scope Z_scope.

Definition exp_acc2 (n : Z) : val :=
  let '(y, o) := yo_of_dn n in
  let '(iy, iw) := iso_of_dn n in
  VTup [val_of_bool (is_leap y); VInt (iw - 1); VInt n; C01.enc_yo (y, o)].
Definition or_panic (v : val) : val := match v with VSome x => x | _ => VPanic end.

Definition judge (op : bytes) (args : list val) (out : val) : verdict :=
  if op_is op "d.acc2" then C01.un exp_acc2 args out
  else if op_is op "d.pymd" then
    match args with
    | [VInt y; VInt m; VInt d] =>
        if in_i32 y && in_u32 m && in_u32 d then
          judge_eq (if valid_ymd y m d && year_in_range y
                    then C01.enc_yo (y, ordinal_of_md (is_leap y) m d) else VPanic) out
        else JSkip
    | _ => JSkip end
  else if op_is op "d.pyo" then
    match args with
    | [VInt y; VInt o] =>
        if in_i32 y && in_u32 o then
          judge_eq (if valid_yo y o && year_in_range y then C01.enc_yo (y, o) else VPanic) out
        else JSkip
    | _ => JSkip end
  else if op_is op "d.pisoywd" then
    match args with
    | [VInt y; VInt w; VInt wd] =>
        if in_i32 y && in_u32 w && (0 <=? wd) && (wd <=? 6) then
          judge_eq (if valid_isoywd y w wd then or_panic (C01.exp_dn (dn_of_isoywd y w wd)) else VPanic) out
        else JSkip
    | _ => JSkip end
  else if op_is op "d.pdays" then
    match args with
    | [VInt n] => if in_i32 n then judge_eq (or_panic (C01.exp_dn n)) out else JSkip
    | _ => JSkip end
  else if op_is op "d.psucc" then C01.un (fun n => or_panic (C01.exp_dn (n + 1))) args out
  else if op_is op "d.ppred" then C01.un (fun n => or_panic (C01.exp_dn (n - 1))) args out
  else C01.judge op args out.
