(** C13 — executable statement of the property: for a format string whose fields determine the
    value unambiguously, parsing the text produced by formatting a value with the same format
    string returns that value, up to the precision the format prints.

    Written from the property text and the documentation only, over the documentation-level
    tokens and renderings of Spec/StrftimeDoc.v (the documented strftime table over
    Spec/Gregorian.v); nothing is imported from the model or the generated data.

    The judge decides independently whether a case (kind, value, format) lies in the claimed
    family; outside it (or when unsure) the verdict is [JSkip]:
    * the format has no unknown specifier, and none of the print-only %::z %:::z %Z or the
      read-only %#z;
    * every token renders for the value (a missing field makes formatting fail: no claim);
    * UNAMBIGUOUS: a numeric field printed with fewer digits than its documented parsing width
      (PW in the docs of `Numeric`: 4 for an unsigned year, 2 / 1 / 3 / 9 for the others, unbounded
      after a sign and for %s) is followed by text that does not start with a digit; a field
      printed with more digits than its parsing width, or a sign on a field other than the year
      and the timestamp, is outside the family; a fraction `%.f %.3f %.6f %.9f` is followed by
      text that does not start with a digit (and, when it prints nothing, not with '.');
    * SUFFICIENT (docs of Parsed::to_naive_date / to_naive_time / to_naive_datetime_with_offset /
      to_datetime): a date needs a determinate year with month + day, or the ordinal, or a
      Sunday- / Monday-based week number + weekday, or ISO year + ISO week + weekday; every year
      group that occurs is determinate (full year, or century + two-digit year for years 0..9999,
      or the two-digit year alone inside the 1970..2069 pivot window); a time needs the hour
      (24-hour, or 12-hour with AM/PM) and the minute, and the second if a fraction is printed; a
      date-time needs both, or the timestamp; a zoned date-time needs the offset (%z %:z %+), or
      the timestamp when the value's offset is zero;
    * the value is one the format can express: whole-minute offset; a leap second only on second
      59 with %S printed; the second and fraction are zero unless the reader learns the second
      (%S printed, or the timestamp is the only source of the date-time: next to a full date and
      time a missing %S reads as zero); at most one sub-second field; the local date inside the
      supported range; every year group that occurs is determinate, also next to a timestamp.
    Expected result (DESIGN.md 5.0): the value with its fraction truncated to the digits the format
    prints (none: whole seconds), leap-second flag kept.  It is computed from the case's value.

    fp.irt / fp.iparse carry an explicit item list instead of a format string; each public item is
    mapped to its documented tokens ([toks_of_item]: Fixed::RFC3339 = the expansion of %+,
    Fixed::RFC2822 = `%a, %-d %b %Y %H:%M:%S %z` for years 0..9999), the rest is the same claim.
    fp.rtx (case / surplus white-space perturbation, applied by the op to name items and
    white-space items only) has the same expectation as fp.rt.  fp.rem appends a tail to the text:
    claimed when the tail starts with a printable ASCII character other than a digit and '.', the
    expected remainder being the tail.  fp.parse (arbitrary text): a panic is a violation; when
    the text was accepted as [v], the claim is the property instance for (v, format): parsing the
    text formatted from [v] gives [v] again (or skip outside the family). *)
From Coq Require Import ZArith List Bool String.
From V Require Import Base.Int Base.IO Spec.Gregorian Spec.StrftimeDoc.
Import ListNotations.
Open Scope Z_scope.

Fixpoint render_list (v : sval) (l : list tok) : option (list (tok * bytes)) :=
  match l with
  | [] => Some []
  | t :: r =>
      match render_tok v t, render_list v r with
      | ROk s, Some l' => Some ((t, s) :: l')
      | _, _ => None
      end
  end.

Definition digit (c : Z) : bool := (48 <=? c) && (c <=? 57).
Definition starts_with_digit (s : bytes) : bool := match s with c :: _ => digit c | [] => false end.
Definition starts_with_dot (s : bytes) : bool := match s with c :: _ => c =? 46 | [] => false end.
Fixpoint drop_spaces (s : bytes) : bytes := match s with 32 :: r => drop_spaces r | _ => s end.
Definition all_digits (s : bytes) : bool := negb (dlen s =? 0) && forallb digit s.

(* documented parsing width of an unsigned field; None: unbounded *)
Definition parse_width (f : nfield) : option Z :=
  match f with
  | NYear | NIsoYear => Some 4
  | NTimestamp => None
  | NOrdinal => Some 3
  | NNanos => Some 9
  | NQuarter | NWdaySun0 | NWdayMon1 => Some 1
  | _ => Some 2
  end.
Definition may_have_sign (f : nfield) : bool :=
  match f with NYear | NIsoYear | NTimestamp => true | _ => false end.

(* [s]: the text of the token, [rest]: everything printed after it *)
Definition num_ok (f : nfield) (s rest : bytes) : bool :=
  match drop_spaces s with
  | 43 :: ds | 45 :: ds => may_have_sign f && all_digits ds && negb (starts_with_digit rest)
  | ds =>
      all_digits ds &&
      match parse_width f with
      | None => negb (starts_with_digit rest)
      | Some w => if dlen ds <? w then negb (starts_with_digit rest) else dlen ds =? w
      end
  end.
Definition fix_ok (f : tfield) (s rest : bytes) : bool :=
  match f with
  | TMonthAbbr | TMonthFull | TWdayAbbr | TWdayFull | TAmPmLower | TAmPmUpper => true
  | TFracAuto => negb (starts_with_digit rest) && (negb (dlen s =? 0) || negb (starts_with_dot rest))
  | TFrac _ true => negb (starts_with_digit rest)
  | TFrac _ false => true
  | TOff | TOffColon => true
  | TZoneName | TOffColonSec | TOffHours | TOffPermissive | TIsoDateTime => false
  end.
Definition tok_ok (t : tok) (s rest : bytes) : bool :=
  match t with
  | KText _ => true
  | KNum f _ => num_ok f s rest
  | KFix f => fix_ok f s rest
  | KErr => false
  end.
Fixpoint text_of (l : list (tok * bytes)) : bytes :=
  match l with [] => [] | (_, s) :: r => s ++ text_of r end.
Fixpoint unambiguous (l : list (tok * bytes)) (tail : bytes) : bool :=
  match l with
  | [] => true
  | (t, s) :: r => tok_ok t s (text_of r ++ tail) && unambiguous r tail
  end.

(** the fields a format prints *)
Definition hasn (l : list tok) (f : nfield) : bool :=
  existsb (fun t => match t with KNum g _ => nfield_code g =? nfield_code f | _ => false end) l.
Definition hasf (l : list tok) (p : tfield -> bool) : bool :=
  existsb (fun t => match t with KFix g => p g | _ => false end) l.
Definition is_month_name (f : tfield) := match f with TMonthAbbr | TMonthFull => true | _ => false end.
Definition is_wday_name (f : tfield) := match f with TWdayAbbr | TWdayFull => true | _ => false end.
Definition is_ampm (f : tfield) := match f with TAmPmLower | TAmPmUpper => true | _ => false end.
Definition is_frac (f : tfield) := match f with TFracAuto | TFrac _ _ => true | _ => false end.
Definition is_off (f : tfield) := match f with TOff | TOffColon => true | _ => false end.

(* number of sub-second fields and the digits the (single) one keeps *)
Definition frac_count (l : list tok) : Z :=
  fold_right (fun t n => match t with
                         | KNum NNanos _ => n + 1
                         | KFix f => if is_frac f then n + 1 else n
                         | _ => n end) 0 l.
Fixpoint frac_digits_kept (l : list tok) : Z :=
  match l with
  | [] => 0
  | KNum NNanos _ :: _ => 9
  | KFix TFracAuto :: _ => 9
  | KFix (TFrac k _) :: _ => k
  | _ :: r => frac_digits_kept r
  end.

Definition in_pivot (y : Z) : bool := (1970 <=? y) && (y <=? 2069).

(* every year group that occurs in the format is determinate (and non-negative where the
   century / two-digit fields require it) *)
Definition year_groups_ok (l : list tok) (dn : Z) : bool :=
  let y := year_of_dn dn in
  let iy := fst (iso_of_dn dn) in
  let year := hasn l NYear in let cent := hasn l NCentury in let ymod := hasn l NYearMod100 in
  let isoyear := hasn l NIsoYear in let isoymod := hasn l NIsoYearMod100 in
  let greg_present := year || cent || ymod in
  let greg_det := year || (cent && ymod) || (ymod && negb cent && in_pivot y) in
  let greg_nonneg := (negb (cent || ymod)) || (0 <=? y) in
  let iso_present := isoyear || isoymod in
  let iso_det := isoyear || (isoymod && in_pivot iy) in
  let iso_nonneg := negb isoymod || (0 <=? iy) in
  (negb greg_present || (greg_det && greg_nonneg)) && (negb iso_present || (iso_det && iso_nonneg)).

Definition date_sufficient (l : list tok) : bool :=
  let greg_present := hasn l NYear || hasn l NCentury || hasn l NYearMod100 in
  let iso_present := hasn l NIsoYear || hasn l NIsoYearMod100 in
  let month := hasn l NMonth || hasf l is_month_name in
  let wday := hasn l NWdaySun0 || hasn l NWdayMon1 || hasf l is_wday_name in
  (greg_present && ((month && hasn l NDay) || hasn l NOrdinal
                    || ((hasn l NWeekSun || hasn l NWeekMon) && wday)))
  || (iso_present && hasn l NIsoWeek && wday).

Definition time_sufficient (l : list tok) : bool :=
  (hasn l NHour || (hasn l NHour12 && hasf l is_ampm)) && hasn l NMinute.

(* the second is known to the reader when %S is printed, or when the timestamp is the only
   source of the date-time (with a full date and time next to it a missing %S reads as zero) *)
Definition seconds_known (l : list tok) : bool :=
  hasn l NSecond || (hasn l NTimestamp && negb (date_sufficient l && time_sufficient l)).

Definition value_expressible (l : list tok) (v : sval) : bool :=
  let second := hasn l NSecond in
  let fr := 0 <? frac_count l in
  (frac_count l <=? 1)
  && (negb fr || seconds_known l)
  && match sv_sod v with
     | Some sod =>
         (if sv_leap v then second && (sod mod 60 =? 59) else true)
         && (if seconds_known l then true else (sod mod 60 =? 0) && (sv_nano v =? 0) && negb (sv_leap v))
     | None => true
     end
  && match sv_dn v with Some dn => dn_in_range dn && year_groups_ok l dn | None => true end
  && match sv_off v with Some off => off mod 60 =? 0 | None => true end.

Definition sufficient (kind : Z) (l : list tok) (v : sval) : bool :=
  let d := date_sufficient l in
  let t := time_sufficient l in
  let ts := hasn l NTimestamp in
  if kind =? 0 then d
  else if kind =? 1 then t
  else if kind =? 2 then (d && t) || ts
  else if kind =? 3 then
    ((d && t) || ts) &&
    (hasf l is_off || (ts && match sv_off v with Some 0 => true | _ => false end))
  else false.

(* the value with its fraction truncated to [k] digits, leap-second flag kept *)
Definition trunc_frac (k : Z) (f : Z) : Z :=
  let unit := 10 ^ (9 - k) in
  let nano := f mod G9 in
  (f - nano) + (nano / unit) * unit.
Definition expected_value (kind : Z) (k : Z) (v : val) : option val :=
  match kind, v with
  | 0, VTup [VInt y; VInt o] => Some v
  | 1, VTup [VInt s; VInt f] => Some (VTup [VInt s; VInt (trunc_frac k f)])
  | 2, VTup [VInt y; VInt o; VInt s; VInt f] => Some (VTup [VInt y; VInt o; VInt s; VInt (trunc_frac k f)])
  | 3, VTup [VInt y; VInt o; VInt s; VInt f; VInt off] =>
      Some (VTup [VInt y; VInt o; VInt s; VInt (trunc_frac k f); VInt off])
  | _, _ => None
  end.

(* [Some e]: the case is in the claimed family and [e] is the value parsing must return *)
Definition claim_toks (kind : Z) (v : val) (l : list tok) (tail : bytes) : option val :=
  match sval_of kind v with
  | None => None
  | Some sv =>
      if has_err l then None else
      match render_list sv l with
      | None => None
      | Some rl =>
          if unambiguous rl tail && sufficient kind l sv && value_expressible l sv
          then expected_value kind (frac_digits_kept l) v else None
      end
  end.
Definition claim (kind : Z) (v : val) (fmt tail : bytes) : option val :=
  if negb (utf8_ok fmt) then None else claim_toks kind v (expand_iso (tokens fmt)) tail.

(** explicit item lists (fp.irt / fp.iparse), in the canonical item encoding of the case protocol:
    the documented meaning of each public item (docs of `Numeric`, `Fixed`, `Item` in
    src/format/mod.rs) as tokens.  `Fixed::RFC3339` is the documented expansion of %+;
    `Fixed::RFC2822` ("RFC 2822 date and time syntax", e.g. `Tue, 1 Jul 2003 10:52:37 +0200`) is
    `%a, %-d %b %Y %H:%M:%S %z` and exists for years 0..9999 only; the ISO century, the `Z`
    offset items and items whose white-space text is not plain ASCII white space: no claim. *)
Definition nfield_of_code (k : Z) : option nfield :=
  find (fun f => nfield_code f =? k)
       [NYear; NCentury; NYearMod100; NIsoYear; NIsoYearMod100; NQuarter; NMonth; NDay; NWeekSun; NWeekMon; NIsoWeek;
        NWdaySun0; NWdayMon1; NOrdinal; NHour; NHour12; NMinute; NSecond; NNanos; NTimestamp].
Definition dpad_of_code (k : Z) : option dpad :=
  if k =? 0 then Some DNone else if k =? 1 then Some DZero else if k =? 2 then Some DSpace else None.
Definition ascii_space (c : Z) : bool := (c =? 32) || ((9 <=? c) && (c <=? 13)).
Definition rfc2822_expansion : bytes := B"%a, %-d %b %Y %H:%M:%S %z".
(* tokens of one item, and whether the item restricts the year to 0..9999 *)
Definition toks_of_item (v : val) : list tok * bool :=
  match v with
  | VTup [VInt 0; VStr s] =>
      (* a literal that begins with white space (or a non-ASCII character, which may be white space)
         can be eaten by a preceding white-space item: no claim *)
      (match s with
       | c :: _ => if ascii_space c || (127 <? c) then [KErr] else [KText s]
       | [] => [KText s]
       end, false)
  | VTup [VInt 1; VStr s] => (if forallb ascii_space s then [KText s] else [KErr], false)
  | VTup [VInt 2; VInt n; VInt p] =>
      (match nfield_of_code n, dpad_of_code p with Some f, Some q => [KNum f q] | _, _ => [KErr] end, false)
  | VTup [VInt 3; VInt f] =>
      if f =? 0 then ([KFix TMonthAbbr], false) else if f =? 1 then ([KFix TMonthFull], false)
      else if f =? 2 then ([KFix TWdayAbbr], false) else if f =? 3 then ([KFix TWdayFull], false)
      else if f =? 4 then ([KFix TAmPmLower], false) else if f =? 5 then ([KFix TAmPmUpper], false)
      else if f =? 6 then ([KFix TFracAuto], false) else if f =? 7 then ([KFix (TFrac 3 true)], false)
      else if f =? 8 then ([KFix (TFrac 6 true)], false) else if f =? 9 then ([KFix (TFrac 9 true)], false)
      else if f =? 10 then ([KFix TZoneName], false) else if f =? 11 then ([KFix TOffColon], false)
      else if f =? 12 then ([KFix TOffColonSec], false) else if f =? 13 then ([KFix TOffHours], false)
      else if f =? 15 then ([KFix TOff], false)
      else if f =? 17 then (tokens rfc2822_expansion, true)
      else if f =? 18 then (tokens iso_expansion, false)
      else if f =? 100 then ([KFix TOffPermissive], false)
      else if f =? 101 then ([KFix (TFrac 3 false)], false) else if f =? 102 then ([KFix (TFrac 6 false)], false)
      else if f =? 103 then ([KFix (TFrac 9 false)], false)
      else ([KErr], false)
  | _ => ([KErr], false)
  end.
Fixpoint toks_of_items (l : list val) : list tok * bool :=
  match l with
  | [] => ([], false)
  | v :: r => let '(a, x) := toks_of_item v in let '(b, y) := toks_of_items r in (a ++ b, x || y)
  end.
Definition claim_items (kind : Z) (v : val) (items : list val) : option val :=
  let '(l, small_year) := toks_of_items items in
  let year_ok :=
    if small_year then
      match sval_of kind v with
      | Some sv => match sv_dn sv with
                   | Some dn => (0 <=? year_of_dn dn) && (year_of_dn dn <=? 9999)
                   | None => false end
      | None => false
      end
    else true in
  if year_ok then claim_toks kind v l [] else None.

(* a tail after which nothing of the format can continue reading *)
Definition tail_ok (tail : bytes) : bool :=
  match tail with
  | [] => true
  | c :: _ => (33 <=? c) && (c <=? 126) && negb (digit c) && negb (c =? 46)
  end.

Definition judge_rt (kind : Z) (v : val) (fmt : bytes) (out : val) : verdict :=
  match claim kind v fmt [] with
  | Some e => judge_eq e out
  | None => JSkip
  end.

Definition judge (op : bytes) (args : list val) (out : val) : verdict :=
  if op_is op "fp.rt" then
    match args with
    | [VInt kind; v; VStr f] => judge_rt kind v f out
    | _ => JSkip
    end
  else if op_is op "fp.rtx" then
    match args with
    | [VInt kind; v; VStr f; VInt seed] => if in_u64 seed then judge_rt kind v f out else JSkip
    | _ => JSkip
    end
  else if op_is op "fp.rtxo" then
    match args with
    | [VInt kind; v; VStr f; VInt seed] => if in_u64 seed then judge_rt kind v f out else JSkip
    | _ => JSkip
    end
  else if op_is op "fp.rem" then
    match args with
    | [VInt kind; v; VStr f; VStr tail] =>
        if utf8_ok tail && tail_ok tail then
          match claim kind v f tail with
          | Some e => judge_eq (VTup [e; VStr tail]) out
          | None => JSkip
          end
        else JSkip
    | _ => JSkip
    end
  else if op_is op "fp.parse" then
    match args with
    | [VInt kind; VStr text; VStr f] =>
        if utf8_ok text && utf8_ok f && (0 <=? kind) && (kind <=? 3) then
          match out with
          | VPanic => JBad B"panic"
          | VTup [v; again] => judge_rt kind v f again
          | _ => JSkip
          end
        else JSkip
    | _ => JSkip
    end
  else if op_is op "fp.irt" then
    match args with
    | [VInt kind; v; VTup items] =>
        match claim_items kind v items with
        | Some e => judge_eq e out
        | None => JSkip
        end
    | _ => JSkip
    end
  else if op_is op "fp.iparse" then
    match args with
    | [VInt kind; VStr text; VTup items] =>
        if utf8_ok text && (0 <=? kind) && (kind <=? 3) then
          match out with
          | VPanic => JBad B"panic"
          | VTup [v; again] =>
              match claim_items kind v items with
              | Some e => judge_eq e again
              | None => JSkip
              end
          | _ => JSkip
          end
        else JSkip
    | _ => JSkip
    end
  else if op_is op "fp.fmt" then
    match args with
    | [VInt kind; v; VStr f] =>
        if utf8_ok f && (0 <=? kind) && (kind <=? 3) then
          match sval_of kind v with
          | None => JSkip
          | Some sv =>
              match doc_format sv f with
              | ROk s => judge_eq (VStr s) out
              | RFail => judge_eq (VErr B"fmt") out
              | RSkip => JSkip
              end
          end
        else JSkip
    | _ => JSkip
    end
  else JSkip.
