(** C16 — executable statement of the property "the TZif and TZ-rule readers accept well-formed
    data and survive everything else", written from RFC 8536 (TZif layout), the POSIX TZ grammar
    and the property text.  Nothing is imported from the model or from the generated constants.

    Verdicts
    - any PANIC / TIMEOUT / FUEL output, whole or inside a lookup list, is a violation;
    - [tz.parse]: an accepted file must decode under the independent RFC 8536 decoder below
      (magic, version, counts consistent with the data, sorted transitions, indices in bounds,
      well-formed footer) and the dump must show exactly the transitions, types, leap records
      and rule that the file contains; a rejected file must not be *conforming* (5.0: RFC layout,
      designations of 3-6 characters from [A-Za-z0-9+-], strictly increasing transitions, indices
      in range, valid leap records and indicators, v2+ footer of a documented form and consistent
      with the last transition where that is decidable by the calendar evaluation below);
    - [tz.rule]: an accepted string must be in the (digit-count-liberal) POSIX grammar and yield
      exactly the written rule; a rejected string must not be of a documented form;
    - lookups: no claim on the values here (that is C05), only "no trap". *)
From Coq Require Import ZArith List Bool String.
From V Require Import Base.Int Base.IO Spec.Gregorian.
Import ListNotations.
Open Scope Z_scope.

(** ** small byte-string helpers *)
Fixpoint take_n (n : nat) (s : bytes) : option (bytes * bytes) :=
  match n with
  | O => Some ([], s)
  | S n' => match s with
            | [] => None
            | x :: r => match take_n n' r with Some (a, b) => Some (x :: a, b) | None => None end
            end
  end.
(* [take_z k s]: the first k bytes, provided 0 <= k <= |s| (k compared before any conversion) *)
Definition take_z (k : Z) (s : bytes) : option (bytes * bytes) :=
  if (0 <=? k) && (k <=? Z.of_nat (List.length s)) then take_n (Z.to_nat k) s else None.
Definition be_u (l : bytes) : Z := fold_left (fun acc b => acc * 256 + b) l 0.
Definition be_s32 (l : bytes) : Z := let u := be_u l in if u <? 2147483648 then u else u - 4294967296.
Definition be_s64 (l : bytes) : Z :=
  let u := be_u l in if u <? 9223372036854775808 then u else u - 18446744073709551616.
Fixpoint groups (fuel : nat) (n : nat) (s : bytes) : list bytes :=
  match fuel with
  | O => []
  | S f => match s with
           | [] => []
           | _ => match take_n n s with Some (a, b) => a :: groups f n b | None => [] end
           end
  end.
Definition group (n : nat) (s : bytes) : list bytes := groups (List.length s) n s.
Fixpoint until_nul (s : bytes) : option bytes :=
  match s with
  | [] => None
  | 0 :: _ => Some []
  | x :: r => match until_nul r with Some a => Some (x :: a) | None => None end
  end.
Fixpoint drop_n (n : nat) (s : bytes) : bytes :=
  match n, s with O, _ => s | S n', _ :: r => drop_n n' r | _, [] => [] end.
Definition desig_char (b : Z) : bool :=
  ((48 <=? b) && (b <=? 57)) || ((65 <=? b) && (b <=? 90)) || ((97 <=? b) && (b <=? 122))
  || (b =? 43) || (b =? 45).
Definition alpha (b : Z) : bool := ((65 <=? b) && (b <=? 90)) || ((97 <=? b) && (b <=? 122)).
Definition digit (b : Z) : bool := (48 <=? b) && (b <=? 57).
Definition blen (s : bytes) : Z := Z.of_nat (List.length s).

(** ** POSIX TZ strings (IEEE 1003.1 section 8.3, with the RFC 8536 section 3.3.1 extension)
    [std offset] | [std offset dst [offset] , date [/ time] , date [/ time]]
    A parse yields the value and a flag [strict]: every number has the documented number of
    digits and every name 3-6 characters (the forms a reader must accept). *)
Record sltt := mk_sltt { s_off : Z; s_dst : bool; s_name : bytes }.
Inductive sday := SJ1 (n : Z) | SJ0 (n : Z) | SM (m w d : Z).
Inductive srule :=
| SFixed (std : sltt)
| SAlt (std dst : sltt) (sd : sday) (st : Z) (ed : sday) (et : Z).

Fixpoint span (f : Z -> bool) (s : bytes) : bytes * bytes :=
  match s with
  | x :: r => if f x then let '(a, b) := span f r in (x :: a, b) else ([], s)
  | [] => ([], [])
  end.
Definition dec_value (l : bytes) : Z := fold_left (fun acc b => acc * 10 + (b - 48)) l 0.
(* number: (value, digit count, rest) *)
Definition p_num (s : bytes) : option (Z * Z * bytes) :=
  let '(d, r) := span digit s in
  match d with [] => None | _ => Some (dec_value d, blen d, r) end.
(* name: (name, strict, rest) *)
Definition p_name (s : bytes) : option (bytes * bool * bytes) :=
  match s with
  | 60 :: r =>
      let '(n, r') := span (fun x => negb (x =? 62)) r in
      match r' with
      | 62 :: r'' => if forallb desig_char n && (3 <=? blen n) then Some (n, blen n <=? 6, r'') else None
      | _ => None
      end
  | _ => let '(n, r) := span alpha s in
         if 3 <=? blen n then Some (n, blen n <=? 6, r) else None
  end.
(* hh[:mm[:ss]] -> (seconds, strict, rest); hours at most [hmax], [hdig] digits in strict form *)
Definition p_hms (hmax hdig : Z) (s : bytes) : option (Z * bool * bytes) :=
  match p_num s with
  | None => None
  | Some (h, hd, r) =>
      if h >? hmax then None else
      match r with
      | 58 :: r1 =>
          match p_num r1 with
          | None => None
          | Some (m, md, r2) =>
              if m >? 59 then None else
              match r2 with
              | 58 :: r3 =>
                  match p_num r3 with
                  | None => None
                  | Some (sec, sd, r4) =>
                      if sec >? 59 then None
                      else Some (h * 3600 + m * 60 + sec, (hd <=? hdig) && (md <=? 2) && (sd <=? 2), r4)
                  end
              | _ => Some (h * 3600 + m * 60, (hd <=? hdig) && (md <=? 2), r2)
              end
          end
      | _ => Some (h * 3600, hd <=? hdig, r)
      end
  end.
Definition p_signed_hms (hmax hdig : Z) (s : bytes) : option (Z * bool * bytes) :=
  match s with
  | 43 :: r => p_hms hmax hdig r
  | 45 :: r => match p_hms hmax hdig r with Some (v, st, r') => Some (- v, st, r') | None => None end
  | _ => p_hms hmax hdig s
  end.
Definition p_date (s : bytes) : option (sday * bool * bytes) :=
  match s with
  | 77 :: r =>
      match p_num r with
      | Some (m, md, 46 :: r1) =>
          match p_num r1 with
          | Some (w, wd, 46 :: r2) =>
              match p_num r2 with
              | Some (d, dd, r3) =>
                  if (1 <=? m) && (m <=? 12) && (1 <=? w) && (w <=? 5) && (d <=? 6)
                  then Some (SM m w d, (md <=? 2) && (wd =? 1) && (dd =? 1), r3) else None
              | None => None
              end
          | _ => None
          end
      | _ => None
      end
  | 74 :: r =>
      match p_num r with
      | Some (n, nd, r1) => if (1 <=? n) && (n <=? 365) then Some (SJ1 n, nd <=? 3, r1) else None
      | None => None
      end
  | _ =>
      match p_num s with
      | Some (n, nd, r1) => if n <=? 365 then Some (SJ0 n, nd <=? 3, r1) else None
      | None => None
      end
  end.
(* date[/time]; the default time is 02:00:00 *)
Definition p_date_time (ext : bool) (s : bytes) : option (sday * Z * bool * bytes) :=
  match p_date s with
  | None => None
  | Some (d, st, r) =>
      match r with
      | 47 :: r1 =>
          match (if ext then p_signed_hms 167 3 r1 else p_hms 24 2 r1) with
          | Some (t, st2, r2) => Some (d, t, st && st2, r2)
          | None => None
          end
      | _ => Some (d, 7200, st, r)
      end
  end.
(* the whole string; local time = UTC - offset, so the stored UTC offset is the negation *)
Definition p_tz (ext : bool) (s : bytes) : option (srule * bool) :=
  match p_name s with
  | None => None
  | Some (std, st1, r) =>
    match p_signed_hms 24 2 r with
    | None => None
    | Some (so, st2, r1) =>
      match r1 with
      | [] => Some (SFixed (mk_sltt (- so) false std), st1 && st2)
      | _ =>
        match p_name r1 with
        | None => None
        | Some (dst, st3, r2) =>
          let after_offset :=
            match r2 with
            | 44 :: _ => Some (so - 3600, true, r2)
            | _ => p_signed_hms 24 2 r2
            end in
          match after_offset with
          | Some (do_, st4, 44 :: r3) =>
              match p_date_time ext r3 with
              | Some (sd, stime, st5, 44 :: r4) =>
                  match p_date_time ext r4 with
                  | Some (ed, etime, st6, []) =>
                      Some (SAlt (mk_sltt (- so) false std) (mk_sltt (- do_) true dst) sd stime ed etime,
                            st1 && st2 && st3 && st4 && st5 && st6)
                  | _ => None
                  end
              | _ => None
              end
          | _ => None
          end
        end
      end
    end
  end.

Definition v_sltt (l : sltt) : val := VTup [VInt (s_off l); val_of_bool (s_dst l); VStr (s_name l)].
Definition v_sday (d : sday) : val :=
  match d with
  | SJ0 n => VTup [VInt 0; VInt n; VInt 0; VInt 0]
  | SJ1 n => VTup [VInt 1; VInt n; VInt 0; VInt 0]
  | SM m w d => VTup [VInt 2; VInt m; VInt w; VInt d]
  end.
Definition v_srule (r : srule) : val :=
  match r with
  | SFixed l => VTup [v_sltt l]
  | SAlt a b sd st ed et => VTup [v_sltt a; v_sltt b; v_sday sd; VInt st; v_sday ed; VInt et]
  end.

(** ** What a rule prescribes at an instant (only where that is clear-cut)
    Day of a rule date in year y as a day number; Jn never counts 29 February; n counts it;
    Mm.w.d is the w-th (5 = last) weekday d (0 = Sunday) of month m. *)
Definition dn_of_sday (d : sday) (y : Z) : Z :=
  match d with
  | SJ1 n => dn_of_yo y (if is_leap y && (n >=? 60) then n + 1 else n)
  | SJ0 n => dn_of_yo y (n + 1)
  | SM m w wd =>
      let first := dn_of_ymd y m 1 in
      let wd_first := (weekday_of_dn first + 1) mod 7 in      (* Sunday = 0 *)
      let occ := first + (wd - wd_first) mod 7 + 7 * (w - 1) in
      if occ - first + 1 >? days_in_month (is_leap y) m then occ - 7 else occ
  end.
Definition year_of_unix (t : Z) : Z := year_of_dn (t / 86400 + EPOCH_DN).
Definition start_of_year (y : Z) : Z := unix_secs (dn_of_ymd y 1 1) 0.
(* DST begins at local standard time [st] on the start day, ends at local DST time [et] on the
   end day.  The answer is given only for rules whose two switches of the instant's year lie more
   than a day inside that year, more than 8 days apart from each other, and not at the instant
   of another switch; [None] = not decided here. *)
Definition rule_at (r : srule) (t : Z) : option sltt :=
  match r with
  | SFixed l => Some l
  | SAlt std dst sd st ed et =>
      let y := year_of_unix t in
      if negb ((-200000 <=? y) && (y <=? 200000)) then None else
      let s_at yy := unix_secs (dn_of_sday sd yy) 0 + st - s_off std in
      let e_at yy := unix_secs (dn_of_sday ed yy) 0 + et - s_off dst in
      let lo := start_of_year y + 86400 in
      let hi := start_of_year (y + 1) - 86400 in
      let s := s_at y in let e := e_at y in
      if negb ((lo <? s) && (s <? hi) && (lo <? e) && (e <? hi) && (Z.abs (s - e) >? 8 * 86400)) then None else
      if s <? e then Some (if (s <=? t) && (t <? e) then dst else std)
      else Some (if (e <=? t) && (t <? s) then std else dst)
  end.

(** ** RFC 8536 decoder *)
Record block := mk_block {
  b_ver : Z; b_isutcnt : Z; b_isstdcnt : Z; b_leapcnt : Z; b_timecnt : Z; b_typecnt : Z; b_charcnt : Z;
  b_times : list Z; b_idxs : bytes; b_types : list (Z * Z * Z); b_chars : bytes;
  b_leaps : list (Z * Z); b_isstd : bytes; b_isut : bytes }.

(* one header + data block with [tsz]-byte times; None = truncated / bad magic / bad version *)
Definition dec_block (tsz : Z) (s : bytes) : option (block * bytes) :=
  match take_z 4 s with
  | Some ([84; 90; 105; 102], s1) =>
    match s1 with
    | ver :: s2 =>
      if negb ((ver =? 0) || (ver =? 50) || (ver =? 51)) then None else
      match take_z 15 s2 with
      | None => None
      | Some (_, s3) =>
        match take_z 24 s3 with
        | None => None
        | Some (cnt, s4) =>
          match map be_u (group 4%nat cnt) with
          | [isutcnt; isstdcnt; leapcnt; timecnt; typecnt; charcnt] =>
            let sgn := if tsz =? 4 then be_s32 else be_s64 in
            match take_z (timecnt * tsz) s4 with None => None | Some (times, s5) =>
            match take_z timecnt s5 with None => None | Some (idxs, s6) =>
            match take_z (typecnt * 6) s6 with None => None | Some (types, s7) =>
            match take_z charcnt s7 with None => None | Some (chars, s8) =>
            match take_z (leapcnt * (tsz + 4)) s8 with None => None | Some (leaps, s9) =>
            match take_z isstdcnt s9 with None => None | Some (isstd, s10) =>
            match take_z isutcnt s10 with None => None | Some (isut, s11) =>
              Some (mk_block ver isutcnt isstdcnt leapcnt timecnt typecnt charcnt
                      (map sgn (group (Z.to_nat tsz) times)) idxs
                      (map (fun g => (be_s32 (firstn 4%nat g), nth 4%nat g 0, nth 5%nat g 0)) (group 6%nat types))
                      chars
                      (map (fun g => (sgn (firstn (Z.to_nat tsz) g), be_s32 (drop_n (Z.to_nat tsz) g)))
                           (group (Z.to_nat (tsz + 4)) leaps))
                      isstd isut, s11)
            end end end end end end end
          | _ => None
          end
        end
      end
    | [] => None
    end
  | _ => None
  end.

(* the block that counts, the footer (v2+), whether the extended footer grammar applies, and
   whether both headers carry the same version.  A version-1 header cannot introduce the 64-bit
   block.  When one header says 2 and the other 3 no claim is made about which one governs the
   footer: the extended grammar (a superset with the same values) is used for the comparison,
   and such a file is not counted as conforming. *)
Definition dec_file (s : bytes) : option (block * option bytes * bool * bool) :=
  match dec_block 4 s with
  | None => None
  | Some (b1, r) =>
      if b_ver b1 =? 0 then (match r with [] => Some (b1, None, false, true) | _ => None end)
      else match dec_block 8 r with
           | Some (b2, footer) =>
               if b_ver b2 =? 0 then None
               else Some (b2, Some footer, (b_ver b1 =? 51) || (b_ver b2 =? 51), b_ver b2 =? b_ver b1)
           | None => None
           end
  end.

Fixpoint strictly_increasing (l : list Z) : bool :=
  match l with
  | a :: ((b :: _) as r) => (a <? b) && strictly_increasing r
  | _ => true
  end.
Definition desig_at (b : block) (i : Z) : option bytes :=
  if (0 <=? i) && (i <? b_charcnt b) then until_nul (drop_n (Z.to_nat i) (b_chars b)) else None.

Definition is_ws (b : Z) : bool := (b =? 32) || (b =? 9) || (b =? 10) || (b =? 12) || (b =? 13).
Fixpoint ltrim (s : bytes) : bytes := match s with x :: r => if is_ws x then ltrim r else s | [] => [] end.
Definition trim (s : bytes) : bytes := rev (ltrim (rev (ltrim s))).
(* footer: NL, TZ string (possibly empty), NL.  Some None = empty, Some (Some (r, strict)) *)
Definition dec_footer (ext : bool) (f : bytes) : option (option (srule * bool)) :=
  match f, rev f with
  | 10 :: _, 10 :: _ =>
      let body := trim f in
      match body with
      | [] => Some None
      | _ => match p_tz ext body with Some r => Some (Some r) | None => None end
      end
  | _, _ => None
  end.

(* the well-formedness an accepted file must have, with the dump it must produce *)
Definition expected_dump (s : bytes) : option val :=
  match dec_file s with
  | None => None
  | Some (b, footer, ext, _) =>
      let counts_ok := negb (b_typecnt b =? 0) && negb (b_charcnt b =? 0)
                       && ((b_isutcnt b =? 0) || (b_isutcnt b =? b_typecnt b))
                       && ((b_isstdcnt b =? 0) || (b_isstdcnt b =? b_typecnt b)) in
      let order_ok := strictly_increasing (b_times b) && forallb (fun i => i <? b_typecnt b) (b_idxs b) in
      let types := map (fun '(off, dst, ci) => match desig_at b ci with
                                               | Some n => if (dst =? 0) || (dst =? 1) then Some (mk_sltt off (dst =? 1) n) else None
                                               | None => None end) (b_types b) in
      let rule := match footer with
                  | None => Some None
                  | Some f => dec_footer ext f
                  end in
      (* RFC 8536 3.2: utoff MUST NOT be -2^31 (out-of-range data is rejected) *)
      let offs_ok := forallb (fun '(off, _, _) => negb (off =? -2147483648)) (b_types b) in
      if counts_ok && order_ok && offs_ok && forallb (fun o => match o with Some _ => true | None => false end) types then
        match rule with
        | None => None
        | Some r =>
            Some (VTup [VTup (map (fun '(t, i) => VTup [VInt t; VInt i]) (combine (b_times b) (b_idxs b)));
                        VTup (map (fun o => match o with Some l => v_sltt l | None => VNone end) types);
                        VTup (map (fun '(t, c) => VTup [VInt t; VInt c]) (b_leaps b));
                        match r with Some (sr, _) => VSome (v_srule sr) | None => VNone end])
        end
      else None
  end.

(* leap-second records a writer may produce: first at a non-negative time with correction +-1,
   then at least 28 days - 1 s apart with corrections changing by one *)
Fixpoint leaps_ok (l : list (Z * Z)) : bool :=
  match l with
  | (t0, c0) :: (((t1, c1) :: _) as r) => (t1 - t0 >=? 2419199) && (Z.abs (c1 - c0) =? 1) && leaps_ok r
  | _ => true
  end.
Fixpoint pairs_ok (n : nat) (isstd isut : bytes) : bool :=
  match n with
  | O => true
  | S n' =>
      let s := match isstd with x :: _ => x | [] => 0 end in
      let u := match isut with x :: _ => x | [] => 0 end in
      negb ((s =? 0) && (u =? 1)) && pairs_ok n' (tl isstd) (tl isut)
  end.

(* files a conforming writer emits, as far as this judge can decide: [true] = must be accepted *)
Definition conforming (s : bytes) : bool :=
  match expected_dump s, dec_file s with
  | Some _, Some (b, footer, ext, true) =>
      let names_ok := forallb (fun '(_, _, ci) => match desig_at b ci with
                                                  | Some n => (3 <=? blen n) && (blen n <=? 6) && forallb desig_char n
                                                  | None => false end) (b_types b) in
      let offs_ok := forallb (fun '(off, _, _) => negb (off =? -2147483648)) (b_types b) in
      let lp_ok := match b_leaps b with
                   | [] => true
                   | (t0, c0) :: _ => (0 <=? t0) && (Z.abs c0 =? 1) && leaps_ok (b_leaps b)
                   end in
      let ind_ok := pairs_ok (Z.to_nat (b_typecnt b)) (b_isstd b) (b_isut b)
                    && forallb (fun x => x <=? 1) (b_isstd b) && forallb (fun x => x <=? 1) (b_isut b) in
      let footer_ok :=
        match footer with
        | None => true
        | Some f =>
            match dec_footer ext f with
            | Some None => true
            | Some (Some (sr, strict)) =>
                strict &&
                match rev (combine (b_times b) (b_idxs b)) with
                | [] => true
                | (t, i) :: _ =>
                    match b_leaps b, rule_at sr t, nth_error (b_types b) (Z.to_nat i) with
                    | [], Some l, Some (off, dst, ci) =>
                        (s_off l =? off) && Bool.eqb (s_dst l) (dst =? 1)
                        && match desig_at b ci with Some n => bytes_eqb n (s_name l) | None => false end
                    | _, _, _ => false
                    end
                end
            | None => false
            end
        end in
      (* the version-1 block of a v2+ file obeys the same header rules *)
      let first_ok :=
        match dec_block 4 s with
        | Some (b1, _) => negb (b_typecnt b1 =? 0) && negb (b_charcnt b1 =? 0)
                          && ((b_isutcnt b1 =? 0) || (b_isutcnt b1 =? b_typecnt b1))
                          && ((b_isstdcnt b1 =? 0) || (b_isstdcnt b1 =? b_typecnt b1))
        | None => false
        end in
      (* RFC 8536 3.2: time values are at least -2^59 *)
      let times_ok := forallb (fun t => -576460752303423488 <=? t) (b_times b)
                      && forallb (fun '(t, _) => -576460752303423488 <=? t) (b_leaps b) in
      names_ok && offs_ok && lp_ok && ind_ok && footer_ok && first_ok && times_ok
  | _, _ => false
  end.

Definition is_trap (v : val) : bool :=
  match v with VPanic | VTimeout | VFuel => true | _ => false end.
Definition is_err (v : val) : bool := match v with VErr _ => true | _ => false end.

Definition judge_parse (s : bytes) (out : val) : verdict :=
  if is_trap out then JBad B"reader-trapped" else
  if is_err out then (if conforming s then JBad B"conforming-file-rejected" else JOk)
  else match expected_dump s with
       | None => JBad B"malformed-file-accepted"
       | Some e => if val_eqb e out then JOk else JBad (B"contents-differ-expected=" ++ print_val e)
       end.

Definition judge_rule (s : bytes) (ext : bool) (out : val) : verdict :=
  if is_trap out then JBad B"reader-trapped" else
  if is_err out then
    match p_tz ext s with
    | Some (_, true) => JBad B"documented-form-rejected"
    | _ => JOk
    end
  else match p_tz ext s with
       | None => JBad B"string-outside-the-grammar-accepted"
       | Some (r, _) => if val_eqb (v_srule r) out then JOk
                        else JBad (B"rule-differs-expected=" ++ print_val (v_srule r))
       end.

Definition judge_lookups (n : nat) (out : val) : verdict :=
  if is_trap out then JBad B"trapped" else
  match out with
  | VErr _ => JOk                      (* the zone was rejected: nothing to look up *)
  | VTup l => if existsb is_trap l then JBad B"lookup-trapped-on-an-accepted-zone"
              else if Nat.eqb (List.length l) n then JOk else JBad B"answer-count"
  | _ => JBad B"shape"
  end.

(* lookups on a file: an answer other than an error means the file was accepted, which a file
   outside [expected_dump] (e.g. a type with utoff = -2^31) must not be *)
Definition judge_file_lookups (s : bytes) (n : nat) (out : val) : verdict :=
  match judge_lookups n out with
  | JOk => match out with
           | VTup _ => match expected_dump s with
                       | None => JBad B"malformed-file-accepted"
                       | Some _ => JOk
                       end
           | _ => JOk
           end
  | v => v
  end.

Definition flag_of (v : val) : option bool :=
  match v with VInt 0 => Some false | VInt 1 => Some true | _ => None end.
Definition i64_ok (v : val) : bool := match v with VInt z => in_i64 z | _ => false end.
Definition ndt_ok (v : val) : bool :=
  match v with
  | VTup [VInt y; VInt o; VInt s; VInt f] =>
      year_in_range y && valid_yo y o && (0 <=? s) && (s <? 86400) && (0 <=? f) && (f <? 2000000000)
  | _ => false
  end.

Definition judge (op : bytes) (args : list val) (out : val) : verdict :=
  if op_is op "tz.parse" then
    match args with [VStr s] => judge_parse s out | _ => JSkip end
  else if op_is op "tz.rule" then
    match args with
    | [VStr s; e] => match flag_of e with Some ext => judge_rule s ext out | None => JSkip end
    | _ => JSkip end
  else if op_is op "tz.at" then
    match args with
    | [VStr s; VTup ts] => if forallb i64_ok ts then judge_file_lookups s (List.length ts) out else JSkip
    | _ => JSkip end
  else if op_is op "tz.atlocal" then
    match args with
    | [VStr s; VTup ns] => if forallb ndt_ok ns then judge_file_lookups s (List.length ns) out else JSkip
    | _ => JSkip end
  else if op_is op "tz.rat" then
    match args with
    | [VStr _; e; VTup ts] =>
        match flag_of e with
        | Some _ => if forallb i64_ok ts then judge_lookups (List.length ts) out else JSkip
        | None => JSkip end
    | _ => JSkip end
  else if op_is op "tz.ratlocal" then
    match args with
    | [VStr _; e; VTup ns] =>
        match flag_of e with
        | Some _ => if forallb ndt_ok ns then judge_lookups (List.length ns) out else JSkip
        | None => JSkip end
    | _ => JSkip end
  else JSkip.
